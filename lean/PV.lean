-- root of the library: everything `lake build PV` must compile
import PV.Model.Arith
import PV.Model.FloatArith
import PV.Generated.Score
import PV.Proofs.ArithLemmas
import PV.Proofs.ScoreLemmas
import PV.Properties.C15
import PV.Model.SCC
import PV.Properties.C11
import PV.Model.Grouping
import PV.Properties.C10
import PV.Model.TED
import PV.Properties.C07
import PV.Model.Gate
import PV.Generated.GateFacts
import PV.Properties.C19
import PV.Model.Summary
import PV.Model.CFG
