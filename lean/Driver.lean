import PV.Model.FloatArith
import PV.Generated.Score
import PV.Model.SCC
/-!
Line-protocol driver: runs the executable models on the cases the harness also ran on the
implementation.  Core-only imports (links as a native executable).
One request per line: `<cmd> <space separated tokens>`; one response line per request.
-/
open PV

def tokI (s : String) : Int := s.toInt?.getD 0
def tokB (s : String) : Bool := s == "1"

/-- `score`: 23 tokens, see /verif/py/pv/c15.py -/
def runScore (t : Array String) : String :=
  if t.size < 23 then "bad-op" else
  let l10 := floatOfHex t[21]!
  let l2 := floatOfHex t[22]!
  let _inst : Arith Float := floatArith l10 l2
  let s : PV.Generated.Score.AnalyzeSummary Float := {
    TotalFiles := tokI t[0]!, DepsEnabled := tokB t[1]!, ArchEnabled := tokB t[2]!,
    DepsTotalModules := tokI t[3]!, DepsModulesInCycles := tokI t[4]!, DepsMaxDepth := tokI t[5]!,
    DepsMainSequenceDeviation := floatOfHex t[6]!, ArchCompliance := floatOfHex t[7]!,
    AverageComplexity := floatOfHex t[8]!, DeadCodeCount := tokI t[9]!,
    CriticalDeadCode := tokI t[10]!, WarningDeadCode := tokI t[11]!, InfoDeadCode := tokI t[12]!,
    CodeDuplication := floatOfHex t[13]!,
    CBOClasses := tokI t[14]!, HighCouplingClasses := tokI t[15]!, MediumCouplingClasses := tokI t[16]!,
    LCOMClasses := tokI t[17]!, HighLCOMClasses := tokI t[18]!, MediumLCOMClasses := tokI t[19]!,
    HighComplexityCount := tokI t[20]! }
  let fb := PV.Generated.Score.CalculateFallbackScore Float s
  let (err, o) := PV.Generated.Score.CalculateHealthScore Float s
  let g := PV.Generated.Score.GetGradeFromScore Float o.HealthScore
  s!"{if err then 1 else 0} {o.HealthScore} {o.Grade} {o.ComplexityScore} {o.DeadCodeScore} {o.DuplicationScore} {o.CouplingScore} {o.CohesionScore} {o.DependencyScore} {o.ArchitectureScore} {fb} {g}"

def joinWith (sep : String) (l : List String) : String := sep.intercalate l

/-- `scc n u1 v1 u2 v2 …` → `cycles|severities|total|modules`, cycles as `0,1,2;3,4` -/
def runScc (t : Array String) : String :=
  if t.size < 1 then "bad-op" else
  let n := (tokI t[0]!).toNat
  let rec pairs (i : Nat) (fuel : Nat) (acc : List (Nat × Nat)) : List (Nat × Nat) :=
    match fuel with
    | 0 => acc.reverse
    | f + 1 => if i + 1 < t.size then pairs (i + 2) f (((tokI t[i]!).toNat, (tokI t[i+1]!).toNat) :: acc) else acc.reverse
  let g : PV.SCC.G := { n := n, edges := pairs 1 t.size [] }
  match PV.SCC.cycles g with
  | none => "fuel-exhausted"
  | some cs =>
    let st := PV.SCC.stats g cs
    let cyc := joinWith ";" (cs.map fun c => joinWith "," (c.map toString))
    s!"{cyc}|{joinWith "," st.severities}|{st.totalCycles}|{st.modulesInCycles}"

def step (line : String) : String :=
  let parts := (line.splitOn " ").filter (· ≠ "")
  match parts with
  | [] => "bad-op"
  | cmd :: rest =>
    let t := rest.toArray
    match cmd with
    | "score" => runScore t
    | "scc" => runScc t
    | _ => "bad-op"

partial def loop (h : IO.FS.Stream) (out : IO.FS.Stream) : IO Unit := do
  let line ← h.getLine
  if line.isEmpty then return ()
  let l := line.trimAscii.toString
  out.putStrLn (step l)
  loop h out

def main : IO Unit := do
  let out ← IO.getStdout
  loop (← IO.getStdin) out
  out.flush
