import Std.Data.HashMap
import PV.Model.FloatArith
import PV.Generated.Score
import PV.Model.SCC
import PV.Model.Tarjan
import PV.Model.Grouping
import PV.Model.TED
import PV.Model.ZS
import PV.Model.Gate
import PV.Model.CFG
import PV.Model.Summary
import PV.Model.PySem
import PV.Proofs.CFGSound3
import PV.Proofs.CFGRangesElif
import PV.Model.StructDead
import PV.Model.Decisions
import PV.Model.Registry
import PV.Model.LCOM
import PV.Model.CBO
import PV.Model.Clone
import PV.Model.Imports
import PV.Model.Files
import PV.Model.Agg
/-!
Line-protocol driver: runs the executable models on the cases the harness also ran on the
implementation.  Core-only imports (links as a native executable).
One request per line: `<cmd> <space separated tokens>`; one response line per request.
-/
open PV

def tokI (s : String) : Int := s.toInt?.getD 0
def tokB (s : String) : Bool := s == "1"

/-- `score`: 23 tokens, see /verif/py/pv/c15.py -/
def runScore (t : Array String) : String :=
  if t.size < 23 then "bad-op" else
  let l10 := floatOfHex t[21]!
  let l2 := floatOfHex t[22]!
  let _inst : Arith Float := floatArith l10 l2
  let s : PV.Generated.Score.AnalyzeSummary Float := {
    TotalFiles := tokI t[0]!, DepsEnabled := tokB t[1]!, ArchEnabled := tokB t[2]!,
    DepsTotalModules := tokI t[3]!, DepsModulesInCycles := tokI t[4]!, DepsMaxDepth := tokI t[5]!,
    DepsMainSequenceDeviation := floatOfHex t[6]!, ArchCompliance := floatOfHex t[7]!,
    AverageComplexity := floatOfHex t[8]!, DeadCodeCount := tokI t[9]!,
    CriticalDeadCode := tokI t[10]!, WarningDeadCode := tokI t[11]!, InfoDeadCode := tokI t[12]!,
    CodeDuplication := floatOfHex t[13]!,
    CBOClasses := tokI t[14]!, HighCouplingClasses := tokI t[15]!, MediumCouplingClasses := tokI t[16]!,
    LCOMClasses := tokI t[17]!, HighLCOMClasses := tokI t[18]!, MediumLCOMClasses := tokI t[19]!,
    HighComplexityCount := tokI t[20]! }
  let fb := PV.Generated.Score.CalculateFallbackScore Float s
  let (err, o) := PV.Generated.Score.CalculateHealthScore Float s
  let g := PV.Generated.Score.GetGradeFromScore Float o.HealthScore
  s!"{if err then 1 else 0} {o.HealthScore} {o.Grade} {o.ComplexityScore} {o.DeadCodeScore} {o.DuplicationScore} {o.CouplingScore} {o.CohesionScore} {o.DependencyScore} {o.ArchitectureScore} {fb} {g}"

def joinWith (sep : String) (l : List String) : String := sep.intercalate l

/-- `scc n u1 v1 u2 v2 …` → `cycles|severities|total|modules`, cycles as `0,1,2;3,4` -/
def runScc (t : Array String) : String :=
  if t.size < 1 then "bad-op" else
  let n := (tokI t[0]!).toNat
  let rec pairs (i : Nat) (fuel : Nat) (acc : List (Nat × Nat)) : List (Nat × Nat) :=
    match fuel with
    | 0 => acc.reverse
    | f + 1 => if i + 1 < t.size then pairs (i + 2) f (((tokI t[i]!).toNat, (tokI t[i+1]!).toNat) :: acc) else acc.reverse
  let g : PV.SCC.G := { n := n, edges := pairs 1 t.size [] }
  match PV.SCC.cycles g with
  | none => "fuel-exhausted"
  | some cs =>
    let st := PV.SCC.stats g cs
    let cyc := joinWith ";" (cs.map fun c => joinWith "," (c.map toString))
    s!"{cyc}|{joinWith "," st.severities}|{st.totalCycles}|{st.modulesInCycles}"

/-- `tarjan n u v …`: the LITERAL mirror of pyscn's Tarjan pass (PV.Tarjan.goRun, proved correct in PV/Proofs/TarjanCorrect.lean):
components in emission order | index of every vertex | final low-link of every vertex | fuel flag -/
def runTarjan (t : Array String) : String :=
  if t.size < 1 then "bad-op" else
  let n := (tokI t[0]!).toNat
  let rec pairs (i : Nat) (fuel : Nat) (acc : List (Nat × Nat)) : List (Nat × Nat) :=
    match fuel with
    | 0 => acc.reverse
    | f + 1 => if i + 1 < t.size then pairs (i + 2) f (((tokI t[i]!).toNat, (tokI t[i+1]!).toNat) :: acc) else acc.reverse
  let g : PV.SCC.G := { n := n, edges := pairs 1 t.size [] }
  let s := PV.Tarjan.goRun g
  let comps := joinWith ";" (s.components.map fun c => joinWith "," (c.map toString))
  let ind := joinWith "," ((List.range n).map fun v => toString ((s.idx v).getD 0))
  let low := joinWith "," ((List.range n).map fun v => toString (s.low v))
  s!"{comps}|{ind}|{low}|{if s.ok then 1 else 0}"

def showGroups (gs : List (List Nat)) : String :=
  joinWith ";" (gs.map fun c => joinWith "," (c.map toString))

def parseGroups (s : String) : List (List Nat) :=
  if s == "-" then [] else
  (s.splitOn ";").map fun g => (g.splitOn ",").map fun x => (x.toNat?.getD 0)

/-- `group <mode> n theta k <impl-groups|-> u v sim …`
    connected / k_core: prints the MODEL's groups, then the checker verdicts on the implementation's groups;
    complete_linkage / star: prints `-`, then the verdicts. Verdicts: common, mode-contract (1/0). -/
def runGroup (t : Array String) : String :=
  if t.size < 5 then "bad-op" else
  let mode := t[0]!
  let n := (tokI t[1]!).toNat
  let θ := (tokI t[2]!).toNat
  let k := PV.Grouping.effK (tokI t[3]!).toNat
  let impl := parseGroups t[4]!
  let rec pairs (i : Nat) (fuel : Nat) (acc : List PV.Grouping.Pair) : List PV.Grouping.Pair :=
    match fuel with
    | 0 => acc.reverse
    | f + 1 => if i + 2 < t.size then
        pairs (i + 3) f ({ u := (tokI t[i]!).toNat, v := (tokI t[i+1]!).toNat, sim := (tokI t[i+2]!).toNat } :: acc)
      else acc.reverse
  let ps := pairs 5 t.size []
  let b (x : Bool) : String := if x then "1" else "0"
  let common := PV.Grouping.checkCommon impl
  match mode with
  | "connected" =>
    match PV.Grouping.connectedGroups n θ ps with
    | none => "fuel-exhausted"
    | some gs => s!"{showGroups gs}|{b common}|1"
  | "k_core" =>
    match PV.Grouping.kcoreGroups n θ k ps with
    | none => "fuel-exhausted"
    | some gs => s!"{showGroups gs}|{b common}|{b (PV.Grouping.checkKCore θ k ps impl)}"
  | "complete_linkage" => s!"-|{b common}|{b (PV.Grouping.checkComplete θ ps impl)}"
  | "star" => s!"-|{b common}|{b (PV.Grouping.checkStar θ ps impl)}"
  | "centroid" => s!"-|{b common}|{b (PV.Grouping.checkLinked n θ ps impl)}"
  | _ => "bad-op"

/-- parse a preorder (label arity)* token stream into a tree; returns the tree and the next position -/
partial def parseTree (t : Array String) (pos : Nat) : PV.TED.Tree × Nat :=
  let lab := (tokI t[pos]!).toNat
  let ar := (tokI t[pos+1]!).toNat
  let rec kids (k : Nat) (p : Nat) (acc : List PV.TED.Tree) : List PV.TED.Tree × Nat :=
    match k with
    | 0 => (acc.reverse, p)
    | k' + 1 => let (c, p') := parseTree t p; kids k' p' (c :: acc)
  let (cs, p) := kids ar (pos + 2) []
  (.node lab cs, p)

/-- `ted L del*L ins*L ren*(L*L) n1 (lab ar)*n1 n2 (lab ar)*n2` → `dist simNum simDen` (costs in 1/1000) -/
def runTed (t : Array String) : String :=
  if t.size < 1 then "bad-op" else
  let L := (tokI t[0]!).toNat
  let del := (List.range L).map fun i => (tokI t[1 + i]!).toNat
  let ins := (List.range L).map fun i => (tokI t[1 + L + i]!).toNat
  let ren := (List.range (L * L)).map fun i => (tokI t[1 + 2 * L + i]!).toNat
  let c : PV.TED.Cost := { del := fun a => del.getD a 0, ins := fun a => ins.getD a 0, ren := fun a b => ren.getD (a * L + b) 0 }
  let p0 := 1 + 2 * L + L * L
  let n1 := (tokI t[p0]!).toNat
  let (t1, _) := parseTree t (p0 + 1)
  let p1 := p0 + 1 + 2 * n1
  let n2 := (tokI t[p1]!).toNat
  let (t2, _) := parseTree t (p1 + 1)
  let d := PV.TED.dist c t1 t2
  let (sn, sd) := PV.TED.similarity 1000 d n1 n2
  -- the Zhang–Shasha MIRROR (PV.ZS, proved equal to `dist`): its distance, and the tree preparation (left-most leaf of every post-order
  -- position, key roots in ascending order) for the internal-state comparison with apted_tree.go
  let prep (t : PV.TED.Tree) : String :=
    let p := PV.ZS.mkPost t
    joinWith "," ((List.range p.n).map fun k => toString (p.lml k)) ++ "/" ++ joinWith "," ((PV.ZS.keyrootsT t).map toString)
  -- the mirror keeps its tables as functions (one closure layer per update): it is only evaluated on small pairs
  let zs := if t1.size + t2.size ≤ 7 then PV.ZS.zsDist c t1 t2 else d
  s!"{d} {sn} {sd} {t1.size} {t2.size} {zs} {prep t1} {prep t2}"

def sevOf (s : String) : PV.Gate.Sev :=
  if s == "c" then .critical else if s == "w" then .warning else .info

def intList (s : String) : List Int := if s == "" then [] else (s.splitOn ",").map tokI

/-- `gate <select: 5 chars 0/1 for complexity,deadcode,clones,deps,mockdata | -> maxCx changed allowDead skipClones allowCirc maxCycles
          <cx: E | cfgMax:c1,c2,…> <dead: E | gate:s1,s2,…> <clones: E|n> <cycles: E|n> <mock: E|n>` → 1 (exit 0) / 0 -/
def runGate (t : Array String) : String :=
  if t.size < 12 then "bad-op" else
  let all : List PV.Gate.Analysis := [.complexity, .deadcode, .clones, .deps, .mockdata]
  let sel : List PV.Gate.Analysis :=
    if t[0]! == "-" then [] else (all.zip t[0]!.toList).filterMap fun (a, c) => if c == '1' then some a else none
  let f : PV.Gate.Flags := { select := sel, maxComplexity := tokI t[1]!, maxComplexityChanged := tokB t[2]!, allowDead := tokB t[3]!,
                             skipClones := tokB t[4]!, allowCirc := tokB t[5]!, maxCycles := tokI t[6]! }
  let optN (s : String) : Option Nat := if s == "E" then none else some (tokI s).toNat
  let cx : Option (List Int × Int) :=
    if t[7]! == "E" then none else
      match t[7]!.splitOn ":" with
      | [m, cs] => some (intList cs, tokI m)
      | _ => none
  let dead : Option (List PV.Gate.Sev × PV.Gate.Sev) :=
    if t[8]! == "E" then none else
      match t[8]!.splitOn ":" with
      | [g, ss] => some ((if ss == "" then [] else (ss.splitOn ",").map sevOf), sevOf g)
      | _ => none
  let r : PV.Gate.Results := { cx := cx, dead := dead, clones := optN t[9]!, cycles := optN t[10]!, mock := optN t[11]! }
  if PV.Gate.exitZero f r then "1" else "0"

open PV.CFG in
mutual
  /-- parse one statement at `pos`; returns the statement and the next position -/
  partial def parseStmt (t : Array String) (pos : Nat) : Stmt × Nat :=
    let k := t[pos]!
    let s := (tokI t[pos+1]!).toNat
    let e := (tokI t[pos+2]!).toNat
    let p := pos + 3
    match k with
    | "s" | "ret" =>
      let hasComp := tokB t[p]!
      let n := (tokI t[p+1]!).toNat
      let comp := (List.range n).map fun i => tokB t[p+2+i]!
      (if k == "s" then .simple s e comp hasComp else .ret s e comp hasComp, p + 2 + n)
    | "brk" => (.brk s e, p)
    | "cont" => (.cont s e, p)
    | "raise" => (.raise s e, p)
    | "if" => let (a, p) := parseList t p; let (b, p) := parseList t p; (.ite s e a b, p)
    | "elif" => let (a, p) := parseList t p; let (b, p) := parseList t p; (.elifc s e a b, p)
    | "else" => let (a, p) := parseList t p; (.elsec s e a, p)
    | "loop" => let (a, p) := parseList t p; let (b, p) := parseList t p; (.loop s e a b, p)
    | "try" =>
      let (a, p) := parseList t p; let (b, p) := parseList t p; let (c, p) := parseList t p; let (d, p) := parseList t p
      (.try_ s e a b c d, p)
    | "handler" => let (a, p) := parseList t p; (.handler s e a, p)
    | "with" => let (a, p) := parseList t p; (.with_ s e a, p)
    | "match" => let (a, p) := parseList t p; (.match_ s e a, p)
    | "case" => let (a, p) := parseList t p; (.case_ s e a, p)
    | "def" => let (a, p) := parseList t p; (.def_ s e a, p)
    | "class" => let (a, p) := parseList t p; (.class_ s e a, p)
    | _ => (.simple s e [] false, p)
  /-- `[ n item…` -/
  partial def parseList (t : Array String) (pos : Nat) : List Stmt × Nat :=
    let n := (tokI t[pos+1]!).toNat
    let rec go (k : Nat) (p : Nat) (acc : List Stmt) : List Stmt × Nat :=
      match k with
      | 0 => (acc.reverse, p)
      | k' + 1 => let (x, p') := parseStmt t p; go k' p' (x :: acc)
    go n (pos + 2) []
end

def natsSorted (l : List Nat) : String := joinWith "," ((l.toArray.qsort (· < ·)).toList.map toString)

/-- `cfg <f|c|m> s e <list>` → `complexity|s-e-c;…|live lines|dead lines` -/
def runCfg (t : Array String) : String :=
  if t.size < 5 then "bad-op" else
  let k : PV.CFG.Kind := if t[0]! == "f" then .func else if t[0]! == "c" then .cls else .module
  let (body, _) := parseList t 3
  let st := PV.CFG.build k (tokI t[1]!).toNat (tokI t[2]!).toNat body
  let fs := (PV.CFG.findings st).toArray.qsort (fun a b => a.s < b.s || (a.s == b.s && a.e < b.e))
  let fstr := joinWith ";" (fs.toList.map fun f => s!"{f.s}-{f.e}-{if f.critical then "c" else "w"}")
  -- last field: the WHOLE graph of the mirror — per block id: the statements it holds (start-end, in insertion order) and its out-edges (target/type, in the
  -- order they were added) — compared with the real builder's graph block by block (ids are allocated in the same order on both sides)
  let ety (e : PV.CFG.ETy) : String := match e with
    | .normal => "normal" | .condT => "true" | .condF => "false" | .exc => "exception" | .loop => "loop" | .brk => "break" | .cont => "continue" | .ret => "return"
  let blocks := (List.range st.next).map fun b =>
    let ss := (st.stmts.reverse.filter (fun r => r.blk == b)).map fun r => s!"{r.s}-{r.e}"
    let es := (st.edges.reverse.filter (fun x => x.1 == b)).map fun x => s!"{x.2.1}/{ety x.2.2}"
    s!"{b}:{joinWith "," ss}:{joinWith "," es}"
  s!"{PV.CFG.complexity st}|{fstr}|{natsSorted (PV.CFG.liveLines st)}|{natsSorted (PV.CFG.deadLines st)}|{joinWith ";" blocks}"

def hex16 (f : Float) : String :=
  let u := f.toBits.toNat
  let digs := (List.range 16).map fun i => (Nat.toDigits 16 ((u / 16 ^ (15 - i)) % 16)).headD '0'
  String.ofList digs

/-- `summary depsEn archEn cx? files n avg high dead? total crit warn info clone? total pairs groups lines cbo? classes high med avg
    lcom? classes high med avg sys? hasDeps modules depth hasCirc cycMods hasCoupling msd hasArch compliance l10 l2` -/
def runSummary (t : Array String) : String :=
  if t.size < 39 then "bad-op" else
  let l10 := floatOfHex t[37]!
  let l2 := floatOfHex t[38]!
  let _inst : Arith Float := floatArith l10 l2
  let i (k : Nat) : Int := tokI t[k]!
  let b (k : Nat) : Bool := tokB t[k]!
  let f (k : Nat) : Float := floatOfHex t[k]!
  let r : PV.Summary.Sections Float := {
    cx := if b 2 then some { files := i 3, n := i 4, avg := f 5, high := i 6 } else none,
    dead := if b 7 then some { total := i 8, crit := i 9, warn := i 10, info := i 11 } else none,
    clone := if b 12 then some { total := i 13, pairs := i 14, groups := i 15, lines := i 16 } else none,
    cbo := if b 17 then some { classes := i 18, high := i 19, med := i 20, avg := f 21 } else none,
    lcom := if b 22 then some { classes := i 23, high := i 24, med := i 25, avg := f 26 } else none,
    sys := if b 27 then some { hasDeps := b 28, modules := i 29, depth := i 30, hasCirc := b 31, cycMods := i 32, hasCoupling := b 33, msd := f 34,
                               hasArch := b 35, compliance := f 36 } else none }
  let s0 : PV.Generated.Score.AnalyzeSummary Float := { DepsEnabled := b 0, ArchEnabled := b 1 }
  let s := PV.Summary.calculateSummary Float s0 r
  let ints := [s.TotalFiles, s.AnalyzedFiles, s.TotalFunctions, s.HighComplexityCount, s.DeadCodeCount, s.CriticalDeadCode, s.WarningDeadCode,
    s.InfoDeadCode, s.TotalClones, s.ClonePairs, s.CloneGroups, s.CBOClasses, s.HighCouplingClasses, s.MediumCouplingClasses,
    s.LCOMClasses, s.HighLCOMClasses, s.MediumLCOMClasses, s.DepsTotalModules, s.DepsModulesInCycles, s.DepsMaxDepth]
  let floats := [s.AverageComplexity, s.CodeDuplication, s.AverageCoupling, s.AverageLCOM, s.DepsMainSequenceDeviation, s.ArchCompliance]
  let scores := [s.ComplexityScore, s.DeadCodeScore, s.DuplicationScore, s.CouplingScore, s.CohesionScore, s.DependencyScore, s.ArchitectureScore]
  s!"{joinWith "," (ints.map toString)}|{joinWith "," (floats.map hex16)}|{s.HealthScore}|{s.Grade}|{joinWith "," (scores.map toString)}"

/-- `live <f|c|m> s e <list>` → the lines `PV.Py.live` predicts executable when the body is entered, and the possible outcomes -/
def runLive (t : Array String) : String :=
  if t.size < 5 then "bad-op" else
  let (body, _) := parseList t 3
  let r := PV.Py.live body
  let o := r.outs
  let b (x : Bool) : String := if x then "1" else "0"
  -- last two fields: is the body inside the fragment of the mirror-soundness theorems (C01_mirror_sound_notry / C01_mirror_sound)?
  -- + the hypotheses of the RANGE-level theorem C01_ranges_sound_all: okRE (fragment) and WFLoc (source spans: one statement per line, nested spans)
  s!"{natsSorted r.lines.eraseDups}|{b o.normal}{b o.ret}{b o.brk}{b o.cont}{b o.exc}|{b (PV.CFGSound.okL false body)}|{b (PV.CFGSound.okL3 false false body)}|{b (PV.CFGSound.okRE body)}|{b (PV.CFGSound.wfL 1 body)}"

/-- `sdead <f|c|m> s e <list>` → the lines that must be reported: start lines of all statements inside structurally dead statements (specification of C02) -/
def runSDead (t : Array String) : String :=
  if t.size < 5 then "bad-op" else
  let (body, _) := parseList t 3
  natsSorted (PV.SD.structDead body).eraseDups

/-- `mccabe <dead ranges s-e;s-e | -> <f|c|m> s e <list>` → 1 + decision count (specification of C03) -/
def runMccabe (t : Array String) : String :=
  if t.size < 6 then "bad-op" else
  let ranges : List (Nat × Nat) := if t[0]! == "-" then [] else
    (t[0]!.splitOn ";").filterMap fun r => match r.splitOn "-" with
      | [a, b] => some ((tokI a).toNat, (tokI b).toNat)
      | _ => none
  let dead (l : Nat) : Bool := ranges.any fun r => decide (r.1 ≤ l) && decide (l ≤ r.2)
  let (body, _) := parseList t 4
  toString (PV.Dec.mccabe dead body)

mutual
  partial def parseDef (t : Array String) (pos : Nat) : PV.Reg.Def × Nat :=
    let k := t[pos]!
    let name := t[pos+1]!
    let s := (tokI t[pos+2]!).toNat
    let e := (tokI t[pos+3]!).toNat
    let (kids, p) := parseDefs t (pos + 4)
    (if k == "fn" then .fn name s e kids else .cls name s e kids, p)
  partial def parseDefs (t : Array String) (pos : Nat) : List PV.Reg.Def × Nat :=
    let n := (tokI t[pos+1]!).toNat
    let rec go (k : Nat) (p : Nat) (acc : List PV.Reg.Def) : List PV.Reg.Def × Nat :=
      match k with
      | 0 => (acc.reverse, p)
      | k' + 1 => let (x, p') := parseDef t p; go k' p' (x :: acc)
    go n (pos + 2) []
end

/-- `reg [ n (fn|cls name s e [ n …)…` → registry rows `name:s:e;…` in registration order -/
def runReg (t : Array String) : String :=
  if t.size < 2 then "bad-op" else
  let (ds, _) := parseDefs t 0
  joinWith ";" ((PV.Reg.registry (PV.Reg.allFuncs [] ds)).map fun r => s!"{r.name}:{r.s}:{r.e}")

def natList (s : String) : List Nat := if s == "-" || s == "" then [] else (s.splitOn ",").map fun x => (tokI x).toNat

/-- `lcom n attrs_0 … attrs_{n-1} calls_0 … calls_{n-1}` (each `a,b,c` or `-`) → `lcom4|groups` -/
def runLcom (t : Array String) : String :=
  if t.size < 1 then "bad-op" else
  let n := (tokI t[0]!).toNat
  if t.size < 1 + 2 * n then "bad-op" else
  let c : PV.LCOM.Cls := { n := n, attrs := (List.range n).map (fun i => natList t[1 + i]!), calls := (List.range n).map (fun i => natList t[1 + n + i]!) }
  match PV.LCOM.lcom4 c, PV.LCOM.groups c with
  | some k, some gs => s!"{k}|{showGroups gs}"
  | _, _ => "fuel-exhausted"

/-- `cbo <excluded ids a,b|-> <mentions a,b,c|->` → `count|deps` -/
def runCbo (t : Array String) : String :=
  if t.size < 2 then "bad-op" else
  let ex := natList t[0]!
  let ms := natList t[1]!
  let d := PV.CBO.deps (fun n => ex.contains n) ms
  s!"{d.length}|{joinWith "," (d.map toString)}"

/-! ### clones (C08 / C09) -/
def hexDigit (n : Nat) : Char := if n < 10 then Char.ofNat (48 + n) else Char.ofNat (87 + n)
def hex64 (u : UInt64) : String :=
  String.ofList ((List.range 16).map fun k => hexDigit ((u >>> (UInt64.ofNat (60 - 4 * k))).toNat % 16))
def hexVal (c : Char) : Nat :=
  if '0' ≤ c ∧ c ≤ '9' then c.toNat - 48 else if 'a' ≤ c ∧ c ≤ 'f' then c.toNat - 87 else 0
def hexBytes (s : String) : List UInt8 :=
  let rec go : List Char → List UInt8
    | a :: b :: r => (UInt8.ofNat (hexVal a * 16 + hexVal b)) :: go r
    | _ => []
  go s.toList
def tokN (s : String) : Nat := s.toNat?.getD 0

def showPair (p : PV.Clone.Pair Float) : String := s!"{p.i}:{p.j}:{p.ty}:{hex64 p.sim.toBits}:{hex64 p.dist.toBits}"
def showPairs (l : List (PV.Clone.Pair Float)) : String :=
  let xs := (l.map showPair).toArray.qsort (· < ·)
  if xs.isEmpty then "-" else joinWith " " xs.toList

/-- `clones <mode> t1 t2 t3 t4 simThr maxDist minNodes minLines minSim maxSim enabledCSV maxPairs n (file s e size lines)*n m (i j simhex disthex)*m <mode args>` -/
def runClones (t : Array String) : String :=
  if t.size < 14 then "bad-op" else
  let _inst : Arith Float := floatArith 0 0
  let mode := t[0]!
  let c : PV.Clone.Cfg Float := {
    t1 := floatOfHex t[1]!, t2 := floatOfHex t[2]!, t3 := floatOfHex t[3]!, t4 := floatOfHex t[4]!,
    simThr := floatOfHex t[5]!, maxDist := floatOfHex t[6]!, minNodes := tokN t[7]!, minLines := tokN t[8]!,
    minSim := floatOfHex t[9]!, maxSim := floatOfHex t[10]!, enabled := (natList t[11]!).map Int.ofNat, maxPairs := tokN t[12]! }
  let n := tokN t[13]!
  let fb := 14
  if t.size < fb + 5 * n + 1 then "bad-op" else
  let frs : Array PV.Clone.Frag := (Array.range n).map fun k =>
    { file := tokN t[fb + 5 * k]!, s := tokN t[fb + 5 * k + 1]!, e := tokN t[fb + 5 * k + 2]!, size := tokN t[fb + 5 * k + 3]!, lines := tokN t[fb + 5 * k + 4]! }
  let fr : Nat → PV.Clone.Frag := fun i => frs.getD i default
  let mb := fb + 5 * n
  let m := tokN t[mb]!
  if t.size < mb + 1 + 4 * m then "bad-op" else
  let tbl : Std.HashMap (Nat × Nat) (Float × Float) := (List.range m).foldl (fun acc k =>
    acc.insert (tokN t[mb + 1 + 4 * k]!, tokN t[mb + 1 + 4 * k + 1]!) (floatOfHex t[mb + 1 + 4 * k + 2]!, floatOfHex t[mb + 1 + 4 * k + 3]!)) {}
  let cmp : PV.Clone.Cmp Float := fun i j => tbl.get? (i, j)
  let ab := mb + 1 + 4 * m
  match mode with
  | "std" =>
    s!"D {showPairs (PV.Clone.standard c fr cmp n)} | R {showPairs (PV.Clone.report c fr cmp n)}"
  | "auto" =>
    if t.size < ab + 4 then "bad-op" else
    showPairs (PV.Clone.detectAuto c fr cmp n (tokI t[ab]!) (tokI t[ab + 1]!) (tokI t[ab + 2]!) (tokI t[ab + 3]!))
  | "batch" =>
    if t.size < ab + 2 then "bad-op" else
    showPairs (PV.Clone.batched c fr cmp n (tokI t[ab]!) (tokI t[ab + 1]!))
  | "lsh" =>
    if t.size < ab + 4 then "bad-op" else
    let bands := tokI t[ab]!
    let rows := tokI t[ab + 1]!
    let thr := floatOfHex t[ab + 2]!
    let nh := tokN t[ab + 3]!
    if t.size < ab + 4 + 2 * nh then "bad-op" else
    let hs : List (Nat → Nat) := (List.range nh).map fun k =>
      let a := (tokN t[ab + 4 + k]!).toUInt64
      let b := (tokN t[ab + 4 + nh + k]!).toUInt64
      fun x => (PV.Clone.hashFam a b x.toUInt64).toNat
    -- per fragment: count, then hex-encoded feature strings
    let rec feats (pos : Nat) (k : Nat) (acc : Array (List Nat)) : Array (List Nat) :=
      match k with
      | 0 => acc
      | k + 1 =>
        let cnt := tokN (t.getD pos "0")
        let fs := (List.range cnt).map fun q => (PV.Clone.fnv64 (hexBytes (t.getD (pos + 1 + q) ""))).toNat
        feats (pos + 1 + cnt) k (acc.push fs)
    let fts := feats (ab + 4 + 2 * nh) n #[]
    let sigArr : Array (List Nat) := fts.map fun fs => PV.Clone.signature hs (2 ^ 64 - 1) fs
    let sigs : Nat → List Nat := fun i => sigArr.getD i []
    let cand := PV.Clone.isCand PV.Clone.bandHash bands rows sigs
    let est : Nat → Nat → Float := fun i j => PV.Clone.estimate (sigs i) (sigs j)
    let ps := PV.Clone.lshDetect c fr cmp n cand est thr
    let cs := (List.range n).map fun i => s!"{i}:" ++ joinWith "," (((List.range n).filter fun j => cand i j).map toString)
    let ss := (List.range n).map fun i => joinWith "," ((sigs i).map toString)
    s!"P {showPairs ps} | C {joinWith ";" cs} | S {joinWith ";" ss}"
  | _ => "bad-op"

/-! ### imports (C12) -/
def modOf (s : String) : PV.Imports.Mod := if s == "-" || s == "" then [] else s.splitOn "."
def showMod (m : PV.Imports.Mod) : String := joinWith "." m
def showMods (l : List PV.Imports.Mod) : String :=
  let xs := (l.map showMod).toArray.qsort (· < ·)
  if xs.isEmpty then "-" else joinWith "," xs.toList

/-- `imports nmods mods… npkgs pkgs… nexports (pkg name src)… A nstmts (tc kind level module names)…` → `R <required> | A <allowed>` -/
def runImports (t : Array String) : String :=
  if t.size < 1 then "bad-op" else
  let nm := tokN t[0]!
  let mods := (List.range nm).map fun k => modOf (t.getD (1 + k) "")
  let p1 := 1 + nm
  let np := tokN (t.getD p1 "0")
  let pkgs := (List.range np).map fun k => modOf (t.getD (p1 + 1 + k) "")
  let p2 := p1 + 1 + np
  let ne := tokN (t.getD p2 "0")
  let exports := (List.range ne).map fun k => (modOf (t.getD (p2 + 1 + 3 * k) ""), t.getD (p2 + 2 + 3 * k) "", modOf (t.getD (p2 + 3 + 3 * k) ""))
  let p3 := p2 + 1 + 3 * ne
  let A := modOf (t.getD p3 "")
  let ns := tokN (t.getD (p3 + 1) "0")
  let stmts : List PV.Imports.Stmt := (List.range ns).map fun k =>
    let b := p3 + 2 + 5 * k
    let tc := tokB (t.getD b "0")
    let level := tokN (t.getD (b + 2) "0")
    let m := modOf (t.getD (b + 3) "-")
    let names := let x := t.getD (b + 4) "-"; if x == "-" then [] else x.splitOn ","
    { imp := if t.getD (b + 1) "p" == "p" then .plain m else .from_ level m names, typeChecking := tc }
  let L : PV.Imports.Layout := { mods := mods, pkgs := pkgs, exports := exports }
  s!"R {showMods (PV.Imports.requiredEdges L A stmts)} | A {showMods (PV.Imports.allowedEdges L A stmts)}"

/-- `deps n m (a b)*m` → graph bookkeeping: `edges | out degrees | in degrees | maxDepth` -/
def runDeps (t : Array String) : String :=
  if t.size < 2 then "bad-op" else
  let n := tokN t[0]!
  let m := tokN t[1]!
  let ops := (List.range m).map fun k => (tokN (t.getD (2 + 2 * k) "0"), tokN (t.getD (3 + 2 * k) "0"))
  let g := PV.Imports.Graph.build (List.range n) ops
  let adj : Nat → List Nat := fun a => (g.edges.filter fun e => e.1 == a).map (·.2)
  let es := joinWith "," (g.edges.map fun e => s!"{e.1}>{e.2}")
  let od := joinWith "," ((List.range n).map fun k => toString (g.outDeg k))
  let idg := joinWith "," ((List.range n).map fun k => toString (g.inDeg k))
  s!"{es}|{od}|{idg}|{PV.Imports.maxDepth (List.range n) adj}"

/-! ### files (C18) -/
def compsOf (s : String) : List String := if s == "-" then [] else s.splitOn "/"

/-- `files recursive ninc inc… nexc exc… pre nfiles paths…` → selected spelled paths (`,`-joined, sorted) `|` selected relative paths -/
def runFiles (t : Array String) : String :=
  if t.size < 2 then "bad-op" else
  let recursive := tokB t[0]!
  let ni := tokN t[1]!
  let inc := (List.range ni).map fun k => t.getD (2 + k) ""
  let p1 := 2 + ni
  let ne := tokN (t.getD p1 "0")
  let exc := (List.range ne).map fun k => t.getD (p1 + 1 + k) ""
  let p2 := p1 + 1 + ne
  let pre := compsOf (t.getD p2 "-")
  let nf := tokN (t.getD (p2 + 1) "0")
  let tree := (List.range nf).map fun k => compsOf (t.getD (p2 + 2 + k) "-")
  let a := ((PV.Files.collect pre tree recursive inc exc).map (joinWith "/")).toArray.qsort (· < ·)
  let b := ((PV.Files.select tree recursive inc exc).map (joinWith "/")).toArray.qsort (· < ·)
  s!"{joinWith "," a.toList}|{joinWith "," b.toList}"

/-- `glob pattern path` → 0/1 (path `-` = empty string) -/
def runGlob (t : Array String) : String :=
  if t.size < 2 then "bad-op" else
  let path := if t[1]! == "-" then [""] else t[1]!.splitOn "/"
  if PV.Files.glob (if t[0]! == "-" then "" else t[0]!) path then "1" else "0"

/-! ### agg (C16) -/
/-- `agg minv n (value class)*n` → `total sum max min | class=count,… (sorted) | kept` where the items are first filtered by `minv ≤ value` -/
def runAgg (t : Array String) : String :=
  if t.size < 2 then "bad-op" else
  let minv := tokI t[0]!
  let n := tokN t[1]!
  let items := (List.range n).map fun k => (tokI (t.getD (2 + 2 * k) "0"), t.getD (3 + 2 * k) "-")
  let kept := PV.Agg.keepMin minv items
  let a := PV.Agg.aggregate kept
  let cs := ((a.classes.map fun c => s!"{c.1}={c.2}").toArray.qsort (· < ·)).toList
  s!"{a.total} {a.sum} {a.max} {a.min}|{joinWith "," cs}|{kept.length}"

def step (line : String) : String :=
  let parts := (line.splitOn " ").filter (· ≠ "")
  match parts with
  | [] => "bad-op"
  | cmd :: rest =>
    let t := rest.toArray
    match cmd with
    | "score" => runScore t
    | "scc" => runScc t
    | "tarjan" => runTarjan t
    | "group" => runGroup t
    | "ted" => runTed t
    | "gate" => runGate t
    | "cfg" => runCfg t
    | "summary" => runSummary t
    | "live" => runLive t
    | "sdead" => runSDead t
    | "mccabe" => runMccabe t
    | "reg" => runReg t
    | "lcom" => runLcom t
    | "cbo" => runCbo t
    | "clones" => runClones t
    | "imports" => runImports t
    | "files" => runFiles t
    | "glob" => runGlob t
    | "agg" => runAgg t
    | "deps" => runDeps t
    | _ => "bad-op"

partial def loop (h : IO.FS.Stream) (out : IO.FS.Stream) : IO Unit := do
  let line ← h.getLine
  if line.isEmpty then return ()
  let l := line.trimAscii.toString
  out.putStrLn (step l)
  loop h out

def main : IO Unit := do
  let out ← IO.getStdout
  loop (← IO.getStdin) out
  out.flush
