import PV.Model.FloatArith
import PV.Generated.Score
import PV.Model.SCC
import PV.Model.Grouping
/-!
Line-protocol driver: runs the executable models on the cases the harness also ran on the
implementation.  Core-only imports (links as a native executable).
One request per line: `<cmd> <space separated tokens>`; one response line per request.
-/
open PV

def tokI (s : String) : Int := s.toInt?.getD 0
def tokB (s : String) : Bool := s == "1"

/-- `score`: 23 tokens, see /verif/py/pv/c15.py -/
def runScore (t : Array String) : String :=
  if t.size < 23 then "bad-op" else
  let l10 := floatOfHex t[21]!
  let l2 := floatOfHex t[22]!
  let _inst : Arith Float := floatArith l10 l2
  let s : PV.Generated.Score.AnalyzeSummary Float := {
    TotalFiles := tokI t[0]!, DepsEnabled := tokB t[1]!, ArchEnabled := tokB t[2]!,
    DepsTotalModules := tokI t[3]!, DepsModulesInCycles := tokI t[4]!, DepsMaxDepth := tokI t[5]!,
    DepsMainSequenceDeviation := floatOfHex t[6]!, ArchCompliance := floatOfHex t[7]!,
    AverageComplexity := floatOfHex t[8]!, DeadCodeCount := tokI t[9]!,
    CriticalDeadCode := tokI t[10]!, WarningDeadCode := tokI t[11]!, InfoDeadCode := tokI t[12]!,
    CodeDuplication := floatOfHex t[13]!,
    CBOClasses := tokI t[14]!, HighCouplingClasses := tokI t[15]!, MediumCouplingClasses := tokI t[16]!,
    LCOMClasses := tokI t[17]!, HighLCOMClasses := tokI t[18]!, MediumLCOMClasses := tokI t[19]!,
    HighComplexityCount := tokI t[20]! }
  let fb := PV.Generated.Score.CalculateFallbackScore Float s
  let (err, o) := PV.Generated.Score.CalculateHealthScore Float s
  let g := PV.Generated.Score.GetGradeFromScore Float o.HealthScore
  s!"{if err then 1 else 0} {o.HealthScore} {o.Grade} {o.ComplexityScore} {o.DeadCodeScore} {o.DuplicationScore} {o.CouplingScore} {o.CohesionScore} {o.DependencyScore} {o.ArchitectureScore} {fb} {g}"

def joinWith (sep : String) (l : List String) : String := sep.intercalate l

/-- `scc n u1 v1 u2 v2 …` → `cycles|severities|total|modules`, cycles as `0,1,2;3,4` -/
def runScc (t : Array String) : String :=
  if t.size < 1 then "bad-op" else
  let n := (tokI t[0]!).toNat
  let rec pairs (i : Nat) (fuel : Nat) (acc : List (Nat × Nat)) : List (Nat × Nat) :=
    match fuel with
    | 0 => acc.reverse
    | f + 1 => if i + 1 < t.size then pairs (i + 2) f (((tokI t[i]!).toNat, (tokI t[i+1]!).toNat) :: acc) else acc.reverse
  let g : PV.SCC.G := { n := n, edges := pairs 1 t.size [] }
  match PV.SCC.cycles g with
  | none => "fuel-exhausted"
  | some cs =>
    let st := PV.SCC.stats g cs
    let cyc := joinWith ";" (cs.map fun c => joinWith "," (c.map toString))
    s!"{cyc}|{joinWith "," st.severities}|{st.totalCycles}|{st.modulesInCycles}"

def showGroups (gs : List (List Nat)) : String :=
  joinWith ";" (gs.map fun c => joinWith "," (c.map toString))

def parseGroups (s : String) : List (List Nat) :=
  if s == "-" then [] else
  (s.splitOn ";").map fun g => (g.splitOn ",").map fun x => (x.toNat?.getD 0)

/-- `group <mode> n theta k <impl-groups|-> u v sim …`
    connected / k_core: prints the MODEL's groups, then the checker verdicts on the implementation's groups;
    complete_linkage / star: prints `-`, then the verdicts. Verdicts: common, mode-contract (1/0). -/
def runGroup (t : Array String) : String :=
  if t.size < 5 then "bad-op" else
  let mode := t[0]!
  let n := (tokI t[1]!).toNat
  let θ := (tokI t[2]!).toNat
  let k := PV.Grouping.effK (tokI t[3]!).toNat
  let impl := parseGroups t[4]!
  let rec pairs (i : Nat) (fuel : Nat) (acc : List PV.Grouping.Pair) : List PV.Grouping.Pair :=
    match fuel with
    | 0 => acc.reverse
    | f + 1 => if i + 2 < t.size then
        pairs (i + 3) f ({ u := (tokI t[i]!).toNat, v := (tokI t[i+1]!).toNat, sim := (tokI t[i+2]!).toNat } :: acc)
      else acc.reverse
  let ps := pairs 5 t.size []
  let b (x : Bool) : String := if x then "1" else "0"
  let common := PV.Grouping.checkCommon impl
  match mode with
  | "connected" =>
    match PV.Grouping.connectedGroups n θ ps with
    | none => "fuel-exhausted"
    | some gs => s!"{showGroups gs}|{b common}|1"
  | "k_core" =>
    match PV.Grouping.kcoreGroups n θ k ps with
    | none => "fuel-exhausted"
    | some gs => s!"{showGroups gs}|{b common}|{b (PV.Grouping.checkKCore θ k ps impl)}"
  | "complete_linkage" => s!"-|{b common}|{b (PV.Grouping.checkComplete θ ps impl)}"
  | "star" => s!"-|{b common}|{b (PV.Grouping.checkStar θ ps impl)}"
  | _ => "bad-op"

def step (line : String) : String :=
  let parts := (line.splitOn " ").filter (· ≠ "")
  match parts with
  | [] => "bad-op"
  | cmd :: rest =>
    let t := rest.toArray
    match cmd with
    | "score" => runScore t
    | "scc" => runScc t
    | "group" => runGroup t
    | _ => "bad-op"

partial def loop (h : IO.FS.Stream) (out : IO.FS.Stream) : IO Unit := do
  let line ← h.getLine
  if line.isEmpty then return ()
  let l := line.trimAscii.toString
  out.putStrLn (step l)
  loop h out

def main : IO Unit := do
  let out ← IO.getStdout
  loop (← IO.getStdin) out
  out.flush
