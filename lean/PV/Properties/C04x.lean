import PV.Generated.Walkers
import PV.Properties.WalkersExpected
/-!
# C04 (extension) — the AST walkers follow every populated child field, up to a reviewed list

"Every definition is analysed" presupposes that the hand-written recursive walkers over `parser.Node` reach every node. A recurring
defect is "walker X does not descend into field Y" (F15, F29, F51, F58, F59, and the clone walkers below). This file

* ties the walkers to the source: `/verif/extract/walkers.go` regenerates, on every run, the set of child fields the AST builder
  populates and, per pinned walker, the set of fields it follows; `C04_walkers_facts` proves them equal to the reviewed tables
  (`PV.WalkersExpected`), so a walker that loses (or gains) a field breaks a proof obligation;
* proves that every populated field is followed **or** is in the walker's reviewed, classified `missing` list
  (`C04_walkers_complete_up_to_listed`), and that those lists are exact (`C04_walkers_missing_exact`);
* proves the generic lemma of DESIGN §4 C04 on an abstract tree with named child fields: a walker that follows a superset of the
  fields populated in a tree visits every node of it, exactly once, in pre-order (`C04_walk_complete`, `C04_walk_exact`), and
  instantiates it with the generated tables (`C04_walkers_cover`).

Core only (no Mathlib).
-/
namespace PV.C04
open PV

/-! ## The regenerated tie -/

/-- **Tie.** The field sets extracted from the working tree are the reviewed ones. -/
theorem C04_walkers_facts :
    Generated.Walkers.walkers = WalkersExpected.walkers ∧ Generated.Walkers.assigned = WalkersExpected.assigned := ⟨rfl, rfl⟩

/-- **Tie (guards, field inventory).** No new child-capable field in `parser.Node`; the conditional visits are the reviewed ones. -/
theorem C04_walkers_guards :
    Generated.Walkers.guarded = WalkersExpected.guarded ∧ Generated.Walkers.childFields = WalkersExpected.childFields := ⟨rfl, rfl⟩

/-- the reviewed list of fields a walker does not follow -/
def missingOf (w : String) : List String := (WalkersExpected.missing.lookup w).getD []

/-- **Complete up to the listed fields.** For every pinned walker, every child field that the builder populates is followed by the
walker or is in its reviewed `missing` list (each entry classified in `WalkersExpected`). Stated about the GENERATED tables. -/
theorem C04_walkers_complete_up_to_listed :
    ∀ w ∈ Generated.Walkers.walkers, ∀ f ∈ Generated.Walkers.assigned, f ∈ w.2 ∨ f ∈ missingOf w.1 := by decide

/-- The `missing` lists are exact: a walker that starts to follow a listed field makes its classification stale, which must be
noticed too. Also: every pinned walker has a row, every row is a pinned walker. -/
theorem C04_walkers_missing_exact :
    WalkersExpected.missing.map (·.1) = Generated.Walkers.walkers.map (·.1) ∧
    ∀ w ∈ Generated.Walkers.walkers, missingOf w.1 = Generated.Walkers.assigned.filter (fun f => !w.2.contains f) := by decide

/-- every populated field is a child field, and the builder populates every child field (today) -/
theorem C04_walkers_assigned_all : Generated.Walkers.assigned = Generated.Walkers.childFields := rfl

/-- the walkers that reach every STATEMENT position (definitions, imports, fragment candidates live there) -/
def followsStatements (w : String × List String) : Bool := WalkersExpected.statementFields.all w.2.contains

/-- Only the size function of the clone detector fails to follow every statement-bearing field (`Handlers`, `Finalbody`): recorded in
`WalkersExpected.missing`. The two fragment extractors did too until the repair 1c356ef (finding F69); every other pinned walker reaches all statements. -/
theorem C04_walkers_statement_positions :
    (Generated.Walkers.walkers.filter (fun w => !followsStatements w)).map (·.1) =
      ["internal/analyzer/clone_detector.go:calculateASTSize"] := by decide

/-! ## The generic lemma: an abstract tree with named child fields -/

mutual
/-- a node: a label and its children, each hanging in a named field (a field with several children = several entries) -/
inductive T where
  | node (label : Nat) (kids : Kids) : T
/-- the children of a node in order, each tagged with the field that holds it -/
inductive Kids where
  | nil : Kids
  | cons (field : String) (child : T) (rest : Kids) : Kids
end

mutual
/-- every node of the subtree, pre-order -/
def T.all : T → List T
  | .node l ks => .node l ks :: ks.all
def Kids.all : Kids → List T
  | .nil => []
  | .cons _ c r => c.all ++ r.all
end

mutual
/-- the walker parametrised by the fields it follows: visit the node, then recurse into the children that hang in a followed field -/
def T.walk (follow : List String) : T → List T
  | .node l ks => .node l ks :: ks.walk follow
def Kids.walk (follow : List String) : Kids → List T
  | .nil => []
  | .cons f c r => (if follow.contains f then c.walk follow else []) ++ r.walk follow
end

mutual
/-- the fields populated anywhere in the subtree -/
def T.populated : T → List String
  | .node _ ks => ks.populated
def Kids.populated : Kids → List String
  | .nil => []
  | .cons f c r => f :: (c.populated ++ r.populated)
end

mutual
theorem T.walk_eq_all (follow : List String) : (t : T) → (∀ f ∈ t.populated, f ∈ follow) → t.walk follow = t.all
  | .node l ks, h => by
    have := Kids.walk_eq_all follow ks (by simpa [T.populated] using h)
    simp [T.walk, T.all, this]
theorem Kids.walk_eq_all (follow : List String) : (ks : Kids) → (∀ f ∈ ks.populated, f ∈ follow) → ks.walk follow = ks.all
  | .nil, _ => by simp [Kids.walk, Kids.all]
  | .cons f c r, h => by
    have hf : f ∈ follow := h f (by simp [Kids.populated])
    have hc := T.walk_eq_all follow c (fun g hg => h g (by simp [Kids.populated, hg]))
    have hr := Kids.walk_eq_all follow r (fun g hg => h g (by simp [Kids.populated, hg]))
    simp [Kids.walk, Kids.all, hf, hc, hr]
end

mutual
theorem T.walk_sub_all (follow : List String) : (t : T) → ∀ n ∈ t.walk follow, n ∈ t.all
  | .node l ks, n, hn => by
    simp only [T.walk, T.all, List.mem_cons] at hn ⊢
    rcases hn with hn | hn
    · exact Or.inl hn
    · exact Or.inr (Kids.walk_sub_all follow ks n hn)
theorem Kids.walk_sub_all (follow : List String) : (ks : Kids) → ∀ n ∈ ks.walk follow, n ∈ ks.all
  | .nil, n, hn => by simp [Kids.walk] at hn
  | .cons f c r, n, hn => by
    simp only [Kids.walk, Kids.all, List.mem_append] at hn ⊢
    rcases hn with hn | hn
    · by_cases hf : follow.contains f = true
      · rw [if_pos hf] at hn
        exact Or.inl (T.walk_sub_all follow c n hn)
      · rw [if_neg hf] at hn
        cases hn
    · exact Or.inr (Kids.walk_sub_all follow r n hn)
end

/-- **C04 (walk_exact).** If the followed fields include every field populated in the tree, the walk is the pre-order list of ALL
nodes: every node is visited, exactly as often as it occurs, in source order. -/
theorem C04_walk_exact (follow : List String) (t : T) (h : ∀ f ∈ t.populated, f ∈ follow) : t.walk follow = t.all :=
  T.walk_eq_all follow t h

/-- **C04 (walk_complete).** followed ⊇ populated → every node of the subtree is visited. -/
theorem C04_walk_complete (follow : List String) (t : T) (h : ∀ f ∈ t.populated, f ∈ follow) : ∀ n ∈ t.all, n ∈ t.walk follow := by
  intro n hn
  rw [C04_walk_exact follow t h]
  exact hn

/-- **C04 (walk_sound).** Whatever the followed fields are, the walk visits only nodes of the subtree. -/
theorem C04_walk_sound (follow : List String) (t : T) : ∀ n ∈ t.walk follow, n ∈ t.all := T.walk_sub_all follow t

/-- **Instantiation with the generated tables.** For a pinned walker `w`, on every tree that populates only builder-assigned fields and
none of the fields listed as `missing` for `w`, the walker visits every node. (What remains outside: the listed fields, classified one
by one in `WalkersExpected.missing`.) -/
theorem C04_walkers_cover (w : String × List String) (hw : w ∈ Generated.Walkers.walkers) (t : T)
    (h : ∀ f ∈ t.populated, f ∈ Generated.Walkers.assigned ∧ f ∉ missingOf w.1) : t.walk w.2 = t.all := by
  apply C04_walk_exact
  intro f hf
  rcases C04_walkers_complete_up_to_listed w hw f (h f hf).1 with h1 | h1
  · exact h1
  · exact absurd h1 (h f hf).2

/-! ## The excluded case is real: a walker that skips `Handlers` (the clone SIZE function, as extracted; the fragment extractors did the same
until the repair 1c356ef, finding F69) on `try: … except …: def fallback …` -/

/-- the fields the clone size function follows, as extracted from the working tree -/
def cloneFollow : List String :=
  (Generated.Walkers.walkers.lookup "internal/analyzer/clone_detector.go:calculateASTSize").getD []

/-- `Module(Body=[Try(Body=[Import], Handlers=[ExceptHandler(Body=[FunctionDef])])])`: labels 0 Module, 1 Try, 2 Import, 3 ExceptHandler,
4 FunctionDef -/
def tryExceptDef : T :=
  .node 0 (.cons "Body" (.node 1 (.cons "Body" (.node 2 .nil) (.cons "Handlers" (.node 3 (.cons "Body" (.node 4 .nil) .nil)) .nil))) .nil)

/-- The function definition under `except` is a node of the tree and is NOT visited by a walker with this field set (nor is the handler): the size of a
`try` statement ignores its handlers; with the same field set the fragment extractors never saw a function under `except ImportError:` (F69, repaired). -/
theorem C04_clone_walker_skips_handlers :
    (tryExceptDef.all.map (fun | .node l _ => l)) = [0, 1, 2, 3, 4] ∧
    ((tryExceptDef.walk cloneFollow).map (fun | .node l _ => l)) = [0, 1, 2] := by decide

/-- with the LCOM class collector's field set the same tree is walked completely -/
example : ((tryExceptDef.walk ((Generated.Walkers.walkers.lookup "internal/analyzer/lcom.go:LCOMAnalyzer.walkNode").getD [])).map
    (fun | .node l _ => l)) = [0, 1, 2, 3, 4] := by decide

end PV.C04
