import PV.Properties.C11
import PV.Proofs.TarjanCorrect
/-!
# C11 (extension) — the Tarjan MIRROR computes exactly the cycles of the specification model

`PV.Tarjan.goSccs` is the literal transliteration of pyscn's `findStronglyConnectedComponents` /
`strongConnect` (all five state fields `index`, `indices`, `lowLinks`, `stack`, `inStack`, the components in
emission order, and a recursion-fuel flag); `PV/Proofs/TarjanCorrect.lean` verifies it.  This file restates the
result in the vocabulary of `PV/Properties/C11.lean`: the mirror satisfies the property `C11_spec`, and its
output is the output of the specification model `PV.SCC.cycles` — as a permutation, and, after sorting by
the smallest member, as the very same list.
-/
namespace PV.C11
open PV.SCC PV.Tarjan

/-! ## lists of classes in canonical order -/

/-- `c` comes before `d` in the order of the first members (vacuous when one of them is empty; this is
the relation of `PV.UF.components_heads_sorted`) -/
def HeadLt (c d : List Nat) : Prop := ∀ x ∈ c.head?, ∀ y ∈ d.head?, x < y

/-- the sort key of a class: its first member -/
def headKey (c : List Nat) : Nat := c.headD 0

/-- comparison of two classes by their first member (a total preorder, as `List.mergeSort` needs) -/
def headLe (c d : List Nat) : Bool := decide (headKey c ≤ headKey d)

/-- **Uniqueness of the canonical order.** Two lists of non-empty classes, each ordered by the first member,
that list the same classes are the same list. -/
theorem C11_classes_unique {l₁ l₂ : List (List Nat)} (n₁ : ∀ c ∈ l₁, c ≠ []) (n₂ : ∀ c ∈ l₂, c ≠ [])
    (s₁ : l₁.Pairwise HeadLt) (s₂ : l₂.Pairwise HeadLt) (h : ∀ c, c ∈ l₁ ↔ c ∈ l₂) : l₁ = l₂ := by
  have irr : ∀ {c : List Nat}, c ≠ [] → ¬ HeadLt c c := by
    intro c hc hlt
    match c, hc with
    | x :: _, _ => exact Nat.lt_irrefl x (hlt x rfl x rfl)
  have asym : ∀ {c d : List Nat}, c ≠ [] → d ≠ [] → HeadLt c d → HeadLt d c → False := by
    intro c d hc hd h1 h2
    match c, d, hc, hd with
    | x :: _, y :: _, _, _ => exact Nat.lt_asymm (h1 x rfl y rfl) (h2 y rfl x rfl)
  have d₁ : l₁.Nodup := List.Pairwise.imp_of_mem (S := (· ≠ ·))
    (fun {a b} ha _ hab e => irr (n₁ a ha) (by subst e; exact hab)) s₁
  have d₂ : l₂.Nodup := List.Pairwise.imp_of_mem (S := (· ≠ ·))
    (fun {a b} ha _ hab e => irr (n₂ a ha) (by subst e; exact hab)) s₂
  refine List.Perm.eq_of_pairwise (le := HeadLt) ?_ s₁ s₂ ((List.perm_ext_iff_of_nodup d₁ d₂).mpr h)
  intro a b ha hb hab hba
  exact (asym (n₁ a ha) (n₂ b hb) hab hba).elim

/-- lists built as `cyclesOf` / `classesOf` are ordered by the first member -/
theorem C11_reps_heads_sorted (g : G) (tbl : List (Option (List Nat))) (q : Nat → Bool)
    (hq : ∀ u, q u = true → (comp g tbl u).head? = some u) :
    (((List.range g.n).filter q).map (comp g tbl)).Pairwise HeadLt := by
  rw [List.pairwise_map]
  refine (List.Pairwise.filter q List.pairwise_lt_range).imp_of_mem ?_
  intro a b ha hb hab x hx y hy
  rw [hq a (List.mem_filter.mp ha).2] at hx
  rw [hq b (List.mem_filter.mp hb).2] at hy
  cases hx; cases hy; exact hab

/-- **C11 (order of the model's output).** The cycles of the specification model are listed in the order of
their smallest members. -/
theorem C11_cycles_heads_sorted (g : G) (cs : List (List Nat)) (h : cycles g = some cs) : cs.Pairwise HeadLt := by
  unfold cycles at h
  simp only [] at h
  split at h
  · cases h
    unfold cyclesOf
    refine C11_reps_heads_sorted g _ _ ?_
    intro u hu
    unfold isRep at hu
    simp only [Bool.and_eq_true, beq_iff_eq] at hu
    exact hu.1
  · cases h

/-- the cycles are the classes (all SCCs, singletons included) with at least two members, in the same order -/
theorem C11_cycles_eq_filter_classes (g : G) :
    cycles g = (classes g).map (fun cs => cs.filter (fun c => decide (2 ≤ c.length))) := by
  unfold cycles classes
  simp only []
  split
  · simp only [Option.map_some, Option.some.injEq]
    unfold cyclesOf classesOf isRep
    rw [List.filter_map, List.filter_filter]
    congr 1
    apply List.filter_congr
    intro u _
    simp only [Function.comp]
    rw [Bool.and_comm]
  · rfl

/-! ## the literal Tarjan mirror -/

/-- **C11 for the Tarjan mirror.** In the output of the literal mirror of pyscn's Tarjan code two different modules
are listed in a common component iff each can reach the other.  Hypothesis: every import target is a module of the
graph (`Reach` may otherwise pass through a vertex `≥ g.n`, which the detector never visits —
see the counter-example below).  Only `u < g.n` is needed (`C11_spec` also assumes `v < g.n`; under `hwf` a vertex
`≥ g.n` is neither listed nor reachable from `u ≠ v`). -/
theorem C11_tarjan_spec (g : G) (hwf : ∀ e ∈ g.edges, e.2 < g.n) (u v : Nat) (hu : u < g.n)
    (hne : u ≠ v) : (∃ c ∈ goSccs g, u ∈ c ∧ v ∈ c) ↔ (Reach g u v ∧ Reach g v u) :=
  goTarjan_spec g hwf u v hu hne

/-- **C11 (soundness of the mirror, no hypothesis on the graph).** Every emitted component has at least two members,
is sorted strictly increasingly (hence duplicate-free), consists of modules of the graph, and any two of its members
reach each other. -/
theorem C11_tarjan_sound (g : G) (c : List Nat) (hc : c ∈ goSccs g) :
    2 ≤ c.length ∧ c.Nodup ∧ c.Pairwise (· < ·) ∧ (∀ x ∈ c, x < g.n) ∧
    ∀ u ∈ c, ∀ v ∈ c, Reach g u v ∧ Reach g v u := by
  rw [goSccs_eq] at hc; exact tarjan_sound g c hc

/-- **C11 (maximality of the mirror's components).** An emitted component contains every module that is mutually
reachable with one of its members. -/
theorem C11_tarjan_maximal (g : G) (hwf : ∀ e ∈ g.edges, e.2 < g.n) (c : List Nat) (hc : c ∈ goSccs g)
    (u : Nat) (hu : u ∈ c) (v : Nat) (h1 : Reach g u v) (h2 : Reach g v u) : v ∈ c := by
  rw [goSccs_eq] at hc; exact tarjan_maximal g hwf c hc u hu v h1 h2

/-- **C11 (disjointness, mirror).** Components emitted at different positions share no module … -/
theorem C11_tarjan_disjoint (g : G) : (goSccs g).Pairwise (fun a b => ∀ x ∈ a, x ∉ b) := by
  rw [goSccs_eq]; exact tarjan_disjoint g

/-- … hence no component is emitted twice, and two emitted components sharing a module are the same list
(the third clause of `C11_partition`, for the mirror). -/
theorem C11_tarjan_partition (g : G) :
    (goSccs g).Nodup ∧ ∀ c₁ ∈ goSccs g, ∀ c₂ ∈ goSccs g, ∀ x, x ∈ c₁ → x ∈ c₂ → c₁ = c₂ := by
  rw [goSccs_eq]; exact ⟨tarjan_nodup g, fun c₁ h₁ c₂ h₂ x => tarjan_disjoint' g c₁ c₂ h₁ h₂ x⟩

/-- **C11 (the fuel never runs out).** The recursion-depth fuel `g.n` that makes the mirror a total function is
never exhausted: the `ok` flag of the final state is still set, so the mirror's run IS the Go run. -/
theorem C11_tarjan_fuel (g : G) : (goRun g).ok = true := goRun_ok g

/-- the literal mirror (maps `lowLinks` / `inStack` read back as in the Go code) and the functional version the
correctness proof works on emit the same components in the same order -/
theorem C11_tarjan_literal (g : G) : goSccs g = sccs g := goSccs_eq g

/-- **C11 (mirror = model, as sets of cycles).** The mirror and the specification model list the same cycles,
each as the same increasing list. -/
theorem C11_tarjan_model_mem (g : G) (hwf : ∀ e ∈ g.edges, e.2 < g.n) (cs : List (List Nat))
    (h : cycles g = some cs) (c : List Nat) : c ∈ goSccs g ↔ c ∈ cs := by
  rw [goSccs_eq]; exact tarjan_eq_cycles g hwf cs h c

/-- **C11 (mirror = model, up to the order of the cycles).** The mirror's output is a permutation of the model's:
the same cycles, each once; only the order differs (emission order vs. order of the smallest member). -/
theorem C11_tarjan_model (g : G) (hwf : ∀ e ∈ g.edges, e.2 < g.n) (cs : List (List Nat))
    (h : cycles g = some cs) : (goSccs g).Perm cs := by
  rw [goSccs_eq]; exact tarjan_perm_cycles g hwf cs h

/-- **C11 (any reordering by smallest member is the model's list).** A list with the mirror's components that is
ordered by first member IS the model's output. -/
theorem C11_tarjan_model_unique (g : G) (hwf : ∀ e ∈ g.edges, e.2 < g.n) (cs : List (List Nat))
    (h : cycles g = some cs) (l : List (List Nat)) (hp : l.Perm (goSccs g)) (hs : l.Pairwise HeadLt) : l = cs := by
  have hpart := C11_partition g cs h
  have ne : ∀ c ∈ cs, c ≠ [] := by
    intro c hc e
    have := (hpart.2.1 c hc).1
    rw [e] at this; simp at this
  have hmem : ∀ c, c ∈ l ↔ c ∈ cs := fun c => hp.mem_iff.trans (C11_tarjan_model_mem g hwf cs h c)
  exact C11_classes_unique (fun c hc => ne c ((hmem c).mp hc)) ne hs (C11_cycles_heads_sorted g cs h) hmem

/-- **C11 (mirror = model, exactly).** Sorting the mirror's components by their first member (what the report does
before printing, and what the correspondence check does before comparing) gives exactly the model's output. -/
theorem C11_tarjan_model_sorted (g : G) (hwf : ∀ e ∈ g.edges, e.2 < g.n) (cs : List (List Nat))
    (h : cycles g = some cs) : (goSccs g).mergeSort headLe = cs := by
  have hpart := C11_partition g cs h
  have hperm : ((goSccs g).mergeSort headLe).Perm cs :=
    (List.mergeSort_perm _ _).trans (C11_tarjan_model g hwf cs h)
  have hsorted : ((goSccs g).mergeSort headLe).Pairwise (fun a b => headLe a b = true) := by
    apply List.pairwise_mergeSort
    · intro a b c hab hbc
      simp only [headLe, decide_eq_true_eq] at *
      exact Nat.le_trans hab hbc
    · intro a b
      simp only [headLe, Bool.or_eq_true, decide_eq_true_eq]
      exact Nat.le_total _ _
  have hcs : cs.Pairwise (fun a b => headLe a b = true) := by
    refine (C11_cycles_heads_sorted g cs h).imp_of_mem ?_
    intro a b ha hb hab
    have la := (hpart.2.1 a ha).1
    have lb := (hpart.2.1 b hb).1
    match a, b, la, lb with
    | x :: _, y :: _, _, _ =>
      simp only [headLe, headKey, List.headD_cons]
      exact decide_eq_true (Nat.le_of_lt (hab x rfl y rfl))
  refine List.Perm.eq_of_pairwise (le := fun a b => headLe a b = true) ?_ hsorted hcs hperm
  intro a b ha hb hab hba
  have ha' : a ∈ cs := hperm.mem_iff.mp ha
  have la := (hpart.2.1 a ha').1
  have lb := (hpart.2.1 b hb).1
  match a, b, la, lb, ha', hb with
  | x :: _, y :: _, _, _, ha', hb =>
    simp only [headLe, headKey, List.headD_cons] at hab hba
    have e : x = y := Nat.le_antisymm (of_decide_eq_true hab) (of_decide_eq_true hba)
    subst e
    exact hpart.2.2 _ ha' _ hb x List.mem_cons_self List.mem_cons_self

/-- **C11 (mirror = model, unconditional form).** The model always returns (`C11_total`), and what it returns is
the sorted output of the mirror. -/
theorem C11_tarjan_model_total (g : G) (hwf : ∀ e ∈ g.edges, e.2 < g.n) :
    cycles g = some ((goSccs g).mergeSort headLe) := by
  obtain ⟨cs, h⟩ := (C11_total g).1
  rw [h, C11_tarjan_model_sorted g hwf cs h]

/-! ## non-vacuity -/

/-- the graph of the example in `C11.lean` (a 3-cycle, a 2-cycle, a self-import, a tail): the mirror emits the
inner cycle first, the model lists by smallest member; sorting the mirror's output gives the model's -/
example : goSccs { n := 7, edges := [(0,1),(1,2),(2,0),(3,4),(4,3),(5,5),(2,3),(6,0)] } = [[3,4],[0,1,2]] := by decide
example : cycles { n := 7, edges := [(0,1),(1,2),(2,0),(3,4),(4,3),(5,5),(2,3),(6,0)] } = some [[0,1,2],[3,4]] := by decide
example : (goRun { n := 7, edges := [(0,1),(1,2),(2,0),(3,4),(4,3),(5,5),(2,3),(6,0)] }).ok = true := by decide
#guard (goSccs { n := 7, edges := [(0,1),(1,2),(2,0),(3,4),(4,3),(5,5),(2,3),(6,0)] }).mergeSort headLe == [[0,1,2],[3,4]]
example : ([[3,4],[0,1,2]] : List (List Nat)).Pairwise HeadLt → False := by
  intro h; exact absurd (List.rel_of_pairwise_cons h List.mem_cons_self 3 rfl 0 rfl) (by decide)

/-- the hypothesis on the edge targets cannot be dropped: with an import of a module outside the graph, `Reach`
connects 0 and 1 through the outside vertex 5, the model lists the cycle, and the detector (which only follows
edges between modules of the graph) does not -/
example : cycles { n := 2, edges := [(0, 5), (5, 1), (1, 0)] } = some [[0, 1]] ∧
    goSccs { n := 2, edges := [(0, 5), (5, 1), (1, 0)] } = [] := by decide

end PV.C11
