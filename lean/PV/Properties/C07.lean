import PV.Model.TED
/-!
# C07 — tree edit distance: consequences of being the minimum edit cost

Theorems about the specification-level model `PV.TED.ted` (the textbook forest-edit-distance
recursion) for EVERY pair of forests and EVERY cost model with the stated symmetry/identity
assumptions.  pyscn's Zhang–Shasha implementation is tied to `ted` by the correspondence check
(exhaustive over small trees).  That `ted` equals the minimum over all edit SCRIPTS (Tai's
theorem) is the textbook result this file does not re-prove; see DESIGN.md §4 C07.
-/
namespace PV.C07
open PV.TED

theorem delAllL_append (c : Cost) (a b : List Tree) : delAllL c (a ++ b) = delAllL c a + delAllL c b := by
  induction a with
  | nil => simp [delAllL]
  | cons t ts ih => simp [delAllL, ih]; omega
theorem delAllL_reverse (c : Cost) (a : List Tree) : delAllL c a.reverse = delAllL c a := by
  induction a with
  | nil => rfl
  | cons t ts ih => simp [delAllL, delAllL_append, ih]; omega
theorem insAllL_append (c : Cost) (a b : List Tree) : insAllL c (a ++ b) = insAllL c a + insAllL c b := by
  induction a with
  | nil => simp [insAllL]
  | cons t ts ih => simp [insAllL, ih]; omega
theorem insAllL_reverse (c : Cost) (a : List Tree) : insAllL c a.reverse = insAllL c a := by
  induction a with
  | nil => rfl
  | cons t ts ih => simp [insAllL, insAllL_append, ih]; omega

/-- against the empty forest the distance is delete-all / insert-all -/
theorem ted_nil_right (c : Cost) : ∀ (n : Nat) (F : List Tree), sizeL F ≤ n → ted c F [] = delAllL c F := by
  intro n
  induction n with
  | zero =>
    intro F hF
    match F with
    | [] => simp [ted, delAllL]
    | .node a as :: F => simp [sizeL, Tree.size] at hF
  | succ n ih =>
    intro F hF
    match F with
    | [] => simp [ted, delAllL]
    | .node a as :: F' =>
      rw [ted, ih _ (by simp only [sizeL, Tree.size, sizeL_append, sizeL_reverse] at *; omega)]
      simp only [delAllL, delAll, delAllL_append, delAllL_reverse]; omega
theorem ted_nil_left (c : Cost) : ∀ (n : Nat) (G : List Tree), sizeL G ≤ n → ted c [] G = insAllL c G := by
  intro n
  induction n with
  | zero =>
    intro G hG
    match G with
    | [] => simp [ted, insAllL]
    | .node a as :: G => simp [sizeL, Tree.size] at hG
  | succ n ih =>
    intro G hG
    match G with
    | [] => simp [ted, insAllL]
    | .node b bs :: G' =>
      rw [ted, ih _ (by simp only [sizeL, Tree.size, sizeL_append, sizeL_reverse] at *; omega)]
      simp only [insAllL, insAll, insAllL_append, insAllL_reverse]; omega

/-- **C07 (upper bound).** The distance never exceeds delete-all plus insert-all. -/
theorem C07_upper (c : Cost) (F G : List Tree) : ted c F G ≤ delAllL c F + insAllL c G := by
  fun_induction ted c F G with
  | case1 => simp [delAllL, insAllL]
  | case2 a as F ih =>
    simp only [List.unattach_reverse, List.unattach_attach] at ih
    simp only [delAllL, delAll, delAllL_append, delAllL_reverse, insAllL] at *
    omega
  | case3 b bs G ih =>
    simp only [List.unattach_reverse, List.unattach_attach] at ih
    simp only [insAllL, insAll, insAllL_append, insAllL_reverse, delAllL] at *
    omega
  | case4 a as F b bs G ih1 ih2 ih3 ih4 =>
    simp only [List.unattach_reverse, List.unattach_attach] at ih1 ih2 ih3 ih4
    -- the delete branch alone gives the bound
    apply Nat.le_trans (Nat.min_le_left _ _)
    simp only [delAllL, delAll, delAllL_append, delAllL_reverse] at *
    omega

/-- **C07 (identity).** If relabelling a node to itself is free, every forest (of any size) is at
distance 0 from itself. -/
theorem C07_self (c : Cost) (h : ∀ a, c.ren a a = 0) : ∀ (n : Nat) (F : List Tree), sizeL F ≤ n → ted c F F = 0 := by
  intro n
  induction n with
  | zero =>
    intro F hF
    match F with
    | [] => simp [ted]
    | .node a as :: F => simp [sizeL, Tree.size] at hF
  | succ n ih =>
    intro F hF
    match F with
    | [] => simp [ted]
    | .node a as :: F' =>
      rw [ted]
      have h1 : ted c as.reverse as.reverse = 0 := ih _ (by
        simp only [sizeL, Tree.size, sizeL_reverse] at *; omega)
      have h2 : ted c F' F' = 0 := ih _ (by simp only [sizeL, Tree.size] at *; omega)
      rw [h1, h2, h a]
      simp

theorem C07_self_tree (c : Cost) (h : ∀ a, c.ren a a = 0) (t : Tree) : dist c t t = 0 :=
  C07_self c h _ [t] (Nat.le_refl _)

/-- a cost model is symmetric when inserting costs what deleting costs and relabelling is symmetric -/
def Symmetric (c : Cost) : Prop := (∀ a, c.del a = c.ins a) ∧ (∀ a b, c.ren a b = c.ren b a)

/-- **C07 (symmetry).** For a symmetric cost model the distance is symmetric. -/
theorem C07_symm (c : Cost) (hs : Symmetric c) (F G : List Tree) : ted c F G = ted c G F := by
  fun_induction ted c F G with
  | case1 => simp [ted]
  | case2 a as F ih =>
    simp only [List.unattach_reverse, List.unattach_attach] at ih
    conv => rhs; rw [ted]
    rw [ih, hs.1 a]
  | case3 b bs G ih =>
    simp only [List.unattach_reverse, List.unattach_attach] at ih
    conv => rhs; rw [ted]
    rw [ih, hs.1 b]
  | case4 a as F b bs G ih1 ih2 ih3 ih4 =>
    simp only [List.unattach_reverse, List.unattach_attach] at ih1 ih2 ih3 ih4
    conv => rhs; rw [ted]
    rw [ih1, ih2, ih3, ih4, hs.1 a, ← hs.1 b, hs.2 a b]
    omega

/-- **C07 (similarity).** The derived similarity is a fraction in [0,1]; it is 1 at distance 0. -/
theorem C07_similarity (unit d n₁ n₂ : Nat) :
    (similarity unit d n₁ n₂).1 ≤ (similarity unit d n₁ n₂).2 ∧ 0 < (similarity unit d n₁ n₂).2 ∨ (max n₁ n₂ * unit = 0) := by
  unfold similarity
  simp only []
  split
  · left; simp
  · by_cases hu : max n₁ n₂ * unit = 0
    · right; exact hu
    · left; constructor
      · exact Nat.sub_le _ _
      · omega

theorem C07_similarity_self (unit n₁ n₂ : Nat) : (similarity unit 0 n₁ n₂).1 = (similarity unit 0 n₁ n₂).2 := by
  unfold similarity
  simp only []
  split <;> simp

/-- non-vacuity / sanity: a concrete pair under the unit cost model (swapping two subtrees of
sizes 1 and 2 costs 2) -/
example : dist ⟨fun _ => 1, fun _ => 1, fun a b => if a = b then 0 else 1⟩
    (.node 0 [.node 1 [], .node 2 []]) (.node 0 [.node 2 [], .node 1 []]) = 2 := by
  simp [dist, ted]

end PV.C07
