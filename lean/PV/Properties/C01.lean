import PV.Model.PySem
/-!
# C01 — dead-code soundness

`C01_live_sound`: whatever values conditions take and whichever calls raise (the nondeterministic
semantics `PV.Py.Exec`), every executed line and the outcome of every execution are inside the static
over-approximation `PV.Py.live`.  The check then requires, for every generated function, that no line in
`live` lies inside a range the REAL pyscn reports as dead: together this gives soundness of the report
for ALL executions of each checked program (the quantifier over executions is discharged by proof, the
one over programs by exhaustive-small + random generation).
-/
namespace PV.C01
open PV.CFG PV.Py

theorem has_union (a b : Outs) (o : Out) : (a.union b).has o = (a.has o || b.has o) := by
  cases o <;> rfl
theorem has_nonNormal (a : Outs) (o : Out) (h : o ≠ .normal) : a.nonNormal.has o = a.has o := by
  cases o <;> first | rfl | exact absurd rfl h
theorem has_nonNormal_le (a : Outs) (o : Out) (h : a.nonNormal.has o = true) : a.has o = true := by
  cases o <;> first | exact h | cases h

/-- the invariant: outcome and executed lines are predicted -/
def Ok (r : R) (o : Out) (tr : List Nat) : Prop := r.outs.has o = true ∧ ∀ i ∈ tr, i ∈ r.lines

theorem live_cons (x : Stmt) (xs : List Stmt) :
    live (x :: xs) = if (liveS x).outs.normal then
        { lines := (liveS x).lines ++ (live xs).lines, outs := (liveS x).outs.nonNormal.union (live xs).outs }
      else liveS x := by
  rw [live]

theorem live_nil : live [] = { lines := [], outs := { normal := true } } := by rw [live]

/-- `live [x]` and `liveS x` predict the same outcomes and lines -/
theorem ok_single {x : Stmt} {o : Out} {tr : List Nat} : Ok (liveS x) o tr → Ok (live [x]) o tr := by
  intro ⟨h1, h2⟩
  rw [live_cons, live_nil]
  split
  · next hn =>
    refine ⟨?_, fun i hi => by simpa using h2 i hi⟩
    simp only [has_union]
    by_cases ho : o = .normal
    · subst ho; simp [Outs.has]
    · rw [has_nonNormal _ _ ho, h1]; rfl
  · exact ⟨h1, h2⟩

theorem single_ok {x : Stmt} {o : Out} {tr : List Nat} : Ok (live [x]) o tr → Ok (liveS x) o tr := by
  rw [live_cons, live_nil]
  split
  · next hn =>
    intro ⟨h1, h2⟩
    refine ⟨?_, fun i hi => by simpa using h2 i hi⟩
    simp only [has_union] at h1
    by_cases ho : o = .normal
    · subst ho; exact hn
    · rw [has_nonNormal _ _ ho] at h1
      cases o <;> simp_all [Outs.has]
  · exact id

theorem ok_seqN {x : Stmt} {ss : List Stmt} {o : Out} {t₁ t₂ : List Nat}
    (h₁ : Ok (live [x]) .normal t₁) (h₂ : Ok (live ss) o t₂) : Ok (live (x :: ss)) o (t₁ ++ t₂) := by
  have h₁' := single_ok h₁
  have hn : (liveS x).outs.normal = true := h₁'.1
  rw [live_cons, if_pos hn]
  refine ⟨?_, ?_⟩
  · simp only [has_union, h₂.1, Bool.or_true]
  · intro i hi
    rcases List.mem_append.mp hi with hi | hi
    · exact List.mem_append.mpr (.inl (h₁'.2 i hi))
    · exact List.mem_append.mpr (.inr (h₂.2 i hi))

theorem ok_seqS {x : Stmt} {ss : List Stmt} {o : Out} {t₁ : List Nat}
    (h₁ : Ok (live [x]) o t₁) (ho : o ≠ .normal) : Ok (live (x :: ss)) o t₁ := by
  have h₁' := single_ok h₁
  rw [live_cons]
  split
  · refine ⟨?_, fun i hi => List.mem_append.mpr (.inl (h₁'.2 i hi))⟩
    simp only [has_union, has_nonNormal _ _ ho, h₁'.1, Bool.true_or]
  · exact h₁'

/-- membership helper for unions of alternatives -/
theorem ok_alts {h : Stmt} {hs : List Stmt} {o : Out} {tr : List Nat} (hm : h ∈ hs) (hk : Ok (liveS h) o tr) :
    Ok (liveAlts hs) o tr := by
  induction hs with
  | nil => cases hm
  | cons x xs ih =>
    rw [liveAlts]
    rcases List.mem_cons.mp hm with rfl | hm
    · exact ⟨by simp only [has_union, hk.1, Bool.true_or], fun i hi => List.mem_append.mpr (.inl (hk.2 i hi))⟩
    · have := ih hm
      exact ⟨by simp only [has_union, this.1, Bool.or_true], fun i hi => List.mem_append.mpr (.inr (this.2 i hi))⟩

theorem afterFinally_has {p f : Outs} {o₁ of : Out} (h₁ : p.has o₁ = true) (h₂ : f.has of = true) :
    (p.afterFinally f).has (merge o₁ of) = true := by
  unfold Outs.afterFinally merge
  by_cases hof : of = .normal
  · subst hof
    simp only [if_true]
    have : f.normal = true := h₂
    rw [if_pos this, has_union, h₁, Bool.or_true]
  · simp only [if_neg hof]
    split
    · rw [has_union, has_nonNormal _ _ hof, h₂, Bool.true_or]
    · rw [has_nonNormal _ _ hof, h₂]

theorem live_nil_ok {o : Out} {tr : List Nat} (h : Ok (live []) o tr) : o = .normal ∧ tr = [] := by
  rw [live_nil] at h
  obtain ⟨h1, h2⟩ := h
  refine ⟨?_, ?_⟩
  · cases o <;> simp_all [Outs.has]
  · cases tr with
    | nil => rfl
    | cons a t => exact absurd (h2 a (by simp)) (by simp)

/-- lines: `s :: t` is covered when `t` is -/
theorem lines_cons {s : Nat} {t l : List Nat} (h : ∀ i ∈ t, i ∈ l) : ∀ i ∈ s :: t, i ∈ s :: l := by
  intro i hi
  rcases List.mem_cons.mp hi with rfl | hi
  · exact List.mem_cons_self
  · exact List.mem_cons_of_mem _ (h i hi)

/-- **C01 (semantic core).** For every statement list, every execution allowed by the nondeterministic
semantics — any truth values, any number of iterations, any statement raising, `__exit__` swallowing or
not, any handler matching or not — produces an outcome and executes only lines that `live` predicts. -/
theorem C01_live_sound {ss : List Stmt} {o : Out} {tr : List Nat} (ex : Exec ss o tr) : Ok (live ss) o tr := by
  induction ex with
  | nil => rw [live_nil]; exact ⟨rfl, fun _ h => by cases h⟩
  | seqN _ _ ih₁ ih₂ => exact ok_seqN ih₁ ih₂
  | seqS _ ho ih₁ => exact ok_seqS ih₁ ho
  | simpleOk => apply ok_single; rw [liveS]; exact ⟨rfl, by simp⟩
  | simpleExc => apply ok_single; rw [liveS]; exact ⟨rfl, by simp⟩
  | ret => apply ok_single; rw [liveS]; exact ⟨rfl, by simp⟩
  | retExc => apply ok_single; rw [liveS]; exact ⟨rfl, by simp⟩
  | brk => apply ok_single; rw [liveS]; exact ⟨rfl, by simp⟩
  | cont => apply ok_single; rw [liveS]; exact ⟨rfl, by simp⟩
  | raise => apply ok_single; rw [liveS]; exact ⟨rfl, by simp⟩
  | defOk => apply ok_single; rw [liveS]; exact ⟨rfl, by simp⟩
  | defExc => apply ok_single; rw [liveS]; exact ⟨rfl, by simp⟩
  | iteExc => apply ok_single; rw [liveS]; exact ⟨by simp [Outs.union, Outs.has], by simp⟩
  | iteThen _ ih =>
    apply ok_single; rw [liveS]
    exact ⟨by simp only [has_union, ih.1, Bool.true_or, Bool.or_true],
      lines_cons fun i hi => List.mem_append.mpr (.inl (ih.2 i hi))⟩
  | iteElse _ ih =>
    apply ok_single; rw [liveS]
    exact ⟨by simp only [has_union, ih.1, Bool.true_or, Bool.or_true],
      lines_cons fun i hi => List.mem_append.mpr (.inr (ih.2 i hi))⟩
  | elifExc => apply ok_single; rw [liveS]; exact ⟨by simp [Outs.union, Outs.has], by simp⟩
  | elifThen _ ih =>
    apply ok_single; rw [liveS]
    exact ⟨by simp only [has_union, ih.1, Bool.true_or, Bool.or_true],
      lines_cons fun i hi => List.mem_append.mpr (.inl (ih.2 i hi))⟩
  | elifElse _ ih =>
    apply ok_single; rw [liveS]
    exact ⟨by simp only [has_union, ih.1, Bool.true_or, Bool.or_true],
      lines_cons fun i hi => List.mem_append.mpr (.inr (ih.2 i hi))⟩
  | elsec _ ih => apply ok_single; rw [liveS]; exact ih
  | loopExc => apply ok_single; rw [liveS]; exact ⟨rfl, by simp⟩
  | @loopDone s e body orelse o t _ ih =>
    apply ok_single; rw [liveS]
    refine ⟨?_, lines_cons fun i hi => List.mem_append.mpr (.inr (ih.2 i hi))⟩
    have := ih.1
    cases o <;> simp_all [Outs.has]
  | @loopIter s e body orelse o₁ t₁ o t₂ _ _ _ ih₁ ih₂ =>
    have h2 := single_ok ih₂
    rw [liveS] at h2
    apply ok_single; rw [liveS]
    refine ⟨h2.1, ?_⟩
    intro i hi
    rcases List.mem_cons.mp hi with rfl | hi
    · exact List.mem_cons_self
    · rcases List.mem_append.mp hi with hi | hi
      · exact List.mem_cons_of_mem _ (List.mem_append.mpr (.inl (ih₁.2 i hi)))
      · exact h2.2 i hi
  | loopBrk _ ih =>
    apply ok_single; rw [liveS]
    refine ⟨?_, lines_cons fun i hi => List.mem_append.mpr (.inl (ih.2 i hi))⟩
    have : (live _).outs.brk = true := ih.1
    simp [Outs.has, this]
  | @loopStop s e body orelse o₁ t₁ _ ho ih =>
    apply ok_single; rw [liveS]
    refine ⟨?_, lines_cons fun i hi => List.mem_append.mpr (.inl (ih.2 i hi))⟩
    have := ih.1
    rcases ho with rfl | rfl <;> simp_all [Outs.has]
  | @tryN s e body hs orelse fin tb o₁ t₁ _ _ hf ihb ihe =>
    subst hf
    apply ok_single; rw [liveS]
    have hbn : (live body).outs.normal = true := ihb.1
    simp only [List.isEmpty_nil, if_true, hbn]
    refine ⟨by simp only [has_union, ihe.1, Bool.or_true], ?_⟩
    intro i hi
    rcases List.mem_append.mp hi with hi | hi
    · exact List.mem_append.mpr (.inl (List.mem_append.mpr (.inl (ihb.2 i hi))))
    · exact List.mem_append.mpr (.inr (ihe.2 i hi))
  | @tryNF s e body hs orelse fin tb o₁ t₁ of tf _ _ _ ihb ihe ihf =>
    apply ok_single; rw [liveS]
    have hbn : (live body).outs.normal = true := ihb.1
    simp only [hbn, if_true]
    have hp : (((live body).outs.nonNormal.union (if (live body).outs.exc = true then liveAlts hs else {}).outs).union (live orelse).outs).has o₁ = true := by
      simp only [has_union, ihe.1, Bool.or_true]
    split
    · next hfe =>
      have : fin = [] := List.isEmpty_iff.mp hfe
      subst this
      obtain ⟨rfl, rfl⟩ := live_nil_ok ihf
      refine ⟨by simpa [merge] using hp, ?_⟩
      intro i hi
      simp only [List.append_nil] at hi
      rcases List.mem_append.mp hi with hi | hi
      · exact List.mem_append.mpr (.inl (List.mem_append.mpr (.inl (ihb.2 i hi))))
      · exact List.mem_append.mpr (.inr (ihe.2 i hi))
    · refine ⟨afterFinally_has hp ihf.1, ?_⟩
      intro i hi
      rcases List.mem_append.mp hi with hi | hi
      · rcases List.mem_append.mp hi with hi | hi
        · exact List.mem_append.mpr (.inl (List.mem_append.mpr (.inl (List.mem_append.mpr (.inl (ihb.2 i hi))))))
        · exact List.mem_append.mpr (.inl (List.mem_append.mpr (.inr (ihe.2 i hi))))
      · exact List.mem_append.mpr (.inr (ihf.2 i hi))
  | @tryH s e body hs orelse fin tb h o₁ t₁ _ hm _ hf ihb ihh =>
    subst hf
    apply ok_single; rw [liveS]
    have hbe : (live body).outs.exc = true := ihb.1
    have hh := ok_alts hm (single_ok ihh)
    simp only [List.isEmpty_nil, if_true, hbe]
    refine ⟨by simp only [has_union, hh.1, Bool.or_true, Bool.true_or], ?_⟩
    intro i hi
    rcases List.mem_append.mp hi with hi | hi
    · exact List.mem_append.mpr (.inl (List.mem_append.mpr (.inl (ihb.2 i hi))))
    · exact List.mem_append.mpr (.inl (List.mem_append.mpr (.inr (hh.2 i hi))))
  | @tryHF s e body hs orelse fin tb h o₁ t₁ of tf _ hm _ _ ihb ihh ihf =>
    apply ok_single; rw [liveS]
    have hbe : (live body).outs.exc = true := ihb.1
    have hh := ok_alts hm (single_ok ihh)
    simp only [hbe, if_true]
    have hp : (((live body).outs.nonNormal.union (liveAlts hs).outs).union (if (live body).outs.normal = true then live orelse else {}).outs).has o₁ = true := by
      simp only [has_union, hh.1, Bool.or_true, Bool.true_or]
    split
    · next hfe =>
      have : fin = [] := List.isEmpty_iff.mp hfe
      subst this
      obtain ⟨rfl, rfl⟩ := live_nil_ok ihf
      refine ⟨by simpa [merge] using hp, ?_⟩
      intro i hi
      simp only [List.append_nil] at hi
      rcases List.mem_append.mp hi with hi | hi
      · exact List.mem_append.mpr (.inl (List.mem_append.mpr (.inl (ihb.2 i hi))))
      · exact List.mem_append.mpr (.inl (List.mem_append.mpr (.inr (hh.2 i hi))))
    · refine ⟨afterFinally_has hp ihf.1, ?_⟩
      intro i hi
      rcases List.mem_append.mp hi with hi | hi
      · rcases List.mem_append.mp hi with hi | hi
        · exact List.mem_append.mpr (.inl (List.mem_append.mpr (.inl (List.mem_append.mpr (.inl (ihb.2 i hi))))))
        · exact List.mem_append.mpr (.inl (List.mem_append.mpr (.inl (List.mem_append.mpr (.inr (hh.2 i hi))))))
      · exact List.mem_append.mpr (.inr (ihf.2 i hi))
  | @tryP s e body hs orelse fin ob tb _ hob hf ihb =>
    subst hf
    apply ok_single; rw [liveS]
    simp only [List.isEmpty_nil, if_true]
    refine ⟨by simp only [has_union, has_nonNormal _ _ hob, ihb.1, Bool.true_or], ?_⟩
    intro i hi
    exact List.mem_append.mpr (.inl (List.mem_append.mpr (.inl (ihb.2 i hi))))
  | @tryPF s e body hs orelse fin ob tb of tf _ hob _ ihb ihf =>
    apply ok_single; rw [liveS]
    have hp : (((live body).outs.nonNormal.union (if (live body).outs.exc = true then liveAlts hs else {}).outs).union
        (if (live body).outs.normal = true then live orelse else {}).outs).has ob = true := by
      simp only [has_union, has_nonNormal _ _ hob, ihb.1, Bool.true_or]
    simp only []
    split
    · next hfe =>
      have : fin = [] := List.isEmpty_iff.mp hfe
      subst this
      obtain ⟨rfl, rfl⟩ := live_nil_ok ihf
      refine ⟨by simpa [merge] using hp, ?_⟩
      intro i hi
      simp only [List.append_nil] at hi
      exact List.mem_append.mpr (.inl (List.mem_append.mpr (.inl (ihb.2 i hi))))
    · refine ⟨afterFinally_has hp ihf.1, ?_⟩
      intro i hi
      rcases List.mem_append.mp hi with hi | hi
      · exact List.mem_append.mpr (.inl (List.mem_append.mpr (.inl (List.mem_append.mpr (.inl (ihb.2 i hi))))))
      · exact List.mem_append.mpr (.inr (ihf.2 i hi))
  | handler _ ih => apply ok_single; rw [liveS]; exact ⟨ih.1, lines_cons ih.2⟩
  | withExc => apply ok_single; rw [liveS]; exact ⟨rfl, by simp⟩
  | @withBody s e body o t _ ih =>
    apply ok_single; rw [liveS]
    refine ⟨?_, lines_cons ih.2⟩
    have := ih.1
    cases o <;> simp_all [Outs.has]
  | withSwallow _ ih =>
    apply ok_single; rw [liveS]
    refine ⟨?_, lines_cons ih.2⟩
    have : (live _).outs.exc = true := ih.1
    simp [Outs.has, this]
  | withExitRaise _ ih => apply ok_single; rw [liveS]; exact ⟨rfl, lines_cons ih.2⟩
  | matchExc => apply ok_single; rw [liveS]; exact ⟨by simp [Outs.union, Outs.has], by simp⟩
  | matchNone =>
    apply ok_single; rw [liveS]
    refine ⟨by simp [Outs.union, Outs.has], ?_⟩
    intro i hi
    rcases List.mem_cons.mp hi with rfl | hi
    · exact List.mem_cons_self
    · exact List.mem_cons_of_mem _ (List.mem_append.mpr (.inl hi))
  | @matchHit s e cases pre c post o t hc _ ih =>
    apply ok_single; rw [liveS]
    have hm : c ∈ cases := by rw [hc]; simp
    have hh := ok_alts hm (single_ok ih)
    refine ⟨by simp only [has_union, hh.1, Bool.or_true], ?_⟩
    intro i hi
    rcases List.mem_cons.mp hi with rfl | hi
    · exact List.mem_cons_self
    · apply List.mem_cons_of_mem
      rcases List.mem_append.mp hi with hi | hi
      · apply List.mem_append.mpr; left
        rw [hc]; simp only [List.map_append, List.map_cons]
        exact List.mem_append.mpr (.inl hi)
      · exact List.mem_append.mpr (.inr (hh.2 i hi))
  | case_ _ ih => apply ok_single; rw [liveS]; exact ⟨ih.1, lines_cons ih.2⟩
  | classExc => apply ok_single; rw [liveS]; exact ⟨by simp [Outs.union, Outs.has], by simp⟩
  | classBody _ ih =>
    apply ok_single; rw [liveS]
    exact ⟨by simp only [has_union, ih.1, Bool.or_true], lines_cons ih.2⟩

end PV.C01
