import PV.Properties.C02y
import PV.Proofs.CFGRangesC02ElifTop
/-!
# C02 (extension) — EVERY structurally dead line lies inside a reported range: no exemption for the heads of `elif` clauses

C02y proves that a structurally dead line (`structDead`) is the head of an `elif` clause (`elifL`) or lies inside a range
`start of the oldest record … end of the newest record` reported by `findings (build k s e body)` for an unreachable block.  The
exemption is there because the builder stores the test of a converted `elif` with location `0..0`: the head line of an `elif`
clause has no record of its own.  This file removes the exemption:

* `C02_ranges_complete_all` (all kinds of definitions, `WFDef`) / `C02_ranges_complete_all_fn` (functions and modules, `WFLoc`) /
  `C02_ranges_complete_all'` (hypotheses spelled out): for every `l ∈ structDead body` there is a finding `f` with `f.s ≤ l ≤ f.e`.
  Hypotheses: exactly those of C02y — `okLC false` (the fragment of the record-level theorem), `noSEL` (no STANDALONE `elif` clause;
  necessary, `ryStandalone` in C02y) and well-formed source spans `WFDef` (necessary for `elif` heads: `rzBadSpan` below).  No
  further condition (`okEL` is NOT needed).

**How an `elif` head is covered.**  A structurally dead `elif` head `l` lies inside the span `s₀ … e₀` of an `if` statement of the
body whose own start line `s₀` is structurally dead and is not an `elif` head (`C02_elif_head_in_dead_if`, static).  The record-level
theorem gives a record `r` with `r.s = s₀` in an unreachable block; `r` is the test record of that `if` statement: `r.e = e₀`, and `r`
is the NEWEST record of its block in the final record list (`C02_if_test_newest`), so the range reported for that block ends at `e₀`
(`C02_ranges_cover_span`, C02y) and contains `l`.

**The new builder invariant** (`C02_if_test_invariant`, `PV/Proofs/CFGRangesC02ElifInd.lean`).  Fix a line `t ≠ 0` at which no
statement other than an `if` statement `t … e` starts (`UT t e (tlL ss)`; `tlL`: the tagged header lines of all statements, tag `0` for
`if`, `2` for `elif`, `1` for the others).  `JP t e st`: every record of `st.stmts` that starts at `t` ends at `e` and is the newest
record of its block (`NW t e`), and no record that starts at `t` is in the CURRENT block.  Every builder function preserves `JP t e`
from every well-formed state, WITHOUT any fragment condition: `procIf` stores the test in the block that is current on entry and
immediately makes the fresh then-block current; every block that becomes current later is fresh, or was allocated earlier by an
enclosing call (merge / exit / else / handler / finally block) and holds NO record at all at that moment — a call stores only into
the block that is current on entry and into blocks it allocates itself (`Inv`, `procList_frame`, from the frame development of C01).
The same holds for an `if` that is the single element of an `orelse` list (processed like an `elif` with a located test, stored in
a block allocated just before).

**The static facts** (`PV/Proofs/CFGRangesC02ElifSorted.lean`, `…Dead.lean`).  Under `wfL p body` the tagged lines `tlL body`
(pre-order) are strictly increasing in the start line (`C02_lines_distinct`: one statement per line), so the line of an `if`
statement is not the line of any other statement and not an `elif` head (`UT`).  `structDead_alt`: under `noSEL`, a structurally
dead line is the start of a located statement, or lies in the span of an `if` statement whose start line is structurally dead (an
`elif` head only enters `structDead` through `linesOf y` of a dead statement `y` that contains the whole chain, `if` included).
-/
namespace PV.C02
open PV.CFG PV.SD PV.CFGSound

/-- **C02 for the reported ranges, no exemption**: every structurally dead line — heads of `elif` clauses included — lies inside a
range reported by the dead-code detector of the mirror -/
theorem C02_ranges_complete_all (k : Kind) (s e : Nat) (body : List Stmt) (hok : okC2 body = true) (hwf : WFDef k s e body) :
    ∀ l ∈ structDead body, ∃ f ∈ findings (build k s e body), f.s ≤ l ∧ l ≤ f.e := by
  unfold okC2 at hok
  rw [Bool.and_eq_true] at hok
  exact mirror_ranges_complete_all k s e body hok.1 hok.2 hwf

/-- the same with the two parts of the fragment as separate hypotheses (the form of the task statement plus `noSEL`) -/
theorem C02_ranges_complete_all' (k : Kind) (s e : Nat) (body : List Stmt) (hok : okLC false body = true) (hno : noSEL body = true)
    (hwf : WFDef k s e body) :
    ∀ l ∈ structDead body, ∃ f ∈ findings (build k s e body), f.s ≤ l ∧ l ≤ f.e :=
  mirror_ranges_complete_all k s e body hok hno hwf

/-- for functions and modules `WFLoc body` is all that is needed -/
theorem C02_ranges_complete_all_fn (k : Kind) (hk : k ≠ .cls) (s e : Nat) (body : List Stmt) (hok : okC2 body = true) (hwf : WFLoc body) :
    ∀ l ∈ structDead body, ∃ f ∈ findings (build k s e body), f.s ≤ l ∧ l ≤ f.e :=
  C02_ranges_complete_all k s e body hok (WFDef.of_wfloc s e hk hwf)

/-- **the test record of an `if` statement is the newest record of its block**: in the final record list of a well-formed
definition (`stmts = a ++ r :: c`, newest first), a record `r` that starts at the line `s₀` of an `if` statement `s₀ … e₀` of the body
(`(s₀, e₀, 0) ∈ tlL body`, at any depth; also an `if` that is the single element of an `orelse` list) ends at `e₀`, and no newer
record (`a`) is in its block.  No fragment condition (`okLC`, `noSEL`) is needed -/
theorem C02_if_test_newest (k : Kind) (s e : Nat) (body : List Stmt) (hwf : WFDef k s e body) {s₀ e₀ : Nat}
    (hif : (s₀, e₀, 0) ∈ tlL body) {a c : List SRec} {r : SRec} (hL : (build k s e body).stmts = a ++ r :: c) (hr : r.s = s₀) :
    r.e = e₀ ∧ ∀ x ∈ a, x.blk ≠ r.blk :=
  build_if_test_newest k s e body hwf hif hL hr

/-- the same without well-formedness of the spans, from its actual premise: no statement other than an `if` statement `t … q` starts
at line `t ≠ 0` (and `t` is not the header line of the class) -/
theorem C02_if_test_newest_of_unique (k : Kind) (s e : Nat) (body : List Stmt) (t q : Nat) (ht : t ≠ 0) (hu : UT t q (tlL body))
    (hk : k = .cls → s ≠ t) : NW t q (build k s e body).stmts :=
  build_nw k s e body t q ht hu hk

/-- **the builder invariant** for statement lists, from every well-formed builder state and for EVERY program (no fragment
condition): `JP t e` — every record that starts at `t` ends at `e` and is the newest record of its block, and none is in the current
block — is preserved -/
theorem C02_if_test_invariant (t e : Nat) (ht : t ≠ 0) (ss : List Stmt) (st : St) (w : WF st) (hu : UT t e (tlL ss)) (h : JP t e st) :
    JP t e (procList st ss) :=
  procList_jp t e ss st ht w hu h

/-- the reading of `NW`: no newer record is in the block of a record that starts at `t` -/
theorem C02_NW_split {t e : Nat} {L : List SRec} (h : NW t e L) {a c : List SRec} {r : SRec} (hL : L = a ++ r :: c) (hr : r.s = t) :
    r.e = e ∧ ∀ x ∈ a, x.blk ≠ r.blk :=
  h.split hL hr

/-- **one statement per line**: two tagged lines of a well-formed list with the same start line are the same -/
theorem C02_lines_distinct (ss : List Stmt) (p : Nat) (hw : wfL p ss = true) :
    ∀ x ∈ tlL ss, ∀ y ∈ tlL ss, x.1 = y.1 → x = y :=
  tl_unique ss p hw

/-- **static part**: a structurally dead `elif` head lies inside the span `s₀ … e₀` of an `if` statement of the body whose start
line `s₀` is structurally dead and is not the head of an `elif` clause -/
theorem C02_elif_head_in_dead_if (body : List Stmt) (p : Nat) (hw : wfL p body = true) (hno : noSEL body = true) (l : Nat)
    (hl : l ∈ structDead body) (hel : l ∈ elifL body) :
    ∃ s₀ e₀, (s₀, e₀, 0) ∈ tlL body ∧ s₀ ∈ structDead body ∧ s₀ ∉ elifL body ∧ s₀ ≤ l ∧ l ≤ e₀ :=
  elif_head_in_dead_if body p hw hno l hl hel

/-! ### evaluated examples -/

/-- executable form of `NW t q L` -/
def nwB (t q : Nat) : List SRec → Bool
  | [] => true
  | r :: L => nwB t q L && (r.s != t || r.e == q) && L.all (fun x => x.s != t || x.blk != r.blk)

/-- every `if` statement of the body has its test record as the newest record of its block -/
def ifTestsNewest (body : List Stmt) (st : St) : Bool := (tlL body).all (fun x => x.2.2 != 0 || nwB x.1 x.2.1 st.stmts)

/-- the `if` statements (start, end) of a body -/
def ifsOf (body : List Stmt) : List (Nat × Nat) := (tlL body).filterMap (fun x => if x.2.2 == 0 then some (x.1, x.2.1) else none)

/-- a chain with two `elif` clauses and `else` in dead code: both `elif` heads (6, 8) are covered by the range `4 … 11` of the block
of the dead `if` test
```
2  def f(x):
3      return 0
4      if a:            # dead   range 4 … 11
5          p = 1
6      elif b:          # `elif` head
7          p = 2
8      elif c:          # `elif` head
9          p = 3
10     else:
11         p = 4
12     q = p            # dead
``` -/
def rzChain : List Stmt :=
  [.ret 3 3 [] false,
   .ite 4 11 [.simple 5 5 [] false]
     [.elifc 6 11 [.simple 7 7 [] false] [.elifc 8 11 [.simple 9 9 [] false] [.elsec 10 11 [.simple 11 11 [] false]]]],
   .simple 12 12 [] false]
#guard okC2 rzChain && wfloc1 rzChain
#guard structDead rzChain == [4, 5, 6, 7, 8, 9, 11, 12] && elifL rzChain == [6, 8] && ifsOf rzChain == [(4, 11)]
#guard rangesOf (findings (build .func 2 12 rzChain)) == [(4, 11), (5, 5), (12, 12), (0, 0), (7, 7), (0, 0), (9, 9), (11, 11)]
#guard covered (structDead rzChain) (findings (build .func 2 12 rzChain))
#guard ifTestsNewest rzChain (build .func 2 12 rzChain)

/-- chains nested in dead `try` / `except` / `finally` code inside a loop, a chain in the `else` branch of a dead `if`, and a chain
whose `elif` then-branch contains another chain
```
2  while c:
3      break
4      try:                      # dead (a `try` has no record)
5          if a:                 # dead   range 5 … 8
6              x = 1
7          elif b:               # `elif` head
8              x = 2
9      except E:                 # dead
10         if p:                 # dead
11             y = 1
12         else:
13             if q:             # dead   range 13 … 19
14                 y = 2
15             elif r:           # `elif` head
16                 if u:         # dead   range 16 … 19
17                     y = 3
18                 elif v:       # `elif` head
19                     y = 4
20             z = 0             # dead (after the chain, still in the `else` branch of line 10)
21     finally:
22         w = 1                 # dead
``` -/
def rzNested : List Stmt :=
  [.loop 2 22
    [.brk 3 3,
     .try_ 4 22
       [.ite 5 8 [.simple 6 6 [] false] [.elifc 7 8 [.simple 8 8 [] false] []]]
       [.handler 9 20
         [.ite 10 20 [.simple 11 11 [] false]
           [.elsec 12 20
             [.ite 13 19 [.simple 14 14 [] false]
                [.elifc 15 19 [.ite 16 19 [.simple 17 17 [] false] [.elifc 18 19 [.simple 19 19 [] false] []]] []],
              .simple 20 20 [] false]]]]
       []
       [.simple 22 22 [] false]]
    []]
#guard okC2 rzNested && wfloc1 rzNested
#guard elifL rzNested == [7, 15, 18] && (elifL rzNested).all (· ∈ structDead rzNested)
#guard ifsOf rzNested == [(5, 8), (10, 20), (13, 19), (16, 19)]
#guard structDead rzNested == [5, 6, 7, 8, 9, 10, 11, 13, 14, 15, 16, 17, 18, 19, 20, 22]
#guard covered (structDead rzNested) (findings (build .func 1 22 rzNested))
#guard ifTestsNewest rzNested (build .func 1 22 rzNested)

/-- an `if` as the single element of an `orelse` list (processed like an `elif` with a LOCATED test) followed by an `elif` clause;
all branches terminate, so the code after the chain is dead as far as the builder is concerned; the whole statement is dead after `raise`
```
3  raise E
4  if a:              # dead   range 4 … 9
5      return 1
6  if b:              # (orelse of line 4, no `else:` wrapper)  dead   range 6 … 9
7      return 2
8  elif c:            # `elif` head: covered by 6 … 9 (and by 4 … 9)
9      return 3
10 t = 0              # dead
``` -/
def rzElseIf : List Stmt :=
  [.raise 3 3,
   .ite 4 9 [.ret 5 5 [] false] [.ite 6 9 [.ret 7 7 [] false] [.elifc 8 9 [.ret 9 9 [] false] []]],
   .simple 10 10 [] false]
#guard okC2 rzElseIf && wfloc1 rzElseIf
#guard structDead rzElseIf == [4, 5, 6, 7, 8, 9, 10] && elifL rzElseIf == [8] && ifsOf rzElseIf == [(4, 9), (6, 9)]
#guard covered (structDead rzElseIf) (findings (build .func 2 10 rzElseIf))
#guard ifTestsNewest rzElseIf (build .func 2 10 rzElseIf)

-- the examples of C02y: the `elif` heads are covered, and every `if` test is the newest record of its block
#guard covered (structDead ryElif) (findings (build .func 2 10 ryElif)) && covered (structDead ryElifNested) (findings (build .func 1 19 ryElifNested))
#guard ifTestsNewest ryElif (build .func 2 10 ryElif) && ifTestsNewest ryElifNested (build .func 1 19 ryElifNested)
#guard ifTestsNewest ryLoopChain (build .func 1 11 ryLoopChain)

/-- a class body (header line 1) with a dead chain -/
def rzCls : List Stmt :=
  [.class_ 2 8 [.ret 3 3 [] false, .ite 4 7 [.simple 5 5 [] false] [.elifc 6 7 [.simple 7 7 [] false] []], .simple 8 8 [] false]]
#guard okC2 rzCls && wfL 2 rzCls
#guard structDead rzCls == [4, 5, 6, 7, 8] && elifL rzCls == [6]
#guard covered (structDead rzCls) (findings (build .cls 1 8 rzCls))
#guard ifTestsNewest rzCls (build .cls 1 8 rzCls)

/-! #### the restrictions are needed -/

/-- **`WFDef` is needed for `elif` heads** (children inside the span of the parent): an `if` statement whose span `4 … 5` does NOT
contain its `elif` clause.  The block of the dead `if` test is reported as `4 … 5`, the `elif` test has the range `0 … 0`: the
structurally dead `elif` head 6 lies in NO reported range
```
3  raise E
4  if a:              # dead, span given as 4 … 5
5      x = 1
6  elif b:            # `elif` head, dead, NOT covered
7      x = 2
``` -/
def rzBadSpan : List Stmt :=
  [.raise 3 3, .ite 4 5 [.simple 5 5 [] false] [.elifc 6 7 [.simple 7 7 [] false] []]]
#guard okC2 rzBadSpan && !wfloc1 rzBadSpan
#guard structDead rzBadSpan == [4, 5, 6, 7] && elifL rzBadSpan == [6]
#guard rangesOf (findings (build .func 2 7 rzBadSpan)) == [(4, 5), (5, 5), (0, 0), (7, 7)]
#guard !covered [6] (findings (build .func 2 7 rzBadSpan))
-- the builder invariant does not depend on the spans: the `if` test is still the newest record of its block
#guard ifTestsNewest rzBadSpan (build .func 2 7 rzBadSpan)

-- **`noSEL` is needed** (C02y, `ryStandalone`): a standalone `elif` clause stores its `0..0` test in the current (dead) block, whose
-- range then ends at line 0; line 3 is structurally dead, is not an `elif` head and is not covered
#guard !covered [3] (findings (build .func 1 5 ryStandalone)) && !noSEL ryStandalone && okLC false ryStandalone && wfloc1 ryStandalone
#guard 3 ∈ structDead ryStandalone

/-- **one statement per line is needed for the builder invariant** (`UT`): two statements on line 4, a simple statement and an `if`.
The record of the simple statement starts at the line of the `if` statement and is NOT the newest record of its block (the `if` test
is stored after it in the same block) -/
def rzSameLine : List Stmt := [.simple 4 4 [] false, .ite 4 6 [.simple 5 5 [] false] []]
#guard !wfloc1 rzSameLine && ifsOf rzSameLine == [(4, 6)]
#guard !ifTestsNewest rzSameLine (build .func 1 6 rzSameLine)

end PV.C02

#print axioms PV.C02.C02_ranges_complete_all
#print axioms PV.C02.C02_ranges_complete_all'
#print axioms PV.C02.C02_ranges_complete_all_fn
#print axioms PV.C02.C02_if_test_newest
#print axioms PV.C02.C02_if_test_newest_of_unique
#print axioms PV.C02.C02_if_test_invariant
#print axioms PV.C02.C02_lines_distinct
#print axioms PV.C02.C02_elif_head_in_dead_if
