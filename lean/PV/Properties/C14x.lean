import PV.Properties.C14
import PV.Properties.C11x
import PV.Proofs.UFArrayRefines
/-!
# C14 (extension) — the union–find MIRROR computes exactly the groups of the specification model

`PV.UF.Arr.components` is the executable mirror of the union–find of `internal/analyzer/lcom.go` (path compression,
union by rank, final `find` pass, grouping by root; arrays for the two Go maps), proved equal to the function model
`PV.UF.components`, whose correctness is `PV/Proofs/UFCorrect.lean`.  This file states, in the vocabulary of
`PV/Properties/C14.lean`, that the mirror run on the method graph returns the list `groups c` of the specification
model — the same classes, each as the same increasing list, in the same order — and hence the same LCOM4.
-/
namespace PV.C14
open PV.SCC PV.LCOM PV.C11

/-- the groups the union–find mirror computes for a class: the components of the method graph, the edges being
united in the order in which `graph c` lists them -/
def ufGroups (c : Cls) : List (List Nat) := PV.UF.Arr.components c.n (graph c).edges

/-! ## union–find components of any edge list that generates the mutual-reachability relation of a graph -/

/-- a class computed by the union–find mirror is the model's class of each of its members, as a list -/
theorem C14_uf_class_eq_comp (g : G) (E : List (Nat × Nat))
    (hconn : ∀ u v, u < g.n → v < g.n → (PV.UF.Conn g.n E u v ↔ Mutual g u v))
    (hok : tableOk (reachTable g) = true) (c : List Nat) (hc : c ∈ PV.UF.components g.n E) (u : Nat) (hu : u ∈ c) :
    u < g.n ∧ c = comp g (reachTable g) u := by
  have hun : u < g.n := (PV.UF.exists_class g.n E u).1 ⟨c, hc, hu⟩
  refine ⟨hun, ?_⟩
  apply PV.Tarjan.sorted_ext (PV.UF.components_sorted g.n E c hc)
    (by unfold comp; exact List.Pairwise.filter _ List.pairwise_lt_range)
  intro v
  rw [PV.UF.class_eq_component g.n E hc hu v, mem_comp hok hun v]
  constructor
  · rintro ⟨hv, h⟩; exact ⟨hv, (hconn u v hun hv).mp h⟩
  · rintro ⟨hv, h⟩; exact ⟨hv, (hconn u v hun hv).mpr h⟩

/-- **Union–find = model, for every graph.** If the in-range pairs of the edge list `E` generate (as an equivalence)
exactly the mutual-reachability relation of `g`, then the union–find mirror run on `E` returns the very list
`classes g` of the specification model. -/
theorem C14_uf_classes (g : G) (E : List (Nat × Nat))
    (hconn : ∀ u v, u < g.n → v < g.n → (PV.UF.Conn g.n E u v ↔ Mutual g u v))
    (cs : List (List Nat)) (h : classes g = some cs) : PV.UF.Arr.components g.n E = cs := by
  rw [PV.UF.Arr.components_eq]
  have hpart := classes_partition g cs h
  unfold classes at h
  simp only [] at h
  split at h
  case isFalse => cases h
  case isTrue hok =>
  cases h
  refine C11_classes_unique (PV.UF.components_nonempty g.n E) (fun c hc => (hpart.2.1 c hc).1)
    (PV.UF.components_heads_sorted g.n E) ?_ ?_
  · unfold classesOf
    exact C11_reps_heads_sorted g _ _ (fun u hu => by simpa using hu)
  · intro c
    constructor
    · intro hc
      match c, PV.UF.components_nonempty g.n E c hc, hc with
      | u :: rest, _, hc =>
        obtain ⟨hun, e⟩ := C14_uf_class_eq_comp g E hconn hok _ hc u List.mem_cons_self
        rw [e]; exact class_listed hok hun
    · intro hc
      obtain ⟨u, hu, rfl, _⟩ := (mem_classesOf c).mp hc
      obtain ⟨c', hc', huc'⟩ := (PV.UF.exists_class g.n E u).2 hu
      obtain ⟨_, e⟩ := C14_uf_class_eq_comp g E hconn hok c' hc' u huc'
      rw [← e]; exact hc'

/-! ## the method graph -/

/-- union–find connectivity over the edges of the method graph is reachability in the method graph (all `u v`;
the edges of `graph c` join methods `< c.n` and come in both directions) -/
theorem C14_uf_conn (c : Cls) (u v : Nat) : PV.UF.Conn c.n (graph c).edges u v ↔ Reach (graph c) u v := by
  constructor
  · intro h
    induction h with
    | refl => exact Reach.refl _
    | edge he _ _ => exact Reach.step (Reach.refl _) he
    | symm _ ih => exact reach_symm c ih
    | trans _ _ ih1 ih2 => exact ih1.trans ih2
  · intro h
    induction h with
    | refl => exact .refl _
    | step _ he ih =>
      have hm := mem_graph.mp he
      exact .trans ih (.edge he hm.1 hm.2.1)

/-- **C14 for the union–find mirror.** Two instance methods are in a common group computed by the mirror iff they are
connected in the method graph. -/
theorem C14_uf_components (c : Cls) (u v : Nat) (hu : u < c.n) (hv : v < c.n) :
    (∃ g ∈ ufGroups c, u ∈ g ∧ v ∈ g) ↔ Reach (graph c) u v := by
  unfold ufGroups
  rw [PV.UF.Arr.same_class_iff_conn c.n (graph c).edges hu hv]
  exact C14_uf_conn c u v

/-- **C14 (the mirror's groups partition the instance methods).** Every instance method is in exactly one group:
the groups together list `0 … c.n-1` exactly once; no group is empty; each is sorted increasingly; the groups are
ordered by their smallest member. -/
theorem C14_uf_partition (c : Cls) :
    (ufGroups c).flatten.Perm (List.range c.n) ∧ (∀ g ∈ ufGroups c, g ≠ [] ∧ g.Pairwise (· < ·)) ∧
    (ufGroups c).Pairwise HeadLt := by
  unfold ufGroups
  rw [PV.UF.Arr.components_eq]
  exact ⟨PV.UF.components_perm _ _,
    fun g hg => ⟨PV.UF.components_nonempty _ _ g hg, PV.UF.components_sorted _ _ g hg⟩,
    PV.UF.components_heads_sorted _ _⟩

/-- **C14 (mirror = model).** The groups computed by the union–find mirror are exactly the groups of the specification
model: the same list of lists (same classes, same order of members, same order of classes). -/
theorem C14_uf_groups (c : Cls) (gs : List (List Nat)) (h : groups c = some gs) : ufGroups c = gs := by
  unfold groups at h
  refine C14_uf_classes (graph c) (graph c).edges ?_ gs h
  intro u v _ _
  show PV.UF.Conn c.n (graph c).edges u v ↔ _
  rw [C14_uf_conn]
  exact ⟨fun r => ⟨r, reach_symm c r⟩, fun m => m.1⟩

/-- **C14 (mirror = model, unconditional form).** The model always returns (`C11_total`), and it returns the mirror's
groups. -/
theorem C14_uf_groups_total (c : Cls) : groups c = some (ufGroups c) := by
  obtain ⟨gs, h⟩ := (C11_total (graph c)).2
  have h' : groups c = some gs := h
  rw [h', C14_uf_groups c gs h']

/-- **C14 (LCOM4 from the mirror).** For a class with at least two instance methods LCOM4 is the number of groups the
union–find mirror computes. -/
theorem C14_uf_lcom4 (c : Cls) (hn : 2 ≤ c.n) : lcom4 c = some (ufGroups c).length := by
  unfold lcom4
  rw [if_neg (by omega), C14_uf_groups_total c]; rfl

/-! ## non-vacuity -/

/-- the class of the example in `C14.lean`: 4 methods, {0,1} share attribute 7, 2 calls 3 -/
example : ufGroups { n := 4, attrs := [[7], [7, 8], [], [9]], calls := [[], [], [3], []] } = [[0, 1], [2, 3]] := by
  unfold ufGroups; rw [PV.UF.Arr.components_eq]; decide
example : groups { n := 4, attrs := [[7], [7, 8], [], [9]], calls := [[], [], [3], []] } = some [[0, 1], [2, 3]] := by
  decide
#guard ufGroups { n := 4, attrs := [[7], [7, 8], [], [9]], calls := [[], [], [3], []] } == [[0, 1], [2, 3]]
#guard ufGroups { n := 5, attrs := [[1], [2], [1, 3], [], [3]], calls := [[], [], [], [1], []] } == [[0, 2, 4], [1, 3]]
#guard lcom4 { n := 5, attrs := [[1], [2], [1, 3], [], [3]], calls := [[], [], [], [1], []] } == some 2

end PV.C14
