/-! Expected shape of the report-level grouping path (service/clone_service.go DetectClonesInFiles, filterDetectedPairs; internal/analyzer/clone_detector.go
GroupClonePairs) — reviewed against /repo after the F20 repair (504675f): the detector's pairs are filtered by the request FIRST, and the groups are
formed from exactly those pairs with the configured strategy; `C10_facts`. -/
namespace PV.GroupFactsExpected


def GroupReportFacts_DetectClonesInFiles : List String := [
  "if: ctx == nil",
  "return: nil, fmt.Errorf(…)",
  "if: req == nil",
  "return: nil, fmt.Errorf(…)",
  "if: len(filePaths) == 0",
  "return: nil, fmt.Errorf(…)",
  "if: req.Timeout > 0",
  "range: _, filePath := filePaths",
  "return: nil, fmt.Errorf(…)",
  "if: err != nil",
  "continue",
  "if: err != nil",
  "continue",
  "if: parseResult == nil || parseResult.AST == nil",
  "continue",
  "if: parseResult.AST != nil",
  "if: len(allFragments) == 0",
  "return: &domain.CloneResponse{ Clones: []*domain.Clone{}, ClonePairs: []*domain.ClonePair{}, CloneGroups: []*domain.CloneGroup{}, Statistics: &domain.CloneStatistics{ TotalFragments: 0, FilesAnalyzed: filesAnalyzed, LinesAnalyzed: linesAnalyzed, NodesAnalyzed: nodesAnalyzed, }, Request: req, Duration: time.Since(startTime).Milliseconds(), Success: true, }, nil",
  "assign: clonePairs, _ := detector.DetectClonesWithLSH(ctx, allFragments)",
  "assign: clonePairs = s.filterDetectedPairs(clonePairs, req)",
  "assign: cloneGroups := detector.GroupClonePairs(clonePairs)",
  "assign: domainClonePairs := s.convertClonePairsToDomain(clonePairs)",
  "assign: domainCloneGroups := s.convertCloneGroupsToDomain(cloneGroups)",
  "assign: domainClonePairs = s.filterClonePairs(domainClonePairs, req)",
  "assign: domainCloneGroups = s.filterCloneGroups(domainCloneGroups, req)",
  "return: &domain.CloneResponse{ Clones: domainClones, ClonePairs: domainClonePairs, CloneGroups: domainCloneGroups, Statistics: statistics, Request: req, Duration: duration, Success: true, }, nil"
]

def GroupReportFacts_filterDetectedPairs : List String := [
  "assign: filtered := make([]*analyzer.ClonePair, 0, len(pairs))",
  "range: _, pair := pairs",
  "if: pair.Similarity < req.MinSimilarity || pair.Similarity > req.MaxSimilarity",
  "continue",
  "if: !slices.Contains(req.CloneTypes, s.convertCloneType(pair.CloneType))",
  "continue",
  "assign: filtered = append(filtered, pair)",
  "return: filtered"
]


def GroupDetectorFacts_GroupClonePairs : List String := [
  "return: cd.configuredGroupingStrategy().GroupClones(pairs)"
]

def GroupDetectorFacts_configuredGroupingStrategy : List String := [
  "assign: thr := cd.cloneDetectorConfig.GroupingThreshold",
  "if: thr < 0.0",
  "assign: thr = 0.0",
  "if: thr > 1.0",
  "assign: thr = 1.0",
  "assign: k := cd.cloneDetectorConfig.KCoreK",
  "if: k < 2",
  "assign: k = 2",
  "return: CreateGroupingStrategy(GroupingConfig{ Mode: cd.cloneDetectorConfig.GroupingMode, Threshold: thr, KCoreK: k, Type1Threshold: cd.cloneDetectorConfig.Type1Threshold, Type2Threshold: cd.cloneDetectorConfig.Type2Threshold, Type3Threshold: cd.cloneDetectorConfig.Type3Threshold, Type4Threshold: cd.cloneDetectorConfig.Type4Threshold, })"
]

def GroupDetectorFacts_groupClonesWithStrategy : List String := [
  "if: strategy == nil",
  "assign: cd.cloneGroups = []*CloneGroup{}",
  "return",
  "assign: cd.cloneGroups = strategy.GroupClones(cd.clonePairs)"
]

end PV.GroupFactsExpected
