/-! Expected shape of AnalyzeUseCase.Execute (reviewed against /repo at the pinned commit); `C20_facts`. -/
namespace PV.TaskFactsExpected

def TaskFacts_Execute : List String := [
  "if: len(paths) > 0",
  "if: err != nil",
  "return: nil, fmt.Errorf(…)",
  "assign: useCaseCfg.ConfigFile = resolvedConfigPath",
  "if: patternErr != nil",
  "return: nil, patternErr",
  "if: err != nil",
  "return: nil, fmt.Errorf(…)",
  "if: len(files) == 0",
  "return: nil, fmt.Errorf(…)",
  "if: uc.progressManager != nil",
  "assign: tasks := uc.createAnalysisTasks(useCaseCfg, files)",
  "range: _, task := tasks",
  "if: !task.Enabled",
  "continue",
  "call: wg.Add(1)",
  "go: func…(task)",
  "assign: t.Result = result",
  "assign: t.Error = err",
  "call: wg.Wait()",
  "if: progressDone != nil",
  "range: _, task := tasks",
  "if: task.Enabled && task.Error != nil",
  "assign: errors = append(errors, fmt.Errorf(\"%s: %w\", task.Name, task.Error))",
  "assign: response := uc.buildResponse(tasks, startTime)",
  "if: len(errors) > 0",
  "return: response, fmt.Errorf(…)",
  "return: response, nil"
]

end PV.TaskFactsExpected
