import PV.Model.Registry
import Mathlib.Data.List.Perm.Basic
import Mathlib.Data.List.Nodup
/-!
# C04 — every definition is analysed exactly once, under its real name and line span
-/
namespace PV.C04
open PV.Reg

theorem registry_names (rows : List Row) : ∀ reg : List Row,
    ((rows.foldl register reg).map (·.name)).Nodup ∨ ¬ (reg.map (·.name)).Nodup := by
  induction rows with
  | nil => intro reg; by_cases h : (reg.map (·.name)).Nodup <;> simp_all
  | cons r rs ih =>
    intro reg
    by_cases h : (reg.map (·.name)).Nodup
    · left
      have : ((register reg r).map (·.name)).Nodup := by
        unfold register
        rw [List.map_append, List.nodup_append]
        refine ⟨(h.sublist ((List.filter_sublist).map _)), by simp, ?_⟩
        intro a ha b hb
        simp only [List.map_cons, List.map_nil, List.mem_singleton] at hb
        subst hb
        obtain ⟨x, hx, rfl⟩ := List.mem_map.mp ha
        have := (List.mem_filter.mp hx).2
        simpa using this
      rcases ih (register reg r) with h' | h'
      · exact h'
      · exact absurd this h'
    · right; exact h

/-- **C04 (exactly once).** Names in the registry are pairwise different: no definition is reported twice. -/
theorem C04_once (rows : List Row) : ((registry rows).map (·.name)).Nodup := by
  rcases registry_names rows [] with h | h
  · exact h
  · exact absurd (by simp) h

theorem foldl_register_perm (rows : List Row) : ∀ reg : List Row,
    ((reg ++ rows).map (·.name)).Nodup → (rows.foldl register reg).Perm (reg ++ rows) := by
  induction rows with
  | nil => intro reg _; simp
  | cons r rs ih =>
    intro reg h
    have hreg : register reg r = reg ++ [r] := by
      unfold register
      congr 1
      apply List.filter_eq_self.mpr
      intro x hx
      have hne : x.name ≠ r.name := by
        intro heq
        rw [List.map_append, List.nodup_append] at h
        exact h.2.2 x.name (List.mem_map.mpr ⟨x, hx, rfl⟩) r.name (by simp) heq
      simpa using hne
    simp only [List.foldl_cons]
    rw [hreg]
    have : ((reg ++ [r] ++ rs).map (·.name)).Nodup := by simpa using h
    have := ih (reg ++ [r]) this
    simpa using this

/-- **C04 (none dropped).** If the dotted qualified names of a module's function definitions are pairwise different,
the registry holds exactly those definitions (same names, same line spans), each once. -/
theorem C04_complete (m : List Def) (h : ((allFuncs [] m).map (·.name)).Nodup) : (registry (allFuncs [] m)).Perm (allFuncs [] m) := by
  have := foldl_register_perm (allFuncs [] m) [] (by simpa using h)
  simpa [registry] using this

/-- **C04 (names).** A function is registered under the dotted path of its enclosing definitions. -/
theorem C04_name (scope : List String) (n : String) (s e : Nat) (kids : List Def) :
    (funcsOf scope (.fn n s e kids)).head? = some { name := ".".intercalate (scope ++ [n]), s := s, e := e } := by
  simp [funcsOf, dotted]

/-- the excluded case is real: with a repeated qualified name the earlier definition is lost (finding F3) -/
example : registry [⟨"K.x", 3, 5⟩, ⟨"K.y", 6, 7⟩, ⟨"K.x", 9, 11⟩] = [⟨"K.y", 6, 7⟩, ⟨"K.x", 9, 11⟩] := by decide

end PV.C04
