import PV.Properties.C07
import PV.Proofs.ZSCorrect
/-!
# C07 (extension) — the Zhang–Shasha MIRROR has the properties of the specification distance

`PV.ZS.zsDist` is the executable mirror of pyscn's Zhang–Shasha implementation (post-order arrays,
left-most-leaf array, key roots, the two DP tables); `PV.ZS.zs_correct` proves that it computes the
specification distance `PV.TED.dist` for all trees and all cost models.  Hence every theorem of
`PV/Properties/C07.lean` about the specification holds for the mirror.
-/
namespace PV.C07
open PV.TED PV.ZS

/-- **C07 (mirror = specification).** The Zhang–Shasha mirror computes the textbook forest-edit-distance
recursion, for ALL trees and ALL cost models (no size bound, no assumption on the costs). -/
theorem C07_zs_correct (c : Cost) (t₁ t₂ : Tree) : zsDist c t₁ t₂ = dist c t₁ t₂ :=
  PV.ZS.zs_correct c t₁ t₂

/-- the same, in terms of the forest recursion `ted` on the two singleton forests -/
theorem C07_zs_ted (c : Cost) (t₁ t₂ : Tree) : zsDist c t₁ t₂ = ted c [t₁] [t₂] :=
  PV.ZS.zs_correct c t₁ t₂

/-- **C07 (identity, mirror).** If relabelling a node to itself is free, the mirror reports distance 0
between any tree and itself. -/
theorem C07_zs_self (c : Cost) (h : ∀ a, c.ren a a = 0) (t : Tree) : zsDist c t t = 0 := by
  rw [C07_zs_correct]; exact C07_self_tree c h t

/-- **C07 (symmetry, mirror).** For a symmetric cost model the mirror's distance is symmetric. -/
theorem C07_zs_symm (c : Cost) (hs : Symmetric c) (t₁ t₂ : Tree) : zsDist c t₁ t₂ = zsDist c t₂ t₁ := by
  rw [C07_zs_correct, C07_zs_correct]; exact C07_symm c hs [t₁] [t₂]

/-- **C07 (upper bound, mirror).** The mirror's distance never exceeds deleting every node of the first
tree plus inserting every node of the second. -/
theorem C07_zs_upper (c : Cost) (t₁ t₂ : Tree) : zsDist c t₁ t₂ ≤ delAll c t₁ + insAll c t₂ := by
  rw [C07_zs_correct]
  have := C07_upper c [t₁] [t₂]
  simpa [dist, delAllL, insAllL] using this

/-- **C07 (similarity, mirror).** The similarity derived from the mirror's distance of a tree with itself
is 1 (numerator = denominator) when relabelling a node to itself is free. -/
theorem C07_zs_similarity_self (unit : Nat) (c : Cost) (h : ∀ a, c.ren a a = 0) (t : Tree) :
    (similarity unit (zsDist c t t) t.size t.size).1 = (similarity unit (zsDist c t t) t.size t.size).2 := by
  rw [C07_zs_self c h t]; exact C07_similarity_self unit _ _

/-- non-vacuity: a concrete pair under the unit cost model — the mirror is EXECUTED here (swapping two
subtrees costs 2), and agrees with the specification value of the example in `C07.lean` -/
example : zsDist ⟨fun _ => 1, fun _ => 1, fun a b => if a = b then 0 else 1⟩
    (.node 0 [.node 1 [], .node 2 []]) (.node 0 [.node 2 [], .node 1 []]) = 2 := by
  rw [C07_zs_correct]; simp [dist, ted]

#guard zsDist ⟨fun _ => 1, fun _ => 1, fun a b => if a = b then 0 else 1⟩
    (.node 0 [.node 1 [], .node 2 []]) (.node 0 [.node 2 [], .node 1 []]) == 2

/-- non-vacuity of the hypotheses: the unit cost model is symmetric with free identity relabelling -/
example : Symmetric ⟨fun _ => 1, fun _ => 1, fun a b => if a = b then 0 else 1⟩ ∧
    ∀ a : Nat, (⟨fun _ => 1, fun _ => 1, fun a b => if a = b then 0 else 1⟩ : Cost).ren a a = 0 := by
  refine ⟨⟨fun _ => rfl, fun a b => ?_⟩, fun a => by simp⟩
  by_cases h : a = b
  · subst h; rfl
  · have h' : ¬ b = a := fun e => h e.symm
    simp [h, h']

end PV.C07
