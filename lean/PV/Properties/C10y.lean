import PV.Proofs.GroupingAlgoContracts
import PV.Proofs.GroupingAlgoStarFuel
/-!
# C10 (extension) — executable MIRRORS of the four remaining grouping algorithms satisfy the contract for ALL inputs

`PV/Model/GroupingAlgo.lean` mirrors `k_core_grouping.go`, `star_medoid_grouping.go`, `complete_linkage_grouping.go` and
`centroid_grouping.go` (connected mode is `C10x.lean`).  This file restates the results proved in
`PV/Proofs/GroupingAlgoKCore.lean` and `PV/Proofs/GroupingAlgoContracts.lean` in the vocabulary of `C10.lean`.

How the nondeterminism of the Go code is modelled
* **k-core**: the work queue is filled by ranging over the map `degree`, the neighbours are visited by ranging over the
  map `adj[v]`.  Both orders are PARAMETERS: `q0` is any permutation of the low-degree fragments, `nbrs v` any permutation
  of the neighbours of `v` (`MapOrders`).  The theorems hold for every such pair of orders; consequently the result is
  the same for all of them (`C10_kcore_order_independent`).  The second phase of the Go code (components of what
  remains, members sorted) is NOT mirrored: the mirror uses the component function of the specification there.
* **star, complete linkage, centroid**: the Go code ranges over slices only (first appearance / index order), so these
  mirrors are deterministic.  The final `sort.Slice` of the GROUPS by their floating-point average similarity is not
  modelled; the groups are listed in the order of creation and the checkers are shown to be independent of that order
  (`C10_group_order_irrelevant`).  The medoid selection of star mode is a parameter of the contract theorem (any
  selection that returns a member), so the result does not depend on how the float averages are rounded.

Preconditions that are needed, each with an evaluated counter-example below
* k-core = specification needs `NoSelf` (no pair at or above the threshold joins a fragment with itself: the Go code
  counts such a self-loop in `len(adj[v])`, and never removes it) and `InRange` (as in `C10x.lean`);
* star and complete linkage need a POSITIVE threshold: with threshold 0 the test `similarity(…) >= threshold` accepts
  the value 0.0 that `similarity` returns for a pair that was never reported.
-/
namespace PV.C10
open PV.SCC PV.Grouping PV.C11 PV.GroupingAlgo

/-! ## k-core: the work queue computes the k-core, for every map order -/

/-- the two map iteration orders of one run of `KCoreGrouping.GroupClones`: ANY enumeration of the fragments whose
initial degree is below `k`, and for every fragment ANY enumeration of its neighbours -/
structure MapOrders (θ k : Nat) (ps : List Pair) (q0 : List Nat) (nbrs : Nat → List Nat) : Prop where
  queue : q0.Perm (lowDegree θ k ps)
  adj : ∀ v, (nbrs v).Perm (adjOf θ ps v)

/-- the orders the executable default `kcoreGroupsAlgo` uses are one instance -/
theorem C10_kcore_default_orders (θ k : Nat) (ps : List Pair) : MapOrders θ k ps (lowDegree θ k ps) (adjOf θ ps) :=
  ⟨List.Perm.refl _, fun _ => List.Perm.refl _⟩

/-- **(b) The fuel never runs out.** For every map order the peeling loop returns within `number of fragments` pops
(every fragment enters the queue at most once). -/
theorem C10_kcore_queue_total (θ k : Nat) (ps : List Pair) (q0 : List Nat) (nbrs : Nat → List Nat)
    (ho : MapOrders θ k ps q0 nbrs) : ∃ removed, kcoreRemovedWith θ k ps q0 nbrs = some removed :=
  kcoreRemovedWith_total θ k ps q0 nbrs ho.queue ho.adj

/-- the fragments that remain, as a list -/
def remainingList (ps : List Pair) (removed : List Nat) : List Nat := (nodesOf ps).filter (remaining ps removed)

theorem C10_mem_remainingList {ps : List Pair} {removed : List Nat} {u : Nat} :
    u ∈ remainingList ps removed ↔ remaining ps removed u = true := by
  unfold remainingList
  rw [List.mem_filter]
  constructor
  · exact fun h => h.2
  · intro h
    refine ⟨?_, h⟩
    unfold remaining at h
    simp only [Bool.and_eq_true, List.contains_iff_mem] at h
    exact h.1

/-- **(a) What remains is the k-core: the LARGEST set in which every fragment has at least `k` neighbours inside the set.**
For every map order: every remaining fragment has at least `k` remaining neighbours (`degIn` of the specification), and
every duplicate-free set `S` of fragments whose members have at least `k` neighbours inside `S` remains entirely. -/
theorem C10_kcore_queue_largest (θ k : Nat) (ps : List Pair) (q0 : List Nat) (nbrs : Nat → List Nat)
    (hns : NoSelf θ ps) (ho : MapOrders θ k ps q0 nbrs) (removed : List Nat)
    (h : kcoreRemovedWith θ k ps q0 nbrs = some removed) :
    (∀ u ∈ remainingList ps removed, k ≤ degIn θ ps (remainingList ps removed) u) ∧
    (∀ S : List Nat, S.Nodup → (∀ u ∈ S, u ∈ nodesOf ps) → (∀ u ∈ S, k ≤ degIn θ ps S u) →
      ∀ u ∈ S, u ∈ remainingList ps removed) := by
  obtain ⟨hdeg, hmax⟩ := kcoreRemovedWith_spec hns ho.queue ho.adj h
  have mem_nbrs : ∀ v x, x ∈ nbrs v ↔ linked θ ps v x = true := fun v x => by rw [(ho.adj v).mem_iff, mem_adjOf]
  have hrem : ∀ u, u ∈ remainingList ps removed ↔ u ∈ nodesOf ps ∧ u ∉ removed := by
    intro u
    rw [C10_mem_remainingList]
    unfold remaining
    simp
  constructor
  · intro u hu
    obtain ⟨huV, hur⟩ := (hrem u).mp hu
    refine Nat.le_trans (hdeg u huV hur) ?_
    unfold cnt degIn
    apply (List.subperm_of_subset (((simple_of_perm hns ho.adj).nd u).filter _) _).length_le
    intro y hy
    obtain ⟨hy1, hy2⟩ := List.mem_filter.mp hy
    have hl := (mem_nbrs u y).mp hy1
    have hyr : y ∉ removed := by simpa using hy2
    refine List.mem_filter.mpr ⟨(hrem y).mpr ⟨mem_nodesOf.mpr (occurs_of_linked hl).2, hyr⟩, ?_⟩
    simp only [Bool.and_eq_true, bne_iff_ne, ne_eq]
    exact ⟨(linked_ne hns hl).symm, hl⟩
  · intro S hSnd hSV hSk u hu
    refine (hrem u).mpr ⟨hSV u hu, hmax S ?_ u hu⟩
    intro x hx
    refine Nat.le_trans (hSk x hx) ?_
    unfold degIn
    apply (List.subperm_of_subset (hSnd.filter _) _).length_le
    intro y hy
    obtain ⟨hyS, hy2⟩ := List.mem_filter.mp hy
    simp only [Bool.and_eq_true] at hy2
    exact List.mem_filter.mpr ⟨(mem_nbrs x y).mpr hy2.2, by simpa using hyS⟩

/-- **(a) The work queue computes the fixed point of the specification's `peel`.** For every map order, both sides
return, and a fragment remains after the queue-driven loop iff it is in the set at which the round-by-round peeling of
the specification stabilises. -/
theorem C10_kcore_queue_eq_peel (n θ k : Nat) (ps : List Pair) (q0 : List Nat) (nbrs : Nat → List Nat)
    (hr : InRange n θ ps) (hns : NoSelf θ ps) (ho : MapOrders θ k ps q0 nbrs) :
    ∃ removed R, kcoreRemovedWith θ k ps q0 nbrs = some removed ∧
      peel θ k ps (n + 1) ((List.range n).filter (occurs ps)) = some R ∧
      ∀ u, u < n → (remaining ps removed u = true ↔ u ∈ R) := by
  obtain ⟨removed, hrem⟩ := kcoreRemovedWith_total θ k ps q0 nbrs ho.queue ho.adj
  obtain ⟨R, hR⟩ := peel_total θ k ps (n + 1) (specStart n ps) (by
    unfold specStart
    exact Nat.le_trans (List.length_filter_le _ _) (by simp))
  exact ⟨removed, R, hrem, hR, kcore_queue_eq_peel hr hns ho.queue ho.adj hrem hR⟩

/-- **Mirror = specification (k-core mode).** For every map order the mirror returns exactly `kcoreGroups`: the same
groups, the same order of members, the same order of groups. -/
theorem C10_kcore_algo_eq_spec (n θ k : Nat) (ps : List Pair) (q0 : List Nat) (nbrs : Nat → List Nat)
    (hr : InRange n θ ps) (hns : NoSelf θ ps) (ho : MapOrders θ k ps q0 nbrs) :
    kcoreGroupsWith n θ k ps q0 nbrs = kcoreGroups n θ k ps :=
  kcoreGroupsWith_eq hr hns ho.queue ho.adj

/-- **(c) The result does not depend on the map iteration order**: two runs with different queue orders and different
neighbour orders remove the same fragments (as sets) and report the same groups. No range hypothesis is needed. -/
theorem C10_kcore_order_independent (n θ k : Nat) (ps : List Pair) (hns : NoSelf θ ps)
    (q0 q0' : List Nat) (nbrs nbrs' : Nat → List Nat) (ho : MapOrders θ k ps q0 nbrs) (ho' : MapOrders θ k ps q0' nbrs') :
    (∀ removed removed', kcoreRemovedWith θ k ps q0 nbrs = some removed → kcoreRemovedWith θ k ps q0' nbrs' = some removed' →
      ∀ u, remaining ps removed u = remaining ps removed' u) ∧
    kcoreGroupsWith n θ k ps q0 nbrs = kcoreGroupsWith n θ k ps q0' nbrs' := by
  have key : ∀ removed removed', kcoreRemovedWith θ k ps q0 nbrs = some removed →
      kcoreRemovedWith θ k ps q0' nbrs' = some removed' → ∀ u, remaining ps removed u = remaining ps removed' u := by
    intro removed removed' h h' u
    obtain ⟨a1, a2⟩ := C10_kcore_queue_largest θ k ps q0 nbrs hns ho removed h
    obtain ⟨b1, b2⟩ := C10_kcore_queue_largest θ k ps q0' nbrs' hns ho' removed' h'
    have hnd : ∀ r, (remainingList ps r).Nodup := fun r => (nodup_nodesOf ps).filter _
    have hV : ∀ r, ∀ x ∈ remainingList ps r, x ∈ nodesOf ps := fun r x hx => (List.mem_filter.mp hx).1
    rw [Bool.eq_iff_iff, ← C10_mem_remainingList, ← C10_mem_remainingList]
    exact ⟨b2 _ (hnd _) (hV _) a1 u, a2 _ (hnd _) (hV _) b1 u⟩
  refine ⟨key, ?_⟩
  obtain ⟨removed, h⟩ := C10_kcore_queue_total θ k ps q0 nbrs ho
  obtain ⟨removed', h'⟩ := C10_kcore_queue_total θ k ps q0' nbrs' ho'
  unfold kcoreGroupsWith
  rw [h, h']
  simp only
  congr 2
  funext u
  exact key removed removed' h h' u

/-- the executable default mirror (first-appearance orders, `k` raised to 2 as `NewKCoreGrouping` does) is the specification -/
theorem C10_kcore_algo_default (n θ k : Nat) (ps : List Pair) (hr : InRange n θ ps) (hns : NoSelf θ ps) :
    kcoreGroupsAlgo n θ k ps = kcoreGroups n θ (effK k) ps :=
  C10_kcore_algo_eq_spec n θ (effK k) ps _ _ hr hns (C10_kcore_default_orders θ (effK k) ps)

/-- **k-core mode, contract of the mirror**, for every map order: the mirror returns groups, every member has at least
`k` neighbours inside its group, groups have ≥ 2 members, no repetition, pairwise disjoint. -/
theorem C10_kcore_algo_contract (n θ k : Nat) (ps : List Pair) (q0 : List Nat) (nbrs : Nat → List Nat)
    (hr : InRange n θ ps) (hns : NoSelf θ ps) (ho : MapOrders θ (effK k) ps q0 nbrs) :
    ∃ gs, kcoreGroupsWith n θ (effK k) ps q0 nbrs = some gs ∧
      (∀ g ∈ gs, ∀ u ∈ g, k ≤ degIn θ ps g u) ∧ (∀ g ∈ gs, 2 ≤ g.length ∧ g.Nodup) ∧
      (∀ g₁ ∈ gs, ∀ g₂ ∈ gs, ∀ x, x ∈ g₁ → x ∈ g₂ → g₁ = g₂) := by
  rw [C10_kcore_algo_eq_spec n θ (effK k) ps q0 nbrs hr hns ho]
  obtain ⟨R, hR⟩ := peel_total θ (effK k) ps (n + 1) (specStart n ps) (by
    unfold specStart
    exact Nat.le_trans (List.length_filter_le _ _) (by simp))
  unfold specStart at hR
  obtain ⟨gs, hgs⟩ := (C11_total (linkGraph n θ ps (fun u => R.contains u))).1
  have hk : kcoreGroups n θ (effK k) ps = some gs := by unfold kcoreGroups; rw [hR]; exact hgs
  have hc := C10_kcore n θ (effK k) ps gs hk
  exact ⟨gs, hk, C10_kcore_effK n θ k ps gs hk, hc.2.2.1, hc.2.2.2⟩

/-! ## star / medoid, complete linkage, centroid: the emitted groups pass the checkers, for all inputs -/

/-- **Star/medoid mode.** For every input, every positive threshold and every medoid selection that returns a member of
the cluster (in particular the mirror of `findMedoid`), the emitted groups pass `checkStar` and `checkCommon`; hence
(`C10_star_sound`, `C10_common_sound`) every group has a member that is linked at or above the threshold with every
other member, groups have ≥ 2 members, no repetition, and are pairwise disjoint. -/
theorem C10_star_algo_contract (fuel θ : Nat) (ps : List Pair) (hθ : 0 < θ) (medoid : List Nat → Option Nat)
    (hm : MedoidOK medoid) :
    let gs := starGroupsWith fuel θ ps medoid
    checkStar θ ps gs = true ∧ checkCommon gs = true ∧
    (∀ g ∈ gs, ∃ m ∈ g, (∀ u ∈ g, u ≠ m → linked θ ps u m = true) ∧ (∀ u ∈ g, ∀ v ∈ g, Conn θ ps u v)) ∧
    (∀ g ∈ gs, 2 ≤ g.length ∧ g.Nodup) ∧ (∀ g₁ ∈ gs, ∀ g₂ ∈ gs, g₁ ≠ g₂ → ∀ x, x ∈ g₁ → x ∈ g₂ → False) := by
  intro gs
  obtain ⟨h1, h2⟩ := starGroupsWith_contract fuel θ ps medoid hm hθ
  exact ⟨h1, h2, C10_star_sound θ ps gs h1, (C10_common_sound gs h2).1, (C10_common_sound gs h2).2⟩

/-- the mirror of `findMedoid` returns a member (never `nil`) on every cluster of two or more -/
theorem C10_star_findMedoid_member (ps : List Pair) : MedoidOK (findMedoid ps) := findMedoid_ok ps

/-- the star mirror with the mirrored `findMedoid` -/
theorem C10_star_algo_default (n θ : Nat) (ps : List Pair) (hθ : 0 < θ) :
    checkStar θ ps (starGroupsAlgo n θ ps) = true ∧ checkCommon (starGroupsAlgo n θ ps) = true :=
  starGroupsWith_contract n θ ps (findMedoid ps) (findMedoid_ok ps) hθ

/-- the fuel that bounds the recursion of the path-compressing `find` in the star mirror never runs out: with all
fragments below `n`, every fuel `≥ n` yields the same groups as fuel `n` (the union–find invariant of `UFCorrect.lean`
holds throughout the improvement loop) -/
theorem C10_star_fuel (n θ : Nat) (ps : List Pair) (hr : ∀ p ∈ ps, p.u < n ∧ p.v < n) (fuel : Nat) (hf : n ≤ fuel) :
    starGroupsWith fuel θ ps (findMedoid ps) = starGroupsAlgo n θ ps :=
  starGroupsWith_fuel θ ps (findMedoid ps) (findMedoid_mem ps) hr fuel hf

/-- **Complete-linkage mode.** For every input and every positive threshold the emitted groups pass `checkComplete` and
`checkCommon`; hence every two different members of a group are a reported pair at or above the threshold. -/
theorem C10_complete_algo_contract (θ one : Nat) (ps : List Pair) (hθ : 0 < θ) :
    let gs := completeGroupsAlgo θ one ps
    checkComplete θ ps gs = true ∧ checkCommon gs = true ∧
    (∀ g ∈ gs, ∀ u ∈ g, ∀ v ∈ g, u ≠ v → linked θ ps u v = true) ∧
    (∀ g ∈ gs, 2 ≤ g.length ∧ g.Nodup) ∧ (∀ g₁ ∈ gs, ∀ g₂ ∈ gs, g₁ ≠ g₂ → ∀ x, x ∈ g₁ → x ∈ g₂ → False) := by
  intro gs
  obtain ⟨h1, h2⟩ := completeGroupsAlgo_contract θ one ps hθ
  exact ⟨h1, h2, C10_complete_sound θ ps gs h1, (C10_common_sound gs h2).1, (C10_common_sound gs h2).2⟩

/-- the merge loop of complete linkage never stops for lack of fuel: when it returns, no two clusters can be merged -/
theorem C10_complete_fuel (θ one : Nat) (ps : List Pair) :
    bestPair θ one ps (mergeLoop θ one ps (nodesOf ps).length ((nodesOf ps).map (fun f => [f]))) = none :=
  mergeLoop_done θ one ps _ _ (by simp)

/-- **Centroid mode.** For every input and every threshold (zero included) the mirror returns (neither the BFS nor the
seed loop runs out of fuel) and the emitted groups pass `checkLinked` and `checkCommon` — with the `maxGroupSize = 50`
cut-off and the last-duplicate-wins similarity index; hence every member is reached from the seed through reported
pairs at or above the threshold between members of the group. -/
theorem C10_centroid_algo_contract (n θ : Nat) (ps : List Pair) :
    ∃ gs, centroidGroupsAlgo θ ps = some gs ∧ checkLinked n θ ps gs = true ∧ checkCommon gs = true ∧
      (∀ g ∈ gs, ∃ m ∈ g, ∀ v ∈ g, Reach (linkGraph n θ ps (fun u => g.contains u)) m v) ∧
      (∀ g ∈ gs, 2 ≤ g.length ∧ g.Nodup) ∧ (∀ g₁ ∈ gs, ∀ g₂ ∈ gs, g₁ ≠ g₂ → ∀ x, x ∈ g₁ → x ∈ g₂ → False) := by
  obtain ⟨gs, h0, h1, h2⟩ := centroidGroupsAlgo_contract n θ ps
  exact ⟨gs, h0, h1, h2, C10_linked_sound n θ ps gs h1, (C10_common_sound gs h2).1, (C10_common_sound gs h2).2⟩

/-- the final `sort.Slice` of the groups (by average similarity, size, first member) is not mirrored; it cannot matter:
every checker gives the same verdict on every reordering of the groups -/
theorem C10_group_order_irrelevant (n θ : Nat) (ps : List Pair) (gs gs' : List (List Nat)) (hp : gs'.Perm gs) :
    (checkCommon gs = true → checkCommon gs' = true) ∧ (checkStar θ ps gs = true → checkStar θ ps gs' = true) ∧
    (checkComplete θ ps gs = true → checkComplete θ ps gs' = true) ∧
    (checkLinked n θ ps gs = true → checkLinked n θ ps gs' = true) :=
  ⟨checkCommon_perm hp, checkStar_perm hp, checkComplete_perm hp, checkLinked_perm hp⟩

/-- the member order produced by the mirrors of star and complete linkage is the sorted one -/
theorem C10_sortNat_sorted (l : List Nat) : (sortNat l).Pairwise (· ≤ ·) ∧ (sortNat l).Perm l :=
  ⟨sortNat_sorted l, sortNat_perm l⟩

/-! ## non-vacuity and counter-examples (all evaluated) -/

/-- a triangle 0-1-2 with a tail 2-3-4, a square 5-6-7-8 with a diagonal, and a pair below the threshold -/
def demo : List Pair :=
  [⟨3, 4, 90⟩, ⟨0, 1, 90⟩, ⟨1, 2, 80⟩, ⟨0, 2, 70⟩, ⟨2, 3, 90⟩, ⟨5, 6, 90⟩, ⟨6, 7, 90⟩, ⟨7, 8, 90⟩, ⟨8, 5, 90⟩, ⟨5, 7, 60⟩, ⟨4, 5, 10⟩]

-- k-core: mirror = specification, for the default orders and for reversed queue / neighbour orders
#guard kcoreGroupsAlgo 9 50 2 demo == some [[0, 1, 2], [5, 6, 7, 8]]
#guard kcoreGroups 9 50 2 demo == some [[0, 1, 2], [5, 6, 7, 8]]
#guard kcoreGroupsWith 9 50 2 demo (lowDegree 50 2 demo).reverse (fun v => (adjOf 50 demo v).reverse) == some [[0, 1, 2], [5, 6, 7, 8]]
#guard kcoreRemovedWith 50 2 demo (lowDegree 50 2 demo) (adjOf 50 demo) == some [3, 4]
#guard kcoreRemovedWith 50 2 demo (lowDegree 50 2 demo).reverse (adjOf 50 demo) == some [3, 4]
#guard kcoreGroupsAlgo 9 50 3 demo == some [] && kcoreGroups 9 50 3 demo == some []
#guard kcoreGroupsAlgo 9 50 0 demo == kcoreGroups 9 50 2 demo    -- k < 2 is raised to 2
-- a cascade: the path 0-1-2-3 hangs off the triangle 3-4-5; the queue removes 0, then 1, then 2
#guard kcoreRemovedWith 1 2 [⟨0, 1, 1⟩, ⟨1, 2, 1⟩, ⟨2, 3, 1⟩, ⟨3, 4, 1⟩, ⟨4, 5, 1⟩, ⟨5, 3, 1⟩] [0] (adjOf 1 [⟨0, 1, 1⟩, ⟨1, 2, 1⟩, ⟨2, 3, 1⟩, ⟨3, 4, 1⟩, ⟨4, 5, 1⟩, ⟨5, 3, 1⟩]) == some [2, 1, 0]

example : InRange 9 50 demo ∧ NoSelf 50 demo := by
  constructor <;> intro p hp hθ <;>
    simp only [demo, List.mem_cons, List.not_mem_nil, or_false] at hp <;>
    rcases hp with rfl | rfl | rfl | rfl | rfl | rfl | rfl | rfl | rfl | rfl | rfl <;> simp_all

/-- `NoSelf` cannot be dropped: a pair of a fragment with itself is a self-loop in the Go adjacency map, it is counted in
`len(adj[v])` and never removed, so the ends of the path 0-1-2 keep degree 2; the specification (and the property) count
neighbours OTHER than the fragment itself -/
example : kcoreGroupsAlgo 3 1 2 [⟨0, 0, 1⟩, ⟨0, 1, 1⟩, ⟨1, 2, 1⟩, ⟨2, 2, 1⟩] = some [[0, 1, 2]] ∧
    kcoreGroups 3 1 2 [⟨0, 0, 1⟩, ⟨0, 1, 1⟩, ⟨1, 2, 1⟩, ⟨2, 2, 1⟩] = some [] := by decide

-- star, complete linkage, centroid on the same input: the checkers accept
#guard starGroupsAlgo 9 50 demo == [[2, 3, 4], [0, 1], [5, 6, 7, 8]] && checkStar 50 demo (starGroupsAlgo 9 50 demo) && checkCommon (starGroupsAlgo 9 50 demo)
#guard completeGroupsAlgo 50 100 demo == [[3, 4], [0, 1, 2], [5, 6], [7, 8]]
#guard checkComplete 50 demo (completeGroupsAlgo 50 100 demo) && checkCommon (completeGroupsAlgo 50 100 demo) 
#guard centroidGroupsAlgo 50 demo == some [[3, 4, 2, 0, 1], [5, 6, 7, 8]]
#guard (centroidGroupsAlgo 50 demo).all (fun gs => checkLinked 9 50 demo gs && checkCommon gs)
-- centroid keeps the LAST duplicate of a pair: 90 then 10 does not link, 10 then 90 does
#guard centroidGroupsAlgo 50 [⟨0, 1, 90⟩, ⟨0, 1, 10⟩] == some [] && centroidGroupsAlgo 50 [⟨0, 1, 10⟩, ⟨0, 1, 90⟩] == some [[0, 1]]
-- star / complete keep the HIGHEST duplicate
#guard starGroupsAlgo 2 50 [⟨0, 1, 90⟩, ⟨0, 1, 10⟩] == [[0, 1]] && completeGroupsAlgo 50 100 [⟨1, 0, 10⟩, ⟨0, 1, 90⟩] == [[0, 1]]

/-- the positive threshold cannot be dropped (star): on the path 0-1-2-3 with threshold 0 the Go loop emits the group
{0,1,2,3} with medoid 1, and fragment 3 has NO reported pair with the medoid (`similarity` returns 0.0 for the absent
pair and `0.0 >= 0` holds); no member is linked with all the others, `checkStar` rejects.  With threshold 1 the same
input gives {0,1,2}. -/
example : starGroupsAlgo 4 0 [⟨0, 1, 50⟩, ⟨1, 2, 90⟩, ⟨2, 3, 50⟩] = [[0, 1, 2, 3]] ∧
    checkStar 0 [⟨0, 1, 50⟩, ⟨1, 2, 90⟩, ⟨2, 3, 50⟩] [[0, 1, 2, 3]] = false ∧
    starGroupsAlgo 4 1 [⟨0, 1, 50⟩, ⟨1, 2, 90⟩, ⟨2, 3, 50⟩] = [[0, 1, 2]] := by decide

/-- the positive threshold cannot be dropped (complete linkage): with threshold 0 every two clusters can be merged
(the early rejection `s < threshold` never fires, and the rejected score 0.0 is `>= 0` anyway), the final verification
accepts absent pairs, and the whole path is reported as one group although 0 and 2 are not a pair -/
example : completeGroupsAlgo 0 100 [⟨0, 1, 50⟩, ⟨1, 2, 90⟩] = [[0, 1, 2]] ∧
    checkComplete 0 [⟨0, 1, 50⟩, ⟨1, 2, 90⟩] [[0, 1, 2]] = false ∧
    completeGroupsAlgo 1 100 [⟨0, 1, 50⟩, ⟨1, 2, 90⟩] = [[1, 2]] := by decide

#print axioms C10_kcore_queue_total
#print axioms C10_kcore_queue_largest
#print axioms C10_kcore_queue_eq_peel
#print axioms C10_kcore_algo_eq_spec
#print axioms C10_kcore_order_independent
#print axioms C10_kcore_algo_contract
#print axioms C10_star_algo_contract
#print axioms C10_star_fuel
#print axioms C10_complete_algo_contract
#print axioms C10_complete_fuel
#print axioms C10_centroid_algo_contract
#print axioms C10_group_order_irrelevant

end PV.C10
