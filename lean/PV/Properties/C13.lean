import PV.Model.CBO
import PV.Generated.RiskCBO
import Mathlib.Data.List.Perm.Subperm
import Mathlib.Data.List.Nodup
/-!
# C13 — CBO counts each coupled class once
-/
namespace PV.C13
open PV.CBO

theorem mem_foldl (l : List Nat) : ∀ (acc : List Nat) (n : Nat), n ∈ l.foldl insertNew acc ↔ n ∈ acc ∨ n ∈ l := by
  induction l with
  | nil => intro acc n; simp
  | cons a l ih =>
    intro acc n
    rw [List.foldl_cons, ih]
    unfold insertNew
    split
    · next h =>
      have ha : a ∈ acc := by simpa using h
      constructor
      · rintro (h | h)
        · exact .inl h
        · exact .inr (List.mem_cons_of_mem _ h)
      · rintro (h | h)
        · exact .inl h
        · rcases List.mem_cons.mp h with rfl | h
          · exact .inl ha
          · exact .inr h
    · simp only [List.mem_append, List.mem_cons, List.not_mem_nil, or_false]
      constructor
      · rintro ((h | h) | h)
        · exact .inl h
        · exact .inr (.inl h)
        · exact .inr (.inr h)
      · rintro (h | h | h)
        · exact .inl (.inl h)
        · exact .inl (.inr h)
        · exact .inr h

theorem nodup_foldl (l : List Nat) : ∀ acc : List Nat, acc.Nodup → (l.foldl insertNew acc).Nodup := by
  induction l with
  | nil => intro acc h; simpa
  | cons a l ih =>
    intro acc h
    rw [List.foldl_cons]
    apply ih
    unfold insertNew
    split
    · exact h
    · next hc =>
      rw [List.nodup_append]
      refine ⟨h, by simp, ?_⟩
      intro x hx y hy
      simp only [List.mem_singleton] at hy
      subst hy
      intro hxy; subst hxy
      exact hc (by simpa using hx)

/-- **C13 (set).** The listed dependencies are exactly the coupled (non-excluded) classes mentioned, each once. -/
theorem C13_set (ex : Nat → Bool) (l : List Nat) :
    (∀ n, n ∈ deps ex l ↔ n ∈ l ∧ ex n = false) ∧ (deps ex l).Nodup ∧ cbo ex l = (deps ex l).length := by
  refine ⟨?_, ?_, rfl⟩
  · intro n
    unfold deps
    rw [mem_foldl, List.mem_filter]
    simp
  · exact nodup_foldl _ [] List.nodup_nil

theorem count_eq_of_same_members {a b : List Nat} (ha : a.Nodup) (hb : b.Nodup) (h : ∀ x, x ∈ a ↔ x ∈ b) : a.length = b.length :=
  Nat.le_antisymm (List.subperm_of_subset ha (fun x hx => (h x).mp hx)).length_le
    (List.subperm_of_subset hb (fun x hx => (h x).mpr hx)).length_le

/-- **C13 (order and multiplicity).** CBO depends only on the SET of mentions: reordering members or mentioning a class
again does not change it. -/
theorem C13_perm (ex : Nat → Bool) (l₁ l₂ : List Nat) (h : ∀ n, n ∈ l₁ ↔ n ∈ l₂) : cbo ex l₁ = cbo ex l₂ := by
  unfold cbo
  apply count_eq_of_same_members (C13_set ex l₁).2.1 (C13_set ex l₂).2.1
  intro x
  rw [(C13_set ex l₁).1, (C13_set ex l₂).1, h x]

theorem C13_idem (ex : Nat → Bool) (l : List Nat) (n : Nat) (h : n ∈ l) : cbo ex (l ++ [n]) = cbo ex l := by
  apply C13_perm
  intro x
  simp only [List.mem_append, List.mem_singleton]
  constructor
  · rintro (hx | rfl)
    · exact hx
    · exact h
  · intro hx; exact .inl hx

/-- **C13 (one more).** Mentioning one NEW coupled class raises CBO by exactly one; mentioning an excluded name
(a built-in, by default) changes nothing. -/
theorem C13_add (ex : Nat → Bool) (l : List Nat) (n : Nat) (hn : n ∉ l) (hc : ex n = false) : cbo ex (l ++ [n]) = cbo ex l + 1 := by
  unfold cbo deps
  rw [List.filter_append, List.foldl_append]
  simp only [List.filter_cons, hc, Bool.not_false, if_true, List.filter_nil, List.foldl_cons, List.foldl_nil]
  have : ¬ (List.foldl insertNew [] (List.filter (fun n => !ex n) l)).contains n = true := by
    intro hcon
    have := (mem_foldl _ [] n).mp (by simpa using hcon)
    simp only [List.not_mem_nil, false_or, List.mem_filter] at this
    exact hn this.1
  generalize List.foldl insertNew [] (List.filter (fun n => !ex n) l) = acc at *
  unfold insertNew
  rw [if_neg this]
  simp

theorem C13_excluded (ex : Nat → Bool) (l : List Nat) (n : Nat) (hc : ex n = true) : cbo ex (l ++ [n]) = cbo ex l := by
  unfold cbo deps
  rw [List.filter_append]
  simp [hc]

/-- **C13 (risk).** Risk level exactly by the two thresholds (translated from `CBOAnalyzer.assessRiskLevel`). -/
theorem C13_risk (F : Type) [Arith F] (v lo med : Int) :
    PV.Generated.RiskCBO.assessRiskLevel F v lo med = (if v ≤ lo then "low" else if v ≤ med then "medium" else "high") := rfl

example : cbo (fun n => n == 0) [3, 0, 5, 3, 7, 5] = 3 := by decide

end PV.C13
