import PV.Model.Decisions
import PV.Generated.RiskComplexityService
import PV.Generated.RiskComplexityConfig
/-!
# C03 — cyclomatic complexity = 1 + decision count; risk level by thresholds
-/
namespace PV.C03
open PV.CFG PV.Dec

/-- **C03 (risk, service).** The risk level in the report (translated from `calculateRiskLevel`, regenerated each run):
low / medium / high exactly by the two thresholds, for every value and every threshold pair. -/
theorem C03_risk_service (F : Type) [Arith F] (c lo med : Int) :
    PV.Generated.RiskComplexityService.calculateRiskLevel F c lo med =
      (if c ≤ lo then "low" else if c ≤ med then "medium" else "high") := rfl

/-- **C03 (risk, analyzer).** Same for `ComplexityConfig.AssessRiskLevel`. -/
theorem C03_risk_config (F : Type) [Arith F] (c lo med : Int) :
    PV.Generated.RiskComplexityConfig.AssessRiskLevel F c lo med =
      (if c ≤ lo then "low" else if c ≤ med then "medium" else "high") := rfl

/-- **C03 (what counts).** The specification counts exactly what the property lists. -/
theorem C03_counts (dead : Nat → Bool) :
    (∀ s e a b, decS dead (.ite s e a b) = one dead s + decisions dead a + decisions dead b) ∧
    (∀ s e a b, decS dead (.elifc s e a b) = one dead s + decisions dead a + decisions dead b) ∧
    (∀ s e a b, decS dead (.loop s e a b) = one dead s + decisions dead a + decisions dead b) ∧
    (∀ s e a, decS dead (.handler s e a) = one dead s + decisions dead a) ∧
    (∀ s e a, decS dead (.elsec s e a) = decisions dead a) ∧
    (∀ s e, decS dead (.brk s e) = 0) ∧ (∀ s e, decS dead (.cont s e) = 0) ∧
    (∀ s e, decS dead (.ret s e [] false) = 0) ∧
    (∀ s e comp, dead s = false → decS dead (.simple s e comp true) = comp.length + (comp.filter id).length) := by
  refine ⟨?_, ?_, ?_, ?_, ?_, ?_, ?_, ?_, ?_⟩ <;> intros <;> simp_all [decS, compClauses]

/-- **C03 (dead code is not counted, live code is).** A decision on a live line adds exactly one; on a dead line nothing. -/
theorem C03_one (dead : Nat → Bool) (s : Nat) : one dead s = if dead s = true then 0 else 1 := by
  unfold one; cases dead s <;> rfl

/-- **C03 (independence).** The count is a function of the statement skeleton and of pyscn's own dead-line set
only: it cannot depend on identifiers, literals or comments (they are not part of `Stmt`), and it is monotone:
declaring MORE lines dead never increases it. -/
theorem C03_dead_antitone (d₁ d₂ : Nat → Bool) (h : ∀ l, d₁ l = true → d₂ l = true) :
    ∀ n, (∀ l : List Stmt, sizeL l ≤ n → decisions d₂ l ≤ decisions d₁ l) ∧ (∀ x : Stmt, x.size ≤ n → decS d₂ x ≤ decS d₁ x) := by
  have hone : ∀ s, one d₂ s ≤ one d₁ s := by
    intro s; unfold one
    cases h1 : d₁ s <;> cases h2 : d₂ s <;> simp
    exact absurd (h s h1) (by simp [h2])
  intro n
  induction n with
  | zero =>
    constructor
    · intro l hl
      cases l with
      | nil => simp [decisions]
      | cons x xs => simp [sizeL] at hl
    · intro x hx
      cases x <;> simp [Stmt.size] at hx
  | succ n ih =>
    obtain ⟨ihL, ihS⟩ := ih
    constructor
    · intro l hl
      cases l with
      | nil => simp [decisions]
      | cons x xs =>
        rw [decisions, decisions]
        simp only [sizeL] at hl
        exact Nat.add_le_add (ihS x (by omega)) (ihL xs (by omega))
    · intro x hx
      cases x with
      | simple s e comp hc =>
        rw [decS, decS]
        cases hc <;> simp
        cases h1 : d₁ s <;> cases h2 : d₂ s <;> simp
        exact absurd (h s h1) (by simp [h2])
      | ret s e comp hc =>
        rw [decS, decS]
        cases hc <;> simp
        cases h1 : d₁ s <;> cases h2 : d₂ s <;> simp
        exact absurd (h s h1) (by simp [h2])
      | brk | cont | raise | def_ => simp [decS]
      | ite s e a b | elifc s e a b | loop s e a b =>
        rw [decS, decS]
        simp only [Stmt.size] at hx
        have := hone s; have := ihL a (by omega); have := ihL b (by omega); omega
      | elsec s e a | with_ s e a | match_ s e a | case_ s e a | class_ s e a =>
        rw [decS, decS]
        simp only [Stmt.size] at hx
        exact ihL a (by omega)
      | handler s e a =>
        rw [decS, decS]
        simp only [Stmt.size] at hx
        have := hone s; have := ihL a (by omega); omega
      | try_ s e a hs c d =>
        rw [decS, decS]
        simp only [Stmt.size] at hx
        have := ihL a (by omega); have := ihL hs (by omega); have := ihL c (by omega); have := ihL d (by omega); omega

/-- non-vacuity: `if … elif … else` with a loop holding a filtered comprehension: 1 + (if, elif, loop, for-clause, filter) = 6 -/
example : mccabe (fun _ => false)
    [.ite 1 9 [.loop 2 4 [.simple 3 3 [true] true] []] [.elifc 5 6 [.ret 6 6 [] false] [.elsec 7 8 [.brk 8 8]]]] = 6 := by
  simp [mccabe, decisions, decS, one, compClauses]

end PV.C03
