import PV.Model.Gate
import PV.Generated.GateFacts
/-!
# C19 — the check gate fails exactly when a gated violation exists
-/
namespace PV.C19
open PV.Gate

/-- the property, stated without reference to how `runCheck` counts -/
def Spec (f : Flags) (r : Results) : Prop :=
  (enabled f .complexity = true → ∃ cs cfgMax, r.cx = some (cs, cfgMax) ∧ ∀ c ∈ cs, c ≤ effMax f cfgMax) ∧
  (enabled f .deadcode = true → ∃ ss gate, r.dead = some (ss, gate) ∧ (f.allowDead = true ∨ ∀ s ∈ ss, s.isAtLeast gate = false)) ∧
  (enabled f .deps = true → ∃ n, r.cycles = some n ∧ (f.allowCirc = true ∨ (n : Int) ≤ f.maxCycles)) ∧
  (enabled f .mockdata = true → r.mock = some 0)

theorem filter_length_zero {α} (p : α → Bool) (l : List α) : (l.filter p).length = 0 ↔ ∀ x ∈ l, p x = false := by
  rw [List.length_eq_zero_iff, List.filter_eq_nil_iff]
  constructor
  · intro h x hx; cases hp : p x with
    | false => rfl
    | true => exact absurd hp (h x hx)
  · intro h x hx hp; rw [h x hx] at hp; cases hp

theorem cxPart_ok (f : Flags) (r : Results) : cxPart f r = (0, false) ↔
    (enabled f .complexity = true → ∃ cs cfgMax, r.cx = some (cs, cfgMax) ∧ ∀ c ∈ cs, c ≤ effMax f cfgMax) := by
  unfold cxPart
  split
  · next h =>
    simp only [h, true_implies]
    rcases hr : r.cx with _ | ⟨cs, cfgMax⟩
    · simp
    · simp only [Prod.mk.injEq, and_true, Option.some.injEq, exists_eq_left', cxIssues]
      rw [filter_length_zero]
      simp only [decide_eq_false_iff_not, Int.not_lt]
      constructor
      · intro h'; exact ⟨cs, cfgMax, ⟨rfl, rfl⟩, h'⟩
      · rintro ⟨cs', m', ⟨rfl, rfl⟩, h'⟩; exact h'
  · next h => simp [h]

theorem deadPart_ok (f : Flags) (r : Results) : deadPart f r = (0, false) ↔
    (enabled f .deadcode = true → ∃ ss gate, r.dead = some (ss, gate) ∧ (f.allowDead = true ∨ ∀ s ∈ ss, s.isAtLeast gate = false)) := by
  unfold deadPart
  split
  · next h =>
    simp only [h, true_implies]
    rcases hr : r.dead with _ | ⟨ss, gate⟩
    · simp
    · cases ha : f.allowDead
      · simp only [Bool.not_false, if_true, Prod.mk.injEq, and_true, Option.some.injEq, Bool.false_eq_true, false_or, deadIssues]
        rw [filter_length_zero]
        constructor
        · intro h'; exact ⟨ss, gate, ⟨rfl, rfl⟩, h'⟩
        · rintro ⟨ss', g', ⟨rfl, rfl⟩, h'⟩; exact h'
      · simp only [Bool.not_true, Bool.false_eq_true, if_false, true_iff, true_or, and_true]
        exact ⟨ss, gate, rfl⟩
  · next h => simp [h]

theorem depsPart_ok (f : Flags) (r : Results) (hmc : 0 ≤ f.maxCycles) : depsPart f r = (0, false) ↔
    (enabled f .deps = true → ∃ n, r.cycles = some n ∧ (f.allowCirc = true ∨ (n : Int) ≤ f.maxCycles)) := by
  unfold depsPart
  split
  · next h =>
    simp only [h, true_implies]
    rcases hr : r.cycles with _ | n
    · simp
    · simp only [Option.some.injEq, exists_eq_left']
      split
      · next hgt =>
        cases ha : f.allowCirc
        · simp only [Bool.not_false, if_true, Prod.mk.injEq, and_true, Bool.false_eq_true, false_or]
          constructor
          · intro h0; subst h0; omega
          · intro hle; omega
        · simp
      · next hle => simp only [true_iff]; right; omega
  · next h => simp [h]

theorem mockPart_ok (f : Flags) (r : Results) : mockPart f r = (0, false) ↔ (enabled f .mockdata = true → r.mock = some 0) := by
  unfold mockPart
  split
  · next h =>
    simp only [h, true_implies]
    rcases hr : r.mock with _ | n
    · simp
    · simp
  · next h => simp [h]

/-- **C19 (gate).** `pyscn check` exits 0 iff every selected gating analysis ran and found no gated violation
(complexity above the effective maximum, dead code at the gate severity unless allowed, more cycles than the
allowed maximum unless allowed, mock data when selected). -/
theorem C19_gate (f : Flags) (r : Results) (hmc : 0 ≤ f.maxCycles) : exitZero f r = true ↔ Spec f r := by
  unfold Spec
  rw [← cxPart_ok, ← deadPart_ok, ← depsPart_ok f r hmc, ← mockPart_ok]
  unfold exitZero run
  simp only []
  rcases cxPart f r with ⟨a, ea⟩
  rcases deadPart f r with ⟨b, eb⟩
  rcases depsPart f r with ⟨c, ec⟩
  rcases mockPart f r with ⟨d, ed⟩
  simp only [Prod.mk.injEq, Bool.and_eq_true, Bool.not_eq_true', Bool.or_eq_false_iff, beq_iff_eq]
  constructor
  · rintro ⟨⟨⟨⟨h1, h2⟩, h3⟩, h4⟩, hs⟩; exact ⟨⟨by omega, h1⟩, ⟨by omega, h2⟩, ⟨by omega, h3⟩, ⟨by omega, h4⟩⟩
  · rintro ⟨⟨a0, h1⟩, ⟨b0, h2⟩, ⟨c0, h3⟩, ⟨d0, h4⟩⟩; exact ⟨⟨⟨⟨h1, h2⟩, h3⟩, h4⟩, by omega⟩

/-- **C19 (clones).** Clone findings never change the exit status of `runCheck` — and neither does a failing clone analysis, which is MORE than the
property allows (see `specExitZero`, `C19_clone_error_deviation`). -/
theorem C19_clones_never_fail (f : Flags) (r : Results) (x : Option Nat) :
    exitZero f { r with clones := x } = exitZero f r := rfl

/-- **The property's own reading** of "exits non-zero … when an analysis could not run": a selected clone analysis that FAILS also makes the
gate fail (clone *findings* still never do). `exitZero` is what `runCheck` does; this is what C19 states. -/
def specExitZero (f : Flags) (r : Results) : Bool :=
  exitZero f r && !(enabled f .clones && r.clones.isNone)

/-- the implementation agrees with the property whenever the clone analysis is not selected or could run … -/
theorem C19_spec_agrees (f : Flags) (r : Results) (h : enabled f .clones = false ∨ r.clones.isSome = true) :
    specExitZero f r = exitZero f r := by
  unfold specExitZero
  rcases h with h | h
  · simp [h]
  · cases hc : r.clones <;> simp_all

/-- … and deviates exactly at the remaining point: **C19 is false of the implementation there** (finding F54, replayed on the real binary by the check:
`pyscn check --select clones <missing dir>` exits 0). The upstream comment at that line says the failure is deliberately "not a hard error". -/
theorem C19_clone_error_deviation :
    ∃ (f : Flags) (r : Results), enabled f .clones = true ∧ r.clones = none ∧ exitZero f r = true ∧ specExitZero f r = false :=
  ⟨{ select := [.clones] }, { cx := none, dead := none, clones := none, cycles := none, mock := none }, by decide, rfl, by decide, by decide⟩

/-- **C19 (threshold).** Effective maximum complexity: the explicit flag, else the config value when positive,
else the flag's default (10, pinned by `C19_facts`). -/
theorem C19_effMax (f : Flags) (cfgMax : Int) :
    effMax f cfgMax = if f.maxComplexityChanged = true then f.maxComplexity else if cfgMax > 0 then cfgMax else f.maxComplexity := by
  unfold effMax
  cases f.maxComplexityChanged <;> simp

/-- a configuration file that cannot be resolved (an explicit `--config` that does not exist) fails the check before any analysis runs -/
theorem C19_config_error (f : Flags) (r : Results) : exitZeroCfg false f r = false := rfl

theorem C19_config_ok (f : Flags) (r : Results) : exitZeroCfg true f r = exitZero f r := by simp [exitZeroCfg]

/-- **C19 (selection).** Without `--select`: complexity and dead code always, clones unless skipped, deps and mock
data never; with `--select`: exactly the selected analyses. -/
theorem C19_enabled (f : Flags) (a : Analysis) :
    enabled f a = if f.select = [] then (match a with
        | .complexity => true | .deadcode => true | .clones => !f.skipClones | .deps => false | .mockdata => false)
      else f.select.contains a := by
  unfold enabled
  cases h : f.select with
  | nil => cases a <;> simp
  | cons x xs => simp

/-- **C19 (source tie).** The guards, assignments and defaults of the real `check.go` that the model mirrors,
as re-extracted from /repo on this run. A changed operator, operand, default or assignment breaks this theorem. -/
theorem C19_facts :
    PV.Generated.GateFacts.NewCheckCommand = [
      "return: &CheckCommand{ configFile: \"\", quiet: false, maxComplexity: 10, allowDeadCode: false, skipClones: false, allowCircularDeps: false, maxCycles: 0, selectAnalyses: []string{}, }"] ∧
    PV.Generated.GateFacts.runCheck = [
      "if: len(args) == 0", "if: len(c.selectAnalyses) > 0", "if: err != nil", "return: fmt.Errorf(…)",
      "if: err != nil", "return: fmt.Errorf(…)",
      "assign: skipComplexity, skipDeadCode, skipClones, skipDeps, skipMockdata := c.determineEnabledAnalyses()",
      "if: !c.quiet",
      "if: !skipComplexity", "if: err != nil", "assign: hasErrors = true", "assign: issueCount += complexityIssues",
      "if: !skipDeadCode", "if: err != nil", "assign: hasErrors = true", "if: !c.allowDeadCode", "assign: issueCount += deadCodeIssues",
      "if: deadCodeIssues > 0 && !c.quiet",
      "if: !skipClones", "if: err != nil", "if: cloneIssues > 0", "if: !c.quiet",
      "if: !skipDeps", "if: err != nil", "assign: hasErrors = true", "if: depsIssues > c.maxCycles", "if: !c.allowCircularDeps",
      "assign: issueCount += depsIssues", "if: depsIssues > 0 && !c.quiet", "if: depsIssues > 0 && !c.quiet",
      "if: !skipMockdata", "if: err != nil", "assign: hasErrors = true", "assign: issueCount += mockdataIssues",
      "if: hasErrors", "return: fmt.Errorf(…)", "if: issueCount > 0", "return: fmt.Errorf(…)", "if: !c.quiet", "return: nil"] ∧
    PV.Generated.GateFacts.determineEnabledAnalyses = [
      "if: len(c.selectAnalyses) > 0",
      "assign: skipComplexity = !c.containsAnalysis(\"complexity\")", "assign: skipDeadCode = !c.containsAnalysis(\"deadcode\")",
      "assign: skipClones = !c.containsAnalysis(\"clones\")",
      "assign: skipDeps = !c.containsAnalysis(\"deps\") && !c.containsAnalysis(\"circular\")",
      "assign: skipMockdata = !c.containsAnalysis(\"mockdata\")",
      "assign: skipComplexity = false", "assign: skipDeadCode = false", "assign: skipClones = c.skipClones",
      "assign: skipDeps = true", "assign: skipMockdata = true", "return"] ∧
    PV.Generated.GateFacts.containsAnalysis = [
      "if: lowered == analysis", "return: true",
      "if: (analysis == \"deps\" && lowered == \"circular\") || (analysis == \"circular\" && lowered == \"deps\")",
      "return: true", "return: false"] ∧
    PV.Generated.GateFacts.checkComplexity = [
      "if: ctx == nil", "if: err != nil", "return: 0, err", "assign: maxComplexity := c.maxComplexity",
      "if: !cmd.Flags().Changed(\"max-complexity\") && response.Request != nil && response.Request.MaxComplexity > 0",
      "assign: maxComplexity = response.Request.MaxComplexity", "assign: issueCount := 0",
      "if: function.Metrics.Complexity > maxComplexity", "incdec: issueCount++", "if: !c.quiet", "return: issueCount, nil"] ∧
    PV.Generated.GateFacts.checkDeadCode = [
      "if: ctx == nil", "if: err != nil", "return: 0, err", "assign: minSeverity := domain.DeadCodeSeverityCritical",
      "if: response.Request != nil && response.Request.MinSeverity != \"\"", "assign: minSeverity = response.Request.MinSeverity",
      "assign: issueCount := 0", "if: finding.Severity.IsAtLeast(minSeverity)", "incdec: issueCount++", "if: !c.quiet",
      "return: issueCount, nil"] ∧
    PV.Generated.GateFacts.checkCircularDependencies = [
      "if: len(args) > 0", "if: err != nil", "return: 0, fmt.Errorf(…)", "if: err != nil", "return: 0, fmt.Errorf(…)",
      "if: !result.HasCircularDependencies", "return: 0, nil", "if: len(cycle.Modules) == 0", "if: node == nil", "if: !c.quiet",
      "return: result.TotalCycles, nil"] := by
  exact ⟨rfl, rfl, rfl, rfl, rfl, rfl, rfl⟩

/-- non-vacuity: a run that passes and one that fails on exactly one cycle over the limit -/
example : exitZero { select := [.deps], maxCycles := 1 } { cx := none, dead := none, clones := none, cycles := some 1, mock := none } = true ∧
          exitZero { select := [.deps], maxCycles := 1 } { cx := none, dead := none, clones := none, cycles := some 2, mock := none } = false := by
  decide

end PV.C19
