import PV.Proofs.CFGComplete
/-!
# C02 (extension) — the MIRROR of pyscn's CFG builder is complete for structurally dead code, for every program of the fragment

`PV/Model/CFG.lean` is the executable Lean transliteration of `cfg_builder.go` + `reachability.go` + `dead_code.go`; `PV/Model/StructDead.lean`
is the specification of C02 (`structDead`: the statements that FOLLOW, in the same block, a `return` / `raise` / `break` / `continue`, or an
`if/elif/else` all of whose branches END with one).  These theorems are about that mirror, for ALL programs (no bound on size or nesting):

* `C02_mirror_complete` — every structurally dead statement has a located statement record in a block that the mirror's own
  breadth-first search does NOT reach from ENTRY; the only exception are the heads of `elif` clauses (`elifL`): the builder stores the
  test of a converted `elif` with line 0, so an `elif` head inside dead code has no located record (it cannot start a finding).
  `C02_mirror_deadLines` — the same in terms of the mirror's output `deadLines`.
  Fragment `okLC false`: every statement kind incl. `try/except/else/finally` (also `try … finally` nested in a `finally` body, which the
  soundness theorem C01x excludes), `with`, `match`, loop `else`, comprehensions, with two restrictions, both necessary:
  - `break` / `continue` only inside a loop of the same definition: outside a loop `procBrk` / `procCont` keep the current block
    (no edge, no fresh block), so the statements after it stay in a reachable block (`C02_break_outside_loop_needed`);
  - `except` / `case` clauses only as members of `try` / `match`, and only such clauses there: a stray clause is stored as ONE statement
    record, its body gets no records at all (`C02_stray_clause_needed`).
  `C02_fragment_okL3`: the fragment `okL3 false false` of the soundness theorem is included, `C02_mirror_complete_okL3`.
* `C02_target_frame` — the TARGET frame property of the builder (the new ingredient; no hypothesis on the program): every edge a
  builder call adds leads into a block allocated during the call, into EXIT, or into a block named by the loop / exception context
  stacks at the start of the call.  (`C01_mirror_frame` is the SOURCE frame property.)  Hence later calls never add an edge into the
  blocks of a finished call: a dead zone stays dead (`C02_dead_zone`).
* `C02_mirror_complete_list` — the statement-list form, for an arbitrary final graph that respects the zone of the list.
* `C02_coverage` — every line of `linesOfL` gets a located record in a block the call owns (except `elif` heads).
-/
namespace PV.C02
open PV.CFG PV.SD PV.CFGSound

theorem C02_mirror_complete (k : Kind) (s e : Nat) (body : List Stmt) (hok : okLC false body = true) :
    ∀ l ∈ structDead body, l ∈ elifL body ∨
      ∃ r ∈ (build k s e body).stmts, r.s = l ∧ r.blk ∉ reachable (build k s e body) :=
  build_complete k s e body hok

/-- in terms of the mirror's own output: a structurally dead line is an `elif` head or one of the mirror's dead lines -/
theorem C02_mirror_deadLines (k : Kind) (s e : Nat) (body : List Stmt) (hok : okLC false body = true) :
    ∀ l ∈ structDead body, l ∈ elifL body ∨ l ∈ deadLines (build k s e body) :=
  build_complete_deadLines k s e body hok

/-- the fragment of the soundness theorem `C01_mirror_sound` is part of the fragment of the completeness theorem -/
theorem C02_fragment_okL3 (ss : List Stmt) (il f : Bool) (h : okL3 il f ss = true) : okLC il ss = true := okLC_of_okL3 ss il f h

theorem C02_mirror_complete_okL3 (k : Kind) (s e : Nat) (body : List Stmt) (hok : okL3 false false body = true) :
    ∀ l ∈ structDead body, l ∈ elifL body ∨ l ∈ deadLines (build k s e body) :=
  build_complete_deadLines k s e body (okLC_of_okL3 body false false hok)

/-- on the common fragment a line is never both: executed lines are live (C01x), structurally dead lines are dead (or `elif` heads) -/
theorem C02_dead_not_reported_live (k : Kind) (s e : Nat) (body : List Stmt) (hok : okLC false body = true) :
    ∀ l ∈ structDead body, l ∉ elifL body → ∃ r ∈ (build k s e body).stmts, r.s = l ∧ ¬ R (build k s e body).edges r.blk := by
  intro l hl hne
  rcases build_complete k s e body hok l hl with h | ⟨r, hr, hs, hb⟩
  · exact absurd h hne
  · refine ⟨r, hr, hs, fun hR => hb ?_⟩
    have ipre := preB_inv k s e
    obtain ⟨j, _⟩ := procList_frame body _ ipre.wf 0 0 (Or.inr (Nat.zero_le _)) (Nat.zero_le _)
    have hwf : WF (build k s e body) := by
      rw [build_eq]; unfold finishB
      have h2 := j.wf.two
      have hc := j.wf.cur
      split
      · exact (j.edge (a := (procList (preB k s e) body).cur) (b := exitB) (t := .normal) (Or.inr (Nat.zero_le _)) hc (by unfold exitB; omega)).wf
      · exact j.wf
    exact reachable_complete _ (by have := hwf.two; omega) hwf.edges hR

/-- **target frame**: every edge added while a statement list is processed leads into a block allocated during the call
(`st.next ≤ target`), into EXIT, or into a block named by the loop / exception stacks at the start of the call
(any `G` that holds of all those, `TG G st`, holds of every new target); the stacks are restored afterwards (`C01_mirror_frame`) -/
theorem C02_target_frame (ss : List Stmt) (st : St) (w : WF st) (G : Nat → Prop) (g : TG G st) :
    ∃ ne, (procList st ss).edges = ne ++ st.edges ∧ ∀ e ∈ ne, G e.2.1 :=
  procList_target ss st w G g

theorem C02_target_frame_stmt (x : Stmt) (st : St) (w : WF st) (G : Nat → Prop) (g : TG G st) :
    ∃ ne, (procStmt st x).edges = ne ++ st.edges ∧ ∀ e ∈ ne, G e.2.1 :=
  procStmt_target x st w G g

/-- the explicit form: a new edge targets a fresh block, EXIT, or a block of the context stacks -/
theorem C02_target_frame_explicit (ss : List Stmt) (st : St) (w : WF st) :
    ∃ ne, (procList st ss).edges = ne ++ st.edges ∧ ∀ e ∈ ne,
      st.next ≤ e.2.1 ∨ e.2.1 = exitB ∨ (∃ l ∈ st.loops, e.2.1 = l.1 ∨ e.2.1 = l.2.1) ∨
        (∃ c ∈ st.excs, c.fin = some e.2.1 ∨ e.2.1 ∈ c.handlers) :=
  procList_target ss st w
    (fun x => st.next ≤ x ∨ x = exitB ∨ (∃ l ∈ st.loops, x = l.1 ∨ x = l.2.1) ∨ (∃ c ∈ st.excs, c.fin = some x ∨ x ∈ c.handlers))
    ⟨fun _ h => .inl h, .inr (.inl rfl), fun l hl => ⟨.inr (.inr (.inl ⟨l, hl, .inl rfl⟩)), .inr (.inr (.inl ⟨l, hl, .inr rfl⟩))⟩,
     fun c hc => ⟨fun _ hf => .inr (.inr (.inr ⟨c, hc, .inl hf⟩)), fun _ hh => .inr (.inr (.inr ⟨c, hc, .inr hh⟩))⟩⟩

/-- **dead zones stay dead**: if the block that is current when a statement list is entered is unreachable in a final graph `E`
that adds no edge into the blocks allocated for the list, then every block the list's processing owns is unreachable in `E` -/
theorem C02_dead_zone (ss : List Stmt) (st : St) (w : WF st) (E : List Edge)
    (hE : ∃ later, E = later ++ (procList st ss).edges ∧ ∀ e ∈ later, e.2.1 < st.next ∨ (procList st ss).next ≤ e.2.1)
    (hd : ¬ R E st.cur) : ∀ x, (x = st.cur ∨ st.next ≤ x) → x < (procList st ss).next → ¬ R E x :=
  zone_dead w (procList_frame ss st w st.cur st.next (Or.inl rfl) (Nat.le_refl _)).1 hE hd

theorem C02_mirror_complete_list (ss : List Stmt) (il : Bool) (st : St) (w : WF st) (hl : il = true → st.loops ≠ []) (hok : okLC il ss = true)
    (E : List Edge) (S : List SRec)
    (hE : ∃ later, E = later ++ (procList st ss).edges ∧ ∀ e ∈ later, e.2.1 < st.next ∨ (procList st ss).next ≤ e.2.1)
    (hS : ∀ r ∈ (procList st ss).stmts, r ∈ S) :
    ∀ l ∈ structDead ss, l ∈ elifL ss ∨ ∃ r ∈ S, r.s = l ∧ ¬ R E r.blk :=
  complete_list ss il st w hl hok E S hE hS

theorem C02_coverage (ss : List Stmt) (il : Bool) (hok : okLC il ss = true) (st : St) (w : WF st) :
    ∀ l ∈ linesOfL ss, l ∈ elifL ss ∨ ∃ r ∈ (procList st ss).stmts, r.s = l ∧ (r.blk = st.cur ∨ st.next ≤ r.blk) :=
  procList_covers ss il hok st w st.cur st.next (Or.inl rfl) (Nat.le_refl _)

/-! ### concrete programs (evaluated) -/

/-- `x = 0; return x; a = 1; b = 2` — lines 4 and 5 are dead -/
def exReturn : List Stmt := [.simple 2 2 [] false, .ret 3 3 [] false, .simple 4 4 [] false, .simple 5 5 [] false]
#guard okLC false exReturn
#guard structDead exReturn == [4, 5] && deadLines (build .func 1 5 exReturn) == [5, 4]

/-- `if c: return 1 / else: raise E` followed by `x = 1` — line 7 is dead -/
def exIfElse : List Stmt := [.ite 2 6 [.ret 3 3 [] false] [.elsec 4 6 [.raise 5 5]], .simple 7 7 [] false]
#guard okLC false exIfElse
#guard structDead exIfElse == [7] && deadLines (build .func 1 7 exIfElse) == [7]

/-- `if / elif / else`, every branch ending in a terminator, followed by a statement and a loop whose body has code after `continue` -/
def exChain : List Stmt :=
  [.ite 2 9 [.simple 3 3 [] false, .ret 4 4 [] false] [.elifc 5 9 [.raise 6 6] [.elsec 7 9 [.ret 8 8 [] false]]],
   .simple 10 10 [] false, .loop 11 14 [.cont 12 12, .simple 13 13 [] false] []]
#guard okLC false exChain
#guard (structDead exChain).all (· ∈ deadLines (build .func 1 14 exChain)) && (deadLines (build .func 1 14 exChain)).all (· ∈ structDead exChain)
#guard structDead exChain == [10, 11, 12, 13, 13]

/-- dead code in a `try` body and in a handler -/
def exTry : List Stmt :=
  [.try_ 2 9 [.raise 3 3, .simple 4 4 [] false] [.handler 5 7 [.ret 6 6 [] false, .simple 7 7 [] false]] [] [.simple 9 9 [] false],
   .simple 10 10 [] false]
#guard okLC false exTry
#guard structDead exTry == [4, 7] && deadLines (build .func 1 10 exTry) == [7, 4]

/-- the exemption is needed: an `elif` head (line 5) inside dead code has only a record with line 0 -/
def exElifHead : List Stmt := [.ret 2 2 [] false, .ite 3 6 [.simple 4 4 [] false] [.elifc 5 6 [.simple 6 6 [] false] []]]
#guard okLC false exElifHead
#guard structDead exElifHead == [3, 4, 5, 6] && deadLines (build .func 1 6 exElifHead) == [6, 0, 4, 3] && elifL exElifHead == [5]

/-- the restriction on `break` is needed: at module level `break` (outside any loop) keeps the current block, line 3 stays live -/
def exBreak : List Stmt := [.brk 2 2, .simple 3 3 [] false]
#guard okLC false exBreak == false
#guard structDead exBreak == [3] && deadLines (build .module 1 3 exBreak) == [] && elifL exBreak == []
theorem C02_break_outside_loop_needed :
    ∃ body : List Stmt, ∃ l ∈ structDead body, l ∉ elifL body ∧ l ∉ deadLines (build .module 1 3 body) := by
  have t1 : structDead exBreak = [3] := by
    simp [exBreak, structDead_eq', deadInBlock_cons, stops, isTerm, linesOfL_cons, linesOfL_nil, linesOf_simple, subDead_cons, subDead_nil,
      inStmt_brk, inStmt_simple]
  have t2 : elifL exBreak = [] := by simp [exBreak, elifL_cons, elifL_nil, elifS]
  have t3 : deadLines (build .module 1 3 exBreak) = [] := by
    simp [exBreak, build, initSt, procList_cons, procList_nil, procStmt_brk, procBrk_eq, procStmt_simple, deadLines, reachable, reachFrom,
      St.add, St.edge, St.hasSucc, exitB, List.eraseDups_cons, List.eraseDups_nil]
  exact ⟨exBreak, 3, by rw [t1]; simp, by rw [t2]; simp, by rw [t3]; simp⟩

/-- the restriction on stray clauses is needed: a stray `except` clause is ONE record, its body (line 4) gets none -/
def exStray : List Stmt := [.ret 2 2 [] false, .handler 3 4 [.simple 4 4 [] false]]
#guard okLC false exStray == false
#guard structDead exStray == [3, 4] && deadLines (build .func 1 4 exStray) == [3]

theorem C02_stray_clause_needed :
    ∃ body : List Stmt, ∃ l ∈ structDead body, l ∉ elifL body ∧ l ∉ deadLines (build .func 1 4 body) := by
  have t1 : structDead exStray = [3, 4] := by
    simp [exStray, structDead_eq', deadInBlock_cons, stops, isTerm, linesOfL_cons, linesOfL_nil, linesOf_simple, linesOf_handler, subDead_cons,
      subDead_nil, inStmt_ret, inStmt_handler, inStmt_simple, deadInBlock_nil]
  have t2 : elifL exStray = [] := by simp [exStray, elifL_cons, elifL_nil, elifS]
  have t3 : deadLines (build .func 1 4 exStray) = [3] := by
    simp [exStray, build, initSt, procList_cons, procList_nil, procStmt_ret, procRet_eq, procStmt_handler, deadLines, reachable, reachFrom,
      St.add, St.edge, St.hasSucc, St.newBlock, exitB, List.eraseDups_cons, List.eraseDups_nil, targetFinallyRet, bumpU, setCur]
  exact ⟨exStray, 4, by rw [t1]; simp, by rw [t2]; simp, by rw [t3]; simp⟩

end PV.C02

#print axioms PV.C02.C02_mirror_complete
#print axioms PV.C02.C02_mirror_deadLines
#print axioms PV.C02.C02_target_frame
