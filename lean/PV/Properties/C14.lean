import PV.Model.LCOM
import PV.Properties.C11
import PV.Generated.RiskLCOM
import Mathlib.Data.List.Nodup
/-!
# C14 — LCOM4 is the number of connected components of the method graph
-/
namespace PV.C14
open PV.SCC PV.LCOM PV.C11

theorem mem_classesOf {g : G} (c : List Nat) :
    c ∈ classesOf g (reachTable g) ↔ ∃ u, u < g.n ∧ c = comp g (reachTable g) u ∧ c.head? = some u := by
  unfold classesOf
  simp only [List.mem_map, List.mem_filter, List.mem_range, beq_iff_eq]
  constructor
  · rintro ⟨u, ⟨hu, hh⟩, rfl⟩; exact ⟨u, hu, rfl, hh⟩
  · rintro ⟨u, hu, rfl, hh⟩; exact ⟨u, ⟨hu, hh⟩, rfl⟩

theorem class_listed {g : G} (hok : tableOk (reachTable g) = true) {u : Nat} (hu : u < g.n) :
    comp g (reachTable g) u ∈ classesOf g (reachTable g) := by
  have hu' : u ∈ comp g (reachTable g) u := (mem_comp hok hu u).mpr ⟨hu, Mutual.refl g u⟩
  match hc : comp g (reachTable g) u with
  | [] => rw [hc] at hu'; cases hu'
  | m :: rest =>
    have hm : m ∈ comp g (reachTable g) u := by rw [hc]; simp
    obtain ⟨hmn, hmu⟩ := (mem_comp hok hu m).mp hm
    have heq : comp g (reachTable g) m = comp g (reachTable g) u := comp_congr hok hmn hu hmu.symm
    exact (mem_classesOf _).mpr ⟨m, hmn, by rw [heq, hc], by simp⟩

/-- two vertices (possibly equal) are in a common class iff they are mutually reachable; in particular every vertex is in a class -/
theorem classes_spec (g : G) (cs : List (List Nat)) (h : classes g = some cs) (u v : Nat) (hu : u < g.n) (hv : v < g.n) :
    (∃ c ∈ cs, u ∈ c ∧ v ∈ c) ↔ Mutual g u v := by
  unfold classes at h
  simp only [] at h
  split at h
  · next hok =>
    cases h
    constructor
    · rintro ⟨c, hc, huc, hvc⟩
      obtain ⟨w, hw, rfl, _⟩ := (mem_classesOf c).mp hc
      exact ((mem_comp hok hw u).mp huc).2.symm.trans ((mem_comp hok hw v).mp hvc).2
    · intro hm
      exact ⟨_, class_listed hok hu, (mem_comp hok hu u).mpr ⟨hu, Mutual.refl g u⟩, (mem_comp hok hu v).mpr ⟨hv, hm⟩⟩
  · cases h

theorem classes_partition (g : G) (cs : List (List Nat)) (h : classes g = some cs) :
    cs.Nodup ∧ (∀ c ∈ cs, c ≠ [] ∧ c.Nodup ∧ c.Pairwise (· < ·) ∧ ∀ x ∈ c, x < g.n) ∧
    (∀ c₁ ∈ cs, ∀ c₂ ∈ cs, ∀ x, x ∈ c₁ → x ∈ c₂ → c₁ = c₂) := by
  unfold classes at h
  simp only [] at h
  split at h
  · next hok =>
    cases h
    refine ⟨?_, ?_, ?_⟩
    · unfold classesOf
      apply List.Nodup.map_on
      · intro a ha b hb hab
        have ha' := (List.mem_filter.mp ha).2
        have hb' := (List.mem_filter.mp hb).2
        simp only [beq_iff_eq] at ha' hb'
        rw [hab, hb'] at ha'
        exact (Option.some.inj ha').symm
      · exact List.Nodup.filter _ List.nodup_range
    · intro c hc
      obtain ⟨w, hw, rfl, hh⟩ := (mem_classesOf c).mp hc
      refine ⟨?_, comp_nodup _ _ _, ?_, ?_⟩
      · intro he; rw [he] at hh; cases hh
      · unfold comp; exact List.Pairwise.filter _ List.pairwise_lt_range
      · intro x hx; exact ((mem_comp hok hw x).mp hx).1
    · intro c₁ h₁ c₂ h₂ x hx₁ hx₂
      obtain ⟨a, ha, rfl, _⟩ := (mem_classesOf c₁).mp h₁
      obtain ⟨b, hb, rfl, _⟩ := (mem_classesOf c₂).mp h₂
      exact comp_congr hok ha hb (((mem_comp hok ha x).mp hx₁).2.trans ((mem_comp hok hb x).mp hx₂).2.symm)
  · cases h

/-! ## the method graph -/

theorem adj_symm (c : Cls) (i j : Nat) : adj c i j = adj c j i := by
  unfold adj
  have hs : shares c i j = shares c j i := by
    unfold shares
    rw [Bool.eq_iff_iff, List.any_eq_true, List.any_eq_true]
    constructor <;> (rintro ⟨a, ha, hb⟩; exact ⟨a, by simpa using hb, by simpa using ha⟩)
  rw [hs]
  cases h1 : (i != j) <;> cases h2 : (j != i) <;> simp_all [Bool.or_comm, Bool.or_assoc, Bool.or_left_comm]

theorem mem_graph {c : Cls} {i j : Nat} : (i, j) ∈ (graph c).edges ↔ i < c.n ∧ j < c.n ∧ adj c i j = true := by
  unfold graph
  simp only [List.mem_flatMap, List.mem_map, List.mem_filter, List.mem_range, Prod.mk.injEq]
  constructor
  · rintro ⟨a, ha, b, ⟨hb, hadj⟩, rfl, rfl⟩; exact ⟨ha, hb, hadj⟩
  · rintro ⟨hi, hj, hadj⟩; exact ⟨i, hi, j, ⟨hj, hadj⟩, rfl, rfl⟩

/-- in the (symmetric) method graph reachability is symmetric: mutual reachability = connectivity -/
theorem reach_symm (c : Cls) {u v : Nat} (h : Reach (graph c) u v) : Reach (graph c) v u := by
  induction h with
  | refl => exact Reach.refl _
  | step _ he ih =>
    have := mem_graph.mp he
    have back : (_, _) ∈ (graph c).edges := mem_graph.mpr ⟨this.2.1, this.1, by rw [adj_symm]; exact this.2.2⟩
    exact (Reach.step (Reach.refl _) back).trans ih

/-- **C14.** Two instance methods are in the same reported group iff they are connected in the method graph (share a
`self` attribute or call one another through `self`, transitively); the groups partition the instance methods, and
LCOM4 is their number. -/
theorem C14_components (c : Cls) (gs : List (List Nat)) (h : groups c = some gs) :
    (∀ u v, u < c.n → v < c.n → ((∃ g ∈ gs, u ∈ g ∧ v ∈ g) ↔ Reach (graph c) u v)) ∧
    gs.Nodup ∧ (∀ g ∈ gs, g ≠ [] ∧ g.Nodup ∧ ∀ x ∈ g, x < c.n) ∧
    (∀ g₁ ∈ gs, ∀ g₂ ∈ gs, ∀ x, x ∈ g₁ → x ∈ g₂ → g₁ = g₂) ∧
    (1 < c.n → lcom4 c = some gs.length) := by
  unfold groups at h
  have hp := classes_partition (graph c) gs h
  refine ⟨?_, hp.1, fun g hg => ⟨(hp.2.1 g hg).1, (hp.2.1 g hg).2.1, (hp.2.1 g hg).2.2.2⟩, hp.2.2, ?_⟩
  · intro u v hu hv
    rw [classes_spec (graph c) gs h u v hu hv]
    exact ⟨fun m => m.1, fun r => ⟨r, reach_symm c r⟩⟩
  · intro hn
    unfold lcom4 groups
    rw [if_neg (by omega), h]; rfl

/-- **C14 (small classes).** At most one instance method ⇒ LCOM4 = 1. -/
theorem C14_small (c : Cls) (h : c.n ≤ 1) : lcom4 c = some 1 := by
  unfold lcom4; rw [if_pos h]

/-- **C14 (star = clique).** If every edge of one graph is a connection in the other and vice versa, the two graphs have
the same connectivity — so joining all methods that share a variable to the FIRST of them (what the implementation does)
yields the same components as joining every pair (what the property says). -/
theorem C14_same_connectivity (g₁ g₂ : G) (h₁₂ : ∀ a b, (a, b) ∈ g₁.edges → Reach g₂ a b) {u v : Nat} (h : Reach g₁ u v) :
    Reach g₂ u v := by
  induction h with
  | refl => exact Reach.refl _
  | step _ he ih => exact ih.trans (h₁₂ _ _ he)

theorem C14_star_eq_clique (n : Nat) (rest : List (Nat × Nat)) (l : List Nat) (m0 : Nat) {u v : Nat} :
    let star : G := { n := n, edges := rest ++ l.flatMap (fun x => [(m0, x), (x, m0)]) }
    let clique : G := { n := n, edges := rest ++ (m0 :: l).flatMap (fun x => (m0 :: l).map (fun y => (x, y))) }
    Reach star u v ↔ Reach clique u v := by
  intro star clique
  constructor
  · apply C14_same_connectivity
    intro a b hab
    rcases List.mem_append.mp hab with h | h
    · exact Reach.step (Reach.refl _) (List.mem_append.mpr (.inl h))
    · obtain ⟨x, hx, hm⟩ := List.mem_flatMap.mp h
      refine Reach.step (Reach.refl _) (List.mem_append.mpr (.inr ?_))
      simp only [List.mem_cons, Prod.mk.injEq, List.not_mem_nil, or_false] at hm
      rcases hm with ⟨rfl, rfl⟩ | ⟨rfl, rfl⟩
      · exact List.mem_flatMap.mpr ⟨a, by simp, List.mem_map.mpr ⟨b, by simp [hx], rfl⟩⟩
      · exact List.mem_flatMap.mpr ⟨a, by simp [hx], List.mem_map.mpr ⟨b, by simp, rfl⟩⟩
  · apply C14_same_connectivity
    intro a b hab
    rcases List.mem_append.mp hab with h | h
    · exact Reach.step (Reach.refl _) (List.mem_append.mpr (.inl h))
    · obtain ⟨x, hx, hm⟩ := List.mem_flatMap.mp h
      obtain ⟨y, hy, hxy⟩ := List.mem_map.mp hm
      cases hxy
      -- a → m0 → b through star edges (or trivial when an endpoint is m0)
      have toM : ∀ z ∈ m0 :: l, Reach star z m0 ∧ Reach star m0 z := by
        intro z hz
        rcases List.mem_cons.mp hz with rfl | hz
        · exact ⟨Reach.refl _, Reach.refl _⟩
        · have e1 : (z, m0) ∈ star.edges := List.mem_append.mpr (.inr (List.mem_flatMap.mpr ⟨z, hz, by simp⟩))
          have e2 : (m0, z) ∈ star.edges := List.mem_append.mpr (.inr (List.mem_flatMap.mpr ⟨z, hz, by simp⟩))
          exact ⟨Reach.step (Reach.refl _) e1, Reach.step (Reach.refl _) e2⟩
      exact (toM a hx).1.trans (toM b hy).2

/-- **C14 (risk).** Risk level exactly by the two thresholds (translated from `LCOMAnalyzer.assessRiskLevel`). -/
theorem C14_risk (F : Type) [Arith F] (v lo med : Int) :
    PV.Generated.RiskLCOM.assessRiskLevel F v lo med = (if v ≤ lo then "low" else if v ≤ med then "medium" else "high") := rfl

/-- non-vacuity: 4 methods, {0,1} share attribute 7, 2 calls 3 -/
example : lcom4 { n := 4, attrs := [[7], [7, 8], [], [9]], calls := [[], [], [3], []] } = some 2 := by decide

end PV.C14
