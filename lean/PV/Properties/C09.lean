import PV.Proofs.CloneBatchLemmas
import PV.Proofs.BatchNodup
import PV.Properties.CloneFactsExpected
import PV.Generated.CloneLoopFacts
import PV.Generated.LSHFacts
import PV.Generated.MinHashFacts
/-!
# C09 — LSH and batching never invent pairs and never lose exact duplicates

Theorems over `PV.Clone`.  The hash family `hs`, the band-key hash `kh`, the measurement `cmp`, the candidate relation
and the similarity estimate are universally quantified wherever the statement does not depend on them.
-/
namespace PV.C09
open PV PV.Clone PV.MA

variable {F : Type} [MonoArith F]

/-- **LSH never invents a pair**: for ANY candidate relation and ANY estimate, every pair the LSH path verifies and keeps is a
pair the exhaustive comparison reports, with the same orientation, similarity, distance and type. -/
theorem C09_lsh_sound (c : Cfg F) (fr : Nat → Frag) (cmp : Cmp F) (n : Nat) (cand : Nat → Nat → Bool) (est : Nat → Nat → F) (thr : F)
    (p : Pair F) (hp : p ∈ sortTrunc c.maxPairs (lshDetect c fr cmp n cand est thr)) : p ∈ standard c fr cmp n := by
  have h1 : p ∈ lshDetect c fr cmp n cand est thr := mem_sortDesc.mp (List.mem_of_mem_take hp)
  unfold lshDetect lshCandPairs at h1
  obtain ⟨ij, hij, hmk⟩ := List.mem_filterMap.mp h1
  exact List.mem_filterMap.mpr ⟨ij, (List.mem_filter.mp hij).1, hmk⟩

/-- **Signatures are functions of the feature SET** (order and multiplicity of features do not matter), for any hash family. -/
theorem C09_sig_set (hs : List (Nat → Nat)) (top : Nat) (f₁ f₂ : List Nat) (h : ∀ x, x ∈ f₁ ↔ x ∈ f₂) :
    signature hs top f₁ = signature hs top f₂ := by
  unfold signature
  have he : f₁.isEmpty = f₂.isEmpty := by
    cases f₁ with
    | nil =>
      cases f₂ with
      | nil => rfl
      | cons b f₂ => exact absurd ((h b).mpr List.mem_cons_self) (by simp)
    | cons a f₁ =>
      cases f₂ with
      | nil => exact absurd ((h a).mp List.mem_cons_self) (by simp)
      | cons b f₂ => rfl
  rw [he]
  split
  · rfl
  · exact List.map_congr_left fun g _ => minOver_congr g top h

/-- at least one band exists whenever the signature is not empty (it never is: `NewMinHasher` uses 128 hashes when asked for ≤ 0).
Before the repair of F18 (`fix: LSH keeps one band …`) the region `hashes < rows` had no band and lost every pair. -/
theorem C09_effBands_pos (bands rows : Int) (total : Nat) (h : 0 < total) : 0 < effBands bands rows total := by
  unfold effBands effRows
  have hb : 0 < (if bands ≤ 0 then 32 else bands.toNat) := by split <;> omega
  simp only
  apply Nat.lt_min.mpr
  refine ⟨hb, ?_⟩
  apply Nat.div_pos
  · split <;> split <;> omega
  · split <;> split <;> omega

/-- equal signatures share a band key as soon as one band exists -/
theorem C09_cand_of_eq_sig (kh : List Nat → Nat) (bands rows : Int) (sigs : Nat → List Nat) (i j : Nat)
    (heq : sigs i = sigs j) (hb : 0 < effBands bands rows (sigs i).length) :
    isCand kh bands rows sigs i j = true := by
  unfold isCand
  rw [← heq]
  rw [List.any_eq_true]
  have hmem : (0, kh (((sigs i).drop (0 * effRows rows (sigs i).length)).take (effRows rows (sigs i).length))) ∈ bandKeys kh bands rows (sigs i) := by
    unfold bandKeys
    exact List.mem_map.mpr ⟨0, List.mem_range.mpr hb, rfl⟩
  exact ⟨_, hmem, by simpa using hmem⟩

/-- **LSH never loses an exact duplicate**: if two fragments have the same feature set (structurally identical fragments do) and the exhaustive comparison reports the pair, then the LSH path verifies and keeps it too (up to the pair limit). -/
theorem C09_lsh_dups (c : Cfg F) (fr : Nat → Frag) (cmp : Cmp F) (n : Nat)
    (hs : List (Nat → Nat)) (top : Nat) (kh : List Nat → Nat) (bands rows : Int) (thr : F) (feats : Nat → List Nat)
    (p : Pair F) (hp : p ∈ standard c fr cmp n)
    (hfe : ∀ x, x ∈ feats p.i ↔ x ∈ feats p.j) (hne : 0 < hs.length) :
    p ∈ lshDetect c fr cmp n (isCand kh bands rows fun k => signature hs top (feats k))
      (fun a b => estimate (signature hs top (feats a)) (signature hs top (feats b))) thr := by
  obtain ⟨hij, hjn, hmk⟩ := mem_standard.mp hp
  have hb : 0 < effBands bands rows hs.length := C09_effBands_pos bands rows hs.length hne
  have hsig : signature hs top (feats p.i) = signature hs top (feats p.j) := C09_sig_set hs top _ _ hfe
  have hlen : (signature hs top (feats p.i)).length = hs.length := by unfold signature; split <;> simp
  unfold lshDetect
  refine List.mem_filterMap.mpr ⟨(p.i, p.j), ?_, hmk⟩
  unfold lshCandPairs
  refine List.mem_filter.mpr ⟨mem_stdPairs.mpr ⟨hij, hjn⟩, ?_⟩
  have hc : isCand kh bands rows (fun k => signature hs top (feats k)) p.i p.j = true :=
    C09_cand_of_eq_sig kh bands rows _ p.i p.j hsig (by simpa [hlen] using hb)
  have he : (estimate (signature hs top (feats p.i)) (signature hs top (feats p.j)) : F) = Arith.lit 1 1 := by
    rw [← hsig]; exact estimate_self (by rw [hlen]; exact hne)
  simp only [hc, Bool.true_or, Bool.true_and, he, Bool.not_eq_true', decide_eq_false_iff_not]
  exact MA.not_lt.mpr (clampThr_le_one thr)

/-- **Batching visits every unordered pair of different fragments, in exactly one orientation.** -/
theorem C09_batch_cover (n bs : Nat) (hbs : 0 < bs) :
    (∀ i j, (i, j) ∈ batchPairs n bs → i < n ∧ j < n ∧ i ≠ j) ∧
    (∀ u v, u < n → v < n → u ≠ v → ((u, v) ∈ batchPairs n bs ∨ (v, u) ∈ batchPairs n bs)) ∧
    (∀ u v, (u, v) ∈ batchPairs n bs → (v, u) ∉ batchPairs n bs) :=
  ⟨fun _ _ h => batchPairs_ne hbs h, fun _ _ hu hv huv => batchPairs_cover hbs hu hv huv, fun _ _ h => batchPairs_not_both hbs h⟩

/-- … and visits no (i, j) twice: together with `C09_batch_cover` every unordered pair is compared exactly once. -/
theorem C09_batch_once (n bs : Nat) (hbs : 0 < bs) : (batchPairs n bs).Nodup := batchPairs_nodup n bs hbs

/-- **Without truncation batched = unbatched**: if the pair limit is not exceeded, the batched detector (any batch size, including the
defaults it substitutes for non-positive arguments) reports exactly the unordered pairs the exhaustive double loop reports, with the
same similarity, distance and type — provided the measurement does not depend on the orientation of a pair. -/
theorem C09_batch_eq (c : Cfg F) (fr : Nat → Frag) (cmp : Cmp F) (n : Nat) (maxPairs0 bs0 : Int)
    (h43 : c.t4 ≤ c.t3) (h32 : c.t3 ≤ c.t2) (h21 : c.t2 ≤ c.t1)
    (hsym : ∀ a b, cmp a b = cmp b a)
    (hnt : ((batchPairs n (if bs0 ≤ 0 then 100 else bs0.toNat)).filterMap fun ij => mkPair c fr cmp ij.1 ij.2).length
            ≤ (if maxPairs0 ≤ 0 then 10000 else maxPairs0.toNat))
    (u v : Nat) (hu : u < n) (hv : v < n) (huv : u ≠ v) (s d : F) (t : Int) :
    ReportedIn (batched c fr cmp n maxPairs0 bs0) u v s d t ↔ ReportedIn (standard c fr cmp n) u v s d t := by
  have hbs : 0 < (if bs0 ≤ 0 then 100 else bs0.toNat) := by split <;> omega
  have hperm := batched_fold_perm c fr cmp (if maxPairs0 ≤ 0 then 10000 else maxPairs0.toNat) h43 h32 h21
    (batchPairs n (if bs0 ≤ 0 then 100 else bs0.toNat)) ⟨[], c.t4⟩ (fun _ => rfl) (by simpa using hnt)
  have hmem : ∀ p, p ∈ batched c fr cmp n maxPairs0 bs0 ↔
      p ∈ (batchPairs n (if bs0 ≤ 0 then 100 else bs0.toNat)).filterMap fun ij => mkPair c fr cmp ij.1 ij.2 := by
    intro p; unfold batched; simpa using hperm.mem_iff
  rw [reported_iff hsym hu hv huv]
  constructor
  · rintro ⟨p, hp, hloc, hs, hd, ht⟩
    obtain ⟨ij, _, hmk⟩ := List.mem_filterMap.mp ((hmem p).mp hp)
    obtain ⟨_, hi, hj⟩ := mkPair_some.mp hmk
    rw [mkPair_eq_core] at hmk
    obtain ⟨x, hx, hxp⟩ := Option.map_eq_some_iff.mp hmk
    have hxv : x = (s, d, t) := by
      obtain ⟨x1, x2, x3⟩ := x
      rw [← hxp] at hs hd ht; simp only at hs hd ht; rw [hs, hd, ht]
    rcases hloc with ⟨h1, h2⟩ | ⟨h1, h2⟩
    · rw [← hi, ← hj, h1, h2] at hx; rw [hx, hxv]
    · rw [← hi, ← hj, h1, h2, core_symm, hsym] at hx; rw [hx, hxv]
  · intro h
    rcases batchPairs_cover hbs hu hv huv with hin | hin
    · refine ⟨⟨u, v, s, d, t⟩, (hmem _).mpr (List.mem_filterMap.mpr ⟨(u, v), hin, ?_⟩), Or.inl ⟨rfl, rfl⟩, rfl, rfl, rfl⟩
      rw [mkPair_eq_core]; simp only; rw [h]; rfl
    · refine ⟨⟨v, u, s, d, t⟩, (hmem _).mpr (List.mem_filterMap.mpr ⟨(v, u), hin, ?_⟩), Or.inr ⟨rfl, rfl⟩, rfl, rfl, rfl⟩
      rw [mkPair_eq_core]; simp only; rw [core_symm, hsym, h]; rfl

/-- whatever the limits, a pair the batched detector keeps is a pair the exhaustive comparison would report (possibly in the other orientation) -/
theorem C09_batch_sound (c : Cfg F) (fr : Nat → Frag) (cmp : Cmp F) (n : Nat) (maxPairs bs : Nat) (hbs : 0 < bs)
    (hsym : ∀ a b, cmp a b = cmp b a) :
    ∀ (l : List (Nat × Nat)) (st : BState F),
      (∀ p ∈ st.top, ∃ ij ∈ batchPairs n bs, mkPair c fr cmp ij.1 ij.2 = some p) →
      (∀ ij ∈ l, ij ∈ batchPairs n bs) →
      ∀ p ∈ (l.foldl (batchStep c fr cmp maxPairs) st).top, ∃ ij ∈ batchPairs n bs, mkPair c fr cmp ij.1 ij.2 = some p := by
  intro l
  induction l with
  | nil => intro st h _ p hp; exact h p hp
  | cons ij l ih =>
    intro st hst hl
    rw [List.foldl_cons]
    apply ih
    · intro p hp
      unfold batchStep at hp
      cases hm : mkPair c fr cmp ij.1 ij.2 with
      | none => rw [hm] at hp; exact hst p hp
      | some q =>
        rw [hm] at hp
        simp only at hp
        split at hp
        · simp only at hp
          unfold addPairWithLimit at hp
          split at hp
          · rcases List.mem_append.mp (mem_sortDesc.mp hp) with h | h
            · exact hst p h
            · rw [List.mem_singleton.mp h]; exact ⟨ij, hl ij List.mem_cons_self, hm⟩
          · split at hp
            · split at hp
              · rcases List.mem_append.mp (mem_sortDesc.mp hp) with h | h
                · exact hst p ((List.dropLast_sublist _).subset h)
                · rw [List.mem_singleton.mp h]; exact ⟨ij, hl ij List.mem_cons_self, hm⟩
              · exact hst p hp
            · exact hst p hp
        · exact hst p hp
    · intro x hx; exact hl x (List.mem_cons_of_mem _ hx)

/-- **Auto-activation rule** (the translated `ShouldUseLSH`): explicit "true"/"false" win; otherwise LSH is on from the threshold (500 when 0). -/
theorem C09_lsh_auto (mode : String) (n thr : Int) :
    (mode = "true" → Generated.LSHAuto.ShouldUseLSH F mode n thr = true) ∧
    (mode = "false" → Generated.LSHAuto.ShouldUseLSH F mode n thr = false) ∧
    (mode ≠ "true" → mode ≠ "false" → (Generated.LSHAuto.ShouldUseLSH F mode n thr = true ↔ (if thr = 0 then 500 else thr) ≤ n)) := by
  unfold Generated.LSHAuto.ShouldUseLSH
  refine ⟨fun h => by simp [h], fun h => by simp [h], fun h1 h2 => ?_⟩
  simp only [h1, h2, if_false]
  split <;> simp

/-- **Tie (regenerated).** The batching loops, the running-minimum logic, the LSH stage of the detector, the band-key computation, the
index and the MinHash signature/estimate have exactly the guards, bounds, defaults and tracked assignments the model was written against. -/
theorem C09_facts :
    Generated.CloneLoopFacts.detectClonePairsWithContext = CloneExpected.CloneLoopFacts_detectClonePairsWithContext ∧
    Generated.CloneLoopFacts.detectClonePairsWithBatchingContext = CloneExpected.CloneLoopFacts_detectClonePairsWithBatchingContext ∧
    Generated.CloneLoopFacts.tryCreateClonePair = CloneExpected.CloneLoopFacts_tryCreateClonePair ∧
    Generated.CloneLoopFacts.addPairWithLimit = CloneExpected.CloneLoopFacts_addPairWithLimit ∧
    Generated.CloneLoopFacts.DetectClonesWithLSH = CloneExpected.CloneLoopFacts_DetectClonesWithLSH ∧
    Generated.LSHFacts.NewLSHIndex = CloneExpected.LSHFacts_NewLSHIndex ∧
    Generated.LSHFacts.AddFragment = CloneExpected.LSHFacts_AddFragment ∧
    Generated.LSHFacts.FindCandidates = CloneExpected.LSHFacts_FindCandidates ∧
    Generated.LSHFacts.addToBuckets = CloneExpected.LSHFacts_addToBuckets ∧
    Generated.LSHFacts.computeBandKeys = CloneExpected.LSHFacts_computeBandKeys ∧
    Generated.MinHashFacts.NewMinHasher = CloneExpected.MinHashFacts_NewMinHasher ∧
    Generated.MinHashFacts.generateHashFunctions = CloneExpected.MinHashFacts_generateHashFunctions ∧
    Generated.MinHashFacts.ComputeSignature = CloneExpected.MinHashFacts_ComputeSignature ∧
    Generated.MinHashFacts.EstimateJaccardSimilarity = CloneExpected.MinHashFacts_EstimateJaccardSimilarity :=
  ⟨rfl, rfl, rfl, rfl, rfl, rfl, rfl, rfl, rfl, rfl, rfl, rfl, rfl, rfl⟩

end PV.C09
