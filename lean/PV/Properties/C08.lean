import PV.Model.Clone
import PV.Proofs.CloneLemmas
import PV.Properties.CloneFactsExpected
import PV.Generated.CloneLoopFacts
import PV.Generated.CloneServiceFacts
/-!
# C08 — clone reports: verbatim copies are found, every reported pair is justified, order does not matter

Theorems over `PV.Clone` (the per-pair decisions are the functions translated from /repo on every run).
`cmp` — the measurement of a pair — is universally quantified; where a theorem needs a property of it
(symmetry, "identical trees measure (1, 0)") it is a visible hypothesis, checked on the real code by the
correspondence run (symmetry for every ordered pair of every generated project) or provided by C07
(`C07_self_tree`, `C07_similarity_self`).
-/
namespace PV.C08
open PV PV.Clone PV.MA

variable {F : Type} [MonoArith F]

/-- the reporting threshold `isSignificantClone` applies: `SimilarityThreshold` if positive, else the Type-4 threshold -/
def effThr (c : Cfg F) : F := if c.simThr ≤ (Arith.lit 0 1 : F) then c.t4 else c.simThr

/-- what `CloneRequest.Validate` guarantees about the bands -/
structure Valid (c : Cfg F) : Prop where
  t12 : c.t2 < c.t1
  t23 : c.t3 < c.t2
  t34 : c.t4 < c.t3
  t1le : c.t1 ≤ (Arith.lit 1 1 : F)
  simle : c.simThr ≤ (Arith.lit 1 1 : F)

/-- **Bands.** The type is a total function of the similarity with disjoint half-open intervals. -/
theorem C08_bands (c : Cfg F) (sim dist : F) :
    (classify c sim dist = 1 ↔ c.t1 ≤ sim) ∧
    (classify c sim dist = 2 ↔ c.t2 ≤ sim ∧ sim < c.t1) ∧
    (classify c sim dist = 3 ↔ c.t3 ≤ sim ∧ sim < c.t2 ∧ sim < c.t1) ∧
    (classify c sim dist = 4 ↔ c.t4 ≤ sim ∧ sim < c.t3 ∧ sim < c.t2 ∧ sim < c.t1) ∧
    (classify c sim dist = 0 ↔ sim < c.t4 ∧ sim < c.t3 ∧ sim < c.t2 ∧ sim < c.t1) := classify_spec c sim dist

/-- with validated (strictly descending) thresholds the side conditions collapse: band k is `[t_k, t_{k-1})` -/
theorem C08_bands_valid (c : Cfg F) (hv : Valid c) (sim dist : F) :
    (classify c sim dist = 3 ↔ c.t3 ≤ sim ∧ sim < c.t2) ∧
    (classify c sim dist = 4 ↔ c.t4 ≤ sim ∧ sim < c.t3) ∧
    (classify c sim dist = 0 ↔ sim < c.t4) := by
  obtain ⟨_, _, h3, h4, h0⟩ := classify_spec c sim dist
  have l21 : c.t2 ≤ c.t1 := le_of_lt hv.t12
  have l32 : c.t3 ≤ c.t2 := le_of_lt hv.t23
  have l43 : c.t4 ≤ c.t3 := le_of_lt hv.t34
  refine ⟨?_, ?_, ?_⟩
  · rw [h3]; exact ⟨fun h => ⟨h.1, h.2.1⟩, fun h => ⟨h.1, h.2, lt_of_lt_of_le h.2 l21⟩⟩
  · rw [h4]
    exact ⟨fun h => ⟨h.1, h.2.1⟩, fun h => ⟨h.1, h.2, lt_of_lt_of_le h.2 l32, lt_of_lt_of_le (lt_of_lt_of_le h.2 l32) l21⟩⟩
  · rw [h0]
    exact ⟨fun h => h.1, fun h => ⟨h, lt_of_lt_of_le h l43, lt_of_lt_of_le (lt_of_lt_of_le h l43) l32,
      lt_of_lt_of_le (lt_of_lt_of_le (lt_of_lt_of_le h l43) l32) l21⟩⟩

/-- **Every reported pair is justified.** -/
theorem C08_justified (c : Cfg F) (fr : Nat → Frag) (cmp : Cmp F) (n : Nat)
    (hinc : ∀ k, k < n → included c (fr k) = true) (p : Pair F) (hp : p ∈ report c fr cmp n) :
    p.i < p.j ∧ p.j < n ∧
    cmp p.i p.j = some (p.sim, p.dist) ∧
    effThr c ≤ p.sim ∧
    c.minSim ≤ p.sim ∧ p.sim ≤ c.maxSim ∧
    p.ty = classify c p.sim p.dist ∧ p.ty ≠ 0 ∧ p.ty ∈ c.enabled ∧
    ((Arith.lit 0 1 : F) < c.maxDist → p.dist ≤ c.maxDist) ∧
    c.minNodes ≤ (fr p.i).size ∧ c.minNodes ≤ (fr p.j).size ∧ c.minLines ≤ (fr p.i).lines ∧ c.minLines ≤ (fr p.j).lines ∧
    ¬ ((fr p.i).file = (fr p.j).file ∧ ¬ ((fr p.i).e < (fr p.j).s ∨ (fr p.j).e < (fr p.i).s)) := by
  obtain ⟨hstd, hkeep⟩ := mem_report hp
  obtain ⟨hij, hjn, hmk⟩ := mem_standard.mp hstd
  obtain ⟨⟨hov, hcmp, hty, hty0, hsig⟩, _, _⟩ := mkPair_some.mp hmk
  obtain ⟨hthr, hdist, _⟩ := significant_spec.mp hsig
  obtain ⟨hlo, hhi, hen⟩ := svcKeep_spec.mp hkeep
  obtain ⟨hsi, hli⟩ := included_spec.mp (hinc p.i (by omega))
  obtain ⟨hsj, hlj⟩ := included_spec.mp (hinc p.j hjn)
  exact ⟨hij, hjn, hcmp, (by unfold effThr; exact hthr), hlo, hhi, hty, hty0, hen, hdist, hsi, hsj, hli, hlj, overlap_spec.not.mp (by simpa using hov)⟩

/-- **Verbatim copies are found**: two non-overlapping fragments of at least the minimum size whose trees are identical
(so that the measurement is similarity 1, distance 0 — C07) are reported as a Type-1 pair with similarity 1 and
distance 0, unless the pair limit truncates the list or the request's own filters exclude Type-1 / similarity 1. -/
theorem C08_verbatim (c : Cfg F) (hv : Valid c) (fr : Nat → Frag) (cmp : Cmp F) (n i j : Nat) (hij : i < j) (hjn : j < n)
    (hinc : ∀ k, k < n → included c (fr k) = true)
    (hno : ¬ ((fr i).file = (fr j).file ∧ ¬ ((fr i).e < (fr j).s ∨ (fr j).e < (fr i).s)))
    (hid : cmp i j = some ((Arith.lit 1 1 : F), (Arith.lit 0 1 : F)))
    (htrunc : (standard c fr cmp n).length ≤ c.maxPairs)
    (hen : (1 : Int) ∈ c.enabled) (hlo : c.minSim ≤ (Arith.lit 1 1 : F)) (hhi : (Arith.lit 1 1 : F) ≤ c.maxSim) :
    (⟨i, j, Arith.lit 1 1, Arith.lit 0 1, 1⟩ : Pair F) ∈ report c fr cmp n := by
  have hcl : classify c (Arith.lit 1 1 : F) (Arith.lit 0 1 : F) = 1 := (classify_spec c _ _).1.mpr hv.t1le
  have hsig : significant c (fr i) (fr j) (Arith.lit 1 1 : F) (Arith.lit 0 1 : F) = true := by
    apply significant_spec.mpr
    obtain ⟨hsi, _⟩ := included_spec.mp (hinc i (by omega))
    obtain ⟨hsj, _⟩ := included_spec.mp (hinc j hjn)
    refine ⟨?_, ?_, ?_⟩
    · split
      · exact le_tr (le_of_lt (lt_of_lt_of_le hv.t34 (le_tr (le_of_lt hv.t23) (le_of_lt hv.t12)))) hv.t1le
      · exact hv.simle
    · intro h; exact le_of_lt h
    · exact MonoArith.le_fmin _ _ _ (ofInt_le (by exact_mod_cast hsi)) (ofInt_le (by exact_mod_cast hsj))
  have hmk : mkPair c fr cmp i j = some ⟨i, j, Arith.lit 1 1, Arith.lit 0 1, 1⟩ :=
    mkPair_some.mpr ⟨⟨by simpa using overlap_spec.not.mpr hno, hid, hcl.symm, (by show (1 : Int) ≠ 0; decide), hsig⟩, rfl, rfl⟩
  exact mem_report_of_not_truncated htrunc (mem_standard.mpr ⟨hij, hjn, hmk⟩)
    (svcKeep_spec.mpr ⟨hlo, hhi, hen⟩)

/-- the unordered pair {u, v} is reported (by the exhaustive detector) with these values -/
def Reported (c : Cfg F) (fr : Nat → Frag) (cmp : Cmp F) (n u v : Nat) (s d : F) (t : Int) : Prop :=
  ReportedIn (standard c fr cmp n) u v s d t

/-- **Order.** Listing the fragments in another order (position k now holds the fragment formerly at `σ k`, any
injective renumbering — this covers any order of files and any order within files) reports the same unordered pairs
with the same similarity, distance and type, provided the measurement does not depend on which fragment comes first. -/
theorem C08_order (c : Cfg F) (fr : Nat → Frag) (cmp : Cmp F) (n : Nat) (σ : Nat → Nat)
    (hσ : ∀ k, k < n → σ k < n) (hinj : ∀ a b, a < n → b < n → σ a = σ b → a = b)
    (hsym : ∀ a b, cmp a b = cmp b a)
    (u v : Nat) (hu : u < n) (hv : v < n) (s d : F) (t : Int) :
    Reported c (fun k => fr (σ k)) (fun a b => cmp (σ a) (σ b)) n u v s d t ↔ Reported c fr cmp n (σ u) (σ v) s d t := by
  by_cases huv : u = v
  · subst huv
    constructor
    · rintro ⟨p, hp, h, _⟩
      obtain ⟨hij, _, _⟩ := mem_standard.mp hp
      rcases h with ⟨h1, h2⟩ | ⟨h1, h2⟩ <;> omega
    · rintro ⟨p, hp, h, _⟩
      obtain ⟨hij, _, _⟩ := mem_standard.mp hp
      rcases h with ⟨h1, h2⟩ | ⟨h1, h2⟩ <;> omega
  · have hne : σ u ≠ σ v := fun h => huv (hinj u v hu hv h)
    unfold Reported
    rw [reported_iff (fun a b => hsym (σ a) (σ b)) hu hv huv, reported_iff hsym (hσ u hu) (hσ v hv) hne]

/-- the same through the service filter, when the pair limit does not truncate -/
theorem C08_order_report (c : Cfg F) (fr : Nat → Frag) (cmp : Cmp F) (n : Nat) (σ : Nat → Nat)
    (hσ : ∀ k, k < n → σ k < n) (hinj : ∀ a b, a < n → b < n → σ a = σ b → a = b)
    (hsym : ∀ a b, cmp a b = cmp b a)
    (h₁ : (standard c fr cmp n).length ≤ c.maxPairs)
    (h₂ : (standard c (fun k => fr (σ k)) (fun a b => cmp (σ a) (σ b)) n).length ≤ c.maxPairs)
    (u v : Nat) (hu : u < n) (hv : v < n) (s d : F) (t : Int) :
    (∃ p ∈ report c (fun k => fr (σ k)) (fun a b => cmp (σ a) (σ b)) n, ((p.i = u ∧ p.j = v) ∨ (p.i = v ∧ p.j = u)) ∧ p.sim = s ∧ p.dist = d ∧ p.ty = t) ↔
    (∃ p ∈ report c fr cmp n, ((p.i = σ u ∧ p.j = σ v) ∨ (p.i = σ v ∧ p.j = σ u)) ∧ p.sim = s ∧ p.dist = d ∧ p.ty = t) := by
  have key := C08_order c fr cmp n σ hσ hinj hsym u v hu hv s d t
  have keep_congr : ∀ p q : Pair F, p.sim = q.sim → p.ty = q.ty → svcKeep c p = svcKeep c q := by
    intro p q h1 h2; unfold svcKeep; rw [h1, h2]
  constructor
  · rintro ⟨p, hp, hloc, hs, hd, ht⟩
    obtain ⟨hstd, hk⟩ := mem_report hp
    obtain ⟨q, hq, hloc', hs', hd', ht'⟩ := key.mp ⟨p, hstd, hloc, hs, hd, ht⟩
    exact ⟨q, mem_report_of_not_truncated h₁ hq (by rw [keep_congr q p (hs'.trans hs.symm) (ht'.trans ht.symm)]; exact hk), hloc', hs', hd', ht'⟩
  · rintro ⟨p, hp, hloc, hs, hd, ht⟩
    obtain ⟨hstd, hk⟩ := mem_report hp
    obtain ⟨q, hq, hloc', hs', hd', ht'⟩ := key.mpr ⟨p, hstd, hloc, hs, hd, ht⟩
    exact ⟨q, mem_report_of_not_truncated h₂ hq (by rw [keep_congr q p (hs'.trans hs.symm) (ht'.trans ht.symm)]; exact hk), hloc', hs', hd', ht'⟩

/-- **Tie (regenerated).** The loops and glue the model writes by hand — the exhaustive pair loop, `compareFragments` and the two
comparison back ends, the final sort/limit, fragment extraction and its candidate types, the service's pair filter, the
detector configuration the service builds, the clone-type conversion — have exactly the guards, bounds, returns and tracked
assignments the model was written against. -/
theorem C08_facts :
    Generated.CloneLoopFacts.detectClonePairsStandardWithContext = CloneExpected.CloneLoopFacts_detectClonePairsStandardWithContext ∧
    Generated.CloneLoopFacts.compareFragments = CloneExpected.CloneLoopFacts_compareFragments ∧
    Generated.CloneLoopFacts.compareWithAPTED = CloneExpected.CloneLoopFacts_compareWithAPTED ∧
    Generated.CloneLoopFacts.compareFragmentsWithClassifier = CloneExpected.CloneLoopFacts_compareFragmentsWithClassifier ∧
    Generated.CloneLoopFacts.limitAndSortClonePairs = CloneExpected.CloneLoopFacts_limitAndSortClonePairs ∧
    Generated.CloneLoopFacts.extractFragmentsRecursive = CloneExpected.CloneLoopFacts_extractFragmentsRecursive ∧
    Generated.CloneLoopFacts.isFragmentCandidate = CloneExpected.CloneLoopFacts_isFragmentCandidate ∧
    Generated.CloneServiceFacts.filterClonePairs = CloneExpected.CloneServiceFacts_filterClonePairs ∧
    Generated.CloneServiceFacts.createDetectorConfig = CloneExpected.CloneServiceFacts_createDetectorConfig ∧
    Generated.CloneServiceFacts.convertCloneType = CloneExpected.CloneServiceFacts_convertCloneType :=
  ⟨rfl, rfl, rfl, rfl, rfl, rfl, rfl, rfl, rfl, rfl⟩

end PV.C08
