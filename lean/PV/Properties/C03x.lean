import PV.Proofs.CFGComplexity
import PV.Proofs.CFGComplexitySpec
/-!
# C03 (mirror) — the complexity computed by the CFG mirror is the McCabe count of the LIVE part of the body

`PV.CFG.complexity (build k s e body)` = (number of distinct REACHABLE blocks with a conditional out-edge) + (number of
exception edges leaving reachable blocks) + 1, evaluated on the graph that the executable mirror of pyscn's CFG builder
constructs.  Here it is proved equal to `1 + liveDec body`, where `liveDec` is a purely STRUCTURAL function of the
statement skeleton (companion of the static summary `sxL` of the soundness proof): a decision point is counted exactly
when `sxL` says control can get there (the statements after one that cannot fall through are not counted; a loop's `else`
is always entered, the statements after a loop are live iff the body can `break`, the `else` can fall through or there is
no `else`; handlers are always entered, the `else` of a `try` only if the body can fall through; …).

The proof (PV/Proofs/CFGComplexity*.lean) is one induction over the program that characterises reachability in the
FINAL graph exactly — "structurally live ⇒ reachable" and "not structurally live ⇒ unreachable" — for every block that
carries a decision, and counts conditional sources / exception edges construct by construct.

Fragment (`okC`): every construct except a NON-EMPTY `finally` (its propagation edges add exception edges that are no
decision points: counter-example below), `break` / `continue` outside a loop (the builder keeps filling the same block:
counter-example below) and stray `except` / `case` clauses (they only occur as members of `try` / `match`).
Constructs that add counts the property does not list get their true contribution in `liveDec`:
`with` +1 (exception edge setup → teardown), `match` +1 if it has a case (the match block's conditional edges),
`raise` + the number of exception edges it creates (1 outside `try`, else the number of handlers of the innermost `try`).
On the STRICT fragment (no `raise` / `with` / `match`) `liveDec` is the specification's `decisions` (PV/Model/Decisions.lean)
with "dead line" := "not live for the static summary" (`C03_mirror_mccabe`).
-/
namespace PV.C03
open PV.CFG PV.CFGSound PV.Dec PV.SD

/-- the structural live decision count of a definition body (no enclosing `try`: one exception edge per `raise`) -/
abbrev liveDec (body : List Stmt) : Nat := ldL 1 body

/-- the fragment: no non-empty `finally`, `break`/`continue` only inside loops, `except`/`case` only inside `try`/`match` -/
abbrev okC (body : List Stmt) : Bool := okCL false body

/-- **C03 (mirror).** For every definition kind and every body of the fragment, the complexity the mirror computes is
`1 +` the number of structurally live decision points. -/
theorem C03_mirror_complexity (k : Kind) (s e : Nat) (body : List Stmt) (hok : okC body = true) :
    complexity (build k s e body) = 1 + liveDec body :=
  build_complexity k s e body hok

/-- **C03 (mirror, statement lists).** The compositional form: whatever the final graph `E` is, as long as edges added later do
not target the blocks allocated while `ss` is processed, a list entered in a reachable calm block adds exactly `ldL nh ss` to the
count, the block current afterwards is reachable iff the list can fall through, and the exit block of the innermost loop is
reached by a live edge of the list iff the list can `break`. -/
theorem C03_mirror_list (ss : List Stmt) (nh : Nat) (il : Bool) (st : St) (w : WF st) (hc : CtxC nh il st) (hok : okCL il ss = true)
    (E : List Edge) (hE : Fut E st.next (procList st ss).next (procList st ss)) (he : EntryC E st) :
    PostC E st (procList st ss) (sxL ss).ex (ldL nh ss) :=
  cnt_list ss nh il st w hc hok E hE he

/-! ### what `liveDec` counts -/

/-- **C03 (mirror, what counts).** `if` / `elif` / loop: one plus both parts; `except` handler: one plus its body;
comprehension: one per `for` clause and one per filter; a statement after one that cannot fall through: nothing. -/
theorem C03_mirror_counts (nh : Nat) :
    (∀ s e a b, ldS nh (.ite s e a b) = 1 + ldL nh a + ldL nh b) ∧
    (∀ s e a b, ldS nh (.elifc s e a b) = 1 + ldL nh a + ldL nh b) ∧
    (∀ s e a b, ldS nh (.loop s e a b) = 1 + ldL nh a + ldL nh b) ∧
    (∀ s e a, ldS nh (.handler s e a) = 1 + ldL nh a) ∧
    (∀ s e a, ldS nh (.elsec s e a) = ldL nh a) ∧
    (∀ s e c, ldS nh (.simple s e c true) = c.length + (c.filter id).length) ∧
    (∀ s e c, ldS nh (.ret s e c true) = c.length + (c.filter id).length) ∧
    (∀ s e, ldS nh (.brk s e) = 0) ∧ (∀ s e, ldS nh (.cont s e) = 0) ∧
    (∀ x xs, ldL nh (x :: xs) = ldS nh x + (if (sxS x).ex.normal then ldL nh xs else 0)) ∧
    (∀ s e a hs c d, ldS nh (.try_ s e a hs c d) =
      ldL (if hs.length > 0 then hs.length else 1) a + ldAlts (if hs.length > 0 then hs.length else 1) hs +
        (if (sxL a).ex.normal then ldL (if hs.length > 0 then hs.length else 1) c else 0)) :=
  ⟨ldS_ite nh, ldS_elifc nh, ldS_loop nh, ldS_handler nh, ldS_elsec nh,
   (fun s e c => by rw [ldS_simple]; rfl), (fun s e c => by rw [ldS_ret]; rfl), ldS_brk nh, ldS_cont nh, ldL_cons nh, ldS_try nh⟩

/-- **C03 (mirror, extra counts).** The constructs that add counts the property does not list, with their true contribution:
`with` (the exception edge setup → teardown), `match` (the match block is ONE conditional source, whatever the number of
cases), `raise` (one exception edge per target: EXIT outside any `try`, else every handler of the innermost `try`). -/
theorem C03_mirror_extra_counts (nh : Nat) :
    (∀ s e a, ldS nh (.with_ s e a) = 1 + ldL nh a) ∧
    (∀ s e cs, ldS nh (.match_ s e cs) = (if cs.isEmpty then 0 else 1) + ldAlts nh cs) ∧
    (∀ s e a, ldS nh (.case_ s e a) = ldL nh a) ∧
    (∀ s e, ldS nh (.raise s e) = nh) :=
  ⟨ldS_with nh, ldS_match nh, ldS_case nh, ldS_raise nh⟩

/-! ### the fragment -/

/-- **C03 (mirror, fragment).** What the fragment admits: all simple statements, `return`, `raise`, nested definitions;
`break` / `continue` exactly inside loops; `if` / `elif` / `else`, loops with `else`, `with`, `match` with `case` clauses,
nested classes (their body is outside any loop), `try` with `except` clauses and `else` but WITHOUT a `finally` body. -/
theorem C03_mirror_fragment_shape (il : Bool) :
    (∀ s e c h, okCS il (.simple s e c h) = true) ∧ (∀ s e c h, okCS il (.ret s e c h) = true) ∧
    (∀ s e, okCS il (.raise s e) = true) ∧ (∀ s e b, okCS il (.def_ s e b) = true) ∧
    (∀ s e, okCS il (.brk s e) = il) ∧ (∀ s e, okCS il (.cont s e) = il) ∧
    (∀ s e a b, okCS il (.ite s e a b) = (okCL il a && okCL il b)) ∧
    (∀ s e a b, okCS il (.elifc s e a b) = (okCL il a && okCL il b)) ∧
    (∀ s e a, okCS il (.elsec s e a) = okCL il a) ∧
    (∀ s e a b, okCS il (.loop s e a b) = (okCL true a && okCL il b)) ∧
    (∀ s e a, okCS il (.with_ s e a) = okCL il a) ∧
    (∀ s e cs, okCS il (.match_ s e cs) = okCCases il cs) ∧
    (∀ s e a, okCS il (.class_ s e a) = okCL false a) ∧
    (∀ s e a hs c d, okCS il (.try_ s e a hs c d) = (okCL il a && okCHs il hs && okCL il c && d.isEmpty)) :=
  ⟨(fun s e c h => by rw [okCS]), (fun s e c h => by rw [okCS]), (fun s e => by rw [okCS]), (fun s e b => by rw [okCS]),
   okCS_brk il, okCS_cont il, okCS_ite il, okCS_elifc il, okCS_elsec il, okCS_loop il, okCS_with il, okCS_match il, okCS_class il,
   okCS_try il⟩

/-! ### connection with the specification `PV.Dec.decisions` -/

/-- the strict fragment: only the constructs property C03 names (no `raise`, `with`, `match`) -/
abbrev plainC (body : List Stmt) : Bool := plainL body

/-- **C03 (mirror = specification on the strict fragment).** If the body only uses the constructs the property names and the start
lines of its statements / clauses are pairwise distinct, the complexity the mirror computes is the specification's McCabe number
`1 + decisions dead body`, where a line is `dead` iff the static summary `sxL` (proved sound AND — by this development — complete
for the decision blocks) does not reach it. -/
theorem C03_mirror_mccabe (k : Kind) (s e : Nat) (body : List Stmt) (hok : okC body = true) (hp : plainC body = true)
    (hd : (linesOfL body).Nodup) :
    complexity (build k s e body) = mccabe (sxDead body) body := by
  rw [C03_mirror_complexity k s e body hok]
  unfold mccabe liveDec
  rw [ldL_eq_decisions body false 1 hok hp hd]

/-- **C03 (mirror, no dead code).** If moreover every line is structurally live, it is the plain McCabe number. -/
theorem C03_mirror_mccabe_live (k : Kind) (s e : Nat) (body : List Stmt) (hok : okC body = true) (hp : plainC body = true)
    (hd : (linesOfL body).Nodup) (hlive : ∀ l ∈ linesOfL body, l ∈ (sxL body).lines ∨ l ∈ (sxL body).skipped) :
    complexity (build k s e body) = mccabe (fun _ => false) body := by
  rw [C03_mirror_complexity k s e body hok]
  unfold mccabe liveDec
  rw [ldL_eq_decisions_live body false 1 hok hp hd hlive]

/-- **C03 (mirror, statement-level form of the link).** For ANY dead-line predicate that is false on the lines the summary reaches
and true on the other lines of the body, `liveDec` is the specification's count. -/
theorem C03_mirror_decisions_of (dead : Nat → Bool) (body : List Stmt) (hok : okC body = true) (hp : plainC body = true)
    (hd : (linesOfL body).Nodup)
    (h1 : ∀ l ∈ (sxL body).lines, dead l = false) (h2 : ∀ l ∈ (sxL body).skipped, dead l = false)
    (h3 : ∀ l ∈ linesOfL body, l ∉ (sxL body).lines → l ∉ (sxL body).skipped → dead l = true) :
    liveDec body = decisions dead body :=
  ldL_eq_decisions_of dead body false 1 hok hp hd h1 h2 h3

/-! ### evaluated examples -/
section examples
private def C03_S (l : Nat) : Stmt := .simple l l [] false
private def C03_Rt (l : Nat) : Stmt := .ret l l [] false
private def C03_cx (b : List Stmt) : Nat := complexity (build .func 1 99 b)

/-- nested `if` / `elif` / `else`: if, inner if, elif -/
private def C03_ex1 : List Stmt := [.ite 1 9 [.ite 2 3 [C03_S 3] []] [.elifc 4 5 [C03_Rt 5] [.elsec 6 7 [C03_S 7]]], C03_S 10]
#guard okC C03_ex1 && C03_cx C03_ex1 == 4 && 1 + liveDec C03_ex1 == 4 && mccabe (sxDead C03_ex1) C03_ex1 == 4

/-- loop with `break` and an `else` that returns: the `if` after the loop is live (reached through `break`) -/
private def C03_ex2 : List Stmt := [.loop 1 5 [.ite 2 3 [.brk 3 3] [], C03_S 4] [.elsec 5 6 [C03_Rt 6]], .ite 7 8 [C03_S 8] []]
#guard okC C03_ex2 && C03_cx C03_ex2 == 4 && 1 + liveDec C03_ex2 == 4 && mccabe (sxDead C03_ex2) C03_ex2 == 4

/-- the same loop with `continue` instead of `break`: the code after the loop is DEAD (not `structDead`, but dead for `sxL`),
its `if` is not counted -/
private def C03_ex2b : List Stmt := [.loop 1 5 [.ite 2 3 [.cont 3 3] [], C03_S 4] [.elsec 5 6 [C03_Rt 6]], .ite 7 8 [C03_S 8] []]
#guard okC C03_ex2b && C03_cx C03_ex2b == 3 && 1 + liveDec C03_ex2b == 3 && mccabe (sxDead C03_ex2b) C03_ex2b == 3 && mccabe (fun _ => false) C03_ex2b == 4

/-- `try` with two handlers (one holding an `if`) and an `else` holding a loop: 2 handlers + if + loop -/
private def C03_ex3 : List Stmt :=
  [.try_ 1 9 [C03_S 2] [.handler 3 4 [.ite 4 4 [C03_S 4] []], .handler 5 6 [C03_Rt 6]] [.loop 7 8 [C03_S 8] []] [], C03_S 10]
#guard okC C03_ex3 && C03_cx C03_ex3 == 5 && 1 + liveDec C03_ex3 == 5 && mccabe (sxDead C03_ex3) C03_ex3 == 5

/-- a `try` whose body returns: the `else` part (a loop) is dead, the handler still counts -/
private def C03_ex3b : List Stmt := [.try_ 1 9 [C03_Rt 2] [.handler 3 4 [C03_S 4]] [.loop 7 8 [C03_S 8] []] []]
#guard okC C03_ex3b && C03_cx C03_ex3b == 2 && 1 + liveDec C03_ex3b == 2 && mccabe (sxDead C03_ex3b) C03_ex3b == 2

/-- statement-level comprehensions: two `for` clauses, one filter; and a returned comprehension with a filtered clause -/
private def C03_ex4 : List Stmt := [.simple 1 1 [true, false] true, .ret 2 2 [true] true]
#guard okC C03_ex4 && C03_cx C03_ex4 == 6 && 1 + liveDec C03_ex4 == 6 && mccabe (sxDead C03_ex4) C03_ex4 == 6

/-- dead code after an `if` / `else` whose branches both return, containing a loop, an `if` and a comprehension: only the first `if` counts -/
private def C03_ex5 : List Stmt :=
  [.ite 1 2 [C03_Rt 2] [.elsec 3 4 [C03_Rt 4]], .loop 5 6 [.ite 6 6 [C03_S 6] []] [], .simple 7 7 [true] true]
#guard okC C03_ex5 && C03_cx C03_ex5 == 2 && 1 + liveDec C03_ex5 == 2 && mccabe (sxDead C03_ex5) C03_ex5 == 2 && mccabe (fun _ => false) C03_ex5 == 6

/-- the extra counts: `with` (+1), `match` with two cases (+1), `raise` inside a `match` outside any `try` (+1), `raise` in the body and
in a handler of a `try` with two handlers (+2 each), the two handlers (+2), `raise` at top level (+1): 1 + 10 -/
private def C03_ex6 : List Stmt :=
  [.with_ 1 3 [.match_ 2 3 [.case_ 2 2 [C03_S 2], .case_ 3 3 [.raise 3 3]]],
   .try_ 4 9 [.raise 5 5] [.handler 6 6 [C03_S 6], .handler 7 7 [.raise 7 7]] [] [], .raise 10 10]
#guard okC C03_ex6 && C03_cx C03_ex6 == 11 && 1 + liveDec C03_ex6 == 11

-- the theorem also holds for class bodies and modules
#guard complexity (build .cls 1 99 C03_ex1) == 4 && complexity (build .module 1 99 C03_ex3) == 5

/-! #### the restrictions are needed -/
/-- a non-empty `finally` inside a `try` with a handler: the propagation edge `finally → outer handler` is an exception edge of a
reachable block, but no decision point: 3 ≠ 1 + 1 -/
private def C03_c1 : List Stmt := [.try_ 1 9 [.try_ 2 5 [C03_S 3] [] [] [C03_S 5]] [.handler 6 7 [C03_S 7]] [] []]
#guard !okC C03_c1 && C03_cx C03_c1 == 3 && 1 + liveDec C03_c1 == 2

/-- `break` outside a loop: the builder keeps filling the current block, so the `if` after it is live in the graph: 2 ≠ 1 -/
private def C03_c2 : List Stmt := [.brk 1 1, .ite 2 3 [C03_S 3] []]
#guard !okC C03_c2 && C03_cx C03_c2 == 2 && 1 + liveDec C03_c2 == 1

/-- a stray `except` clause is stored as a plain statement (its body is not entered): 1 ≠ 2 -/
private def C03_c3 : List Stmt := [.handler 1 2 [C03_S 2]]
#guard !okC C03_c3 && C03_cx C03_c3 == 1 && 1 + liveDec C03_c3 == 2

/-- a stray `case` clause likewise: 1 ≠ 2 -/
private def C03_c4 : List Stmt := [.case_ 1 2 [.ite 2 2 [C03_S 2] []]]
#guard !okC C03_c4 && C03_cx C03_c4 == 1 && 1 + liveDec C03_c4 == 2

/-- distinct lines are needed for the link with `decisions`: a live `if` on the line of a dead one makes the dead one look live: 2 ≠ 3 -/
private def C03_c5 : List Stmt := [.ite 1 2 [C03_S 2] [], C03_Rt 3, .ite 1 5 [C03_S 5] []]
#guard okC C03_c5 && plainC C03_c5 && C03_cx C03_c5 == 2 && mccabe (sxDead C03_c5) C03_c5 == 3

/-- the strict fragment is needed for the link: `with` adds a count that `decisions` does not have: 2 ≠ 1 -/
private def C03_c6 : List Stmt := [.with_ 1 2 [C03_S 2]]
#guard okC C03_c6 && !plainC C03_c6 && C03_cx C03_c6 == 2 && mccabe (sxDead C03_c6) C03_c6 == 1

/-- why "dead" is taken from the static summary and not from the mirror's own dead-line set: the test of a converted `elif` is stored
with line 0, so the line of a DEAD `elif` is never reported dead and `decisions` would count it: 1 ≠ 2 -/
private def C03_c7 : List Stmt := [C03_Rt 1, .ite 2 5 [C03_S 3] [.elifc 4 5 [C03_S 5] []]]
private def C03_ownDead (b : List Stmt) (l : Nat) : Bool :=
  (deadLines (build .func 1 99 b)).contains l && !(liveLines (build .func 1 99 b)).contains l
#guard okC C03_c7 && plainC C03_c7 && C03_cx C03_c7 == 1 && mccabe (sxDead C03_c7) C03_c7 == 1 && mccabe (C03_ownDead C03_c7) C03_c7 == 2
end examples

end PV.C03

#print axioms PV.C03.C03_mirror_complexity
#print axioms PV.C03.C03_mirror_list
#print axioms PV.C03.C03_mirror_mccabe
#print axioms PV.C03.C03_mirror_mccabe_live
