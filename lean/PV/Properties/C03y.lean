import PV.Proofs.CFGComplexityFin
import PV.Properties.C03x
/-!
# C03 (mirror, with `finally`) — the complexity computed by the CFG mirror, for bodies with NON-EMPTY `finally` clauses

`C03_mirror_complexity` (PV/Properties/C03x.lean) excludes a non-empty `finally`: after the `finally` body the builder adds
"propagation" edges out of the `finally` block (`finallyPropagation` in PV/Model/CFG.lean), some of them exception-typed, and
`complexity` counts the exception edges that leave reachable blocks.  Here the restriction is REMOVED: for every body of the fragment
`okCF` (= `okC` without the restriction on `finally`; the other restrictions are unchanged and no new one is needed)

  `complexity (build k s e body) = 1 + liveDecF body`,

where `liveDecF = ldLF 1` extends `liveDec = ldL 1` by the true contribution of a `try … finally` in the mirror:

* the live decisions of body, handlers, `else` and of the `finally` body, where INSIDE body / handlers / `else` every `raise` creates
  exactly ONE exception edge (to the `finally` block — not one per handler), and inside the `finally` body a `raise` behaves as
  before the `try`;
* PLUS the exception-typed propagation edges out of the `finally` block.  What the mirror really does (determined by evaluation and
  then proved): the `finally` block of an entered `try` is ALWAYS reachable; the edge `finally → outer finally` / `finally → EXIT` of
  type "exception" is NEVER added (the return-typed propagation edge to the same target exists already and `Connect` is skipped);
  so exception-typed edges only appear when NO enclosing `try` has a `finally` and the `try … finally` sits directly in a `try` with
  `n` handlers: then `n` edges `finally → handler` are added — unless the `finally` body executes a `raise` while the `finally` block
  itself is still the current block (`hrL fin = .raise`): that `raise` has created these `n` edges already, and none is added.

The structural context is the record `FC` (`nh` edges per `raise`, `pe` propagation edges of a `try … finally` placed here, `pf` /
`af`: a pending / any enclosing `finally`).  Side effect on liveness, visible in the examples: the propagation edges
`finally → loop exit` make the code after a loop reachable even if the loop body never `break`s (the static summary `sxL` of the
soundness proof has `brk := true` for a `try … finally`, and this is now proved EXACT for the decision blocks).

Proof: PV/Proofs/CFGComplexityFin*.lean — the induction scheme of `cnt_list` with generalised context (`CtxF`: arbitrary exception
stacks with pending / processing `finally` contexts), targets (`TgF`) and a new clause `Jmp` (where the structural `break` /
`continue` / `return` / `raise` of a piece of code arrive: at their own target or at the pending `finally` block).
-/
namespace PV.C03
open PV.CFG PV.CFGSound PV.CFGFin PV.Dec

/-- the structural live decision count of a definition body, with the true contribution of `try … finally` -/
abbrev liveDecF (body : List Stmt) : Nat := ldLF 1 body

/-- the fragment: `break`/`continue` only inside loops, `except`/`case` only inside `try`/`match`; `finally` is allowed -/
abbrev okCF (body : List Stmt) : Bool := okFL false body

/-- **C03 (mirror, with `finally`).** For every definition kind and every body of the fragment — now including non-empty `finally`
clauses — the complexity the mirror computes is `1 +` the structural count `liveDecF`. -/
theorem C03_mirror_complexity_finally (k : Kind) (s e : Nat) (body : List Stmt) (hok : okCF body = true) :
    complexity (build k s e body) = 1 + liveDecF body :=
  build_complexity_fin k s e body hok

/-- **C03 (mirror, with `finally`, statement lists).** The compositional form, in an arbitrary context (exception stack with pending
and processing `finally` contexts, described by `CtxF fc il st`): a list entered in a reachable calm block adds exactly `ldLX fc ss`
to the count; the block current afterwards is reachable iff the list can fall through; its structural jumps arrive (`PostF.jmp`). -/
theorem C03_mirror_list_finally (ss : List Stmt) (fc : FC) (il : Bool) (st : St) (w : WF st) (hc : CtxF fc il st)
    (hok : okFL il ss = true) (E : List Edge) (hE : Fut E st.next (procList st ss).next (procList st ss)) (he : EntryC E st) :
    PostF E st (procList st ss) (sxL ss).ex (ldLX fc ss) :=
  cnt_listF ss fc il st w hc hok E hE he

/-- **C03 (what a `try` counts).** Without `finally`: body, handlers (one exception edge `try block → handler` each, inside `ldAltsX`)
and the `else` part if the body can fall through, in the context `fc.inTry n` (`n` handlers).  With `finally`: the same three parts
in the context `FC.inFin` (one exception edge per `raise`), the `finally` body in the context `fc.finBody`, plus the `fc.pe`
exception-typed propagation edges out of the `finally` block — none if the `finally` body raises in its entry block. -/
theorem C03_finally_counts (fc : FC) (s e : Nat) (a hs c d : List Stmt) :
    ldSX fc (.try_ s e a hs c d) =
      if d.isEmpty then
        ldLX (fc.inTry hs.length) a + ldAltsX (fc.inTry hs.length) hs + (if (sxL a).ex.normal then ldLX (fc.inTry hs.length) c else 0)
      else
        ldLX FC.inFin a + ldAltsX FC.inFin hs + (if (sxL a).ex.normal then ldLX FC.inFin c else 0) +
          ldLX fc.finBody d + (if hrL d = .raise then 0 else fc.pe) :=
  ldSX_try fc s e a hs c d

/-- **C03 (the contexts).** A definition body: one edge per `raise`, no propagation edge.  Inside a `try` without `finally` that has
`n` handlers: `n` edges per `raise` (1 if `n = 0`) unless a `finally` is pending (then 1: the edge to that `finally` block); a
`try … finally` placed there adds `n` exception-typed propagation edges unless some enclosing `try` has a `finally`.  Inside a `try`
with `finally`: 1 and 0.  Inside the `finally` body: as before the `try`, and 0. -/
theorem C03_finally_contexts (fc : FC) (n : Nat) :
    FC.top 1 = { nh := 1, pe := 0, pf := false, af := false } ∧
    fc.inTry n = { nh := if fc.pf then 1 else (if n > 0 then n else 1), pe := if fc.af then 0 else n, pf := fc.pf, af := fc.af } ∧
    FC.inFin = { nh := 1, pe := 0, pf := true, af := true } ∧
    fc.finBody = { nh := fc.nh, pe := 0, pf := fc.pf, af := true } ∧
    (∀ s e, ldSX fc (.raise s e) = fc.nh) :=
  ⟨rfl, rfl, rfl, rfl, ldSX_raise fc⟩

/-- **C03 (the other constructs count as before).** -/
theorem C03_finally_counts_other (fc : FC) :
    (∀ s e a b, ldSX fc (.ite s e a b) = 1 + ldLX fc a + ldLX fc b) ∧
    (∀ s e a b, ldSX fc (.elifc s e a b) = 1 + ldLX fc a + ldLX fc b) ∧
    (∀ s e a b, ldSX fc (.loop s e a b) = 1 + ldLX fc a + ldLX fc b) ∧
    (∀ s e a, ldSX fc (.handler s e a) = 1 + ldLX fc a) ∧
    (∀ s e a, ldSX fc (.with_ s e a) = 1 + ldLX fc a) ∧
    (∀ s e cs, ldSX fc (.match_ s e cs) = (if cs.isEmpty then 0 else 1) + ldAltsX fc cs) ∧
    (∀ x xs, ldLX fc (x :: xs) = ldSX fc x + (if (sxS x).ex.normal then ldLX fc xs else 0)) :=
  ⟨ldSX_ite fc, ldSX_elifc fc, ldSX_loop fc, ldSX_handler fc, ldSX_with fc, ldSX_match fc, ldLX_cons fc⟩

/-- **C03 (fragment).** The only change with respect to `okC`: the `finally` body is checked like the other parts instead of being
required to be empty. -/
theorem C03_finally_fragment_shape (il : Bool) :
    (∀ s e a hs c d, okFS il (.try_ s e a hs c d) = (okFL il a && okFHs il hs && okFL il c && okFL il d)) ∧
    (∀ s e, okFS il (.brk s e) = il) ∧ (∀ s e, okFS il (.cont s e) = il) ∧
    (∀ s e a b, okFS il (.loop s e a b) = (okFL true a && okFL il b)) ∧
    (∀ s e a, okFS il (.class_ s e a) = okFL false a) ∧
    (∀ s e a, okFS il (.handler s e a) = false) ∧ (∀ s e a, okFS il (.case_ s e a) = false) :=
  ⟨okFS_try il, okFS_brk il, okFS_cont il, okFS_loop il, okFS_class il, okFS_handler il, okFS_case il⟩

/-- **C03 (agreement).** On the old fragment (no non-empty `finally`) nothing changes: the body is in the new fragment and the new
count is the old one. -/
theorem C03_finally_agrees (body : List Stmt) (hok : okC body = true) : okCF body = true ∧ liveDecF body = liveDec body :=
  ⟨okFL_of_okCL body false hok, ldLF_eq_ldL body false hok 1⟩

/-- … so the new theorem subsumes `C03_mirror_complexity`. -/
theorem C03_finally_subsumes (k : Kind) (s e : Nat) (body : List Stmt) (hok : okC body = true) :
    complexity (build k s e body) = 1 + liveDec body := by
  rw [C03_mirror_complexity_finally k s e body (C03_finally_agrees body hok).1, (C03_finally_agrees body hok).2]

/-! ### evaluated examples -/
section examples
private def C03y_S (l : Nat) : Stmt := .simple l l [] false
private def C03y_Rt (l : Nat) : Stmt := .ret l l [] false
private def C03y_cx (b : List Stmt) : Nat := complexity (build .func 1 99 b)

/-- `try: return  finally: x` followed by an `if`: the `return` goes to the `finally` block, whose body falls through, so the
code after the `try` is live in the graph and its `if` counts -/
private def C03y_ex1 : List Stmt := [.try_ 1 5 [C03y_Rt 2] [] [] [C03y_S 5], .ite 6 7 [C03y_S 7] []]
#guard okCF C03y_ex1 && !okC C03y_ex1 && C03y_cx C03y_ex1 == 2 && 1 + liveDecF C03y_ex1 == 2

/-- the same with a `finally` body that returns: the code after the `try` is dead -/
private def C03y_ex1b : List Stmt := [.try_ 1 5 [C03y_Rt 2] [] [] [C03y_Rt 5], .ite 6 7 [C03y_S 7] []]
#guard okCF C03y_ex1b && C03y_cx C03y_ex1b == 1 && 1 + liveDecF C03y_ex1b == 1

/-- nested: a `try … finally` in the body of a `try` with two handlers (the counter-example `C03_c1` of C03x with one more handler):
2 handler edges + 2 exception-typed propagation edges `finally → handler` -/
private def C03y_ex2 : List Stmt :=
  [.try_ 1 9 [.try_ 2 5 [C03y_S 3] [] [] [C03y_S 5]] [.handler 6 7 [C03y_S 7], .handler 8 9 [C03y_S 9]] [] []]
#guard okCF C03y_ex2 && !okC C03y_ex2 && C03y_cx C03y_ex2 == 5 && 1 + liveDecF C03y_ex2 == 5 && 1 + liveDec C03y_ex2 == 3

/-- the same when the `finally` body starts with `raise`: the `raise` creates the 2 edges `finally → handler`, no propagation edge is
added on top -/
private def C03y_ex2b : List Stmt :=
  [.try_ 1 9 [.try_ 2 5 [C03y_S 3] [] [] [.raise 5 5]] [.handler 6 7 [C03y_S 7], .handler 8 9 [C03y_S 9]] [] []]
#guard okCF C03y_ex2b && C03y_cx C03y_ex2b == 5 && 1 + liveDecF C03y_ex2b == 5

/-- … but a `raise` deeper in the `finally` body (here under an `if`) does not suppress them: if (1) + raise (2) + propagation (2) + handlers (2) -/
private def C03y_ex2c : List Stmt :=
  [.try_ 1 9 [.try_ 2 5 [C03y_S 3] [] [] [.ite 4 5 [.raise 5 5] []]] [.handler 6 7 [C03y_S 7], .handler 8 9 [C03y_S 9]] [] []]
#guard okCF C03y_ex2c && C03y_cx C03y_ex2c == 8 && 1 + liveDecF C03y_ex2c == 8

/-- nested `try … finally` inside a `try` that has a `finally` itself: the inner propagation goes to the outer `finally` block with a
return-typed edge, no exception edge is added; only the handler edge counts -/
private def C03y_ex2d : List Stmt := [.try_ 1 9 [.try_ 2 5 [C03y_S 3] [] [] [C03y_S 5]] [.handler 6 7 [C03y_S 7]] [] [C03y_S 9]]
#guard okCF C03y_ex2d && C03y_cx C03y_ex2d == 2 && 1 + liveDecF C03y_ex2d == 2

/-- `finally` in a loop with `break`; the loop's `else` returns: the `break` reaches the loop exit through the `finally` block, the `if`
after the loop counts -/
private def C03y_ex3 : List Stmt :=
  [.loop 1 6 [.try_ 2 5 [.brk 3 3] [] [] [C03y_S 5]] [.elsec 6 7 [C03y_Rt 7]], .ite 8 9 [C03y_S 9] []]
#guard okCF C03y_ex3 && C03y_cx C03y_ex3 == 3 && 1 + liveDecF C03y_ex3 == 3

/-- the same WITHOUT any `break`: the propagation edge `finally → loop exit` still makes the code after the loop live in the graph (3);
with the `finally` body removed that code is dead (2) -/
private def C03y_ex3b : List Stmt :=
  [.loop 1 6 [.try_ 2 5 [C03y_S 3] [] [] [C03y_S 5]] [.elsec 6 7 [C03y_Rt 7]], .ite 8 9 [C03y_S 9] []]
private def C03y_ex3c : List Stmt :=
  [.loop 1 6 [.try_ 2 5 [C03y_S 3] [] [] []] [.elsec 6 7 [C03y_Rt 7]], .ite 8 9 [C03y_S 9] []]
#guard okCF C03y_ex3b && C03y_cx C03y_ex3b == 3 && 1 + liveDecF C03y_ex3b == 3
#guard okC C03y_ex3c && C03y_cx C03y_ex3c == 2 && 1 + liveDecF C03y_ex3c == 2 && 1 + liveDec C03y_ex3c == 2

/-- `raise` inside a `try` with two handlers and a `finally`: each `raise` (in the body, in a handler) creates ONE edge, to the
`finally` block: 2 handler edges + 2; without the `finally` each `raise` creates one edge per handler: 2 + 4 -/
private def C03y_ex4 : List Stmt :=
  [.try_ 1 5 [.raise 2 2] [.handler 3 3 [C03y_S 3], .handler 4 4 [.raise 4 4]] [] [C03y_S 5]]
private def C03y_ex4b : List Stmt :=
  [.try_ 1 5 [.raise 2 2] [.handler 3 3 [C03y_S 3], .handler 4 4 [.raise 4 4]] [] []]
#guard okCF C03y_ex4 && C03y_cx C03y_ex4 == 5 && 1 + liveDecF C03y_ex4 == 5
#guard okC C03y_ex4b && C03y_cx C03y_ex4b == 7 && 1 + liveDecF C03y_ex4b == 7 && 1 + liveDec C03y_ex4b == 7

/-- a `try … finally` inside a `finally` body, holding an `if` -/
private def C03y_ex5 : List Stmt := [.try_ 1 9 [C03y_S 2] [] [] [.try_ 3 8 [C03y_S 4] [] [] [.ite 5 6 [C03y_S 6] []]]]
#guard okCF C03y_ex5 && C03y_cx C03y_ex5 == 2 && 1 + liveDecF C03y_ex5 == 2

-- class bodies and modules
#guard complexity (build .cls 1 99 C03y_ex2) == 5 && complexity (build .module 1 99 C03y_ex3) == 3

/-! #### the remaining restrictions are still needed (same counter-examples as in C03x) -/
private def C03y_c2 : List Stmt := [.brk 1 1, .ite 2 3 [C03y_S 3] []]
#guard !okCF C03y_c2 && C03y_cx C03y_c2 == 2 && 1 + liveDecF C03y_c2 == 1
private def C03y_c3 : List Stmt := [.handler 1 2 [C03y_S 2]]
#guard !okCF C03y_c3 && C03y_cx C03y_c3 == 1 && 1 + liveDecF C03y_c3 == 2
end examples

end PV.C03

#print axioms PV.C03.C03_mirror_complexity_finally
#print axioms PV.C03.C03_mirror_list_finally
#print axioms PV.C03.C03_finally_counts
#print axioms PV.C03.C03_finally_agrees
#print axioms PV.C03.C03_finally_subsumes
