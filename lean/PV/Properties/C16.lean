import PV.Model.Agg
import PV.Properties.SummaryFactsExpected
import PV.Generated.CxSummaryFacts
import PV.Generated.DeadSummaryFacts
import PV.Generated.CBOSummaryFacts
import PV.Generated.LCOMSummaryFacts
import PV.Generated.CloneStatsFacts
import Mathlib.Data.List.Basic
import Mathlib.Tactic.Linarith
/-!
# C16 — a report is internally consistent

Theorems about the summary pass `PV.Agg.aggregate` (every total, count, sum, minimum, maximum and per-class count equals the value
recomputed from the items) and about the minimum filters. The Go loops are pinned to this shape by a regenerated fact table
(`C16_facts`); the check recomputes every summary field of real reports with the model and compares formats.
-/
namespace PV.C16
open PV PV.Agg

theorem countOf_bump (cs : List (String × Nat)) (k k' : String) :
    countOf (bump cs k) k' = countOf cs k' + (if k = k' then 1 else 0) := by
  induction cs with
  | nil =>
    unfold bump countOf
    by_cases h : k = k' <;> simp [List.find?, h]
  | cons c cs ih =>
    obtain ⟨c1, c2⟩ := c
    unfold bump
    by_cases h1 : c1 = k
    · subst h1
      by_cases h2 : c1 = k'
      · subst h2; simp [countOf, List.find?]
      · simp [countOf, List.find?, h2]
    · simp only [h1, if_false]
      by_cases h2 : c1 = k'
      · subst h2
        have : ¬ k = c1 := fun h => h1 h.symm
        simp [countOf, List.find?, this]
      · have := ih
        unfold countOf at this ⊢
        simp only [List.find?, h2, decide_false]
        exact this

structure Inv (init : Agg) (items : List (Int × String)) (a : Agg) : Prop where
  total : a.total = init.total + items.length
  sum : a.sum = init.sum + (items.map (·.1)).sum
  maxGe : init.max ≤ a.max ∧ ∀ x ∈ items, x.1 ≤ a.max
  maxIn : a.max = init.max ∨ ∃ x ∈ items, x.1 = a.max
  minLe : a.min ≤ init.min ∧ ∀ x ∈ items, a.min ≤ x.1
  minIn : a.min = init.min ∨ ∃ x ∈ items, x.1 = a.min
  cls : ∀ k, countOf a.classes k = countOf init.classes k + (items.filter fun x => x.2 = k).length

theorem fold_inv (items : List (Int × String)) : ∀ init : Agg, Inv init items (items.foldl step init) := by
  induction items with
  | nil =>
    intro init
    exact ⟨by simp, by simp, ⟨Int.le_refl _, fun _ h => by cases h⟩, Or.inl rfl, ⟨Int.le_refl _, fun _ h => by cases h⟩, Or.inl rfl, fun _ => by simp⟩
  | cons x items ih =>
    intro init
    rw [List.foldl_cons]
    have h := ih (step init x)
    have hmax : init.max ≤ (step init x).max ∧ x.1 ≤ (step init x).max := by
      unfold step; simp only; split <;> constructor <;> omega
    have hmin : (step init x).min ≤ init.min ∧ (step init x).min ≤ x.1 := by
      unfold step; simp only; split <;> constructor <;> omega
    refine ⟨?_, ?_, ⟨?_, ?_⟩, ?_, ⟨?_, ?_⟩, ?_, ?_⟩
    · rw [h.total]; simp [step]; omega
    · rw [h.sum]; simp [step]; omega
    · exact Int.le_trans hmax.1 h.maxGe.1
    · intro y hy
      rcases List.mem_cons.mp hy with rfl | hy
      · exact Int.le_trans hmax.2 h.maxGe.1
      · exact h.maxGe.2 y hy
    · rcases h.maxIn with he | ⟨y, hy, hye⟩
      · rw [he]
        unfold step; simp only
        split
        · exact Or.inr ⟨x, List.mem_cons_self, rfl⟩
        · exact Or.inl rfl
      · exact Or.inr ⟨y, List.mem_cons_of_mem _ hy, hye⟩
    · exact Int.le_trans h.minLe.1 hmin.1
    · intro y hy
      rcases List.mem_cons.mp hy with rfl | hy
      · exact Int.le_trans h.minLe.1 hmin.2
      · exact h.minLe.2 y hy
    · rcases h.minIn with he | ⟨y, hy, hye⟩
      · rw [he]
        unfold step; simp only
        split
        · exact Or.inr ⟨x, List.mem_cons_self, rfl⟩
        · exact Or.inl rfl
      · exact Or.inr ⟨y, List.mem_cons_of_mem _ hy, hye⟩
    · intro k
      rw [h.cls k]
      simp only [step, countOf_bump, List.filter_cons]
      by_cases hk : x.2 = k
      · simp [hk]; omega
      · simp [hk]

/-- **Totals and sums.** -/
theorem C16_total_sum (items : List (Int × String)) :
    (aggregate items).total = items.length ∧ (aggregate items).sum = (items.map (·.1)).sum := by
  cases items with
  | nil => exact ⟨rfl, rfl⟩
  | cons x xs =>
    have h := fold_inv (x :: xs) ⟨0, 0, 0, x.1, []⟩
    exact ⟨by rw [aggregate, h.total]; simp, by rw [aggregate, h.sum]; simp⟩

/-- **Minimum**: a lower bound of the items that one of them attains. -/
theorem C16_min (x : Int × String) (xs : List (Int × String)) :
    (∀ y ∈ x :: xs, (aggregate (x :: xs)).min ≤ y.1) ∧ ∃ y ∈ x :: xs, y.1 = (aggregate (x :: xs)).min := by
  have h := fold_inv (x :: xs) ⟨0, 0, 0, x.1, []⟩
  refine ⟨h.minLe.2, ?_⟩
  rcases h.minIn with he | hin
  · exact ⟨x, List.mem_cons_self, by rw [aggregate, he]⟩
  · exact hin

/-- **Maximum**: an upper bound of the items; attained by one of them as soon as one item is positive (the loop starts at 0; all the
summarised quantities — complexities, counts, LCOM4 — are non-negative, for them the maximum of an all-zero list is 0 as well). -/
theorem C16_max (x : Int × String) (xs : List (Int × String)) :
    (∀ y ∈ x :: xs, y.1 ≤ (aggregate (x :: xs)).max) ∧
    ((∃ y ∈ x :: xs, 0 < y.1) → ∃ y ∈ x :: xs, y.1 = (aggregate (x :: xs)).max) ∧
    ((∀ y ∈ x :: xs, y.1 = 0) → (aggregate (x :: xs)).max = 0) := by
  have h := fold_inv (x :: xs) ⟨0, 0, 0, x.1, []⟩
  refine ⟨h.maxGe.2, ?_, ?_⟩
  · rintro ⟨y, hy, hpos⟩
    rcases h.maxIn with he | hin
    · have := h.maxGe.2 y hy
      rw [he] at this; simp at this; omega
    · exact hin
  · intro hz
    rcases h.maxIn with he | ⟨y, hy, hye⟩
    · exact he
    · rw [aggregate, ← hye]; exact hz y hy

/-- **Average between minimum and maximum**: `min · n ≤ sum ≤ max · n`. -/
theorem C16_average_bounds (x : Int × String) (xs : List (Int × String)) :
    (aggregate (x :: xs)).min * ((x :: xs).length : Int) ≤ (aggregate (x :: xs)).sum ∧
    (aggregate (x :: xs)).sum ≤ (aggregate (x :: xs)).max * ((x :: xs).length : Int) := by
  have hmin := (C16_min x xs).1
  have hmax := (C16_max x xs).1
  rw [(C16_total_sum (x :: xs)).2]
  generalize (aggregate (x :: xs)).min = lo at hmin
  generalize (aggregate (x :: xs)).max = hi at hmax
  generalize x :: xs = l at hmin hmax
  induction l with
  | nil => simp
  | cons y l ih =>
    have h1 := hmin y List.mem_cons_self
    have h2 := hmax y List.mem_cons_self
    have ih' := ih (fun z hz => hmin z (List.mem_cons_of_mem _ hz)) (fun z hz => hmax z (List.mem_cons_of_mem _ hz))
    simp only [List.map_cons, List.sum_cons, List.length_cons]
    push_cast
    constructor <;> nlinarith [ih'.1, ih'.2]

/-- **Per-class counts** (risk levels, severities, clone types, distribution buckets): each equals the number of items of that class,
and together they account for every item exactly once. -/
theorem C16_class_counts (items : List (Int × String)) (k : String) :
    countOf (aggregate items).classes k = (items.filter fun x => x.2 = k).length := by
  cases items with
  | nil => simp [aggregate, countOf]
  | cons x xs =>
    have h := fold_inv (x :: xs) ⟨0, 0, 0, x.1, []⟩
    rw [aggregate, h.cls k]; simp [countOf]

theorem C16_classes_partition (items : List (Int × String)) (ks : List String) (hks : ks.Nodup) (hall : ∀ x ∈ items, x.2 ∈ ks) :
    (ks.map fun k => countOf (aggregate items).classes k).sum = (aggregate items).total := by
  rw [(C16_total_sum items).1]
  simp only [C16_class_counts]
  induction items with
  | nil => simp
  | cons x items ih =>
    have ih' := ih fun y hy => hall y (List.mem_cons_of_mem _ hy)
    have hx := hall x List.mem_cons_self
    have key : ∀ (l : List String), l.Nodup →
        (l.map fun k => ((x :: items).filter fun y => y.2 = k).length).sum =
        (l.map fun k => (items.filter fun y => y.2 = k).length).sum + (if x.2 ∈ l then 1 else 0) := by
      intro l hl
      induction l with
      | nil => simp
      | cons k l ihl =>
        have hl' := List.nodup_cons.mp hl
        have hhead : ((x :: items).filter fun y => y.2 = k).length = (items.filter fun y => y.2 = k).length + (if x.2 = k then 1 else 0) := by
          rw [List.filter_cons]; by_cases hk : x.2 = k <;> simp [hk]
        simp only [List.map_cons, List.sum_cons]
        rw [ihl hl'.2, hhead]
        by_cases hk : x.2 = k
        · have : x.2 ∉ l := hk ▸ hl'.1
          simp [hk, this]
          have : k ∉ l := hl'.1
          simp [this]; omega
        · have : ¬ k = x.2 := fun h => hk h.symm
          simp only [hk, if_false, List.mem_cons, false_or]
          by_cases hm : x.2 ∈ l <;> simp [hm] <;> omega
    rw [key ks hks, ih']
    simp [hx]

/-- **Filters.** Nothing below the echoed minimum survives, everything at or above it does, in the original order. -/
theorem C16_filter (minv : Int) (items : List (Int × String)) (x : Int × String) :
    x ∈ keepMin minv items ↔ x ∈ items ∧ minv ≤ x.1 := by
  unfold keepMin; simp [List.mem_filter]

theorem C16_filter_sublist (minv : Int) (items : List (Int × String)) : (keepMin minv items).Sublist items :=
  List.filter_sublist

/-- **Tie (regenerated).** The filter and summary loops of the complexity, dead-code, CBO, LCOM services and the clone statistics have
exactly the guards, initialisations, accumulations and returns the model was written against. -/
theorem C16_facts :
    Generated.CxSummaryFacts.filterFunctions = SummaryExpected.CxSummaryFacts_filterFunctions ∧
    Generated.CxSummaryFacts.generateSummary = SummaryExpected.CxSummaryFacts_generateSummary ∧
    Generated.CxSummaryFacts.calculateRiskLevel = SummaryExpected.CxSummaryFacts_calculateRiskLevel ∧
    Generated.DeadSummaryFacts.filterFiles = SummaryExpected.DeadSummaryFacts_filterFiles ∧
    Generated.DeadSummaryFacts.filterFindingsBySeverity = SummaryExpected.DeadSummaryFacts_filterFindingsBySeverity ∧
    Generated.DeadSummaryFacts.generateSummary = SummaryExpected.DeadSummaryFacts_generateSummary ∧
    Generated.CBOSummaryFacts.filterClasses = SummaryExpected.CBOSummaryFacts_filterClasses ∧
    Generated.CBOSummaryFacts.generateSummary = SummaryExpected.CBOSummaryFacts_generateSummary ∧
    Generated.LCOMSummaryFacts.filterClasses = SummaryExpected.LCOMSummaryFacts_filterClasses ∧
    Generated.LCOMSummaryFacts.generateSummary = SummaryExpected.LCOMSummaryFacts_generateSummary ∧
    Generated.CloneStatsFacts.createStatistics = SummaryExpected.CloneStatsFacts_createStatistics :=
  ⟨rfl, rfl, rfl, rfl, rfl, rfl, rfl, rfl, rfl, rfl, rfl⟩

end PV.C16
