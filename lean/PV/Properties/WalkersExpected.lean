/-! Reviewed field tables of the hand-written AST walkers (see PV.Properties.C04x: `C04_walkers_facts`, `C04_walkers_complete_up_to_listed`).

`PV.Generated.Walkers` is regenerated from the Go source on every run by `/verif/extract/walkers.go`; this file is the value that was
reviewed against the source once (pinned tree), plus — per walker — the reviewed list `missing` of populated child fields it does NOT
follow, each with the reason why that is harmless for what the walker is used for, or the finding it causes.
After a REVIEWED change of a walker: copy the new rows from `lean/PV/Generated/Walkers.lean`, re-derive `missing`, re-classify. -/
namespace PV.WalkersExpected

/-- fields of `parser.Node` that can hold child nodes (`*Node`, `[]*Node`, and `Value interface{}` which the builder fills with a `*Node`
for assignments, returns, attribute bases, unary operands, keyword values, …); `Parent` is a back pointer and is not a child field -/
def childFields : List String :=
  ["Args", "Bases", "Body", "Children", "Decorator", "Finalbody", "Handlers", "Iter", "Keywords", "Left", "Orelse", "Right", "Targets", "Test", "Value"]

/-- child fields that `internal/parser/ast_builder.go` populates: all of them -/
def assigned : List String :=
  ["Args", "Bases", "Body", "Children", "Decorator", "Finalbody", "Handlers", "Iter", "Keywords", "Left", "Orelse", "Right", "Targets", "Test", "Value"]

/-- Which fields can hold STATEMENTS (hence definitions, imports, fragment candidates): `Body`, `Orelse`, `Finalbody` directly,
`Handlers` through the `ExceptHandler` nodes (whose `Body` is the handler's block) and `Children` through structural nodes.
The other ten hold expressions only. This is the yardstick for the classifications below. -/
def statementFields : List String := ["Body", "Children", "Finalbody", "Handlers", "Orelse"]

def walkers : List (String × List String) := [
  ("internal/analyzer/apted_tree.go:TreeConverter.ConvertAST", ["Body", "Children", "Finalbody", "Handlers", "Orelse"]),
  ("internal/analyzer/cbo.go:CBOAnalyzer.walkNode", ["Args", "Body", "Children", "Finalbody", "Handlers", "Iter", "Keywords", "Left", "Orelse", "Right", "Test", "Value"]),
  ("internal/analyzer/clone_detector.go:CloneDetector.extractFragmentsRecursive", ["Body", "Children", "Finalbody", "Handlers", "Orelse"]),
  ("internal/analyzer/clone_detector.go:CloneDetector.extractFragmentsRecursiveWithSource", ["Body", "Children", "Finalbody", "Handlers", "Orelse"]),
  ("internal/analyzer/clone_detector.go:calculateASTSize", ["Body", "Children", "Orelse"]),
  ("internal/analyzer/lcom.go:LCOMAnalyzer.walkNode", ["Args", "Body", "Children", "Finalbody", "Handlers", "Iter", "Keywords", "Left", "Orelse", "Right", "Targets", "Test", "Value"]),
  ("internal/analyzer/module_analyzer.go:ModuleAnalyzer.containsTypeChecking", ["Args", "Bases", "Body", "Children", "Decorator", "Finalbody", "Handlers", "Iter", "Keywords", "Left", "Orelse", "Right", "Targets", "Test"]),
  ("internal/analyzer/module_analyzer.go:ModuleAnalyzer.walkNode", ["Body", "Children", "Finalbody", "Handlers", "Orelse"]),
  ("internal/analyzer/nesting_depth.go:traverseForNesting", ["Args", "Body", "Children", "Finalbody", "Handlers", "Iter", "Orelse", "Test"]),
  ("internal/analyzer/reexport_resolver.go:ReExportResolver.walkNode", ["Args", "Bases", "Body", "Children", "Decorator", "Finalbody", "Handlers", "Iter", "Keywords", "Left", "Orelse", "Right", "Targets", "Test"]),
  ("internal/parser/ast.go:Node.GetChildren", ["Args", "Bases", "Body", "Children", "Decorator", "Finalbody", "Handlers", "Iter", "Keywords", "Left", "Orelse", "Right", "Targets", "Test"]),
  ("internal/parser/ast.go:Node.Walk", ["Args", "Bases", "Body", "Children", "Decorator", "Finalbody", "Handlers", "Iter", "Keywords", "Left", "Orelse", "Right", "Targets", "Test"]),
  ("internal/parser/visitor.go:Node.Accept", ["Args", "Bases", "Body", "Children", "Decorator", "Finalbody", "Handlers", "Iter", "Keywords", "Left", "Orelse", "Right", "Targets", "Test"])
]

/-- visits that happen only under a condition other than a nil / ok / len check -/
def guarded : List (String × List String) := [
  -- intended: the docstring of a module/class/function is left out of the compared tree when `skipDocstrings` is configured
  ("internal/analyzer/apted_tree.go:TreeConverter.ConvertAST", ["Body: unless (canHaveDocstring && tc.isDocstring(bodyNode, i))"]),
  -- `Args` holds the generators of a comprehension (followed) and the arguments of a call / parameters of a def (not followed): see `missing`
  ("internal/analyzer/nesting_depth.go:traverseForNesting", ["Args: isComprehensionNode(node)"])
]

/-- Per walker: the populated child fields it does not follow (exactly `assigned` minus its row above: `C04_walkers_missing_exact`). -/
def missing : List (String × List String) := [
  ("internal/analyzer/apted_tree.go:TreeConverter.ConvertAST", [
    -- Purpose: the labelled tree that APTED compares (C07/C08). All ten are EXPRESSION positions: the condition of an `if`, the iterable of
    -- a `for`, the right-hand side of an assignment, call arguments, operands … are NOT part of the compared tree unless the builder also
    -- hangs them in `Children`. Identical source still gives identical trees (C08 "verbatim copies found" is unaffected) and C07 is stated
    -- about the converted trees; what it weakens is the MEANING of a similarity value (`x = a + b` and `x = f(y)` are the same leaf `Assign`).
    -- Design limitation of the similarity measure, recorded here; no finding id.
    "Args",      -- call arguments / def parameters: expression position, see above
    "Bases",     -- base-class expressions of a class: not compared
    "Decorator", -- decorators are not part of the compared tree (two defs that differ only in decorators are identical trees)
    "Iter",      -- iterable of for / comprehension: not compared
    "Keywords",  -- keyword arguments: not compared
    "Left",      -- left operand of BinOp/Compare/Attribute: not compared
    "Right",     -- right operand / subscript / return annotation: not compared
    "Targets",   -- assignment / for targets: not compared
    "Test",      -- condition of if/while/assert, subject of match: not compared
    "Value"      -- right-hand side of an assignment, returned value, attribute base, unary operand, lambda body: not compared
  ]),
  ("internal/analyzer/cbo.go:CBOAnalyzer.walkNode", [
    "Bases",     -- class collection (C04): harmless, a class statement cannot occur inside a base expression. Coupling (C13): the bases of the class under analysis are read directly, but those of a class defined INSIDE a method are lost — known F59-nested_class_base-*, F59-nested_class_keyword-*
    "Decorator", -- C04: harmless (expressions only). C13: known F59-nested_def_decorator-*, F51-decorator_arg (`@deco(Target())`)
    "Targets"    -- C04: harmless. C13: known F51-subscript_target, F51-del_subscript, F51-augassign_target_index, F51-subscript_tuple_target-* (`self.d[Target()] = 1`); F15 (fixed 2397061) was the same walker skipping Orelse/Handlers/Finalbody/Keywords/Test/Iter/Left/Right
  ]),
  ("internal/analyzer/clone_detector.go:CloneDetector.extractFragmentsRecursive", [
    -- Purpose: find the fragment candidates (def / class / for / while / if / try / with) = STATEMENTS. The ten expression fields are harmless.
    "Args",      -- harmless: expression position, no candidate statement can occur there
    "Bases",     -- harmless (expression)
    "Decorator", -- harmless (expression)
    -- (Finalbody and Handlers were missing here until the repair 1c356ef — finding F69: a fallback `def` under `except ImportError:` copied verbatim into two files yielded 0 fragments)
    "Iter",      -- harmless (expression)
    "Keywords",  -- harmless (expression)
    "Left",      -- harmless (expression)
    "Right",     -- harmless (expression)
    "Targets",   -- harmless (expression)
    "Test",      -- harmless (expression)
    "Value"      -- harmless (expression; a lambda body is not a fragment candidate)
  ]),
  ("internal/analyzer/clone_detector.go:CloneDetector.extractFragmentsRecursiveWithSource", [
    -- same function with the source text attached: same classification
    "Args",      -- harmless (expression)
    "Bases",     -- harmless (expression)
    "Decorator", -- harmless (expression)
    "Iter",      -- harmless (expression)
    "Keywords",  -- harmless (expression)
    "Left",      -- harmless (expression)
    "Right",     -- harmless (expression)
    "Targets",   -- harmless (expression)
    "Test",      -- harmless (expression)
    "Value"      -- harmless (expression)
  ]),
  ("internal/analyzer/clone_detector.go:calculateASTSize", [
    -- Purpose: `CodeFragment.Size`, compared with `min_nodes` (shouldIncludeFragment) and in isSignificantClone. It counts statement-level nodes
    -- only; thresholds are calibrated on that count, so the expression fields are a definition, not a defect.
    "Args",      -- by definition of Size (expressions in dedicated fields are not counted)
    "Bases",     -- by definition of Size
    "Decorator", -- by definition of Size
    "Finalbody", -- DEFECT (C08, same unregistered finding): the size of a `try` ignores its finally block although ConvertAST's tree contains it (Size ≠ size of the compared tree): a try statement whose weight is in `finally:` is dropped by the min_nodes filter
    "Handlers",  -- DEFECT (C08, same unregistered finding): the size of a `try` ignores its handlers — `try: import x / except ImportError: <40 lines>` has the Size of its two-line `try:` part and is never a fragment
    "Iter",      -- by definition of Size
    "Keywords",  -- by definition of Size
    "Left",      -- by definition of Size
    "Right",     -- by definition of Size
    "Targets",   -- by definition of Size
    "Test",      -- by definition of Size
    "Value"      -- by definition of Size
  ]),
  ("internal/analyzer/lcom.go:LCOMAnalyzer.walkNode", [
    "Bases",     -- class collection (C04): harmless. Cohesion (C14): `self.x` in the bases / keywords of a class defined inside a method is lost — known F58-nested_class_base-*, F58-nested_class_keyword-*
    "Decorator"  -- C04: harmless. C14: known F58-nested_def_decorator-* (`@self.reg` on a def nested in a method)
  ]),
  ("internal/analyzer/module_analyzer.go:ModuleAnalyzer.containsTypeChecking", [
    "Value"      -- through Node.GetChildren. Used only on BoolOp/Compare conditions of an `if` (operands hang in Children/Left, which are followed); skipped are the operand of a unary `not` and the base of an attribute: `not TYPE_CHECKING and X` is not taken for a type-checking block (right, by accident), `typing.TYPE_CHECKING` is recognised by the Attribute's Name. Harmless for C12.
  ]),
  ("internal/analyzer/module_analyzer.go:ModuleAnalyzer.walkNode", [
    -- Purpose: collect import statements (C12) = STATEMENTS; F29 (fixed a111c2a) was this walker skipping Orelse/Handlers/Finalbody.
    "Args",      -- harmless: expression position (`__import__("m")` / importlib calls are outside C12's static imports)
    "Bases",     -- harmless (expression)
    "Decorator", -- harmless (expression)
    "Iter",      -- harmless (expression)
    "Keywords",  -- harmless (expression)
    "Left",      -- harmless (expression)
    "Right",     -- harmless (expression)
    "Targets",   -- harmless (expression)
    "Test",      -- harmless (expression)
    "Value"      -- harmless (expression)
  ]),
  ("internal/analyzer/nesting_depth.go:traverseForNesting", [
    -- Purpose: `NestingDepth` of the complexity section (not the subject of C03, which is about the cyclomatic number). Nesting constructs are
    -- compound statements (all statement fields are followed) plus lambda / comprehensions, which are EXPRESSIONS:
    "Bases",     -- a lambda/comprehension in a base-class expression is not counted: negligible
    "Decorator", -- a lambda/comprehension in a decorator is not counted: negligible
    "Keywords",  -- `f(key=[… for …])`: nested comprehension not counted (under-reported NestingDepth; no property, no finding id)
    "Left",      -- operands: comprehension / lambda not counted (as above)
    "Right",     -- operands: as above
    "Targets",   -- targets: cannot hold a lambda/comprehension except in a subscript: negligible
    "Value"      -- OBSERVED: `x = [[j for j in i] for i in y]` has NestingDepth 0, the same display as an expression statement has 1 (right-hand sides and returned values are not followed). Under-reported NestingDepth; outside C01–C20, recorded here only.
  ]),
  ("internal/analyzer/reexport_resolver.go:ReExportResolver.walkNode", [
    "Value"      -- through Node.GetChildren. Looks for `__all__ = …` and `from … import …` STATEMENTS in an `__init__.py`; the right-hand side of `__all__` is read directly from node.Value by extractAllDeclaration. Harmless.
  ]),
  ("internal/parser/ast.go:Node.GetChildren", [
    "Value"      -- the shared child list omits the node kept in `Value` (right-hand sides, returned values, attribute bases, unary operands, keyword values): every user of GetChildren/Walk/Find/Accept inherits the gap. Users today: the two rows above and clone statistics; dfa_builder.go works around it by hand ("since Walk doesn't include it"). Latent; harmless for the current users.
  ]),
  ("internal/parser/ast.go:Node.Walk", [
    "Value"      -- through GetChildren; Walk/Find/FindByType have no caller outside the parser package and its tests. Latent.
  ]),
  ("internal/parser/visitor.go:Node.Accept", [
    "Value"      -- through GetChildren; only user is the StatisticsVisitor of service/clone_service.go (node counts shown in the clone statistics: under-counted, cosmetic)
  ])
]

end PV.WalkersExpected
