/-! Expected shape of the per-file loops (reviewed against /repo at the pinned commit); `C06_facts`. -/
namespace PV.LoopFactsExpected

def LoopCx_Analyze : List String := [
  "assign: filesProcessed := 0",
  "range: _, filePath := req.Paths",
  "return: nil, fmt.Errorf(…)",
  "if: len(fileErrors) > 0",
  "assign: errors = append(errors, fileErrors...)",
  "continue",
  "assign: allFunctions = append(allFunctions, functions...)",
  "assign: warnings = append(warnings, fileWarnings...)",
  "incdec: filesProcessed++",
  "if: len(allFunctions) == 0",
  "return: nil, domain.NewAnalysisError(\"no functions found to analyze\", nil)",
  "return: &domain.ComplexityResponse{ Functions: sortedFunctions, Summary: summary, Warnings: warnings, Errors: errors, GeneratedAt: time.Now().Format(time.RFC3339), Version: version.Version, Config: s.buildConfigForResponse(req), }, nil"
]


def LoopDead_Analyze : List String := [
  "assign: filesProcessed := 0",
  "range: _, filePath := req.Paths",
  "return: nil, fmt.Errorf(…)",
  "if: len(fileErrors) > 0",
  "assign: errors = append(errors, fileErrors...)",
  "continue",
  "if: fileResult != nil && (len(fileResult.Functions) > 0 || fileResult.TotalFindings > 0)",
  "assign: allFiles = append(allFiles, *fileResult)",
  "assign: warnings = append(warnings, fileWarnings...)",
  "incdec: filesProcessed++",
  "return: &domain.DeadCodeResponse{ Files: sortedFiles, Summary: summary, Warnings: warnings, Errors: errors, GeneratedAt: time.Now().Format(time.RFC3339), Version: version.Version, Config: s.buildConfigForResponse(req), }, nil"
]


def LoopCBO_Analyze : List String := [
  "assign: filesProcessed := 0",
  "range: _, filePath := req.Paths",
  "return: nil, fmt.Errorf(…)",
  "if: len(fileErrors) > 0",
  "assign: errors = append(errors, fileErrors...)",
  "continue",
  "assign: allClasses = append(allClasses, classes...)",
  "assign: warnings = append(warnings, fileWarnings...)",
  "incdec: filesProcessed++",
  "if: len(allClasses) == 0",
  "assign: warnings = append(warnings, \"No classes found to analyze\")",
  "return: &domain.CBOResponse{ Classes: []domain.ClassCoupling{}, Summary: s.generateSummary([]domain.ClassCoupling{}, filesProcessed, req), Warnings: warnings, Errors: errors, GeneratedAt: time.Now().Format(time.RFC3339), Version: version.Version, Config: s.buildConfigForResponse(req), }, nil",
  "return: &domain.CBOResponse{ Classes: sortedClasses, Summary: summary, Warnings: warnings, Errors: errors, GeneratedAt: time.Now().Format(time.RFC3339), Version: version.Version, Config: s.buildConfigForResponse(req), }, nil"
]


def LoopLCOM_Analyze : List String := [
  "assign: filesProcessed := 0",
  "range: _, filePath := req.Paths",
  "return: nil, fmt.Errorf(…)",
  "if: len(fileErrors) > 0",
  "assign: errors = append(errors, fileErrors...)",
  "continue",
  "assign: allClasses = append(allClasses, classes...)",
  "assign: warnings = append(warnings, fileWarnings...)",
  "incdec: filesProcessed++",
  "if: len(allClasses) == 0",
  "assign: warnings = append(warnings, \"No classes found to analyze\")",
  "return: &domain.LCOMResponse{ Classes: []domain.ClassCohesion{}, Summary: s.generateSummary([]domain.ClassCohesion{}, filesProcessed, req), Warnings: warnings, Errors: errors, GeneratedAt: time.Now().Format(time.RFC3339), Version: version.Version, Config: s.buildConfigForResponse(req), }, nil",
  "return: &domain.LCOMResponse{ Classes: sortedClasses, Summary: summary, Warnings: warnings, Errors: errors, GeneratedAt: time.Now().Format(time.RFC3339), Version: version.Version, Config: s.buildConfigForResponse(req), }, nil"
]


def LoopClone_DetectClonesInFiles : List String := [
  "if: ctx == nil",
  "return: nil, fmt.Errorf(…)",
  "if: req == nil",
  "return: nil, fmt.Errorf(…)",
  "if: len(filePaths) == 0",
  "return: nil, fmt.Errorf(…)",
  "if: req.Timeout > 0",
  "assign: filesAnalyzed := 0",
  "range: _, filePath := filePaths",
  "return: nil, fmt.Errorf(…)",
  "if: err != nil",
  "continue",
  "if: err != nil",
  "continue",
  "if: parseResult == nil || parseResult.AST == nil",
  "continue",
  "incdec: filesAnalyzed++",
  "if: parseResult.AST != nil",
  "assign: allFragments = append(allFragments, fragments...)",
  "if: len(allFragments) == 0",
  "return: &domain.CloneResponse{ Clones: []*domain.Clone{}, ClonePairs: []*domain.ClonePair{}, CloneGroups: []*domain.CloneGroup{}, Statistics: &domain.CloneStatistics{ TotalFragments: 0, FilesAnalyzed: filesAnalyzed, LinesAnalyzed: linesAnalyzed, NodesAnalyzed: nodesAnalyzed, }, Request: req, Duration: time.Since(startTime).Milliseconds(), Success: true, }, nil",
  "return: &domain.CloneResponse{ Clones: domainClones, ClonePairs: domainClonePairs, CloneGroups: domainCloneGroups, Statistics: statistics, Request: req, Duration: duration, Success: true, }, nil"
]


def LoopMain_main : List String := [
  "if: err != nil",
  "call: os.Exit(1)"
]


end PV.LoopFactsExpected
