import PV.Model.Config
import PV.Generated.ConfigFacts
/-!
# C17 — configuration precedence: explicit flag over config file over default
-/
namespace PV.C17
open PV.Config

variable {V C : Type}

/-- a flag that is given wins, whatever its value (also when it equals the default) and whatever the file says -/
theorem C17_flag_wins (v : V) (file : Option V) (d : V) : effective ⟨some v, file, d⟩ = v := rfl

/-- without the flag a key that is present wins, whatever its value (also 0 / false / the default) -/
theorem C17_file_wins (v d : V) : effective ⟨none, some v, d⟩ = v := rfl

/-- neither: the documented default -/
theorem C17_default (d : V) : effective (⟨none, none, d⟩ : Source V) = d := rfl

/-- the three cases are exhaustive: the effective value is always one of the three sources, chosen in that order -/
theorem C17_effective (s : Source V) :
    (∀ v, s.flag = some v → effective s = v) ∧
    (s.flag = none → ∀ v, s.file = some v → effective s = v) ∧
    (s.flag = none → s.file = none → effective s = s.default) := by
  refine ⟨fun v h => ?_, fun h v hv => ?_, fun h hv => ?_⟩ <;> simp [effective, *]

/-- why "differs from the default" cannot stand in for "was given": the sentinel merge disagrees with the specification exactly on a
flag that repeats the default over a file that says otherwise -/
theorem C17_sentinel_wrong : ∃ s : Source Nat, mergeSentinel s ≠ effective s :=
  ⟨⟨some 5, some 1, 5⟩, by decide⟩

theorem C17_sentinel_agrees_otherwise [DecidableEq V] (s : Source V) (h : ∀ v, s.flag = some v → v ≠ s.default) :
    mergeSentinel s = effective s := by
  unfold mergeSentinel effective
  cases hf : s.flag with
  | none => cases s.file <;> simp
  | some v =>
    have := h v hf
    simp [this]

/-- an explicit `--config` always wins -/
theorem C17_explicit (c : C) (dirs : List (Dir C)) : discover (some c) dirs = some c := rfl

/-- in one directory `.pyscn.toml` takes precedence over `pyproject.toml` -/
theorem C17_same_dir (c : C) (pp : Option C) (rest : List (Dir C)) : discover none (⟨some c, pp⟩ :: rest) = some c := rfl

/-- among `.pyscn.toml` files the nearest at or above the analysed path is used -/
theorem C17_nearest_pyscn (pre rest : List (Dir C)) (d : Dir C) (c : C)
    (hpre : ∀ x ∈ pre, x.pyscn = none) (hd : d.pyscn = some c) : discover none (pre ++ d :: rest) = some c := by
  unfold discover
  have : findPyscn (pre ++ d :: rest) = some c := by
    induction pre with
    | nil => simp [findPyscn, hd]
    | cons x pre ih =>
      have hx := hpre x List.mem_cons_self
      simp only [List.cons_append, findPyscn, hx]
      exact ih fun y hy => hpre y (List.mem_cons_of_mem _ hy)
  simp [this]

/-- when there is no `.pyscn.toml` on the way up, the nearest `pyproject.toml` with a `[tool.pyscn]` table is used -/
theorem C17_nearest_pyproject (pre rest : List (Dir C)) (d : Dir C) (c : C)
    (hno : ∀ x ∈ pre ++ d :: rest, x.pyscn = none) (hpre : ∀ x ∈ pre, x.pyproject = none) (hd : d.pyproject = some c) :
    discover none (pre ++ d :: rest) = some c := by
  unfold discover
  have h1 : findPyscn (pre ++ d :: rest) = none := by
    generalize pre ++ d :: rest = l at hno
    induction l with
    | nil => rfl
    | cons x l ih =>
      simp only [findPyscn, hno x List.mem_cons_self]
      exact ih fun y hy => hno y (List.mem_cons_of_mem _ hy)
  have h2 : findPyproject (pre ++ d :: rest) = some c := by
    clear h1 hno
    induction pre with
    | nil => simp [findPyproject, hd]
    | cons x pre ih =>
      have hx := hpre x List.mem_cons_self
      simp only [List.cons_append, findPyproject, hx]
      exact ih fun y hy => hpre y (List.mem_cons_of_mem _ hy)
  simp [h1, h2]

/-- nothing anywhere: no configuration file, i.e. the defaults -/
theorem C17_none (dirs : List (Dir C)) (h : ∀ x ∈ dirs, x.pyscn = none ∧ x.pyproject = none) : discover none dirs = none := by
  unfold discover
  have h1 : findPyscn dirs = none := by
    induction dirs with
    | nil => rfl
    | cons x l ih => simp only [findPyscn, (h x List.mem_cons_self).1]; exact ih fun y hy => h y (List.mem_cons_of_mem _ hy)
  have h2 : findPyproject dirs = none := by
    clear h1
    induction dirs with
    | nil => rfl
    | cons x l ih => simp only [findPyproject, (h x List.mem_cons_self).2]; exact ih fun y hy => h y (List.mem_cons_of_mem _ hy)
  simp [h1, h2]

/-- **Tie (regenerated).** Discovery and path resolution have the shape the model was written against. -/
theorem C17_facts :
    Generated.ConfigFacts.ResolveConfigPath = [
      "if: configPath != \"\"",
      "if: err != nil",
      "return: \"\", fmt.Errorf(…)",
      "if: !info.IsDir()",
      "return: configPath, nil",
      "return: l.FindConfigFileFromPath(configPath), nil",
      "assign: searchPath := targetPath",
      "if: searchPath == \"\"",
      "assign: searchPath = \".\"",
      "return: l.FindConfigFileFromPath(searchPath), nil"] ∧
    Generated.ConfigFacts.FindConfigFileFromPath = [
      "assign: dir, err := normalizeSearchDir(startPath)",
      "if: err != nil",
      "return: \"\"",
      "assign: current := dir",
      "assign: pyscnPath := filepath.Join(current, \".pyscn.toml\")",
      "if: err == nil",
      "return: pyscnPath",
      "assign: parent := filepath.Dir(current)",
      "if: parent == current",
      "break",
      "assign: current = parent",
      "assign: current = dir",
      "assign: pyprojectPath := filepath.Join(current, \"pyproject.toml\")",
      "if: err == nil && hasPyscnSection(pyprojectPath)",
      "return: pyprojectPath",
      "assign: parent := filepath.Dir(current)",
      "if: parent == current",
      "break",
      "assign: current = parent",
      "return: \"\""] := ⟨rfl, rfl⟩

end PV.C17
