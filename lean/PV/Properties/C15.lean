import PV.Proofs.ScoreLemmas
import PV.Proofs.RatArith
import PV.Model.Summary
import PV.Generated.SummaryFacts
import PV.Generated.ScoreConsts
/-!
# C15 — Health score is bounded, monotone and consistently graded

All statements are about `PV.Generated.Score`, the statement-by-statement translation of
`/repo/domain/analyze.go` that is regenerated on every run, for EVERY carrier `F` that
satisfies the order laws `MonoArith` (Go's float64 is assumed to; `Rat` is proved to,
`PV/Proofs/RatArith.lean`).
-/
namespace PV.C15
open PV PV.MA PV.Score PV.Generated.Score Arith
variable {F : Type} [MonoArith F]

/-- sum of the seven category penalties, exactly as `CalculateHealthScore` subtracts them -/
def totalPenalty (s : AnalyzeSummary F) : Int :=
  calculateComplexityPenalty F s + calculateDeadCodePenalty F s (normFactor s) + calculateDuplicationPenalty F s
    + calculateCouplingPenalty F s + calculateCohesionPenalty F s + calculateDependencyPenalty F s
    + calculateArchitecturePenalty F s

def out (s : AnalyzeSummary F) : AnalyzeSummary F := (CalculateHealthScore F s).2
def health (s : AnalyzeSummary F) : Int := (out s).HealthScore
def grade (s : AnalyzeSummary F) : String := (out s).Grade

/-- `Validate` returned nil -/
def Valid (s : AnalyzeSummary F) : Prop := Validate F s = false

/-! ## the score formula -/

theorem health_eq (s : AnalyzeSummary F) (hv : Valid s) :
    health s = if 100 - totalPenalty s < 0 then 0 else 100 - totalPenalty s := by
  unfold health out CalculateHealthScore
  have : ¬ (Validate F s = true) := by rw [hv]; decide
  simp only []
  rw [if_neg this]
  unfold totalPenalty normFactor
  simp only []
  have e : ∀ a b c d e f g : Int, 100 - a - b - c - d - e - f - g = 100 - (a + b + c + d + e + f + g) := by
    intros; omega
  rw [e]

/-- **C15 (formula).** The score is `100 − Σ penalties`, floored at 0. -/
theorem C15_formula (s : AnalyzeSummary F) (hv : Valid s) : health s = max 0 (100 - totalPenalty s) := by
  rw [health_eq s hv]; split <;> omega

/-- **C15 (caps).** Every category penalty lies between 0 and its documented maximum
(20/20/20/20/20/16/12). The maxima are literals here: a changed cap breaks the theorem. -/
theorem C15_caps (s : AnalyzeSummary F) (cn : CountsNonneg s) :
    (0 ≤ calculateComplexityPenalty F s ∧ calculateComplexityPenalty F s ≤ 20) ∧
    (0 ≤ calculateDeadCodePenalty F s (normFactor s) ∧ calculateDeadCodePenalty F s (normFactor s) ≤ 20) ∧
    (0 ≤ calculateDuplicationPenalty F s ∧ calculateDuplicationPenalty F s ≤ 20) ∧
    (0 ≤ calculateCouplingPenalty F s ∧ calculateCouplingPenalty F s ≤ 20) ∧
    (0 ≤ calculateCohesionPenalty F s ∧ calculateCohesionPenalty F s ≤ 20) ∧
    (0 ≤ calculateDependencyPenalty F s ∧ calculateDependencyPenalty F s ≤ 16) ∧
    (0 ≤ calculateArchitecturePenalty F s ∧ calculateArchitecturePenalty F s ≤ 12) := by
  have p13 : (z : F) < (Arith.lit 13 1 : F) := lit_pos (by decide) (by decide)
  have p10 : (z : F) < (Arith.lit 10 1 : F) := lit_pos (by decide) (by decide)
  have p14 : (z : F) < (Arith.lit 1 4 : F) := lit_pos (by decide) (by decide)
  have p03 : (z : F) < (Arith.lit 5404319552844595 18014398509481984 : F) := lit_pos (by decide) (by decide)
  refine ⟨?_, ?_, ?_, ?_, ?_, ?_, ?_⟩
  · rw [cx_eq]; exact ⟨ramp_nonneg _ _ _ p13, ramp_le _ _ _⟩
  · rw [dc_eq]; exact ⟨dc_nonneg _ _ (normFactor_pos s), dc_le _ _⟩
  · rw [dup_eq]; exact ⟨ramp_nonneg _ _ _ p10, ramp_le _ _ _⟩
  · rw [cpl_eq]; exact ⟨ratio_nonneg _ p14 cn.cboH cn.cboM cn.cboC, ratio_le _ _ _ _⟩
  · rw [coh_eq]; exact ⟨ratio_nonneg _ p03 cn.lcomH cn.lcomM cn.lcomC, ratio_le _ _ _ _⟩
  · rw [dep_eq]; split
    · exact ⟨Int.le_refl 0, by decide⟩
    · have a := cyc_bounds (F := F) s.DepsModulesInCycles s.DepsTotalModules
      have b := depth_bounds (F := F) s.DepsMaxDepth s.DepsTotalModules
      have c := msd_bounds s.DepsMainSequenceDeviation
      omega
  · rw [arch_eq]; split
    · exact ⟨Int.le_refl 0, by decide⟩
    · exact arch_bounds _

theorem totalPenalty_nonneg (s : AnalyzeSummary F) (cn : CountsNonneg s) : 0 ≤ totalPenalty s := by
  have := C15_caps s cn; unfold totalPenalty; omega

/-! ## range -/

theorem penaltyToScore_range (p m : Int) : 0 ≤ penaltyToScore F p m ∧ penaltyToScore F p m ≤ 100 := by
  unfold penaltyToScore; split
  · decide
  · simp only []; split <;> split <;> omega

/-- **C15 (range).** The health score and all seven category scores lie in [0,100]
(for the architecture score, which is `round(100·compliance)`, under the validity range of
compliance, which `Validate` only enforces when the architecture analysis ran). -/
theorem C15_range (s : AnalyzeSummary F) (hv : Valid s) (cn : CountsNonneg s)
    (hc : (Arith.lit 0 1 : F) ≤ s.ArchCompliance ∧ s.ArchCompliance ≤ (Arith.lit 1 1 : F)) :
    (0 ≤ health s ∧ health s ≤ 100) ∧
    (0 ≤ (out s).ComplexityScore ∧ (out s).ComplexityScore ≤ 100) ∧
    (0 ≤ (out s).DeadCodeScore ∧ (out s).DeadCodeScore ≤ 100) ∧
    (0 ≤ (out s).DuplicationScore ∧ (out s).DuplicationScore ≤ 100) ∧
    (0 ≤ (out s).CouplingScore ∧ (out s).CouplingScore ≤ 100) ∧
    (0 ≤ (out s).CohesionScore ∧ (out s).CohesionScore ≤ 100) ∧
    (0 ≤ (out s).DependencyScore ∧ (out s).DependencyScore ≤ 100) ∧
    (0 ≤ (out s).ArchitectureScore ∧ (out s).ArchitectureScore ≤ 100) := by
  have hp := totalPenalty_nonneg s cn
  have hh := health_eq s hv
  have nv : ¬ (Validate F s = true) := by rw [hv]; decide
  refine ⟨?_, ?_, ?_, ?_, ?_, ?_, ?_, ?_⟩
  · rw [hh]; split <;> omega
  all_goals (unfold out CalculateHealthScore; simp only []; rw [if_neg nv]; dsimp only)
  · exact penaltyToScore_range (F := F) _ _
  · exact penaltyToScore_range (F := F) _ _
  · exact penaltyToScore_range (F := F) _ _
  · exact penaltyToScore_range (F := F) _ _
  · exact penaltyToScore_range (F := F) _ _
  · exact penaltyToScore_range (F := F) _ _
  · show 0 ≤ roundI (s.ArchCompliance * Arith.lit 100 1) ∧ roundI (s.ArchCompliance * Arith.lit 100 1) ≤ 100
    constructor
    · exact roundI_nonneg (mul_nonneg hc.1 (lit_le (by decide) (by decide) (by decide)))
    · have := roundI_mono (mul_le_mul_l (Arith.lit 100 1 : F) (lit_le (by decide) (by decide) (by decide)) hc.2)
      rw [one_mul', roundI_lit (by decide)] at this
      exact this

/-- on a validation failure the score is 0 and the grade "N/A" (the caller then uses the fallback) -/
theorem C15_invalid (s : AnalyzeSummary F) (hv : Validate F s = true) :
    (CalculateHealthScore F s).1 = true ∧ health s = 0 ∧ grade s = "N/A" := by
  unfold health grade out CalculateHealthScore
  simp only []
  rw [if_pos hv]
  exact ⟨rfl, rfl, rfl⟩

/-- the fallback score used on validation failure is in range too -/
theorem C15_fallback_range (s : AnalyzeSummary F) : 0 ≤ CalculateFallbackScore F s ∧ CalculateFallbackScore F s ≤ 100 := by
  unfold CalculateFallbackScore
  simp only []
  repeat' split
  all_goals omega

/-! ## grade -/

def gradeOf (h : Int) : String :=
  if 90 ≤ h then "A" else if 75 ≤ h then "B" else if 60 ≤ h then "C" else if 45 ≤ h then "D" else "F"

/-- **C15 (grade).** A/B/C/D/F exactly by 90/75/60/45 (literals, not the generated names). -/
theorem C15_grade (s : AnalyzeSummary F) (hv : Valid s) : grade s = gradeOf (health s) := by
  have nv : ¬ (Validate F s = true) := by rw [hv]; decide
  unfold grade health out CalculateHealthScore gradeOf
  simp only []
  rw [if_neg nv]

theorem C15_grade_fn (h : Int) : GetGradeFromScore F h = gradeOf h := by
  unfold GetGradeFromScore gradeOf; simp only [ge_iff_le]

/-! ## monotonicity: componentwise-worse summaries never score higher -/

/-- `s` is at least as good as `s'` in every scored dimension.  Each analysis block is either
"same denominator, no better numerators" or "the block is absent in `s`" (which is what a
skipped analysis looks like). -/
structure NoBetter (s s' : AnalyzeSummary F) : Prop where
  files : s.TotalFiles = s'.TotalFiles
  cx    : s.AverageComplexity ≤ s'.AverageComplexity
  crit  : s.CriticalDeadCode ≤ s'.CriticalDeadCode
  warn  : s.WarningDeadCode ≤ s'.WarningDeadCode
  info  : s.InfoDeadCode ≤ s'.InfoDeadCode
  dup   : s.CodeDuplication ≤ s'.CodeDuplication
  cbo   : s.CBOClasses = 0 ∨ (s.CBOClasses = s'.CBOClasses ∧ s.HighCouplingClasses ≤ s'.HighCouplingClasses ∧
            s.MediumCouplingClasses ≤ s'.MediumCouplingClasses)
  lcom  : s.LCOMClasses = 0 ∨ (s.LCOMClasses = s'.LCOMClasses ∧ s.HighLCOMClasses ≤ s'.HighLCOMClasses ∧
            s.MediumLCOMClasses ≤ s'.MediumLCOMClasses)
  deps  : s.DepsEnabled = false ∨ (s.DepsEnabled = s'.DepsEnabled ∧ s.DepsTotalModules = s'.DepsTotalModules ∧
            s.DepsModulesInCycles ≤ s'.DepsModulesInCycles ∧ s.DepsMaxDepth ≤ s'.DepsMaxDepth ∧
            s.DepsMainSequenceDeviation ≤ s'.DepsMainSequenceDeviation)
  arch  : s.ArchEnabled = false ∨ (s.ArchEnabled = s'.ArchEnabled ∧ s'.ArchCompliance ≤ s.ArchCompliance)

theorem totalPenalty_mono (s s' : AnalyzeSummary F) (cn : CountsNonneg s) (cn' : CountsNonneg s')
    (h : NoBetter s s') : totalPenalty s ≤ totalPenalty s' := by
  have p13 : (z : F) < (Arith.lit 13 1 : F) := lit_pos (by decide) (by decide)
  have p10 : (z : F) < (Arith.lit 10 1 : F) := lit_pos (by decide) (by decide)
  have p14 : (z : F) < (Arith.lit 1 4 : F) := lit_pos (by decide) (by decide)
  have p03 : (z : F) < (Arith.lit 5404319552844595 18014398509481984 : F) := lit_pos (by decide) (by decide)
  have caps' := C15_caps s' cn'
  have h1 : calculateComplexityPenalty F s ≤ calculateComplexityPenalty F s' := by
    rw [cx_eq, cx_eq]; exact ramp_mono _ _ p13 h.cx
  have hn : normFactor s = normFactor s' := by unfold normFactor; rw [h.files]
  have h2 : calculateDeadCodePenalty F s (normFactor s) ≤ calculateDeadCodePenalty F s' (normFactor s') := by
    rw [dc_eq, dc_eq, hn]
    exact dc_mono _ (normFactor_pos s') (deadWeight_mono h.crit h.warn h.info)
  have h3 : calculateDuplicationPenalty F s ≤ calculateDuplicationPenalty F s' := by
    rw [dup_eq, dup_eq]; exact ramp_mono _ _ p10 h.dup
  have h4 : calculateCouplingPenalty F s ≤ calculateCouplingPenalty F s' := by
    rcases h.cbo with h0 | ⟨hc, hh, hm⟩
    · rw [cpl_eq s]; unfold ratioPenalty; rw [if_pos h0]; exact caps'.2.2.2.1.1
    · rw [cpl_eq, cpl_eq, ← hc]; exact ratio_mono _ _ p14 cn.cboC hh hm
  have h5 : calculateCohesionPenalty F s ≤ calculateCohesionPenalty F s' := by
    rcases h.lcom with h0 | ⟨hc, hh, hm⟩
    · rw [coh_eq s]; unfold ratioPenalty; rw [if_pos h0]; exact caps'.2.2.2.2.1.1
    · rw [coh_eq, coh_eq, ← hc]; exact ratio_mono _ _ p03 cn.lcomC hh hm
  have h6 : calculateDependencyPenalty F s ≤ calculateDependencyPenalty F s' := by
    rcases h.deps with h0 | ⟨he, ht, hc, hd, hm⟩
    · rw [dep_eq s, if_pos (by rw [h0]; decide)]; exact caps'.2.2.2.2.2.1.1
    · rw [dep_eq, dep_eq, ← he, ← ht]
      split
      · exact Int.le_refl 0
      · have a := cyc_mono (F := F) s.DepsTotalModules hc
        have b := depth_mono (F := F) s.DepsTotalModules hd
        have c := msd_mono hm
        omega
  have h7 : calculateArchitecturePenalty F s ≤ calculateArchitecturePenalty F s' := by
    rcases h.arch with h0 | ⟨he, hc⟩
    · rw [arch_eq s, if_pos (by rw [h0]; decide)]; exact caps'.2.2.2.2.2.2.1
    · rw [arch_eq, arch_eq, ← he]
      split
      · exact Int.le_refl 0
      · exact arch_anti hc
  unfold totalPenalty; omega

/-- **C15 (monotone), general form.** If `s'` is no better than `s` in every scored dimension,
its health score is no higher. The thirteen single-quantity statements and the skip statement
of the property are instances (below). -/
theorem C15_mono (s s' : AnalyzeSummary F) (hv : Valid s) (hv' : Valid s')
    (cn : CountsNonneg s) (cn' : CountsNonneg s') (h : NoBetter s s') : health s' ≤ health s := by
  have := totalPenalty_mono s s' cn cn' h
  rw [health_eq s hv, health_eq s' hv']; split <;> split <;> omega

theorem NoBetter.refl (s : AnalyzeSummary F) : NoBetter s s :=
  { files := rfl, cx := le_rfl' _, crit := Int.le_refl _, warn := Int.le_refl _, info := Int.le_refl _,
    dup := le_rfl' _, cbo := .inr ⟨rfl, Int.le_refl _, Int.le_refl _⟩, lcom := .inr ⟨rfl, Int.le_refl _, Int.le_refl _⟩,
    deps := .inr ⟨rfl, rfl, Int.le_refl _, Int.le_refl _, le_rfl' _⟩, arch := .inr ⟨rfl, le_rfl' _⟩ }

/-! ### the single-quantity instances named in the property -/

section single
variable (s : AnalyzeSummary F) (hv : Valid s) (cn : CountsNonneg s)
include hv cn

theorem C15_mono_avgComplexity (x : F) (hx : s.AverageComplexity ≤ x)
    (hv' : Valid { s with AverageComplexity := x }) : health { s with AverageComplexity := x } ≤ health s :=
  C15_mono s _ hv hv' cn ⟨cn.1, cn.2, cn.3, cn.4, cn.5, cn.6, cn.7, cn.8, cn.9, cn.10, cn.11, cn.12⟩
    { NoBetter.refl s with cx := hx }

theorem C15_mono_critical (n : Int) (hn : s.CriticalDeadCode ≤ n)
    (hv' : Valid { s with CriticalDeadCode := n }) : health { s with CriticalDeadCode := n } ≤ health s :=
  C15_mono s _ hv hv' cn { cn with crit := Int.le_trans cn.crit hn } { NoBetter.refl s with crit := hn }

theorem C15_mono_warning (n : Int) (hn : s.WarningDeadCode ≤ n)
    (hv' : Valid { s with WarningDeadCode := n }) : health { s with WarningDeadCode := n } ≤ health s :=
  C15_mono s _ hv hv' cn { cn with warn := Int.le_trans cn.warn hn } { NoBetter.refl s with warn := hn }

theorem C15_mono_info (n : Int) (hn : s.InfoDeadCode ≤ n)
    (hv' : Valid { s with InfoDeadCode := n }) : health { s with InfoDeadCode := n } ≤ health s :=
  C15_mono s _ hv hv' cn { cn with info := Int.le_trans cn.info hn } { NoBetter.refl s with info := hn }

theorem C15_mono_duplication (x : F) (hx : s.CodeDuplication ≤ x)
    (hv' : Valid { s with CodeDuplication := x }) : health { s with CodeDuplication := x } ≤ health s :=
  C15_mono s _ hv hv' cn ⟨cn.1, cn.2, cn.3, cn.4, cn.5, cn.6, cn.7, cn.8, cn.9, cn.10, cn.11, cn.12⟩
    { NoBetter.refl s with dup := hx }

theorem C15_mono_highCBO (n : Int) (hn : s.HighCouplingClasses ≤ n)
    (hv' : Valid { s with HighCouplingClasses := n }) : health { s with HighCouplingClasses := n } ≤ health s :=
  C15_mono s _ hv hv' cn { cn with cboH := Int.le_trans cn.cboH hn }
    { NoBetter.refl s with cbo := .inr ⟨rfl, hn, Int.le_refl _⟩ }

theorem C15_mono_mediumCBO (n : Int) (hn : s.MediumCouplingClasses ≤ n)
    (hv' : Valid { s with MediumCouplingClasses := n }) : health { s with MediumCouplingClasses := n } ≤ health s :=
  C15_mono s _ hv hv' cn { cn with cboM := Int.le_trans cn.cboM hn }
    { NoBetter.refl s with cbo := .inr ⟨rfl, Int.le_refl _, hn⟩ }

theorem C15_mono_highLCOM (n : Int) (hn : s.HighLCOMClasses ≤ n)
    (hv' : Valid { s with HighLCOMClasses := n }) : health { s with HighLCOMClasses := n } ≤ health s :=
  C15_mono s _ hv hv' cn { cn with lcomH := Int.le_trans cn.lcomH hn }
    { NoBetter.refl s with lcom := .inr ⟨rfl, hn, Int.le_refl _⟩ }

theorem C15_mono_mediumLCOM (n : Int) (hn : s.MediumLCOMClasses ≤ n)
    (hv' : Valid { s with MediumLCOMClasses := n }) : health { s with MediumLCOMClasses := n } ≤ health s :=
  C15_mono s _ hv hv' cn { cn with lcomM := Int.le_trans cn.lcomM hn }
    { NoBetter.refl s with lcom := .inr ⟨rfl, Int.le_refl _, hn⟩ }

theorem C15_mono_modulesInCycles (n : Int) (hn : s.DepsModulesInCycles ≤ n)
    (hv' : Valid { s with DepsModulesInCycles := n }) : health { s with DepsModulesInCycles := n } ≤ health s :=
  C15_mono s _ hv hv' cn { cn with cyc := Int.le_trans cn.cyc hn }
    { NoBetter.refl s with deps := .inr ⟨rfl, rfl, hn, Int.le_refl _, le_rfl' _⟩ }

theorem C15_mono_maxDepth (n : Int) (hn : s.DepsMaxDepth ≤ n)
    (hv' : Valid { s with DepsMaxDepth := n }) : health { s with DepsMaxDepth := n } ≤ health s :=
  C15_mono s _ hv hv' cn { cn with depth := Int.le_trans cn.depth hn }
    { NoBetter.refl s with deps := .inr ⟨rfl, rfl, Int.le_refl _, hn, le_rfl' _⟩ }

theorem C15_mono_msd (x : F) (hx : s.DepsMainSequenceDeviation ≤ x)
    (hv' : Valid { s with DepsMainSequenceDeviation := x }) : health { s with DepsMainSequenceDeviation := x } ≤ health s :=
  C15_mono s _ hv hv' cn ⟨cn.1, cn.2, cn.3, cn.4, cn.5, cn.6, cn.7, cn.8, cn.9, cn.10, cn.11, cn.12⟩
    { NoBetter.refl s with deps := .inr ⟨rfl, rfl, Int.le_refl _, Int.le_refl _, hx⟩ }

/-- lower architecture compliance never raises the score -/
theorem C15_mono_archCompliance (x : F) (hx : x ≤ s.ArchCompliance)
    (hv' : Valid { s with ArchCompliance := x }) : health { s with ArchCompliance := x } ≤ health s :=
  C15_mono s _ hv hv' cn ⟨cn.1, cn.2, cn.3, cn.4, cn.5, cn.6, cn.7, cn.8, cn.9, cn.10, cn.11, cn.12⟩
    { NoBetter.refl s with arch := .inr ⟨rfl, hx⟩ }

end single

/-! ## the summary assembly (`calculateSummary`) -/

open PV.Summary in
/-- **C15 (duplication input).** The duplication percentage derived from clone groups is in [0,10] ⊆ [0,100]
(so it can never make `Validate` fail) and grows with the number of groups. -/
theorem C15_dup_range (groups lines : Int) :
    (Arith.lit 0 1 : F) ≤ duplication F groups lines (Arith.lit 0 1) ∧ duplication F groups lines (Arith.lit 0 1) ≤ (Arith.lit 10 1 : F) := by
  unfold duplication
  split
  · next h =>
    simp only []
    have hlk : ∀ x : F, (z : F) < (if x < (Arith.lit 1 1 : F) then (Arith.lit 1 1 : F) else x) := by
      intro x; split
      · exact lit_pos (by decide) (by decide)
      · next hx => exact lt_of_lt_of_le (lit_pos (by decide) (by decide)) (not_lt.mp hx)
    constructor
    · apply MonoArith.le_fmin _ _ _ (lit_le (by decide) (by decide) (by decide))
      exact mul_nonneg (div_nonneg (ofInt_nonneg (by omega)) (hlk _)) (lit_le (by decide) (by decide) (by decide))
    · exact MonoArith.fmin_le_l _ _
  · exact ⟨le_rfl' _, lit_le (by decide) (by decide) (by decide)⟩

open PV.Summary in
theorem C15_dup_mono (g g' lines : Int) (h : g ≤ g') :
    duplication F g lines (Arith.lit 0 1) ≤ duplication F g' lines (Arith.lit 0 1) := by
  by_cases hg : lines > 0 ∧ g > 0
  · have hg' : lines > 0 ∧ g' > 0 := ⟨hg.1, by omega⟩
    unfold duplication
    rw [if_pos hg, if_pos hg']
    simp only []
    have hlk : ∀ x : F, (z : F) < (if x < (Arith.lit 1 1 : F) then (Arith.lit 1 1 : F) else x) := by
      intro x; split
      · exact lit_pos (by decide) (by decide)
      · next hx => exact lt_of_lt_of_le (lit_pos (by decide) (by decide)) (not_lt.mp hx)
    exact fmin_mono_r _ (mul_le_mul_l _ (lit_le (by decide) (by decide) (by decide)) (div_le_div_l _ (hlk _) (ofInt_le h)))
  · have : duplication F g lines (Arith.lit 0 1) = (Arith.lit 0 1 : F) := by unfold duplication; rw [if_neg hg]
    rw [this]; exact (C15_dup_range g' lines).1

open PV.Summary in
/-- **C15 (final score).** Whatever `calculateSummary` is given — valid or not — the reported health score is in
[0,100] and graded by 90/75/60/45 (on a validation failure the fallback score and `GetGradeFromScore` are used). -/
theorem C15_final_range (s : AnalyzeSummary F) (cn : CountsNonneg s) :
    0 ≤ (finalize F s).HealthScore ∧ (finalize F s).HealthScore ≤ 100 ∧ (finalize F s).Grade = gradeOf (finalize F s).HealthScore := by
  unfold finalize
  cases hv : Validate F s
  · -- valid
    have hV : Valid s := hv
    have e1 : (CalculateHealthScore F s).1 = false := by
      unfold CalculateHealthScore; simp only []; rw [if_neg (by rw [hv]; decide)]
    have hr := totalPenalty_nonneg s cn
    have hh := health_eq s hV
    have hg := C15_grade s hV
    unfold health grade out at *
    rcases hc : CalculateHealthScore F s with ⟨err, o⟩
    rw [hc] at e1 hh hg
    simp only [] at e1 hh hg
    subst e1
    simp only [Bool.false_eq_true, if_false]
    refine ⟨?_, ?_, hg⟩
    · rw [hh]; split <;> omega
    · rw [hh]; split <;> omega
  · -- invalid: fallback
    have e1 : (CalculateHealthScore F s).1 = true := (C15_invalid s hv).1
    rcases hc : CalculateHealthScore F s with ⟨err, o⟩
    rw [hc] at e1
    simp only [] at e1
    subst e1
    simp only [if_true]
    have := C15_fallback_range o
    exact ⟨this.1, this.2, C15_grade_fn _⟩

/-- the four named constants the hand-written `duplication` model spells as literals, as of this run -/
theorem C15_summary_consts :
    "GroupDensityLinesUnit = 1000" ∈ PV.Generated.ScoreConsts.consts ∧ "GroupDensityMinLines = 1" ∈ PV.Generated.ScoreConsts.consts ∧
    "GroupDensityCoefficient = 20" ∈ PV.Generated.ScoreConsts.consts ∧ "DuplicationThresholdHigh = 10" ∈ PV.Generated.ScoreConsts.consts := by
  simp [PV.Generated.ScoreConsts.consts]

/-- **C15 (source tie for the assembly).** `calculateSummary` as re-extracted from /repo on this run. -/
theorem C15_summary_facts : PV.Generated.SummaryFacts.calculateSummary = [
  "if: response.Complexity != nil",
  "assign: summary.TotalFiles = response.Complexity.Summary.FilesAnalyzed",
  "assign: summary.AnalyzedFiles = response.Complexity.Summary.FilesAnalyzed",
  "assign: summary.TotalFunctions = len(response.Complexity.Functions)",
  "assign: summary.AverageComplexity = response.Complexity.Summary.AverageComplexity",
  "assign: summary.HighComplexityCount = response.Complexity.Summary.HighRiskFunctions",
  "if: response.DeadCode != nil",
  "assign: summary.DeadCodeCount = response.DeadCode.Summary.TotalFindings",
  "assign: summary.CriticalDeadCode = response.DeadCode.Summary.CriticalFindings",
  "assign: summary.WarningDeadCode = response.DeadCode.Summary.WarningFindings",
  "assign: summary.InfoDeadCode = response.DeadCode.Summary.InfoFindings",
  "if: response.Clone != nil",
  "assign: summary.TotalClones = response.Clone.Statistics.TotalClones",
  "assign: summary.ClonePairs = response.Clone.Statistics.TotalClonePairs",
  "assign: summary.CloneGroups = response.Clone.Statistics.TotalCloneGroups",
  "assign: totalLines := response.Clone.Statistics.LinesAnalyzed",
  "assign: groupCount := response.Clone.Statistics.TotalCloneGroups",
  "if: totalLines > 0 && groupCount > 0",
  "assign: linesInThousands := float64(totalLines) / domain.GroupDensityLinesUnit",
  "if: linesInThousands < domain.GroupDensityMinLines",
  "assign: linesInThousands = domain.GroupDensityMinLines",
  "assign: groupDensity := float64(groupCount) / linesInThousands",
  "assign: summary.CodeDuplication = math.Min(domain.DuplicationThresholdHigh, groupDensity*domain.GroupDensityCoefficient)",
  "if: response.CBO != nil",
  "assign: summary.CBOClasses = response.CBO.Summary.TotalClasses",
  "assign: summary.HighCouplingClasses = response.CBO.Summary.HighRiskClasses",
  "assign: summary.MediumCouplingClasses = response.CBO.Summary.MediumRiskClasses",
  "assign: summary.AverageCoupling = response.CBO.Summary.AverageCBO",
  "if: response.LCOM != nil",
  "assign: summary.LCOMClasses = response.LCOM.Summary.TotalClasses",
  "assign: summary.HighLCOMClasses = response.LCOM.Summary.HighRiskClasses",
  "assign: summary.MediumLCOMClasses = response.LCOM.Summary.MediumRiskClasses",
  "assign: summary.AverageLCOM = response.LCOM.Summary.AverageLCOM",
  "if: response.System != nil",
  "if: response.System.DependencyAnalysis != nil",
  "assign: summary.DepsTotalModules = da.TotalModules",
  "assign: summary.DepsMaxDepth = da.MaxDepth",
  "if: da.CircularDependencies != nil",
  "assign: summary.DepsModulesInCycles = da.CircularDependencies.TotalModulesInCycles",
  "if: da.CouplingAnalysis != nil",
  "assign: summary.DepsMainSequenceDeviation = da.CouplingAnalysis.MainSequenceDeviation",
  "if: response.System.ArchitectureAnalysis != nil",
  "assign: summary.ArchCompliance = aa.ComplianceScore",
  "if: err != nil",
  "assign: summary.HealthScore = summary.CalculateFallbackScore()",
  "assign: summary.Grade = domain.GetGradeFromScore(summary.HealthScore)"] := rfl


/-- the order laws assumed of `float64` (`MonoArith`) are satisfiable: exact rational arithmetic is an instance, so none of the theorems above is vacuous -/
theorem C15_assumption_consistent : Nonempty (MonoArith ℚ) := MonoArith_consistent

end PV.C15
