import PV.Proofs.CFGSound3
/-!
# C01 (extension) — the MIRROR of pyscn's CFG builder is sound, for every program of the fragment

`PV/Model/CFG.lean` is the executable Lean transliteration of `cfg_builder.go` + `reachability.go` (the real builder and detector
must produce the same findings, complexity and live lines as it on every generated program — the correspondence run by the check).
These theorems are about that mirror, for ALL programs (no bound on size or nesting):

* `C01_mirror_sound` — whatever an execution of the nondeterministic semantics `Exec` executes, every executed line has a located
  statement record in a block that the mirror's own breadth-first search reaches from ENTRY; the only exception are the heads of
  `elif` clauses, whose test the builder stores without a location (they cannot start a finding).
  Fragment `okL3 false false`: every statement kind incl. `try/except/else/finally`, `with`, `match`, loop `else`, comprehensions;
  `break`/`continue` only inside a loop of the same definition, `except`/`case` clauses only as members of `try`/`match`, and no
  `try … finally` nested inside a `finally` body (there the builder's propagation edges and its jump targets disagree about contexts
  whose `finally` is being processed; the check runs such programs against CPython instead).
* `C01_mirror_sound_notry` — the same for the `try`-free fragment `okL false` (stage S2 of DESIGN.md §4 C01).
* `C01_mirror_static` — the static form: every line of the summary `sxL` (⊇ `live`) is in a reachable block.
* `C01_mirror_frame` — the frame property of the builder used throughout: a builder call only adds edges / statements to blocks it
  owns, keeps all block ids below `next`, and restores the loop and exception stacks (no hypothesis on the program).
* `C01_reachable_iff` — the executable search `reachable` is exactly graph reachability from ENTRY.
-/
namespace PV.C01
open PV.CFG PV.Py PV.CFGSound

theorem C01_mirror_sound (k : Kind) (s e : Nat) (body : List Stmt) (hok : okL3 false false body = true) {o : Out} {tr : List Nat}
    (ex : Exec body o tr) :
    ∀ l ∈ tr, l ∈ (sxL body).skipped ∨ ∃ r ∈ (build k s e body).stmts, r.s = l ∧ r.blk ∈ reachable (build k s e body) :=
  mirror_sound3 k s e body hok ex

/-- in terms of the mirror's own output: an executed line is an `elif` head or one of the mirror's live lines -/
theorem C01_mirror_live (k : Kind) (s e : Nat) (body : List Stmt) (hok : okL3 false false body = true) {o : Out} {tr : List Nat}
    (ex : Exec body o tr) : ∀ l ∈ tr, l ∈ (sxL body).skipped ∨ l ∈ liveLines (build k s e body) := by
  intro l hl
  rcases mirror_sound3 k s e body hok ex l hl with h | ⟨r, hr, hs, hb⟩
  · exact .inl h
  · refine .inr ?_
    unfold liveLines
    exact List.mem_map.mpr ⟨r, List.mem_filter.mpr ⟨hr, by simpa using hb⟩, hs⟩

theorem C01_mirror_sound_notry (k : Kind) (s e : Nat) (body : List Stmt) (hok : okL false body = true) {o : Out} {tr : List Nat}
    (ex : Exec body o tr) :
    ∀ l ∈ tr, l ∈ (sxL body).skipped ∨ ∃ r ∈ (build k s e body).stmts, r.s = l ∧ r.blk ∈ reachable (build k s e body) :=
  mirror_sound k s e body hok ex

theorem C01_mirror_static (k : Kind) (s e : Nat) (body : List Stmt) (hok : okL3 false false body = true) :
    ∀ l ∈ (sxL body).lines, ∃ r ∈ (build k s e body).stmts, r.s = l ∧ r.blk ∈ reachable (build k s e body) :=
  build_sound3 k s e body hok

/-- the static summary covers the semantic over-approximation `live` (and hence every execution, `C01_live_sound`) -/
theorem C01_live_le_sx (ss : List Stmt) (hok : okL3 false false ss = true) :
    ∀ l ∈ (live ss).lines, l ∈ (sxL ss).lines ∨ l ∈ (sxL ss).skipped :=
  (live_le_sx3 ss false false hok).1

/-- the `try`-free fragment is part of the full fragment -/
theorem C01_fragment_mono (ss : List Stmt) (il f : Bool) (h : okL il ss = true) : okL3 il f ss = true := okL3_of_okL ss il f h

theorem C01_mirror_frame (ss : List Stmt) (st : St) (w : WF st) (c n : Nat) (hc : Own c n st.cur) (hn : n ≤ st.next) :
    Inv c n st (procList st ss) ∧ Same st (procList st ss) :=
  procList_frame ss st w c n hc hn

theorem C01_reachable_iff (st : St) (hn : 0 < st.next) (hb : ∀ e ∈ st.edges, e.1 < st.next ∧ e.2.1 < st.next) (b : Nat) :
    b ∈ reachable st ↔ R st.edges b :=
  ⟨reachable_sound st, reachable_complete st hn hb⟩

end PV.C01
