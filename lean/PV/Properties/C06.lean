import PV.Model.Isolation
import PV.Generated.LoopCx
import PV.Generated.LoopDead
import PV.Generated.LoopCBO
import PV.Generated.LoopLCOM
import PV.Generated.LoopClone
import PV.Generated.LoopMain
import PV.Properties.LoopFactsExpected
/-!
# C06 — a bad file never hides the others (the part of C06 that is logic)

Crash-freedom and the time bound are properties of the runtime (tree-sitter's C code, Go's stack, the algorithms' running time) that no
theorem over a model can exhibit; they are SEARCHED by the check (malformed stream, deep nesting, timing) — see DESIGN.md §4 C06.
-/
namespace PV.C06
open PV PV.Isolation

variable {F R E : Type}

theorem fold_append (a : F → Except E R) (fs : List F) : ∀ acc : Acc F R E,
    (fs.foldl (step a) acc).results = acc.results ++ (fs.foldl (step a) ⟨[], [], 0⟩).results ∧
    (fs.foldl (step a) acc).errors = acc.errors ++ (fs.foldl (step a) ⟨[], [], 0⟩).errors ∧
    (fs.foldl (step a) acc).processed = acc.processed + (fs.foldl (step a) ⟨[], [], 0⟩).processed := by
  induction fs with
  | nil => intro acc; simp
  | cons f fs ih =>
    intro acc
    simp only [List.foldl_cons]
    obtain ⟨h1, h2, h3⟩ := ih (step a acc f)
    obtain ⟨g1, g2, g3⟩ := ih (step a ⟨[], [], 0⟩ f)
    rw [h1, h2, h3, g1, g2, g3]
    unfold step
    cases a f <;> simp [List.append_assoc] <;> omega

/-- **Isolation.** Adding a file that cannot be analysed, at any position, changes nothing for the other files: the same results in the
same order, the same number of processed files; the only trace of the bad file is its own error. -/
theorem C06_isolation (a : F → Except E R) (pre post : List F) (bad : F) (e : E) (hbad : a bad = .error e) :
    (analyzeAll a (pre ++ bad :: post)).results = (analyzeAll a (pre ++ post)).results ∧
    (analyzeAll a (pre ++ bad :: post)).processed = (analyzeAll a (pre ++ post)).processed ∧
    (bad, e) ∈ (analyzeAll a (pre ++ bad :: post)).errors := by
  unfold analyzeAll
  simp only [List.foldl_append, List.foldl_cons]
  have hstep : ∀ acc : Acc F R E, step a acc bad = { acc with errors := acc.errors ++ [(bad, e)] } := by
    intro acc; unfold step; rw [hbad]
  rw [hstep]
  obtain ⟨h1, h2, h3⟩ := fold_append a post { (pre.foldl (step a) ⟨[], [], 0⟩) with errors := (pre.foldl (step a) ⟨[], [], 0⟩).errors ++ [(bad, e)] }
  obtain ⟨g1, g2, g3⟩ := fold_append a post (pre.foldl (step a) ⟨[], [], 0⟩)
  refine ⟨by rw [h1, g1], by rw [h3, g3], ?_⟩
  rw [h2]
  simp

/-- the results of the good files are exactly what each of them gives alone, in input order -/
theorem C06_results (a : F → Except E R) (fs : List F) :
    (analyzeAll a fs).results = fs.filterMap fun f => match a f with | .ok r => some (f, r) | .error _ => none := by
  unfold analyzeAll
  induction fs with
  | nil => rfl
  | cons f fs ih =>
    simp only [List.foldl_cons, List.filterMap_cons]
    obtain ⟨h1, _, _⟩ := fold_append a fs (step a ⟨[], [], 0⟩ f)
    rw [h1, ih]
    unfold step
    cases a f <;> simp

/-- **Exit status.** 0 or 1, nothing else. -/
theorem C06_exit (err : Option E) : exitCode err = 0 ∨ exitCode err = 1 := by
  unfold exitCode; cases err <;> simp

/-- **Tie (regenerated).** The per-file loops of the complexity, dead-code, CBO and LCOM services, the clone service's parse loop and
`main` have the skip-and-continue shape the model was written against. -/
theorem C06_facts :
    Generated.LoopCx.Analyze = LoopFactsExpected.LoopCx_Analyze ∧
    Generated.LoopDead.Analyze = LoopFactsExpected.LoopDead_Analyze ∧
    Generated.LoopCBO.Analyze = LoopFactsExpected.LoopCBO_Analyze ∧
    Generated.LoopLCOM.Analyze = LoopFactsExpected.LoopLCOM_Analyze ∧
    Generated.LoopClone.DetectClonesInFiles = LoopFactsExpected.LoopClone_DetectClonesInFiles ∧
    Generated.LoopMain.main = LoopFactsExpected.LoopMain_main :=
  ⟨rfl, rfl, rfl, rfl, rfl, rfl⟩

end PV.C06
