/-! Expected fact tables for the clone pipeline (reviewed by hand against /repo at the pinned commit; the regenerated tables in
PV.Generated.* must equal these — `C08_facts`, `C09_facts`). A changed guard, bound, operator, constant or tracked assignment in the
listed Go functions breaks the equality. -/
namespace PV.CloneExpected

def CloneLoopFacts_detectClonePairsWithContext : List String := [
  "assign: n := len(cd.fragments)",
  "if: n <= 1",
  "return",
  "assign: estimatedPairs := (n * (n - 1)) / 2",
  "assign: needsBatching := n > cd.cloneDetectorConfig.BatchSizeThreshold || estimatedPairs > cd.cloneDetectorConfig.MaxClonePairs",
  "if: needsBatching",
  "assign: batchSize := cd.calculateBatchSize(n)"
]

def CloneLoopFacts_detectClonePairsStandardWithContext : List String := [
  "assign: n := len(cd.fragments)",
  "forinit: i := 0",
  "for: i < n",
  "forpost: i++",
  "assign: i := 0",
  "incdec: i++",
  "forinit: j := i + 1",
  "for: j < n",
  "forpost: j++",
  "assign: j := i + 1",
  "incdec: j++",
  "if: (i*n+j)%checkInterval == 0 && isCancelled(ctx)",
  "return",
  "assign: fragment1 := cd.fragments[i]",
  "assign: fragment2 := cd.fragments[j]",
  "if: cd.isOverlappingLocation(fragment1.Location, fragment2.Location)",
  "continue",
  "assign: pair := cd.compareFragments(fragment1, fragment2)",
  "if: pair != nil && cd.isSignificantClone(pair)",
  "assign: cd.clonePairs = append(cd.clonePairs, pair)"
]

def CloneLoopFacts_detectClonePairsWithBatchingContext : List String := [
  "assign: n := len(cd.fragments)",
  "if: maxPairs <= 0",
  "assign: maxPairs = 10000",
  "if: batchSize <= 0",
  "assign: batchSize = 100",
  "assign: topPairs := make([]*ClonePair, 0, maxPairs)",
  "assign: minSimilarity := cd.cloneDetectorConfig.Type4Threshold",
  "forinit: batchStart := 0",
  "for: batchStart < n",
  "forpost: batchStart += batchSize",
  "if: isCancelled(ctx)",
  "assign: cd.clonePairs = topPairs",
  "return",
  "assign: batchEnd := batchStart + batchSize",
  "if: batchEnd > n",
  "assign: batchEnd = n",
  "forinit: i := batchStart",
  "for: i < batchEnd",
  "forpost: i++",
  "assign: i := batchStart",
  "incdec: i++",
  "forinit: j := i + 1",
  "for: j < batchEnd",
  "forpost: j++",
  "assign: j := i + 1",
  "incdec: j++",
  "if: pair != nil",
  "assign: pair := cd.tryCreateClonePair(i, j, minSimilarity)",
  "assign: topPairs = cd.addPairWithLimit(topPairs, pair, maxPairs)",
  "if: len(topPairs) >= maxPairs",
  "assign: minSimilarity = topPairs[len(topPairs)-1].Similarity",
  "forinit: j := 0",
  "for: j < batchStart",
  "forpost: j++",
  "assign: j := 0",
  "incdec: j++",
  "if: pair != nil",
  "assign: pair := cd.tryCreateClonePair(i, j, minSimilarity)",
  "assign: topPairs = cd.addPairWithLimit(topPairs, pair, maxPairs)",
  "if: len(topPairs) >= maxPairs",
  "assign: minSimilarity = topPairs[len(topPairs)-1].Similarity",
  "if: batchStart%5000 == 0",
  "assign: cd.clonePairs = topPairs"
]

def CloneLoopFacts_tryCreateClonePair : List String := [
  "assign: fragment1 := cd.fragments[i]",
  "assign: fragment2 := cd.fragments[j]",
  "if: cd.isOverlappingLocation(fragment1.Location, fragment2.Location)",
  "return: nil",
  "if: fragment1.TreeNode == nil || fragment2.TreeNode == nil",
  "return: nil",
  "assign: pair := cd.compareFragments(fragment1, fragment2)",
  "if: pair != nil && cd.isSignificantClone(pair) && pair.Similarity >= minSimilarity",
  "return: pair",
  "return: nil"
]

def CloneLoopFacts_addPairWithLimit : List String := [
  "if: len(pairs) < maxPairs",
  "assign: pairs = append(pairs, newPair)",
  "return: pairs",
  "if: newPair.Similarity > pairs[len(pairs)-1].Similarity",
  "assign: pairs[len(pairs)-1] = newPair",
  "return: pairs"
]

def CloneLoopFacts_limitAndSortClonePairs : List String := [
  "if: len(cd.clonePairs) > maxPairs",
  "assign: cd.clonePairs = cd.clonePairs[:maxPairs]"
]

def CloneLoopFacts_compareFragments : List String := [
  "if: fragment1.TreeNode == nil || fragment2.TreeNode == nil",
  "return: nil",
  "if: !cd.shouldCompareFragments(fragment1, fragment2)",
  "return: nil",
  "if: len(fragment1.Features) > 0 && len(fragment2.Features) > 0",
  "if: jaccardSimilarity(fragment1.Features, fragment2.Features) < jaccardRejectionThreshold",
  "return: nil",
  "if: cd.classifier != nil && cd.cloneDetectorConfig.EnableMultiDimensionalAnalysis",
  "return: cd.compareFragmentsWithClassifier(fragment1, fragment2)",
  "return: cd.compareFragmentsSingleMetric(fragment1, fragment2)"
]

def CloneLoopFacts_compareWithAPTED : List String := [
  "assign: distance := cd.analyzer.ComputeDistance(fragment1.TreeNode, fragment2.TreeNode)",
  "assign: similarity := cd.analyzer.ComputeSimilarity(fragment1.TreeNode, fragment2.TreeNode)",
  "assign: cloneType := cd.classifyCloneType(similarity, distance)",
  "if: cloneType == 0",
  "return: nil",
  "return: &ClonePair{ Fragment1: fragment1, Fragment2: fragment2, Similarity: similarity, Distance: distance, CloneType: cloneType, Confidence: confidence, }"
]

def CloneLoopFacts_compareFragmentsWithClassifier : List String := [
  "if: result == nil",
  "return: nil",
  "assign: distance := cd.analyzer.ComputeDistance(fragment1.TreeNode, fragment2.TreeNode)",
  "assign: similarity := cd.analyzer.ComputeSimilarity(fragment1.TreeNode, fragment2.TreeNode)",
  "assign: cloneType := cd.classifyCloneType(similarity, distance)",
  "if: cloneType == 0",
  "return: nil",
  "return: &ClonePair{ Fragment1: fragment1, Fragment2: fragment2, Similarity: similarity, Distance: distance, CloneType: cloneType, Confidence: result.Confidence, }"
]

def CloneLoopFacts_DetectClonesWithLSH : List String := [
  "if: cd == nil || !cd.cloneDetectorConfig.UseLSH",
  "return: cd.DetectClonesWithContext(ctx, fragments)",
  "assign: cd.clonePairs = []*ClonePair{}",
  "if: isCancelled(ctx)",
  "return: cd.clonePairs, cd.cloneGroups",
  "if: isCancelled(ctx)",
  "return: cd.clonePairs, cd.cloneGroups",
  "range: i, f := cd.fragments",
  "if: f == nil || f.TreeNode == nil",
  "continue",
  "if: len(records) <= 1",
  "return: cd.DetectClonesWithContext(ctx, fragments)",
  "range: _, r := records",
  "assign: minhashThreshold := cd.cloneDetectorConfig.LSHSimilarityThreshold",
  "if: minhashThreshold < 0",
  "assign: minhashThreshold = 0",
  "if: minhashThreshold > 1",
  "assign: minhashThreshold = 1",
  "range: _, r := records",
  "if: isCancelled(ctx)",
  "break",
  "assign: cands := lsh.FindCandidates(r.sig)",
  "range: _, cid := cands",
  "assign: j := idToIndex[cid]",
  "assign: i := r.idx",
  "if: j == i || j < 0 || i < 0",
  "continue",
  "assign: a, b := i, j",
  "if: a > b",
  "assign: a, b = b, a",
  "assign: key := [2]int{a, b}",
  "if: ok",
  "continue",
  "assign: seenPairs[key] = struct{}{}",
  "assign: f1 := cd.fragments[a]",
  "assign: f2 := cd.fragments[b]",
  "if: cd.isOverlappingLocation(f1.Location, f2.Location)",
  "continue",
  "assign: sig1 := sigByIndex[a]",
  "assign: sig2 := sigByIndex[b]",
  "assign: est := hasher.EstimateJaccardSimilarity(sig1, sig2)",
  "if: est < minhashThreshold",
  "continue",
  "if: f1.TreeNode == nil || f2.TreeNode == nil",
  "continue",
  "assign: pair := cd.compareFragments(f1, f2)",
  "if: pair != nil && cd.isSignificantClone(pair)",
  "assign: cd.clonePairs = append(cd.clonePairs, pair)",
  "return: cd.clonePairs, cd.cloneGroups"
]

def CloneLoopFacts_extractFragmentsRecursive : List String := [
  "if: node == nil",
  "return",
  "if: cd.isFragmentCandidate(node)",
  "assign: fragment := NewCodeFragment(location, node, \"\")",
  "if: cd.shouldIncludeFragment(fragment)",
  "assign: *fragments = append(*fragments, fragment)",
  "range: _, child := node.Children",
  "range: _, bodyNode := node.Body",
  "range: _, orelseNode := node.Orelse",
  "range: _, handlerNode := node.Handlers",
  "range: _, finalNode := node.Finalbody"
]

def CloneLoopFacts_isFragmentCandidate : List String := [
  "assign: candidateTypes := []parser.NodeType{ parser.NodeFunctionDef, parser.NodeAsyncFunctionDef, parser.NodeClassDef, parser.NodeFor, parser.NodeAsyncFor, parser.NodeWhile, parser.NodeIf, parser.NodeTry, parser.NodeWith, parser.NodeAsyncWith, }",
  "range: _, candidateType := candidateTypes",
  "if: node.Type == candidateType",
  "return: true",
  "return: false"
]


def LSHFacts_NewLSHIndex : List String := [
  "if: bands <= 0",
  "assign: bands = 32",
  "if: rows <= 0",
  "assign: rows = 4",
  "return: &LSHIndex{ bands: bands, rows: rows, buckets: make(map[string][]string), signatures: make(map[string]*MinHashSignature), }"
]

def LSHFacts_AddFragment : List String := [
  "if: signature == nil || len(signature.signatures) == 0",
  "return: fmt.Errorf(…)",
  "if: id == \"\"",
  "return: fmt.Errorf(…)",
  "return: nil"
]

def LSHFacts_FindCandidates : List String := [
  "if: signature == nil || len(signature.signatures) == 0",
  "return: []string{}",
  "assign: bands := idx.computeBandKeys(signature)",
  "range: _, key := bands",
  "if: ok",
  "range: _, id := bucket",
  "assign: ids[id] = struct{}{}",
  "assign: out := make([]string, 0, len(ids))",
  "range: id, _ := ids",
  "assign: out = append(out, id)",
  "return: out"
]

def LSHFacts_addToBuckets : List String := [
  "assign: keys := idx.computeBandKeys(sig)",
  "range: _, k := keys",
  "assign: exists := false",
  "range: _, v := cur",
  "if: v == id",
  "assign: exists = true",
  "break",
  "if: !exists",
  "assign: idx.buckets[k] = append(cur, id)"
]

def LSHFacts_computeBandKeys : List String := [
  "assign: total := len(sig.signatures)",
  "assign: r := idx.rows",
  "assign: b := idx.bands",
  "if: r <= 0",
  "assign: r = 4",
  "if: b <= 0",
  "assign: b = 32",
  "if: total > 0 && r > total",
  "assign: r = total",
  "assign: maxBands := total / r",
  "if: b > maxBands",
  "assign: b = maxBands",
  "assign: keys := make([]string, 0, b)",
  "forinit: band := 0",
  "for: band < b",
  "forpost: band++",
  "assign: start := band * r",
  "assign: end := start + r",
  "if: end > total",
  "assign: end = total",
  "assign: part := sig.signatures[start:end]",
  "range: _, v := part",
  "assign: key := fmt.Sprintf(\"b:%d:%016x\", band, h.Sum64())",
  "assign: keys = append(keys, key)",
  "return: keys"
]


def MinHashFacts_NewMinHasher : List String := [
  "if: numHashes <= 0",
  "assign: numHashes = 128",
  "return: mh"
]

def MinHashFacts_generateHashFunctions : List String := [
  "assign: rng := rand.New(rand.NewSource(0x5eed_1234_cafe_babe))",
  "forinit: i := 0",
  "for: i < m.numHashes",
  "forpost: i++",
  "assign: ai := rng.Uint64() | 1",
  "assign: bi := rng.Uint64()",
  "forinit: i := 0",
  "for: i < m.numHashes",
  "forpost: i++",
  "assign: ai, bi := a[i], b[i]",
  "assign: m.hashFunctions[i] = func(x uint64) uint64 { return (ai * x) ^ bi + ai + bi }"
]

def MinHashFacts_ComputeSignature : List String := [
  "if: len(features) == 0",
  "return: &MinHashSignature{signatures: make([]uint64, m.numHashes), numHashes: m.numHashes}",
  "range: _, f := features",
  "assign: set[f] = struct{}{}",
  "assign: base := make([]uint64, 0, len(set))",
  "range: f, _ := set",
  "assign: base = append(base, hash64(f))",
  "forinit: i := 0",
  "for: i < m.numHashes",
  "forpost: i++",
  "assign: sig[i] = math.MaxUint64",
  "forinit: i := 0",
  "for: i < m.numHashes",
  "forpost: i++",
  "assign: minv := uint64(math.MaxUint64)",
  "range: _, x := base",
  "assign: v := hi(x)",
  "if: v < minv",
  "assign: minv = v",
  "assign: sig[i] = minv",
  "return: &MinHashSignature{signatures: sig, numHashes: m.numHashes}"
]

def MinHashFacts_EstimateJaccardSimilarity : List String := [
  "if: sig1 == nil || sig2 == nil || len(sig1.signatures) == 0 || len(sig2.signatures) == 0",
  "return: 0.0",
  "assign: n := minInt(len(sig1.signatures), len(sig2.signatures))",
  "if: n == 0",
  "return: 0.0",
  "assign: match := 0",
  "forinit: i := 0",
  "for: i < n",
  "forpost: i++",
  "if: sig1.signatures[i] == sig2.signatures[i]",
  "incdec: match++",
  "return: float64(match) / float64(n)"
]


def CloneServiceFacts_filterClonePairs : List String := [
  "range: _, pair := pairs",
  "if: pair.Similarity < req.MinSimilarity || pair.Similarity > req.MaxSimilarity",
  "continue",
  "assign: typeEnabled := false",
  "range: _, enabledType := req.CloneTypes",
  "if: pair.Type == enabledType",
  "assign: typeEnabled = true",
  "break",
  "if: !typeEnabled",
  "continue",
  "assign: filtered = append(filtered, pair)",
  "return: filtered"
]

def CloneServiceFacts_createDetectorConfig : List String := [
  "assign: groupMode := analyzer.GroupingMode(req.GroupMode)",
  "if: groupMode == \"\"",
  "assign: groupMode = analyzer.GroupingModeConnected",
  "assign: groupThreshold := req.GroupThreshold",
  "if: groupThreshold <= 0",
  "assign: groupThreshold = req.SimilarityThreshold",
  "if: groupThreshold <= 0",
  "assign: groupThreshold = req.Type3Threshold",
  "assign: kVal := req.KCoreK",
  "if: kVal < 2",
  "assign: kVal = 2",
  "return: &analyzer.CloneDetectorConfig{ MinLines: req.MinLines, MinNodes: req.MinNodes, Type1Threshold: req.Type1Threshold, Type2Threshold: req.Type2Threshold, Type3Threshold: req.Type3Threshold, Type4Threshold: req.Type4Threshold, SimilarityThreshold: req.SimilarityThreshold, MaxEditDistance: req.MaxEditDistance, IgnoreLiterals: req.IgnoreLiterals, IgnoreIdentifiers: req.IgnoreIdentifiers, SkipDocstrings: req.SkipDocstrings, CostModelType: \"python\", MaxClonePairs: 10000, BatchSizeThreshold: 50, EnableDFAAnalysis: req.EnableDFA, GroupingMode: groupMode, GroupingThreshold: groupThreshold, KCoreK: kVal, UseLSH: false, LSHSimilarityThreshold: req.LSHSimilarityThreshold, LSHBands: req.LSHBands, LSHRows: req.LSHRows, LSHMinHashCount: req.LSHHashes, }"
]

def CloneServiceFacts_convertCloneType : List String := [
  "switch: cloneType",
  "case: analyzer.Type1Clone",
  "return: domain.Type1Clone",
  "case: analyzer.Type2Clone",
  "return: domain.Type2Clone",
  "case: analyzer.Type3Clone",
  "return: domain.Type3Clone",
  "case: analyzer.Type4Clone",
  "return: domain.Type4Clone",
  "return: domain.Type1Clone"
]


end PV.CloneExpected
