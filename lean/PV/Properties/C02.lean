import PV.Model.StructDead
/-!
# C02 — dead-code completeness for structurally unreachable statements

`structDead` (the specification the oracle evaluates on the parser's AST and compares with the REAL report)
contains exactly what the property lists (adequacy: `C02_after_terminator`, `C02_after_exhaustive`,
`C02_nested_*`), and such statements indeed never run (`C02_stop_sem`, against the nondeterministic
semantics of C01).
-/
namespace PV.C02
open PV.CFG PV.Py PV.SD

theorem deadInBlock_after {pre post : List Stmt} {t : Stmt} (hpre : ∀ x ∈ pre, stops x = false) (ht : stops t = true) :
    deadInBlock (pre ++ t :: post) = linesOfL post := by
  induction pre with
  | nil => simp [deadInBlock, ht]
  | cons x xs ih =>
    have hx : stops x = false := hpre x (by simp)
    simp only [List.cons_append, deadInBlock, hx, Bool.false_eq_true, if_false]
    exact ih (fun y hy => hpre y (by simp [hy]))

theorem linesOfL_mem {l : List Stmt} {x : Stmt} (hx : x ∈ l) : ∀ p ∈ linesOf x, p ∈ linesOfL l := by
  induction l with
  | nil => cases hx
  | cons y ys ih =>
    intro p hp
    rw [linesOfL]
    rcases List.mem_cons.mp hx with rfl | hx
    · exact List.mem_append.mpr (.inl hp)
    · exact List.mem_append.mpr (.inr (ih hx p hp))

/-- the start line of a statement that has one is among the lines to be covered -/
theorem line_mem_linesOf (x : Stmt) (h : (∀ s e a b c d, x ≠ .try_ s e a b c d) ∧ (∀ s e a, x ≠ .elsec s e a)) : Py.Stmt.line x ∈ linesOf x := by
  cases x <;> first | (simp [linesOf, Py.Stmt.line]; done) | (exact absurd rfl (h.1 _ _ _ _ _ _)) | (exact absurd rfl (h.2 _ _ _))

theorem structDead_eq (l : List Stmt) : structDead l = deadInBlock l ++ subDead l := by rw [structDead]

/-- **C02 (after a terminator).** Every statement that follows a return / raise / break / continue in the same
block is in the specification (first such terminator of the block). -/
theorem C02_after_terminator {pre post : List Stmt} {t : Stmt} (hpre : ∀ x ∈ pre, stops x = false) (ht : isTerm t = true) :
    ∀ x ∈ post, ∀ p ∈ linesOf x, p ∈ structDead (pre ++ t :: post) := by
  intro x hx p hp
  have hs : stops t = true := by
    cases t <;> simp_all [stops, isTerm]
  rw [structDead_eq, deadInBlock_after hpre hs]
  exact List.mem_append.mpr (.inl (linesOfL_mem hx p hp))

/-- **C02 (after an exhaustive conditional).** Every statement that follows an if/elif/else all of whose branches end
with a terminator is in the specification. -/
theorem C02_after_exhaustive {pre post : List Stmt} {s e : Nat} {thn orelse : List Stmt}
    (hpre : ∀ x ∈ pre, stops x = false) (h1 : endsTerm thn = true) (h2 : elseEnds orelse = true) :
    ∀ x ∈ post, ∀ p ∈ linesOf x, p ∈ structDead (pre ++ .ite s e thn orelse :: post) := by
  intro x hx p hp
  have hs : stops (.ite s e thn orelse) = true := by simp [stops, h1, h2]
  rw [structDead_eq, deadInBlock_after hpre hs]
  exact List.mem_append.mpr (.inl (linesOfL_mem hx p hp))

theorem subDead_mem {l : List Stmt} {x : Stmt} (hx : x ∈ l) : ∀ p ∈ inStmt x, p ∈ subDead l := by
  induction l with
  | nil => cases hx
  | cons y ys ih =>
    intro p hp
    rw [subDead]
    rcases List.mem_cons.mp hx with rfl | hx
    · exact List.mem_append.mpr (.inl hp)
    · exact List.mem_append.mpr (.inr (ih hx p hp))

/-- **C02 (any enclosing construct).** What is structurally dead in a block nested inside a statement of `l` — branch of
an if / elif / else, loop body or loop else, try body / handler / else / finally, with body, match case, class body —
is structurally dead in `l`. -/
theorem C02_nested {l : List Stmt} {x : Stmt} (hx : x ∈ l) : ∀ p ∈ inStmt x, p ∈ structDead l := by
  intro p hp
  rw [structDead_eq]
  exact List.mem_append.mpr (.inr (subDead_mem hx p hp))

theorem C02_nested_if {s e : Nat} {a b : List Stmt} : ∀ p : Nat, (p ∈ structDead a ∨ p ∈ structDead b) → p ∈ inStmt (.ite s e a b) := by
  intro p hp; rw [inStmt]; exact List.mem_append.mpr hp
theorem C02_nested_loop {s e : Nat} {a b : List Stmt} : ∀ p : Nat, (p ∈ structDead a ∨ p ∈ structDead b) → p ∈ inStmt (.loop s e a b) := by
  intro p hp; rw [inStmt]; exact List.mem_append.mpr hp
theorem C02_nested_try {s e : Nat} {a hs c d : List Stmt} :
    ∀ p : Nat, (p ∈ structDead a ∨ p ∈ subDead hs ∨ p ∈ structDead c ∨ p ∈ structDead d) → p ∈ inStmt (.try_ s e a hs c d) := by
  intro p hp; rw [inStmt]; simp only [List.mem_append]
  rcases hp with h | h | h | h
  · exact .inl (.inl (.inl h))
  · exact .inl (.inl (.inr h))
  · exact .inl (.inr h)
  · exact .inr h

/-! ## such statements never run -/

theorem term_not_normal {l : List Stmt} {o : Out} {t : List Nat} (h : Exec l o t) :
    ∀ x, l = [x] → isTerm x = true → o ≠ .normal := by
  induction h with
  | nil => intro x hx; cases hx
  | seqN _ _ ih₁ _ =>
    intro x hx ht
    injection hx with hx1 hx2
    subst hx1
    exact absurd rfl (ih₁ _ rfl ht)
  | seqS _ ho _ => intro _ _ _; exact ho
  | _ =>
    intro x hx ht
    cases hx
    first
      | (simp [isTerm] at ht; done)
      | (intro hc; cases hc)

theorem getLast?_cons_cons {α} (a b : α) (l : List α) : (a :: b :: l).getLast? = (b :: l).getLast? := by
  simp [List.getLast?_cons_cons]

theorem endsTerm_not_normal {l : List Stmt} {o : Out} {t : List Nat} (h : Exec l o t) : endsTerm l = true → o ≠ .normal := by
  induction h with
  | nil => intro he; simp [endsTerm] at he
  | @seqN x ss o t₁ t₂ h₁ _ _ ih₂ =>
    intro he
    cases ss with
    | nil =>
      have : isTerm x = true := by simpa [endsTerm] using he
      exact absurd rfl (term_not_normal h₁ x rfl this)
    | cons y ys =>
      apply ih₂
      unfold endsTerm at *
      rwa [getLast?_cons_cons] at he
  | seqS _ ho _ => intro _; exact ho
  | _ =>
    intro he
    first
      | (simp [endsTerm, isTerm] at he; done)
      | (intro hc; cases hc)

theorem elseEnds_elif (s e : Nat) (thn orelse : List Stmt) :
    elseEnds [.elifc s e thn orelse] = (endsTerm thn && elseEnds orelse) := by rw [elseEnds]
theorem elseEnds_else (s e : Nat) (body : List Stmt) : elseEnds [.elsec s e body] = endsTerm body := by rw [elseEnds]
theorem elseEnds_two (x y : Stmt) (l : List Stmt) : elseEnds (x :: y :: l) = false := by
  rw [elseEnds]
  all_goals (intros; simp_all)

theorem elseEnds_not_normal {l : List Stmt} {o : Out} {t : List Nat} (h : Exec l o t) : elseEnds l = true → o ≠ .normal := by
  induction h with
  | nil => intro he; rw [elseEnds] at he <;> simp_all
  | @seqN x ss o t₁ t₂ _ _ ih₁ _ =>
    intro he
    cases ss with
    | nil => exact absurd rfl (ih₁ he)
    | cons y ys => rw [elseEnds_two] at he; cases he
  | seqS _ ho _ => intro _; exact ho
  | elifExc => intro _ hc; cases hc
  | elifThen h _ =>
    intro he
    rw [elseEnds_elif, Bool.and_eq_true] at he
    exact endsTerm_not_normal h he.1
  | elifElse _ ih =>
    intro he
    rw [elseEnds_elif, Bool.and_eq_true] at he
    exact ih he.2
  | elsec h _ =>
    intro he
    rw [elseEnds_else] at he
    exact endsTerm_not_normal h he
  | _ =>
    intro he
    first
      | (rw [elseEnds] at he <;> simp_all; done)
      | (intro hc; cases hc)

theorem stops_not_normal {l : List Stmt} {o : Out} {t : List Nat} (h : Exec l o t) :
    ∀ x, l = [x] → stops x = true → o ≠ .normal := by
  induction h with
  | nil => intro x hx; cases hx
  | seqN _ _ ih₁ _ =>
    intro x hx ht
    cases hx
    exact absurd rfl (ih₁ _ rfl ht)
  | seqS _ ho _ => intro _ _ _; exact ho
  | iteExc => intro _ _ _ hc; cases hc
  | iteThen h _ =>
    intro x hx ht
    cases hx
    simp only [stops, Bool.and_eq_true] at ht
    exact endsTerm_not_normal h ht.1
  | iteElse h _ =>
    intro x hx ht
    cases hx
    simp only [stops, Bool.and_eq_true] at ht
    exact elseEnds_not_normal h ht.2
  | _ =>
    intro x hx ht
    cases hx
    first
      | (simp [stops, isTerm] at ht; done)
      | (intro hc; cases hc)

/-- **C02 (semantics).** After a statement that stops the block (a terminator, or an if/elif/else all of whose
branches end with one) the rest of the block never runs: any execution of `x :: rest` is an execution of `x`
alone, and it does not complete normally. -/
theorem C02_stop_sem {x : Stmt} {rest : List Stmt} {o : Out} {tr : List Nat} (hs : stops x = true)
    (h : Exec (x :: rest) o tr) : Exec [x] o tr ∧ o ≠ .normal := by
  cases rest with
  | nil => exact ⟨h, stops_not_normal h x rfl hs⟩
  | cons y ys =>
    cases h with
    | seqN h₁ _ => exact absurd rfl (stops_not_normal h₁ _ rfl hs)
    | seqS h₁ ho => exact ⟨h₁, ho⟩

end PV.C02
