import PV.Model.Files
import Mathlib.Data.List.Nodup
/-!
# C18 — file selection depends on the files, not on how the path is spelled
-/
namespace PV.C18
open PV.Files

/-- **Spelling.** However the target directory is spelled (any prefix `pre`: `.`, a relative path, an absolute path, with `..`), the
files the implementation returns are, once the prefix is taken off again, exactly `select` of the tree. -/
theorem C18_spelling (pre : List String) (tree : List (List String)) (recursive : Bool) (inc exc : List String) :
    (collect pre tree recursive inc exc).map (fun p => p.drop pre.length) = select tree recursive inc exc := by
  unfold collect select
  induction tree with
  | nil => rfl
  | cons rel tree ih =>
    simp only [List.map_cons, List.filter_cons, List.drop_left]
    split
    · simp only [List.map_cons, List.drop_left]; rw [ih]
    · exact ih

/-- two spellings of the same directory select the same files -/
theorem C18_spelling_pair (pre₁ pre₂ : List String) (tree : List (List String)) (recursive : Bool) (inc exc : List String) :
    (collect pre₁ tree recursive inc exc).map (fun p => p.drop pre₁.length) =
    (collect pre₂ tree recursive inc exc).map (fun p => p.drop pre₂.length) := by
  rw [C18_spelling, C18_spelling]

/-- **Exactly** the visible Python files under the target that match an include pattern (any file when there is none) and no exclude pattern … -/
theorem C18_exact (tree : List (List String)) (recursive : Bool) (inc exc : List String) (rel : List String) :
    rel ∈ select tree recursive inc exc ↔
      rel ∈ tree ∧ isPy (rel.getLast?.getD "") = true ∧ visible rel = true ∧ (recursive = true ∨ rel.length = 1) ∧
      (∀ p ∈ exc, matchesPattern p rel = false) ∧ (inc = [] ∨ ∃ p ∈ inc, matchesPattern p rel = true) := by
  unfold select selectOne included
  simp only [List.mem_filter, Bool.and_eq_true, Bool.or_eq_true, Bool.not_eq_true', List.any_eq_false, List.any_eq_true,
    List.isEmpty_iff, beq_iff_eq]
  constructor
  · rintro ⟨h1, ⟨⟨h2, h3⟩, h4⟩, h5, h6⟩
    exact ⟨h1, h2, h3, h4, fun p hp => by simpa using h5 p hp, h6⟩
  · rintro ⟨h1, h2, h3, h4, h5, h6⟩
    exact ⟨h1, ⟨⟨h2, h3⟩, h4⟩, fun p hp => by simpa using h5 p hp, h6⟩

/-- … each file once -/
theorem C18_once (tree : List (List String)) (h : tree.Nodup) (recursive : Bool) (inc exc : List String) :
    (select tree recursive inc exc).Nodup := h.sublist List.filter_sublist

theorem C18_once_spelled (pre : List String) (tree : List (List String)) (h : tree.Nodup) (recursive : Bool) (inc exc : List String) :
    (collect pre tree recursive inc exc).Nodup := by
  unfold collect
  refine (List.Nodup.map ?_ h).sublist List.filter_sublist
  intro a b hab; exact List.append_cancel_left hab

/-- **Depth.** A pattern without a slash (the default `test_*.py`, `*_test.py`, `*.pyi`) sees only the file name: it applies to a
matching file at any depth. -/
theorem C18_depth (pattern : String) (h : pattern.contains '/' = false) (dirs : List String) (f : String) :
    matchesPattern pattern (dirs ++ [f]) = matchesPattern pattern [f] := by
  unfold matchesPattern
  simp [h]

/-- a `**/…` pattern applies at any depth as well -/
theorem C18_doublestar_depth (ps cs : List String) (d : String) (h : globComps ("**" :: ps) cs = true) :
    globComps ("**" :: ps) (d :: cs) = true := by
  rw [globComps]
  simp [h]

/-- a single component that is not `**` never matches across a directory separator -/
theorem C18_star_one_level (p : String) (hp : (p == "**") = false) (cs : List String) (h : globComps [p] cs = true) : ∃ c, cs = [c] := by
  cases cs with
  | nil => rw [globComps] at h; simp [hp] at h
  | cons c cs =>
    rw [globComps] at h
    simp only [hp, Bool.false_eq_true, if_false, Bool.and_eq_true] at h
    cases cs with
    | nil => exact ⟨c, rfl⟩
    | cons c' cs => rw [globComps] at h; simp at h

end PV.C18
