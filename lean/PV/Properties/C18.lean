import PV.Model.Files
import Mathlib.Data.List.Nodup
/-!
# C18 — file selection depends on the files, not on how the path is spelled
-/
namespace PV.C18
open PV.Files

/-- **Spelling.** However the target directory is spelled (any prefix `pre`: `.`, a relative path, an absolute path, with `..`), the
files the implementation returns are, once the prefix is taken off again, exactly `select` of the tree. -/
theorem C18_spelling (pre : List String) (tree : List (List String)) (recursive : Bool) (inc exc : List String) :
    (collect pre tree recursive inc exc).map (fun p => p.drop pre.length) = select tree recursive inc exc := by
  unfold collect select
  induction tree with
  | nil => rfl
  | cons rel tree ih =>
    simp only [List.map_cons, List.filter_cons, List.drop_left]
    split
    · simp only [List.map_cons, List.drop_left]; rw [ih]
    · exact ih

/-- two spellings of the same directory select the same files -/
theorem C18_spelling_pair (pre₁ pre₂ : List String) (tree : List (List String)) (recursive : Bool) (inc exc : List String) :
    (collect pre₁ tree recursive inc exc).map (fun p => p.drop pre₁.length) =
    (collect pre₂ tree recursive inc exc).map (fun p => p.drop pre₂.length) := by
  rw [C18_spelling, C18_spelling]

/-- **Exactly** the visible Python files under the target that match an include pattern (any file when there is none) and no exclude pattern … -/
theorem C18_exact (tree : List (List String)) (recursive : Bool) (inc exc : List String) (rel : List String) :
    rel ∈ select tree recursive inc exc ↔
      rel ∈ tree ∧ isPy (rel.getLast?.getD "") = true ∧ visible rel = true ∧ (recursive = true ∨ rel.length = 1) ∧
      (∀ p ∈ exc, matchesPattern p rel = false) ∧ (inc = [] ∨ ∃ p ∈ inc, matchesPattern p rel = true) := by
  unfold select selectOne included
  simp only [List.mem_filter, Bool.and_eq_true, Bool.or_eq_true, Bool.not_eq_true', List.any_eq_false, List.any_eq_true,
    List.isEmpty_iff, beq_iff_eq]
  constructor
  · rintro ⟨h1, ⟨⟨h2, h3⟩, h4⟩, h5, h6⟩
    exact ⟨h1, h2, h3, h4, fun p hp => by simpa using h5 p hp, h6⟩
  · rintro ⟨h1, h2, h3, h4, h5, h6⟩
    exact ⟨h1, ⟨⟨h2, h3⟩, h4⟩, fun p hp => by simpa using h5 p hp, h6⟩

/-- … each file once -/
theorem C18_once (tree : List (List String)) (h : tree.Nodup) (recursive : Bool) (inc exc : List String) :
    (select tree recursive inc exc).Nodup := h.sublist List.filter_sublist

theorem C18_once_spelled (pre : List String) (tree : List (List String)) (h : tree.Nodup) (recursive : Bool) (inc exc : List String) :
    (collect pre tree recursive inc exc).Nodup := by
  unfold collect
  refine (List.Nodup.map ?_ h).sublist List.filter_sublist
  intro a b hab; exact List.append_cancel_left hab

/-- **Depth.** A pattern without a slash (the default `test_*.py`, `*_test.py`, `*.pyi`) sees only the file name: it applies to a
matching file at any depth. -/
theorem C18_depth (pattern : String) (h : pattern.contains '/' = false) (dirs : List String) (f : String) :
    matchesPattern pattern (dirs ++ [f]) = matchesPattern pattern [f] := by
  unfold matchesPattern
  simp [h]

/-- a `**/…` pattern applies at any depth as well -/
theorem C18_doublestar_depth (ps cs : List String) (d : String) (h : globComps ("**" :: ps) cs = true) :
    globComps ("**" :: ps) (d :: cs) = true := by
  rw [globComps]
  simp [h]

/-- a single component that is not `**` never matches across a directory separator -/
theorem C18_star_one_level (p : String) (hp : (p == "**") = false) (cs : List String) (h : globComps [p] cs = true) : ∃ c, cs = [c] := by
  cases cs with
  | nil => rw [globComps] at h; simp [hp] at h
  | cons c cs =>
    rw [globComps] at h
    simp only [hp, Bool.false_eq_true, if_false, Bool.and_eq_true] at h
    cases cs with
    | nil => exact ⟨c, rfl⟩
    | cons c' cs => rw [globComps] at h; simp at h

theorem mem_foldl_addFile (l : List (List String)) : ∀ (acc : List (List String)) (x : List String),
    x ∈ l.foldl addFile acc ↔ x ∈ acc ∨ x ∈ l := by
  induction l with
  | nil => intro acc x; simp
  | cons a l ih =>
    intro acc x
    rw [List.foldl_cons, ih]
    unfold addFile
    split
    · next h =>
      have ha : a ∈ acc := by simpa using h
      constructor
      · rintro (h1 | h1)
        · exact Or.inl h1
        · exact Or.inr (List.mem_cons_of_mem _ h1)
      · rintro (h1 | h1)
        · exact Or.inl h1
        · rcases List.mem_cons.mp h1 with rfl | h2
          · exact Or.inl ha
          · exact Or.inr h2
    · simp only [List.mem_append, List.mem_singleton, List.mem_cons]
      tauto

theorem nodup_foldl_addFile (l : List (List String)) : ∀ (acc : List (List String)), acc.Nodup → (l.foldl addFile acc).Nodup := by
  induction l with
  | nil => intro acc h; exact h
  | cons a l ih =>
    intro acc h
    rw [List.foldl_cons]
    apply ih
    unfold addFile
    split
    · exact h
    · next hc =>
      have : a ∉ acc := by simpa using hc
      exact List.nodup_append.mpr ⟨h, List.nodup_singleton a, by
        intro x hx y hy; rw [List.mem_singleton.mp hy]; exact fun hxy => this (hxy ▸ hx)⟩

/-- **Several targets: each file once**, and exactly the union of what the targets select on their own (overlapping, nested or repeated
targets included). -/
theorem C18_many (targets : List (List String × List (List String))) (recursive : Bool) (inc exc : List String) :
    (collectMany targets recursive inc exc).Nodup ∧
    ∀ x, x ∈ collectMany targets recursive inc exc ↔ ∃ t ∈ targets, ∃ rel ∈ select t.2 recursive inc exc, x = t.1 ++ rel := by
  unfold collectMany
  refine ⟨nodup_foldl_addFile _ [] List.nodup_nil, fun x => ?_⟩
  rw [mem_foldl_addFile]
  simp only [List.not_mem_nil, false_or, List.mem_flatMap, List.mem_map]
  constructor
  · rintro ⟨t, ht, rel, hrel, rfl⟩; exact ⟨t, ht, rel, hrel, rfl⟩
  · rintro ⟨t, ht, rel, hrel, rfl⟩; exact ⟨t, ht, rel, hrel, rfl⟩

end PV.C18
