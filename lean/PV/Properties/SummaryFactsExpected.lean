/-! Expected fact tables for the summary/filter loops of the report sections (reviewed against /repo at the pinned commit); the regenerated
tables in PV.Generated.* must equal these (`C16_facts`). -/
namespace PV.SummaryExpected

def CxSummaryFacts_filterFunctions : List String := [
  "range: _, function := functions",
  "if: function.Metrics.Complexity < req.MinComplexity",
  "continue",
  "assign: filtered = append(filtered, function)",
  "return: filtered"
]

def CxSummaryFacts_generateSummary : List String := [
  "if: len(functions) == 0",
  "return: domain.ComplexitySummary{ FilesAnalyzed: filesAnalyzed, }",
  "assign: minComplexity := functions[0].Metrics.Complexity",
  "range: _, function := functions",
  "assign: complexity := function.Metrics.Complexity",
  "assign: totalComplexity += complexity",
  "if: complexity > maxComplexity",
  "assign: maxComplexity = complexity",
  "if: complexity < minComplexity",
  "assign: minComplexity = complexity",
  "switch: function.RiskLevel",
  "case: domain.RiskLevelLow",
  "incdec: lowCount++",
  "case: domain.RiskLevelMedium",
  "incdec: mediumCount++",
  "case: domain.RiskLevelHigh",
  "incdec: highCount++",
  "assign: distKey := s.getComplexityDistributionKey(complexity)",
  "incdec: complexityDist[distKey]++",
  "assign: avgComplexity := float64(totalComplexity) / float64(len(functions))",
  "return: domain.ComplexitySummary{ TotalFunctions: len(functions), AverageComplexity: avgComplexity, MaxComplexity: maxComplexity, MinComplexity: minComplexity, FilesAnalyzed: filesAnalyzed, LowRiskFunctions: lowCount, MediumRiskFunctions: mediumCount, HighRiskFunctions: highCount, ComplexityDistribution: complexityDist, }"
]

def CxSummaryFacts_calculateRiskLevel : List String := [
  "if: complexity <= req.LowThreshold",
  "return: domain.RiskLevelLow",
  "if: complexity <= req.MediumThreshold",
  "return: domain.RiskLevelMedium",
  "return: domain.RiskLevelHigh"
]


def DeadSummaryFacts_filterFiles : List String := [
  "range: _, file := files",
  "range: _, function := file.Functions",
  "if: function.HasFindingsAtSeverity(req.MinSeverity)",
  "assign: filteredFunctions = append(filteredFunctions, function)",
  "if: len(filteredFunctions) > 0",
  "assign: filteredFile := file",
  "assign: filteredFile.Functions = filteredFunctions",
  "assign: filteredFile.TotalFindings = s.countTotalFindings(filteredFunctions)",
  "assign: filteredFile.AffectedFunctions = len(filteredFunctions)",
  "assign: filtered = append(filtered, filteredFile)",
  "return: filtered"
]

def DeadSummaryFacts_filterFindingsBySeverity : List String := [
  "range: _, finding := findings",
  "if: finding.Severity.IsAtLeast(minSeverity)",
  "assign: filtered = append(filtered, finding)",
  "return: filtered"
]

def DeadSummaryFacts_generateSummary : List String := [
  "range: _, file := files",
  "assign: summary.TotalFunctions += file.TotalFunctions",
  "assign: summary.FunctionsWithDeadCode += file.AffectedFunctions",
  "range: _, function := file.Functions",
  "assign: summary.TotalFindings += len(function.Findings)",
  "assign: summary.CriticalFindings += function.CriticalCount",
  "assign: summary.WarningFindings += function.WarningCount",
  "assign: summary.InfoFindings += function.InfoCount",
  "assign: summary.TotalBlocks += function.TotalBlocks",
  "assign: summary.DeadBlocks += function.DeadBlocks",
  "range: _, finding := function.Findings",
  "if: summary.TotalBlocks > 0",
  "assign: summary.OverallDeadRatio = float64(summary.DeadBlocks) / float64(summary.TotalBlocks)",
  "return: summary"
]


def CBOSummaryFacts_filterClasses : List String := [
  "range: _, class := classes",
  "if: class.Metrics.CouplingCount < req.MinCBO",
  "continue",
  "if: req.MaxCBO > 0 && class.Metrics.CouplingCount > req.MaxCBO",
  "continue",
  "if: !domain.BoolValue(req.ShowZeros, false) && class.Metrics.CouplingCount == 0",
  "continue",
  "assign: filtered = append(filtered, class)",
  "return: filtered"
]

def CBOSummaryFacts_generateSummary : List String := [
  "if: len(classes) == 0",
  "return: domain.CBOSummary{ FilesAnalyzed: filesAnalyzed, }",
  "assign: totalCBO := 0",
  "assign: minCBO := classes[0].Metrics.CouplingCount",
  "assign: maxCBO := classes[0].Metrics.CouplingCount",
  "range: _, class := classes",
  "assign: totalCBO += cbo",
  "if: cbo < minCBO",
  "assign: minCBO = cbo",
  "if: cbo > maxCBO",
  "assign: maxCBO = cbo",
  "switch: class.RiskLevel",
  "case: domain.RiskLevelLow",
  "case: domain.RiskLevelMedium",
  "case: domain.RiskLevelHigh",
  "assign: summary.AverageCBO = float64(totalCBO) / float64(len(classes))",
  "assign: summary.MinCBO = minCBO",
  "assign: summary.MaxCBO = maxCBO",
  "if: len(sortedByCount) < maxTopClasses",
  "assign: summary.MostCoupledClasses = sortedByCount[:maxTopClasses]",
  "return: summary"
]


def LCOMSummaryFacts_filterClasses : List String := [
  "range: _, class := classes",
  "if: class.Metrics.LCOM4 < req.MinLCOM",
  "continue",
  "if: req.MaxLCOM > 0 && class.Metrics.LCOM4 > req.MaxLCOM",
  "continue",
  "assign: filtered = append(filtered, class)",
  "return: filtered"
]

def LCOMSummaryFacts_generateSummary : List String := [
  "if: len(classes) == 0",
  "return: domain.LCOMSummary{ FilesAnalyzed: filesAnalyzed, }",
  "assign: totalLCOM := 0",
  "assign: minLCOM := classes[0].Metrics.LCOM4",
  "assign: maxLCOM := classes[0].Metrics.LCOM4",
  "range: _, class := classes",
  "assign: totalLCOM += lcom",
  "if: lcom < minLCOM",
  "assign: minLCOM = lcom",
  "if: lcom > maxLCOM",
  "assign: maxLCOM = lcom",
  "switch: class.RiskLevel",
  "case: domain.RiskLevelLow",
  "case: domain.RiskLevelMedium",
  "case: domain.RiskLevelHigh",
  "assign: summary.AverageLCOM = float64(totalLCOM) / float64(len(classes))",
  "assign: summary.MinLCOM = minLCOM",
  "assign: summary.MaxLCOM = maxLCOM",
  "if: len(sortedByLCOM) < maxTopClasses",
  "assign: summary.LeastCohesiveClasses = sortedByLCOM[:maxTopClasses]",
  "return: summary"
]


def CloneStatsFacts_createStatistics : List String := [
  "assign: stats.TotalFragments = totalFragments",
  "assign: stats.TotalClones = len(clones)",
  "assign: stats.TotalClonePairs = len(pairs)",
  "assign: stats.TotalCloneGroups = len(groups)",
  "assign: stats.FilesAnalyzed = filesAnalyzed",
  "assign: stats.LinesAnalyzed = linesAnalyzed",
  "assign: stats.NodesAnalyzed = nodesAnalyzed",
  "range: _, pair := pairs",
  "assign: typeStr := pair.Type.String()",
  "if: len(pairs) > 0",
  "assign: totalSimilarity := 0.0",
  "range: _, pair := pairs",
  "assign: totalSimilarity += pair.Similarity",
  "assign: stats.AverageSimilarity = totalSimilarity / float64(len(pairs))",
  "return: stats"
]


end PV.SummaryExpected
