import PV.Proofs.CFGRangesC02
/-!
# C02 (extension) — every structurally dead statement lies INSIDE a range reported by the dead-code detector of the CFG mirror

`findings (build k s e body)` is the detector's output: for every block that the mirror's search does not reach and that holds at
least one statement record, the range *start line of the OLDEST record stored in the block … END line of the NEWEST record stored in
it*.  C02 says that a structurally dead statement (`structDead`, PV/Model/StructDead.lean) must be REPORTED, i.e. covered by such a
range.  The record-level theorem `C02_mirror_complete` (C02x) shows that every structurally dead line `l` (except the heads of `elif`
clauses) has a record `r` with `r.s = l` in an unreachable block `B`; it does not say that `l` lies in the range reported for `B` —
the range is computed from OTHER records of `B` (the oldest and the newest one).  The theorems below close this gap for ALL programs
of the fragment:

* `C02_ranges_complete` (all kinds of definitions, `WFDef`) / `C02_ranges_complete_fn` (functions and modules, `WFLoc`) —
  a structurally dead line is the head of an `elif` clause or lies inside a reported range;
* `C02_ranges_complete_noelif` — no exemption for programs without `elif` clauses;
* `C02_ranges_cover_records` — in terms of the mirror's own output: EVERY record of an unreachable block (located or not) starts
  inside the range reported for its block;
* `C02_block_records_ordered` — the fact about the record list behind it: the start line of every record of a block lies between the
  start line of the oldest and the end line of the newest record of the block;
* `C02_zero_record_first` — the new builder invariant: a record with end line 0 (the test of a converted `elif`) is the OLDEST
  record of its block (with `GZ` from C01y: the ONLY one);
* `C02_ranges_cover_span` — if the record of a statement is the NEWEST record of an unreachable block, the whole span `s … e` of the
  statement lies inside the reported range (the mechanism that covers `elif` heads, see below).

**Severity.**  Every finding of the mirror carries `critical : Bool` (`isCritical`, pyscn's `determineDeadCodeReason`): a finding is
reported with severity *critical* or *warning*, never lower.  The report's default minimum severity is *warning*, so every element of
`findings` is shown, whatever `critical` is: C02 needs the EXISTENCE of a covering finding only, and nothing about `critical` has to
be proved (the theorems below do not mention it).

**Hypotheses.**
* `okC2 body = okLC false body && noSEL body`:
  - `okLC false`: exactly the fragment of the record-level theorem `C02_mirror_complete` (both of its restrictions are necessary, C02x);
  - `noSEL`: NO STANDALONE `elif` CLAUSE — an `elifc` node occurs only as the single element of the `orelse` list of an `if` / `elif`
    (the only place where the parser produces one).  Necessary: `procStmt (.elifc …)` ("unexpected elif_clause as standalone
    statement") stores the converted test with location `0..0` in the CURRENT block; if that block is a dead block that already holds
    located records, the `0..0` record becomes its newest record and the block is reported with the range `start … 0`, which covers
    no line: the dead statements of the block are NOT reported (`ryStandalone`, evaluated below; `C02_noSEL_needed_records` shows the
    shape of the record list).
* `WFLoc body` / `WFDef k s e body` (decidable): the well-formedness of the source spans of C01y — one statement per line, `s ≤ e`,
  start lines ≥ 1, children inside the parent in source order.  Used for: records are stored in source order (`Rel.ord`, from the
  range-level soundness development `build_rq`), `s ≤ e` for every record, no located span ends at line 0.
* `elif` heads (`elifL`).  The builder stores the test of a converted `elif` with `0..0`, so there is no record with `r.s = l` for the
  head `l` of an `elif` clause, `C02_mirror_complete` exempts these lines, and so does `C02_ranges_complete`.
  What is NOT proved here: the statement without the exemption on programs WITH `elif` clauses.  The argument would be: an `elif`
  head inside dead code lies inside the span `s … e` of its `if` statement, whose test record `r` (`r.s = s`, `r.e = e`) is in an
  unreachable block and is the NEWEST record of that block (after the test, `procIf` only stores into blocks it allocates, and the
  block is never current again), so `C02_ranges_cover_span` applies.  `C02_ranges_cover_span` is proved; the missing ingredient is
  the builder invariant "the test record of an `if` statement is the newest record of its block" for the final record list (the
  records carry no tag that identifies `if` tests, so it needs a further induction over the builder with the spans of the `if`
  statements as a parameter).  All evaluated examples below (`ryElif`, `ryElifNested`) confirm that the `elif` heads are covered.

**Why it holds** (`PV/Proofs/CFGRangesC02*.lean`).  Let `r` be a record of an unreachable block `B`.  `B` is not empty, so it is
reported with `start = ` start line of its oldest record and `stop = ` end line of its newest record `h`.  The records of `B` are
one consecutive segment of the record list (`GZ`, C01y) and located records are stored in source order (`Rel.ord`, C01y), hence
`start ≤ r.s`.  If `h = r` then `r.s ≤ r.e = stop`.  Otherwise `h` is newer than `r`; `h.e ≠ 0`, because a record with end line 0 is
the oldest of its block (`ZF`, proved by a new induction over the builder, `CFGRangesC02Ind`: the only place where a `0..0` record
is stored without a standalone `elif` is `procIfElif` called for the `elif` clause of a chain, in the block allocated just before);
so `h` is located, `r.s ≤ h.s ≤ h.e = stop`.
-/
namespace PV.C02
open PV.CFG PV.SD PV.CFGSound

/-- **C02 for the reported ranges**: a structurally dead line is the head of an `elif` clause or lies inside a reported range -/
theorem C02_ranges_complete (k : Kind) (s e : Nat) (body : List Stmt) (hok : okC2 body = true) (hwf : WFDef k s e body) :
    ∀ l ∈ structDead body, l ∈ elifL body ∨ ∃ f ∈ findings (build k s e body), f.s ≤ l ∧ l ≤ f.e := by
  unfold okC2 at hok
  rw [Bool.and_eq_true] at hok
  exact mirror_ranges_complete k s e body hok.1 hok.2 hwf

/-- the same with the two parts of the fragment as separate hypotheses (the form of the task statement plus `noSEL`) -/
theorem C02_ranges_complete' (k : Kind) (s e : Nat) (body : List Stmt) (hok : okLC false body = true) (hno : noSEL body = true)
    (hwf : WFDef k s e body) :
    ∀ l ∈ structDead body, l ∈ elifL body ∨ ∃ f ∈ findings (build k s e body), f.s ≤ l ∧ l ≤ f.e :=
  mirror_ranges_complete k s e body hok hno hwf

/-- for functions and modules `WFLoc body` is all that is needed -/
theorem C02_ranges_complete_fn (k : Kind) (hk : k ≠ .cls) (s e : Nat) (body : List Stmt) (hok : okC2 body = true) (hwf : WFLoc body) :
    ∀ l ∈ structDead body, l ∈ elifL body ∨ ∃ f ∈ findings (build k s e body), f.s ≤ l ∧ l ≤ f.e :=
  C02_ranges_complete k s e body hok (WFDef.of_wfloc s e hk hwf)

/-- **no exemption** for programs without `elif` clauses: every structurally dead line lies inside a reported range -/
theorem C02_ranges_complete_noelif (k : Kind) (s e : Nat) (body : List Stmt) (hok : okC2 body = true) (hwf : WFDef k s e body)
    (hne : elifL body = []) :
    ∀ l ∈ structDead body, ∃ f ∈ findings (build k s e body), f.s ≤ l ∧ l ≤ f.e := by
  intro l hl
  rcases C02_ranges_complete k s e body hok hwf l hl with h | h
  · rw [hne] at h; cases h
  · exact h

/-- in terms of the mirror's own output: every record of an unreachable block starts inside a reported range -/
theorem C02_ranges_cover_records (k : Kind) (s e : Nat) (body : List Stmt) (hok : okC2 body = true) (hwf : WFDef k s e body) :
    ∀ r ∈ (build k s e body).stmts, r.blk ∉ reachable (build k s e body) →
      ∃ f ∈ findings (build k s e body), f.s ≤ r.s ∧ r.s ≤ f.e := by
  unfold okC2 at hok
  rw [Bool.and_eq_true] at hok
  exact ranges_cover_records k s e body hok.1 hok.2 hwf

/-- if the record of a statement is the NEWEST record of an unreachable block (no newer record `a` is in its block), every line of
the span of the statement lies inside a reported range -/
theorem C02_ranges_cover_span (k : Kind) (s e : Nat) (body : List Stmt) (hok : okC2 body = true) (hwf : WFDef k s e body)
    {a c : List SRec} {r : SRec} (hL : (build k s e body).stmts = a ++ r :: c) (ha : ∀ x ∈ a, x.blk ≠ r.blk)
    (hd : r.blk ∉ reachable (build k s e body)) :
    ∀ l, r.s ≤ l → l ≤ r.e → ∃ f ∈ findings (build k s e body), f.s ≤ l ∧ l ≤ f.e := by
  unfold okC2 at hok
  rw [Bool.and_eq_true] at hok
  exact ranges_cover_span k s e body hok.1 hok.2 hwf hL ha hd

/-- **the records of one block are ordered**: for a record list (newest first) whose blocks are consecutive segments (`GZ`), whose
located records are in source order (`Rel`), whose `0..0` records are the oldest of their blocks (`ZF`) and whose records satisfy
`s ≤ e`: the start line of every record lies between `start` (start line of the oldest record of its block) and `stop` (end line of
the newest record of its block) of the block summary that `findings` uses -/
theorem C02_block_records_ordered {E : List Edge} {L : List SRec} (hgz : GZ L) (hpw : L.Pairwise (Rel E)) (hzf : ZF L)
    (hval : ∀ r ∈ L, r.s = 0 → r.e = 0) (hse : ∀ r ∈ L, r.s ≤ r.e) {r : SRec} (hr : r ∈ L) :
    (infoR r.blk L).nonEmpty = true ∧ (infoR r.blk L).start ≤ r.s ∧ r.s ≤ (infoR r.blk L).stop :=
  block_range hgz hpw hzf hval hse hr

/-- the block summary that `findings` uses is `infoR` of the record list -/
theorem C02_blockInfo (st : St) {b : Nat} (hb : b < st.next) : (blockInfo st).getD b {} = infoR b st.stmts := blockInfo_getD st hb

/-- **a record with end line 0 is the oldest record of its block** (`ZF`) in the final record list of every definition of the fragment -/
theorem C02_zero_record_first (k : Kind) (s e : Nat) (body : List Stmt) (hok : okC2 body = true) (hwf : WFDef k s e body) :
    ZF (build k s e body).stmts := by
  unfold okC2 at hok
  rw [Bool.and_eq_true] at hok
  exact build_zf k s e body hok.1 hok.2 (build_nz hwf) (fun hk => by subst hk; have := hwf.1; have := hwf.2.1; omega)

/-- the invariant for statement lists, from every well-formed builder state -/
theorem C02_zero_record_invariant (ss : List Stmt) (il : Bool) (st : St) (w : WF st) (hok : okLC il ss = true) (hno : noSEL ss = true)
    (hnz : ∀ sp ∈ spansL ss, sp.2 ≠ 0) (hz : ZF st.stmts) : ZF (procList st ss).stmts :=
  procList_zf ss il st w hok hno hnz hz

/-- every finding of the mirror is reported as *critical* or as *warning* — there is no third case, so with the default minimum
severity *warning* every finding is shown (nothing else about the severity is needed for C02) -/
theorem C02_severity_two_valued (f : Finding) : f.critical = true ∨ f.critical = false := by
  cases f.critical
  · exact .inr rfl
  · exact .inl rfl

/-! ### evaluated examples -/

/-- every line of `ls` lies inside some range of `fs` -/
def covered (ls : List Nat) (fs : List Finding) : Bool := ls.all (fun l => fs.any (fun f => decide (f.s ≤ l) && decide (l ≤ f.e)))
def rangesOf (fs : List Finding) : List (Nat × Nat) := fs.map (fun f => (f.s, f.e))
def wfloc1 (body : List Stmt) : Bool := wfL 1 body

/-- a function with `return` followed by two statements
```
2  x = 1
3  return x
4  y = 2          # dead
5  z = 3          # dead
``` -/
def ryReturn : List Stmt := [.simple 2 2 [] false, .ret 3 3 [] false, .simple 4 4 [] false, .simple 5 5 [] false]
#guard okC2 ryReturn && wfloc1 ryReturn
#guard structDead ryReturn == [4, 5] && rangesOf (findings (build .func 1 5 ryReturn)) == [(4, 5)]
#guard covered (structDead ryReturn) (findings (build .func 1 5 ryReturn))

/-- an exhaustive `if` / `elif` / `else` with terminators, followed by a statement, inside a loop
```
2  for x in xs:
3      if a:
4          continue
5      elif b:
6          break
7      else:
8          return 0
9      y = 1          # dead
10     z = 2          # dead
11 after = 1
``` -/
def ryLoopChain : List Stmt :=
  [.loop 2 10 [.ite 3 8 [.cont 4 4] [.elifc 5 8 [.brk 6 6] [.elsec 7 8 [.ret 8 8 [] false]]],
               .simple 9 9 [] false, .simple 10 10 [] false] [],
   .simple 11 11 [] false]
#guard okC2 ryLoopChain && wfloc1 ryLoopChain
#guard structDead ryLoopChain == [9, 10] && elifL ryLoopChain == [5]
#guard rangesOf (findings (build .func 1 11 ryLoopChain)) == [(9, 10)]
#guard covered (structDead ryLoopChain) (findings (build .func 1 11 ryLoopChain))

/-- dead code that contains an `elif`: the head of the `elif` clause (line 6, exempt in `C02_ranges_complete`) is covered as well —
by the range `4 … 9` of the block of the dead `if` test
```
2  def f():
3      raise E
4      if a:            # dead   range 4 … 9 (test record = newest record of its block)
5          x = 1        # dead
6      elif b:          # dead, `elif` head: record 0..0 in a block of its own, range 0 … 0
7          x = 2        # dead
8      else:
9          x = 3        # dead
10     y = x            # dead
``` -/
def ryElif : List Stmt :=
  [.raise 3 3, .ite 4 9 [.simple 5 5 [] false] [.elifc 6 9 [.simple 7 7 [] false] [.elsec 8 9 [.simple 9 9 [] false]]],
   .simple 10 10 [] false]
#guard okC2 ryElif && wfloc1 ryElif
#guard structDead ryElif == [4, 5, 6, 7, 9, 10] && elifL ryElif == [6]
#guard rangesOf (findings (build .func 2 10 ryElif)) == [(4, 9), (5, 5), (10, 10), (0, 0), (7, 7), (9, 9)]
#guard covered (structDead ryElif) (findings (build .func 2 10 ryElif))

/-- nested `elif` chains in dead code, inside `with` and `while … else`: all `elif` heads (7, 10, 16) are covered
```
2  while c:
3      continue
4      with m:              # dead
5          if a:            # dead   range 5 … 13
6              x = 1
7          elif b:          # `elif` head
8              if p:        # dead   range 8 … 11
9                  x = 2
10             elif q:      # `elif` head
11                 x = 3
12         else:
13             x = 4
14     if d:                # dead   range 14 … 17
15         break
16     elif e:              # `elif` head
17         y = 1
18 else:
19     return 0
``` -/
def ryElifNested : List Stmt :=
  [.loop 2 19 [.cont 3 3,
      .with_ 4 13 [.ite 5 13 [.simple 6 6 [] false]
        [.elifc 7 13 [.ite 8 11 [.simple 9 9 [] false] [.elifc 10 11 [.simple 11 11 [] false] []]] [.elsec 12 13 [.simple 13 13 [] false]]]],
      .ite 14 17 [.brk 15 15] [.elifc 16 17 [.simple 17 17 [] false] []]]
    [.elsec 18 19 [.ret 19 19 [] false]]]
#guard okC2 ryElifNested && wfloc1 ryElifNested
#guard (elifL ryElifNested) == [7, 10, 16] && (elifL ryElifNested).all (· ∈ structDead ryElifNested)
#guard structDead ryElifNested == [4, 5, 6, 7, 8, 9, 10, 11, 13, 14, 15, 16, 17]
#guard covered (structDead ryElifNested) (findings (build .func 1 19 ryElifNested))

/-- a `try` whose body ends in `raise`, followed by dead statements; dead code after `return` in the handler and in `finally`
```
2  try:
3      raise E
4      a = 1          # dead
5      b = 2          # dead
6  except E:
7      return 0
8      c = 3          # dead
9  finally:
10     d = 4
11 after = 5
``` -/
def ryTry : List Stmt :=
  [.try_ 2 10 [.raise 3 3, .simple 4 4 [] false, .simple 5 5 [] false] [.handler 6 8 [.ret 7 7 [] false, .simple 8 8 [] false]] []
     [.simple 10 10 [] false],
   .simple 11 11 [] false]
#guard okC2 ryTry && wfloc1 ryTry
#guard structDead ryTry == [4, 5, 8] && rangesOf (findings (build .func 1 11 ryTry)) == [(4, 5), (8, 8)]
#guard covered (structDead ryTry) (findings (build .func 1 11 ryTry))

/-- a dead compound statement with a comprehension and a multi-line statement: the ranges use the END line of the newest record -/
def ryMulti : List Stmt :=
  [.ret 2 2 [] false, .simple 3 5 [true, false] true, .match_ 6 9 [.case_ 7 8 [.simple 8 8 [] false], .case_ 9 9 []], .simple 10 12 [] false]
#guard okC2 ryMulti && wfloc1 ryMulti
#guard structDead ryMulti == [3, 6, 7, 8, 9, 10]
#guard covered (structDead ryMulti) (findings (build .func 1 12 ryMulti))

/-- a class definition (header 1 … 6) -/
def ryCls : List Stmt := [.simple 2 2 [] false, .class_ 3 5 [.ret 4 4 [] false, .simple 5 5 [] false], .simple 6 6 [] false]
#guard okC2 ryCls && wfL 2 ryCls
#guard structDead ryCls == [5] && covered (structDead ryCls) (findings (build .cls 1 6 ryCls))

/-! #### the restriction `noSEL` is needed -/

/-- a STANDALONE `elif` clause (not produced by the parser) after dead statements: its `0..0` test record is stored in the dead block
that already holds the record of line 3, the block is reported as `3 … 0`, and line 3 — structurally dead, not an `elif` head — lies in
NO reported range
```
2  return 0
3  x = 1            # dead, NOT covered: range of its block is 3 … 0
4  elif c:          # stray clause
5      y = 2        # dead, covered by 5 … 5
``` -/
def ryStandalone : List Stmt := [.ret 2 2 [] false, .simple 3 3 [] false, .elifc 4 5 [.simple 5 5 [] false] []]
#guard okLC false ryStandalone && wfloc1 ryStandalone && !noSEL ryStandalone && !okC2 ryStandalone
#guard structDead ryStandalone == [3, 4, 5] && elifL ryStandalone == [4]
#guard rangesOf (findings (build .func 1 5 ryStandalone)) == [(3, 0), (5, 5)]
#guard !covered [3] (findings (build .func 1 5 ryStandalone))
#guard 3 ∈ structDead ryStandalone && !(3 ∈ elifL ryStandalone)
-- the record-level statement still holds for line 3 (`C02_mirror_complete` does not need `noSEL`):
#guard 3 ∈ deadLines (build .func 1 5 ryStandalone)

/-- the shape of the record list behind `ryStandalone`: a `0..0` record that is NOT the oldest record of its block — `ZF` fails for a
list of this shape, and the block summary ends at line 0 -/
theorem C02_noSEL_needed_records :
    let L : List SRec := [{ blk := 3, s := 0, e := 0, ty := .other }, { blk := 3, s := 3, e := 3, ty := .other }, { blk := 2, s := 2, e := 2, ty := .ret }]
    ¬ ZF L ∧ (infoR 3 L).start = 3 ∧ (infoR 3 L).stop = 0 := by
  refine ⟨fun h => ?_, by decide, by decide⟩
  exact h.2 rfl _ (List.mem_cons_self ..) rfl

end PV.C02

#print axioms PV.C02.C02_ranges_complete
#print axioms PV.C02.C02_ranges_complete_fn
#print axioms PV.C02.C02_ranges_complete_noelif
#print axioms PV.C02.C02_ranges_cover_records
#print axioms PV.C02.C02_ranges_cover_span
#print axioms PV.C02.C02_block_records_ordered
#print axioms PV.C02.C02_zero_record_first
#print axioms PV.C02.C02_noSEL_needed_records
