import PV.Model.Order
import PV.Generated.OrderSites
import PV.Properties.OrderSitesExpected
import Mathlib.Data.List.Sort
import Mathlib.Algebra.BigOperators.Group.List.Basic
import Mathlib.Order.Basic
/-!
# C05 — reports are reproducible

What makes an emission pipeline independent of Go's unspecified orders, as theorems over `PV.Order`; the inventory of the places where
such an order exists in /repo is regenerated on every run and pinned (`C05_sites`); the decision on the real code is the repeated-run
oracle of the check.
-/
namespace PV.C05
open PV.Order

/-- **Sorting by a comparison that distinguishes the items makes the output independent of the arrival order** (map iteration order, the
order goroutines delivered, the order of the input files): any two arrangements of the same items are emitted identically. The comparison
must be transitive and total, and two different items of the list must never tie. -/
theorem C05_sorted (α : Type) (le : α → α → Bool) (l₁ l₂ : List α) (hp : l₁.Perm l₂)
    (trans : ∀ a b c : α, le a b = true → le b c = true → le a c = true)
    (total : ∀ a b : α, (le a b || le b a) = true)
    (hinj : ∀ a ∈ l₁, ∀ b ∈ l₁, le a b = true → le b a = true → a = b) : emitSorted le l₁ = emitSorted le l₂ := by
  unfold emitSorted
  have s₁ := List.pairwise_mergeSort trans total l₁
  have s₂ := List.pairwise_mergeSort trans total l₂
  have p : (l₁.mergeSort le).Perm (l₂.mergeSort le) := (List.mergeSort_perm _ _).trans (hp.trans (List.mergeSort_perm _ _).symm)
  refine List.Perm.eq_of_pairwise ?_ s₁ s₂ p
  intro a b ha hb h1 h2
  exact hinj a ((List.mergeSort_perm _ _).subset ha) b (hp.symm.subset ((List.mergeSort_perm _ _).subset hb)) h1 h2

/-- the usual instance: sort by a key with a linear order (file path, start line, name, …) that no two items share -/
theorem C05_sorted_by_key (α κ : Type) [LinearOrder κ] (key : α → κ) (l₁ l₂ : List α) (hp : l₁.Perm l₂)
    (hinj : ∀ a ∈ l₁, ∀ b ∈ l₁, key a = key b → a = b) :
    emitSorted (fun a b => decide (key a ≤ key b)) l₁ = emitSorted (fun a b => decide (key a ≤ key b)) l₂ := by
  apply C05_sorted α _ l₁ l₂ hp
  · intro a b c h1 h2; simp only [decide_eq_true_eq] at *; exact le_trans h1 h2
  · intro a b; simp only [Bool.or_eq_true, decide_eq_true_eq]; exact le_total _ _
  · intro a ha b hb h1 h2; simp only [decide_eq_true_eq] at h1 h2; exact hinj a ha b hb (le_antisymm h1 h2)

/-- **Without a sort the arrival order shows**: two arrangements of the same entries that are emitted differently. -/
theorem C05_raw_witness : ∃ l₁ l₂ : List Nat, l₁.Perm l₂ ∧ emitRaw l₁ ≠ emitRaw l₂ :=
  ⟨[1, 2], [2, 1], List.Perm.swap 2 1 [], by decide⟩

/-- **A sort whose key does not distinguish the items is not enough** (ties keep the arrival order even with a stable sort; an unstable
one may do anything): the witness sorts pairs by their first component only. -/
theorem C05_tie_witness : ∃ l₁ l₂ : List (Nat × Nat), l₁.Perm l₂ ∧
    emitSorted (fun p q => decide (p.1 ≤ q.1)) l₁ ≠ emitSorted (fun p q => decide (p.1 ≤ q.1)) l₂ :=
  ⟨[(1, 7), (1, 8)], [(1, 8), (1, 7)], List.Perm.swap _ _ [], by
    unfold emitSorted
    rw [List.mergeSort_of_pairwise (by simp), List.mergeSort_of_pairwise (by simp)]
    decide⟩

/-- **Exact accumulations do not depend on the order** (counts, integer sums): summing any arrangement gives the same total.
(Floating-point sums do: they are reproducible only if the summation order is, i.e. after `C05_sorted`.) -/
theorem C05_sum_perm (l₁ l₂ : List Int) (hp : l₁.Perm l₂) : l₁.sum = l₂.sum := hp.sum_eq

theorem C05_count_perm {α : Type} (p : α → Bool) (l₁ l₂ : List α) (hp : l₁.Perm l₂) : (l₁.filter p).length = (l₂.filter p).length :=
  (hp.filter p).length_eq

theorem find_perm {R : Type} (slot : Nat) : ∀ {e₁ e₂ : List (Nat × R)}, e₁.Perm e₂ → (e₁.map (·.1)).Nodup →
    e₁.find? (fun e => e.1 == slot) = e₂.find? (fun e => e.1 == slot) := by
  intro e₁ e₂ hp
  induction hp with
  | nil => intro _; rfl
  | cons x _ ih =>
    intro hn
    simp only [List.map_cons, List.nodup_cons] at hn
    simp only [List.find?_cons]
    split
    · rfl
    · exact ih hn.2
  | swap x y l =>
    intro hn
    simp only [List.map_cons, List.nodup_cons, List.mem_cons, not_or] at hn
    simp only [List.find?_cons]
    by_cases hx : (x.1 == slot) = true
    · by_cases hy : (y.1 == slot) = true
      · exfalso
        have h1 : x.1 = slot := by simpa using hx
        have h2 : y.1 = slot := by simpa using hy
        exact hn.1.1 (h2.trans h1.symm)
      · simp [hx, hy]
    · by_cases hy : (y.1 == slot) = true <;> simp [hx, hy]
  | trans h₁ _ ih₁ ih₂ =>
    intro hn
    rw [ih₁ hn]
    exact ih₂ ((h₁.map _).nodup_iff.mp hn)

/-- **Scheduling.** When every analysis writes into its own slot, the assembled response does not depend on the order in which the
goroutines finished. -/
theorem C05_schedule {R : Type} (e₁ e₂ : List (Nat × R)) (hp : e₁.Perm e₂) (hn : (e₁.map (·.1)).Nodup) (slot : Nat) :
    assemble e₁ slot = assemble e₂ slot := by
  unfold assemble; rw [find_perm slot hp hn]

/-- **Tie (regenerated).** The inventory of map iterations, unstable sorts, goroutine starts and clock/random sources of the non-test
packages equals the reviewed list: a new site cannot appear unnoticed. -/
theorem C05_sites : Generated.OrderSites.sites = OrderSitesExpected.sites := rfl

end PV.C05
