import PV.Model.Imports
import PV.Proofs.DepthLemmas
import Mathlib.Data.List.Nodup
import Mathlib.Algebra.Order.Field.Basic
import Mathlib.Algebra.Order.AbsoluteValue.Basic
import Mathlib.Tactic.Linarith
import Mathlib.Tactic.Positivity
/-!
# C12 — the import graph and module metrics reflect Python's import semantics

`PV.Imports.required / allowed` is the SPECIFICATION of Python's resolution inside a project (validated against CPython on every
run); the theorems below are the facts about it the property states, the invariants of the graph bookkeeping, and the metric laws
over exact rationals (the check compares the reported floats with them).
-/
namespace PV.C12
open PV.Imports

/-! ### the resolution -/

/-- absolute imports are resolved from the project root: the importing module plays no role -/
theorem C12_absolute_root (L : Layout) (A A' : Mod) (m : Mod) : base L A 0 m = base L A' 0 m := rfl

/-- relative imports go up `level - 1` packages from the importing module's own package; beyond the top level nothing resolves -/
theorem C12_relative (L : Layout) (A m : Mod) (k : Nat) :
    (pkgOf L A ≠ [] → k + 1 ≤ (pkgOf L A).length → base L A (k + 1) m = some ((pkgOf L A).take ((pkgOf L A).length - k) ++ m)) ∧
    ((pkgOf L A = [] ∨ (pkgOf L A).length < k + 1) → base L A (k + 1) m = none) := by
  unfold base
  constructor
  · intro h1 h2
    have : (pkgOf L A).isEmpty = false := by simpa using h1
    simp [this, Nat.not_lt.mpr h2]
  · rintro (h | h)
    · simp [h]
    · simp [h]

/-- the package of a module: itself when it is a package, its parent otherwise -/
theorem C12_pkgOf (L : Layout) (A : Mod) : pkgOf L A = if A ∈ L.pkgs then A else A.dropLast := by
  unfold pkgOf; simp

/-- a name binds to the submodule if there is one, else to the re-export's source, else to the named module itself -/
theorem C12_bind (L : Layout) (b : Mod) (n : String) :
    (b ++ [n] ∈ L.mods → bindTarget L b n = b ++ [n]) ∧
    (b ++ [n] ∉ L.mods → ∀ src, lookupExport L b n = some src → bindTarget L b n = src) ∧
    (b ++ [n] ∉ L.mods → lookupExport L b n = none → bindTarget L b n = b) := by
  unfold bindTarget
  refine ⟨fun h => by simp [h], fun h src hs => by simp [h, hs], fun h hs => by simp [h, hs]⟩

theorem mem_clean {L : Layout} {A t : Mod} {ts : List Mod} : t ∈ clean L A ts ↔ t ∈ ts ∧ t ∈ L.mods ∧ t ≠ A := by
  unfold clean
  rw [List.mem_eraseDups, List.mem_filter]
  simp

theorem nodup_eraseDups {α : Type} [BEq α] [LawfulBEq α] : ∀ (n : Nat) (l : List α), l.length ≤ n → l.eraseDups.Nodup := by
  intro n
  induction n with
  | zero => intro l hl; have : l = [] := List.length_eq_zero_iff.mp (by omega); subst this; simp
  | succ n ih =>
    intro l hl
    cases l with
    | nil => simp
    | cons a as =>
      rw [List.eraseDups_cons]
      refine List.nodup_cons.mpr ⟨?_, ih _ ?_⟩
      · rw [List.mem_eraseDups]; simp
      · exact Nat.le_trans (List.length_filter_le _ as) (by simp only [List.length_cons] at hl; omega)

/-- every edge is listed once -/
theorem C12_edges_once (L : Layout) (A : Mod) (ss : List Stmt) : (requiredEdges L A ss).Nodup ∧ (allowedEdges L A ss).Nodup := by
  unfold requiredEdges allowedEdges clean
  exact ⟨nodup_eraseDups _ _ (Nat.le_refl _), nodup_eraseDups _ _ (Nat.le_refl _)⟩

/-- edges only go to project modules, never to the importer itself -/
theorem C12_edges_exist_no_self (L : Layout) (A : Mod) (ss : List Stmt) (t : Mod) :
    (t ∈ requiredEdges L A ss → t ∈ L.mods ∧ t ≠ A) ∧ (t ∈ allowedEdges L A ss → t ∈ L.mods ∧ t ≠ A) :=
  ⟨fun h => (mem_clean.mp h).2, fun h => (mem_clean.mp h).2⟩

theorem mem_chain_self {m : Mod} (h : m ≠ []) : m ∈ chain m := by
  unfold chain
  refine List.mem_map.mpr ⟨m.length - 1, List.mem_range.mpr (by have := List.length_pos_iff.mpr h; omega), ?_⟩
  have := List.length_pos_iff.mpr h
  rw [show m.length - 1 + 1 = m.length by omega, List.take_length]

/-- the sandwich is consistent: every required edge is an allowed edge -/
theorem C12_required_sub_allowed (L : Layout) (hne : ([] : Mod) ∉ L.mods) (A : Mod) (ss : List Stmt) (t : Mod)
    (h : t ∈ requiredEdges L A ss) : t ∈ allowedEdges L A ss := by
  obtain ⟨hin, hm, hA⟩ := mem_clean.mp h
  refine mem_clean.mpr ⟨?_, hm, hA⟩
  have htne : t ≠ [] := fun h0 => hne (h0 ▸ hm)
  obtain ⟨s, hs, hts⟩ := List.mem_flatMap.mp hin
  refine List.mem_flatMap.mpr ⟨s, hs, ?_⟩
  unfold required at hts
  unfold allowed
  split at hts
  · cases hts
  · next htc =>
    rw [if_neg htc]
    split at hts
    · next m =>
      rw [List.mem_singleton.mp hts]; exact mem_chain_self (List.mem_singleton.mp hts ▸ htne)
    · next level m names =>
      split at hts
      · cases hts
      · next b =>
        split at hts
        · rw [List.mem_singleton.mp hts]
          exact List.mem_append_left _ (mem_chain_self (List.mem_singleton.mp hts ▸ htne))
        · exact List.mem_append_right _ (List.mem_flatMap.mpr ⟨t, hts, mem_chain_self htne⟩)

/-- imports guarded by TYPE_CHECKING contribute no edge -/
theorem C12_type_checking_excluded (L : Layout) (A : Mod) (ss : List Stmt) (s : Stmt) (h : s.typeChecking = true) :
    requiredEdges L A (ss ++ [s]) = requiredEdges L A ss ∧ allowedEdges L A (ss ++ [s]) = allowedEdges L A ss := by
  unfold requiredEdges allowedEdges
  simp [List.flatMap_append, required, allowed, h]

/-- the edges of a module are a function of the layout and of its OWN statements: no other file's imports can change them -/
theorem C12_noninterference (L : Layout) (prog prog' : Mod → List Stmt) (A : Mod) (h : prog A = prog' A) :
    requiredEdges L A (prog A) = requiredEdges L A (prog' A) ∧ allowedEdges L A (prog A) = allowedEdges L A (prog' A) := by
  rw [h]; exact ⟨rfl, rfl⟩

/-! ### the graph bookkeeping -/

structure Inv (g : Graph) : Prop where
  nodup : g.edges.Nodup
  ok : ∀ e ∈ g.edges, e.1 ≠ e.2 ∧ e.1 ∈ g.nodes ∧ e.2 ∈ g.nodes
  out : ∀ n, g.outDeg n = (g.edges.filter fun e => e.1 = n).length
  inn : ∀ n, g.inDeg n = (g.edges.filter fun e => e.2 = n).length

theorem inv_empty (nodes : List Nat) : Inv (Graph.empty nodes) :=
  ⟨List.nodup_nil, fun _ h => absurd h (by simp [Graph.empty]), fun _ => rfl, fun _ => rfl⟩

theorem inv_add (g : Graph) (e : Nat × Nat) (h : Inv g) : Inv (g.add e) := by
  unfold Graph.add
  split
  · exact h
  · next hn =>
    split
    · exact h
    · next hse =>
      split
      · exact h
      · next hc =>
        have hnodes : e.1 ∈ g.nodes ∧ e.2 ∈ g.nodes := by simpa using hn
        have hne : e.1 ≠ e.2 := by simpa using hse
        have hnot : e ∉ g.edges := by simpa using hc
        refine ⟨?_, ?_, ?_, ?_⟩
        · exact List.nodup_append.mpr ⟨h.nodup, List.nodup_singleton e, by
            intro a ha b hb; rw [List.mem_singleton.mp hb]; exact fun hab => hnot (hab ▸ ha)⟩
        · intro x hx
          rcases List.mem_append.mp hx with hx | hx
          · exact h.ok x hx
          · rw [List.mem_singleton.mp hx]; exact ⟨hne, hnodes.1, hnodes.2⟩
        · intro n
          simp only [List.filter_append, List.length_append]
          by_cases hn1 : n = e.1
          · subst hn1; simp [h.out]
          · have : ¬ e.1 = n := fun hh => hn1 hh.symm
            simp [hn1, this, h.out]
        · intro n
          simp only [List.filter_append, List.length_append]
          by_cases hn2 : n = e.2
          · subst hn2; simp [h.inn]
          · have : ¬ e.2 = n := fun hh => hn2 hh.symm
            simp [hn2, this, h.inn]

/-- **Degrees.** After any sequence of `AddDependency` calls the edge list has no duplicate and no self edge, both ends exist, and
fan-out / fan-in of every module are its out- / in-degree in that edge list. -/
theorem C12_degrees (nodes : List Nat) (ops : List (Nat × Nat)) : Inv (Graph.build nodes ops) := by
  unfold Graph.build
  have : ∀ (g : Graph), Inv g → Inv (ops.foldl Graph.add g) := by
    induction ops with
    | nil => intro g h; exact h
    | cons e ops ih => intro g h; exact ih _ (inv_add g e h)
  exact this _ (inv_empty nodes)

theorem add_nodes (g : Graph) (e : Nat × Nat) : (g.add e).nodes = g.nodes := by
  unfold Graph.add; split; rfl; split; rfl; split <;> rfl

theorem mem_add_edges (g : Graph) (e x : Nat × Nat) :
    x ∈ (g.add e).edges ↔ x ∈ g.edges ∨ (x = e ∧ e.1 ≠ e.2 ∧ e.1 ∈ g.nodes ∧ e.2 ∈ g.nodes) := by
  unfold Graph.add
  split
  · next hn =>
    have : ¬ (e.1 ∈ g.nodes ∧ e.2 ∈ g.nodes) := by
      intro hh; simp [hh.1, hh.2] at hn
    constructor
    · exact Or.inl
    · rintro (h | ⟨_, _, h1, h2⟩)
      · exact h
      · exact absurd ⟨h1, h2⟩ this
  · next hn =>
    have hnodes : e.1 ∈ g.nodes ∧ e.2 ∈ g.nodes := by simpa using hn
    split
    · next hse =>
      have : e.1 = e.2 := by simpa using hse
      constructor
      · exact Or.inl
      · rintro (h | ⟨_, h0, _⟩)
        · exact h
        · exact absurd this h0
    · next hse =>
      have hne : e.1 ≠ e.2 := by simpa using hse
      split
      · next hc =>
        have : e ∈ g.edges := by simpa using hc
        constructor
        · exact Or.inl
        · rintro (h | ⟨h, _⟩)
          · exact h
          · rw [h]; exact this
      · simp only [List.mem_append, List.mem_singleton]
        constructor
        · rintro (h | h)
          · exact Or.inl h
          · exact Or.inr ⟨h, hne, hnodes.1, hnodes.2⟩
        · rintro (h | ⟨h, _⟩)
          · exact Or.inl h
          · exact Or.inr h

/-- **Edges.** The graph holds exactly the requested dependencies between two different existing modules. -/
theorem C12_edges_iff (nodes : List Nat) (ops : List (Nat × Nat)) (x : Nat × Nat) :
    x ∈ (Graph.build nodes ops).edges ↔ x ∈ ops ∧ x.1 ≠ x.2 ∧ x.1 ∈ nodes ∧ x.2 ∈ nodes := by
  unfold Graph.build
  have : ∀ (g : Graph), g.nodes = nodes →
      (x ∈ (ops.foldl Graph.add g).edges ↔ x ∈ g.edges ∨ (x ∈ ops ∧ x.1 ≠ x.2 ∧ x.1 ∈ nodes ∧ x.2 ∈ nodes)) := by
    induction ops with
    | nil => intro g _; simp
    | cons e ops ih =>
      intro g hg
      rw [List.foldl_cons, ih (g.add e) (by rw [add_nodes, hg]), mem_add_edges, hg]
      constructor
      · rintro ((h | ⟨h, h1, h2, h3⟩) | ⟨h, hr⟩)
        · exact Or.inl h
        · exact Or.inr ⟨by rw [h]; exact List.mem_cons_self, by rw [h]; exact ⟨h1, h2, h3⟩⟩
        · exact Or.inr ⟨List.mem_cons_of_mem _ h, hr⟩
      · rintro (h | ⟨h, h1, h2, h3⟩)
        · exact Or.inl (Or.inl h)
        · rcases List.mem_cons.mp h with rfl | h
          · exact Or.inl (Or.inr ⟨rfl, h1, h2, h3⟩)
          · exact Or.inr ⟨h, h1, h2, h3⟩
  rw [this (Graph.empty nodes) rfl]
  simp [Graph.empty]

/-! ### the metric laws, over exact rationals -/

/-- instability = fan-out / (fan-in + fan-out), 0 for an isolated module -/
def instabilityQ (fanIn fanOut : Nat) : ℚ := if fanIn + fanOut = 0 then 0 else (fanOut : ℚ) / ((fanIn : ℚ) + (fanOut : ℚ))

/-- distance from the main sequence -/
def distanceQ (a i : ℚ) : ℚ := |a + i - 1|

theorem C12_instability_range (fanIn fanOut : Nat) : 0 ≤ instabilityQ fanIn fanOut ∧ instabilityQ fanIn fanOut ≤ 1 := by
  unfold instabilityQ
  split
  · exact ⟨le_refl _, zero_le_one⟩
  · next h =>
    have hpos : (0 : ℚ) < (fanIn : ℚ) + (fanOut : ℚ) := by
      have : 0 < fanIn + fanOut := Nat.pos_of_ne_zero h
      exact_mod_cast this
    constructor
    · positivity
    · rw [div_le_one hpos]
      have : (0 : ℚ) ≤ (fanIn : ℚ) := by positivity
      linarith

theorem C12_distance_range (a i : ℚ) (ha : 0 ≤ a ∧ a ≤ 1) (hi : 0 ≤ i ∧ i ≤ 1) : 0 ≤ distanceQ a i ∧ distanceQ a i ≤ 1 := by
  unfold distanceQ
  refine ⟨abs_nonneg _, abs_le.mpr ⟨by linarith [ha.1, hi.1], by linarith [ha.2, hi.2]⟩⟩

/-- a stable module with no outgoing edge has instability 0, one with only outgoing edges has instability 1 -/
theorem C12_instability_extremes (k : Nat) (hk : 0 < k) : instabilityQ k 0 = 0 ∧ instabilityQ 0 k = 1 := by
  unfold instabilityQ
  have hk' : (k : ℚ) ≠ 0 := by exact_mod_cast (Nat.pos_iff_ne_zero.mp hk)
  constructor
  · simp
  · simp [Nat.pos_iff_ne_zero.mp hk, hk']

/-! ### maximum depth -/

/-- **MaxDepth dominates every import chain**: a chain `m → v₁ → … → v_k` of pairwise different modules starting at a module of the graph
(`k` edges, at most as many as there are modules) is found by the depth search, so `k ≤ MaxDepth`. -/
theorem C12_depth_lower (nodes : List Nat) (adj : Nat → List Nat) (m : Nat) (hm : m ∈ nodes) (rest : List Nat)
    (hch : IsChain adj (m :: rest)) (hnd : (m :: rest).Nodup) (hlen : rest.length ≤ nodes.length) :
    rest.length ≤ maxDepth nodes adj := by
  unfold maxDepth
  have h := depthFrom_ge_chain adj rest (nodes.length + 1) [] m 0 hch hnd (by intro x _; simp) (by omega)
  have := foldl_max_ge_mem (fun m => depthFrom adj (nodes.length + 1) [] m 0) nodes 0 m hm
  omega

/-- **MaxDepth is the length of an actual walk**: it is 0 or there is a module of the graph from which a walk of exactly that many edges
starts. On an acyclic graph every walk is a chain of different modules, so together with `C12_depth_lower` MaxDepth IS the length of
the longest import chain; on a graph with cycles the walk may end with the edge that closes a cycle (the property does not say what
the depth of a cycle is; the check compares the real value with this model on cyclic shapes). -/
theorem C12_depth_attained (nodes : List Nat) (adj : Nat → List Nat) :
    maxDepth nodes adj = 0 ∨ ∃ m ∈ nodes, ∃ rest : List Nat, IsChain adj (m :: rest) ∧ rest.length = maxDepth nodes adj := by
  unfold maxDepth
  rcases foldl_max_attained (fun m => depthFrom adj (nodes.length + 1) [] m 0) nodes 0 with h | ⟨m, hm, h⟩
  · exact Or.inl h
  · obtain ⟨rest, hch, hval⟩ := depthFrom_attained adj (nodes.length + 1) [] m 0
    exact Or.inr ⟨m, hm, rest, hch, by rw [h, hval]; simp⟩

end PV.C12
