import PV.Model.Independence
import PV.Generated.TaskFacts
import PV.Properties.TaskFactsExpected
/-!
# C20 — analyses are independent

The part of C20 that is logic: in the model of the combination, a section does not depend on which other analyses run, and a file's
result does not depend on the other files or their order. Data-race freedom of the real goroutines and MCP/CLI equality are decided
on the real code (race-detector build, combined-vs-separate and subset/permutation runs, MCP handlers in process).
-/
namespace PV.C20
open PV PV.Independence

theorem find_filter_map {I R : Type} (tasks : List (String × (I → R))) (inp : I) (enabled : String → Bool) (name : String)
    (hen : enabled name = true) :
    ((tasks.filter fun t => enabled t.1).map fun t => (t.1, t.2 inp)).find? (fun r => r.1 == name) =
    (tasks.map fun t => (t.1, t.2 inp)).find? (fun r => r.1 == name) := by
  induction tasks with
  | nil => rfl
  | cons t ts ih =>
    by_cases ht : enabled t.1 = true
    · simp only [List.filter_cons, ht, if_true, List.map_cons, List.find?_cons]
      split
      · rfl
      · exact ih
    · have hne : (t.1 == name) = false := by
        cases hb : (t.1 == name) with
        | false => rfl
        | true => exact absurd (by rw [← (beq_iff_eq.mp hb)] at hen; exact hen) ht
      simp only [List.filter_cons, ht, Bool.false_eq_true, if_false, List.map_cons, List.find?_cons, hne]
      exact ih

/-- **Together or apart.** The section of an analysis in the combined run equals its section in ANY run in which it is enabled —
in particular the run that selects it alone — for every input and every set of other analyses. -/
theorem C20_select {I R : Type} (tasks : List (String × (I → R))) (inp : I) (e₁ e₂ : String → Bool) (name : String)
    (h₁ : e₁ name = true) (h₂ : e₂ name = true) :
    section_ (execute e₁ tasks inp) name = section_ (execute e₂ tasks inp) name := by
  unfold section_ execute
  rw [find_filter_map tasks inp e₁ name h₁, find_filter_map tasks inp e₂ name h₂]

/-- a disabled analysis contributes no section -/
theorem C20_disabled {I R : Type} (tasks : List (String × (I → R))) (inp : I) (e : String → Bool) (name : String) (h : e name = false) :
    section_ (execute e tasks inp) name = none := by
  unfold section_ execute
  have : ((tasks.filter fun t => e t.1).map fun t => (t.1, t.2 inp)).find? (fun r => r.1 == name) = none := by
    rw [List.find?_eq_none]
    intro r hr
    obtain ⟨t, ht, rfl⟩ := List.mem_map.mp hr
    have het : e t.1 = true := (List.mem_filter.mp ht).2
    simp only [beq_iff_eq]
    intro heq; rw [heq] at het; rw [het] at h; cases h
  rw [this]; rfl

theorem find_perFile {F R : Type} [BEq F] [LawfulBEq F] (a : F → R) (fs : List F) (f : F) (hf : f ∈ fs) :
    (perFile a fs).find? (fun r => r.1 == f) = some (f, a f) := by
  induction fs with
  | nil => cases hf
  | cons g fs ih =>
    unfold perFile
    simp only [List.map_cons, List.find?_cons]
    by_cases hg : (g == f) = true
    · simp only [hg]; rw [beq_iff_eq.mp hg]
    · simp only [hg]
      rcases List.mem_cons.mp hf with rfl | h
      · simp at hg
      · exact ih h

/-- **Per-file results do not depend on the other files or on the order**: whatever two file lists contain the file, its result is the same. -/
theorem C20_per_file {F R : Type} [BEq F] [LawfulBEq F] (a : F → R) (fs₁ fs₂ : List F) (f : F) (h₁ : f ∈ fs₁) (h₂ : f ∈ fs₂) :
    resultOf (perFile a fs₁) f = resultOf (perFile a fs₂) f := by
  unfold resultOf
  rw [find_perFile a fs₁ f h₁, find_perFile a fs₂ f h₂]

/-- **Tie (regenerated).** `Execute` starts one goroutine per enabled task, each writing only its own task's Result/Error, and waits for all
of them before the response is built. -/
theorem C20_facts : Generated.TaskFacts.Execute = TaskFactsExpected.TaskFacts_Execute := rfl

end PV.C20
