import PV.Model.SCC
import Mathlib.Data.List.Nodup
/-!
# C11 — circular dependencies are exactly the non-trivial strongly connected components

Theorems about the specification-level model `PV.SCC.cycles`.  `Reach` is the (unbounded)
reflexive-transitive closure of the import relation; the executable closure is proved to
decide it whenever it returns (`reachSet_spec`).  pyscn's Tarjan implementation is tied to
this model by the correspondence check (all digraphs on ≤ 4 vertices + random larger ones).
-/
namespace PV.C11
open PV.SCC

/-! ## the closure computes reachability -/

theorem mem_expand {g : G} {R : List Nat} {x : Nat} :
    x ∈ expand g R ↔ x ∈ R ∨ ∃ e ∈ g.edges, e.1 ∈ R ∧ e.2 = x := by
  unfold expand
  simp only [List.mem_append, List.mem_map, List.mem_filter, List.contains_iff_mem]
  constructor
  · rintro (h | ⟨e, ⟨he, hR⟩, rfl⟩)
    · exact .inl h
    · exact .inr ⟨e, he, hR, rfl⟩
  · rintro (h | ⟨e, he, hR, rfl⟩)
    · exact .inl h
    · exact .inr ⟨e, ⟨he, hR⟩, rfl⟩

theorem closure_sub {g : G} : ∀ (f : Nat) (R S : List Nat), closure g f R = some S → ∀ x ∈ R, x ∈ S
  | 0, R, S, h, x, hx => by
    unfold closure at h; split at h
    · cases h; exact hx
    · cases h
  | f + 1, R, S, h, x, hx => by
    unfold closure at h; split at h
    · cases h; exact hx
    · exact closure_sub f _ S h x (mem_expand.mpr (.inl hx))

theorem closure_closed {g : G} : ∀ (f : Nat) (R S : List Nat), closure g f R = some S → closed g S = true
  | 0, R, S, h => by
    unfold closure at h; split at h
    · next hc => cases h; exact hc
    · cases h
  | f + 1, R, S, h => by
    unfold closure at h; split at h
    · next hc => cases h; exact hc
    · exact closure_closed f _ S h

theorem closure_sound {g : G} (u : Nat) : ∀ (f : Nat) (R S : List Nat), (∀ x ∈ R, Reach g u x) →
    closure g f R = some S → ∀ x ∈ S, Reach g u x
  | 0, R, S, hR, h => by
    unfold closure at h; split at h
    · cases h; exact hR
    · cases h
  | f + 1, R, S, hR, h => by
    unfold closure at h; split at h
    · cases h; exact hR
    · refine closure_sound u f _ S ?_ h
      intro x hx
      rcases mem_expand.mp hx with hx | ⟨e, he, heR, rfl⟩
      · exact hR x hx
      · exact Reach.step (hR _ heR) (by cases e; exact he)

theorem closed_complete {g : G} {S : List Nat} (hc : closed g S = true) {u x : Nat} (hu : u ∈ S)
    (h : Reach g u x) : x ∈ S := by
  induction h with
  | refl => exact hu
  | step _ he ih =>
    unfold closed at hc
    have := (List.all_eq_true.mp hc) _ he
    simp only [Bool.or_eq_true, Bool.not_eq_true', List.contains_iff_mem] at this
    rcases this with h | h
    · simp at h; exact absurd ih h
    · exact h

/-- whenever the closure returns, it is exactly the set of vertices reachable from `u` -/
theorem reachSet_spec {g : G} {u : Nat} {S : List Nat} (h : reachSet g u = some S) (x : Nat) :
    x ∈ S ↔ Reach g u x := by
  unfold reachSet at h
  constructor
  · exact closure_sound u _ _ S (by intro y hy; simp at hy; subst hy; exact Reach.refl _) h x
  · exact closed_complete (closure_closed _ _ S h) (closure_sub _ _ S h u (by simp))

theorem _root_.PV.SCC.Reach.trans {g : G} {a b c : Nat} (h₁ : Reach g a b) (h₂ : Reach g b c) : Reach g a c := by
  induction h₂ with
  | refl => exact h₁
  | step _ he ih => exact Reach.step ih he

/-- mutual reachability -/
def Mutual (g : G) (u v : Nat) : Prop := Reach g u v ∧ Reach g v u

theorem Mutual.symm {g : G} {u v : Nat} (h : Mutual g u v) : Mutual g v u := ⟨h.2, h.1⟩
theorem Mutual.trans {g : G} {u v w : Nat} (h₁ : Mutual g u v) (h₂ : Mutual g v w) : Mutual g u w :=
  ⟨h₁.1.trans h₂.1, h₂.2.trans h₁.2⟩
theorem Mutual.refl (g : G) (u : Nat) : Mutual g u u := ⟨Reach.refl u, Reach.refl u⟩

/-! ## the table -/

theorem table_get {g : G} (hok : tableOk (reachTable g) = true) {u : Nat} (hu : u < g.n) :
    ∃ S, (reachTable g).getD u none = some S ∧ reachSet g u = some S := by
  unfold reachTable at *
  have hlen : u < ((List.range g.n).map (reachSet g)).length := by simp [hu]
  have hget : ((List.range g.n).map (reachSet g)).getD u none = reachSet g u := by
    rw [List.getD_eq_getElem?_getD, List.getElem?_eq_getElem hlen]; simp
  rw [hget]
  have : (reachSet g u).isSome = true := by
    unfold tableOk at hok
    exact (List.all_eq_true.mp hok) _ (by
      rw [List.mem_map]; exact ⟨u, List.mem_range.mpr hu, rfl⟩)
  cases h : reachSet g u with
  | none => rw [h] at this; cases this
  | some S => exact ⟨S, rfl, rfl⟩

theorem reaches_iff {g : G} (hok : tableOk (reachTable g) = true) {u : Nat} (hu : u < g.n) (v : Nat) :
    reaches (reachTable g) u v = true ↔ Reach g u v := by
  obtain ⟨S, h1, h2⟩ := table_get hok hu
  unfold reaches; rw [h1]
  simp only [List.contains_iff_mem]
  exact reachSet_spec h2 v

theorem mutualB_iff {g : G} (hok : tableOk (reachTable g) = true) {u v : Nat} (hu : u < g.n) (hv : v < g.n) :
    mutualB (reachTable g) u v = true ↔ Mutual g u v := by
  unfold mutualB Mutual
  rw [Bool.and_eq_true, reaches_iff hok hu, reaches_iff hok hv]

theorem mem_comp {g : G} (hok : tableOk (reachTable g) = true) {u : Nat} (hu : u < g.n) (v : Nat) :
    v ∈ comp g (reachTable g) u ↔ v < g.n ∧ Mutual g u v := by
  unfold comp
  rw [List.mem_filter, List.mem_range]
  constructor
  · rintro ⟨hv, hm⟩; exact ⟨hv, (mutualB_iff hok hu hv).mp hm⟩
  · rintro ⟨hv, hm⟩; exact ⟨hv, (mutualB_iff hok hu hv).mpr hm⟩

/-- mutually reachable vertices have the same class, as lists -/
theorem comp_congr {g : G} (hok : tableOk (reachTable g) = true) {u v : Nat} (hu : u < g.n) (hv : v < g.n)
    (h : Mutual g u v) : comp g (reachTable g) u = comp g (reachTable g) v := by
  unfold comp
  apply List.filter_congr
  intro x hx
  have hx' := List.mem_range.mp hx
  have : mutualB (reachTable g) u x = true ↔ mutualB (reachTable g) v x = true := by
    rw [mutualB_iff hok hu hx', mutualB_iff hok hv hx']
    exact ⟨fun h' => h.symm.trans h', fun h' => h.trans h'⟩
  cases h1 : mutualB (reachTable g) u x <;> cases h2 : mutualB (reachTable g) v x <;> simp_all

theorem comp_nodup (g : G) (tbl) (u : Nat) : (comp g tbl u).Nodup := by
  unfold comp; exact List.Nodup.filter _ List.nodup_range

theorem mem_cyclesOf {g : G} (c : List Nat) :
    c ∈ cyclesOf g (reachTable g) ↔
      ∃ u, u < g.n ∧ c = comp g (reachTable g) u ∧ c.head? = some u ∧ 2 ≤ c.length := by
  unfold cyclesOf isRep
  simp only [List.mem_map, List.mem_filter, List.mem_range, Bool.and_eq_true, beq_iff_eq, decide_eq_true_eq]
  constructor
  · rintro ⟨u, ⟨hu, hh, hl⟩, rfl⟩; exact ⟨u, hu, rfl, hh, hl⟩
  · rintro ⟨u, hu, rfl, hh, hl⟩; exact ⟨u, ⟨hu, hh, hl⟩, rfl⟩

/-- the class of any vertex with a second member is listed (through its smallest member) -/
theorem comp_listed {g : G} (hok : tableOk (reachTable g) = true) {u : Nat} (hu : u < g.n)
    (hl : 2 ≤ (comp g (reachTable g) u).length) : comp g (reachTable g) u ∈ cyclesOf g (reachTable g) := by
  have hu' : u ∈ comp g (reachTable g) u := (mem_comp hok hu u).mpr ⟨hu, Mutual.refl g u⟩
  match hc : comp g (reachTable g) u with
  | [] => rw [hc] at hu'; cases hu'
  | m :: rest =>
    have hm : m ∈ comp g (reachTable g) u := by rw [hc]; simp
    obtain ⟨hmn, hmu⟩ := (mem_comp hok hu m).mp hm
    have heq : comp g (reachTable g) m = comp g (reachTable g) u := comp_congr hok hmn hu hmu.symm
    refine (mem_cyclesOf _).mpr ⟨m, hmn, ?_, ?_, ?_⟩
    · rw [heq, hc]
    · simp
    · rw [← hc]; exact hl

/-! ## the property -/

/-- **C11.** Two distinct modules are listed in the same cycle iff each can reach the other. -/
theorem C11_spec (g : G) (cs : List (List Nat)) (h : cycles g = some cs) (u v : Nat) (hu : u < g.n) (hv : v < g.n)
    (hne : u ≠ v) : (∃ c ∈ cs, u ∈ c ∧ v ∈ c) ↔ (Reach g u v ∧ Reach g v u) := by
  unfold cycles at h
  simp only [] at h
  split at h
  · next hok =>
    cases h
    constructor
    · rintro ⟨c, hc, huc, hvc⟩
      obtain ⟨w, hw, rfl, _, _⟩ := (mem_cyclesOf c).mp hc
      have h1 := ((mem_comp hok hw u).mp huc).2
      have h2 := ((mem_comp hok hw v).mp hvc).2
      exact h1.symm.trans h2
    · intro hm
      have hu' : u ∈ comp g (reachTable g) u := (mem_comp hok hu u).mpr ⟨hu, Mutual.refl g u⟩
      have hv' : v ∈ comp g (reachTable g) u := (mem_comp hok hu v).mpr ⟨hv, hm⟩
      refine ⟨comp g (reachTable g) u, comp_listed hok hu ?_, hu', hv'⟩
      -- the class contains the two distinct vertices u and v
      match hc : comp g (reachTable g) u with
      | [] => rw [hc] at hu'; cases hu'
      | [a] =>
        rw [hc] at hu' hv'
        simp at hu' hv'
        exact absurd (hu'.trans hv'.symm) hne
      | _ :: _ :: _ => simp
  · cases h

/-- **C11 (single).** A module is in some cycle iff it is mutually reachable with a DIFFERENT module:
components of size 1 are not cycles, with or without a self-import. -/
theorem C11_single (g : G) (cs : List (List Nat)) (h : cycles g = some cs) (u : Nat) (hu : u < g.n) :
    (∃ c ∈ cs, u ∈ c) ↔ ∃ v, v < g.n ∧ v ≠ u ∧ Reach g u v ∧ Reach g v u := by
  constructor
  · rintro ⟨c, hc, huc⟩
    have h' := h
    unfold cycles at h'
    simp only [] at h'
    split at h'
    · next hok =>
      cases h'
      obtain ⟨w, hw, rfl, _, hl⟩ := (mem_cyclesOf c).mp hc
      have hnd : (comp g (reachTable g) w).Nodup := comp_nodup _ _ _
      -- a duplicate-free list of length ≥ 2 has a member different from u
      have : ∃ v ∈ comp g (reachTable g) w, v ≠ u := by
        match hcw : comp g (reachTable g) w, hl, hnd with
        | a :: b :: _, _, hnd' =>
          by_cases hau : a = u
          · refine ⟨b, by simp, ?_⟩
            intro hb; subst hau; subst hb
            simp at hnd'
          · exact ⟨a, by simp, hau⟩
      obtain ⟨v, hvc, hvu⟩ := this
      have h1 := (mem_comp hok hw u).mp huc
      have h2 := (mem_comp hok hw v).mp hvc
      exact ⟨v, h2.1, hvu, (h1.2.symm.trans h2.2).1, (h1.2.symm.trans h2.2).2⟩
    · cases h'
  · rintro ⟨v, hv, hvu, h1, h2⟩
    obtain ⟨c, hc, huc, _⟩ := (C11_spec g cs h u v hu hv (Ne.symm hvu)).mpr ⟨h1, h2⟩
    exact ⟨c, hc, huc⟩

/-- **C11 (partition).** Reported cycles are duplicate-free, sorted increasingly, have at least two
members, consist of modules of the graph, and two different cycles share no module. -/
theorem C11_partition (g : G) (cs : List (List Nat)) (h : cycles g = some cs) :
    cs.Nodup ∧ (∀ c ∈ cs, 2 ≤ c.length ∧ c.Nodup ∧ c.Pairwise (· < ·) ∧ ∀ x ∈ c, x < g.n) ∧
    (∀ c₁ ∈ cs, ∀ c₂ ∈ cs, ∀ x, x ∈ c₁ → x ∈ c₂ → c₁ = c₂) := by
  unfold cycles at h
  simp only [] at h
  split at h
  · next hok =>
    cases h
    refine ⟨?_, ?_, ?_⟩
    · unfold cyclesOf
      apply List.Nodup.map_on
      · intro a ha b hb hab
        have ha' := (List.mem_filter.mp ha).2
        have hb' := (List.mem_filter.mp hb).2
        unfold isRep at ha' hb'
        simp only [Bool.and_eq_true, beq_iff_eq] at ha' hb'
        have := ha'.1
        rw [hab, hb'.1] at this
        exact (Option.some.inj this).symm
      · exact List.Nodup.filter _ List.nodup_range
    · intro c hc
      obtain ⟨w, hw, rfl, _, hl⟩ := (mem_cyclesOf c).mp hc
      refine ⟨hl, comp_nodup _ _ _, ?_, ?_⟩
      · unfold comp; exact List.Pairwise.filter _ List.pairwise_lt_range
      · intro x hx; exact ((mem_comp hok hw x).mp hx).1
    · intro c₁ h₁ c₂ h₂ x hx₁ hx₂
      obtain ⟨a, ha, rfl, _, _⟩ := (mem_cyclesOf c₁).mp h₁
      obtain ⟨b, hb, rfl, _, _⟩ := (mem_cyclesOf c₂).mp h₂
      have m1 := ((mem_comp hok ha x).mp hx₁).2
      have m2 := ((mem_comp hok hb x).mp hx₂).2
      exact comp_congr hok ha hb (m1.trans m2.symm)
  · cases h

/-- **C11 (statistics).** Cycle count, per-cycle size and size-based severity follow from the partition;
the number of modules in cycles is the sum of the sizes (the cycles are disjoint). -/
theorem C11_stats (g : G) (cs : List (List Nat)) :
    (stats g cs).totalCycles = cs.length ∧
    (stats g cs).sizes = cs.map List.length ∧
    (stats g cs).modulesInCycles = (cs.map List.length).sum ∧
    (stats g cs).severities = cs.map (fun c => severity c.length (hasCore g c)) := ⟨rfl, rfl, rfl, rfl⟩

/-- **C11 (severity).** low / medium / high / critical exactly by the size thresholds 3 / 6 / 10
(literals), critical also when a member has fan-in above 10. -/
theorem C11_severity (size : Nat) (core : Bool) :
    severity size core =
      (if core = true ∨ 10 ≤ size then "critical" else if 6 ≤ size then "high" else if 3 ≤ size then "medium" else "low") := by
  unfold severity
  cases core <;> simp

/-- non-vacuity: a concrete graph with a 3-cycle, a 2-cycle, a self-import and a tail -/
example : cycles { n := 7, edges := [(0,1),(1,2),(2,0),(3,4),(4,3),(5,5),(2,3),(6,0)] } = some [[0,1,2],[3,4]] := by
  decide

/-! ### Totality: the certified closure never runs out of fuel (every round that is not yet closed covers the target of at least one more edge) -/

/-- number of edges whose target is not yet in the set -/
def uncovered (g : G) (R : List Nat) : Nat := (g.edges.filter fun e => !R.contains e.2).length

theorem uncovered_le (g : G) (R : List Nat) : uncovered g R ≤ g.edges.length := List.length_filter_le _ _

theorem filter_length_lt {α : Type} (p q : α → Bool) (l : List α) (himp : ∀ x ∈ l, q x = true → p x = true)
    (x : α) (hx : x ∈ l) (hp : p x = true) (hq : q x = false) : (l.filter q).length < (l.filter p).length := by
  induction l with
  | nil => cases hx
  | cons a l ih =>
    simp only [List.filter_cons]
    rcases List.mem_cons.mp hx with rfl | hx'
    · have hle : (l.filter q).length ≤ (l.filter p).length := by
        clear ih hx
        induction l with
        | nil => simp
        | cons b l ihl =>
          simp only [List.filter_cons]
          have hb := himp b (List.mem_cons_of_mem _ List.mem_cons_self)
          have := ihl (fun y hy => himp y (by
            rcases List.mem_cons.mp hy with rfl | h
            · exact List.mem_cons_self
            · exact List.mem_cons_of_mem _ (List.mem_cons_of_mem _ h)))
          by_cases hqb : q b = true
          · simp [hqb, hb hqb]; omega
          · by_cases hpb : p b = true <;> simp [hqb, hpb] <;> omega
      simp [hp, hq]; omega
    · have := ih (fun y hy => himp y (List.mem_cons_of_mem _ hy)) hx'
      have ha := himp a List.mem_cons_self
      by_cases hqa : q a = true
      · simp [hqa, ha hqa]; omega
      · by_cases hpa : p a = true <;> simp [hqa, hpa] <;> omega

theorem uncovered_expand_lt (g : G) (R : List Nat) (h : closed g R = false) : uncovered g (expand g R) < uncovered g R := by
  unfold closed at h
  rw [List.all_eq_false] at h
  obtain ⟨e, he, hbad⟩ := h
  have h1 : R.contains e.1 = true ∧ R.contains e.2 = false := by
    have hb : e.1 ∈ R ∧ ¬ e.2 ∈ R := by simpa using hbad
    exact ⟨by simpa using hb.1, by simpa using hb.2⟩
  unfold uncovered
  apply filter_length_lt (fun x => !R.contains x.2) (fun x => !(expand g R).contains x.2) g.edges _ e he (by rw [h1.2]; rfl)
  · -- e.2 is in the expanded set
    have : e.2 ∈ expand g R := mem_expand.mpr (.inr ⟨e, he, by simpa using h1.1, rfl⟩)
    simp [this]
  · intro x _ hx
    have hx' : x.2 ∉ expand g R := by simpa using hx
    have : x.2 ∉ R := fun hR => hx' (mem_expand.mpr (.inl hR))
    simpa using this

/-- enough fuel ⇒ the closure returns -/
theorem closure_total (g : G) : ∀ (m : Nat) (R : List Nat), uncovered g R ≤ m → ∀ f, m ≤ f → ∃ S, closure g f R = some S := by
  intro m
  induction m with
  | zero =>
    intro R hm f _
    have hc : closed g R = true := by
      by_contra hne
      have hf : closed g R = false := by simpa using hne
      have := uncovered_expand_lt g R hf
      omega
    cases f with
    | zero => exact ⟨R, by simp [closure, hc]⟩
    | succ f => exact ⟨R, by simp [closure, hc]⟩
  | succ m ih =>
    intro R hm f hf
    cases f with
    | zero => omega
    | succ f =>
      by_cases hc : closed g R = true
      · exact ⟨R, by simp [closure, hc]⟩
      · have hc' : closed g R = false := by simpa using hc
        have hlt := uncovered_expand_lt g R hc'
        obtain ⟨S, hS⟩ := ih (expand g R) (by omega) f (by omega)
        exact ⟨S, by simp [closure, hc', hS]⟩

/-- **The model is total**: the certified closure never runs out of fuel, so `cycles` and `classes` always return. -/
theorem C11_total (g : G) : (∃ cs, cycles g = some cs) ∧ (∃ cs, classes g = some cs) := by
  have hall : tableOk (reachTable g) = true := by
    unfold tableOk reachTable
    rw [List.all_eq_true]
    intro o ho
    obtain ⟨u, _, rfl⟩ := List.mem_map.mp ho
    unfold reachSet
    obtain ⟨S, hS⟩ := closure_total g g.edges.length [u] (uncovered_le g [u]) (g.n + g.edges.length + 1) (by omega)
    rw [hS]; rfl
  exact ⟨⟨cyclesOf g (reachTable g), by simp [cycles, hall]⟩, ⟨classesOf g (reachTable g), by simp [classes, hall]⟩⟩

end PV.C11
