import PV.Proofs.GlobSpec
/-!
# C18x — what a selection pattern MEANS, and that the matcher of the model decides exactly that

`PV.Files.globSeg` / `globComps` (validated against the real `doublestar.Match` differentially) are tied to a declarative
specification (`PV.Files.MatchSeg` / `MatchComps`, `PV/Proofs/GlobSpec.lean`), the specification is given closed forms a reader can
check at a glance, and the shipped default patterns (`include = ["**/*.py", "*.pyi"]`, `exclude = ["test_*.py", "*_test.py"]`) are
characterised completely.
-/
namespace PV.C18
open PV.Files

/-! ## the matcher decides the specification -/

/-- **the segment matcher decides `MatchSeg`** (literal = itself, `?` = one character, `*` = any string) -/
theorem C18_globSeg_spec (p s : List Char) : globSeg p s = true ↔ MatchSeg p s := globSeg_iff p s

/-- **the component matcher decides `MatchComps`** (`**` = any number of components, any other component = exactly one) -/
theorem C18_globComps_spec (ps cs : List String) : globComps ps cs = true ↔ MatchComps ps cs := globComps_iff ps cs

/-- `glob` cuts the pattern at `/` -/
theorem C18_glob_spec (pattern : String) (path : List String) :
    glob pattern path = true ↔ MatchComps (pattern.splitOn "/") path := glob_iff pattern path

/-- `matchesPattern`: with a `/` the pattern describes the relative path, without one the file name alone -/
theorem C18_matchesPattern_spec (pattern : String) (rel : List String) :
    matchesPattern pattern rel = true ↔
      if '/' ∈ pattern.toList then MatchComps (pattern.splitOn "/") rel
      else MatchComps (pattern.splitOn "/") [rel.getLast?.getD ""] := matchesPattern_iff pattern rel

/-! ## closed forms of the specification -/

/-- **`*`** stands for any string (possibly empty), then the rest of the pattern describes the rest of the segment -/
theorem C18_star_splits (p s : List Char) : MatchSeg ('*' :: p) s ↔ ∃ s₁ s₂, s = s₁ ++ s₂ ∧ MatchSeg p s₂ :=
  matchSeg_star_iff p s

/-- **`?`** stands for exactly one character -/
theorem C18_question_splits (p s : List Char) : MatchSeg ('?' :: p) s ↔ ∃ c t, s = c :: t ∧ MatchSeg p t :=
  matchSeg_one_iff p s

/-- a literal character stands for itself -/
theorem C18_literal_char (a : Char) (h1 : a ≠ '*') (h2 : a ≠ '?') (p s : List Char) :
    MatchSeg (a :: p) s ↔ ∃ t, s = a :: t ∧ MatchSeg p t := matchSeg_lit_iff h1 h2 p s

/-- **`**`** stands for any number of components (possibly none), then the rest of the pattern describes the rest of the path -/
theorem C18_doublestar_splits (ps cs : List String) :
    MatchComps ("**" :: ps) cs ↔ ∃ cs₁ cs₂, cs = cs₁ ++ cs₂ ∧ MatchComps ps cs₂ := matchComps_doublestar_iff ps cs

/-- any other component takes exactly one path component: `*` and `?` never cross a `/` -/
theorem C18_component_splits (p : String) (hp : p ≠ "**") (ps cs : List String) :
    MatchComps (p :: ps) cs ↔ ∃ c cs', cs = c :: cs' ∧ MatchSeg p.toList c.toList ∧ MatchComps ps cs' :=
  matchComps_comp_iff hp ps cs

/-- **a pattern without wildcards describes itself and nothing else** -/
theorem C18_literal (p s : List Char) (hp : ∀ c ∈ p, c ≠ '*' ∧ c ≠ '?') : MatchSeg p s ↔ s = p := matchSeg_literal hp s

/-- **`*suffix`**: exactly the segments that end in the suffix -/
theorem C18_suffix_pattern (suf s : List Char) (hs : ∀ c ∈ suf, c ≠ '*' ∧ c ≠ '?') :
    MatchSeg ('*' :: suf) s ↔ ∃ pre, s = pre ++ suf := matchSeg_star_suffix hs s

/-- **`prefix*suffix`**: exactly the segments `prefix ++ anything ++ suffix` … -/
theorem C18_prefix_suffix_pattern (pre suf s : List Char) (hp : ∀ c ∈ pre, c ≠ '*' ∧ c ≠ '?') (hs : ∀ c ∈ suf, c ≠ '*' ∧ c ≠ '?') :
    MatchSeg (pre ++ '*' :: suf) s ↔ ∃ mid, s = pre ++ (mid ++ suf) := matchSeg_prefix_star_suffix hp hs s

/-- … that is: starts with the prefix, ends in the suffix, and the two do not overlap -/
theorem C18_prefix_suffix_pattern_iff (pre suf s : List Char) (hp : ∀ c ∈ pre, c ≠ '*' ∧ c ≠ '?') (hs : ∀ c ∈ suf, c ≠ '*' ∧ c ≠ '?') :
    MatchSeg (pre ++ '*' :: suf) s ↔ pre <+: s ∧ suf <:+ s ∧ pre.length + suf.length ≤ s.length :=
  matchSeg_prefix_star_suffix_iff hp hs s

/-- `*` alone accepts every segment (so there is no way to ask for a literal `*`), `**` alone every path -/
theorem C18_star_all (s : List Char) (cs : List String) : globSeg ['*'] s = true ∧ globComps ["**"] cs = true :=
  ⟨(globSeg_iff _ _).mpr (matchSeg_star_all s), (globComps_iff _ _).mpr (matchComps_doublestar_all cs)⟩

/-- **the language reading**: the segment is the concatenation of one piece per pattern element — any string for `*`, one character
for `?`, the character itself otherwise -/
theorem C18_seg_pieces (p s : List Char) : globSeg p s = true ↔ ∃ ws, SegPieces p ws ∧ s = ws.flatten := by
  rw [globSeg_iff]; exact matchSeg_iff_pieces p s

/-- … and the path is the concatenation of one run of components per pattern component — any run for `**`, one component the
pattern component describes otherwise -/
theorem C18_comps_pieces (ps cs : List String) : globComps ps cs = true ↔ ∃ ws, CompPieces ps ws ∧ cs = ws.flatten := by
  rw [globComps_iff]; exact matchComps_iff_pieces ps cs

/-! ## the shipped default patterns -/

/-- `**/q`: any directories (none included), then a file name described by `q` -/
theorem C18_doublestar_name (q : String) (hq : q ≠ "**") (cs : List String) :
    globComps ["**", q] cs = true ↔ ∃ dirs f, cs = dirs ++ [f] ∧ MatchSeg q.toList f.toList := by
  rw [globComps_iff]; exact matchComps_doublestar_single_iff hq cs

/-- a pattern without `/` (that `splitOn` leaves whole and that is not `**`) describes the file NAME, at any depth -/
theorem C18_name_pattern (pat : String) (hs : '/' ∉ pat.toList) (hsplit : pat.splitOn "/" = [pat]) (hne : pat ≠ "**")
    (dirs : List String) (f : String) :
    matchesPattern pat (dirs ++ [f]) = true ↔ MatchSeg pat.toList f.toList := by
  rw [matchesPattern_iff, if_neg hs, hsplit, List.getLast?_concat, Option.getD_some, matchComps_single_iff hne]
  exact ⟨fun ⟨c, e, h⟩ => by cases e; exact h, fun h => ⟨f, rfl, h⟩⟩

/-- **default include `**/*.py`, exactly**: the non-empty paths whose last component ends in `.py`, whatever the directories -/
theorem C18_default_include_iff (rel : List String) :
    matchesPattern "**/*.py" rel = true ↔ ∃ dirs f pre, rel = dirs ++ [f] ∧ f.toList = pre ++ ".py".toList := by
  rw [matchesPattern_iff, if_pos (by decide), splitOn_py, matchComps_doublestar_single_iff (by decide)]
  have hl : Literal ".py".toList := by decide
  constructor
  · rintro ⟨dirs, f, rfl, h⟩
    obtain ⟨pre, e⟩ := (matchSeg_star_suffix hl _).mp h
    exact ⟨dirs, f, pre, rfl, e⟩
  · rintro ⟨dirs, f, pre, rfl, e⟩
    exact ⟨dirs, f, rfl, (matchSeg_star_suffix hl _).mpr ⟨pre, e⟩⟩

/-- **default include**: every non-empty relative path whose last component ends in `.py` matches `**/*.py` -/
theorem C18_default_include (rel : List String) (hne : rel ≠ []) (pre : List Char)
    (h : (rel.getLast?.getD "").toList = pre ++ ".py".toList) : matchesPattern "**/*.py" rel = true := by
  rw [C18_default_include_iff]
  refine ⟨rel.dropLast, rel.getLast hne, pre, (List.dropLast_concat_getLast hne).symm, ?_⟩
  rw [List.getLast?_eq_some_getLast hne] at h
  exact h

/-- … at any depth, said with the directories in front -/
theorem C18_default_include_any_depth (dirs : List String) (f : String) (pre : List Char) (h : f.toList = pre ++ ".py".toList) :
    matchesPattern "**/*.py" (dirs ++ [f]) = true :=
  (C18_default_include_iff _).mpr ⟨dirs, f, pre, rfl, h⟩

/-- **default exclude `test_*.py`, exactly**: at any depth, the files named `test_` + anything + `.py` -/
theorem C18_default_exclude_test_prefix_iff (dirs : List String) (f : String) :
    matchesPattern "test_*.py" (dirs ++ [f]) = true ↔ ∃ x, f.toList = "test_".toList ++ (x ++ ".py".toList) := by
  rw [C18_name_pattern _ (by decide) splitOn_test_prefix (by decide)]
  exact matchSeg_prefix_star_suffix (pre := "test_".toList) (suf := ".py".toList) (by decide) (by decide) f.toList

/-- **default exclude**: a file named `test_<x>.py` matches `test_*.py` at ANY depth -/
theorem C18_default_exclude_any_depth (dirs : List String) (f : String) (x : List Char)
    (h : f.toList = "test_".toList ++ x ++ ".py".toList) : matchesPattern "test_*.py" (dirs ++ [f]) = true :=
  (C18_default_exclude_test_prefix_iff dirs f).mpr ⟨x, by rw [h, List.append_assoc]⟩

/-- **default exclude `*_test.py`, exactly**: at any depth, the files whose name ends in `_test.py` -/
theorem C18_default_exclude_test_suffix_iff (dirs : List String) (f : String) :
    matchesPattern "*_test.py" (dirs ++ [f]) = true ↔ ∃ pre, f.toList = pre ++ "_test.py".toList := by
  rw [C18_name_pattern _ (by decide) splitOn_test_suffix (by decide)]
  exact matchSeg_star_suffix (suf := "_test.py".toList) (by decide) f.toList

/-- **default include `*.pyi`, exactly**: at any depth, the files whose name ends in `.pyi` -/
theorem C18_default_include_pyi_iff (dirs : List String) (f : String) :
    matchesPattern "*.pyi" (dirs ++ [f]) = true ↔ ∃ pre, f.toList = pre ++ ".pyi".toList := by
  rw [C18_name_pattern _ (by decide) splitOn_pyi (by decide)]
  exact matchSeg_star_suffix (suf := ".pyi".toList) (by decide) f.toList

/-- **the shipped defaults together** (`analyze`: include `**/*.py`, `*.pyi`; exclude `test_*.py`, `*_test.py`): a file passes the
pattern filter iff its NAME ends in `.py` or `.pyi`, is not `test_….py` and does not end in `_test.py` — the directories play no part -/
theorem C18_default_included_iff (dirs : List String) (f : String) :
    included ["**/*.py", "*.pyi"] ["test_*.py", "*_test.py"] (dirs ++ [f]) = true ↔
      ((∃ pre, f.toList = pre ++ ".py".toList) ∨ (∃ pre, f.toList = pre ++ ".pyi".toList)) ∧
      ¬ (∃ x, f.toList = "test_".toList ++ (x ++ ".py".toList)) ∧ ¬ (∃ pre, f.toList = pre ++ "_test.py".toList) := by
  have hpy : matchesPattern "**/*.py" (dirs ++ [f]) = true ↔ ∃ pre, f.toList = pre ++ ".py".toList := by
    rw [C18_default_include_iff]
    constructor
    · rintro ⟨dirs', f', pre, e, h⟩
      obtain ⟨_, e'⟩ := List.append_inj' e rfl
      cases e'
      exact ⟨pre, h⟩
    · rintro ⟨pre, h⟩; exact ⟨dirs, f, pre, rfl, h⟩
  unfold included
  simp only [List.any_cons, List.any_nil, Bool.or_false, List.isEmpty_cons, Bool.false_or, Bool.and_eq_true, Bool.not_eq_true',
    Bool.or_eq_true, ← Bool.not_eq_true, hpy, C18_default_include_pyi_iff,
    C18_default_exclude_test_prefix_iff, C18_default_exclude_test_suffix_iff]
  constructor
  · rintro ⟨h12, h3⟩; exact ⟨h3, fun h => h12 (Or.inl h), fun h => h12 (Or.inr h)⟩
  · rintro ⟨h3, h1, h2⟩; exact ⟨fun h => h.elim h1 h2, h3⟩

/-! ## evaluated examples (non-vacuity) -/

section examples

-- the executable matcher, evaluated
example : globSeg "test_*.py".toList "test_a.py".toList = true := by simp [globSeg]
example : globSeg "test_*.py".toList "test_.py".toList = true := by simp [globSeg]
example : globSeg "test_*.py".toList "test.py".toList = false := by simp [globSeg]
example : globSeg "*.py".toList "a.pyi".toList = false := by simp [globSeg]
example : globSeg "a?c".toList "abc".toList = true ∧ globSeg "a?c".toList "ac".toList = false := by simp [globSeg]
example : globSeg "a*".toList "a*".toList = true ∧ globSeg "a*".toList "ab".toList = true := by simp [globSeg]
example : globComps ["**", "*.py"] ["m.py"] = true := by simp [globComps, globSeg]
example : globComps ["**", "*.py"] ["pkg", "sub", "m.py"] = true := by simp [globComps, globSeg]
example : globComps ["**", "*.py"] ["pkg", "sub", "m.txt"] = false := by simp [globComps, globSeg]
example : globComps ["src", "*.py"] ["src", "sub", "m.py"] = false := by simp [globComps, globSeg]
example : globComps ["src", "**", "*.py"] ["src", "sub", "m.py"] = true := by simp [globComps, globSeg]

-- the specification, derived by its rules
example : MatchSeg "*.py".toList "m.py".toList :=
  .star_more 'm' (.star_zero (.lit (by decide) (by decide) (.lit (by decide) (by decide) (.lit (by decide) (by decide) .nil))))
example : ¬ MatchSeg "*.py".toList "m.pyc".toList := by
  rw [show "*.py".toList = '*' :: ".py".toList by decide, matchSeg_star_suffix_iff_isSuffix (by decide)]; decide
example : MatchComps ["**", "*.py"] ["pkg", "m.py"] :=
  .dstar_more "pkg" (.dstar_zero (.comp (by decide) ((globSeg_iff _ _).mp (by simp [globSeg])) .nil))

-- the theorems about the defaults, instantiated
example : matchesPattern "**/*.py" ["pkg", "sub", "m.py"] = true :=
  C18_default_include _ (by decide) ['m'] (by decide)
example : matchesPattern "**/*.py" ["m.py"] = true := C18_default_include_any_depth [] "m.py" ['m'] (by decide)
example : matchesPattern "test_*.py" ["a", "b", "c", "test_x.py"] = true :=
  C18_default_exclude_any_depth ["a", "b", "c"] "test_x.py" ['x'] (by decide)
example : matchesPattern "*_test.py" ["a", "x_test.py"] = true :=
  (C18_default_exclude_test_suffix_iff ["a"] "x_test.py").mpr ⟨['x'], by decide⟩
example : included ["**/*.py", "*.pyi"] ["test_*.py", "*_test.py"] ["pkg", "m.py"] = true := by
  simp [included, matchesPattern, String.contains_char_eq, glob, splitOn_py, splitOn_pyi, splitOn_test_prefix, splitOn_test_suffix,
    globComps, globSeg]
example : included ["**/*.py", "*.pyi"] ["test_*.py", "*_test.py"] ["pkg", "test_m.py"] = false := by
  simp [included, matchesPattern, String.contains_char_eq, glob, splitOn_py, splitOn_pyi, splitOn_test_prefix, splitOn_test_suffix,
    globComps, globSeg]

end examples

end PV.C18
