import PV.Proofs.EditScriptZS
/-!
# C07 (edit scripts) — the distance IS the minimum total cost of an edit script

`PV/Properties/C07.lean` proves facts about the forest-distance RECURSION `PV.TED.ted`; `C07x.lean`
ties the Zhang–Shasha mirror `PV.ZS.zsDist` to it.  This file closes the remaining gap to the property
as users read it: "the distance equals the minimum total cost of node insertions, deletions and
relabelings that transform one tree into the other under the selected cost model".

Definitions (`PV/Model/EditScript.lean`, core-only, independent of the recursion):
* `Step c F G k` — ONE operation turns forest `F` into forest `G` at cost `k`: relabel a node
  (`c.ren a b`), delete a node, its children being spliced into its parent's child list — or into
  the top-level forest — at its position (`c.del a`), insert a node that adopts a consecutive,
  possibly empty, run of siblings and takes their place (`c.ins b`); at any position, at any depth;
* `Script c F G k` — finitely many operations from `F` to `G`, costs added;
* `Metric c` — `ren a a = 0`, `ren a d ≤ ren a b + ren b d`, `del a ≤ ren a b + del b`,
  `ins b ≤ ins a + ren a b`.
Forests are in NORMAL left-to-right order here; `ted` takes its two top-level forests REVERSED
(children lists are in normal order in both), so the distance of `F`, `G` is
`tedN c F G = ted c F.reverse G.reverse`; for single trees `dist c t₁ t₂ = tedN c [t₁] [t₂]` by `rfl`.

Results: achievability holds for EVERY cost model; optimality needs `Metric c`, and each of its
clauses is necessary (`C07_nonmetric_*`).  pyscn's shipped `PythonCostModel` is not a metric
(`C07_pyLike_counterexample`), so for it the reported distance is the value of the recursion — the
minimum over Tai MAPPINGS, in which every node is touched at most once — and can exceed the cheapest
multi-operation script.
-/
namespace PV.C07
open PV.TED PV.ZS PV.EditScript

/-- **C07 (scripts, achievability).** For EVERY cost model and all forests there is an edit script
from `F` to `G` whose total cost is exactly the value of the recursion. -/
theorem C07_script_achieves (c : Cost) (F G : List Tree) :
    ∃ k, Script c F G k ∧ k = ted c F.reverse G.reverse :=
  ⟨_, script_achieves c F G, rfl⟩

/-- **C07 (triangle inequality).** Under a metric cost model the recursion satisfies the triangle
inequality (in `ted`'s own convention; no reversal involved). -/
theorem C07_triangle (c : Cost) (hm : Metric c) (F G H : List Tree) :
    ted c F H ≤ ted c F G + ted c G H :=
  ted_triangle c hm F G H

/-- **C07 (one operation).** If relabelling a node to itself is free, a single operation of cost `k`
moves the forest by distance at most `k`. -/
theorem C07_step_le (c : Cost) (h0 : ∀ a, c.ren a a = 0) (F G : List Tree) (k : Nat)
    (s : Step c F G k) : ted c F.reverse G.reverse ≤ k :=
  step_ted_le c h0 s

/-- **C07 (scripts, optimality).** Under a metric cost model NO edit script from `F` to `G` is cheaper
than the value of the recursion. -/
theorem C07_script_optimal (c : Cost) (hm : Metric c) (F G : List Tree) (k : Nat)
    (s : Script c F G k) : ted c F.reverse G.reverse ≤ k :=
  script_optimal c hm s

/-- **C07 (minimum script cost, forests).** Under a metric cost model the recursion's value is the
minimum of the set of total costs of edit scripts from `F` to `G`: it is attained and it is a lower
bound. -/
theorem C07_min_script (c : Cost) (hm : Metric c) (F G : List Tree) :
    (∃ k, Script c F G k ∧ k = ted c F.reverse G.reverse) ∧
    (∀ k, Script c F G k → ted c F.reverse G.reverse ≤ k) :=
  ted_is_min_script c hm F G

/-- **C07 (minimum script cost, trees).** `dist c t₁ t₂` is the minimum total cost of insertions,
deletions and relabelings transforming `t₁` into `t₂`, under a metric cost model. -/
theorem C07_min_script_tree (c : Cost) (hm : Metric c) (t₁ t₂ : Tree) :
    (∃ k, Script c [t₁] [t₂] k ∧ k = dist c t₁ t₂) ∧
    (∀ k, Script c [t₁] [t₂] k → dist c t₁ t₂ ≤ k) :=
  dist_is_min_script c hm t₁ t₂

/-- **C07 (mirror, achievability).** The value computed by the Zhang–Shasha mirror is the total cost of
some edit script — for EVERY cost model (so the mirror never under-reports what its own alignment costs). -/
theorem C07_zs_script_achieves (c : Cost) (t₁ t₂ : Tree) : Script c [t₁] [t₂] (zsDist c t₁ t₂) :=
  zsDist_achieved c t₁ t₂

/-- **C07 (mirror = minimum script cost).** Under a metric cost model the Zhang–Shasha mirror of pyscn's
implementation computes the minimum total cost of an edit script between the two trees. -/
theorem C07_zs_min_script (c : Cost) (hm : Metric c) (t₁ t₂ : Tree) :
    (∃ k, Script c [t₁] [t₂] k ∧ k = zsDist c t₁ t₂) ∧
    (∀ k, Script c [t₁] [t₂] k → zsDist c t₁ t₂ ≤ k) :=
  zsDist_is_min_script c hm t₁ t₂

/-- **C07 (sanity of `Step`).** One operation changes the number of nodes by 0, −1 or +1. -/
theorem C07_step_size (c : Cost) (F G : List Tree) (k : Nat) (s : Step c F G k) :
    sizeL G = sizeL F ∨ sizeL G + 1 = sizeL F ∨ sizeL G = sizeL F + 1 :=
  step_size s

/-! ## the `Metric` hypothesis cannot be dropped -/

/-- **C07 (necessity of `del_tri`).** Whenever relabel-then-delete is cheaper than delete for some pair
of labels, a two-operation script is strictly cheaper than the recursion's value. -/
theorem C07_nonmetric_del (c : Cost) (a b : Nat) (h : c.ren a b + c.del b < c.del a) :
    ∃ k, Script c [.node a []] [] k ∧ k < ted c [.node a []] [] :=
  nonmetric_del c a b h

/-- **C07 (necessity of `ins_tri`).** -/
theorem C07_nonmetric_ins (c : Cost) (a b : Nat) (h : c.ins a + c.ren a b < c.ins b) :
    ∃ k, Script c [] [.node b []] k ∧ k < ted c [] [.node b []] :=
  nonmetric_ins c a b h

/-- **C07 (necessity of `ren_tri`)** (when the detour also beats delete + insert). -/
theorem C07_nonmetric_ren (c : Cost) (a b d : Nat) (h : c.ren a b + c.ren b d < c.ren a d)
    (h' : c.ren a b + c.ren b d < c.del a + c.ins d) :
    ∃ k, Script c [.node a []] [.node d []] k ∧ k < ted c [.node a []] [.node d []] :=
  nonmetric_ren c a b d h h'

/-- **C07 (necessity of `ren_self`)** (when delete + insert is not free either): the EMPTY script is
strictly cheaper than the recursion's value for a tree against itself. -/
theorem C07_nonmetric_ren_self (c : Cost) (a : Nat) (h : c.ren a a ≠ 0) (h' : c.del a + c.ins a ≠ 0) :
    ∃ k, Script c [.node a []] [.node a []] k ∧ k < ted c [.node a []] [.node a []] :=
  nonmetric_ren_self c a h h'

/-- **C07 (non-metric counter-example).** A concrete cost model violating `del a ≤ ren a b + del b`
(`badCost`: deleting label 0 costs 10, every other operation 1, identity relabelling 0): the
two-operation script relabel 0 ↦ 1, delete 1 costs 2 while the recursion's value is 10 — so optimality
FAILS without `Metric`, although `ren a a = 0` and the self-distance is 0. -/
theorem C07_nonmetric_counterexample :
    Script badCost [.node 0 []] [] 2 ∧ dist badCost (.node 0 []) (.node 0 []) = 0 ∧
    ted badCost [.node 0 []] [] = 10 ∧
    ¬ (∀ k, Script badCost [.node 0 []] [] k → ted badCost [.node 0 []] [] ≤ k) :=
  nonmetric_counterexample

/-- **C07 (pyscn-shaped cost model is not a metric).** With insert/delete multipliers 1.5 (structural)
and 0.1 (boilerplate) and rename cost capped at 1.0 — the defaults of the shipped `PythonCostModel` —
`del` violates the triangle inequality; on the tree pair "root with one structural leaf" vs "root" the
recursion (and by `C07_zs_correct` Zhang–Shasha) reports 1500 although a script of cost 1100 exists. -/
theorem C07_pyLike_counterexample :
    ¬ Metric pyLikeCost ∧
    zsDist pyLikeCost (.node 2 [.node 0 []]) (.node 2 []) = 1500 ∧
    Script pyLikeCost [.node 2 [.node 0 []]] [.node 2 []] 1100 := by
  refine ⟨pyLikeCost_not_metric, ?_, pyLike_counterexample.2⟩
  rw [PV.ZS.zs_correct]; exact pyLike_counterexample.1

/-- non-vacuity of `Metric`: the unit cost model is a metric -/
example : Metric ⟨fun _ => 1, fun _ => 1, fun a b => if a = b then 0 else 1⟩ := by
  refine ⟨fun a => by simp, fun a b d => ?_, fun a b => ?_, fun a b => ?_⟩
  · by_cases h1 : a = d <;> by_cases h2 : a = b <;> by_cases h3 : b = d <;> simp_all
  · simp only []; omega
  · simp only []; omega

/-- non-vacuity of `Metric`: a weighted, ASYMMETRIC cost model (insert ≠ delete) that is a metric -/
example : Metric ⟨fun a => 1000 + a, fun a => 900 + a, fun a b => if a = b then 0 else 800 + a + b⟩ := by
  refine ⟨fun a => by simp, fun a b d => ?_, fun a b => ?_, fun a b => ?_⟩
  all_goals simp only []
  · by_cases h1 : a = d <;> by_cases h2 : a = b <;> by_cases h3 : b = d <;> simp_all <;> omega
  · by_cases h : a = b <;> simp [h]; omega
  · by_cases h : a = b <;> simp [h]; omega

/-- the weighted test cost model `wCost` of `ZSCorrect` (insert `900 + 2a`) is NOT a metric: inserting
label 0 and relabelling it to 1000 (900 + 1800) is cheaper than inserting label 1000 (2900) -/
example : ¬ Metric PV.ZSProof.wCost := fun hm => by
  have := hm.ins_tri 0 1000
  simp [PV.ZSProof.wCost] at this

end PV.C07

#print axioms PV.C07.C07_script_achieves
#print axioms PV.C07.C07_triangle
#print axioms PV.C07.C07_step_le
#print axioms PV.C07.C07_script_optimal
#print axioms PV.C07.C07_min_script
#print axioms PV.C07.C07_min_script_tree
#print axioms PV.C07.C07_zs_script_achieves
#print axioms PV.C07.C07_zs_min_script
#print axioms PV.C07.C07_nonmetric_del
#print axioms PV.C07.C07_nonmetric_ins
#print axioms PV.C07.C07_nonmetric_ren
#print axioms PV.C07.C07_nonmetric_ren_self
#print axioms PV.C07.C07_nonmetric_counterexample
#print axioms PV.C07.C07_pyLike_counterexample
