import PV.Proofs.CFGSound4Top
/-!
# C01 (extension 2) — the mirror of pyscn's CFG builder is sound also for `try … finally` nested inside `finally` bodies

`C01_mirror_sound` / `C01_mirror_static` (C01x.lean) hold on the fragment `okL3 false false`, which excludes a `try` with a non-empty
`finally` inside a `finally` body: there `finallyPropagation` links the inner `finally` block to the FIRST outer `finally` whether or
not that one is being processed, while `targetFinally` / `targetFinallyLoop` skip contexts that are being processed.

**Decision by evaluation** (PV/Proofs/CFGSound4Eval.lean, CFGSound4Eval2.lean — not imported here): no counter-example.
Tested: every line of `sxL body` and every non-`elif`-head line of the semantic over-approximation `live body` is among
`liveLines (build .func …)`.
* exhaustive, blocks of leaves (simple / return / raise / break / continue), `try` (0 or 1 handler, `finally`), `for`, `if`,
  nesting depth 1: 91 programs of the fragment; nesting depth 2 (each statement alone, followed by a statement, and inside a loop):
  181 776 programs of the fragment (out of 3 × 163 680 candidates);
* randomised, all of the above plus `else` of `if` / loop / `try`, two handlers, lists of up to three statements:
  150 000 programs of nesting depth ≤ 3 (77 009 with `finally` in `finally`, 20 559 with three levels) and
  60 000 programs of nesting depth ≤ 4 (37 497 / 23 681).
No failure in any of the 391 867 programs.

**Proof** (PV/Proofs/CFGSound4.lean, namespace `PV.CFGSound.S4`): the stage-S3 development with the stack invariant changed from
"no context is processing its `finally`" to `PI`: the `finally` block of every context that is being processed has its propagation
edges — to the first outer `finally` (or EXIT) and, for the innermost loop if the context was opened inside it, to the first
`finally` opened inside that loop (or the loop's exit / header) — in the final graph.  These edges are added after the `finally`
body is built but they are part of the final edge set, so the invariant can be established before the body is visited.
With it, the block that the propagation links to reaches the block that `targetFinally*` compute (`chain_raise`, `chain_loop`), and
the two notions of "next target" agree up to reachability.

Fragment `okL4 false` = `okL3 false false` without the `inFin` conjunct; everything else identical (`break` / `continue` only inside a
loop of the same definition, `except` / `case` clauses only as members of `try` / `match`).
-/
namespace PV.C01
open PV.CFG PV.Py PV.CFGSound

/-- static form: every line of the summary `sxL` (⊇ `live`) has a located record in a block reachable from ENTRY -/
theorem C01_mirror_sound_finally_nested (k : Kind) (s e : Nat) (body : List Stmt) (hok : okL4 false body = true) :
    ∀ l ∈ (sxL body).lines, ∃ r ∈ (build k s e body).stmts, r.s = l ∧ r.blk ∈ reachable (build k s e body) :=
  build_sound4 k s e body hok

/-- against the semantics: every executed line is an `elif` head or has a located record in a reachable block -/
theorem C01_mirror_sound_finally_nested_exec (k : Kind) (s e : Nat) (body : List Stmt) (hok : okL4 false body = true) {o : Out}
    {tr : List Nat} (ex : Exec body o tr) :
    ∀ l ∈ tr, l ∈ (sxL body).skipped ∨ ∃ r ∈ (build k s e body).stmts, r.s = l ∧ r.blk ∈ reachable (build k s e body) :=
  mirror_sound4 k s e body hok ex

/-- in terms of the mirror's own output -/
theorem C01_mirror_live_finally_nested (k : Kind) (s e : Nat) (body : List Stmt) (hok : okL4 false body = true) {o : Out}
    {tr : List Nat} (ex : Exec body o tr) : ∀ l ∈ tr, l ∈ (sxL body).skipped ∨ l ∈ liveLines (build k s e body) := by
  intro l hl
  rcases mirror_sound4 k s e body hok ex l hl with h | ⟨r, hr, hs, hb⟩
  · exact .inl h
  · refine .inr ?_
    unfold liveLines
    exact List.mem_map.mpr ⟨r, List.mem_filter.mpr ⟨hr, by simpa using hb⟩, hs⟩

/-- the static summary covers the semantic over-approximation `live` on the larger fragment -/
theorem C01_live_le_sx_finally_nested (ss : List Stmt) (il : Bool) (hok : okL4 il ss = true) :
    ∀ l ∈ (live ss).lines, l ∈ (sxL ss).lines ∨ l ∈ (sxL ss).skipped :=
  live_le_sx4 ss il hok

/-- the new fragment contains the old one -/
theorem C01_okL4_of_okL3 (ss : List Stmt) (il f : Bool) (h : okL3 il f ss = true) : okL4 il ss = true := okL4_of_okL3 ss il f h

/-! ### evaluated examples -/
def covered (n : Nat) (body : List Stmt) : Bool :=
  (sxL body).lines.all (fun l => (liveLines (build .func 1 n body)).contains l)
def ranges' (fs : List Finding) : List (Nat × Nat) := fs.map (fun f => (f.s, f.e))

/-- `try … finally` inside a `finally` body
```
1  def f():
2      try:
3          a()
4      finally:
5          try:
6              b()
7          finally:
8              c()
9          d()
10     e()
``` -/
def exFinFin : List Stmt :=
  [.try_ 2 9 [.simple 3 3 [] false] [] [] [.try_ 5 8 [.simple 6 6 [] false] [] [] [.simple 8 8 [] false], .simple 9 9 [] false],
   .simple 10 10 [] false]
#guard okL4 false exFinFin && !okL3 false false exFinFin
#guard (sxL exFinFin).lines == [3, 6, 8, 9, 10] && covered 10 exFinFin && ranges' (findings (build .func 1 10 exFinFin)) == []

/-- inside a loop, `break` in the inner `finally`; the statement after the inner `try` is dead
```
1  def f():
2      for x in xs:
3          try:
4              a()
5          finally:
6              try:
7                  b()
8              finally:
9                  break
10             c()          # dead
11     d()
``` -/
def exFinLoopBrk : List Stmt :=
  [.loop 2 10 [.try_ 3 10 [.simple 4 4 [] false] [] []
      [.try_ 6 9 [.simple 7 7 [] false] [] [] [.brk 9 9], .simple 10 10 [] false]] [],
   .simple 11 11 [] false]
#guard okL4 false exFinLoopBrk && !okL3 false false exFinLoopBrk
#guard (sxL exFinLoopBrk).lines == [2, 4, 7, 9, 11] && covered 11 exFinLoopBrk
#guard ranges' (findings (build .func 1 11 exFinLoopBrk)) == [(10, 10)]

/-- `return` in the inner `try` body
```
1  def f():
2      try:
3          a()
4      finally:
5          try:
6              return 1
7          finally:
8              c()
9          d()
10     e()
``` -/
def exFinRet : List Stmt :=
  [.try_ 2 9 [.simple 3 3 [] false] [] [] [.try_ 5 8 [.ret 6 6 [] false] [] [] [.simple 8 8 [] false], .simple 9 9 [] false],
   .simple 10 10 [] false]
#guard okL4 false exFinRet && !okL3 false false exFinRet
#guard (sxL exFinRet).lines == [3, 6, 8, 9, 10] && covered 10 exFinRet

/-- three levels, `raise` in the innermost `try` body
```
1  def f():
2      try:
3          a()
4      finally:
5          try:
6              b()
7          finally:
8              try:
9                  raise E
10             finally:
11                 c()
12     d()
``` -/
def exFin3 : List Stmt :=
  [.try_ 2 11 [.simple 3 3 [] false] [] []
     [.try_ 5 11 [.simple 6 6 [] false] [] [] [.try_ 8 11 [.raise 9 9] [] [] [.simple 11 11 [] false]]],
   .simple 12 12 [] false]
#guard okL4 false exFin3 && !okL3 false false exFin3
#guard (sxL exFin3).lines == [3, 6, 9, 11, 12] && covered 12 exFin3

/-- handlers on both levels, `continue` in the inner handler, inside a loop
```
1  def f():
2      for x in xs:
3          try:
4              a()
5          except A:
6              raise
7          finally:
8              try:
9                  b()
10             except B:
11                 continue
12             finally:
13                 c()
14     d()
``` -/
def exFinHs : List Stmt :=
  [.loop 2 13 [.try_ 3 13 [.simple 4 4 [] false] [.handler 5 6 [.raise 6 6]] []
      [.try_ 8 13 [.simple 9 9 [] false] [.handler 10 11 [.cont 11 11]] [] [.simple 13 13 [] false]]] [],
   .simple 14 14 [] false]
#guard okL4 false exFinHs && !okL3 false false exFinHs
#guard (sxL exFinHs).lines == [2, 4, 5, 6, 9, 10, 11, 13, 14] && covered 14 exFinHs

-- the old fragment is inside the new one
#guard okL3 false false [.try_ 2 5 [.ret 3 3 [] false] [] [] [.simple 5 5 [] false]] &&
  okL4 false [.try_ 2 5 [.ret 3 3 [] false] [] [] [.simple 5 5 [] false]]

end PV.C01

#print axioms PV.C01.C01_mirror_sound_finally_nested
#print axioms PV.C01.C01_mirror_sound_finally_nested_exec
#print axioms PV.C01.C01_mirror_live_finally_nested
#print axioms PV.C01.C01_live_le_sx_finally_nested
#print axioms PV.C01.C01_okL4_of_okL3
