import PV.Model.Grouping
import PV.Properties.C11
import PV.Generated.GroupReportFacts
import PV.Generated.GroupDetectorFacts
import PV.Properties.GroupFactsExpected
import Mathlib.Data.List.Nodup
import Mathlib.Data.List.Perm.Subperm
import Mathlib.Data.List.Pairwise
/-!
# C10 — clone groups satisfy the contract of the selected grouping mode

`Conn θ ps` is connectivity in the graph whose edges are the pairs at or above the threshold.
Connected mode and k-core mode: theorems about the models `connectedGroups` / `kcoreGroups`
(the implementation's groups must EQUAL the model's, checked by the correspondence run).
Complete-linkage and star mode: soundness theorems for the checkers that are run on the
implementation's groups.
-/
namespace PV.C10
open PV.SCC PV.Grouping PV.C11

/-- connectivity through links at or above the threshold -/
inductive Conn (θ : Nat) (ps : List Pair) : Nat → Nat → Prop
  | refl (u : Nat) : Conn θ ps u u
  | step {u v w : Nat} : Conn θ ps u v → linked θ ps v w = true → Conn θ ps u w

theorem linked_symm {θ : Nat} {ps : List Pair} {u v : Nat} (h : linked θ ps u v = true) : linked θ ps v u = true := by
  unfold linked at *
  rw [List.any_eq_true] at *
  obtain ⟨p, hp, h⟩ := h
  refine ⟨p, hp, ?_⟩
  simp only [Bool.and_eq_true, Bool.or_eq_true, beq_iff_eq, decide_eq_true_eq] at *
  rcases h with ⟨⟨h1, h2⟩ | ⟨h1, h2⟩, h3⟩
  · exact ⟨.inr ⟨h1, h2⟩, h3⟩
  · exact ⟨.inl ⟨h1, h2⟩, h3⟩

theorem mem_linkGraph {n θ : Nat} {ps : List Pair} {keep : Nat → Bool} {a b : Nat} :
    (a, b) ∈ (linkGraph n θ ps keep).edges ↔ linked θ ps a b = true ∧ keep a = true ∧ keep b = true := by
  unfold linkGraph linked
  simp only [List.mem_flatMap, List.mem_filter, List.any_eq_true, Bool.and_eq_true, Bool.or_eq_true, beq_iff_eq,
    decide_eq_true_eq, List.mem_cons, Prod.mk.injEq, List.not_mem_nil, or_false]
  constructor
  · rintro ⟨p, ⟨hp, ⟨hθ, hku⟩, hkv⟩, ⟨rfl, rfl⟩ | ⟨rfl, rfl⟩⟩
    · exact ⟨⟨p, hp, .inl ⟨rfl, rfl⟩, hθ⟩, hku, hkv⟩
    · exact ⟨⟨p, hp, .inr ⟨rfl, rfl⟩, hθ⟩, hkv, hku⟩
  · rintro ⟨⟨p, hp, ⟨rfl, rfl⟩ | ⟨rfl, rfl⟩, hθ⟩, hka, hkb⟩
    · exact ⟨p, ⟨hp, ⟨hθ, hka⟩, hkb⟩, .inl ⟨rfl, rfl⟩⟩
    · exact ⟨p, ⟨hp, ⟨hθ, hkb⟩, hka⟩, .inr ⟨rfl, rfl⟩⟩

theorem reach_iff_conn {n θ : Nat} {ps : List Pair} {u v : Nat} :
    Reach (linkGraph n θ ps (fun _ => true)) u v ↔ Conn θ ps u v := by
  constructor
  · intro h
    induction h with
    | refl => exact Conn.refl _
    | step _ he ih => exact Conn.step ih (mem_linkGraph.mp he).1
  · intro h
    induction h with
    | refl => exact Reach.refl _
    | step _ he ih => exact Reach.step ih (mem_linkGraph.mpr ⟨he, rfl, rfl⟩)

theorem Conn.trans {θ : Nat} {ps : List Pair} {u v w : Nat} (h₁ : Conn θ ps u v) (h₂ : Conn θ ps v w) : Conn θ ps u w := by
  induction h₂ with
  | refl => exact h₁
  | step _ he ih => exact Conn.step ih he

theorem Conn.symm {θ : Nat} {ps : List Pair} {u v : Nat} (h : Conn θ ps u v) : Conn θ ps v u := by
  induction h with
  | refl => exact Conn.refl _
  | step _ he ih => exact Conn.trans (Conn.step (Conn.refl _) (linked_symm he)) ih

/-- **C10 (connected mode).** Two different fragments are in the same group iff they are connected
through pairs at or above the threshold; the groups are duplicate-free, pairwise disjoint, and have
at least two members: exactly the non-trivial connected components. -/
theorem C10_connected (n θ : Nat) (ps : List Pair) (gs : List (List Nat)) (h : connectedGroups n θ ps = some gs) :
    (∀ u v, u < n → v < n → u ≠ v → ((∃ g ∈ gs, u ∈ g ∧ v ∈ g) ↔ Conn θ ps u v)) ∧
    gs.Nodup ∧ (∀ g ∈ gs, 2 ≤ g.length ∧ g.Nodup) ∧
    (∀ g₁ ∈ gs, ∀ g₂ ∈ gs, ∀ x, x ∈ g₁ → x ∈ g₂ → g₁ = g₂) := by
  unfold connectedGroups at h
  have hp := C11_partition _ gs h
  refine ⟨?_, hp.1, fun g hg => ⟨(hp.2.1 g hg).1, (hp.2.1 g hg).2.1⟩, hp.2.2⟩
  intro u v hu hv hne
  rw [C11_spec _ gs h u v hu hv hne, reach_iff_conn, reach_iff_conn]
  exact ⟨fun h => h.1, fun h => ⟨h, h.symm⟩⟩

/-- connected mode always returns (the certified closure of the SCC model never runs out of fuel, `C11_total`) -/
theorem C10_connected_total (n θ : Nat) (ps : List Pair) : ∃ gs, connectedGroups n θ ps = some gs :=
  (C11_total _).1

/-- the report: the request filter `keep` (similarity range, enabled clone types) decides which pairs are
reported, and the groups are formed from exactly those pairs (service/clone_service.go after the F20 repair) -/
def reportGroups (n θ : Nat) (keep : Pair → Bool) (ps : List Pair) : Option (List (List Nat)) :=
  connectedGroups n θ (ps.filter keep)

/-- **C10 (report level).** In the report two different fragments share a group iff they are connected
through *reported* pairs at or above the grouping threshold — a pair the request filters out links nothing. -/
theorem C10_report (n θ : Nat) (keep : Pair → Bool) (ps : List Pair) (gs : List (List Nat))
    (h : reportGroups n θ keep ps = some gs) :
    (∀ u v, u < n → v < n → u ≠ v → ((∃ g ∈ gs, u ∈ g ∧ v ∈ g) ↔ Conn θ (ps.filter keep) u v)) ∧
    (∀ g ∈ gs, 2 ≤ g.length ∧ g.Nodup) ∧
    (∀ g₁ ∈ gs, ∀ g₂ ∈ gs, ∀ x, x ∈ g₁ → x ∈ g₂ → g₁ = g₂) :=
  let hc := C10_connected n θ (ps.filter keep) gs h
  ⟨hc.1, hc.2.2.1, hc.2.2.2⟩

/-- why the order of filtering and grouping matters (finding F20, the shape found on the pinned tree): two exact
pairs {0,2} and {1,3} and two Type-3 cross pairs at 74 %; with Type-3 filtered out of the report, grouping the
*unfiltered* pairs still yields one group of four, grouping the reported pairs yields the two groups -/
example :
    let ps : List Pair := [⟨0, 2, 100⟩, ⟨1, 3, 100⟩, ⟨0, 3, 74⟩, ⟨1, 2, 74⟩]
    connectedGroups 4 65 ps = some [[0, 1, 2, 3]] ∧ reportGroups 4 65 (fun p => decide (75 ≤ p.sim)) ps = some [[0, 2], [1, 3]] := by
  decide

/-- **Tie (regenerated).** The service filters the detector's pairs by the request, then groups exactly the kept pairs with the
configured strategy (the shape `reportGroups` models); the later per-group filter can only drop whole groups. -/
theorem C10_facts :
    Generated.GroupReportFacts.DetectClonesInFiles = GroupFactsExpected.GroupReportFacts_DetectClonesInFiles ∧
    Generated.GroupReportFacts.filterDetectedPairs = GroupFactsExpected.GroupReportFacts_filterDetectedPairs ∧
    Generated.GroupDetectorFacts.GroupClonePairs = GroupFactsExpected.GroupDetectorFacts_GroupClonePairs ∧
    Generated.GroupDetectorFacts.configuredGroupingStrategy = GroupFactsExpected.GroupDetectorFacts_configuredGroupingStrategy ∧
    Generated.GroupDetectorFacts.groupClonesWithStrategy = GroupFactsExpected.GroupDetectorFacts_groupClonesWithStrategy :=
  ⟨rfl, rfl, rfl, rfl, rfl⟩

/-! ## k-core -/

theorem peel_fix {θ k : Nat} {ps : List Pair} : ∀ (f : Nat) (R S : List Nat), peel θ k ps f R = some S →
    peelStep θ k ps S = S ∧ (∀ x ∈ S, x ∈ R) ∧ (R.Nodup → S.Nodup)
  | 0, R, S, h => by
    unfold peel at h; split at h
    · next hc => cases h; exact ⟨by simpa using hc, fun _ hx => hx, id⟩
    · cases h
  | f + 1, R, S, h => by
    unfold peel at h; split at h
    · next hc => cases h; exact ⟨by simpa using hc, fun _ hx => hx, id⟩
    · obtain ⟨h1, h2, h3⟩ := peel_fix f _ S h
      refine ⟨h1, fun x hx => ?_, fun hR => h3 ?_⟩
      · have := h2 x hx; unfold peelStep at this; exact (List.mem_filter.mp this).1
      · unfold peelStep; exact List.Nodup.filter _ hR

/-- **C10 (k-core mode).** In every group every member has at least `k` neighbours (links at or above
the threshold) inside its own group; groups are duplicate-free, disjoint, with ≥ 2 members. -/
theorem C10_kcore (n θ k : Nat) (ps : List Pair) (gs : List (List Nat)) (h : kcoreGroups n θ k ps = some gs) :
    (∀ g ∈ gs, ∀ u ∈ g, k ≤ degIn θ ps g u) ∧
    gs.Nodup ∧ (∀ g ∈ gs, 2 ≤ g.length ∧ g.Nodup) ∧
    (∀ g₁ ∈ gs, ∀ g₂ ∈ gs, ∀ x, x ∈ g₁ → x ∈ g₂ → g₁ = g₂) := by
  unfold kcoreGroups at h
  split at h
  · cases h
  · next R hR =>
    obtain ⟨hfix, hsub, hnd⟩ := peel_fix _ _ R hR
    have hRn : ∀ x ∈ R, x < n := fun x hx => List.mem_range.mp (List.mem_filter.mp (hsub x hx)).1
    have hRnd : R.Nodup := hnd (List.Nodup.filter _ List.nodup_range)
    have hdeg : ∀ u ∈ R, k ≤ degIn θ ps R u := by
      intro u hu
      have : u ∈ peelStep θ k ps R := by rw [hfix]; exact hu
      unfold peelStep at this
      simpa using (List.mem_filter.mp this).2
    have hp := C11_partition _ gs h
    refine ⟨?_, hp.1, fun g hg => ⟨(hp.2.1 g hg).1, (hp.2.1 g hg).2.1⟩, hp.2.2⟩
    intro g hg u hug
    have hun : u < n := (hp.2.1 g hg).2.2.2 u hug
    -- u has a partner, hence an outgoing edge, hence it survived the peeling
    obtain ⟨v, _, hvu, h1, _⟩ := (C11_single _ gs h u hun).mp ⟨g, hg, hug⟩
    have huR : u ∈ R := by
      have : ∀ {a b}, Reach (linkGraph n θ ps (fun u => R.contains u)) a b → a ≠ b → a ∈ R := by
        intro a b hr
        induction hr with
        | refl => intro hh; exact absurd rfl hh
        | @step v' w' hr' he ih =>
          intro hne
          by_cases hav : a = v'
          · subst hav; simpa using (mem_linkGraph.mp he).2.1
          · exact ih hav
      exact this h1 (Ne.symm hvu)
    -- every neighbour of u inside R lies in g
    have hNsub : ∀ x ∈ R.filter (fun v => v != u && linked θ ps u v), x ∈ g.filter (fun v => v != u && linked θ ps u v) := by
      intro x hx
      obtain ⟨hxR, hx2⟩ := List.mem_filter.mp hx
      have hxu : x ≠ u := by
        simp only [Bool.and_eq_true, bne_iff_ne, ne_eq] at hx2; exact hx2.1
      have hl : linked θ ps u x = true := by
        simp only [Bool.and_eq_true] at hx2; exact hx2.2
      have e1 : (u, x) ∈ (linkGraph n θ ps (fun u => R.contains u)).edges :=
        mem_linkGraph.mpr ⟨hl, by simpa using huR, by simpa using hxR⟩
      have e2 : (x, u) ∈ (linkGraph n θ ps (fun u => R.contains u)).edges :=
        mem_linkGraph.mpr ⟨linked_symm hl, by simpa using hxR, by simpa using huR⟩
      obtain ⟨c, hc, huc, hxc⟩ := (C11_spec _ gs h u x hun (hRn x hxR) (Ne.symm hxu)).mpr
        ⟨Reach.step (Reach.refl _) e1, Reach.step (Reach.refl _) e2⟩
      have : c = g := hp.2.2 c hc g hg u huc hug
      subst this
      exact List.mem_filter.mpr ⟨hxc, hx2⟩
    have hNnd : (R.filter (fun v => v != u && linked θ ps u v)).Nodup := List.Nodup.filter _ hRnd
    have := (List.subperm_of_subset hNnd hNsub).length_le
    exact Nat.le_trans (hdeg u huR) this

/-- the clamp `k < 2 ↦ 2` only strengthens the guarantee: with the effective k, members still have ≥ k neighbours -/
theorem C10_kcore_effK (n θ k : Nat) (ps : List Pair) (gs : List (List Nat)) (h : kcoreGroups n θ (effK k) ps = some gs) :
    ∀ g ∈ gs, ∀ u ∈ g, k ≤ degIn θ ps g u := by
  intro g hg u hu
  have := (C10_kcore n θ (effK k) ps gs h).1 g hg u hu
  have hk : k ≤ effK k := by unfold effK; split <;> omega
  omega

/-! ## checkers (run on the implementation's output) -/

/-- **C10 (common).** `checkCommon` accepts only duplicate-free, pairwise disjoint groups with ≥ 2 members. -/
theorem C10_common_sound (gs : List (List Nat)) (h : checkCommon gs = true) :
    (∀ g ∈ gs, 2 ≤ g.length ∧ g.Nodup) ∧ (∀ g₁ ∈ gs, ∀ g₂ ∈ gs, g₁ ≠ g₂ → ∀ x, x ∈ g₁ → x ∈ g₂ → False) := by
  unfold checkCommon at h
  simp only [Bool.and_eq_true, List.all_eq_true, decide_eq_true_eq] at h
  obtain ⟨h1, h2⟩ := h
  rw [List.nodup_flatten] at h2
  refine ⟨fun g hg => ⟨h1 g hg, h2.1 g hg⟩, ?_⟩
  intro g₁ hg₁ g₂ hg₂ hne x hx₁ hx₂
  have : Std.Symm (List.Disjoint (α := Nat)) := ⟨fun _ _ h _ hb ha => h ha hb⟩
  exact (h2.2.forall hg₁ hg₂ hne) hx₁ hx₂

/-- **C10 (complete linkage).** Accepted groups have every two different members linked at or above θ. -/
theorem C10_complete_sound (θ : Nat) (ps : List Pair) (gs : List (List Nat)) (h : checkComplete θ ps gs = true) :
    ∀ g ∈ gs, ∀ u ∈ g, ∀ v ∈ g, u ≠ v → linked θ ps u v = true := by
  intro g hg u hu v hv hne
  unfold checkComplete at h
  have := List.all_eq_true.mp (List.all_eq_true.mp (List.all_eq_true.mp h g hg) u hu) v hv
  simp only [Bool.or_eq_true, beq_iff_eq] at this
  exact this.resolve_left hne

/-- **C10 (star).** Accepted groups have a member (the medoid) linked at or above θ with every other member;
in particular the group is connected through such links. -/
theorem C10_star_sound (θ : Nat) (ps : List Pair) (gs : List (List Nat)) (h : checkStar θ ps gs = true) :
    ∀ g ∈ gs, ∃ m ∈ g, (∀ u ∈ g, u ≠ m → linked θ ps u m = true) ∧ (∀ u ∈ g, ∀ v ∈ g, Conn θ ps u v) := by
  intro g hg
  unfold checkStar at h
  obtain ⟨m, hm, hall⟩ := List.any_eq_true.mp (List.all_eq_true.mp h g hg)
  have key : ∀ u ∈ g, u ≠ m → linked θ ps u m = true := by
    intro u hu hne
    have := List.all_eq_true.mp hall u hu
    simp only [Bool.or_eq_true, beq_iff_eq] at this
    exact this.resolve_left hne
  refine ⟨m, hm, key, ?_⟩
  have toM : ∀ u ∈ g, Conn θ ps u m := by
    intro u hu
    by_cases hum : u = m
    · subst hum; exact Conn.refl _
    · exact Conn.step (Conn.refl _) (key u hu hum)
  intro u hu v hv
  exact (toM u hu).trans (toM v hv).symm

/-- **C10 (k-core, checker form).** -/
theorem C10_kcore_check_sound (θ k : Nat) (ps : List Pair) (gs : List (List Nat)) (h : checkKCore θ k ps gs = true) :
    ∀ g ∈ gs, ∀ u ∈ g, k ≤ degIn θ ps g u := by
  intro g hg u hu
  unfold checkKCore at h
  simpa using List.all_eq_true.mp (List.all_eq_true.mp h g hg) u hu

/-- **C10 (every mode; the whole contract of the centroid mode).** In an accepted group every member is reached from the group's
first member through pairs at or above θ whose two ends are members of the group. -/
theorem C10_linked_sound (n θ : Nat) (ps : List Pair) (gs : List (List Nat)) (h : checkLinked n θ ps gs = true) :
    ∀ g ∈ gs, ∃ m ∈ g, ∀ v ∈ g, Reach (linkGraph n θ ps (fun u => g.contains u)) m v := by
  intro g hg
  have hgl := List.all_eq_true.mp h g hg
  unfold groupLinked at hgl
  split at hgl
  · cases hgl
  · next m rest =>
    split at hgl
    · next S hS =>
      refine ⟨m, List.mem_cons_self .., fun v hv => ?_⟩
      have := List.all_eq_true.mp hgl v hv
      exact (PV.C11.reachSet_spec hS v).mp (by simpa using this)
    · cases hgl

/-- links inside a group are links of the whole pair graph: a linked group lies inside one connected component -/
theorem C10_linked_conn (n θ : Nat) (ps : List Pair) (g : List Nat) {m v : Nat}
    (h : Reach (linkGraph n θ ps (fun u => g.contains u)) m v) : Conn θ ps m v := by
  induction h with
  | refl => exact Conn.refl _
  | step _ he ih => exact Conn.step ih (mem_linkGraph.mp he).1

end PV.C10
