import PV.Proofs.CFGRangesElif
/-!
# C01 (extension) — the RANGES reported by the dead-code detector of the CFG mirror contain no live line

`findings (build k s e body)` is the detector's output: for every block that the mirror's search does not reach and that holds at
least one statement record, the range *start line of the first record stored in the block … END line of the last record stored in it*.
C01 ("no statement on a line inside a reported range is ever executed") is about these ranges.  The record-level theorem
`C01_mirror_sound` (C01x) shows that every executed line has a record in a reachable block; it does not exclude that such a line
lies inside the range of ANOTHER, unreachable block.  The theorems below do, for ALL programs of the fragment:

* `C01_ranges_static` — no line of the static summary `sxL body` (⊇ `live body`, the verified over-approximation of what can execute)
  lies inside a reported range;
* `C01_ranges_sound` — whatever an execution `Exec body o tr` executes: an executed line is the head of an `elif` clause
  (`(sxL body).skipped`, see below) or lies outside every reported range;
* `C01_ranges_sound_all`, `C01_ranges_elif` — the same WITHOUT the exemption for `elif` heads, on the fragment `okRE`;
* `C01_ranges_records` — the underlying fact about the mirror's own output: no record of a reachable block starts inside a reported range;
* `C01_ranges_static_def` / `C01_ranges_sound_def` — the same for class definitions (`Kind.cls`), where the header record
  `s … e` of the class itself is part of the graph and has to come first (`WFDef`).

**Hypotheses.**
* `WFLoc body` (decidable, `wfL 1 body = true`): the source spans are those of a real parse tree with ONE STATEMENT PER LINE — every
  statement has `s ≤ e`, start lines are ≥ 1, the statements of a list have increasing, non-overlapping spans, the parts of a compound
  statement lie after its start line inside its span in source order (`then` < `else`; loop body < `else`; `try` body < handlers <
  `else` < `finally`).  It is needed: with `return 1; y = 2` on one line the dead statement's range is the line of the executed
  `return` (`C01_wfloc_needed`; known finding F17).
* `okR body` = `okL3 false false body`: exactly the fragment of the record-level theorem `C01_mirror_sound` (every statement kind incl.
  `try/except/else/finally`, `with`, `match`, loop `else`, comprehensions; `break`/`continue` only inside a loop of the same definition,
  `except`/`case` clauses only as members of `try`/`match`, no `try … finally` nested in a `finally` body).  The range-level proof adds
  NO restriction of its own (its induction `rq_list` only needs `okLC`, which also admits nested `finally`); a standalone `elif`
  clause (never produced by the parser) is admitted: its `0..0` record is always the LAST record of its block, so it can only make
  a range end at line 0.
* `elif` heads.  The builder stores the test of a converted `elif` with location `0..0`, so the record-level theorem exempts the
  lines of `elif` heads (`(sxL body).skipped`), and so does `C01_ranges_sound` (fragment `okR`, no further restriction).
  `C01_ranges_sound_all` / `C01_ranges_elif` remove the exemption on the fragment `okRE body = okR body && okEL body`: `okEL` says that
  the then-branch of every `elif` clause BEGINS WITH A LOCATED STATEMENT, possibly inside `try:` (any statement except a stray
  `else` / `elif` clause) — every parser-produced tree satisfies it (a block is never empty).  Argument: a live `elif` head `l` is
  followed by a live located line `l₁` (`firstLoc`), every located statement that starts before `l` and reaches `l` also covers `l₁`,
  every located statement after `l` starts at or after `l₁` (`elif_static`), and every record carries `0..0` or the span of a located
  statement (`build_spans`); so a range that contains `l` would contain `l₁`, which `C01_ranges_static_def` excludes.
  (`okEL` is a restriction of this proof method — it needs the witness `l₁` — not a known counter-example.)

**Why it holds** (`PV/Proofs/CFGRanges*.lean`).  By induction over the builder, for the final record list and the final graph:
the records of one block are consecutive in insertion order and a `0..0` record is the last of its block (`GZ`); located records are
stored in source order; a record whose start line lies inside the span of an OLDER record (the header of an enclosing compound
statement) is in a reachable block only if the older one is (everything the builder creates for a compound statement is reachable
only through the block that was current when it was entered: `zone_dead`); the records of one line (comprehensions) are reachable
together.  Hence a reachable record cannot start between the first and the last record of an unreachable block, nor inside the span
of its last record (`findings_sound`).
-/
namespace PV.C01
open PV.CFG PV.Py PV.CFGSound

/-- **C01 for the reported ranges, static form.** -/
theorem C01_ranges_static (k : Kind) (hk : k ≠ .cls) (s e : Nat) (body : List Stmt) (hok : okR body = true) (hwf : WFLoc body) :
    ∀ l ∈ (sxL body).lines, ∀ f ∈ findings (build k s e body), ¬ (f.s ≤ l ∧ l ≤ f.e) :=
  mirror_ranges_static k hk s e body hok hwf

/-- **C01 for the reported ranges, against the semantics.** -/
theorem C01_ranges_sound (k : Kind) (hk : k ≠ .cls) (s e : Nat) (body : List Stmt) (hok : okR body = true) (hwf : WFLoc body)
    {o : Out} {tr : List Nat} (ex : Exec body o tr) :
    ∀ l ∈ tr, l ∈ (sxL body).skipped ∨ ∀ f ∈ findings (build k s e body), ¬ (f.s ≤ l ∧ l ≤ f.e) :=
  mirror_ranges_sound k hk s e body hok hwf ex

/-- the same for every kind of definition; for a class the header line `s` must precede the body (`WFDef`) -/
theorem C01_ranges_static_def (k : Kind) (s e : Nat) (body : List Stmt) (hok : okR body = true) (hwf : WFDef k s e body) :
    ∀ l ∈ (sxL body).lines, ∀ f ∈ findings (build k s e body), ¬ (f.s ≤ l ∧ l ≤ f.e) :=
  mirror_ranges_static_def k s e body hok hwf

theorem C01_ranges_sound_def (k : Kind) (s e : Nat) (body : List Stmt) (hok : okR body = true) (hwf : WFDef k s e body)
    {o : Out} {tr : List Nat} (ex : Exec body o tr) :
    ∀ l ∈ tr, l ∈ (sxL body).skipped ∨ ∀ f ∈ findings (build k s e body), ¬ (f.s ≤ l ∧ l ≤ f.e) :=
  mirror_ranges_sound_def k s e body hok hwf ex


/-- **the heads of live `elif` clauses lie outside every reported range** (fragment `okRE`: `okR`, and the then-branch of every `elif`
clause begins with a located statement) -/
theorem C01_ranges_elif (k : Kind) (s e : Nat) (body : List Stmt) (hok : okRE body = true) (hwf : WFDef k s e body) :
    ∀ l ∈ (sxL body).skipped, ∀ f ∈ findings (build k s e body), ¬ (f.s ≤ l ∧ l ≤ f.e) :=
  mirror_ranges_elif k s e body hok hwf

/-- **C01 for the reported ranges, against the semantics, no exemption**: no executed line lies inside a reported range -/
theorem C01_ranges_sound_all (k : Kind) (hk : k ≠ .cls) (s e : Nat) (body : List Stmt) (hok : okRE body = true) (hwf : WFLoc body)
    {o : Out} {tr : List Nat} (ex : Exec body o tr) :
    ∀ l ∈ tr, ∀ f ∈ findings (build k s e body), ¬ (f.s ≤ l ∧ l ≤ f.e) :=
  mirror_ranges_sound_all k s e body hok (WFDef.of_wfloc s e hk hwf) ex

theorem C01_ranges_sound_all_def (k : Kind) (s e : Nat) (body : List Stmt) (hok : okRE body = true) (hwf : WFDef k s e body)
    {o : Out} {tr : List Nat} (ex : Exec body o tr) :
    ∀ l ∈ tr, ∀ f ∈ findings (build k s e body), ¬ (f.s ≤ l ∧ l ≤ f.e) :=
  mirror_ranges_sound_all k s e body hok hwf ex

/-- every record of the final graph carries the location `0..0` or the span of a located statement of the body -/
theorem C01_ranges_spans (k : Kind) (s e : Nat) (body : List Stmt) (hok : okR body = true) :
    ∀ r ∈ (build k s e body).stmts, r ∈ (preB k s e).stmts ∨ (r.s = 0 ∧ r.e = 0) ∨ (r.s, r.e) ∈ spansL body :=
  build_spans k s e body (okLC_of_okL3 body false false hok)

/-- in terms of the mirror's own output: no record of a reachable block starts inside a reported range -/
theorem C01_ranges_records (k : Kind) (s e : Nat) (body : List Stmt) (hok : okR body = true) (hwf : WFDef k s e body) :
    ∀ r ∈ (build k s e body).stmts, r.blk ∈ reachable (build k s e body) → 1 ≤ r.s →
      ∀ f ∈ findings (build k s e body), ¬ (f.s ≤ r.s ∧ r.s ≤ f.e) :=
  ranges_records k s e body hok hwf

/-- the invariant behind it, for statement lists and an arbitrary final graph (no hypothesis on `try … finally` nesting) -/
theorem C01_ranges_invariant (E : List Edge) (ss : List Stmt) : RQL E ss := rq_list E ss

/-- the lines of the static summary of a well-formed body are real line numbers (≥ 1) -/
theorem C01_ranges_lines_pos (body : List Stmt) (h : WFLoc body) :
    (∀ l ∈ (sxL body).lines, 1 ≤ l) ∧ (∀ l ∈ (sxL body).skipped, 1 ≤ l) := sx_lines_pos h

/-! ### evaluated examples -/

/-- no line of `ls` lies in a range of `fs` -/
def outside (ls : List Nat) (fs : List Finding) : Bool := ls.all (fun l => fs.all (fun f => !(decide (f.s ≤ l) && decide (l ≤ f.e))))
def ranges (fs : List Finding) : List (Nat × Nat) := fs.map (fun f => (f.s, f.e))
def wfloc (body : List Stmt) : Bool := wfL 1 body

/-- nested `if`/`else` with returns: lines 5 and 8 are dead, next to live code
```
2  if a:
3      if b:
4          return 1
5          x = 0        # dead
6      else:
7          return 2
8      y = 1            # dead
9  z = 3
``` -/
def exNested : List Stmt :=
  [.ite 2 8 [.ite 3 7 [.ret 4 4 [] false, .simple 5 5 [] false] [.elsec 6 7 [.ret 7 7 [] false]], .simple 8 8 [] false] [],
   .simple 9 9 [] false]
#guard okRE exNested && wfloc exNested
#guard (sxL exNested).lines == [2, 3, 4, 7, 9] && ranges (findings (build .func 1 9 exNested)) == [(8, 8), (5, 5)]
#guard outside (sxL exNested).lines (findings (build .func 1 9 exNested))

/-- loop with `break` / `continue` / `else`
```
2  for x in xs:
3      if c:
4          break
5          d = 1        # dead
6      continue
7      d = 2            # dead
8  else:
9      return 0
10     d = 3            # dead
11 after = 1
``` -/
def exLoop : List Stmt :=
  [.loop 2 10 [.ite 3 5 [.brk 4 4, .simple 5 5 [] false] [], .cont 6 6, .simple 7 7 [] false]
     [.elsec 8 10 [.ret 9 9 [] false, .simple 10 10 [] false]],
   .simple 11 11 [] false]
#guard okR exLoop && wfloc exLoop
#guard (sxL exLoop).lines == [2, 3, 4, 6, 9, 11]
#guard ranges (findings (build .func 1 11 exLoop)) == [(5, 5), (7, 7), (10, 10)]
#guard outside (sxL exLoop).lines (findings (build .func 1 11 exLoop))

/-- `try` / `except` / `finally` with dead code after `raise` and after `return` in a handler -/
def exTry : List Stmt :=
  [.try_ 2 9 [.raise 3 3, .simple 4 4 [] false] [.handler 5 7 [.ret 6 6 [] false, .simple 7 7 [] false]] [] [.simple 9 9 [] false],
   .simple 10 10 [] false]
#guard okRE exTry && wfloc exTry
#guard ranges (findings (build .func 1 10 exTry)) == [(4, 4), (7, 7)]
#guard outside (sxL exTry).lines (findings (build .func 1 10 exTry))

/-- a dead compound statement: its range covers the whole statement (lines 3 … 6), the dead block after it line 7
```
2  return 0
3  if a:            # dead, range 3 … 6 (end of the `if`)
4      x = 1
5  else:
6      x = 2
7  y = x            # dead
``` -/
def exDeadIf : List Stmt :=
  [.ret 2 2 [] false, .ite 3 6 [.simple 4 4 [] false] [.elsec 5 6 [.simple 6 6 [] false]], .simple 7 7 [] false]
#guard okR exDeadIf && wfloc exDeadIf
#guard (sxL exDeadIf).lines == [2]
#guard outside (sxL exDeadIf).lines (findings (build .func 1 7 exDeadIf))
#guard ranges (findings (build .func 1 7 exDeadIf)) == [(3, 6), (4, 4), (7, 7), (6, 6)]

/-- `if` / `elif` / `else` chain with terminators, a comprehension after `return`, code after `continue`:
the heads of the (live) `elif` clauses (line 5) are outside all ranges as well -/
def exChain : List Stmt :=
  [.ite 2 9 [.simple 3 3 [] false, .ret 4 4 [true] true, .simple 4 4 [] false]
     [.elifc 5 9 [.raise 6 6] [.elsec 7 9 [.ret 8 8 [] false]]],
   .simple 10 10 [false, true] true, .loop 11 14 [.cont 12 12, .simple 13 13 [] false] []]
def exChain' : List Stmt :=
  [.ite 2 9 [.simple 3 3 [] false, .ret 4 4 [true] true]
     [.elifc 5 9 [.raise 6 6, .simple 7 7 [true] true] [.elsec 8 9 [.ret 9 9 [] false]]],
   .simple 10 10 [false, true] true, .loop 11 14 [.cont 12 12, .simple 13 13 [] false] []]
#guard okRE exChain' && wfloc exChain' && !wfloc exChain
#guard (sxL exChain').skipped == [5]
#guard outside ((sxL exChain').lines ++ (sxL exChain').skipped) (findings (build .func 1 14 exChain'))
#guard (ranges (findings (build .func 1 14 exChain'))).eraseDups == [(7, 7), (10, 10), (11, 14), (12, 12), (13, 13)]


/-- an `elif` clause whose then-branch begins with `try:`; the `elif` head (line 4) is live and outside all ranges
```
2  if a:
3      return 1
4  elif b:
5      try:
6          raise E
7          x = 1        # dead
8      except E:
9          return 2
``` -/
def exElifTry : List Stmt :=
  [.ite 2 9 [.ret 3 3 [] false]
     [.elifc 4 9 [.try_ 5 9 [.raise 6 6, .simple 7 7 [] false] [.handler 8 9 [.ret 9 9 [] false]] [] []] []]]
#guard okRE exElifTry && wfloc exElifTry
#guard (sxL exElifTry).skipped == [4] && ranges (findings (build .func 1 9 exElifTry)) == [(7, 7)]
#guard outside ((sxL exElifTry).lines ++ (sxL exElifTry).skipped) (findings (build .func 1 9 exElifTry))

/-- a class definition (header 1 … 6) with a method-level `return` in the class body (admitted by the model) -/
def exCls : List Stmt := [.simple 2 2 [] false, .class_ 3 5 [.simple 4 4 [] false, .ret 5 5 [] false], .simple 6 6 [] false]
#guard okR exCls && wfL 2 exCls
#guard outside (sxL exCls).lines (findings (build .cls 1 6 exCls)) && ranges (findings (build .cls 1 6 exCls)) == [(6, 6)]

/-! #### the hypothesis on the spans is needed (F17) -/

/-- `return 1; y = 2` on ONE line: the dead statement `y = 2` is reported with the line of the executed `return` -/
def exOneLine : List Stmt := [.ret 1 1 [] false, .simple 1 1 [] false]
#guard okR exOneLine && !wfloc exOneLine
#guard (sxL exOneLine).lines == [1] && ranges (findings (build .func 1 1 exOneLine)) == [(1, 1)]

theorem C01_wfloc_needed :
    ∃ body : List Stmt, okR body = true ∧ ¬ WFLoc body ∧ ∃ o tr, Exec body o tr ∧
      ∃ l ∈ tr, ∃ f ∈ findings (build .func 1 1 body), f.s ≤ l ∧ l ≤ f.e := by
  have hst : build .func 1 1 exOneLine =
      { next := 4, cur := 3, stmts := [⟨3, 1, 1, .other⟩, ⟨2, 1, 1, .ret⟩], edges := [(3, 1, .normal), (2, 1, .ret), (0, 2, .normal)],
        unreach := [3], loops := [], excs := [] } := by
    simp [exOneLine, build, initSt, procList_cons, procList_nil, procStmt_ret, procRet_eq, procStmt_simple,
      St.add, St.edge, St.hasSucc, St.newBlock, exitB, targetFinallyRet, bumpU, setCur]
  have hf : ((findings (build .func 1 1 exOneLine)).any (fun f => decide (f.s ≤ 1) && decide (1 ≤ f.e))) = true := by
    rw [hst]; decide
  obtain ⟨f, hfm, hfp⟩ := List.any_eq_true.mp hf
  simp only [Bool.and_eq_true, decide_eq_true_eq] at hfp
  refine ⟨exOneLine, ?_, ?_, .ret, [1], Exec.seqS Exec.ret (by intro h; cases h), 1, List.mem_singleton.mpr rfl, f, hfm, hfp⟩
  · simp [okR, exOneLine, okL3_cons, okL3_nil, okS3]
  · simp [WFLoc, exOneLine, wfL_cons, wfL_nil, wfS_ret, wfS_simple, Stmt.span]

end PV.C01

#print axioms PV.C01.C01_ranges_sound
#print axioms PV.C01.C01_ranges_static
#print axioms PV.C01.C01_ranges_sound_all
#print axioms PV.C01.C01_ranges_elif
#print axioms PV.C01.C01_wfloc_needed
