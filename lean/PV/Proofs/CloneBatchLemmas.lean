import PV.Proofs.CloneLemmas
/-! Lemmas about the batched pair loop and the LSH stage (for C09). -/
namespace PV.Clone
open PV PV.MA PV.Generated

variable {F : Type} [MonoArith F]

/-! ### which (i, j) the batched loops visit -/

/-- `i` lies in batch `k` -/
def InBatch (bs k i : Nat) : Prop := k * bs ≤ i ∧ i < k * bs + bs

theorem inBatch_unique {bs k k' i : Nat} (h : InBatch bs k i) (h' : InBatch bs k' i) : k = k' := by
  unfold InBatch at h h'
  rcases Nat.lt_trichotomy k k' with hlt | heq | hgt
  · have := Nat.mul_le_mul_right bs (Nat.succ_le_of_lt hlt)
    rw [Nat.succ_mul] at this; omega
  · exact heq
  · have := Nat.mul_le_mul_right bs (Nat.succ_le_of_lt hgt)
    rw [Nat.succ_mul] at this; omega

theorem inBatch_div {bs i : Nat} (hbs : 0 < bs) : InBatch bs (i / bs) i :=
  ⟨Nat.div_mul_le_self i bs, Nat.lt_div_mul_add hbs⟩

theorem batch_lt {bs k k' : Nat} (h : k < k') : k * bs + bs ≤ k' * bs := by
  have := Nat.mul_le_mul_right bs (Nat.succ_le_of_lt h)
  rw [Nat.succ_mul] at this; exact this

theorem mem_batchPairs {n bs i j : Nat} (hbs : 0 < bs) :
    (i, j) ∈ batchPairs n bs ↔
      i < n ∧ j < n ∧ ∃ k, InBatch bs k i ∧ ((i < j ∧ j < k * bs + bs) ∨ j < k * bs) := by
  unfold batchPairs InBatch
  simp only [List.mem_flatMap, List.mem_range, List.mem_append, List.mem_map, List.mem_range', Prod.mk.injEq]
  constructor
  · rintro ⟨k, hk, a, ⟨q, hq, rfl⟩, h⟩
    have hkn : k * bs < n := by
      have := (Nat.lt_div_iff_mul_lt hbs).mp hk
      have h2 := (Nat.le_div_iff_mul_le hbs).mp (Nat.succ_le_of_lt hk)
      rw [Nat.succ_mul] at h2; omega
    rcases h with ⟨b, ⟨r, hr, rfl⟩, h1, h2⟩ | ⟨b, hb, h1, h2⟩
    · subst h1 h2
      refine ⟨by omega, by omega, k, ⟨by omega, by omega⟩, Or.inl ⟨by omega, by omega⟩⟩
    · subst h1 h2
      refine ⟨by omega, by omega, k, ⟨by omega, by omega⟩, Or.inr hb⟩
  · rintro ⟨hi, hj, k, ⟨hk1, hk2⟩, h⟩
    have hk : k < (n + bs - 1) / bs := by
      apply Nat.lt_of_succ_le
      rw [Nat.le_div_iff_mul_le hbs, Nat.succ_mul]; omega
    refine ⟨k, hk, i, ⟨i - k * bs, by omega, by omega⟩, ?_⟩
    rcases h with ⟨h1, h2⟩ | h
    · exact Or.inl ⟨j, ⟨j - (i + 1), by omega, by omega⟩, rfl, rfl⟩
    · exact Or.inr ⟨j, h, rfl, rfl⟩

/-- every visited pair joins two different fragments -/
theorem batchPairs_ne {n bs i j : Nat} (hbs : 0 < bs) (h : (i, j) ∈ batchPairs n bs) : i < n ∧ j < n ∧ i ≠ j := by
  obtain ⟨hi, hj, k, ⟨h1, h2⟩, h⟩ := (mem_batchPairs hbs).mp h
  exact ⟨hi, hj, by omega⟩

/-- **cover**: every unordered pair of different fragments is visited, in one orientation or the other -/
theorem batchPairs_cover {n bs u v : Nat} (hbs : 0 < bs) (hu : u < n) (hv : v < n) (huv : u ≠ v) :
    (u, v) ∈ batchPairs n bs ∨ (v, u) ∈ batchPairs n bs := by
  have bu := inBatch_div (i := u) hbs
  have bv := inBatch_div (i := v) hbs
  rcases Nat.lt_trichotomy (u / bs) (v / bs) with hlt | heq | hgt
  · right
    refine (mem_batchPairs hbs).mpr ⟨hv, hu, v / bs, bv, Or.inr ?_⟩
    have := batch_lt (bs := bs) hlt
    unfold InBatch at bu; omega
  · rw [← heq] at bv
    unfold InBatch at bu bv
    rcases Nat.lt_or_gt_of_ne huv with h | h
    · left; exact (mem_batchPairs hbs).mpr ⟨hu, hv, u / bs, ⟨bu.1, bu.2⟩, Or.inl ⟨h, bv.2⟩⟩
    · right; exact (mem_batchPairs hbs).mpr ⟨hv, hu, u / bs, ⟨bv.1, bv.2⟩, Or.inl ⟨h, bu.2⟩⟩
  · left
    refine (mem_batchPairs hbs).mpr ⟨hu, hv, u / bs, bu, Or.inr ?_⟩
    have := batch_lt (bs := bs) hgt
    unfold InBatch at bv; omega

/-- **once**: never in both orientations -/
theorem batchPairs_not_both {n bs u v : Nat} (hbs : 0 < bs) (h : (u, v) ∈ batchPairs n bs) : (v, u) ∉ batchPairs n bs := by
  intro h'
  obtain ⟨_, _, k, bk, hk⟩ := (mem_batchPairs hbs).mp h
  obtain ⟨_, _, k', bk', hk'⟩ := (mem_batchPairs hbs).mp h'
  unfold InBatch at bk bk'
  rcases Nat.lt_trichotomy k k' with hlt | heq | hgt
  · have := batch_lt (bs := bs) hlt; omega
  · subst heq; omega
  · have := batch_lt (bs := bs) hgt; omega

/-! ### the batched fold without truncation -/

theorem t4_le_of_mkPair {c : Cfg F} {fr : Nat → Frag} {cmp : Cmp F} {i j : Nat} {p : Pair F}
    (h43 : c.t4 ≤ c.t3) (h32 : c.t3 ≤ c.t2) (h21 : c.t2 ≤ c.t1) (h : mkPair c fr cmp i j = some p) : c.t4 ≤ p.sim := by
  obtain ⟨⟨_, _, hty, hty0, _⟩, _, _⟩ := mkPair_some.mp h
  obtain ⟨_, _, _, _, h0⟩ := classify_spec c p.sim p.dist
  by_cases h4 : c.t4 ≤ p.sim
  · exact h4
  · exfalso
    have l4 : p.sim < c.t4 := lt_iff.mpr h4
    apply hty0
    rw [hty]
    exact h0.mpr ⟨l4, lt_of_lt_of_le l4 h43, lt_of_lt_of_le l4 (le_tr h43 h32), lt_of_lt_of_le l4 (le_tr h43 (le_tr h32 h21))⟩

theorem addPairWithLimit_perm {maxPairs : Nat} {top : List (Pair F)} {p : Pair F} (h : top.length < maxPairs) :
    (addPairWithLimit maxPairs top p).Perm (top ++ [p]) := by
  unfold addPairWithLimit
  simp only [h, if_true]
  exact List.mergeSort_perm _ _

theorem batched_fold_perm (c : Cfg F) (fr : Nat → Frag) (cmp : Cmp F) (maxPairs : Nat)
    (h43 : c.t4 ≤ c.t3) (h32 : c.t3 ≤ c.t2) (h21 : c.t2 ≤ c.t1) :
    ∀ (l : List (Nat × Nat)) (st : BState F),
      (st.top.length < maxPairs → st.minSim = c.t4) →
      st.top.length + (l.filterMap fun ij => mkPair c fr cmp ij.1 ij.2).length ≤ maxPairs →
      ((l.foldl (batchStep c fr cmp maxPairs) st).top).Perm (st.top ++ l.filterMap fun ij => mkPair c fr cmp ij.1 ij.2) := by
  intro l
  induction l with
  | nil => intro st _ _; simp
  | cons ij l ih =>
    intro st hmin hlen
    rw [List.foldl_cons]
    cases hm : mkPair c fr cmp ij.1 ij.2 with
    | none =>
      have hstep : batchStep c fr cmp maxPairs st ij = st := by unfold batchStep; rw [hm]
      rw [hstep]
      have : (List.filterMap (fun ij => mkPair c fr cmp ij.1 ij.2) (ij :: l)) = List.filterMap (fun ij => mkPair c fr cmp ij.1 ij.2) l := by
        rw [List.filterMap_cons]; simp only [hm]
      rw [this] at hlen ⊢
      exact ih st hmin hlen
    | some p =>
      have hfm : (List.filterMap (fun ij => mkPair c fr cmp ij.1 ij.2) (ij :: l)) = p :: List.filterMap (fun ij => mkPair c fr cmp ij.1 ij.2) l := by
        rw [List.filterMap_cons]; simp only [hm]
      rw [hfm] at hlen ⊢
      simp only [List.length_cons] at hlen
      have hlt : st.top.length < maxPairs := by omega
      have hms : st.minSim = c.t4 := hmin hlt
      have hge : st.minSim ≤ p.sim := by rw [hms]; exact t4_le_of_mkPair h43 h32 h21 hm
      have hperm := addPairWithLimit_perm (p := p) hlt
      have hstep : (batchStep c fr cmp maxPairs st ij).top = addPairWithLimit maxPairs st.top p := by
        unfold batchStep; rw [hm]; simp only [ge_iff_le, hge, if_true]
      have hlen' : (batchStep c fr cmp maxPairs st ij).top.length = st.top.length + 1 := by
        rw [hstep, hperm.length_eq]; simp
      have hmin' : (batchStep c fr cmp maxPairs st ij).top.length < maxPairs → (batchStep c fr cmp maxPairs st ij).minSim = c.t4 := by
        intro hl
        rw [hstep] at hl
        unfold batchStep; rw [hm]; simp only [ge_iff_le, hge, if_true]
        have : ¬ (addPairWithLimit maxPairs st.top p).length ≥ maxPairs := by omega
        simp only [this, if_false]; exact hms
      have := ih (batchStep c fr cmp maxPairs st ij) hmin' (by rw [hlen']; omega)
      refine this.trans ?_
      rw [hstep]
      have h2 : (addPairWithLimit maxPairs st.top p ++ List.filterMap (fun ij => mkPair c fr cmp ij.1 ij.2) l).Perm
          ((st.top ++ [p]) ++ List.filterMap (fun ij => mkPair c fr cmp ij.1 ij.2) l) := hperm.append_right _
      simpa using h2

end PV.Clone

namespace PV.Clone
open PV PV.MA PV.Generated
variable {F : Type} [MonoArith F]

/-! ### MinHash / banding -/

theorem minOver_le_iff (h : Nat → Nat) (xs : List Nat) : ∀ (top y : Nat),
    minOver h top xs ≤ y ↔ (top ≤ y ∨ ∃ x ∈ xs, h x ≤ y) := by
  induction xs with
  | nil => intro top y; simp [minOver]
  | cons x xs ih =>
    intro top y
    unfold minOver
    rw [List.foldl_cons]
    have := ih (if h x < top then h x else top) y
    unfold minOver at this
    rw [this]
    constructor
    · rintro (h1 | ⟨z, hz, hzy⟩)
      · split at h1
        · exact Or.inr ⟨x, List.mem_cons_self, h1⟩
        · exact Or.inl h1
      · exact Or.inr ⟨z, List.mem_cons_of_mem _ hz, hzy⟩
    · rintro (h1 | ⟨z, hz, hzy⟩)
      · left; split <;> omega
      · rcases List.mem_cons.mp hz with rfl | hz
        · left; split <;> omega
        · exact Or.inr ⟨z, hz, hzy⟩

theorem minOver_congr (h : Nat → Nat) (top : Nat) {f₁ f₂ : List Nat} (hs : ∀ x, x ∈ f₁ ↔ x ∈ f₂) :
    minOver h top f₁ = minOver h top f₂ := by
  apply Nat.le_antisymm
  · apply (minOver_le_iff h f₁ top _).mpr
    rcases (minOver_le_iff h f₂ top (minOver h top f₂)).mp (Nat.le_refl _) with h1 | ⟨x, hx, hxy⟩
    · exact Or.inl h1
    · exact Or.inr ⟨x, (hs x).mpr hx, hxy⟩
  · apply (minOver_le_iff h f₂ top _).mpr
    rcases (minOver_le_iff h f₁ top (minOver h top f₁)).mp (Nat.le_refl _) with h1 | ⟨x, hx, hxy⟩
    · exact Or.inl h1
    · exact Or.inr ⟨x, (hs x).mp hx, hxy⟩

theorem agree_self (s : List Nat) : agree s s = s.length := by
  induction s with
  | nil => rfl
  | cons a s ih => simp [agree, ih]; omega

theorem clampThr_le_one (t : F) : clampThr t ≤ (Arith.lit 1 1 : F) := by
  unfold clampThr
  split
  · exact lit_le (by decide) (by decide) (by decide)
  · split
    · exact le_rfl' _
    · next h => exact MA.not_lt.mp h

theorem estimate_self {s : List Nat} (h : 0 < s.length) : (estimate s s : F) = Arith.lit 1 1 := by
  unfold estimate
  simp only [Nat.min_self, agree_self]
  have : s.length ≠ 0 := by omega
  simp only [this, if_false]
  exact MonoArith.div_self _ (ofInt_pos (by exact_mod_cast h))

end PV.Clone
