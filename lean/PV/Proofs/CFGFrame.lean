import PV.Proofs.CFGReach
/-!
Frame reasoning for the CFG mirror (`PV.CFG`): every builder function only adds edges whose source, and
statements whose block, is the block that was current on entry or a block allocated during the call; block
ids stay below `next`; the loop and exception context stacks are restored.  (Part A of the soundness proof
of the mirror; no hypothesis on the shape of the program.)
-/
namespace PV.CFGSound
open PV.CFG

/-! ### named state updates -/
def bump (s : St) : St := { s with next := s.next + 1 }
def bumpU (s : St) : St := { s with next := s.next + 1, unreach := s.next :: s.unreach }
def bumpN (s : St) (k : Nat) : St := { s with next := s.next + k }
def setCur (s : St) (c : Nat) : St := { s with cur := c }
def setLoops (s : St) (l : List (Nat × Nat × Nat)) : St := { s with loops := l }
def setExcs (s : St) (x : List Exc) : St := { s with excs := x }

section simp_lemmas
variable (s : St) (a b c k : Nat) (t : ETy) (ty : Ty) (l : List (Nat × Nat × Nat)) (x : List Exc) (p q : Nat)
@[simp] theorem bump_next : (bump s).next = s.next + 1 := rfl
@[simp] theorem bump_cur : (bump s).cur = s.cur := rfl
@[simp] theorem bump_edges : (bump s).edges = s.edges := rfl
@[simp] theorem bump_stmts : (bump s).stmts = s.stmts := rfl
@[simp] theorem bump_loops : (bump s).loops = s.loops := rfl
@[simp] theorem bump_excs : (bump s).excs = s.excs := rfl
@[simp] theorem bumpU_next : (bumpU s).next = s.next + 1 := rfl
@[simp] theorem bumpU_cur : (bumpU s).cur = s.cur := rfl
@[simp] theorem bumpU_edges : (bumpU s).edges = s.edges := rfl
@[simp] theorem bumpU_stmts : (bumpU s).stmts = s.stmts := rfl
@[simp] theorem bumpU_loops : (bumpU s).loops = s.loops := rfl
@[simp] theorem bumpU_excs : (bumpU s).excs = s.excs := rfl
@[simp] theorem bumpN_next : (bumpN s k).next = s.next + k := rfl
@[simp] theorem bumpN_cur : (bumpN s k).cur = s.cur := rfl
@[simp] theorem bumpN_edges : (bumpN s k).edges = s.edges := rfl
@[simp] theorem bumpN_stmts : (bumpN s k).stmts = s.stmts := rfl
@[simp] theorem bumpN_loops : (bumpN s k).loops = s.loops := rfl
@[simp] theorem bumpN_excs : (bumpN s k).excs = s.excs := rfl
@[simp] theorem setCur_next : (setCur s c).next = s.next := rfl
@[simp] theorem setCur_cur : (setCur s c).cur = c := rfl
@[simp] theorem setCur_edges : (setCur s c).edges = s.edges := rfl
@[simp] theorem setCur_stmts : (setCur s c).stmts = s.stmts := rfl
@[simp] theorem setCur_loops : (setCur s c).loops = s.loops := rfl
@[simp] theorem setCur_excs : (setCur s c).excs = s.excs := rfl
@[simp] theorem setLoops_next : (setLoops s l).next = s.next := rfl
@[simp] theorem setLoops_cur : (setLoops s l).cur = s.cur := rfl
@[simp] theorem setLoops_edges : (setLoops s l).edges = s.edges := rfl
@[simp] theorem setLoops_stmts : (setLoops s l).stmts = s.stmts := rfl
@[simp] theorem setLoops_loops : (setLoops s l).loops = l := rfl
@[simp] theorem setLoops_excs : (setLoops s l).excs = s.excs := rfl
@[simp] theorem setExcs_next : (setExcs s x).next = s.next := rfl
@[simp] theorem setExcs_cur : (setExcs s x).cur = s.cur := rfl
@[simp] theorem setExcs_edges : (setExcs s x).edges = s.edges := rfl
@[simp] theorem setExcs_stmts : (setExcs s x).stmts = s.stmts := rfl
@[simp] theorem setExcs_loops : (setExcs s x).loops = s.loops := rfl
@[simp] theorem setExcs_excs : (setExcs s x).excs = x := rfl
@[simp] theorem edge_next : (s.edge a b t).next = s.next := rfl
@[simp] theorem edge_cur : (s.edge a b t).cur = s.cur := rfl
@[simp] theorem edge_edges : (s.edge a b t).edges = (a, b, t) :: s.edges := rfl
@[simp] theorem edge_stmts : (s.edge a b t).stmts = s.stmts := rfl
@[simp] theorem edge_loops : (s.edge a b t).loops = s.loops := rfl
@[simp] theorem edge_excs : (s.edge a b t).excs = s.excs := rfl
@[simp] theorem add_next : (s.add b p q ty).next = s.next := rfl
@[simp] theorem add_cur : (s.add b p q ty).cur = s.cur := rfl
@[simp] theorem add_edges : (s.add b p q ty).edges = s.edges := rfl
@[simp] theorem add_stmts : (s.add b p q ty).stmts = { blk := b, s := p, e := q, ty := ty } :: s.stmts := rfl
@[simp] theorem add_loops : (s.add b p q ty).loops = s.loops := rfl
@[simp] theorem add_excs : (s.add b p q ty).excs = s.excs := rfl
end simp_lemmas

@[simp] theorem edgeUnlessExit_next (s : St) (a b : Nat) (t : ETy) : (s.edgeUnlessExit a b t).next = s.next := by
  unfold St.edgeUnlessExit; split <;> rfl
@[simp] theorem edgeUnlessExit_cur (s : St) (a b : Nat) (t : ETy) : (s.edgeUnlessExit a b t).cur = s.cur := by
  unfold St.edgeUnlessExit; split <;> rfl
@[simp] theorem edgeUnlessExit_stmts (s : St) (a b : Nat) (t : ETy) : (s.edgeUnlessExit a b t).stmts = s.stmts := by
  unfold St.edgeUnlessExit; split <;> rfl
@[simp] theorem edgeUnlessExit_loops (s : St) (a b : Nat) (t : ETy) : (s.edgeUnlessExit a b t).loops = s.loops := by
  unfold St.edgeUnlessExit; split <;> rfl
@[simp] theorem edgeUnlessExit_excs (s : St) (a b : Nat) (t : ETy) : (s.edgeUnlessExit a b t).excs = s.excs := by
  unfold St.edgeUnlessExit; split <;> rfl

theorem edgeUnlessExit_cases (s : St) (a b : Nat) (t : ETy) :
    (s.hasSucc a exitB = true ∧ s.edgeUnlessExit a b t = s) ∨ (s.hasSucc a exitB = false ∧ s.edgeUnlessExit a b t = s.edge a b t) := by
  unfold St.edgeUnlessExit
  cases h : s.hasSucc a exitB <;> simp

/-! ### ownership, well-formedness, the frame invariant -/

/-- block `x` is the designated block `c` or was allocated at or after `n` -/
abbrev Own (c n x : Nat) : Prop := x = c ∨ n ≤ x

structure WF (s : St) : Prop where
  two : 2 ≤ s.next
  cur : s.cur < s.next
  edges : ∀ e ∈ s.edges, e.1 < s.next ∧ e.2.1 < s.next
  stmts : ∀ r ∈ s.stmts, r.blk < s.next
  loops : ∀ l ∈ s.loops, l.1 < s.next ∧ l.2.1 < s.next
  excs : ∀ c ∈ s.excs, (∀ f, c.fin = some f → f < s.next) ∧ ∀ h ∈ c.handlers, h < s.next

/-- `s` extends `s0` by edges / statements of owned blocks only, and is well-formed -/
structure Inv (c n : Nat) (s0 s : St) : Prop where
  wf : WF s
  next_le : s0.next ≤ s.next
  own : Own c n s.cur
  edges : ∃ ne, s.edges = ne ++ s0.edges ∧ ∀ e ∈ ne, Own c n e.1
  stmts : ∃ ns, s.stmts = ns ++ s0.stmts ∧ ∀ r ∈ ns, Own c n r.blk

/-- the context stacks are those of `s0` -/
structure Same (s0 s : St) : Prop where
  loops : s.loops = s0.loops
  excs : s.excs = s0.excs

theorem Same.refl (s : St) : Same s s := ⟨rfl, rfl⟩
theorem Same.trans {a b c : St} (h₁ : Same a b) (h₂ : Same b c) : Same a c := ⟨h₂.loops.trans h₁.loops, h₂.excs.trans h₁.excs⟩

variable {c n : Nat} {s0 s s' : St}

theorem Inv.refl (w : WF s) (h : Own c n s.cur) : Inv c n s s :=
  ⟨w, Nat.le_refl _, h, ⟨[], rfl, by simp⟩, ⟨[], rfl, by simp⟩⟩

theorem Inv.trans (i : Inv c n s0 s) (j : Inv c n s s') : Inv c n s0 s' := by
  obtain ⟨ne, he, hne⟩ := i.edges
  obtain ⟨ne', he', hne'⟩ := j.edges
  obtain ⟨ns, hs, hns⟩ := i.stmts
  obtain ⟨ns', hs', hns'⟩ := j.stmts
  refine ⟨j.wf, Nat.le_trans i.next_le j.next_le, j.own, ⟨ne' ++ ne, by rw [he', he, List.append_assoc], ?_⟩,
    ⟨ns' ++ ns, by rw [hs', hs, List.append_assoc], ?_⟩⟩
  · intro e h; rcases List.mem_append.mp h with h | h
    · exact hne' e h
    · exact hne e h
  · intro r h; rcases List.mem_append.mp h with h | h
    · exact hns' r h
    · exact hns r h

theorem WF.mono_bounds (w : WF s) {s' : St} (hn : s.next ≤ s'.next) (he : s'.edges = s.edges) (hs : s'.stmts = s.stmts)
    (hl : s'.loops = s.loops) (hx : s'.excs = s.excs) (hc : s'.cur < s'.next) : WF s' := by
  refine ⟨by have := w.two; omega, hc, ?_, ?_, ?_, ?_⟩
  · intro e h; rw [he] at h; have := w.edges e h; omega
  · intro r h; rw [hs] at h; have := w.stmts r h; omega
  · intro l h; rw [hl] at h; have := w.loops l h; omega
  · intro c h; rw [hx] at h; have := w.excs c h
    exact ⟨fun f hf => by have := this.1 f hf; omega, fun x hx => by have := this.2 x hx; omega⟩

theorem Inv.bump (i : Inv c n s0 s) : Inv c n s0 (bump s) :=
  ⟨i.wf.mono_bounds (by simp) rfl rfl rfl rfl (by have := i.wf.cur; simp; omega), by have := i.next_le; simp; omega, i.own, i.edges, i.stmts⟩

theorem Inv.bumpU (i : Inv c n s0 s) : Inv c n s0 (bumpU s) :=
  ⟨i.wf.mono_bounds (by simp) rfl rfl rfl rfl (by have := i.wf.cur; simp; omega), by have := i.next_le; simp; omega, i.own, i.edges, i.stmts⟩

theorem Inv.bumpN (i : Inv c n s0 s) (k : Nat) : Inv c n s0 (bumpN s k) :=
  ⟨i.wf.mono_bounds (by simp) rfl rfl rfl rfl (by have := i.wf.cur; simp; omega), by have := i.next_le; simp; omega, i.own, i.edges, i.stmts⟩

theorem Inv.setCur (i : Inv c n s0 s) {x : Nat} (hx : Own c n x) (hlt : x < s.next) : Inv c n s0 (setCur s x) :=
  ⟨i.wf.mono_bounds (Nat.le_refl _) rfl rfl rfl rfl hlt, i.next_le, hx, i.edges, i.stmts⟩

theorem Inv.edge (i : Inv c n s0 s) {a b : Nat} {t : ETy} (ha : Own c n a) (hlt : a < s.next) (hb : b < s.next) :
    Inv c n s0 (s.edge a b t) := by
  obtain ⟨ne, he, hne⟩ := i.edges
  refine ⟨⟨i.wf.two, i.wf.cur, ?_, i.wf.stmts, i.wf.loops, i.wf.excs⟩, i.next_le, i.own, ⟨(a, b, t) :: ne, by simp [he], ?_⟩, i.stmts⟩
  · intro e h
    simp only [edge_edges, List.mem_cons] at h
    rcases h with rfl | h
    · exact ⟨hlt, hb⟩
    · exact i.wf.edges e h
  · intro e h
    rcases List.mem_cons.mp h with rfl | h
    · exact ha
    · exact hne e h

theorem Inv.edgeUnlessExit (i : Inv c n s0 s) {a b : Nat} {t : ETy} (ha : Own c n a) (hlt : a < s.next) (hb : b < s.next) :
    Inv c n s0 (s.edgeUnlessExit a b t) := by
  rcases edgeUnlessExit_cases s a b t with ⟨_, h⟩ | ⟨_, h⟩ <;> rw [h]
  · exact i
  · exact i.edge ha hlt hb

theorem Inv.add (i : Inv c n s0 s) {b p q : Nat} {ty : Ty} (hb : Own c n b) (hlt : b < s.next) :
    Inv c n s0 (s.add b p q ty) := by
  obtain ⟨ns, hs, hns⟩ := i.stmts
  refine ⟨⟨i.wf.two, i.wf.cur, i.wf.edges, ?_, i.wf.loops, i.wf.excs⟩, i.next_le, i.own, i.edges,
    ⟨{ blk := b, s := p, e := q, ty := ty } :: ns, by simp [hs], ?_⟩⟩
  · intro r h
    simp only [add_stmts, List.mem_cons] at h
    rcases h with rfl | h
    · exact hlt
    · exact i.wf.stmts r h
  · intro r h
    rcases List.mem_cons.mp h with rfl | h
    · exact hb
    · exact hns r h

theorem Inv.setLoops (i : Inv c n s0 s) {l : List (Nat × Nat × Nat)} (h : ∀ x ∈ l, x.1 < s.next ∧ x.2.1 < s.next) :
    Inv c n s0 (setLoops s l) :=
  ⟨⟨i.wf.two, i.wf.cur, i.wf.edges, i.wf.stmts, h, i.wf.excs⟩, i.next_le, i.own, i.edges, i.stmts⟩

theorem Inv.setExcs (i : Inv c n s0 s) {x : List Exc}
    (h : ∀ c ∈ x, (∀ f, c.fin = some f → f < s.next) ∧ ∀ h ∈ c.handlers, h < s.next) : Inv c n s0 (setExcs s x) :=
  ⟨⟨i.wf.two, i.wf.cur, i.wf.edges, i.wf.stmts, i.wf.loops, h⟩, i.next_le, i.own, i.edges, i.stmts⟩

/-- bounds of context entries survive growth of `next` -/
theorem WF.loops_le (w : WF s) {m : Nat} (h : s.next ≤ m) : ∀ x ∈ s.loops, x.1 < m ∧ x.2.1 < m :=
  fun x hx => by have := w.loops x hx; omega
theorem WF.excs_le (w : WF s) {m : Nat} (h : s.next ≤ m) :
    ∀ c ∈ s.excs, (∀ f, c.fin = some f → f < m) ∧ ∀ h ∈ c.handlers, h < m :=
  fun c hc => ⟨fun f hf => by have := (w.excs c hc).1 f hf; omega, fun x hx => by have := (w.excs c hc).2 x hx; omega⟩

theorem Own.fresh {x : Nat} (h : n ≤ x) : Own c n x := Or.inr h

/-- arithmetic side conditions (bounds and ownership of block ids) -/
macro "ob" : tactic =>
  `(tactic| (simp only [Own, bump_next, bump_cur, bumpU_next, bumpU_cur, bumpN_next, bumpN_cur, setCur_next, setCur_cur,
      setLoops_next, setLoops_cur, setExcs_next, setExcs_cur, edge_next, edge_cur, add_next, add_cur,
      edgeUnlessExit_next, edgeUnlessExit_cur] at *; omega))

end PV.CFGSound
