import PV.Proofs.CFGRanges
import PV.Proofs.CFGRangesSpans
import PV.Proofs.CFGRangesStatic
/-!
Range-level COMPLETENESS of the dead-code detector of the CFG mirror (property C02, reported RANGES) — shared definitions.

The record-level theorem `build_complete` provides, for a structurally dead line `l`, a record `r` with `r.s = l` in an unreachable
block `B`.  The finding of `B` is `[start line of the OLDEST record of B, END line of the NEWEST record of B]`.  `l` lies in it iff
the newest record of `B` is not the `0..0` record of a converted `elif` test.  The builder stores such a record in the block that
is current when `procIf` is entered with location `0..0`, which happens
* for the `elif` clause of an `if` / `elif` chain: always in a fresh block (`procIfElifTail`, `procIfElif`) — harmless;
* for a STANDALONE `elif` clause (`procStmt (.elifc …)`, never produced by the parser): in the current block, which may hold
  located records — then the range of that block ends at line 0 and covers nothing (`C02_standalone_elif_needed`).

* `noSEL` / `noSES` / `noSEO`: the fragment "no standalone `elif` clause" (an `elifc` node occurs only as the single element of the
  `orelse` list of an `if` / `elif`);
* `ZF L`: a record with end line 0 is the OLDEST record of its block (with `GZ`: the only one);
* `NZ A`: no span of `A` ends at line 0;
* `Inv 0 0`-steps: well-formedness of the intermediate builder states without ownership side conditions.
-/
namespace PV.CFGSound
open PV.CFG

/-! ### the fragment: no standalone `elif` clause -/
set_option linter.unusedSimpArgs false in
mutual
  /-- no statement of the list is (or contains) a standalone `elif` clause -/
  def noSEL : List Stmt → Bool
    | [] => true
    | x :: xs => noSES x && noSEL xs
  termination_by l => 2 * sizeL l
  decreasing_by
    all_goals (try simp_wf)
    all_goals (try simp only [Stmt.size, sizeL])
    all_goals omega
  def noSES : Stmt → Bool
    | .simple .. | .ret .. | .brk .. | .cont .. | .raise .. | .def_ .. => true
    | .elifc .. => false
    | .ite _ _ a b => noSEL a && noSEO b
    | .loop _ _ a b => noSEL a && noSEL b
    | .elsec _ _ a | .handler _ _ a | .with_ _ _ a | .match_ _ _ a | .case_ _ _ a | .class_ _ _ a => noSEL a
    | .try_ _ _ a hs c d => noSEL a && noSEL hs && noSEL c && noSEL d
  termination_by x => 2 * x.size
  decreasing_by
    all_goals (try simp_wf)
    all_goals (try simp only [Stmt.size, sizeL])
    all_goals omega
  /-- the `orelse` list of an `if` / `elif`: a single `elif` clause (the chain continues) or ordinary statements -/
  def noSEO : List Stmt → Bool
    | [.elifc _ _ a b] => noSEL a && noSEO b
    | l => noSEL l
  termination_by l => 2 * sizeL l + 1
  decreasing_by
    all_goals (try simp_wf)
    all_goals (try simp only [Stmt.size, sizeL])
    all_goals omega
end

theorem noSEL_nil : noSEL [] = true := by rw [noSEL]
theorem noSEL_cons (x : Stmt) (xs : List Stmt) : noSEL (x :: xs) = (noSES x && noSEL xs) := by rw [noSEL]
theorem noSES_elifc (s e : Nat) (a b : List Stmt) : noSES (.elifc s e a b) = false := by rw [noSES]
theorem noSES_ite (s e : Nat) (a b : List Stmt) : noSES (.ite s e a b) = (noSEL a && noSEO b) := by rw [noSES]
theorem noSES_loop (s e : Nat) (a b : List Stmt) : noSES (.loop s e a b) = (noSEL a && noSEL b) := by rw [noSES]
theorem noSES_elsec (s e : Nat) (a : List Stmt) : noSES (.elsec s e a) = noSEL a := by rw [noSES]
theorem noSES_handler (s e : Nat) (a : List Stmt) : noSES (.handler s e a) = noSEL a := by rw [noSES]
theorem noSES_with (s e : Nat) (a : List Stmt) : noSES (.with_ s e a) = noSEL a := by rw [noSES]
theorem noSES_match (s e : Nat) (a : List Stmt) : noSES (.match_ s e a) = noSEL a := by rw [noSES]
theorem noSES_case (s e : Nat) (a : List Stmt) : noSES (.case_ s e a) = noSEL a := by rw [noSES]
theorem noSES_class (s e : Nat) (a : List Stmt) : noSES (.class_ s e a) = noSEL a := by rw [noSES]
theorem noSES_try (s e : Nat) (a hs c d : List Stmt) :
    noSES (.try_ s e a hs c d) = (noSEL a && noSEL hs && noSEL c && noSEL d) := by rw [noSES]
theorem noSEO_elifc (s e : Nat) (a b : List Stmt) : noSEO [.elifc s e a b] = (noSEL a && noSEO b) := by rw [noSEO]
theorem noSEO_other (l : List Stmt) (h : ∀ s e a b, l ≠ [.elifc s e a b]) : noSEO l = noSEL l := by
  rw [noSEO]
  intro s e a b hl
  exact absurd hl (h s e a b)

/-! ### no span ends at line 0 -/
def NZ (A : List (Nat × Nat)) : Prop := ∀ sp ∈ A, sp.2 ≠ 0

theorem NZ.left {A B : List (Nat × Nat)} (h : NZ (A ++ B)) : NZ A := fun sp hs => h sp (List.mem_append.mpr (.inl hs))
theorem NZ.right {A B : List (Nat × Nat)} (h : NZ (A ++ B)) : NZ B := fun sp hs => h sp (List.mem_append.mpr (.inr hs))
theorem NZ.head {A : List (Nat × Nat)} {s e : Nat} (h : NZ ((s, e) :: A)) : e ≠ 0 := h (s, e) (List.mem_cons_self ..)
theorem NZ.tail {A : List (Nat × Nat)} {x : Nat × Nat} (h : NZ (x :: A)) : NZ A := fun sp hs => h sp (List.mem_cons_of_mem _ hs)

/-! ### a record with end line 0 opens its block -/
/-- every record with end line 0 is the oldest record of its block (`L`: newest first) -/
def ZF : List SRec → Prop
  | [] => True
  | r :: L => ZF L ∧ (r.e = 0 → NoRec L r.blk)

section zf
variable {L : List SRec} {b s e : Nat} {ty : Ty}

theorem ZF.add_nz (h : ZF L) (he : e ≠ 0) : ZF ({ blk := b, s := s, e := e, ty := ty } :: L) := ⟨h, fun h0 => absurd h0 he⟩
theorem ZF.add_fresh (h : ZF L) (hb : NoRec L b) : ZF ({ blk := b, s := s, e := e, ty := ty } :: L) := ⟨h, fun _ => hb⟩

/-- the test record of `procIf` / `procIfElif`: located, or stored in a block without records -/
theorem ZF.add_test (h : ZF L) (ht : e ≠ 0 ∨ NoRec L b) : ZF ({ blk := b, s := s, e := e, ty := ty } :: L) := by
  rcases ht with ht | ht
  · exact h.add_nz ht
  · exact h.add_fresh ht

theorem ZF.suffix : ∀ {a : List SRec}, ZF (a ++ L) → ZF L
  | [], h => h
  | _ :: _, h => ZF.suffix h.1
end zf

/-! ### well-formedness of intermediate states (`Inv 0 0`: no ownership side conditions) -/
section inv0
variable {s0 s : St}

theorem WF.i0 (w : WF s) : Inv 0 0 s s := Inv.refl w (.inr (Nat.zero_le _))

theorem Inv.e0 (i : Inv 0 0 s0 s) {a b : Nat} {t : ETy} (ha : a < s.next) (hb : b < s.next) : Inv 0 0 s0 (s.edge a b t) :=
  i.edge (.inr (Nat.zero_le _)) ha hb
theorem Inv.u0 (i : Inv 0 0 s0 s) {a b : Nat} {t : ETy} (ha : a < s.next) (hb : b < s.next) : Inv 0 0 s0 (s.edgeUnlessExit a b t) :=
  i.edgeUnlessExit (.inr (Nat.zero_le _)) ha hb
theorem Inv.a0 (i : Inv 0 0 s0 s) {b p q : Nat} {ty : Ty} (hb : b < s.next) : Inv 0 0 s0 (s.add b p q ty) :=
  i.add (.inr (Nat.zero_le _)) hb
theorem Inv.c0 (i : Inv 0 0 s0 s) {x : Nat} (hx : x < s.next) : Inv 0 0 s0 (PV.CFGSound.setCur s x) :=
  i.setCur (.inr (Nat.zero_le _)) hx

theorem procList_inv0 (ss : List Stmt) (st : St) (w : WF st) : Inv 0 0 st (procList st ss) :=
  (procList_frame ss st w 0 0 (.inr (Nat.zero_le _)) (Nat.zero_le _)).1
theorem procList_same (ss : List Stmt) (st : St) (w : WF st) : Same st (procList st ss) :=
  (procList_frame ss st w 0 0 (.inr (Nat.zero_le _)) (Nat.zero_le _)).2
theorem procStmt_inv0 (x : Stmt) (st : St) (w : WF st) : Inv 0 0 st (procStmt st x) :=
  (procStmt_frame x st w 0 0 (.inr (Nat.zero_le _)) (Nat.zero_le _)).1
end inv0

end PV.CFGSound
