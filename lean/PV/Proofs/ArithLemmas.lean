import PV.Model.Arith
/-! Order lemmas over an arbitrary `MonoArith` carrier (helper lemmas for C15, C08). -/
namespace PV
namespace MA
variable {F : Type} [MonoArith F]
open Arith

abbrev z : F := Arith.lit 0 1

theorem le_rfl' (a : F) : a ≤ a := MonoArith.le_refl a
theorem le_tr {a b c : F} (h₁ : a ≤ b) (h₂ : b ≤ c) : a ≤ c := MonoArith.le_trans a b c h₁ h₂
theorem le_tot (a b : F) : a ≤ b ∨ b ≤ a := MonoArith.le_total a b
theorem lt_iff {a b : F} : a < b ↔ ¬ b ≤ a := MonoArith.lt_iff_not_le a b
theorem le_of_not_le {a b : F} (h : ¬ a ≤ b) : b ≤ a := (le_tot a b).resolve_left h
theorem le_of_lt {a b : F} (h : a < b) : a ≤ b := le_of_not_le (lt_iff.mp h)
theorem not_lt {a b : F} : ¬ a < b ↔ b ≤ a := by
  rw [lt_iff]; exact ⟨fun h => Classical.not_not.mp h, fun h h' => h' h⟩
theorem lt_of_lt_of_le {a b c : F} (h₁ : a < b) (h₂ : b ≤ c) : a < c := by
  rw [lt_iff] at *; exact fun h => h₁ (le_tr h₂ h)
theorem lt_of_le_of_lt {a b c : F} (h₁ : a ≤ b) (h₂ : b < c) : a < c := by
  rw [lt_iff] at *; exact fun h => h₂ (le_tr h h₁)

theorem lit_le {n : Int} {d : Nat} {n' : Int} {d' : Nat} (hd : 0 < d) (hd' : 0 < d') (h : n * d' ≤ n' * d) :
    (Arith.lit n d : F) ≤ Arith.lit n' d' := MonoArith.lit_mono n d n' d' hd hd' h
theorem lit_pos {n : Int} {d : Nat} (hd : 0 < d) (h : (d : Int) ≤ n * 2 ^ 100) : (z : F) < Arith.lit n d :=
  MonoArith.lit_pos n d hd h
theorem ofInt_le {m n : Int} (h : m ≤ n) : (Arith.ofInt m : F) ≤ Arith.ofInt n := by
  rw [MonoArith.ofInt_lit, MonoArith.ofInt_lit]; exact lit_le (by decide) (by decide) (by omega)
theorem ofInt_nonneg {n : Int} (h : 0 ≤ n) : (z : F) ≤ Arith.ofInt n := by
  rw [MonoArith.ofInt_lit]; exact lit_le (by decide) (by decide) (by omega)
theorem ofInt_pos {n : Int} (h : 0 < n) : (z : F) < Arith.ofInt n := by
  rw [MonoArith.ofInt_lit]; exact lit_pos (by decide) (by omega)

theorem add_le_add {a b c d : F} (h₁ : a ≤ b) (h₂ : c ≤ d) : a + c ≤ b + d :=
  le_tr (MonoArith.add_mono_l a b c h₁) (MonoArith.add_mono_r c d b h₂)
theorem sub_le_sub_l {a b : F} (c : F) (h : a ≤ b) : a - c ≤ b - c := MonoArith.sub_mono_l a b c h
theorem sub_le_sub_r {a b : F} (c : F) (h : a ≤ b) : c - b ≤ c - a := MonoArith.sub_mono_r a b c h
theorem mul_le_mul_l {a b : F} (c : F) (hc : (z : F) ≤ c) (h : a ≤ b) : a * c ≤ b * c := MonoArith.mul_mono_l a b c hc h
theorem mul_le_mul_r {a b : F} (c : F) (hc : (z : F) ≤ c) (h : a ≤ b) : c * a ≤ c * b := MonoArith.mul_mono_r a b c hc h
theorem div_le_div_l {a b : F} (c : F) (hc : (z : F) < c) (h : a ≤ b) : a / c ≤ b / c := MonoArith.div_mono_l a b c hc h
theorem mul_nonneg {a b : F} (ha : (z : F) ≤ a) (hb : (z : F) ≤ b) : (z : F) ≤ a * b := MonoArith.mul_nonneg a b ha hb
theorem div_nonneg {a b : F} (ha : (z : F) ≤ a) (hb : (z : F) < b) : (z : F) ≤ a / b := MonoArith.div_nonneg a b ha hb
theorem add_nonneg {a b : F} (ha : (z : F) ≤ a) (hb : (z : F) ≤ b) : (z : F) ≤ a + b := MonoArith.add_nonneg a b ha hb
theorem add_pos_l {a b : F} (ha : (z : F) < a) (hb : (z : F) ≤ b) : (z : F) < a + b := MonoArith.add_pos_l a b ha hb
theorem sub_nonneg {a b : F} (h : b ≤ a) : (z : F) ≤ a - b := MonoArith.sub_nonneg a b h

theorem mul_one' (a : F) : a * (Arith.lit 1 1 : F) = a := MonoArith.mul_one_lit a
theorem one_mul' (a : F) : (Arith.lit 1 1 : F) * a = a := MonoArith.one_mul_lit a
theorem sub_zero' (a : F) : a - (Arith.lit 0 1 : F) = a := MonoArith.sub_zero_lit a

/-- `int(math.Round(x))` -/
def roundI (x : F) : Int := Arith.trunc (Arith.round x)

theorem roundI_mono {a b : F} (h : a ≤ b) : roundI a ≤ roundI b :=
  MonoArith.trunc_mono _ _ (MonoArith.round_mono a b h)
theorem small_of_natAbs_le {n : Int} (h : n.natAbs ≤ 1000000) : SmallInt n := by
  unfold SmallInt; exact Nat.le_trans h (by decide)
theorem roundI_lit {n : Int} (h : n.natAbs ≤ 1000000) : roundI (Arith.lit n 1 : F) = n := by
  unfold roundI; rw [MonoArith.round_lit n (small_of_natAbs_le h), MonoArith.trunc_lit n (small_of_natAbs_le h)]
theorem trunc_lit' {n : Int} (h : n.natAbs ≤ 1000000) : Arith.trunc (Arith.lit n 1 : F) = n :=
  MonoArith.trunc_lit n (small_of_natAbs_le h)
theorem roundI_nonneg {a : F} (h : (z : F) ≤ a) : 0 ≤ roundI a := by
  have := roundI_mono h; rwa [roundI_lit (by decide)] at this
theorem trunc_nonneg {a : F} (h : (z : F) ≤ a) : 0 ≤ Arith.trunc a := by
  have := MonoArith.trunc_mono _ _ h; rwa [trunc_lit' (by decide)] at this

/-- `if p > c { p = c }` -/
def capHi (p c : F) : F := if p > c then c else p
/-- `if p < c { p = c }` -/
def capLo (p c : F) : F := if p < c then c else p

theorem capHi_le (p c : F) : capHi p c ≤ c := by
  unfold capHi; split
  · exact le_rfl' c
  · next h => exact not_lt.mp h
theorem capHi_mono {p q : F} (c : F) (h : p ≤ q) : capHi p c ≤ capHi q c := by
  unfold capHi; split <;> split
  · exact le_rfl' c
  · next h₁ h₂ => exact absurd (lt_of_lt_of_le (show c < p from h₁) h) h₂
  · next h₁ h₂ => exact not_lt.mp h₁
  · exact h
theorem le_capHi {a p c : F} (h₁ : a ≤ p) (h₂ : a ≤ c) : a ≤ capHi p c := by
  unfold capHi; split <;> assumption
theorem capLo_ge (p c : F) : c ≤ capLo p c := by
  unfold capLo; split
  · exact le_rfl' c
  · next h => exact not_lt.mp h
theorem capLo_mono {p q : F} (c : F) (h : p ≤ q) : capLo p c ≤ capLo q c := by
  unfold capLo; split <;> split
  · exact le_rfl' c
  · next h₁ h₂ => exact not_lt.mp h₂
  · next h₁ h₂ => exact absurd (lt_of_le_of_lt h (show q < c from h₂)) h₁
  · exact h
theorem capLo_le {p c a : F} (h₁ : p ≤ a) (h₂ : c ≤ a) : capLo p c ≤ a := by
  unfold capLo; split <;> assumption

theorem fmin_mono_r {a b : F} (c : F) (h : a ≤ b) : Arith.fmin c a ≤ Arith.fmin c b :=
  MonoArith.le_fmin _ _ _ (MonoArith.fmin_le_l c a) (le_tr (MonoArith.fmin_le_r c a) h)
theorem fmax_mono_r {a b : F} (c : F) (h : a ≤ b) : Arith.fmax c a ≤ Arith.fmax c b :=
  MonoArith.fmax_le _ _ _ (MonoArith.le_fmax_l c b) (le_tr h (MonoArith.le_fmax_r c b))

end MA
end PV
