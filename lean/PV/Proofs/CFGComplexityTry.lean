import PV.Proofs.CFGComplexityDefs
/-!
Property C03 for the CFG mirror — `try` / `except` / `else` (no `finally`): the handlers, the body + handlers (`tryMid`),
the `else` part (`tryElse`) and the assembly `try_cnt`.
-/
namespace PV.CFGSound
open PV.CFG PV.Dec

section main
variable {E : List Edge} {N : Nat}

/-! ### small helpers -/
theorem LTI.tryStartEq {G : Nat → Prop} {s0 s0' s : St} (h : LTI E G s0 s) (he : s0'.edges = s0.edges) : LTI E G s0' s := by
  obtain ⟨ne, h1, h2⟩ := h
  exact ⟨ne, by rw [he]; exact h1, h2⟩

theorem try_foldl_edge_calm (src : Nat) (t : ETy) {m : Nat} (hf : src ≠ m) : ∀ (hs : List Nat) (s : St), Calm s m →
    Calm (hs.foldl (fun st h => st.edge src h t) s) m
  | [], _, h => h
  | h :: hs, s, hu => by
    simp only [List.foldl_cons]
    exact try_foldl_edge_calm src t hf hs _ (hu.edge hf)

theorem try_own_ne {c n x m : Nat} (h : Own c n x) (h1 : m ≠ c) (h2 : m < n) : x ≠ m := by
  rcases h with h | h <;> omega

/-! ### handlers -/
theorem handlers_cnt (ih : ∀ ss, sizeL ss ≤ N → QCL E ss) (nh : Nat) (il : Bool) (after : Nat) :
    ∀ (hs : List Stmt) (hbs : List Nat) (st : St), sizeL hs ≤ N → WF st → CtxC nh il st → okCHs il hs = true →
      hbs.length = hs.length → hbs.Nodup → (∀ hb ∈ hbs, hb < st.next ∧ Calm st hb ∧ R E hb) → after < st.next →
      Fut E st.next (procHandlers st hs hbs after).next (procHandlers st hs hbs after) →
      cnt (rE E) (procHandlers st hs hbs after).edges + hs.length = cnt (rE E) st.edges + ldAlts nh hs ∧
      ((sxAlts hs).ex.normal = true → R E after) ∧
      ((sxAlts hs).ex.brk = true → ∀ h x d rest, st.loops = (h, x, d) :: rest → R E x) ∧
      LTI E (fun t => TgOK st.next st.loops st.excs (sxAlts hs).ex.brk t ∨ (t = after ∧ (sxAlts hs).ex.normal = true)) st
        (procHandlers st hs hbs after) ∧
      (∀ m, m < st.next → (∀ hb ∈ hbs, m ≠ hb) → Calm st m → Calm (procHandlers st hs hbs after) m) := by
  intro hs
  induction hs with
  | nil =>
    intro hbs st _ _ _ _ _ _ _ _ _
    rw [procHandlers_nil_l, sxAlts_nil, ldAlts_nil]
    exact ⟨rfl, ff, ff, LTI.refl _ _ _, fun m _ _ h => h⟩
  | cons x hs ihh =>
    intro hbs st hsz w hc hok hlen hnd hhb hal hf
    obtain ⟨s, e, body, rfl, hok1, hok2⟩ := okCHs_cons hok
    rcases hbs with _ | ⟨hb, hbs⟩
    · simp at hlen
    simp only [sizeL, Stmt.size] at hsz
    simp only [List.length_cons, Nat.add_right_cancel_iff] at hlen
    rw [List.nodup_cons] at hnd
    rw [procHandlers_handler] at hf ⊢
    simp only [] at hf ⊢
    rw [sxAlts_cons, sxS_handler, ldAlts_cons, ldS_handler]
    obtain ⟨hbl, hbc, hbr⟩ := hhb hb List.mem_cons_self
    have hcur := w.cur
    have h2 := w.two
    have i0 : Inv st.cur 0 st st := Inv.refl w (Or.inl rfl)
    have i1 := (i0.setCur (x := hb) (by ob) hbl).add (b := hb) (p := s) (q := e) (ty := .other) (by ob) (by ob)
    obtain ⟨j, sm⟩ := procList_frame body _ i1.wf hb st.next (Or.inl rfl) (Nat.le_refl _)
    have hjn := j.next_le
    have hown := j.own
    have k2 := j.edgeUnlessExit (a := (procList ((setCur st hb).add hb s e .other) body).cur) (b := after) (t := .normal) j.own j.wf.cur (by ob)
    have hent : EntryC E ((setCur st hb).add hb s e .other) := ⟨hbr, (Calm.congr (s' := setCur st hb) rfl rfl hbc).add_other⟩
    have hp1 := fun f => ih body (by omega) nh il _ i1.wf (hc.of_eq rfl rfl) hok1 f hent
    have hl2 : ((procList ((setCur st hb).add hb s e .other) body).edgeUnlessExit (procList ((setCur st hb).add hb s e .other) body).cur
        after .normal).loops = st.loops := by
      simp only [edgeUnlessExit_loops, sm.loops]; rfl
    have hx2 : ((procList ((setCur st hb).add hb s e .other) body).edgeUnlessExit (procList ((setCur st hb).add hb s e .other) body).cur
        after .normal).excs = st.excs := by
      simp only [edgeUnlessExit_excs, sm.excs]; rfl
    generalize procList _ body = s1 at *
    have hctx : CtxLt (s1.edgeUnlessExit s1.cur after .normal) st.next := (w.ctxLt (Nat.le_refl _)).of_eq hl2 hx2
    have hhb' : ∀ y ∈ hbs, y < (s1.edgeUnlessExit s1.cur after .normal).next ∧ Calm (s1.edgeUnlessExit s1.cur after .normal) y ∧ R E y := by
      intro y hy
      obtain ⟨a1, a2, a3⟩ := hhb y (List.mem_cons_of_mem _ hy)
      have hne : y ≠ hb := fun h => hnd.1 (h ▸ hy)
      exact ⟨by ob, Calm.eue (try_own_ne hown hne a1) (j.calm hne a1 (Calm.add_ne (fun h => hne h.symm) (Calm.congr (s' := setCur st hb) rfl rfl a2))), a3⟩
    obtain ⟨j3, sm3⟩ := handlers_frame (c := st.cur) (n := 0) (frame_all (sizeL hs)).1 (frame_all (sizeL hs)).2 hs hbs _ after (Nat.le_refl _)
      k2.wf (.inr (Nat.zero_le _)) (Nat.zero_le _) (fun y hy => ⟨.inr (Nat.zero_le _), (hhb' y hy).1⟩) (by ob)
    have hjn3 := j3.next_le
    have fb : Fut E st.next s1.next s1 := ((hf.mono (lo' := st.next) (hi' := s1.next) (Nat.le_refl _) (by ob)).back_TI
      (procHandlers_target hs hbs _ after k2.wf (fun y hy => (hhb' y hy).1) (by ob) _ (TG.zone hctx h2 (by ob)) (.inl hal))).back_eue (.inl hal)
    have hp := hp1 fb
    obtain ⟨r1, r2, r3, r4, r5⟩ := ihh hbs _ (by omega) k2.wf (hc.of_eq hl2 hx2) hok2 hlen hnd.2 hhb' (by ob)
      (hf.mono (by ob) (Nat.le_refl _))
    have e1 : cnt (rE E) (s1.edgeUnlessExit s1.cur after .normal).edges = cnt (rE E) s1.edges :=
      cnt_eue_plain s1 s1.cur after .normal rfl (by intro h; cases h)
    have e2 := hp.cnt
    simp only [add_edges, setCur_edges] at e2
    have key : cnt (rE E) (procHandlers (s1.edgeUnlessExit s1.cur after .normal) hs hbs after).edges + (hs.length + 1) =
          cnt (rE E) st.edges + (1 + ldL nh body + ldAlts nh hs) ∧
        (((sxL body).ex.normal || (sxAlts hs).ex.normal) = true → R E after) ∧
        (((sxL body).ex.brk || (sxAlts hs).ex.brk) = true → ∀ h x d rest, st.loops = (h, x, d) :: rest → R E x) ∧
        LTI E (fun t => TgOK st.next st.loops st.excs ((sxL body).ex.brk || (sxAlts hs).ex.brk) t ∨
            (t = after ∧ ((sxL body).ex.normal || (sxAlts hs).ex.normal) = true)) st
          (procHandlers (s1.edgeUnlessExit s1.cur after .normal) hs hbs after) ∧
        (∀ m, m < st.next → (∀ hb' ∈ hb :: hbs, m ≠ hb') → Calm st m →
          Calm (procHandlers (s1.edgeUnlessExit s1.cur after .normal) hs hbs after) m) := by
      refine ⟨by omega, ?_, ?_, ?_, ?_⟩
      · intro hn
        rcases Bool.or_eq_true_iff.mp hn with hn | hn
        · have he1 := hp.normal hn
          have hm : (s1.cur, after, ETy.normal) ∈ (s1.edgeUnlessExit s1.cur after .normal).edges := by
            rw [he1.calm.eue_eq]; exact List.mem_cons_self ..
          exact R.step he1.reach (hf.mem (j3.sub.1 _ hm))
        · exact r2 hn
      · intro hb' h x d rest hl
        rcases Bool.or_eq_true_iff.mp hb' with hb' | hb'
        · exact hp.brk hb' h x d rest hl
        · exact r3 hb' h x d rest (hl2.trans hl)
      · have t1 : LTI E (fun t => TgOK st.next st.loops st.excs ((sxL body).ex.brk || (sxAlts hs).ex.brk) t ∨
            (t = after ∧ ((sxL body).ex.normal || (sxAlts hs).ex.normal) = true)) st s1 :=
          (hp.tgt.mono (fun t h => .inl (h.mono (Nat.le_refl _) (fun hb => by simp [hb])))).tryStartEq rfl
        have t2 := t1.eue (a := s1.cur) (b := after) (t := .normal) (fun hr => by
          cases hn : (sxL body).ex.normal
          · exact absurd hr (hp.dead hn)
          · exact .inr ⟨rfl, by simp⟩)
        refine t2.trans (r4.mono (fun t h => ?_))
        rw [hl2, hx2] at h
        rcases h with h | ⟨h1, h2⟩
        · exact .inl (h.mono (by ob) (fun hb => by simp [hb]))
        · exact .inr ⟨h1, by simp [h2]⟩
      · intro m hm1 hm2 hcm
        have hne : m ≠ hb := hm2 hb List.mem_cons_self
        exact r5 m (by ob) (fun hb' hm => hm2 hb' (List.mem_cons_of_mem _ hm))
          (Calm.eue (try_own_ne hown hne hm1) (j.calm hne hm1 (Calm.add_ne (fun h => hne h.symm) (Calm.congr (s' := setCur st hb) rfl rfl hcm))))
    exact key

/-! ### the body and the handlers -/
theorem tryMid_cnt (ih : ∀ ss, sizeL ss ≤ N → QCL E ss) (body handlers : List Stmt) (hbz : sizeL body ≤ N) (hhz : sizeL handlers ≤ N)
    (il : Bool) (s3 : St) (tryB : Nat) (X0 : List Exc) (nat ah : Nat) (w : WF s3)
    (hx0 : ∀ cx ∈ X0, (∀ g, cx.fin = some g → g < s3.next) ∧ ∀ h ∈ cx.handlers, h < s3.next)
    (hloops : il = true → s3.loops ≠ [])
    (hnofin : ∀ c ∈ X0, c.fin = none ∧ c.processingFinally = false)
    (hokb : okCL il body = true) (hokh : okCHs il handlers = true)
    (htl : tryB < s3.next) (htc : Calm s3 tryB) (hrt : R E tryB) (hnl : nat < s3.next) (hal : ah < s3.next)
    (hf : ∀ lo hi, s3.next + handlers.length ≤ lo → hi ≤ (tryMid s3 tryB none X0 nat ah body handlers).next →
      Fut E lo hi (tryMid s3 tryB none X0 nat ah body handlers)) :
    cnt (rE E) (tryMid s3 tryB none X0 nat ah body handlers).edges =
      cnt (rE E) s3.edges + ldL (if handlers.length > 0 then handlers.length else 1) body +
        ldAlts (if handlers.length > 0 then handlers.length else 1) handlers ∧
    ((sxL body).ex.normal = true → R E nat) ∧
    ((sxAlts handlers).ex.normal = true → R E ah) ∧
    (((sxL body).ex.brk || (sxAlts handlers).ex.brk) = true → ∀ h x d rest, s3.loops = (h, x, d) :: rest → R E x) ∧
    LTI E (fun t => TgOK s3.next s3.loops [] ((sxL body).ex.brk || (sxAlts handlers).ex.brk) t ∨ (t = nat ∧ (sxL body).ex.normal = true) ∨
        (t = ah ∧ (sxAlts handlers).ex.normal = true)) s3 (tryMid s3 tryB none X0 nat ah body handlers) ∧
    (∀ m, m < s3.next → m ≠ tryB → Calm s3 m → Calm (tryMid s3 tryB none X0 nat ah body handlers) m) := by
  unfold tryMid at hf ⊢
  simp only [] at hf ⊢
  have hmem : ∀ h ∈ (List.range handlers.length).map (fun k => s3.next + k), s3.next ≤ h ∧ h < s3.next + handlers.length := by
    intro h hh
    obtain ⟨k, hk, rfl⟩ := List.mem_map.mp hh
    have := List.mem_range.mp hk
    omega
  have hlen : ((List.range handlers.length).map (fun k => s3.next + k)).length = handlers.length := by simp
  have hnd := nodup_map_add s3.next handlers.length
  generalize (List.range handlers.length).map (fun k => s3.next + k) = hbs at hmem hlen hnd hf ⊢
  generalize hnh : (if handlers.length > 0 then handlers.length else 1) = nh'
  have hcur := w.cur
  have h2 := w.two
  have i0 : Inv s3.cur 0 s3 s3 := Inv.refl w (Or.inl rfl)
  have i4 := ((i0.bumpN handlers.length).setExcs (x := { fin := none, handlers := hbs, processingFinally := false } :: X0) (by
    intro cx hcx
    rcases List.mem_cons.mp hcx with rfl | hcx
    · exact ⟨fun g hg => (by cases hg), fun h hh => by have := hmem h hh; ob⟩
    · exact ⟨fun g hg => by have := (hx0 cx hcx).1 g hg; ob, fun h hh => by have := (hx0 cx hcx).2 h hh; ob⟩)).setCur
      (x := tryB) (by ob) (by ob)
  obtain ⟨j5, sm5⟩ := procList_frame body _ i4.wf tryB (s3.next + handlers.length) (Or.inl rfl) (by ob)
  obtain ⟨j50, _⟩ := procList_frame body _ i4.wf s3.cur 0 (Or.inr (Nat.zero_le _)) (Nat.zero_le _)
  have hown := j5.own
  have hjn := j5.next_le
  have hjc := j5.wf.cur
  have k5' := j50.edgeUnlessExit (b := nat) (t := .normal) j50.own hjc (by ob)
  have hc4 : CtxC nh' il (setCur (setExcs (bumpN s3 handlers.length) ({ fin := none, handlers := hbs, processingFinally := false } :: X0)) tryB) := by
    refine ⟨hloops, ?_, ?_⟩
    · intro c hc
      rcases List.mem_cons.mp hc with rfl | hc
      · exact ⟨rfl, rfl⟩
      · exact hnofin c hc
    · show (if hbs.length > 0 then hbs.length else 1) = nh'
      rw [hlen]; exact hnh
  have hent4 : EntryC E (setCur (setExcs (bumpN s3 handlers.length) ({ fin := none, handlers := hbs, processingFinally := false } :: X0)) tryB) :=
    ⟨hrt, Calm.congr (s := s3) rfl rfl htc⟩
  have hp1 := fun f => ih body hbz nh' il _ i4.wf hc4 hokb f hent4
  have hl5 : ((procList (setCur (setExcs (bumpN s3 handlers.length) ({ fin := none, handlers := hbs, processingFinally := false } :: X0)) tryB) body).edgeUnlessExit
      (procList (setCur (setExcs (bumpN s3 handlers.length) ({ fin := none, handlers := hbs, processingFinally := false } :: X0)) tryB) body).cur
      nat .normal).loops = s3.loops := by
    simp only [edgeUnlessExit_loops, sm5.loops]; rfl
  have hx5 : ((procList (setCur (setExcs (bumpN s3 handlers.length) ({ fin := none, handlers := hbs, processingFinally := false } :: X0)) tryB) body).edgeUnlessExit
      (procList (setCur (setExcs (bumpN s3 handlers.length) ({ fin := none, handlers := hbs, processingFinally := false } :: X0)) tryB) body).cur
      nat .normal).excs = { fin := none, handlers := hbs, processingFinally := false } :: X0 := by
    simp only [edgeUnlessExit_excs, sm5.excs]; rfl
  have hu4 : ∀ m, Untouched s3 m →
      Untouched (setCur (setExcs (bumpN s3 handlers.length) ({ fin := none, handlers := hbs, processingFinally := false } :: X0)) tryB) m := by
    intro m hu
    simp only [unt_setCur, unt_setExcs, unt_bumpN]
    exact hu
  generalize procList _ body = s5 at *
  obtain ⟨k6, sm6, hn6, hc6⟩ := foldl_edges_frame (c := s3.cur) (n := 0) tryB .exc hbs _
    (Inv.refl k5'.wf (.inr (Nat.zero_le _)) : Inv s3.cur 0 (s5.edgeUnlessExit s5.cur nat .normal) (s5.edgeUnlessExit s5.cur nat .normal))
    (.inr (Nat.zero_le _)) (by ob) (fun h hh => by have := hmem h hh; ob)
  have c6 := cnt_foldl_exc (r := rE E) tryB (rE_true.mpr hrt) hbs (s5.edgeUnlessExit s5.cur nat .normal)
  have hback6 : ∀ lo hi, s3.next + handlers.length ≤ lo →
      Fut E lo hi (hbs.foldl (fun st h => st.edge tryB h .exc) (s5.edgeUnlessExit s5.cur nat .normal)) → Fut E lo hi s5 :=
    fun lo hi hlo f => (f.back_foldl tryB .exc hbs _ (fun h hh => .inl (by have := hmem h hh; omega))).back_eue (.inl (by omega))
  have calm6 : ∀ m, tryB ≠ m → Calm (s5.edgeUnlessExit s5.cur nat .normal) m →
      Calm (hbs.foldl (fun st h => st.edge tryB h .exc) (s5.edgeUnlessExit s5.cur nat .normal)) m :=
    fun m hm h => try_foldl_edge_calm tryB .exc hm hbs _ h
  have unt6 : ∀ m, tryB ≠ m → Untouched (s5.edgeUnlessExit s5.cur nat .normal) m →
      Untouched (hbs.foldl (fun st h => st.edge tryB h .exc) (s5.edgeUnlessExit s5.cur nat .normal)) m :=
    fun m hm h => foldl_edge_unt tryB .exc hm hbs _ h
  have mem6 : ∀ S : List SRec, Cov E S (hbs.foldl (fun st h => st.edge tryB h .exc) (s5.edgeUnlessExit s5.cur nat .normal)) →
      ∀ h ∈ hbs, (tryB, h, ETy.exc) ∈ E := fun S hc => (foldl_edge_cov tryB .exc hbs _ hc).1
  have lti6 : ∀ (G : Nat → Prop) (s0 : St), LTI E G s0 (s5.edgeUnlessExit s5.cur nat .normal) → (R E tryB → ∀ h ∈ hbs, G h) →
      LTI E G s0 (hbs.foldl (fun st h => st.edge tryB h .exc) (s5.edgeUnlessExit s5.cur nat .normal)) :=
    fun G s0 h hg => LTI.foldl tryB .exc hbs _ h hg
  generalize hbs.foldl (fun st h => st.edge tryB h .exc) (s5.edgeUnlessExit s5.cur nat .normal) = s6 at *
  have hl6 : s6.loops = s3.loops := sm6.loops.trans hl5
  have hx6 : s6.excs = { fin := none, handlers := hbs, processingFinally := false } :: X0 := sm6.excs.trans hx5
  have hhbl : ∀ y ∈ hbs, y < s6.next := fun y hy => by have := hmem y hy; rw [hn6]; ob
  obtain ⟨j7, sm7⟩ := handlers_frame (c := s3.cur) (n := 0) (frame_all N).1 (frame_all N).2 handlers hbs s6 ah hhz k6.wf
    (Or.inr (Nat.zero_le _)) (Nat.zero_le _) (fun h hh => ⟨Or.inr (Nat.zero_le _), hhbl h hh⟩) (by rw [hn6]; ob)
  have hjn7 := j7.next_le
  have f7 : Fut E s6.next (procHandlers s6 handlers hbs ah).next (procHandlers s6 handlers hbs ah) :=
    hf _ _ (by rw [hn6]; ob) (Nat.le_refl _)
  have hctx6 : CtxLt s6 (s3.next + handlers.length) := (i4.wf.ctxLt (by ob)).of_eq hl6 hx6
  have f5 : Fut E (s3.next + handlers.length) s5.next s5 :=
    hback6 _ _ (Nat.le_refl _) ((hf (s3.next + handlers.length) s5.next (Nat.le_refl _) (by rw [hn6] at hjn7; ob)).back_TI
      (procHandlers_target handlers hbs s6 ah k6.wf hhbl (by rw [hn6]; ob) _ (TG.zone hctx6 (by omega) (by rw [hn6]; ob)) (.inl (by omega))))
  have hp := hp1 (f5.mono (by ob) (Nat.le_refl _))
  have hcov6 : Cov E (procHandlers s6 handlers hbs ah).stmts s6 := Cov.of_inv j7 ⟨fun e h => f7.mem h, fun r h => h⟩
  have hhb6 : ∀ hb ∈ hbs, hb < s6.next ∧ Calm s6 hb ∧ R E hb := by
    intro hb hm
    have := hmem hb hm
    refine ⟨hhbl hb hm, (unt6 hb (by omega) (Untouched.eue (try_own_ne hown (by omega) this.2)
      (j5.untouched (by omega) this.2 (hu4 hb (w.untouched this.1))))).calm, R.step hrt (mem6 _ hcov6 hb hm)⟩
  obtain ⟨r1, r2, r3, r4, r5⟩ := handlers_cnt ih nh' il ah handlers hbs s6 hhz k6.wf (hc4.of_eq hl6 hx6) hokh hlen hnd hhb6
    (by rw [hn6]; ob) f7
  have c5 : cnt (rE E) (s5.edgeUnlessExit s5.cur nat .normal).edges = cnt (rE E) s5.edges :=
    cnt_eue_plain s5 s5.cur nat .normal rfl (by intro h; cases h)
  have c4 := hp.cnt
  simp only [setCur_edges, setExcs_edges, bumpN_edges] at c4
  refine ⟨by omega, ?_, r2, ?_, ?_, ?_⟩
  · intro hn
    have he5 := hp.normal hn
    have hm : (s5.cur, nat, ETy.normal) ∈ (s5.edgeUnlessExit s5.cur nat .normal).edges := by
      rw [he5.calm.eue_eq]; exact List.mem_cons_self ..
    exact R.step he5.reach (hcov6.1 _ (k6.sub.1 _ hm))
  · intro hb h x d rest hl
    rcases Bool.or_eq_true_iff.mp hb with hb | hb
    · exact hp.brk hb h x d rest hl
    · exact r3 hb h x d rest (hl6.trans hl)
  · have t1 : LTI E (fun t => TgOK s3.next s3.loops [] ((sxL body).ex.brk || (sxAlts handlers).ex.brk) t ∨ (t = nat ∧ (sxL body).ex.normal = true) ∨
        (t = ah ∧ (sxAlts handlers).ex.normal = true)) s3 s5 :=
      (hp.tgt.mono (fun t h => .inl (h.weaken (n := s3.next) (by ob)
        (fun hd x d rest hl ht => .inr (.inr (.inl ⟨hd, x, d, rest, hl, ht.imp id (fun ⟨a, b⟩ => ⟨a, by simp [b]⟩)⟩)))
        (fun c rest hx ht => by
          simp only [setCur_excs, setExcs_excs, List.cons.injEq] at hx
          obtain ⟨rfl, _⟩ := hx
          exact .inl (hmem t ht).1)))).tryStartEq rfl
    have t2 := t1.eue (a := s5.cur) (b := nat) (t := .normal) (fun hr => by
      cases hn : (sxL body).ex.normal
      · exact absurd hr (hp.dead hn)
      · exact .inr (.inl ⟨rfl, rfl⟩))
    have t3 := lti6 _ _ t2 (fun _ h hh => .inl (.inl (hmem h hh).1))
    refine t3.trans (r4.mono (fun t h => ?_))
    rw [hl6, hx6] at h
    rcases h with h | ⟨h1, h2⟩
    · refine .inl (h.weaken (n := s3.next) (by rw [hn6]; ob)
        (fun hd x d rest hl ht => .inr (.inr (.inl ⟨hd, x, d, rest, hl, ht.imp id (fun ⟨a, b⟩ => ⟨a, by simp [b]⟩)⟩)))
        (fun c rest hx ht => ?_))
      simp only [List.cons.injEq] at hx
      obtain ⟨rfl, _⟩ := hx
      exact .inl (hmem t ht).1
    · exact .inr (.inr ⟨h1, h2⟩)
  · intro m hm1 hm2 hcm
    exact r5 m (by rw [hn6]; ob) (fun hb hh => by have := hmem hb hh; omega)
      (calm6 m (fun h => hm2 h.symm) (Calm.eue (try_own_ne hown hm2 (by omega)) (j5.calm hm2 (by omega) (Calm.congr (s := s3) rfl rfl hcm))))


/-! ### the `else` part -/
theorem tryElse_back {lo hi : Nat} (orelse : List Stmt) (s7 : St) (w7 : WF s7) (hasElse : Bool) (elseB ah : Nat)
    (hel : hasElse = true → elseB < s7.next) (g : TG (fun x => x < lo ∨ hi ≤ x) s7) (ga : ah < lo ∨ hi ≤ ah)
    (f : Fut E lo hi (tryElse s7 hasElse elseB ah orelse)) : Fut E lo hi s7 := by
  unfold tryElse at f
  cases hasElse
  · exact f
  · simp only [↓reduceIte] at f
    have hcur := w7.cur
    have i1 := (Inv.refl w7 (.inl rfl) : Inv s7.cur 0 s7 s7).setCur (x := elseB) (.inr (Nat.zero_le _)) (hel rfl)
    exact ((f.back_eue ga).back_TI (procList_target orelse _ i1.wf _ ⟨g.up, g.exit, g.loops, g.excs⟩)).back_setCur

theorem tryElse_cnt (ih : ∀ ss, sizeL ss ≤ N → QCL E ss) (orelse : List Stmt) (hoz : sizeL orelse ≤ N) (nh' : Nat) (il : Bool)
    (s7 : St) (elseB ah : Nat) (w7 : WF s7) (hc7 : CtxC nh' il s7) (hok : okCL il orelse = true) (hel : elseB < s7.next)
    (hf : Fut E s7.next (procList (setCur s7 elseB) orelse).next (procList (setCur s7 elseB) orelse))
    (hE : ∀ e ∈ (tryElse s7 true elseB ah orelse).edges, e ∈ E)
    (bn : Bool) (hlive : bn = true → R E elseB ∧ Calm s7 elseB) (hdead : bn = false → ¬ R E elseB) :
    cnt (rE E) (tryElse s7 true elseB ah orelse).edges = cnt (rE E) s7.edges + (if bn = true then ldL nh' orelse else 0) ∧
    ((if bn = true then sxL orelse else ({} : SX)).ex.normal = true → R E ah) ∧
    ((if bn = true then sxL orelse else ({} : SX)).ex.brk = true → ∀ h x d rest, s7.loops = (h, x, d) :: rest → R E x) ∧
    LTI E (fun t => TgOK s7.next s7.loops s7.excs (if bn = true then sxL orelse else ({} : SX)).ex.brk t ∨
        (t = ah ∧ (if bn = true then sxL orelse else ({} : SX)).ex.normal = true)) s7 (tryElse s7 true elseB ah orelse) ∧
    (∀ m, m < s7.next → m ≠ elseB → Calm s7 m → Calm (tryElse s7 true elseB ah orelse) m) := by
  unfold tryElse at hE ⊢
  simp only [↓reduceIte] at hE ⊢
  have hcur := w7.cur
  have i1 := (Inv.refl w7 (.inl rfl) : Inv s7.cur 0 s7 s7).setCur (x := elseB) (.inr (Nat.zero_le _)) hel
  obtain ⟨j, sm⟩ := procList_frame orelse _ i1.wf elseB s7.next (Or.inl rfl) (Nat.le_refl _)
  have hown := j.own
  have hjn := j.next_le
  have hp1 := fun he => ih orelse hoz nh' il _ i1.wf (hc7.of_eq rfl rfl) hok hf he
  generalize procList _ orelse = s8 at *
  have c8 : cnt (rE E) (s8.edgeUnlessExit s8.cur ah .normal).edges = cnt (rE E) s8.edges :=
    cnt_eue_plain s8 s8.cur ah .normal rfl (by intro h; cases h)
  have hcalm : ∀ m, m < s7.next → m ≠ elseB → Calm s7 m → Calm (s8.edgeUnlessExit s8.cur ah .normal) m := by
    intro m hm1 hm2 hcm
    exact Calm.eue (try_own_ne hown hm2 hm1) (j.calm hm2 hm1 (Calm.congr (s := s7) rfl rfl hcm))
  cases bn
  · have dr := dead_run i1.wf j hf (hdead rfl)
    have hcnt := (dr (fun _ => True)).1
    have hdd := (dr (fun _ => True)).2.1
    refine ⟨by rw [c8, hcnt]; rfl, ff, ff, ((dr _).2.2.tryStartEq (s0' := s7) rfl).eue (fun hr => absurd hr hdd), hcalm⟩
  · simp only [↓reduceIte]
    have hp := hp1 ⟨(hlive rfl).1, Calm.congr (s := s7) rfl rfl (hlive rfl).2⟩
    have c7 := hp.cnt
    simp only [setCur_edges] at c7
    refine ⟨by rw [c8, c7], ?_, hp.brk, ?_, hcalm⟩
    · intro hn
      have he8 := hp.normal hn
      have hm : (s8.cur, ah, ETy.normal) ∈ (s8.edgeUnlessExit s8.cur ah .normal).edges := by
        rw [he8.calm.eue_eq]; exact List.mem_cons_self ..
      exact R.step he8.reach (hE _ hm)
    · have t1 : LTI E (fun t => TgOK s7.next s7.loops s7.excs (sxL orelse).ex.brk t ∨ (t = ah ∧ (sxL orelse).ex.normal = true)) s7 s8 :=
        (hp.tgt.mono (fun t h => Or.inl h)).tryStartEq rfl
      refine t1.eue (fun hr => ?_)
      cases hn : (sxL orelse).ex.normal
      · exact absurd hr (hp.dead hn)
      · exact .inr ⟨rfl, rfl⟩

/-! ### assembling -/
theorem try_finish {st s8 : St} (w : WF st) (ex : Ex) (n : Nat) (hlt : st.next + 1 < s8.next)
    (hf : Fut E st.next s8.next (setExcs (setCur s8 (st.next + 1)) st.excs))
    (hcnt : cnt (rE E) s8.edges = cnt (rE E) st.edges + n)
    (hn : ex.normal = true → R E (st.next + 1))
    (hcalm : Calm s8 (st.next + 1))
    (hbrk : ex.brk = true → ∀ h x d rest, st.loops = (h, x, d) :: rest → R E x)
    (hlti : LTI E (fun t => TgOK st.next st.loops st.excs ex.brk t ∧ (ex.normal = false → t ≠ st.next + 1)) st s8) :
    PostC E st (setExcs (setCur s8 (st.next + 1)) st.excs) ex n := by
  refine ⟨hcnt, fun h => ⟨hn h, Calm.congr (s := s8) rfl rfl hcalm⟩, fun h => ?_, hbrk, (hlti.mono (fun t h => h.1)).of_edges_eq rfl⟩
  show ¬ R E (st.next + 1)
  exact dead_of_LTI (hf.mono (lo' := st.next + 1) (hi' := st.next + 2) (by omega) (by omega))
    (Nat.le_refl _) (by omega) w (by omega) ((hlti.mono (fun t ht => ht.2 h)).of_edges_eq rfl)

theorem try_cnt (ih : ∀ ss, sizeL ss ≤ N → QCL E ss) (body handlers orelse fin : List Stmt)
    (hb : sizeL body ≤ N) (hh : sizeL handlers ≤ N) (ho : sizeL orelse ≤ N) (s e : Nat) :
    QCS E (.try_ s e body handlers orelse fin) := by
  intro nh il st w hc hok hf he
  rw [okCS_try] at hok
  simp only [Bool.and_eq_true] at hok
  obtain ⟨⟨⟨hokb, hokh⟩, hoke⟩, hfe⟩ := hok
  have hfin : fin = [] := List.isEmpty_iff.mp hfe
  subst hfin
  rw [procStmt_try, procTry_eq'] at hf ⊢
  rw [sxS_try, ldS_try]
  simp only [List.isEmpty_nil, Bool.not_true, Bool.false_eq_true, ↓reduceIte] at hf ⊢
  unfold tryFin at hf ⊢
  simp only [Bool.false_eq_true, ↓reduceIte] at hf ⊢
  obtain ⟨hasElse, hE⟩ : ∃ b, b = !orelse.isEmpty := ⟨_, rfl⟩
  rw [← hE] at hf ⊢
  obtain ⟨q1, q2, q3, q4, q5, q6, q7, q8, q9⟩ := tryPre_facts st false hasElse
  obtain ⟨k3, _⟩ := tryPre_frame (c := st.cur) (n := 0) st w (Or.inl rfl) (Nat.zero_le _) false hasElse
  generalize tryPre st false hasElse = p at *
  obtain ⟨s3, finB, elseB⟩ := p
  simp only [] at hf q1 q2 q3 q4 q5 q6 q7 q8 q9 k3 ⊢
  generalize hnat : (if hasElse = true then elseB else st.next + 1) = nat at hf ⊢
  have hcur := w.cur
  have h2 := w.two
  have w3 := k3.wf
  have hnatl : nat < s3.next ∧ st.next ≤ nat := by
    rw [← hnat]; cases hasElse
    · simp only [Bool.false_eq_true, ↓reduceIte]; omega
    · simp only [↓reduceIte]; have := q8 rfl; omega
  have hx0 := w.excs_le (m := s3.next) (by omega)
  obtain ⟨k7, l7, x7, hn7⟩ := tryMid_frame (c := s3.cur) (n := 0) (frame_all N).1 (frame_all N).2 body handlers hb hh
    (Inv.refl w3 (Or.inl rfl)) (Nat.zero_le _) st.next (Or.inr (Nat.zero_le _)) (by omega) none (fun f hf => by cases hf) st.excs hx0
    nat (st.next + 1) hnatl.1 (by omega)
  obtain ⟨k8, sm8, hn8⟩ := tryElse_frame (c := s3.cur) (n := 0) (frame_all N).2 orelse ho (Inv.refl k7.wf (Or.inr (Nat.zero_le _))) (Nat.zero_le _)
    hasElse elseB (st.next + 1) (fun h => ⟨Nat.zero_le _, by have := (q8 h).2; omega⟩) (by omega)
  have hmemE : ∀ x ∈ (tryElse (tryMid s3 st.next none st.excs nat (st.next + 1) body handlers) hasElse elseB (st.next + 1) orelse).edges, x ∈ E :=
    fun x h => hf.mem h
  have hrt : R E st.next :=
    R.step he.reach (hmemE _ (k8.sub.1 _ (k7.sub.1 (st.cur, st.next, .normal) (by rw [q1]; exact List.mem_cons_self ..))))
  have hu3 : ∀ m, st.next ≤ m → Untouched s3 m := by
    intro m hm
    refine ⟨fun x hx => ?_, fun r hr => ?_⟩
    · rw [q1] at hx
      rcases List.mem_cons.mp hx with rfl | hx
      · simp only; omega
      · exact (w.untouched hm).1 x hx
    · rw [q2] at hr; exact (w.untouched hm).2 r hr
  have c3 : cnt (rE E) s3.edges = cnt (rE E) st.edges := by
    rw [q1]; exact cnt_cons_plain rfl (by intro h; cases h)
  have hmemh : ∀ h ∈ (List.range handlers.length).map (fun k => s3.next + k), s3.next ≤ h ∧ h < s3.next + handlers.length := by
    intro h hh
    obtain ⟨k, hk, rfl⟩ := List.mem_map.mp hh
    have := List.mem_range.mp hk
    omega
  have hctx7 : ∀ lo, s3.next + handlers.length ≤ lo → CtxLt (tryMid s3 st.next none st.excs nat (st.next + 1) body handlers) lo := by
    intro lo hlo
    refine ⟨fun x hx => ?_, fun c hc => ?_⟩
    · rw [l7, q3] at hx; have := w.loops x hx; omega
    · rw [x7] at hc
      rcases List.mem_cons.mp hc with rfl | hc
      · exact ⟨fun f hf => (by cases hf), fun h hh => by have := hmemh h hh; omega⟩
      · exact ⟨fun f hf => by have := (w.excs c hc).1 f hf; omega, fun h hh => by have := (w.excs c hc).2 h hh; omega⟩
  have hfM : ∀ lo hi, s3.next + handlers.length ≤ lo → hi ≤ (tryMid s3 st.next none st.excs nat (st.next + 1) body handlers).next →
      Fut E lo hi (tryMid s3 st.next none st.excs nat (st.next + 1) body handlers) := fun lo hi hlo hhi =>
    tryElse_back orelse _ k7.wf hasElse elseB (st.next + 1) (fun h => by have := (q8 h).2; omega)
      (TG.zone (hctx7 lo hlo) (by omega) (by omega)) (.inl (by omega))
      ((hf.mono (lo' := lo) (hi' := hi) (by omega) (by simp only [setExcs_next, setCur_next]; omega)).back_setExcs.back_setCur)
  obtain ⟨m1, m2, m3, m4, m5, m6⟩ := tryMid_cnt ih body handlers hb hh il s3 st.next st.excs nat (st.next + 1) w3 hx0
    (fun h => by rw [q3]; exact hc.loops h) hc.nofin hokb hokh (by omega) (hu3 _ (Nat.le_refl _)).calm hrt hnatl.1 (by omega) hfM
  generalize hnh : (if handlers.length > 0 then handlers.length else 1) = nh' at *
  have hc7 : CtxC nh' il (tryMid s3 st.next none st.excs nat (st.next + 1) body handlers) := by
    refine ⟨by rw [l7, q3]; exact hc.loops, ?_, ?_⟩
    · rw [x7]
      intro c hc'
      rcases List.mem_cons.mp hc' with rfl | hc'
      · exact ⟨rfl, rfl⟩
      · exact hc.nofin c hc'
    · rw [x7]
      show (if ((List.range handlers.length).map (fun k => s3.next + k)).length > 0 then
        ((List.range handlers.length).map (fun k => s3.next + k)).length else 1) = nh'
      simp only [List.length_map, List.length_range]
      exact hnh
  have hl7' : (tryMid s3 st.next none st.excs nat (st.next + 1) body handlers).loops = st.loops := l7.trans q3
  -- the `else` part
  have key :
      cnt (rE E) (tryElse (tryMid s3 st.next none st.excs nat (st.next + 1) body handlers) hasElse elseB (st.next + 1) orelse).edges =
        cnt (rE E) (tryMid s3 st.next none st.excs nat (st.next + 1) body handlers).edges +
          (if (sxL body).ex.normal = true then ldL nh' orelse else 0) ∧
      ((if orelse.isEmpty = true then (sxL body).ex.normal else (if (sxL body).ex.normal = true then sxL orelse else ({} : SX)).ex.normal) = true →
        R E (st.next + 1)) ∧
      ((if (sxL body).ex.normal = true then sxL orelse else ({} : SX)).ex.brk = true →
        ∀ h x d rest, (tryMid s3 st.next none st.excs nat (st.next + 1) body handlers).loops = (h, x, d) :: rest → R E x) ∧
      LTI E (fun t => TgOK (tryMid s3 st.next none st.excs nat (st.next + 1) body handlers).next
            (tryMid s3 st.next none st.excs nat (st.next + 1) body handlers).loops
            (tryMid s3 st.next none st.excs nat (st.next + 1) body handlers).excs
            (if (sxL body).ex.normal = true then sxL orelse else ({} : SX)).ex.brk t ∨
          (t = st.next + 1 ∧ (if (sxL body).ex.normal = true then sxL orelse else ({} : SX)).ex.normal = true))
        (tryMid s3 st.next none st.excs nat (st.next + 1) body handlers)
        (tryElse (tryMid s3 st.next none st.excs nat (st.next + 1) body handlers) hasElse elseB (st.next + 1) orelse) ∧
      Calm (tryElse (tryMid s3 st.next none st.excs nat (st.next + 1) body handlers) hasElse elseB (st.next + 1) orelse) (st.next + 1) ∧
      ((sxL body).ex.normal = true →
        (if orelse.isEmpty = true then (sxL body).ex.normal else (if (sxL body).ex.normal = true then sxL orelse else ({} : SX)).ex.normal) = false →
        nat ≠ st.next + 1) ∧
      ((if (sxL body).ex.normal = true then sxL orelse else ({} : SX)).ex.normal = true →
        (if orelse.isEmpty = true then (sxL body).ex.normal else (if (sxL body).ex.normal = true then sxL orelse else ({} : SX)).ex.normal) = true) := by
    have hce : Calm (tryMid s3 st.next none st.excs nat (st.next + 1) body handlers) (st.next + 1) :=
      m6 (st.next + 1) (by omega) (by omega) (hu3 _ (by omega)).calm
    cases hasElse
    · have hnil : orelse = [] := by
        rcases orelse with _ | ⟨o, os⟩
        · rfl
        · simp at hE
      subst hnil
      simp only [Bool.false_eq_true, ↓reduceIte] at hnat
      subst hnat
      unfold tryElse
      simp only [Bool.false_eq_true, ↓reduceIte, List.isEmpty_nil, ldL_nil, sxL_nil]
      refine ⟨by simp, m2, ?_, LTI.refl _ _ _, hce, ?_, ?_⟩
      · intro h; exfalso; revert h; split <;> simp
      · intro h1 h2; rw [h1] at h2; cases h2
      · split
        · intro _; assumption
        · intro h; cases h
    · have hne : orelse.isEmpty = false := by simpa using hE.symm
      simp only [↓reduceIte] at hnat
      subst hnat
      obtain ⟨q8a, q8b⟩ := q8 rfl
      have hdeadE : (sxL body).ex.normal = false → ¬ R E elseB := by
        intro hbn
        have g : TG (fun x => x < elseB ∨ elseB + 1 ≤ x) (tryMid s3 st.next none st.excs elseB (st.next + 1) body handlers) := by
          refine ⟨fun x hx => .inr (by omega), .inl (by unfold exitB; omega), ?_, ?_⟩
          · intro l hl
            rw [hl7'] at hl
            have := w.loops l hl
            exact ⟨.inl (by omega), .inl (by omega)⟩
          · intro c hc'
            rw [x7] at hc'
            rcases List.mem_cons.mp hc' with rfl | hc'
            · exact ⟨fun f hf => (by cases hf), fun h hh => .inr (by have := hmemh h hh; omega)⟩
            · exact ⟨fun f hf => .inl (by have := (w.excs c hc').1 f hf; omega), fun h hh => .inl (by have := (w.excs c hc').2 h hh; omega)⟩
        have f7 := tryElse_back orelse _ k7.wf true elseB (st.next + 1) (fun _ => by omega) g (.inl (by omega))
          ((hf.mono (lo' := elseB) (hi' := elseB + 1) (by omega) (by simp only [setExcs_next, setCur_next]; omega)).back_setExcs.back_setCur)
        refine dead_of_LTI f7 (Nat.le_refl _) (by omega) w (by omega) ?_
        have t0 : LTI E (fun x => x ≠ elseB) st s3 :=
          ⟨[(st.cur, st.next, .normal)], q1, fun x hx _ => by rw [List.mem_singleton.mp hx]; simp only; omega⟩
        refine t0.trans (m5.mono (fun t h => ?_))
        rcases h with h | ⟨_, h⟩ | ⟨h, _⟩
        · refine h.ne q8b (by unfold exitB; omega) ?_ (fun c rest hx => by cases hx)
          intro hd x d rest hl
          have := w.loops (hd, x, d) (by rw [← q3, hl]; exact List.mem_cons_self ..)
          simp only at this
          exact ⟨by omega, fun _ => by omega⟩
        · rw [hbn] at h; cases h
        · omega
      have hf8 := hf
      unfold tryElse at hf8
      simp only [↓reduceIte, setExcs_next, setCur_next, edgeUnlessExit_next] at hf8
      obtain ⟨e1, e2, e3, e4, e5⟩ := tryElse_cnt ih orelse ho nh' il _ elseB (st.next + 1) k7.wf hc7 hoke (by omega)
        ((hf8.mono (lo' := (tryMid s3 st.next none st.excs elseB (st.next + 1) body handlers).next) (by omega)
          (Nat.le_refl _)).back_setExcs.back_setCur.back_eue (.inl (by omega)))
        hmemE (sxL body).ex.normal (fun h => ⟨m2 h, m6 elseB q8b (by omega) (hu3 _ (by omega)).calm⟩) hdeadE
      simp only [hne, Bool.false_eq_true, ↓reduceIte]
      exact ⟨e1, e2, e3, e4, e5 _ (by omega) (by omega) hce, fun _ _ => by omega, id⟩
  obtain ⟨a1, a2, a3, a4, a5, a6, a7⟩ := key
  generalize (if (sxL body).ex.normal = true then sxL orelse else ({} : SX)) = el at *
  generalize (if orelse.isEmpty = true then (sxL body).ex.normal else el.ex.normal) = eln at *
  have hlt8 : st.next + 1 < (tryElse (tryMid s3 st.next none st.excs nat (st.next + 1) body handlers) hasElse elseB (st.next + 1) orelse).next := by
    omega
  have hs7n : s3.next ≤ (tryMid s3 st.next none st.excs nat (st.next + 1) body handlers).next := by omega
  generalize tryMid s3 st.next none st.excs nat (st.next + 1) body handlers = s7 at *
  generalize tryElse s7 hasElse elseB (st.next + 1) orelse = s8 at *
  have hloopsne : ∀ hd x d rest, st.loops = (hd, x, d) :: rest → hd < st.next ∧ x < st.next := by
    intro hd x d rest hl
    have := w.loops (hd, x, d) (by rw [hl]; exact List.mem_cons_self ..)
    exact this
  refine try_finish w _ _ hlt8 hf (by rw [a1, m1, c3]; omega) ?_ a5 ?_ ?_
  · intro hn
    rcases Bool.or_eq_true_iff.mp hn with hn | hn
    · exact a2 hn
    · exact m3 hn
  · intro hb' h x d rest hl
    rcases Bool.or_eq_true_iff.mp hb' with hb' | hb'
    · exact m4 hb' h x d rest (q3.trans hl)
    · exact a3 hb' h x d rest (hl7'.trans hl)
  · have t0 : LTI E (fun t => TgOK st.next st.loops st.excs ((sxL body).ex.brk || (sxAlts handlers).ex.brk || el.ex.brk) t ∧
        ((eln || (sxAlts handlers).ex.normal) = false → t ≠ st.next + 1)) st s3 :=
      ⟨[(st.cur, st.next, .normal)], q1, fun x hx _ => by
        rw [List.mem_singleton.mp hx]; exact ⟨.inl (Nat.le_refl _), fun _ => by simp only; omega⟩⟩
    have t1 := t0.trans (m5.mono (fun t h => by
      rcases h with h | ⟨h1, h2⟩ | ⟨h1, h2⟩
      · rw [q3] at h
        refine ⟨h.weaken (by omega)
          (fun hd x d rest hl ht => .inr (.inr (.inl ⟨hd, x, d, rest, hl, ht.imp id (fun ⟨a, b⟩ => ⟨a, by simp [b]⟩)⟩)))
          (fun c rest hx => by cases hx), fun _ => ?_⟩
        refine h.ne (m := st.next + 1) (by omega) (by unfold exitB; omega) ?_ (fun c rest hx => by cases hx)
        intro hd x d rest hl
        have := hloopsne hd x d rest hl
        exact ⟨by omega, fun _ => by omega⟩
      · subst h1
        refine ⟨.inl hnatl.2, fun hpn => a6 h2 ?_⟩
        cases heln : eln
        · rfl
        · rw [heln] at hpn; simp at hpn
      · subst h1
        refine ⟨.inl (by omega), fun hpn => ?_⟩
        rw [h2] at hpn; simp at hpn))
    refine t1.trans (a4.mono (fun t h => ?_))
    rcases h with h | ⟨h1, h2⟩
    · rw [hl7', x7] at h
      refine ⟨h.weaken (by omega)
        (fun hd x d rest hl ht => .inr (.inr (.inl ⟨hd, x, d, rest, hl, ht.imp id (fun ⟨a, b⟩ => ⟨a, by simp [b]⟩)⟩)))
        (fun c rest hx ht => ?_), fun _ => ?_⟩
      · simp only [List.cons.injEq] at hx
        obtain ⟨rfl, _⟩ := hx
        exact .inl (by have := hmemh t ht; omega)
      · refine h.ne (m := st.next + 1) (by omega) (by unfold exitB; omega) ?_ ?_
        · intro hd x d rest hl
          have := hloopsne hd x d rest hl
          exact ⟨by omega, fun _ => by omega⟩
        · intro c rest hx hm
          simp only [List.cons.injEq] at hx
          obtain ⟨rfl, _⟩ := hx
          have := hmemh _ hm
          omega
    · subst h1
      refine ⟨.inl (by omega), fun hpn => ?_⟩
      rw [a7 h2] at hpn; simp at hpn

end main
end PV.CFGSound

#print axioms PV.CFGSound.try_cnt
