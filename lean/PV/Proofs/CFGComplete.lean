import PV.Proofs.CFGCompleteTry
import PV.Proofs.CFGSound3
/-!
# Completeness of the CFG mirror for structurally dead code (property C02)

`build_complete`: for every program of the fragment `okLC false` the mirror of the CFG builder puts every structurally
dead statement (`PV.SD.structDead`: a statement that follows, in the same block, a `return` / `raise` / `break` /
`continue`, or an `if/elif/else` all of whose branches end in one) into a block that the mirror's own search does NOT
reach from ENTRY — except the heads of `elif` clauses (`elifL`), whose test the builder stores without a location.

Ingredients: the source frame (`Inv`, part A of the soundness proof), the TARGET frame (`procList_target`: a builder
call only adds edges into blocks it allocates itself, EXIT, its explicit block parameters and the blocks named by the
context stacks), coverage (`procList_covers`: every line gets a record in an owned block) and the dead-zone argument
(`zone_dead`, `dead_of_DI`).
-/
namespace PV.CFGSound
open PV.CFG PV.SD

section main
variable {E : List Edge} {S : List SRec} {N : Nat}

theorem stmt_complete (ih : ∀ ss, sizeL ss ≤ N → CQL E S ss) (x : Stmt) (hsz : x.size ≤ N + 1) : CQS E S x := by
  cases x with
  | simple s e c h => exact plain_complete _ rfl (inStmt_simple ..)
  | def_ s e b => exact plain_complete _ rfl (inStmt_def ..)
  | ret s e c h => exact term_complete _ rfl (inStmt_ret ..)
  | brk s e => exact term_complete _ rfl (inStmt_brk ..)
  | cont s e => exact term_complete _ rfl (inStmt_cont ..)
  | raise s e => exact term_complete _ rfl (inStmt_raise ..)
  | ite s e a b =>
    have : sizeL a ≤ N ∧ sizeL b ≤ N := by simp only [Stmt.size] at hsz; omega
    exact if_complete ih a b this.1 this.2 s e
  | elifc s e a b =>
    have : sizeL a ≤ N ∧ sizeL b ≤ N := by simp only [Stmt.size] at hsz; omega
    exact elifc_complete ih a b this.1 this.2 s e
  | elsec s e b =>
    have : sizeL b ≤ N := by simp only [Stmt.size] at hsz; omega
    exact elsec_complete ih b this s e
  | loop s e a b =>
    have : sizeL a ≤ N ∧ sizeL b ≤ N := by simp only [Stmt.size] at hsz; omega
    exact loop_complete ih a b this.1 this.2 s e
  | try_ s e a b c d =>
    have : sizeL a ≤ N ∧ sizeL b ≤ N ∧ sizeL c ≤ N ∧ sizeL d ≤ N := by simp only [Stmt.size] at hsz; omega
    exact try_complete ih a b c d this.1 this.2.1 this.2.2.1 this.2.2.2 s e
  | handler s e b => intro il st w hl hok; rw [okSC_handler] at hok; cases hok
  | with_ s e b =>
    have : sizeL b ≤ N := by simp only [Stmt.size] at hsz; omega
    exact with_complete ih b this s e
  | match_ s e b =>
    have : sizeL b ≤ N := by simp only [Stmt.size] at hsz; omega
    exact match_complete ih b this s e
  | case_ s e b => intro il st w hl hok; rw [okSC_case] at hok; cases hok
  | class_ s e b =>
    have : sizeL b ≤ N := by simp only [Stmt.size] at hsz; omega
    exact class_complete ih b this s e

theorem nil_complete : CQL E S [] := by
  intro il st w hl hok hf hS
  rw [procList_nil]
  refine ⟨fun l h => (by rw [structDead_nil] at h; cases h), fun h => ?_⟩
  rcases h with h | h
  · exact h
  · cases h

theorem list_complete (ihS : ∀ x : Stmt, x.size ≤ N → CQS E S x) (ihL : ∀ ss, sizeL ss ≤ N → CQL E S ss) (ss : List Stmt)
    (hsz : sizeL ss ≤ N + 1) : CQL E S ss := by
  rcases ss with _ | ⟨x, xs⟩
  · exact nil_complete
  · intro il st w hl hok hf hS
    simp only [sizeL] at hsz
    rw [okLC_cons, Bool.and_eq_true] at hok
    obtain ⟨i, _⟩ := procList_frame (x :: xs) st w st.cur st.next (Or.inl rfl) (Nat.le_refl _)
    rw [procList_cons] at hf hS i ⊢
    obtain ⟨j1, sm1⟩ := procStmt_frame x st w st.cur st.next (Or.inl rfl) (Nat.le_refl _)
    obtain ⟨j2, sm2⟩ := procList_frame xs _ j1.wf (procStmt st x).cur (procStmt st x).next (Or.inl rfl) (Nat.le_refl _)
    have hn1 := j1.next_le
    have hn2 := j2.next_le
    have h2 := w.two
    have hS1 : StS S (procStmt st x) := hS.of_inv j2
    have f1 : Fut E st.next (procStmt st x).next (procStmt st x) :=
      (hf.mono (Nat.le_refl _) hn2).back_list j1.wf ((w.ctxLt (Nat.le_refl _)).same sm1) h2 (Nat.le_refl _)
    have f2 : Fut E (procStmt st x).next (procList (procStmt st x) xs).next (procList (procStmt st x) xs) := hf.mono hn1 (Nat.le_refl _)
    have hx := ihS x (by omega) il st w hl hok.1 f1 hS1
    have hxs := ihL xs (by omega) il _ j1.wf (hl.same sm1) hok.2 f2 hS
    constructor
    · intro l hl'
      rw [structDead_eq', subDead_cons, deadInBlock_cons] at hl'
      rw [elifL_cons]
      rcases List.mem_append.mp hl' with hl' | hl'
      · by_cases hs : stops x = true
        · rw [if_pos hs] at hl'
          exact mem_app_r (dead_lines hok.2 j1.wf f2 hS (hx.2 hs) l hl')
        · rw [if_neg hs] at hl'
          exact mem_app_r (hxs.1 l (by rw [structDead_eq']; exact List.mem_append.mpr (.inl hl')))
      · rcases List.mem_append.mp hl' with hl' | hl'
        · exact mem_app_l (hx.1 l hl')
        · exact mem_app_r (hxs.1 l (by rw [structDead_eq']; exact List.mem_append.mpr (.inr hl')))
    · intro h
      rcases h with h | h
      · exact dead_cur w i hf h
      · have h' : (stops x || stopsL xs) = true := h
        rcases Bool.or_eq_true_iff.mp h' with h' | h'
        · exact dead_cur j1.wf j2 f2 (hx.2 h')
        · exact hxs.2 (.inr h')

end main

theorem complete_all (E : List Edge) (S : List SRec) : ∀ N, (∀ x : Stmt, x.size ≤ N → CQS E S x) ∧ (∀ ss, sizeL ss ≤ N → CQL E S ss) := by
  intro N
  induction N with
  | zero =>
    constructor
    · intro x hsz; have := Stmt.size_pos x; omega
    · intro ss hsz
      rcases ss with _ | ⟨x, xs⟩
      · exact nil_complete
      · simp only [sizeL] at hsz; omega
  | succ N ih => exact ⟨fun x hx => stmt_complete ih.2 x hx, fun ss hs => list_complete ih.1 ih.2 ss hs⟩

/-- **Completeness of the builder mirror for statement lists**: whatever the final graph `E ⊇ edges` looks like, as long as no later
edge targets a block allocated while `ss` was processed, every structurally dead line of `ss` has a record in an unreachable block. -/
theorem complete_list (ss : List Stmt) (il : Bool) (st : St) (w : WF st) (hl : il = true → st.loops ≠ []) (hok : okLC il ss = true)
    (E : List Edge) (S : List SRec) (hE : ∃ later, E = later ++ (procList st ss).edges ∧ ∀ e ∈ later, e.2.1 < st.next ∨ (procList st ss).next ≤ e.2.1)
    (hS : ∀ r ∈ (procList st ss).stmts, r ∈ S) :
    ∀ l ∈ structDead ss, l ∈ elifL ss ∨ ∃ r ∈ S, r.s = l ∧ ¬ R E r.blk :=
  ((complete_all E S (sizeL ss)).2 ss (Nat.le_refl _) il st w hl hok hE hS).1

/-- **Completeness of the mirror for one definition.** -/
theorem build_complete (k : Kind) (s e : Nat) (body : List Stmt) (hok : okLC false body = true) :
    ∀ l ∈ structDead body, l ∈ elifL body ∨
      ∃ r ∈ (build k s e body).stmts, r.s = l ∧ r.blk ∉ reachable (build k s e body) := by
  intro l hl
  have ipre := preB_inv k s e
  have hnext : 2 ≤ (preB k s e).next := ipre.wf.two
  have hE : ∃ later, (build k s e body).edges = later ++ (procList (preB k s e) body).edges ∧
      ∀ x ∈ later, x.2.1 < (preB k s e).next ∨ (procList (preB k s e) body).next ≤ x.2.1 := by
    rw [build_eq]; unfold finishB
    split
    · refine ⟨[((procList (preB k s e) body).cur, exitB, .normal)], rfl, ?_⟩
      intro x hx
      rw [List.mem_singleton.mp hx]
      exact .inl (by show exitB < _; unfold exitB; omega)
    · exact ⟨[], rfl, fun _ h => by cases h⟩
  have hS : ∀ r ∈ (procList (preB k s e) body).stmts, r ∈ (build k s e body).stmts := by
    rw [build_eq]; unfold finishB
    split
    · exact fun _ h => h
    · exact fun _ h => h
  rcases complete_list body false (preB k s e) ipre.wf (fun h => by cases h) hok _ _ hE hS l hl with h | ⟨r, hr, hs, hd⟩
  · exact .inl h
  · exact .inr ⟨r, hr, hs, fun hm => hd (reachable_sound _ hm)⟩

theorem build_complete_deadLines (k : Kind) (s e : Nat) (body : List Stmt) (hok : okLC false body = true) :
    ∀ l ∈ structDead body, l ∈ elifL body ∨ l ∈ deadLines (build k s e body) := by
  intro l hl
  rcases build_complete k s e body hok l hl with h | ⟨r, hr, hs, hb⟩
  · exact .inl h
  · refine .inr ?_
    unfold deadLines
    exact List.mem_map.mpr ⟨r, List.mem_filter.mpr ⟨hr, by simpa using hb⟩, hs⟩

/-! ### the fragment of the soundness theorem (`okL3`) is part of the fragment of the completeness theorem -/
theorem okL3_le_okLC : ∀ N, (∀ x : Stmt, x.size ≤ N → ∀ il f, okS3 il f x = true → okSC il x = true) ∧
    (∀ ss, sizeL ss ≤ N → ∀ il f, okL3 il f ss = true → okLC il ss = true) ∧
    (∀ cs, sizeL cs ≤ N → ∀ il f, okCases3 il f cs = true → okCasesC il cs = true) ∧
    (∀ hs, sizeL hs ≤ N → ∀ il f, okHs3 il f hs = true → okHsC il hs = true) := by
  intro N
  induction N with
  | zero =>
    refine ⟨fun x hx => by have := Stmt.size_pos x; omega, fun ss hs il f _ => ?_, fun cs hs il f _ => ?_, fun cs hs il f _ => ?_⟩
    · rcases ss with _ | ⟨x, xs⟩
      · exact okLC_nil _
      · simp only [sizeL] at hs; omega
    · rcases cs with _ | ⟨x, xs⟩
      · exact okCasesC_nil _
      · simp only [sizeL] at hs; omega
    · rcases cs with _ | ⟨x, xs⟩
      · exact okHsC_nil _
      · simp only [sizeL] at hs; omega
  | succ N ih =>
    obtain ⟨ihS, ihL, ihC, ihH⟩ := ih
    have hC : ∀ cs, sizeL cs ≤ N + 1 → ∀ il f, okCases3 il f cs = true → okCasesC il cs = true := by
      intro cs hs il f hok
      rcases cs with _ | ⟨x, xs⟩
      · exact okCasesC_nil _
      · obtain ⟨s, e, a, rfl, h1, h2⟩ := okCases3_cons hok
        simp only [sizeL, Stmt.size] at hs
        rw [okCasesC_case, ihL a (by omega) il f h1, ihC xs (by omega) il f h2]; rfl
    have hH : ∀ cs, sizeL cs ≤ N + 1 → ∀ il f, okHs3 il f cs = true → okHsC il cs = true := by
      intro cs hs il f hok
      rcases cs with _ | ⟨x, xs⟩
      · exact okHsC_nil _
      · obtain ⟨s, e, a, rfl, h1, h2⟩ := okHs3_cons hok
        simp only [sizeL, Stmt.size] at hs
        rw [okHsC_handler, ihL a (by omega) il f h1, ihH xs (by omega) il f h2]; rfl
    refine ⟨fun x hx il f hok => ?_, fun ss hs il f hok => ?_, hC, hH⟩
    · cases x with
      | simple s e c h => rw [okSC]
      | def_ s e b => rw [okSC]
      | ret s e c h => rw [okSC]
      | raise s e => rw [okSC]
      | brk s e => rw [okS3_brk] at hok; rw [okSC_brk]; exact hok
      | cont s e => rw [okS3_cont] at hok; rw [okSC_cont]; exact hok
      | ite s e a b =>
        simp only [Stmt.size] at hx
        rw [okS3_ite, Bool.and_eq_true] at hok
        rw [okSC_ite, ihL a (by omega) il f hok.1, ihL b (by omega) il f hok.2]; rfl
      | elifc s e a b =>
        simp only [Stmt.size] at hx
        rw [okS3_elifc, Bool.and_eq_true] at hok
        rw [okSC_elifc, ihL a (by omega) il f hok.1, ihL b (by omega) il f hok.2]; rfl
      | elsec s e a =>
        simp only [Stmt.size] at hx
        rw [okS3_elsec] at hok
        rw [okSC_elsec]; exact ihL a (by omega) il f hok
      | loop s e a b =>
        simp only [Stmt.size] at hx
        rw [okS3_loop, Bool.and_eq_true] at hok
        rw [okSC_loop, ihL a (by omega) true f hok.1, ihL b (by omega) il f hok.2]; rfl
      | try_ s e a b c d =>
        simp only [Stmt.size] at hx
        rw [okS3_try] at hok
        simp only [Bool.and_eq_true, Bool.or_eq_true] at hok
        obtain ⟨⟨⟨h1, h2⟩, h3⟩, h4⟩ := hok
        have hd : okLC il d = true := by
          rcases h4 with h4 | h4
          · have : d = [] := by simpa using h4
            rw [this]; exact okLC_nil _
          · exact ihL d (by omega) il true h4.2
        rw [okSC_try, ihL a (by omega) il f h1, ihH b (by omega) il f h2, ihL c (by omega) il f h3, hd]; rfl
      | handler s e a => rw [okS3_handler] at hok; cases hok
      | with_ s e a =>
        simp only [Stmt.size] at hx
        rw [okS3_with] at hok
        rw [okSC_with]; exact ihL a (by omega) il f hok
      | match_ s e cs =>
        simp only [Stmt.size] at hx
        rw [okS3_match] at hok
        rw [okSC_match]; exact ihC cs (by omega) il f hok
      | case_ s e a => rw [okS3_case] at hok; cases hok
      | class_ s e a =>
        simp only [Stmt.size] at hx
        rw [okS3_class] at hok
        rw [okSC_class]; exact ihL a (by omega) false f hok
    · rcases ss with _ | ⟨x, xs⟩
      · exact okLC_nil _
      · simp only [sizeL] at hs
        rw [okL3_cons, Bool.and_eq_true] at hok
        rw [okLC_cons, ihS x (by omega) il f hok.1, ihL xs (by omega) il f hok.2]; rfl

theorem okLC_of_okL3 (ss : List Stmt) (il f : Bool) (h : okL3 il f ss = true) : okLC il ss = true :=
  (okL3_le_okLC (sizeL ss)).2.1 ss (Nat.le_refl _) il f h

end PV.CFGSound

#print axioms PV.CFGSound.build_complete
#print axioms PV.CFGSound.build_complete_deadLines
#print axioms PV.CFGSound.procList_target
