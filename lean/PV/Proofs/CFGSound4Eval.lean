import PV.Proofs.CFGSound4Defs
/-!
Evaluation (not imported by the proofs): is the mirror sound on programs with `try … finally` nested inside `finally` bodies?
For every generated program of the fragment `okL4 false`, every line of `sxL body` and every line of the semantic
over-approximation `live body` that is not an `elif` head must be among `liveLines (build .func …)`.
-/
namespace PV.CFGSound.Eval4
open PV.CFG PV.Py PV.CFGSound

-- renumber: one statement per line, in source order
mutual
  partial def renS (n : Nat) : Stmt → Stmt × Nat
    | .simple _ _ c h => (.simple n n c h, n + 1)
    | .ret _ _ c h => (.ret n n c h, n + 1)
    | .brk _ _ => (.brk n n, n + 1)
    | .cont _ _ => (.cont n n, n + 1)
    | .raise _ _ => (.raise n n, n + 1)
    | .ite _ _ a b => let (a', n1) := renL (n + 1) a; let (b', n2) := renL (if b.isEmpty then n1 else n1 + 1) b; (.ite n n2 a' b', n2)
    | .loop _ _ a b => let (a', n1) := renL (n + 1) a; let (b', n2) := renL (if b.isEmpty then n1 else n1 + 1) b; (.loop n n2 a' b', n2)
    | .try_ _ _ a hs c d =>
      let (a', n1) := renL (n + 1) a
      let (hs', n2) := renL n1 hs
      let (c', n3) := renL (if c.isEmpty then n2 else n2 + 1) c
      let (d', n4) := renL (if d.isEmpty then n3 else n3 + 1) d
      (.try_ n n4 a' hs' c' d', n4)
    | .handler _ _ a => let (a', n1) := renL (n + 1) a; (.handler n n1 a', n1)
    | .with_ _ _ a => let (a', n1) := renL (n + 1) a; (.with_ n n1 a', n1)
    | x => (x, n)
  partial def renL (n : Nat) : List Stmt → List Stmt × Nat
    | [] => ([], n)
    | x :: xs => let (x', n1) := renS n x; let (xs', n2) := renL n1 xs; (x' :: xs', n2)
end

def ren (b : List Stmt) : List Stmt := (renL 2 b).1

/-- lines claimed live (static summary, semantic over-approximation) that the mirror leaves in unreachable blocks -/
def bad (body : List Stmt) : List Nat :=
  let ll := liveLines (build .func 1 1 body)
  let sx := sxL body
  (sx.lines ++ ((live body).lines.filter (fun l => !sx.skipped.contains l))).filter (fun l => !ll.contains l)

def leaves : List (List Stmt) := [[.simple 0 0 [] false], [.ret 0 0 [] false], [.raise 0 0], [.brk 0 0], [.cont 0 0]]
def smp : Stmt := .simple 0 0 [] false

/-- compound statements over blocks `B` (handlers from `H`) -/
def stmtsOver (B H : List (List Stmt)) : List Stmt :=
  (B.flatMap fun b => B.map fun f => Stmt.try_ 0 0 b [] [] f) ++
  (B.flatMap fun b => B.flatMap fun f => H.map fun h => Stmt.try_ 0 0 b [.handler 0 0 h] [] f) ++
  (B.map fun b => Stmt.loop 0 0 b []) ++ (B.map fun b => Stmt.ite 0 0 b [])

def B0 := leaves
def S1 := stmtsOver B0 B0
def B1 : List (List Stmt) := B0 ++ S1.map (fun s => [s]) ++ S1.map (fun s => [s, smp])
def B1s : List (List Stmt) := B0 ++ S1.map (fun s => [s])

/-- run the test over a list of candidate bodies: (tested = in fragment, failures) -/
def runAll (cands : List (List Stmt)) : Nat × List (List Stmt) :=
  cands.foldl (fun (acc : Nat × List (List Stmt)) b =>
    let b := ren b
    if okL4 false b then (if (bad b).isEmpty then (acc.1 + 1, acc.2) else (acc.1 + 1, if acc.2.length < 5 then b :: acc.2 else acc.2)) else acc) (0, [])

#eval (B1.length, (runAll B1).1, (runAll B1).2.length)

def S2 := stmtsOver B1s B0
def runS (ss : List Stmt) : Nat × List (List Stmt) :=
  let a := runAll (ss.map fun s => [s])
  let b := runAll (ss.map fun s => [s, smp])
  let c := runAll (ss.map fun s => [Stmt.loop 0 0 [s] [], smp])
  (a.1 + b.1 + c.1, a.2 ++ b.2 ++ c.2)
#eval (S2.length, (runS S2).1, (runS S2).2)
