import PV.Proofs.CFGComplexity
/-!
Property C03 for the CFG mirror, extended to NON-EMPTY `finally` clauses — shared definitions.

* `FC`: the structural context of a statement (what the exception stack of the builder looks like there):
  `nh` = number of exception edges one `raise` creates, `pe` = number of exception-typed propagation edges a
  `try … finally` placed here adds out of its `finally` block, `pf` = some enclosing `try` has a `finally` whose body
  we are NOT in (pending), `af` = some enclosing `try` has a `finally` at all;
* `hrL` / `hrS`: does the builder execute a `raise` while the block that was current on entry is still current?
  (`finallyPropagation` does not add an edge `finally → handler` that such a `raise` has created already);
* `ldLX` / `ldSX` / `ldAltsX`: the structural live decision count with the true contribution of `try … finally`;
  `ldLF nh` is the count of a definition body (no enclosing `try`);
* `okFL` / `okFS` / …: the fragment = `okCL` without the restriction on `finally`;
* `CtxF`, `TgF`, `Jmp`, `PostF`, `QFL`, `QFS`: the statements proved by induction (generalisations of `CtxC`, `TgOK`, `PostC`).
-/
namespace PV.CFGFin
open PV.CFG PV.CFGSound PV.Dec

/-! ### the structural context -/
structure FC where
  nh : Nat
  pe : Nat
  pf : Bool
  af : Bool
  deriving Repr, DecidableEq

/-- body / handlers / `else` of a `try` WITHOUT `finally` that has `n` handlers -/
def FC.inTry (fc : FC) (n : Nat) : FC :=
  { nh := if fc.pf then 1 else (if n > 0 then n else 1), pe := if fc.af then 0 else n, pf := fc.pf, af := fc.af }
/-- body / handlers / `else` of a `try` WITH `finally`: every `raise` goes to the `finally` block -/
def FC.inFin : FC := { nh := 1, pe := 0, pf := true, af := true }
/-- the `finally` body: a `raise` behaves as before the `try` -/
def FC.finBody (fc : FC) : FC := { nh := fc.nh, pe := 0, pf := fc.pf, af := true }
/-- a definition body -/
def FC.top (nh : Nat) : FC := { nh := nh, pe := 0, pf := false, af := false }

/-! ### a `raise` in the entry block -/
inductive HR | stay | raise | left
  deriving DecidableEq, Repr

set_option linter.unusedSimpArgs false in
mutual
  /-- `.raise`: a `raise` is executed while the entry block is current; `.stay`: the list ends in the entry block without one;
  `.left`: the current block changes before any `raise` -/
  def hrL : List Stmt → HR
    | [] => .stay
    | x :: xs => match hrS x with
      | .stay => hrL xs
      | r => r
  termination_by l => 2 * sizeL l
  decreasing_by
    all_goals (try simp_wf)
    all_goals (try simp only [Stmt.size, sizeL])
    all_goals omega
  def hrS : Stmt → HR
    | .raise .. => .raise
    | .simple _ _ _ false | .def_ .. | .handler .. | .case_ .. => .stay
    | .elsec _ _ a => hrL a
    | _ => .left
  termination_by x => 2 * x.size + 1
  decreasing_by
    all_goals (try simp_wf)
    all_goals (try simp only [Stmt.size, sizeL])
    all_goals omega
end

theorem hrL_nil : hrL [] = .stay := by rw [hrL]
theorem hrL_cons (x : Stmt) (xs : List Stmt) : hrL (x :: xs) = match hrS x with | .stay => hrL xs | r => r := by rw [hrL]

/-! ### the structural live decision count -/
set_option linter.unusedSimpArgs false in
mutual
  def ldLX (fc : FC) : List Stmt → Nat
    | [] => 0
    | x :: xs => ldSX fc x + (if (sxS x).ex.normal then ldLX fc xs else 0)
  termination_by l => 2 * sizeL l
  decreasing_by
    all_goals (try simp_wf)
    all_goals (try simp only [Stmt.size, sizeL])
    all_goals omega
  def ldSX (fc : FC) : Stmt → Nat
    | .simple _ _ comp hasComp | .ret _ _ comp hasComp => if hasComp then compClauses comp else 0
    | .brk .. | .cont .. | .def_ .. => 0
    | .raise .. => fc.nh
    | .ite _ _ a b | .elifc _ _ a b | .loop _ _ a b => 1 + ldLX fc a + ldLX fc b
    | .elsec _ _ a | .class_ _ _ a | .case_ _ _ a => ldLX fc a
    | .handler _ _ a => 1 + ldLX fc a
    | .with_ _ _ a => 1 + ldLX fc a
    | .match_ _ _ cs => (if cs.isEmpty then 0 else 1) + ldAltsX fc cs
    | .try_ _ _ a hs c d =>
      if d.isEmpty then
        ldLX (fc.inTry hs.length) a + ldAltsX (fc.inTry hs.length) hs + (if (sxL a).ex.normal then ldLX (fc.inTry hs.length) c else 0)
      else
        ldLX FC.inFin a + ldAltsX FC.inFin hs + (if (sxL a).ex.normal then ldLX FC.inFin c else 0) +
          ldLX fc.finBody d + (if hrL d = .raise then 0 else fc.pe)
  termination_by x => 2 * x.size + 1
  decreasing_by
    all_goals (try simp_wf)
    all_goals (try simp only [Stmt.size, sizeL])
    all_goals omega
  def ldAltsX (fc : FC) : List Stmt → Nat
    | [] => 0
    | x :: xs => ldSX fc x + ldAltsX fc xs
  termination_by l => 2 * sizeL l
  decreasing_by
    all_goals (try simp_wf)
    all_goals (try simp only [Stmt.size, sizeL])
    all_goals omega
end

/-- the live decision count of a definition body (with the true contribution of `try … finally`) -/
def ldLF (nh : Nat) (body : List Stmt) : Nat := ldLX (FC.top nh) body
def ldSF (nh : Nat) (x : Stmt) : Nat := ldSX (FC.top nh) x

theorem ldLX_nil (nh : FC) : ldLX nh [] = 0 := by rw [ldLX]
theorem ldLX_cons (nh : FC) (x : Stmt) (xs : List Stmt) :
    ldLX nh (x :: xs) = ldSX nh x + (if (sxS x).ex.normal then ldLX nh xs else 0) := by rw [ldLX]
theorem ldAltsX_nil (nh : FC) : ldAltsX nh [] = 0 := by rw [ldAltsX]
theorem ldAltsX_cons (nh : FC) (x : Stmt) (xs : List Stmt) : ldAltsX nh (x :: xs) = ldSX nh x + ldAltsX nh xs := by rw [ldAltsX]
theorem ldSX_simple (nh : FC) (s e : Nat) (c : List Bool) (h : Bool) : ldSX nh (.simple s e c h) = if h then compClauses c else 0 := by rw [ldSX]
theorem ldSX_ret (nh : FC) (s e : Nat) (c : List Bool) (h : Bool) : ldSX nh (.ret s e c h) = if h then compClauses c else 0 := by rw [ldSX]
theorem ldSX_brk (nh : FC) (s e : Nat) : ldSX nh (.brk s e) = 0 := by rw [ldSX]
theorem ldSX_cont (nh : FC) (s e : Nat) : ldSX nh (.cont s e) = 0 := by rw [ldSX]
theorem ldSX_def (nh : FC) (s e : Nat) (b : List Stmt) : ldSX nh (.def_ s e b) = 0 := by rw [ldSX]
theorem ldSX_raise (nh : FC) (s e : Nat) : ldSX nh (.raise s e) = nh.nh := by rw [ldSX]
theorem ldSX_ite (nh : FC) (s e : Nat) (a b : List Stmt) : ldSX nh (.ite s e a b) = 1 + ldLX nh a + ldLX nh b := by rw [ldSX]
theorem ldSX_elifc (nh : FC) (s e : Nat) (a b : List Stmt) : ldSX nh (.elifc s e a b) = 1 + ldLX nh a + ldLX nh b := by rw [ldSX]
theorem ldSX_loop (nh : FC) (s e : Nat) (a b : List Stmt) : ldSX nh (.loop s e a b) = 1 + ldLX nh a + ldLX nh b := by rw [ldSX]
theorem ldSX_elsec (nh : FC) (s e : Nat) (a : List Stmt) : ldSX nh (.elsec s e a) = ldLX nh a := by rw [ldSX]
theorem ldSX_class (nh : FC) (s e : Nat) (a : List Stmt) : ldSX nh (.class_ s e a) = ldLX nh a := by rw [ldSX]
theorem ldSX_case (nh : FC) (s e : Nat) (a : List Stmt) : ldSX nh (.case_ s e a) = ldLX nh a := by rw [ldSX]
theorem ldSX_handler (nh : FC) (s e : Nat) (a : List Stmt) : ldSX nh (.handler s e a) = 1 + ldLX nh a := by rw [ldSX]
theorem ldSX_with (nh : FC) (s e : Nat) (a : List Stmt) : ldSX nh (.with_ s e a) = 1 + ldLX nh a := by rw [ldSX]
theorem ldSX_match (nh : FC) (s e : Nat) (cs : List Stmt) : ldSX nh (.match_ s e cs) = (if cs.isEmpty then 0 else 1) + ldAltsX nh cs := by rw [ldSX]
theorem ldSX_try (fc : FC) (s e : Nat) (a hs c d : List Stmt) :
    ldSX fc (.try_ s e a hs c d) =
      if d.isEmpty then
        ldLX (fc.inTry hs.length) a + ldAltsX (fc.inTry hs.length) hs + (if (sxL a).ex.normal then ldLX (fc.inTry hs.length) c else 0)
      else
        ldLX FC.inFin a + ldAltsX FC.inFin hs + (if (sxL a).ex.normal then ldLX FC.inFin c else 0) +
          ldLX fc.finBody d + (if hrL d = .raise then 0 else fc.pe) := by rw [ldSX]

/-! ### the fragment -/
set_option linter.unusedSimpArgs false in
mutual
  def okFL (il : Bool) : List Stmt → Bool
    | [] => true
    | x :: xs => okFS il x && okFL il xs
  termination_by l => 2 * sizeL l
  decreasing_by
    all_goals (try simp_wf)
    all_goals (try simp only [Stmt.size, sizeL])
    all_goals omega
  def okFS (il : Bool) : Stmt → Bool
    | .simple .. | .def_ .. | .ret .. | .raise .. => true
    | .brk .. | .cont .. => il
    | .ite _ _ a b | .elifc _ _ a b => okFL il a && okFL il b
    | .elsec _ _ a => okFL il a
    | .loop _ _ a b => okFL true a && okFL il b
    | .with_ _ _ a => okFL il a
    | .match_ _ _ cs => okFCases il cs
    | .class_ _ _ a => okFL false a
    | .try_ _ _ a hs c d => okFL il a && okFHs il hs && okFL il c && okFL il d
    | .handler .. | .case_ .. => false
  termination_by x => 2 * x.size + 1
  decreasing_by
    all_goals (try simp_wf)
    all_goals (try simp only [Stmt.size, sizeL])
    all_goals omega
  def okFCases (il : Bool) : List Stmt → Bool
    | [] => true
    | .case_ _ _ a :: cs => okFL il a && okFCases il cs
    | _ :: _ => false
  termination_by l => 2 * sizeL l
  decreasing_by
    all_goals (try simp_wf)
    all_goals (try simp only [Stmt.size, sizeL])
    all_goals omega
  def okFHs (il : Bool) : List Stmt → Bool
    | [] => true
    | .handler _ _ a :: hs => okFL il a && okFHs il hs
    | _ :: _ => false
  termination_by l => 2 * sizeL l
  decreasing_by
    all_goals (try simp_wf)
    all_goals (try simp only [Stmt.size, sizeL])
    all_goals omega
end

theorem okFL_nil (il : Bool) : okFL il [] = true := by rw [okFL]
theorem okFL_cons (il : Bool) (x : Stmt) (xs : List Stmt) : okFL il (x :: xs) = (okFS il x && okFL il xs) := by rw [okFL]
theorem okFS_brk (il : Bool) (s e : Nat) : okFS il (.brk s e) = il := by rw [okFS]
theorem okFS_cont (il : Bool) (s e : Nat) : okFS il (.cont s e) = il := by rw [okFS]
theorem okFS_ite (il : Bool) (s e : Nat) (a b : List Stmt) : okFS il (.ite s e a b) = (okFL il a && okFL il b) := by rw [okFS]
theorem okFS_elifc (il : Bool) (s e : Nat) (a b : List Stmt) : okFS il (.elifc s e a b) = (okFL il a && okFL il b) := by rw [okFS]
theorem okFS_elsec (il : Bool) (s e : Nat) (a : List Stmt) : okFS il (.elsec s e a) = okFL il a := by rw [okFS]
theorem okFS_loop (il : Bool) (s e : Nat) (a b : List Stmt) : okFS il (.loop s e a b) = (okFL true a && okFL il b) := by rw [okFS]
theorem okFS_with (il : Bool) (s e : Nat) (a : List Stmt) : okFS il (.with_ s e a) = okFL il a := by rw [okFS]
theorem okFS_match (il : Bool) (s e : Nat) (cs : List Stmt) : okFS il (.match_ s e cs) = okFCases il cs := by rw [okFS]
theorem okFS_class (il : Bool) (s e : Nat) (a : List Stmt) : okFS il (.class_ s e a) = okFL false a := by rw [okFS]
theorem okFS_try (il : Bool) (s e : Nat) (a hs c d : List Stmt) :
    okFS il (.try_ s e a hs c d) = (okFL il a && okFHs il hs && okFL il c && okFL il d) := by rw [okFS]
theorem okFS_handler (il : Bool) (s e : Nat) (a : List Stmt) : okFS il (.handler s e a) = false := by rw [okFS]
theorem okFS_case (il : Bool) (s e : Nat) (a : List Stmt) : okFS il (.case_ s e a) = false := by rw [okFS]

theorem okFCases_nil (il : Bool) : okFCases il [] = true := by rw [okFCases]
theorem okFCases_case (il : Bool) (s e : Nat) (a cs : List Stmt) :
    okFCases il (.case_ s e a :: cs) = (okFL il a && okFCases il cs) := by rw [okFCases]
theorem okFCases_cons {il : Bool} {x : Stmt} {cs : List Stmt} (h : okFCases il (x :: cs) = true) :
    ∃ s e a, x = .case_ s e a ∧ okFL il a = true ∧ okFCases il cs = true := by
  cases x
  case case_ s e a =>
    rw [okFCases_case, Bool.and_eq_true] at h
    exact ⟨s, e, a, rfl, h.1, h.2⟩
  all_goals (rw [okFCases] at h <;> first | cases h | (intro _ _ _ h; cases h))

theorem okFHs_nil (il : Bool) : okFHs il [] = true := by rw [okFHs]
theorem okFHs_handler (il : Bool) (s e : Nat) (a hs : List Stmt) :
    okFHs il (.handler s e a :: hs) = (okFL il a && okFHs il hs) := by rw [okFHs]
theorem okFHs_cons {il : Bool} {x : Stmt} {hs : List Stmt} (h : okFHs il (x :: hs) = true) :
    ∃ s e a, x = .handler s e a ∧ okFL il a = true ∧ okFHs il hs = true := by
  cases x
  case handler s e a =>
    rw [okFHs_handler, Bool.and_eq_true] at h
    exact ⟨s, e, a, rfl, h.1, h.2⟩
  all_goals (rw [okFHs] at h <;> first | cases h | (intro _ _ _ h; cases h))

/-! ### the exception stack -/
/-- `targetFinally` -/
def tfX (X : List Exc) : Option Nat := X.findSome? (fun c => if c.processingFinally then none else c.fin)
/-- `fallbackExc` -/
def fbX (X : List Exc) : Option Exc := X.find? (fun c => !c.processingFinally)
/-- number of exception edges one `raise` creates -/
def raiseNX (X : List Exc) : Nat :=
  match tfX X with
  | some _ => 1
  | none =>
    match fbX X with
    | some c => if c.handlers.length > 0 then c.handlers.length else 1
    | none => 1
/-- `nextOuter` of `finallyPropagation` -/
def anyFin (X : List Exc) : Option Nat := X.findSome? (fun c => c.fin)
/-- number of exception-typed propagation edges of a `try … finally` processed with saved stack `X` -/
def peX (X : List Exc) : Nat :=
  match anyFin X with
  | some _ => 0
  | none =>
    match X with
    | c :: _ => c.handlers.length
    | [] => 0

/-- where a jump out of the current code goes first, IF no `finally` body that is being processed is in the way:
`none` = blocked by a processing context, `some none` = no pending `finally` (the jump reaches its own target),
`some (some f)` = the pending `finally` block `f` -/
def pendO : List Exc → Option (Option Nat)
  | [] => some none
  | c :: r => if c.processingFinally then none else match c.fin with
    | some f => some (some f)
    | none => pendO r

theorem targetFinally_eq (st : St) : targetFinally st = tfX st.excs := rfl
theorem fallbackExc_eq (st : St) : fallbackExc st = fbX st.excs := rfl

theorem pendO_tf : ∀ {X : List Exc} {o : Option Nat}, pendO X = some o → tfX X = o
  | [], o, h => by simp only [pendO, Option.some.injEq] at h; subst h; rfl
  | c :: r, o, h => by
    unfold pendO at h
    unfold tfX
    rw [List.findSome?_cons]
    cases hp : c.processingFinally
    · rw [hp] at h
      simp only [Bool.false_eq_true, ↓reduceIte] at h ⊢
      cases hf : c.fin with
      | some f => rw [hf] at h; simp only [Option.some.injEq] at h; subst h; rfl
      | none => rw [hf] at h; simp only at h ⊢; exact pendO_tf h
    · rw [hp] at h; simp at h

theorem pendO_any : ∀ {X : List Exc} {o : Option Nat}, pendO X = some o → anyFin X = o
  | [], o, h => by simp only [pendO, Option.some.injEq] at h; subst h; rfl
  | c :: r, o, h => by
    unfold pendO at h
    unfold anyFin
    rw [List.findSome?_cons]
    cases hp : c.processingFinally
    · rw [hp] at h
      simp only [Bool.false_eq_true, ↓reduceIte] at h
      cases hf : c.fin with
      | some f => rw [hf] at h; simp only [Option.some.injEq] at h; subst h; rfl
      | none => rw [hf] at h; simp only at h ⊢; exact pendO_any h
    · rw [hp] at h; simp at h

/-- the target of a `return` -/
theorem pendO_ret (cur : Nat) : ∀ {X : List Exc} {o : Option Nat}, pendO X = some o →
    (X.findSome? (fun c => match c.fin with
      | some f => if cur != f then some f else none
      | none => none)) = o ∨ o = some cur
  | [], o, h => by simp only [pendO, Option.some.injEq] at h; subst h; exact .inl rfl
  | c :: r, o, h => by
    unfold pendO at h
    rw [List.findSome?_cons]
    cases hp : c.processingFinally
    · rw [hp] at h
      simp only [Bool.false_eq_true, ↓reduceIte] at h
      cases hf : c.fin with
      | some f =>
        rw [hf] at h; simp only [Option.some.injEq] at h; subst h
        simp only
        by_cases hc : cur = f
        · subst hc; exact .inr rfl
        · left; simp [hc]
      | none => rw [hf] at h; simp only at h ⊢; exact pendO_ret cur h
    · rw [hp] at h; simp at h

theorem pendO_cons_plain {c : Exc} {X : List Exc} (h1 : c.processingFinally = false) (h2 : c.fin = none) : pendO (c :: X) = pendO X := by
  rw [pendO, h1, h2]; simp

theorem pendO_cons_fin {c : Exc} {X : List Exc} {f : Nat} (h1 : c.processingFinally = false) (h2 : c.fin = some f) :
    pendO (c :: X) = some (some f) := by
  rw [pendO, h1, h2]; simp

/-- the part of a stack `c :: X` that a loop entered at depth `d ≤ |X|` sees -/
theorem take_cons_depth (c : Exc) (X : List Exc) {d : Nat} (hd : d ≤ X.length) :
    (c :: X).take ((c :: X).length - d) = c :: X.take (X.length - d) := by
  have : (c :: X).length - d = (X.length - d) + 1 := by simp only [List.length_cons]; omega
  rw [this, List.take_succ_cons]

/-! ### the context -/
structure CtxF (fc : FC) (il : Bool) (st : St) : Prop where
  loops : il = true → st.loops ≠ []
  ld : ∀ l ∈ st.loops, l.2.2 ≤ st.excs.length
  disj : ∀ l ∈ st.loops, ∀ c ∈ st.excs, l.1 ∉ c.handlers ∧ l.2.1 ∉ c.handlers
  rn : raiseNX st.excs = fc.nh
  pe : peX st.excs = fc.pe
  pf : (tfX st.excs).isSome = fc.pf
  af : (anyFin st.excs).isSome = fc.af
  pfin : ∀ c ∈ st.excs, c.processingFinally = true → c.fin.isSome = true
  hnd : ∀ c ∈ st.excs, c.handlers.Nodup
  hex : ∀ c ∈ st.excs, exitB ∉ c.handlers

theorem CtxF.of_eq {fc : FC} {il : Bool} {s s' : St} (h : CtxF fc il s) (hl : s'.loops = s.loops) (hx : s'.excs = s.excs) : CtxF fc il s' := by
  refine ⟨?_, ?_, ?_, ?_, ?_, ?_, ?_, ?_, ?_, ?_⟩
  · rw [hl]; exact h.loops
  · rw [hl, hx]; exact h.ld
  · rw [hl, hx]; exact h.disj
  · rw [hx]; exact h.rn
  · rw [hx]; exact h.pe
  · rw [hx]; exact h.pf
  · rw [hx]; exact h.af
  · rw [hx]; exact h.pfin
  · rw [hx]; exact h.hnd
  · rw [hx]; exact h.hex

theorem CtxF.same {fc : FC} {il : Bool} {s s' : St} (h : CtxF fc il s) (sm : Same s s') : CtxF fc il s' := h.of_eq sm.loops sm.excs

theorem CtxF.noLoop {fc : FC} {il : Bool} {s : St} (h : CtxF fc il s) : CtxF fc false s :=
  { h with loops := fun h' => by cases h' }

/-- entering a loop whose header / exit blocks are fresh -/
theorem CtxF.pushLoop {fc : FC} {il : Bool} {s s' : St} (h : CtxF fc il s) (w : WF s) {hd x : Nat} (hx : s'.excs = s.excs)
    (hl : s'.loops = (hd, x, s.excs.length) :: s.loops) (h1 : s.next ≤ hd) (h2 : s.next ≤ x) : CtxF fc true s' := by
  refine ⟨?_, ?_, ?_, ?_, ?_, ?_, ?_, ?_, ?_, ?_⟩
  · intro _; rw [hl]; simp
  · rw [hl, hx]
    intro l hm
    rcases List.mem_cons.mp hm with rfl | hm
    · exact Nat.le_refl _
    · exact h.ld l hm
  · rw [hl, hx]
    intro l hm c hc
    rcases List.mem_cons.mp hm with rfl | hm
    · constructor
      · intro hh; have := (w.excs c hc).2 _ hh; simp only at this; omega
      · intro hh; have := (w.excs c hc).2 _ hh; simp only at this; omega
    · exact h.disj l hm c hc
  · rw [hx]; exact h.rn
  · rw [hx]; exact h.pe
  · rw [hx]; exact h.pf
  · rw [hx]; exact h.af
  · rw [hx]; exact h.pfin
  · rw [hx]; exact h.hnd
  · rw [hx]; exact h.hex

/-- the common part of the three context changes of a `try` -/
theorem CtxF.pushAux {fc : FC} {il : Bool} {s s' : St} (h : CtxF fc il s) (w : WF s) {c0 : Exc}
    (hl : s'.loops = s.loops) (hx : s'.excs = c0 :: s.excs) (hfresh : ∀ y ∈ c0.handlers, s.next ≤ y) (hnd : c0.handlers.Nodup)
    (hpf : c0.processingFinally = true → c0.fin.isSome = true) :
    (il = true → s'.loops ≠ []) ∧ (∀ l ∈ s'.loops, l.2.2 ≤ s'.excs.length) ∧
    (∀ l ∈ s'.loops, ∀ c ∈ s'.excs, l.1 ∉ c.handlers ∧ l.2.1 ∉ c.handlers) ∧
    (∀ c ∈ s'.excs, c.processingFinally = true → c.fin.isSome = true) ∧ (∀ c ∈ s'.excs, c.handlers.Nodup) ∧
    (∀ c ∈ s'.excs, exitB ∉ c.handlers) := by
  refine ⟨?_, ?_, ?_, ?_, ?_, ?_⟩
  · rw [hl]; exact h.loops
  · rw [hl, hx]; intro l hm; have := h.ld l hm; simp only [List.length_cons]; omega
  · rw [hl, hx]
    intro l hm c hc
    rcases List.mem_cons.mp hc with rfl | hc
    · have := w.loops l hm
      exact ⟨fun hh => by have := hfresh _ hh; omega, fun hh => by have := hfresh _ hh; omega⟩
    · exact h.disj l hm c hc
  · rw [hx]; intro c hc
    rcases List.mem_cons.mp hc with rfl | hc
    · exact hpf
    · exact h.pfin c hc
  · rw [hx]; intro c hc
    rcases List.mem_cons.mp hc with rfl | hc
    · exact hnd
    · exact h.hnd c hc
  · rw [hx]; intro c hc
    rcases List.mem_cons.mp hc with rfl | hc
    · intro hh; have := hfresh _ hh; have := w.two; unfold exitB at *; omega
    · exact h.hex c hc

/-- body / handlers / `else` of a `try` without `finally` -/
theorem CtxF.pushTryN {fc : FC} {il : Bool} {s s' : St} (h : CtxF fc il s) (w : WF s) {hbs : List Nat}
    (hl : s'.loops = s.loops) (hx : s'.excs = { fin := none, handlers := hbs, processingFinally := false } :: s.excs)
    (hfresh : ∀ y ∈ hbs, s.next ≤ y) (hnd : hbs.Nodup) : CtxF (fc.inTry hbs.length) il s' := by
  obtain ⟨a1, a2, a3, a4, a5, a6⟩ := h.pushAux w hl hx hfresh hnd (fun hh => by cases hh)
  have e1 : tfX s'.excs = tfX s.excs := by rw [hx]; unfold tfX; rw [List.findSome?_cons]; rfl
  have e2 : anyFin s'.excs = anyFin s.excs := by rw [hx]; unfold anyFin; rw [List.findSome?_cons]
  have hpf := h.pf
  have haf := h.af
  refine ⟨a1, a2, a3, ?_, ?_, by rw [e1]; exact hpf, by rw [e2]; exact haf, a4, a5, a6⟩
  · unfold raiseNX
    rw [e1]
    unfold FC.inTry
    simp only
    rw [← hpf]
    cases htf : tfX s.excs with
    | some f => simp
    | none =>
      simp only [Option.isSome_none, Bool.false_eq_true, ↓reduceIte]
      have : fbX s'.excs = some { fin := none, handlers := hbs, processingFinally := false } := by
        rw [hx]; unfold fbX; rw [List.find?_cons]; rfl
      rw [this]
  · unfold peX
    rw [e2]
    unfold FC.inTry
    simp only
    rw [← haf]
    cases hq : anyFin s.excs with
    | some f => simp
    | none => simp only [Option.isSome_none, Bool.false_eq_true, ↓reduceIte]; rw [hx]

/-- body / handlers / `else` of a `try` with `finally` -/
theorem CtxF.pushTryF {fc : FC} {il : Bool} {s s' : St} (h : CtxF fc il s) (w : WF s) {hbs : List Nat} {f : Nat}
    (hl : s'.loops = s.loops) (hx : s'.excs = { fin := some f, handlers := hbs, processingFinally := false } :: s.excs)
    (hfresh : ∀ y ∈ hbs, s.next ≤ y) (hnd : hbs.Nodup) : CtxF FC.inFin il s' := by
  obtain ⟨a1, a2, a3, a4, a5, a6⟩ := h.pushAux w hl hx hfresh hnd (fun hh => by cases hh)
  have e1 : tfX s'.excs = some f := by rw [hx]; unfold tfX; rw [List.findSome?_cons]; rfl
  have e2 : anyFin s'.excs = some f := by rw [hx]; unfold anyFin; rw [List.findSome?_cons]
  refine ⟨a1, a2, a3, ?_, ?_, by rw [e1]; rfl, by rw [e2]; rfl, a4, a5, a6⟩
  · unfold raiseNX; rw [e1]; rfl
  · unfold peX; rw [e2]; rfl

/-- the `finally` body -/
theorem CtxF.pushFinBody {fc : FC} {il : Bool} {s s' : St} (h : CtxF fc il s) (w : WF s) {hbs : List Nat} {f : Nat}
    (hl : s'.loops = s.loops) (hx : s'.excs = { fin := some f, handlers := hbs, processingFinally := true } :: s.excs)
    (hfresh : ∀ y ∈ hbs, s.next ≤ y) (hnd : hbs.Nodup) : CtxF fc.finBody il s' := by
  obtain ⟨a1, a2, a3, a4, a5, a6⟩ := h.pushAux w hl hx hfresh hnd (fun _ => rfl)
  have e1 : tfX s'.excs = tfX s.excs := by rw [hx]; unfold tfX; rw [List.findSome?_cons]; rfl
  have e2 : anyFin s'.excs = some f := by rw [hx]; unfold anyFin; rw [List.findSome?_cons]
  have e3 : fbX s'.excs = fbX s.excs := by rw [hx]; unfold fbX; rw [List.find?_cons]; rfl
  refine ⟨a1, a2, a3, ?_, ?_, by rw [e1]; exact h.pf, by rw [e2]; rfl, a4, a5, a6⟩
  · unfold raiseNX; rw [e1, e3]; exact h.rn
  · unfold peX; rw [e2]; rfl

/-! ### admissible targets of live new edges -/
/-- `t` is a handler block or the `finally` block of some context of the stack -/
def XT (X : List Exc) (t : Nat) : Prop := ∃ c ∈ X, t ∈ c.handlers ∨ c.fin = some t

def TgF (n : Nat) (L : List (Nat × Nat × Nat)) (X : List Exc) (brk : Bool) (t : Nat) : Prop :=
  n ≤ t ∨ t = exitB ∨ (∃ h x d rest, L = (h, x, d) :: rest ∧ (t = h ∨ (t = x ∧ brk = true))) ∨ XT X t

theorem TgF.mono {n n' : Nat} {L : List (Nat × Nat × Nat)} {X : List Exc} {b b' : Bool} {t : Nat} (h : TgF n' L X b' t) (hn : n ≤ n')
    (hb : b' = true → b = true) : TgF n L X b t := by
  rcases h with h | h | ⟨hd, x, d, rest, hl, h⟩ | h
  · exact .inl (by omega)
  · exact .inr (.inl h)
  · refine .inr (.inr (.inl ⟨hd, x, d, rest, hl, ?_⟩))
    rcases h with h | ⟨h1, h2⟩
    · exact .inl h
    · exact .inr ⟨h1, hb h2⟩
  · exact .inr (.inr (.inr h))

theorem TgF.weaken {n n' : Nat} {L L' : List (Nat × Nat × Nat)} {X X' : List Exc} {b b' : Bool} {t : Nat} (h : TgF n' L' X' b' t)
    (hn : n ≤ n')
    (hL : ∀ hd x d rest, L' = (hd, x, d) :: rest → (t = hd ∨ (t = x ∧ b' = true)) → TgF n L X b t)
    (hX : XT X' t → TgF n L X b t) : TgF n L X b t := by
  rcases h with h | h | ⟨hd, x, d, rest, hl, h⟩ | h
  · exact .inl (by omega)
  · exact .inr (.inl h)
  · exact hL hd x d rest hl h
  · exact hX h

theorem TgF.ne {n : Nat} {L : List (Nat × Nat × Nat)} {X : List Exc} {b : Bool} {t m : Nat} (h : TgF n L X b t) (hm : m < n)
    (h1 : m ≠ exitB) (hL : ∀ hd x d rest, L = (hd, x, d) :: rest → hd ≠ m ∧ (b = true → x ≠ m))
    (hX : ¬ XT X m) : t ≠ m := by
  intro htm
  subst htm
  rcases h with h | h | ⟨hd, x, d, rest, hl, h⟩ | h
  · omega
  · exact h1 h
  · rcases h with h | ⟨h, hb⟩
    · exact (hL hd x d rest hl).1 h.symm
    · exact (hL hd x d rest hl).2 hb h.symm
  · exact hX h

/-- context blocks are below `lo` -/
theorem not_XT {X : List Exc} {lo m : Nat} (h : ∀ c ∈ X, (∀ f, c.fin = some f → f < lo) ∧ ∀ h ∈ c.handlers, h < lo) (hm : lo ≤ m) : ¬ XT X m := by
  rintro ⟨c, hc, h1 | h1⟩
  · have := (h c hc).2 m h1; omega
  · have := (h c hc).1 m h1; omega

theorem WF.not_XT {s : St} (w : WF s) {m : Nat} (hm : s.next ≤ m) : ¬ XT s.excs m := PV.CFGFin.not_XT w.excs hm

theorem TgF.ne_ctx {s : St} {lo n : Nat} {b : Bool} {t m : Nat} (hc : CtxLt s lo) (h : TgF n s.loops s.excs b t) (hm : m < n)
    (hlo : lo ≤ m) (h2 : 2 ≤ lo) : t ≠ m := by
  refine h.ne hm (by unfold exitB; omega) ?_ (PV.CFGFin.not_XT hc.2 hlo)
  intro hd x d rest hl
  have := hc.1 (hd, x, d) (by rw [hl]; exact List.mem_cons_self ..)
  simp only at this
  exact ⟨by omega, fun _ => by omega⟩

theorem XT.tail {c : Exc} {X : List Exc} {t : Nat} (h : XT X t) : XT (c :: X) t := by
  obtain ⟨c', hc', h'⟩ := h
  exact ⟨c', List.mem_cons_of_mem _ hc', h'⟩

/-! ### where the jumps of a piece of code arrive -/
structure Jmp (E : List Edge) (L : List (Nat × Nat × Nat)) (X : List Exc) (ex : Ex) : Prop where
  brk : ex.brk = true → ∀ h x d rest, L = (h, x, d) :: rest → ∀ o, pendO (X.take (X.length - d)) = some o → R E (o.getD x)
  cont : ex.cont = true → ∀ h x d rest, L = (h, x, d) :: rest → ∀ o, pendO (X.take (X.length - d)) = some o → R E (o.getD h)
  ret : ex.ret = true → ∀ o, pendO X = some o → R E (o.getD exitB)
  raise : ex.raise = true → ∀ f, pendO X = some (some f) → R E f

theorem Jmp.mono {E : List Edge} {L : List (Nat × Nat × Nat)} {X : List Exc} {a b : Ex} (h : Jmp E L X a)
    (h1 : b.brk = true → a.brk = true) (h2 : b.cont = true → a.cont = true) (h3 : b.ret = true → a.ret = true)
    (h4 : b.raise = true → a.raise = true) : Jmp E L X b :=
  ⟨fun hb => h.brk (h1 hb), fun hb => h.cont (h2 hb), fun hb => h.ret (h3 hb), fun hb => h.raise (h4 hb)⟩

theorem Jmp.or {E : List Edge} {L : List (Nat × Nat × Nat)} {X : List Exc} {a b c : Ex} (ha : Jmp E L X a) (hb : Jmp E L X b)
    (h1 : c.brk = true → (a.brk || b.brk) = true) (h2 : c.cont = true → (a.cont || b.cont) = true)
    (h3 : c.ret = true → (a.ret || b.ret) = true) (h4 : c.raise = true → (a.raise || b.raise) = true) : Jmp E L X c := by
  refine ⟨fun h => ?_, fun h => ?_, fun h => ?_, fun h => ?_⟩
  · rcases Bool.or_eq_true_iff.mp (h1 h) with h | h
    · exact ha.brk h
    · exact hb.brk h
  · rcases Bool.or_eq_true_iff.mp (h2 h) with h | h
    · exact ha.cont h
    · exact hb.cont h
  · rcases Bool.or_eq_true_iff.mp (h3 h) with h | h
    · exact ha.ret h
    · exact hb.ret h
  · rcases Bool.or_eq_true_iff.mp (h4 h) with h | h
    · exact ha.raise h
    · exact hb.raise h

theorem Jmp.union {E : List Edge} {L : List (Nat × Nat × Nat)} {X : List Exc} {a b : Ex} (ha : Jmp E L X a) (hb : Jmp E L X b) :
    Jmp E L X (a.union b) := ha.or hb id id id id

theorem Jmp.empty {E : List Edge} {L : List (Nat × Nat × Nat)} {X : List Exc} {a : Ex} (h1 : a.brk = false) (h2 : a.cont = false)
    (h3 : a.ret = false) (h4 : a.raise = false) : Jmp E L X a :=
  ⟨(fun h => by rw [h1] at h; cases h), (fun h => by rw [h2] at h; cases h), (fun h => by rw [h3] at h; cases h),
    (fun h => by rw [h4] at h; cases h)⟩

theorem Jmp.cast {E : List Edge} {L L' : List (Nat × Nat × Nat)} {X X' : List Exc} {a : Ex} (h : Jmp E L X a) (hl : L' = L) (hx : X' = X) :
    Jmp E L' X' a := by subst hl; subst hx; exact h

/-- out of a loop body: `return` / `raise` keep going, `break` / `continue` are consumed -/
theorem Jmp.dropLoop {E : List Edge} {L L' : List (Nat × Nat × Nat)} {X : List Exc} {a b : Ex} (h : Jmp E L' X a)
    (h1 : b.brk = false) (h2 : b.cont = false) (h3 : b.ret = true → a.ret = true) (h4 : b.raise = true → a.raise = true) : Jmp E L X b :=
  ⟨(fun hb => by rw [h1] at hb; cases hb), (fun hb => by rw [h2] at hb; cases hb), fun hb => h.ret (h3 hb), fun hb => h.raise (h4 hb)⟩

/-- out of the body / handlers / `else` of a `try` without `finally` -/
theorem Jmp.popPlain {E : List Edge} {L : List (Nat × Nat × Nat)} {X : List Exc} {c : Exc} {a : Ex} (h : Jmp E L (c :: X) a)
    (h1 : c.processingFinally = false) (h2 : c.fin = none) (hd : ∀ l ∈ L, l.2.2 ≤ X.length) : Jmp E L X a := by
  refine ⟨fun hb hh x d rest hl o ho => ?_, fun hb hh x d rest hl o ho => ?_, fun hb o ho => ?_, fun hb f ho => ?_⟩
  · have hdd := hd (hh, x, d) (by rw [hl]; exact List.mem_cons_self ..)
    exact h.brk hb hh x d rest hl o (by rw [take_cons_depth c X hdd, pendO_cons_plain h1 h2]; exact ho)
  · have hdd := hd (hh, x, d) (by rw [hl]; exact List.mem_cons_self ..)
    exact h.cont hb hh x d rest hl o (by rw [take_cons_depth c X hdd, pendO_cons_plain h1 h2]; exact ho)
  · exact h.ret hb o (by rw [pendO_cons_plain h1 h2]; exact ho)
  · exact h.raise hb f (by rw [pendO_cons_plain h1 h2]; exact ho)

/-! ### the statements -/
structure PostF (E : List Edge) (st st' : St) (ex : Ex) (n : Nat) : Prop where
  /-- the count grows by exactly the live decisions -/
  cnt : cnt (rE E) st'.edges = cnt (rE E) st.edges + n
  /-- if the code can fall through, the block that is current afterwards is reachable and calm -/
  normal : ex.normal = true → EntryC E st'
  /-- otherwise it is unreachable -/
  dead : ex.normal = false → ¬ R E st'.cur
  /-- the structural jumps arrive: at their own target, or at the pending `finally` block -/
  jmp : Jmp E st.loops st.excs ex
  /-- live new edges only go to new blocks, EXIT, the innermost loop, handler / `finally` blocks of the stack -/
  tgt : LTI E (TgF st.next st.loops st.excs ex.brk) st st'

def QFL (E : List Edge) (ss : List Stmt) : Prop :=
  ∀ (fc : FC) (il : Bool) (st : St), WF st → CtxF fc il st → okFL il ss = true →
    Fut E st.next (procList st ss).next (procList st ss) → EntryC E st →
    PostF E st (procList st ss) (sxL ss).ex (ldLX fc ss)

def QFS (E : List Edge) (x : Stmt) : Prop :=
  ∀ (fc : FC) (il : Bool) (st : St), WF st → CtxF fc il st → okFS il x = true →
    Fut E st.next (procStmt st x).next (procStmt st x) → EntryC E st →
    PostF E st (procStmt st x) (sxS x).ex (ldSX fc x)

end PV.CFGFin
