import PV.Proofs.CFGComplexityFinDefs
import PV.Proofs.CFGComplexityLoop
/-!
Property C03 for the CFG mirror with non-empty `finally` — loops, `class`, `with`.
-/
namespace PV.CFGFin
open PV.CFG PV.CFGSound PV.Dec

section main
variable {E : List Edge} {N : Nat}

/-! ### class -/
theorem class_cntF (ih : ∀ ss, sizeL ss ≤ N → QFL E ss) (body : List Stmt) (hsz : sizeL body ≤ N) (s e : Nat) :
    QFS E (.class_ s e body) := by
  intro fc il st w hc hok hf he
  rw [okFS_class] at hok
  rw [procStmt_class, procClass_eq] at hf ⊢
  rw [sxS_class, ldSX_class]
  have hcur := w.cur
  have hown : Own st.cur st.next st.cur := .inl rfl
  have i0 : Inv st.cur st.next st st := Inv.refl w hown
  have i1 := ((i0.bump.edge (a := st.cur) (b := st.next) (t := .normal) hown (by ob) (by ob)).setCur (x := st.next) (by ob) (by ob)).add
    (b := st.next) (p := s) (q := e) (ty := .other) (by ob) (by ob)
  obtain ⟨j, sm⟩ := procList_frame body _ i1.wf st.cur st.next i1.own (by ob)
  have e1 : (st.cur, st.next, ETy.normal) ∈ E := hf.mem (j.sub.1 _ (by simp))
  have hr : R E st.next := R.step he.reach e1
  have hcalm : Calm (setCur ((bump st).edge st.cur st.next .normal) st.next) st.next :=
    Untouched.calm (by untt [w.untouched (Nat.le_refl _)])
  have hp := ih body hsz fc false _ i1.wf (hc.noLoop.of_eq rfl rfl) hok (hf.mono (by ob) (Nat.le_refl _)) ⟨hr, hcalm.add_other⟩
  refine ⟨?_, hp.normal, hp.dead, hp.jmp, ?_⟩
  · rw [hp.cnt]
    show cnt (rE E) ((st.cur, st.next, ETy.normal) :: st.edges) + _ = _
    rw [cnt_cons_plain isCond_normal normal_ne_exc]
  · have l1 : LTI E (TgF st.next st.loops st.excs (sxL body).ex.brk) st
        ((setCur ((bump st).edge st.cur st.next .normal) st.next).add st.next s e .other) :=
      ((LTI.refl _ _ st).edge (a := st.cur) (b := st.next) (t := .normal) (fun _ => .inl (Nat.le_refl _))).of_edges_eq rfl
    exact l1.trans (hp.tgt.mono (fun t h => h.mono (by ob) id))

/-! ### with -/
theorem with_cntF (ih : ∀ ss, sizeL ss ≤ N → QFL E ss) (body : List Stmt) (hsz : sizeL body ≤ N) (s e : Nat) :
    QFS E (.with_ s e body) := by
  intro fc il st w hc hok hf he
  rw [okFS_with] at hok
  rw [procStmt_with, procWith_eq] at hf ⊢
  rw [sxS_with, ldSX_with]
  simp only at hf ⊢
  have hcur := w.cur
  have hown : Own st.cur st.next st.cur := .inl rfl
  have i0 : Inv st.cur st.next st st := Inv.refl w hown
  have i1 := ((((((i0.bump.edge (a := st.cur) (b := st.next) (t := .normal) hown (by ob) (by ob)).add (b := st.next) (p := s) (q := e)
    (ty := .other) (by ob) (by ob)).bump).bump).bump).edge (a := st.next) (b := st.next + 1) (t := .normal) (by ob) (by ob) (by ob)).setCur
    (x := st.next + 1) (by ob) (by ob)
  obtain ⟨j, sm⟩ := procList_frame body _ i1.wf (st.next + 1) (st.next + 4) (Or.inl rfl) (by ob)
  have hjn := j.next_le
  have hjo := j.own
  have ea : (st.next + 2, st.next + 3, ETy.normal) ∈ E := hf.mem (by simp)
  have eb : (st.next, st.next + 2, ETy.exc) ∈ E := hf.mem (by simp)
  have f2 := (((hf.mono (lo' := st.next + 4) (by omega) (Nat.le_refl _)).back_setCur.back_edge
    (.inl (by omega))).back_edge (.inl (by omega))).back_eue (.inl (by omega))
  have e3 : (st.next, st.next + 1, ETy.normal) ∈ E := f2.mem (j.sub.1 _ (by simp))
  have e5 : (st.cur, st.next, ETy.normal) ∈ E := f2.mem (j.sub.1 _ (by simp))
  have hr : R E st.next := R.step he.reach e5
  have hf1 := w.untouched (m := st.next + 1) (by omega)
  have hf3 := w.untouched (m := st.next + 3) (by omega)
  have hp := ih body hsz fc il _ i1.wf (hc.of_eq rfl rfl) hok (f2.mono (by ob) (by ob))
    ⟨R.step hr e3, Untouched.calm (by untt [hf1])⟩
  have hu3 := j.untouched (m := st.next + 3) (by omega) (by omega) (by untt [hf3])
  have hpc := hp.cnt
  have hpt := hp.tgt
  have hpb := hp.jmp
  generalize procList _ body = s2 at *
  refine ⟨?_, fun _ => ⟨R.step (R.step hr eb) ea, Untouched.calm ?_⟩, (fun h => by cases h), hpb.mono id id id id, ?_⟩
  · simp only [setCur_edges, edge_edges]
    rw [cnt_cons_plain isCond_normal normal_ne_exc, cnt_cons_exc (rE_true.mpr hr), cnt_eue_plain _ _ _ _ isCond_normal normal_ne_exc, hpc]
    simp only [setCur_edges, edge_edges, bump_edges, add_edges]
    rw [cnt_cons_plain isCond_normal normal_ne_exc, cnt_cons_plain isCond_normal normal_ne_exc]
    omega
  · simp only [setCur_cur, unt_setCur, unt_edge]
    exact ⟨by omega, by omega, Untouched.eue (by ob) hu3⟩
  · have l1 : LTI E (TgF st.next st.loops st.excs (sxL body).ex.brk) st
        (setCur ((bump (bump (bump (((bump st).edge st.cur st.next .normal).add st.next s e .other)))).edge st.next (st.next + 1) .normal) (st.next + 1)) :=
      ((((LTI.refl _ _ st).edge (a := st.cur) (b := st.next) (t := .normal) (fun _ => .inl (Nat.le_refl _))).of_edges_eq
        (s' := bump (bump (bump (((bump st).edge st.cur st.next .normal).add st.next s e .other)))) rfl).edge
        (a := st.next) (b := st.next + 1) (t := .normal) (fun _ => .inl (by omega))).of_edges_eq rfl
    have l2 := l1.trans (hpt.mono (fun t h => h.mono (by ob) id))
    exact (((l2.eue (a := s2.cur) (b := st.next + 2) (t := .normal) (fun _ => .inl (by omega))).edge (a := st.next) (b := st.next + 2) (t := .exc)
      (fun _ => .inl (by omega))).edge (a := st.next + 2) (b := st.next + 3) (t := .normal) (fun _ => .inl (by omega))).of_edges_eq rfl

/-! ### loops -/
theorem loop_cntF (ih : ∀ ss, sizeL ss ≤ N → QFL E ss) (body orelse : List Stmt) (h1 : sizeL body ≤ N) (h2 : sizeL orelse ≤ N) (s e : Nat) :
    QFS E (.loop s e body orelse) := by
  intro fc il st w hc hok hf he
  rw [okFS_loop, Bool.and_eq_true] at hok
  rw [procStmt_loop, procLoop_eq] at hf ⊢
  rw [sxS_loop, ldSX_loop]
  have hcur := w.cur
  have hw2 := w.two
  have hown : Own st.cur st.next st.cur := .inl rfl
  have i0 : Inv st.cur st.next st st := Inv.refl w hown
  have i1 := (((i0.bump.edge (a := st.cur) (b := st.next) (t := .normal) hown (by ob) (by ob)).add (b := st.next) (p := s) (q := e)
    (ty := .other) (by ob) (by ob)).bump).bump
  rcases orelse with _ | ⟨o, os⟩
  · simp only [List.isEmpty_nil, Bool.not_true, Bool.false_eq_true, ↓reduceIte] at hf ⊢
    rw [sxL_nil, ldLX_nil]
    have i2 := (((i1.setLoops (l := (st.next, st.next + 2, st.excs.length) :: st.loops) (by
        intro x hx
        rcases List.mem_cons.mp hx with rfl | hx
        · constructor <;> ob
        · exact w.loops_le (by ob) x hx)).edge (a := st.next) (b := st.next + 1) (t := .condT) (by ob) (by ob) (by ob)).edge
        (a := st.next) (b := st.next + 2) (t := .condF) (by ob) (by ob) (by ob)).setCur (x := st.next + 1) (by ob) (by ob)
    obtain ⟨j, sm⟩ := procList_frame body _ i2.wf st.cur st.next i2.own (by ob)
    obtain ⟨jf, _⟩ := procList_frame body _ i2.wf (st.next + 1) (st.next + 3) (Or.inl rfl) (by ob)
    have hp0 := ih body h1 fc true _ i2.wf (hc.pushLoop w (hx := rfl) (hl := rfl) (by ob) (by ob)) hok.1
    have hjn := j.next_le
    have hjo := jf.own
    have hjc := j.wf.cur
    generalize procList _ body = s5 at *
    have f5 := (hf.mono (lo' := st.next + 3) (by omega) (Nat.le_refl _)).back_setLoops.back_setCur.back_setLoops.back_eue (.inl (by omega))
    have e4 : (st.cur, st.next, ETy.normal) ∈ E := f5.mem (j.sub.1 _ (by simp))
    have e2 : (st.next, st.next + 1, ETy.condT) ∈ E := f5.mem (j.sub.1 _ (by simp))
    have e1 : (st.next, st.next + 2, ETy.condF) ∈ E := f5.mem (j.sub.1 _ (by simp))
    have hr : R E st.next := R.step he.reach e4
    have hf1 := w.untouched (m := st.next + 1) (by omega)
    have hf2 := w.untouched (m := st.next + 2) (by omega)
    have hp := hp0 (f5.mono (by ob) (by ob)) ⟨R.step hr e2, Untouched.calm (by untt [hf1])⟩
    have hu2 : Untouched (setLoops (setCur (setLoops (s5.edgeUnlessExit s5.cur st.next .loop) st.loops) (st.next + 2)) st.loops) (st.next + 2) := by
      simp only [unt_setLoops, unt_setCur]
      exact Untouched.eue (by ob) (jf.untouched (by omega) (by omega) (by untt [hf2]))
    clear hp0
    refine ⟨?_, fun _ => ⟨R.step hr e1, hu2.calm⟩, fun hn => ?_, ?_, ?_⟩
    · simp only [setLoops_edges, setCur_edges]
      rw [cnt_eue_plain _ _ _ _ isCond_loop loop_ne_exc, hp.cnt]
      simp only [setCur_edges, edge_edges, setLoops_edges, bump_edges, add_edges]
      rw [loop_hdr_cnt w hr]
      omega
    · simp at hn
    · exact hp.jmp.dropLoop rfl rfl (fun h => by simpa using h) (fun h => by simpa using h)
    · have l1 : LTI E (TgF st.next st.loops st.excs false) st (setCur
          (((setLoops (bump (bump (((bump st).edge st.cur st.next ETy.normal).add st.next s e Ty.other)))
          ((st.next, st.next + 2, st.excs.length) :: st.loops)).edge st.next (st.next + 1) ETy.condT).edge
          st.next (st.next + 2) ETy.condF) (st.next + 1)) :=
        LTI.of_three rfl (.inl (by omega)) (.inl (by omega)) (.inl (by omega))
      have l2 := hp.tgt.mono (G' := TgF st.next st.loops st.excs false) (fun t h => h.weaken (by ob)
        (fun hd x d rest hl ht => by
          simp only [setCur_loops, edge_loops, setLoops_loops, List.cons.injEq, Prod.mk.injEq] at hl
          obtain ⟨⟨rfl, rfl, rfl⟩, rfl⟩ := hl
          rcases ht with rfl | ⟨rfl, _⟩
          · exact .inl (Nat.le_refl _)
          · exact .inl (by omega))
        (fun h => .inr (.inr (.inr h))))
      exact ((l1.trans l2).eue (a := s5.cur) (b := st.next) (t := .loop) (fun _ => .inl (Nat.le_refl _))).of_edges_eq rfl
  · simp only [List.isEmpty_cons, Bool.not_false, ↓reduceIte] at hf ⊢
    have i2 := (((i1.bump.setLoops (l := (st.next, st.next + 2, st.excs.length) :: st.loops) (by
        intro x hx
        rcases List.mem_cons.mp hx with rfl | hx
        · constructor <;> ob
        · exact w.loops_le (by ob) x hx)).edge (a := st.next) (b := st.next + 1) (t := .condT) (by ob) (by ob) (by ob)).edge
        (a := st.next) (b := st.next + 3) (t := .condF) (by ob) (by ob) (by ob)).setCur (x := st.next + 1) (by ob) (by ob)
    obtain ⟨j, sm⟩ := procList_frame body _ i2.wf st.cur st.next i2.own (by ob)
    obtain ⟨jf, _⟩ := procList_frame body _ i2.wf (st.next + 1) (st.next + 4) (Or.inl rfl) (by ob)
    have hp0 := ih body h1 fc true _ i2.wf (hc.pushLoop w (hx := rfl) (hl := rfl) (by ob) (by ob)) hok.1
    have hjn := j.next_le
    have hjo := jf.own
    have hjc := j.wf.cur
    have hsl := sm.loops
    have hsx := sm.excs
    generalize procList _ body = s5 at *
    have k2 := ((j.edgeUnlessExit (b := st.next) (t := .loop) j.own hjc (by ob)).setLoops (l := st.loops) (w.loops_le (by ob))).setCur
      (x := st.next + 3) (by ob) (by ob)
    have k := i2.trans k2
    obtain ⟨j2, sm2⟩ := procList_frame (o :: os) _ k.wf st.cur st.next k.own (by ob)
    obtain ⟨j2f, _⟩ := procList_frame (o :: os) _ k.wf (st.next + 3) _ (Or.inl rfl) (Nat.le_refl _)
    have hxE : (setCur (setLoops (s5.edgeUnlessExit s5.cur st.next .loop) st.loops) (st.next + 3)).excs = st.excs := by
      simp only [setCur_excs, setLoops_excs, edgeUnlessExit_excs, hsx]; rfl
    have hp20 := ih (o :: os) h2 fc il _ k.wf (hc.of_eq rfl hxE) hok.2
    have hj2n := j2.next_le
    have hj2o := j2f.own
    have hj2c := j2.wf.cur
    have hctx : CtxLt (setCur (setLoops (s5.edgeUnlessExit s5.cur st.next .loop) st.loops) (st.next + 3)) st.next :=
      (w.ctxLt (Nat.le_refl _)).of_eq rfl hxE
    have tiE := procList_target (o :: os) _ k.wf _ (TG.zone (lo := st.next + 4) (hi := s5.next) (hctx.mono (by omega)) (by omega) (by ob))
    generalize procList _ (o :: os) = s8 at *
    have f8 := (hf.mono (lo' := st.next + 4) (by omega) (Nat.le_refl _)).back_setLoops.back_setCur.back_eue (.inl (by omega))
    have f5 := ((f8.mono (lo' := st.next + 4) (Nat.le_refl _) (hi' := s5.next) (by ob)).back_TI tiE).back_setCur.back_setLoops.back_eue
      (.inl (by omega))
    have e4 : (st.cur, st.next, ETy.normal) ∈ E := f5.mem (j.sub.1 _ (by simp))
    have e2 : (st.next, st.next + 1, ETy.condT) ∈ E := f5.mem (j.sub.1 _ (by simp))
    have e1 : (st.next, st.next + 3, ETy.condF) ∈ E := f5.mem (j.sub.1 _ (by simp))
    have hr : R E st.next := R.step he.reach e4
    have hf1 := w.untouched (m := st.next + 1) (by omega)
    have hf2 := w.untouched (m := st.next + 2) (by omega)
    have hf3 := w.untouched (m := st.next + 3) (by omega)
    have hp := hp0 (f5.mono (by ob) (Nat.le_refl _)) ⟨R.step hr e2, Untouched.calm (by untt [hf1])⟩
    have hu3 : Untouched (setCur (setLoops (s5.edgeUnlessExit s5.cur st.next .loop) st.loops) (st.next + 3)) (st.next + 3) := by
      simp only [unt_setLoops, unt_setCur]
      exact Untouched.eue (by ob) (jf.untouched (by omega) (by omega) (by untt [hf3]))
    have hp2 := hp20 (f8.mono (by ob) (by ob)) ⟨R.step hr e1, hu3.calm⟩
    have hu2 : Untouched (setLoops (setCur (s8.edgeUnlessExit s8.cur (st.next + 2) .normal) (st.next + 2)) st.loops) (st.next + 2) := by
      simp only [unt_setLoops, unt_setCur]
      refine Untouched.eue (by ob) (j2f.untouched (by omega) (by ob) ?_)
      simp only [unt_setLoops, unt_setCur]
      exact Untouched.eue (by ob) (jf.untouched (by omega) (by omega) (by untt [hf2]))
    clear hp0 hp20
    refine ⟨?_, fun hn => ⟨?_, hu2.calm⟩, fun hn => ?_, ?_, ?_⟩
    · simp only [setLoops_edges, setCur_edges]
      rw [cnt_eue_plain _ _ _ _ isCond_normal normal_ne_exc, hp2.cnt]
      simp only [setLoops_edges, setCur_edges]
      rw [cnt_eue_plain _ _ _ _ isCond_loop loop_ne_exc, hp.cnt]
      simp only [setCur_edges, edge_edges, setLoops_edges, bump_edges, add_edges]
      rw [loop_hdr_cnt w hr]
      omega
    · show R E (st.next + 2)
      rcases Bool.or_eq_true_iff.mp hn with hb | hb
      · exact hp.jmp.brk hb st.next (st.next + 2) st.excs.length st.loops rfl none (by
          show pendO (List.take (st.excs.length - st.excs.length) st.excs) = some none
          simp [pendO])
      · have he8 := hp2.normal hb
        have hm : (s8.cur, st.next + 2, ETy.normal) ∈ (s8.edgeUnlessExit s8.cur (st.next + 2) .normal).edges := by
          rw [he8.calm.eue_eq]; simp
        exact R.step he8.reach (hf.mem hm)
    · show ¬ R E (st.next + 2)
      have hn' := Bool.or_eq_false_iff.mp hn
      refine dead_of_LTI hf (m := st.next + 2) (by omega) (by ob) w (by omega) ?_
      have l1 : LTI E (fun x => x ≠ st.next + 2) st (setCur
          (((setLoops (bump (bump (bump (((bump st).edge st.cur st.next ETy.normal).add st.next s e Ty.other))))
          ((st.next, st.next + 2, st.excs.length) :: st.loops)).edge st.next (st.next + 1) ETy.condT).edge
          st.next (st.next + 3) ETy.condF) (st.next + 1)) :=
        LTI.of_three rfl (by omega) (by omega) (by omega)
      have l2 := hp.tgt.mono (G' := fun x => x ≠ st.next + 2) (fun t h => h.ne (m := st.next + 2) (by ob) (by unfold exitB; omega)
        (fun hd x d rest hl => by
          simp only [setCur_loops, edge_loops, setLoops_loops, List.cons.injEq, Prod.mk.injEq] at hl
          obtain ⟨⟨rfl, rfl, rfl⟩, rfl⟩ := hl
          exact ⟨by omega, fun hb => by rw [hn'.1] at hb; cases hb⟩)
        (WF.not_XT w (by omega)))
      have l3 := ((l1.trans l2).eue (a := s5.cur) (b := st.next) (t := .loop) (fun _ => by show st.next ≠ st.next + 2; omega)).of_edges_eq
        (s' := setCur (setLoops (s5.edgeUnlessExit s5.cur st.next .loop) st.loops) (st.next + 3)) rfl
      have l5 := hp2.tgt.mono (G' := fun x => x ≠ st.next + 2) (fun t h => h.ne_ctx hctx (m := st.next + 2) (by ob) (by omega) hw2)
      exact ((l3.trans l5).eue (a := s8.cur) (b := st.next + 2) (t := .normal) (fun hr8 => absurd hr8 (hp2.dead hn'.2))).of_edges_eq rfl
    · exact (hp.jmp.dropLoop (L := st.loops) (b := { ret := (sxL body).ex.ret, raise := (sxL body).ex.raise }) rfl rfl id id).or
        (hp2.jmp.cast (L' := st.loops) (X' := st.excs) rfl hxE.symm) id id id id
    · have l1 : LTI E (TgF st.next st.loops st.excs (sxL (o :: os)).ex.brk) st (setCur
          (((setLoops (bump (bump (bump (((bump st).edge st.cur st.next ETy.normal).add st.next s e Ty.other))))
          ((st.next, st.next + 2, st.excs.length) :: st.loops)).edge st.next (st.next + 1) ETy.condT).edge
          st.next (st.next + 3) ETy.condF) (st.next + 1)) :=
        LTI.of_three rfl (.inl (by omega)) (.inl (by omega)) (.inl (by omega))
      have l2 := hp.tgt.mono (G' := TgF st.next st.loops st.excs (sxL (o :: os)).ex.brk) (fun t h => h.weaken (by ob)
        (fun hd x d rest hl ht => by
          simp only [setCur_loops, edge_loops, setLoops_loops, List.cons.injEq, Prod.mk.injEq] at hl
          obtain ⟨⟨rfl, rfl, rfl⟩, rfl⟩ := hl
          rcases ht with rfl | ⟨rfl, _⟩
          · exact .inl (Nat.le_refl _)
          · exact .inl (by omega))
        (fun h => .inr (.inr (.inr h))))
      have l3 := ((l1.trans l2).eue (a := s5.cur) (b := st.next) (t := .loop) (fun _ => .inl (Nat.le_refl _))).of_edges_eq
        (s' := setCur (setLoops (s5.edgeUnlessExit s5.cur st.next .loop) st.loops) (st.next + 3)) rfl
      have l5 := hp2.tgt.mono (G' := TgF st.next st.loops st.excs (sxL (o :: os)).ex.brk) (fun t h => by
        rw [hxE] at h
        exact h.mono (by ob) id)
      exact ((l3.trans l5).eue (a := s8.cur) (b := st.next + 2) (t := .normal) (fun _ => .inl (by omega))).of_edges_eq rfl

end main
end PV.CFGFin

#print axioms PV.CFGFin.class_cntF
#print axioms PV.CFGFin.with_cntF
#print axioms PV.CFGFin.loop_cntF
