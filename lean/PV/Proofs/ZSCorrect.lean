import PV.Proofs.ZSKeyroots
/-!
# The Zhang–Shasha mirror `PV.ZS.zsDist` computes the specification distance `PV.TED.dist`

For ALL trees and ALL cost models (no size bound).  Proof structure:
* `ZSTed`      — lemmas about the specification (`ted_append_le`, `ted_cons_cons_zs`);
* `ZSForest`   — prefix forests of a post-order numbered forest (`preL_succ`, `preL_children`,
                 `nthL_nthL`) and the arrays of the mirror (`postL_get`);
* `ZSBase`     — inner-DP invariant (`computeForestDistance_ok`), frame, outer loop (`apted_ok`);
* `ZSKeyroots` — key roots read off the tree = key roots read off the `lml` array (`keyrootsT_eq`).
-/
namespace PV.ZSProof
open PV.TED PV.ZS

/-- **Zhang–Shasha as pyscn runs it computes the specification distance**, for all trees and all
cost models. -/
theorem zs_correct (c : Cost) (t₁ t₂ : Tree) : PV.ZS.zsDist c t₁ t₂ = PV.TED.dist c t₁ t₂ := by
  unfold zsDist
  rw [keyrootsT_eq, keyrootsT_eq]
  exact apted_ok c t₁ t₂ (mkPost t₁) (mkPost t₂) (mkPost_repr t₁) (mkPost_repr t₂)

/-! ## concrete checks (executed, not proved: they exercise the executable mirror) -/

def unitCost : Cost := ⟨fun _ => 1, fun _ => 1, fun a b => if a = b then 0 else 1⟩
/-- pyscn-like weights in units of 1/1000 -/
def wCost : Cost := ⟨fun a => 1000 + a, fun a => 900 + 2 * a, fun a b => if a = b then 0 else 800 + a + b⟩

-- labels: a=1 b=2 c=3 d=4 e=5 f=6
/-- f(d(a, c(b)), e) -/
def zsA : Tree := .node 6 [.node 4 [.node 1 [], .node 3 [.node 2 []]], .node 5 []]
/-- f(c(d(a, b)), e) -/
def zsB : Tree := .node 6 [.node 3 [.node 4 [.node 1 [], .node 2 []]], .node 5 []]

#guard postT 0 zsA == [(1, 0), (2, 1), (3, 1), (4, 0), (5, 4), (6, 0)]
#guard keyroots (mkPost zsA) == [2, 4, 5]
#guard keyroots (mkPost zsB) == [1, 4, 5]
#guard keyrootsT zsA == [2, 4, 5]
#guard keyrootsT zsB == [1, 4, 5]
#guard zsDist unitCost zsA zsB == 2
#guard dist unitCost zsA zsB == 2
#guard zsDist wCost zsA zsB == dist wCost zsA zsB
#guard zsDist wCost zsB zsA == dist wCost zsB zsA

/-- all trees with `n` nodes and labels drawn from `0, 1` (test pool) -/
def allForests : Nat → Nat → List (List Tree)
  | 0, _ => [[]]
  | _, 0 => [[]]
  | fuel + 1, n + 1 =>
    -- first tree has k+1 nodes (root + forest of k nodes), rest has n-k nodes
    (List.range (n + 1)).flatMap fun k =>
      (allForests fuel k).flatMap fun cs =>
        (allForests fuel (n - k)).flatMap fun ts =>
          [Tree.node 0 cs :: ts, Tree.node 1 cs :: ts]
def allTrees (n : Nat) : List Tree :=
  (allForests n (n - 1)).flatMap fun cs => [Tree.node 0 cs, Tree.node 1 cs]

#guard (allTrees 4).length == 5 * 16
-- every tree with ≤ 3 nodes against every tree with ≤ 4 nodes (two labels)
#guard ((List.range 4).flatMap allTrees).all fun t₁ => ((List.range 5).flatMap allTrees).all fun t₂ =>
  zsDist unitCost t₁ t₂ == dist unitCost t₁ t₂
#guard ((List.range 4).flatMap allTrees).all fun t₁ => ((List.range 4).flatMap allTrees).all fun t₂ =>
  zsDist wCost t₁ t₂ == dist wCost t₁ t₂ && zsDist wCost t₂ t₁ == dist wCost t₂ t₁

/-- the same agreement as a theorem instance -/
example : zsDist unitCost zsA zsB = dist unitCost zsA zsB := zs_correct _ _ _
example : zsDist unitCost zsA zsB = 2 := by rw [zs_correct]; decide +kernel

end PV.ZSProof

/-- main theorem under the name used by the verification plan -/
theorem PV.ZS.zs_correct (c : PV.TED.Cost) (t₁ t₂ : PV.TED.Tree) :
    PV.ZS.zsDist c t₁ t₂ = PV.TED.dist c t₁ t₂ := PV.ZSProof.zs_correct c t₁ t₂

#print axioms PV.ZS.zs_correct
