import PV.Proofs.CFGComplexityDefs
/-!
Property C03 — the structural live decision count `ldL` IS the specification's decision count `PV.Dec.decisions`
with "dead" read as "not live for the static summary `sxL`", on the strict fragment (the constructs the property names:
no `raise`, `with`, `match`).  Purely structural: no CFG builder involved.
-/
namespace PV.CFGSound
open PV.CFG PV.Dec PV.SD

/-! ### the strict fragment -/
set_option linter.unusedSimpArgs false in
mutual
  /-- no `.raise`, `.with_`, `.match_`, `.case_` anywhere (bodies of nested `def`s are not entered) -/
  def plainL : List Stmt → Bool
    | [] => true
    | x :: xs => plainS x && plainL xs
  termination_by l => 2 * sizeL l
  decreasing_by
    all_goals (try simp_wf)
    all_goals (try simp only [Stmt.size, sizeL])
    all_goals omega
  def plainS : Stmt → Bool
    | .simple .. | .def_ .. | .ret .. | .brk .. | .cont .. => true
    | .raise .. | .with_ .. | .match_ .. | .case_ .. => false
    | .ite _ _ a b | .elifc _ _ a b | .loop _ _ a b => plainL a && plainL b
    | .elsec _ _ a | .class_ _ _ a | .handler _ _ a => plainL a
    | .try_ _ _ a hs c d => plainL a && plainL hs && plainL c && plainL d
  termination_by x => 2 * x.size + 1
  decreasing_by
    all_goals (try simp_wf)
    all_goals (try simp only [Stmt.size, sizeL])
    all_goals omega
end

theorem plainL_nil : plainL [] = true := by rw [plainL]
theorem plainL_cons (x : Stmt) (xs : List Stmt) : plainL (x :: xs) = (plainS x && plainL xs) := by rw [plainL]
theorem plainS_raise (s e : Nat) : plainS (.raise s e) = false := by rw [plainS]
theorem plainS_with (s e : Nat) (a : List Stmt) : plainS (.with_ s e a) = false := by rw [plainS]
theorem plainS_match (s e : Nat) (a : List Stmt) : plainS (.match_ s e a) = false := by rw [plainS]
theorem plainS_case (s e : Nat) (a : List Stmt) : plainS (.case_ s e a) = false := by rw [plainS]
theorem plainS_ite (s e : Nat) (a b : List Stmt) : plainS (.ite s e a b) = (plainL a && plainL b) := by rw [plainS]
theorem plainS_elifc (s e : Nat) (a b : List Stmt) : plainS (.elifc s e a b) = (plainL a && plainL b) := by rw [plainS]
theorem plainS_loop (s e : Nat) (a b : List Stmt) : plainS (.loop s e a b) = (plainL a && plainL b) := by rw [plainS]
theorem plainS_elsec (s e : Nat) (a : List Stmt) : plainS (.elsec s e a) = plainL a := by rw [plainS]
theorem plainS_class (s e : Nat) (a : List Stmt) : plainS (.class_ s e a) = plainL a := by rw [plainS]
theorem plainS_handler (s e : Nat) (a : List Stmt) : plainS (.handler s e a) = plainL a := by rw [plainS]
theorem plainS_try (s e : Nat) (a hs c d : List Stmt) :
    plainS (.try_ s e a hs c d) = (plainL a && plainL hs && plainL c && plainL d) := by rw [plainS]

/-! ### unfolding equations of the specification -/
theorem decisions_nil (dead : Nat → Bool) : decisions dead [] = 0 := by rw [decisions]
theorem decisions_cons (dead : Nat → Bool) (x : Stmt) (xs : List Stmt) :
    decisions dead (x :: xs) = decS dead x + decisions dead xs := by rw [decisions]
theorem decS_simple (dead : Nat → Bool) (s e : Nat) (c : List Bool) (h : Bool) :
    decS dead (.simple s e c h) = if (h && !dead s) = true then compClauses c else 0 := by rw [decS]
theorem decS_ret (dead : Nat → Bool) (s e : Nat) (c : List Bool) (h : Bool) :
    decS dead (.ret s e c h) = if (h && !dead s) = true then compClauses c else 0 := by rw [decS]
theorem decS_brk (dead : Nat → Bool) (s e : Nat) : decS dead (.brk s e) = 0 := by rw [decS]
theorem decS_cont (dead : Nat → Bool) (s e : Nat) : decS dead (.cont s e) = 0 := by rw [decS]
theorem decS_raise (dead : Nat → Bool) (s e : Nat) : decS dead (.raise s e) = 0 := by rw [decS]
theorem decS_def (dead : Nat → Bool) (s e : Nat) (b : List Stmt) : decS dead (.def_ s e b) = 0 := by rw [decS]
theorem decS_ite (dead : Nat → Bool) (s e : Nat) (a b : List Stmt) :
    decS dead (.ite s e a b) = one dead s + decisions dead a + decisions dead b := by rw [decS]
theorem decS_elifc (dead : Nat → Bool) (s e : Nat) (a b : List Stmt) :
    decS dead (.elifc s e a b) = one dead s + decisions dead a + decisions dead b := by rw [decS]
theorem decS_loop (dead : Nat → Bool) (s e : Nat) (a b : List Stmt) :
    decS dead (.loop s e a b) = one dead s + decisions dead a + decisions dead b := by rw [decS]
theorem decS_elsec (dead : Nat → Bool) (s e : Nat) (a : List Stmt) : decS dead (.elsec s e a) = decisions dead a := by rw [decS]
theorem decS_with (dead : Nat → Bool) (s e : Nat) (a : List Stmt) : decS dead (.with_ s e a) = decisions dead a := by rw [decS]
theorem decS_match (dead : Nat → Bool) (s e : Nat) (a : List Stmt) : decS dead (.match_ s e a) = decisions dead a := by rw [decS]
theorem decS_case (dead : Nat → Bool) (s e : Nat) (a : List Stmt) : decS dead (.case_ s e a) = decisions dead a := by rw [decS]
theorem decS_class (dead : Nat → Bool) (s e : Nat) (a : List Stmt) : decS dead (.class_ s e a) = decisions dead a := by rw [decS]
theorem decS_handler (dead : Nat → Bool) (s e : Nat) (a : List Stmt) :
    decS dead (.handler s e a) = one dead s + decisions dead a := by rw [decS]
theorem decS_try (dead : Nat → Bool) (s e : Nat) (a hs c d : List Stmt) :
    decS dead (.try_ s e a hs c d) = decisions dead a + decisions dead hs + decisions dead c + decisions dead d := by rw [decS]

/-! ### the lines the static summary knows: live lines and skipped `elif` heads -/
/-- `l` is a live line or a skipped `elif` head of the summary `r` -/
def Mx (r : SX) (l : Nat) : Prop := l ∈ r.lines ∨ l ∈ r.skipped

section mx
variable {l : Nat}
theorem Mx_empty : ¬ Mx ({} : SX) l := by simp [Mx]
theorem Mx_sxL_nil : ¬ Mx (sxL []) l := by rw [sxL_nil]; simp [Mx]
theorem Mx_sxL_cons_normal {x : Stmt} {xs : List Stmt} (h : (sxS x).ex.normal = true) :
    Mx (sxL (x :: xs)) l ↔ Mx (sxS x) l ∨ Mx (sxL xs) l := by
  rw [sxL_cons, if_pos h]; simp only [Mx, List.mem_append]
  constructor
  · rintro ((h | h) | (h | h)) <;> simp [h]
  · rintro ((h | h) | (h | h)) <;> simp [h]
theorem sxL_cons_stop {x : Stmt} {xs : List Stmt} (h : ¬ (sxS x).ex.normal = true) : sxL (x :: xs) = sxS x := by
  rw [sxL_cons, if_neg h]
theorem Mx_sxAlts_nil : ¬ Mx (sxAlts []) l := by rw [sxAlts_nil]; simp [Mx]
theorem Mx_sxAlts_cons {x : Stmt} {xs : List Stmt} : Mx (sxAlts (x :: xs)) l ↔ Mx (sxS x) l ∨ Mx (sxAlts xs) l := by
  rw [sxAlts_cons]; simp only [Mx, List.mem_append]
  constructor
  · rintro ((h | h) | (h | h)) <;> simp [h]
  · rintro ((h | h) | (h | h)) <;> simp [h]
theorem Mx_simple {s e : Nat} {c : List Bool} {h : Bool} : Mx (sxS (.simple s e c h)) l ↔ l = s := by rw [sxS_simple]; simp [Mx]
theorem Mx_ret {s e : Nat} {c : List Bool} {h : Bool} : Mx (sxS (.ret s e c h)) l ↔ l = s := by rw [sxS_ret]; simp [Mx]
theorem Mx_def {s e : Nat} {b : List Stmt} : Mx (sxS (.def_ s e b)) l ↔ l = s := by rw [sxS_def]; simp [Mx]
theorem Mx_brk {s e : Nat} : Mx (sxS (.brk s e)) l ↔ l = s := by rw [sxS_brk]; simp [Mx]
theorem Mx_cont {s e : Nat} : Mx (sxS (.cont s e)) l ↔ l = s := by rw [sxS_cont]; simp [Mx]
theorem Mx_raise {s e : Nat} : Mx (sxS (.raise s e)) l ↔ l = s := by rw [sxS_raise]; simp [Mx]
theorem Mx_ite {s e : Nat} {a b : List Stmt} : Mx (sxS (.ite s e a b)) l ↔ l = s ∨ Mx (sxL a) l ∨ Mx (sxL b) l := by
  rw [sxS_ite]; simp only [Mx, List.mem_append, List.mem_cons, List.cons_append]
  constructor
  · rintro ((h | h | h) | (h | h)) <;> simp [h]
  · rintro (h | (h | h) | (h | h)) <;> simp [h]
theorem Mx_elifc {s e : Nat} {a b : List Stmt} : Mx (sxS (.elifc s e a b)) l ↔ l = s ∨ Mx (sxL a) l ∨ Mx (sxL b) l := by
  rw [sxS_elifc]; simp only [Mx, List.mem_append, List.mem_cons, List.cons_append]
  constructor
  · rintro ((h | h) | (h | h | h)) <;> simp [h]
  · rintro (h | (h | h) | (h | h)) <;> simp [h]
theorem Mx_loop {s e : Nat} {a b : List Stmt} : Mx (sxS (.loop s e a b)) l ↔ l = s ∨ Mx (sxL a) l ∨ Mx (sxL b) l := by
  rw [sxS_loop]; simp only [Mx, List.mem_append, List.mem_cons, List.cons_append]
  constructor
  · rintro ((h | h | h) | (h | h)) <;> simp [h]
  · rintro (h | (h | h) | (h | h)) <;> simp [h]
theorem Mx_elsec {s e : Nat} {a : List Stmt} : Mx (sxS (.elsec s e a)) l ↔ Mx (sxL a) l := by rw [sxS_elsec]
theorem Mx_class {s e : Nat} {a : List Stmt} : Mx (sxS (.class_ s e a)) l ↔ l = s ∨ Mx (sxL a) l := by
  rw [sxS_class]; simp only [Mx, List.mem_cons]
  constructor
  · rintro ((h | h) | h) <;> simp [h]
  · rintro (h | (h | h)) <;> simp [h]
theorem Mx_handler {s e : Nat} {a : List Stmt} : Mx (sxS (.handler s e a)) l ↔ l = s ∨ Mx (sxL a) l := by
  rw [sxS_handler]; simp only [Mx, List.mem_cons]
  constructor
  · rintro ((h | h) | h) <;> simp [h]
  · rintro (h | (h | h)) <;> simp [h]
theorem Mx_case {s e : Nat} {a : List Stmt} : Mx (sxS (.case_ s e a)) l ↔ l = s ∨ Mx (sxL a) l := by
  rw [sxS_case]; simp only [Mx, List.mem_cons]
  constructor
  · rintro ((h | h) | h) <;> simp [h]
  · rintro (h | (h | h)) <;> simp [h]
theorem Mx_with {s e : Nat} {a : List Stmt} : Mx (sxS (.with_ s e a)) l ↔ l = s ∨ Mx (sxL a) l := by
  rw [sxS_with]; simp only [Mx, List.mem_cons]
  constructor
  · rintro ((h | h) | h) <;> simp [h]
  · rintro (h | (h | h)) <;> simp [h]
theorem Mx_match {s e : Nat} {cs : List Stmt} : Mx (sxS (.match_ s e cs)) l ↔ l = s ∨ Mx (sxAlts cs) l := by
  rw [sxS_match]; simp only [Mx, List.mem_cons]
  constructor
  · rintro ((h | h) | h) <;> simp [h]
  · rintro (h | (h | h)) <;> simp [h]
/-- `try` without `finally` -/
theorem Mx_try_nofin {s e : Nat} {a hs c : List Stmt} :
    Mx (sxS (.try_ s e a hs c [])) l ↔
      Mx (sxL a) l ∨ Mx (sxAlts hs) l ∨ ((sxL a).ex.normal = true ∧ Mx (sxL c) l) := by
  rw [sxS_try]
  cases hn : (sxL a).ex.normal <;> simp [Mx] <;> grind
/-- `try`, general (upper bound) -/
theorem Mx_try_sub {s e : Nat} {a hs c d : List Stmt} (h : Mx (sxS (.try_ s e a hs c d)) l) :
    Mx (sxL a) l ∨ Mx (sxAlts hs) l ∨ Mx (sxL c) l ∨ Mx (sxL d) l := by
  rw [sxS_try] at h
  cases hn : (sxL a).ex.normal <;> cases hd : d.isEmpty <;> simp [Mx, hn, hd] at h ⊢ <;> grind
end mx

/-! ### (C) the summary only lists start lines of the code it summarises -/
theorem mx_sub_all : ∀ n,
    (∀ ss : List Stmt, sizeL ss ≤ n → ∀ l, (Mx (sxL ss) l → l ∈ linesOfL ss) ∧ (Mx (sxAlts ss) l → l ∈ linesOfL ss)) ∧
    (∀ x : Stmt, x.size ≤ n → ∀ l, Mx (sxS x) l → l ∈ linesOf x) := by
  intro n
  induction n with
  | zero =>
    constructor
    · intro ss hsz l
      cases ss with
      | nil => exact ⟨fun h => absurd h Mx_sxL_nil, fun h => absurd h Mx_sxAlts_nil⟩
      | cons x xs => simp [sizeL] at hsz
    · intro x hx
      cases x <;> simp [Stmt.size] at hx
  | succ n ih =>
    obtain ⟨ihL, ihS⟩ := ih
    constructor
    · intro ss hsz l
      cases ss with
      | nil => exact ⟨fun h => absurd h Mx_sxL_nil, fun h => absurd h Mx_sxAlts_nil⟩
      | cons x xs =>
        simp only [sizeL] at hsz
        have hx := ihS x (by omega) l
        have hxs := ihL xs (by omega) l
        rw [linesOfL_cons]
        constructor
        · intro h
          by_cases hn : (sxS x).ex.normal = true
          · rcases (Mx_sxL_cons_normal hn).mp h with h | h
            · exact List.mem_append.mpr (.inl (hx h))
            · exact List.mem_append.mpr (.inr (hxs.1 h))
          · rw [sxL_cons_stop hn] at h
            exact List.mem_append.mpr (.inl (hx h))
        · intro h
          rcases Mx_sxAlts_cons.mp h with h | h
          · exact List.mem_append.mpr (.inl (hx h))
          · exact List.mem_append.mpr (.inr (hxs.2 h))
    · intro x hx l h
      cases x with
      | simple s e c hc => rw [linesOf_simple]; simp [Mx_simple.mp h]
      | ret s e c hc => rw [linesOf_ret]; simp [Mx_ret.mp h]
      | brk s e => rw [linesOf_brk]; simp [Mx_brk.mp h]
      | cont s e => rw [linesOf_cont]; simp [Mx_cont.mp h]
      | raise s e => rw [linesOf_raise]; simp [Mx_raise.mp h]
      | def_ s e b => rw [linesOf_def]; simp [Mx_def.mp h]
      | ite s e a b =>
        simp only [Stmt.size] at hx
        rw [linesOf_ite]
        rcases Mx_ite.mp h with h | h | h
        · simp [h]
        · have := (ihL a (by omega) l).1 h; simp [this]
        · have := (ihL b (by omega) l).1 h; simp [this]
      | elifc s e a b =>
        simp only [Stmt.size] at hx
        rw [linesOf_elifc]
        rcases Mx_elifc.mp h with h | h | h
        · simp [h]
        · have := (ihL a (by omega) l).1 h; simp [this]
        · have := (ihL b (by omega) l).1 h; simp [this]
      | loop s e a b =>
        simp only [Stmt.size] at hx
        rw [linesOf_loop]
        rcases Mx_loop.mp h with h | h | h
        · simp [h]
        · have := (ihL a (by omega) l).1 h; simp [this]
        · have := (ihL b (by omega) l).1 h; simp [this]
      | elsec s e a =>
        simp only [Stmt.size] at hx
        rw [linesOf_elsec]
        exact (ihL a (by omega) l).1 (Mx_elsec.mp h)
      | class_ s e a =>
        simp only [Stmt.size] at hx
        rw [linesOf_class]
        rcases Mx_class.mp h with h | h
        · simp [h]
        · have := (ihL a (by omega) l).1 h; simp [this]
      | handler s e a =>
        simp only [Stmt.size] at hx
        rw [linesOf_handler]
        rcases Mx_handler.mp h with h | h
        · simp [h]
        · have := (ihL a (by omega) l).1 h; simp [this]
      | case_ s e a =>
        simp only [Stmt.size] at hx
        rw [linesOf_case]
        rcases Mx_case.mp h with h | h
        · simp [h]
        · have := (ihL a (by omega) l).1 h; simp [this]
      | with_ s e a =>
        simp only [Stmt.size] at hx
        rw [linesOf_with]
        rcases Mx_with.mp h with h | h
        · simp [h]
        · have := (ihL a (by omega) l).1 h; simp [this]
      | match_ s e a =>
        simp only [Stmt.size] at hx
        rw [linesOf_match]
        rcases Mx_match.mp h with h | h
        · simp [h]
        · have := (ihL a (by omega) l).2 h; simp [this]
      | try_ s e a hs c d =>
        simp only [Stmt.size] at hx
        rw [linesOf_try]
        rcases Mx_try_sub h with h | h | h | h
        · have := (ihL a (by omega) l).1 h; simp [this]
        · have := (ihL hs (by omega) l).2 h; simp [this]
        · have := (ihL c (by omega) l).1 h; simp [this]
        · have := (ihL d (by omega) l).1 h; simp [this]

/-- (C) live lines and skipped heads of a list are start lines of the list -/
theorem mx_sub_linesOfL (ss : List Stmt) {l : Nat} (h : Mx (sxL ss) l) : l ∈ linesOfL ss :=
  ((mx_sub_all _).1 ss (Nat.le_refl _) l).1 h
theorem mx_sub_linesOfL_alts (ss : List Stmt) {l : Nat} (h : Mx (sxAlts ss) l) : l ∈ linesOfL ss :=
  ((mx_sub_all _).1 ss (Nat.le_refl _) l).2 h
theorem mx_sub_linesOf (x : Stmt) {l : Nat} (h : Mx (sxS x) l) : l ∈ linesOf x :=
  (mx_sub_all _).2 x (Nat.le_refl _) l h

theorem sxL_lines_sub (ss : List Stmt) : ∀ l ∈ (sxL ss).lines, l ∈ linesOfL ss := fun _ h => mx_sub_linesOfL ss (.inl h)
theorem sxL_skipped_sub (ss : List Stmt) : ∀ l ∈ (sxL ss).skipped, l ∈ linesOfL ss := fun _ h => mx_sub_linesOfL ss (.inr h)
theorem sxS_lines_sub (x : Stmt) : ∀ l ∈ (sxS x).lines, l ∈ linesOf x := fun _ h => mx_sub_linesOf x (.inl h)
theorem sxS_skipped_sub (x : Stmt) : ∀ l ∈ (sxS x).skipped, l ∈ linesOf x := fun _ h => mx_sub_linesOf x (.inr h)

/-! ### (A) code all of whose start lines are dead has no decision -/
theorem dec_dead_all (dead : Nat → Bool) : ∀ n,
    (∀ ss : List Stmt, sizeL ss ≤ n → (∀ l ∈ linesOfL ss, dead l = true) → decisions dead ss = 0) ∧
    (∀ x : Stmt, x.size ≤ n → (∀ l ∈ linesOf x, dead l = true) → decS dead x = 0) := by
  intro n
  induction n with
  | zero =>
    constructor
    · intro ss hsz _
      cases ss with
      | nil => exact decisions_nil dead
      | cons x xs => simp [sizeL] at hsz
    · intro x hx
      cases x <;> simp [Stmt.size] at hx
  | succ n ih =>
    obtain ⟨ihL, ihS⟩ := ih
    constructor
    · intro ss hsz hd
      cases ss with
      | nil => exact decisions_nil dead
      | cons x xs =>
        simp only [sizeL] at hsz
        rw [linesOfL_cons] at hd
        rw [decisions_cons, ihS x (by omega) (fun l hl => hd l (List.mem_append.mpr (.inl hl))),
          ihL xs (by omega) (fun l hl => hd l (List.mem_append.mpr (.inr hl)))]
    · intro x hx hd
      cases x with
      | simple s e c hc =>
        rw [linesOf_simple] at hd
        rw [decS_simple, hd s (by simp)]; simp
      | ret s e c hc =>
        rw [linesOf_ret] at hd
        rw [decS_ret, hd s (by simp)]; simp
      | brk s e => exact decS_brk ..
      | cont s e => exact decS_cont ..
      | raise s e => exact decS_raise ..
      | def_ s e b => exact decS_def ..
      | ite s e a b =>
        simp only [Stmt.size] at hx
        rw [linesOf_ite] at hd
        rw [decS_ite, one, hd s (by simp), ihL a (by omega) (fun l hl => hd l (by simp [hl])),
          ihL b (by omega) (fun l hl => hd l (by simp [hl]))]; rfl
      | elifc s e a b =>
        simp only [Stmt.size] at hx
        rw [linesOf_elifc] at hd
        rw [decS_elifc, one, hd s (by simp), ihL a (by omega) (fun l hl => hd l (by simp [hl])),
          ihL b (by omega) (fun l hl => hd l (by simp [hl]))]; rfl
      | loop s e a b =>
        simp only [Stmt.size] at hx
        rw [linesOf_loop] at hd
        rw [decS_loop, one, hd s (by simp), ihL a (by omega) (fun l hl => hd l (by simp [hl])),
          ihL b (by omega) (fun l hl => hd l (by simp [hl]))]; rfl
      | elsec s e a =>
        simp only [Stmt.size] at hx
        rw [linesOf_elsec] at hd
        rw [decS_elsec, ihL a (by omega) hd]
      | class_ s e a =>
        simp only [Stmt.size] at hx
        rw [linesOf_class] at hd
        rw [decS_class, ihL a (by omega) (fun l hl => hd l (by simp [hl]))]
      | case_ s e a =>
        simp only [Stmt.size] at hx
        rw [linesOf_case] at hd
        rw [decS_case, ihL a (by omega) (fun l hl => hd l (by simp [hl]))]
      | with_ s e a =>
        simp only [Stmt.size] at hx
        rw [linesOf_with] at hd
        rw [decS_with, ihL a (by omega) (fun l hl => hd l (by simp [hl]))]
      | match_ s e a =>
        simp only [Stmt.size] at hx
        rw [linesOf_match] at hd
        rw [decS_match, ihL a (by omega) (fun l hl => hd l (by simp [hl]))]
      | handler s e a =>
        simp only [Stmt.size] at hx
        rw [linesOf_handler] at hd
        rw [decS_handler, one, hd s (by simp), ihL a (by omega) (fun l hl => hd l (by simp [hl]))]; rfl
      | try_ s e a hs c d =>
        simp only [Stmt.size] at hx
        rw [linesOf_try] at hd
        rw [decS_try, ihL a (by omega) (fun l hl => hd l (by simp [hl])), ihL hs (by omega) (fun l hl => hd l (by simp [hl])),
          ihL c (by omega) (fun l hl => hd l (by simp [hl])), ihL d (by omega) (fun l hl => hd l (by simp [hl]))]

/-- (A) -/
theorem decisions_dead (dead : Nat → Bool) (ss : List Stmt) (h : ∀ l ∈ linesOfL ss, dead l = true) : decisions dead ss = 0 :=
  (dec_dead_all dead _).1 ss (Nat.le_refl _) h

/-! ### (B) the live count is the specification's count -/
/-- on the start lines `L`, `dead` is exactly the complement of `M` -/
def DF (dead : Nat → Bool) (M : Nat → Prop) (L : List Nat) : Prop := ∀ l ∈ L, (dead l = false ↔ M l)

section df
variable {dead : Nat → Bool} {M M' M1 M2 : Nat → Prop} {L L1 L2 : List Nat} {s : Nat}

theorem DF.congr (h : DF dead M L) (hM : ∀ l, M l ↔ M' l) : DF dead M' L := fun l hl => (h l hl).trans (hM l)

theorem DF.allDead (h : DF dead (fun _ => False) L) : ∀ l ∈ L, dead l = true := by
  intro l hl
  have := h l hl
  cases hd : dead l
  · exact (this.mp hd).elim
  · rfl

theorem DF.split (h : DF dead M (L1 ++ L2)) (hd : (L1 ++ L2).Nodup) (hM : ∀ l, M l ↔ M1 l ∨ M2 l)
    (h1 : ∀ l, M1 l → l ∈ L1) (h2 : ∀ l, M2 l → l ∈ L2) : DF dead M1 L1 ∧ DF dead M2 L2 := by
  obtain ⟨_, _, hdis⟩ := List.nodup_append.mp hd
  constructor
  · intro l hl
    rw [h l (List.mem_append.mpr (.inl hl)), hM l]
    exact ⟨fun h => h.elim id (fun h => absurd rfl (hdis l hl l (h2 l h))), .inl⟩
  · intro l hl
    rw [h l (List.mem_append.mpr (.inr hl)), hM l]
    exact ⟨fun h => h.elim (fun h => absurd rfl (hdis l (h1 l h) l hl)) id, .inr⟩

theorem DF.cons (h : DF dead M (s :: L)) (hd : (s :: L).Nodup) (hM : ∀ l, M l ↔ l = s ∨ M' l) (h2 : ∀ l, M' l → l ∈ L) :
    dead s = false ∧ DF dead M' L := by
  have := DF.split (L1 := [s]) (L2 := L) (M1 := fun l => l = s) h hd hM (fun l hl => by simp [hl]) h2
  exact ⟨(this.1 s (by simp)).mpr rfl, this.2⟩

/-- a head line and one body -/
theorem DF.head1 {A : List Stmt} (h : DF dead M (s :: linesOfL A)) (hd : (s :: linesOfL A).Nodup)
    (hM : ∀ l, M l ↔ l = s ∨ Mx (sxL A) l) :
    dead s = false ∧ DF dead (Mx (sxL A)) (linesOfL A) ∧ (linesOfL A).Nodup := by
  obtain ⟨h1, h2⟩ := h.cons hd hM (fun l => mx_sub_linesOfL A)
  exact ⟨h1, h2, (List.nodup_cons.mp hd).2⟩

/-- two bodies -/
theorem DF.two {A B : List Stmt} (h : DF dead M (linesOfL A ++ linesOfL B)) (hd : (linesOfL A ++ linesOfL B).Nodup)
    (hM : ∀ l, M l ↔ Mx (sxL A) l ∨ Mx (sxL B) l) :
    DF dead (Mx (sxL A)) (linesOfL A) ∧ DF dead (Mx (sxL B)) (linesOfL B) ∧ (linesOfL A).Nodup ∧ (linesOfL B).Nodup := by
  obtain ⟨h1, h2⟩ := h.split hd hM (fun l => mx_sub_linesOfL A) (fun l => mx_sub_linesOfL B)
  obtain ⟨n1, n2, _⟩ := List.nodup_append.mp hd
  exact ⟨h1, h2, n1, n2⟩

/-- a head line and two bodies -/
theorem DF.head2 {A B : List Stmt} (h : DF dead M (s :: linesOfL A ++ linesOfL B)) (hd : (s :: linesOfL A ++ linesOfL B).Nodup)
    (hM : ∀ l, M l ↔ l = s ∨ Mx (sxL A) l ∨ Mx (sxL B) l) :
    dead s = false ∧ DF dead (Mx (sxL A)) (linesOfL A) ∧ DF dead (Mx (sxL B)) (linesOfL B) ∧
      (linesOfL A).Nodup ∧ (linesOfL B).Nodup := by
  rw [List.cons_append] at h hd
  obtain ⟨h1, h2⟩ := h.cons (M' := fun l => Mx (sxL A) l ∨ Mx (sxL B) l) hd hM (fun l hl => by
    rcases hl with hl | hl
    · exact List.mem_append.mpr (.inl (mx_sub_linesOfL A hl))
    · exact List.mem_append.mpr (.inr (mx_sub_linesOfL B hl)))
  exact ⟨h1, DF.two h2 (List.nodup_cons.mp hd).2 (fun _ => Iff.rfl)⟩
end df

theorem one_live {dead : Nat → Bool} {s : Nat} (h : dead s = false) : one dead s = 1 := by rw [one, h]; rfl

theorem ld_eq_dec_all (dead : Nat → Bool) : ∀ n,
    (∀ ss : List Stmt, sizeL ss ≤ n → ∀ (il : Bool) (nh : Nat), plainL ss = true → (linesOfL ss).Nodup →
      (okCL il ss = true → DF dead (Mx (sxL ss)) (linesOfL ss) → ldL nh ss = decisions dead ss) ∧
      (okCHs il ss = true → DF dead (Mx (sxAlts ss)) (linesOfL ss) → ldAlts nh ss = decisions dead ss)) ∧
    (∀ x : Stmt, x.size ≤ n → ∀ (il : Bool) (nh : Nat), plainS x = true → (linesOf x).Nodup →
      okCS il x = true → DF dead (Mx (sxS x)) (linesOf x) → ldS nh x = decS dead x) := by
  intro n
  induction n with
  | zero =>
    constructor
    · intro ss hsz il nh _ _
      cases ss with
      | nil => exact ⟨fun _ _ => by rw [ldL_nil, decisions_nil], fun _ _ => by rw [ldAlts_nil, decisions_nil]⟩
      | cons x xs => simp [sizeL] at hsz
    · intro x hx
      cases x <;> simp [Stmt.size] at hx
  | succ n ih =>
    obtain ⟨ihL, ihS⟩ := ih
    constructor
    · intro ss hsz il nh hp hnd
      cases ss with
      | nil => exact ⟨fun _ _ => by rw [ldL_nil, decisions_nil], fun _ _ => by rw [ldAlts_nil, decisions_nil]⟩
      | cons x xs =>
        simp only [sizeL] at hsz
        rw [plainL_cons, Bool.and_eq_true] at hp
        rw [linesOfL_cons] at hnd ⊢
        obtain ⟨nd1, nd2, _⟩ := List.nodup_append.mp hnd
        constructor
        · intro hok hdf
          rw [okCL_cons, Bool.and_eq_true] at hok
          rw [ldL_cons, decisions_cons]
          by_cases hn : (sxS x).ex.normal = true
          · obtain ⟨d1, d2⟩ := hdf.split hnd (fun l => Mx_sxL_cons_normal hn) (fun l => mx_sub_linesOf x) (fun l => mx_sub_linesOfL xs)
            rw [if_pos hn, ihS x (by omega) il nh hp.1 nd1 hok.1 d1, (ihL xs (by omega) il nh hp.2 nd2).1 hok.2 d2]
          · rw [sxL_cons_stop hn] at hdf
            obtain ⟨d1, d2⟩ := hdf.split (M2 := fun _ => False) hnd (fun l => by simp) (fun l => mx_sub_linesOf x) (fun l h => h.elim)
            rw [if_neg hn, ihS x (by omega) il nh hp.1 nd1 hok.1 d1, decisions_dead dead xs d2.allDead]
        · intro hok hdf
          obtain ⟨s, e, a, rfl, ha, hhs⟩ := okCHs_cons hok
          simp only [Stmt.size] at hsz
          rw [plainS_handler] at hp
          obtain ⟨d1, d2⟩ := hdf.split hnd (fun l => Mx_sxAlts_cons) (fun l => mx_sub_linesOf _) (fun l => mx_sub_linesOfL_alts xs)
          rw [linesOf_handler] at d1 nd1
          obtain ⟨hs, da, na⟩ := d1.head1 nd1 (fun l => Mx_handler)
          rw [ldAlts_cons, decisions_cons, ldS_handler, decS_handler, one_live hs,
            (ihL a (by omega) il nh hp.1 na).1 ha da, (ihL xs (by omega) il nh hp.2 nd2).2 hhs d2]
    · intro x hx il nh hp hnd hok hdf
      cases x with
      | simple s e c hc =>
        rw [linesOf_simple] at hdf
        have hs : dead s = false := (hdf s (by simp)).mpr (Mx_simple.mpr rfl)
        rw [ldS_simple, decS_simple, hs]; simp
      | ret s e c hc =>
        rw [linesOf_ret] at hdf
        have hs : dead s = false := (hdf s (by simp)).mpr (Mx_ret.mpr rfl)
        rw [ldS_ret, decS_ret, hs]; simp
      | brk s e => rw [ldS_brk, decS_brk]
      | cont s e => rw [ldS_cont, decS_cont]
      | def_ s e b => rw [ldS_def, decS_def]
      | raise s e => rw [plainS_raise] at hp; cases hp
      | with_ s e a => rw [plainS_with] at hp; cases hp
      | match_ s e a => rw [plainS_match] at hp; cases hp
      | case_ s e a => rw [plainS_case] at hp; cases hp
      | handler s e a => rw [okCS_handler] at hok; cases hok
      | ite s e a b =>
        simp only [Stmt.size] at hx
        rw [okCS_ite, Bool.and_eq_true] at hok
        rw [plainS_ite, Bool.and_eq_true] at hp
        rw [linesOf_ite] at hnd hdf
        obtain ⟨hs, da, db, na, nb⟩ := hdf.head2 hnd (fun l => Mx_ite)
        rw [ldS_ite, decS_ite, one_live hs, (ihL a (by omega) il nh hp.1 na).1 hok.1 da, (ihL b (by omega) il nh hp.2 nb).1 hok.2 db]
      | elifc s e a b =>
        simp only [Stmt.size] at hx
        rw [okCS_elifc, Bool.and_eq_true] at hok
        rw [plainS_elifc, Bool.and_eq_true] at hp
        rw [linesOf_elifc] at hnd hdf
        obtain ⟨hs, da, db, na, nb⟩ := hdf.head2 hnd (fun l => Mx_elifc)
        rw [ldS_elifc, decS_elifc, one_live hs, (ihL a (by omega) il nh hp.1 na).1 hok.1 da, (ihL b (by omega) il nh hp.2 nb).1 hok.2 db]
      | loop s e a b =>
        simp only [Stmt.size] at hx
        rw [okCS_loop, Bool.and_eq_true] at hok
        rw [plainS_loop, Bool.and_eq_true] at hp
        rw [linesOf_loop] at hnd hdf
        obtain ⟨hs, da, db, na, nb⟩ := hdf.head2 hnd (fun l => Mx_loop)
        rw [ldS_loop, decS_loop, one_live hs, (ihL a (by omega) true nh hp.1 na).1 hok.1 da, (ihL b (by omega) il nh hp.2 nb).1 hok.2 db]
      | elsec s e a =>
        simp only [Stmt.size] at hx
        rw [okCS_elsec] at hok
        rw [plainS_elsec] at hp
        rw [linesOf_elsec] at hnd hdf
        rw [ldS_elsec, decS_elsec, (ihL a (by omega) il nh hp hnd).1 hok (hdf.congr (fun l => Mx_elsec))]
      | class_ s e a =>
        simp only [Stmt.size] at hx
        rw [okCS_class] at hok
        rw [plainS_class] at hp
        rw [linesOf_class] at hnd hdf
        obtain ⟨_, da, na⟩ := hdf.head1 hnd (fun l => Mx_class)
        rw [ldS_class, decS_class, (ihL a (by omega) false nh hp na).1 hok da]
      | try_ s e a hs c d =>
        simp only [Stmt.size] at hx
        rw [okCS_try] at hok
        simp only [Bool.and_eq_true] at hok
        obtain ⟨⟨⟨oka, okh⟩, okc⟩, hde⟩ := hok
        have hd0 : d = [] := List.isEmpty_iff.mp hde
        subst hd0
        rw [plainS_try] at hp
        simp only [Bool.and_eq_true] at hp
        obtain ⟨⟨⟨pa, ph⟩, pc⟩, _⟩ := hp
        rw [linesOf_try, linesOfL_nil, List.append_nil] at hnd hdf
        obtain ⟨dah, dc⟩ := hdf.split (M1 := fun l => Mx (sxL a) l ∨ Mx (sxAlts hs) l)
          (M2 := fun l => (sxL a).ex.normal = true ∧ Mx (sxL c) l) hnd (fun l => by rw [Mx_try_nofin, or_assoc])
          (fun l hl => by
            rcases hl with hl | hl
            · exact List.mem_append.mpr (.inl (mx_sub_linesOfL a hl))
            · exact List.mem_append.mpr (.inr (mx_sub_linesOfL_alts hs hl)))
          (fun l hl => mx_sub_linesOfL c hl.2)
        obtain ⟨ndah, ndc, _⟩ := List.nodup_append.mp hnd
        obtain ⟨da, dh⟩ := dah.split ndah (fun _ => Iff.rfl) (fun l => mx_sub_linesOfL a) (fun l => mx_sub_linesOfL_alts hs)
        obtain ⟨nda, ndh, _⟩ := List.nodup_append.mp ndah
        rw [ldS_try, decS_try, decisions_nil, Nat.add_zero, (ihL a (by omega) il _ pa nda).1 oka da,
          (ihL hs (by omega) il _ ph ndh).2 okh dh]
        by_cases hn : (sxL a).ex.normal = true
        · rw [if_pos hn, (ihL c (by omega) il _ pc ndc).1 okc (dc.congr (fun l => by simp [hn]))]
        · rw [if_neg hn, decisions_dead dead c (DF.allDead (dc.congr (fun l => by simp [hn])))]

/-- **(B)** for an arbitrary `dead`: if, on the start lines of `ss`, `dead` is exactly "neither live nor a skipped `elif` head for
the static summary", the structural live decision count is the specification's decision count. -/
theorem ldL_eq_decisions_of (dead : Nat → Bool) (ss : List Stmt) (il : Bool) (nh : Nat) (hok : okCL il ss = true)
    (hp : plainL ss = true) (hd : (linesOfL ss).Nodup)
    (h1 : ∀ l ∈ (sxL ss).lines, dead l = false) (h2 : ∀ l ∈ (sxL ss).skipped, dead l = false)
    (h3 : ∀ l ∈ linesOfL ss, l ∉ (sxL ss).lines → l ∉ (sxL ss).skipped → dead l = true) :
    ldL nh ss = decisions dead ss := by
  refine ((ld_eq_dec_all dead _).1 ss (Nat.le_refl _) il nh hp hd).1 hok ?_
  intro l hl
  constructor
  · intro hf
    by_cases ha : l ∈ (sxL ss).lines
    · exact .inl ha
    · by_cases hb : l ∈ (sxL ss).skipped
      · exact .inr hb
      · rw [h3 l hl ha hb] at hf; cases hf
  · rintro (h | h)
    · exact h1 l h
    · exact h2 l h

/-- a line is dead iff the static summary neither lists it as live nor as a skipped `elif` head -/
def sxDead (body : List Stmt) (l : Nat) : Bool := !((sxL body).lines.contains l) && !((sxL body).skipped.contains l)

/-- **C03, structural half.** On the strict fragment the live decision count of the CFG mirror (`ldL`) is the decision count of
the specification, where the dead lines are those the static summary does not reach. -/
theorem ldL_eq_decisions (body : List Stmt) (il : Bool) (nh : Nat) (hok : okCL il body = true) (hp : plainL body = true)
    (hd : (linesOfL body).Nodup) : ldL nh body = decisions (sxDead body) body := by
  apply ldL_eq_decisions_of (sxDead body) body il nh hok hp hd
  · intro l hl; simp [sxDead, hl]
  · intro l hl; simp [sxDead, hl]
  · intro l _ h1 h2; simp [sxDead, h1, h2]

/-- if every start line is live (or a skipped `elif` head), nothing is dead -/
theorem ldL_eq_decisions_live (body : List Stmt) (il : Bool) (nh : Nat) (hok : okCL il body = true) (hp : plainL body = true)
    (hd : (linesOfL body).Nodup) (hlive : ∀ l ∈ linesOfL body, l ∈ (sxL body).lines ∨ l ∈ (sxL body).skipped) :
    ldL nh body = decisions (fun _ => false) body := by
  apply ldL_eq_decisions_of (fun _ => false) body il nh hok hp hd
  · intro _ _; rfl
  · intro _ _; rfl
  · intro l hl h1 h2
    rcases hlive l hl with h | h
    · exact absurd h h1
    · exact absurd h h2

end PV.CFGSound
