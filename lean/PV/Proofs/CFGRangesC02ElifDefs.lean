import PV.Proofs.CFGRangesC02
/-!
Range-level completeness (C02) for the heads of `elif` clauses — shared definitions.

* `tlL` / `tlS`: the TAGGED LINES of a statement list: one entry `(s, e, tag)` for every statement that has a header line, in
  source order (pre-order): tag `0` for an `if` statement, tag `2` for an `elif` clause, tag `1` for every other statement with a
  located record (`try` and `else` have no entry);
* `NW t e L`: every record of `L` (newest first) that starts at line `t` ends at line `e` and is the NEWEST record of its block;
* `NoT t L b`: no record of `L` that starts at line `t` is in block `b`;
* `UT t e A`: the only tagged line of `A` that starts at `t` is the `if` statement `(t, e, 0)`.
-/
namespace PV.CFGSound
open PV.CFG

/-- tagged line: start line, end line, tag (`0`: `if`, `1`: other located statement, `2`: `elif` clause) -/
abbrev TLine := Nat × Nat × Nat

set_option linter.unusedSimpArgs false in
mutual
  def tlL : List Stmt → List TLine
    | [] => []
    | x :: xs => tlS x ++ tlL xs
  termination_by l => 2 * sizeL l
  decreasing_by
    all_goals (try simp_wf)
    all_goals (try simp only [Stmt.size, sizeL])
    all_goals omega
  def tlS : Stmt → List TLine
    | .simple s e _ _ | .ret s e _ _ | .brk s e | .cont s e | .raise s e | .def_ s e _ => [(s, e, 1)]
    | .ite s e a b => (s, e, 0) :: tlL a ++ tlL b
    | .elifc s e a b => (s, e, 2) :: tlL a ++ tlL b
    | .loop s e a b => (s, e, 1) :: tlL a ++ tlL b
    | .elsec _ _ a => tlL a
    | .handler s e a | .with_ s e a | .match_ s e a | .case_ s e a | .class_ s e a => (s, e, 1) :: tlL a
    | .try_ _ _ a hs c d => tlL a ++ tlL hs ++ tlL c ++ tlL d
  termination_by x => 2 * x.size + 1
  decreasing_by
    all_goals (try simp_wf)
    all_goals (try simp only [Stmt.size, sizeL])
    all_goals omega
end

theorem tlL_nil : tlL [] = [] := by rw [tlL]
theorem tlL_cons (x : Stmt) (xs : List Stmt) : tlL (x :: xs) = tlS x ++ tlL xs := by rw [tlL]
theorem tlS_simple (s e : Nat) (c : List Bool) (h : Bool) : tlS (.simple s e c h) = [(s, e, 1)] := by rw [tlS]
theorem tlS_ret (s e : Nat) (c : List Bool) (h : Bool) : tlS (.ret s e c h) = [(s, e, 1)] := by rw [tlS]
theorem tlS_brk (s e : Nat) : tlS (.brk s e) = [(s, e, 1)] := by rw [tlS]
theorem tlS_cont (s e : Nat) : tlS (.cont s e) = [(s, e, 1)] := by rw [tlS]
theorem tlS_raise (s e : Nat) : tlS (.raise s e) = [(s, e, 1)] := by rw [tlS]
theorem tlS_def (s e : Nat) (b : List Stmt) : tlS (.def_ s e b) = [(s, e, 1)] := by rw [tlS]
theorem tlS_ite (s e : Nat) (a b : List Stmt) : tlS (.ite s e a b) = (s, e, 0) :: tlL a ++ tlL b := by rw [tlS]
theorem tlS_elifc (s e : Nat) (a b : List Stmt) : tlS (.elifc s e a b) = (s, e, 2) :: tlL a ++ tlL b := by rw [tlS]
theorem tlS_loop (s e : Nat) (a b : List Stmt) : tlS (.loop s e a b) = (s, e, 1) :: tlL a ++ tlL b := by rw [tlS]
theorem tlS_elsec (s e : Nat) (a : List Stmt) : tlS (.elsec s e a) = tlL a := by rw [tlS]
theorem tlS_handler (s e : Nat) (a : List Stmt) : tlS (.handler s e a) = (s, e, 1) :: tlL a := by rw [tlS]
theorem tlS_with (s e : Nat) (a : List Stmt) : tlS (.with_ s e a) = (s, e, 1) :: tlL a := by rw [tlS]
theorem tlS_match (s e : Nat) (a : List Stmt) : tlS (.match_ s e a) = (s, e, 1) :: tlL a := by rw [tlS]
theorem tlS_case (s e : Nat) (a : List Stmt) : tlS (.case_ s e a) = (s, e, 1) :: tlL a := by rw [tlS]
theorem tlS_class (s e : Nat) (a : List Stmt) : tlS (.class_ s e a) = (s, e, 1) :: tlL a := by rw [tlS]
theorem tlS_try (s e : Nat) (a hs c d : List Stmt) : tlS (.try_ s e a hs c d) = tlL a ++ tlL hs ++ tlL c ++ tlL d := by rw [tlS]

theorem tlL_single (x : Stmt) : tlL [x] = tlS x := by rw [tlL_cons, tlL_nil, List.append_nil]

/-- the only tagged line of `A` that starts at line `t` is the `if` statement `(t, e, 0)` -/
def UT (t e : Nat) (A : List TLine) : Prop := ∀ x ∈ A, x.1 = t → x = (t, e, 0)

section ut
variable {t e : Nat} {A B : List TLine}
theorem UT.left (h : UT t e (A ++ B)) : UT t e A := fun x hx => h x (List.mem_append.mpr (.inl hx))
theorem UT.right (h : UT t e (A ++ B)) : UT t e B := fun x hx => h x (List.mem_append.mpr (.inr hx))
theorem UT.tail {y : TLine} (h : UT t e (y :: A)) : UT t e A := fun x hx => h x (List.mem_cons_of_mem _ hx)
/-- a located statement that is not an `if` does not start at `t` -/
theorem UT.head1 {s q : Nat} (h : UT t e ((s, q, 1) :: A)) : s ≠ t := by
  intro hs
  have := h (s, q, 1) (List.mem_cons_self ..) hs
  simp only [Prod.mk.injEq] at this
  omega
/-- an `if` statement that starts at `t` ends at `e` -/
theorem UT.head0 {s q : Nat} (h : UT t e ((s, q, 0) :: A)) : s = t → q = e := by
  intro hs
  have := h (s, q, 0) (List.mem_cons_self ..) hs
  simp only [Prod.mk.injEq] at this
  exact this.2.1
end ut

/-! ### the record-list invariant -/

/-- every record that starts at line `t` ends at line `e` and is the newest record of its block (`L`: newest first) -/
def NW (t e : Nat) : List SRec → Prop
  | [] => True
  | r :: L => NW t e L ∧ (r.s = t → r.e = e) ∧ ∀ x ∈ L, x.s = t → x.blk ≠ r.blk

/-- no record that starts at line `t` is in block `b` -/
def NoT (t : Nat) (L : List SRec) (b : Nat) : Prop := ∀ r ∈ L, r.s = t → r.blk ≠ b

section nw
variable {t e : Nat} {L : List SRec} {b p q x : Nat} {ty : Ty}

theorem NoT.of_norec (h : NoRec L b) : NoT t L b := fun r hr _ => h r hr

theorem NoT.of_wf {st : St} (w : WF st) (h : st.next ≤ b) : NoT t st.stmts b := NoT.of_norec (NoRec.of_wf w h)

theorem NoT.cons (h : NoT t L x) (hb : p = t → b ≠ x) : NoT t ({ blk := b, s := p, e := q, ty := ty } :: L) x := by
  intro r hr hs
  rcases List.mem_cons.mp hr with rfl | hr
  · exact hb hs
  · exact h r hr hs

theorem NoT.inv {c n : Nat} {st st' : St} (i : Inv c n st st') (hm : x ≠ c) (hlt : x < n) (h : NoT t st.stmts x) : NoT t st'.stmts x := by
  obtain ⟨ns, hs, hns⟩ := i.stmts
  intro r hr hrs
  rw [hs] at hr
  rcases List.mem_append.mp hr with hr | hr
  · rcases hns r hr with h1 | h1 <;> omega
  · exact h r hr hrs

/-- a record is added to a block that holds no record starting at `t` -/
theorem NW.add (h : NW t e L) (hb : NoT t L b) (hq : p = t → q = e) : NW t e ({ blk := b, s := p, e := q, ty := ty } :: L) :=
  ⟨h, hq, fun x hx hs => hb x hx hs⟩

/-- the reading of `NW` used at the end: no newer record is in the block of a record that starts at `t` -/
theorem NW.split : ∀ {L : List SRec}, NW t e L → ∀ {a c : List SRec} {r : SRec}, L = a ++ r :: c → r.s = t → r.e = e ∧ NoRec a r.blk
  | [], _, a, c, r, hL, _ => by cases a <;> cases hL
  | y :: L, h, [], c, r, hL, hs => by
    cases hL
    exact ⟨h.2.1 hs, fun _ hx => by cases hx⟩
  | y :: L, h, z :: a, c, r, hL, hs => by
    simp only [List.cons_append, List.cons.injEq] at hL
    obtain ⟨rfl, hL⟩ := hL
    obtain ⟨h1, h2⟩ := NW.split h.1 hL hs
    refine ⟨h1, ?_⟩
    intro x hx
    rcases List.mem_cons.mp hx with rfl | hx
    · have := h.2.2 r (by rw [hL]; exact List.mem_append.mpr (.inr (List.mem_cons_self ..))) hs
      exact fun hh => this hh.symm
    · exact h2 x hx
end nw

end PV.CFGSound
