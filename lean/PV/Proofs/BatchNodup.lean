import PV.Proofs.CloneBatchLemmas
namespace PV.Clone

theorem inner_nodup (b e i : Nat) (hi : b ≤ i) :
    (((List.range' (i + 1) (e - (i + 1))).map fun j => (i, j)) ++ ((List.range b).map fun j => (i, j))).Nodup := by
  rw [List.nodup_append]
  refine ⟨?_, ?_, ?_⟩
  · exact (List.nodup_range' (step := 1) (by decide)).map (fun a b h => by simpa using h)
  · exact List.nodup_range.map (fun a b h => by simpa using h)
  · intro x hx y hy hxy
    obtain ⟨j, hj, rfl⟩ := List.mem_map.mp hx
    obtain ⟨j', hj', rfl⟩ := List.mem_map.mp hy
    have h1 := List.mem_range'.mp hj
    have h2 := List.mem_range.mp hj'
    obtain ⟨k, hk, rfl⟩ := h1
    simp only [Prod.mk.injEq, true_and] at hxy
    omega

theorem batch_nodup (b e : Nat) :
    ((List.range' b (e - b)).flatMap fun i =>
      ((List.range' (i + 1) (e - (i + 1))).map fun j => (i, j)) ++ ((List.range b).map fun j => (i, j))).Nodup := by
  rw [List.nodup_flatMap]
  refine ⟨?_, ?_⟩
  · intro i hi
    obtain ⟨k, _, rfl⟩ := List.mem_range'.mp hi
    exact inner_nodup b e _ (by omega)
  · apply List.Pairwise.imp _ (List.nodup_range' (step := 1) (by decide))
    intro i i' hne
    show List.Disjoint _ _
    intro x hx hx'
    have f1 : x.1 = i := by
      rcases List.mem_append.mp hx with h | h <;> (obtain ⟨j, _, rfl⟩ := List.mem_map.mp h; rfl)
    have f2 : x.1 = i' := by
      rcases List.mem_append.mp hx' with h | h <;> (obtain ⟨j, _, rfl⟩ := List.mem_map.mp h; rfl)
    exact hne (f1.symm.trans f2)

theorem batchPairs_nodup (n bs : Nat) (hbs : 0 < bs) : (batchPairs n bs).Nodup := by
  unfold batchPairs
  rw [List.nodup_flatMap]
  refine ⟨fun k _ => batch_nodup _ _, ?_⟩
  apply List.Pairwise.imp_of_mem _ (List.pairwise_lt_range (n := (n + bs - 1) / bs))
  intro k k' _ _ hlt
  show List.Disjoint _ _
  intro x hx hx'
  have first : ∀ (k : Nat), x ∈ ((List.range' (k * bs) (min (k * bs + bs) n - k * bs)).flatMap fun i =>
      ((List.range' (i + 1) (min (k * bs + bs) n - (i + 1))).map fun j => (i, j)) ++ ((List.range (k * bs)).map fun j => (i, j))) →
      k * bs ≤ x.1 ∧ x.1 < k * bs + bs := by
    intro k hx
    obtain ⟨i, hi, hxi⟩ := List.mem_flatMap.mp hx
    obtain ⟨q, hq, rfl⟩ := List.mem_range'.mp hi
    have : x.1 = k * bs + 1 * q := by
      rcases List.mem_append.mp hxi with h | h <;> (obtain ⟨j, _, rfl⟩ := List.mem_map.mp h; rfl)
    omega
  have h1 := first k hx
  have h2 := first k' hx'
  have := batch_lt (bs := bs) hlt
  omega

end PV.Clone
