import PV.Proofs.EditScript
import PV.Proofs.ZSCorrect
/-!
The Zhang–Shasha mirror `PV.ZS.zsDist` (proved equal to `PV.TED.dist` in `ZSCorrect`) computes the
minimum total cost of an edit script, under a metric cost model.
-/
namespace PV.EditScript
open PV.TED PV.ZS

/-- the value computed by the Zhang–Shasha mirror is the cost of some script, for EVERY cost model -/
theorem zsDist_achieved (c : Cost) (t₁ t₂ : Tree) : Script c [t₁] [t₂] (zsDist c t₁ t₂) := by
  rw [PV.ZS.zs_correct]; exact script_achieves c [t₁] [t₂]

/-- **the Zhang–Shasha mirror computes the minimum total cost of an edit script** (metric cost model) -/
theorem zsDist_is_min_script (c : Cost) (hm : Metric c) (t₁ t₂ : Tree) :
    (∃ k, Script c [t₁] [t₂] k ∧ k = zsDist c t₁ t₂) ∧
    (∀ k, Script c [t₁] [t₂] k → zsDist c t₁ t₂ ≤ k) := by
  rw [PV.ZS.zs_correct]; exact dist_is_min_script c hm t₁ t₂

end PV.EditScript
