import PV.Proofs.CFGSound4
/-!
Stage S4, top level: the fragment `okL4` (= `okL3` without the `inFin` restriction) is the fragment `S4.okL3` of the copied
development (whose `f` flag is inert), it contains `okL3 il f`, and the mirror is sound on it.
-/
namespace PV.CFGSound
open PV.CFG PV.Py

theorem okL4_nil (il : Bool) : okL4 il [] = true := by rw [okL4]
theorem okL4_cons (il : Bool) (x : Stmt) (xs : List Stmt) : okL4 il (x :: xs) = (okS4 il x && okL4 il xs) := by rw [okL4]
theorem okS4_brk (il : Bool) (s e : Nat) : okS4 il (.brk s e) = il := by rw [okS4]
theorem okS4_cont (il : Bool) (s e : Nat) : okS4 il (.cont s e) = il := by rw [okS4]
theorem okS4_ite (il : Bool) (s e : Nat) (a b : List Stmt) : okS4 il (.ite s e a b) = (okL4 il a && okL4 il b) := by rw [okS4]
theorem okS4_elifc (il : Bool) (s e : Nat) (a b : List Stmt) : okS4 il (.elifc s e a b) = (okL4 il a && okL4 il b) := by rw [okS4]
theorem okS4_elsec (il : Bool) (s e : Nat) (a : List Stmt) : okS4 il (.elsec s e a) = okL4 il a := by rw [okS4]
theorem okS4_loop (il : Bool) (s e : Nat) (a b : List Stmt) : okS4 il (.loop s e a b) = (okL4 true a && okL4 il b) := by rw [okS4]
theorem okS4_with (il : Bool) (s e : Nat) (a : List Stmt) : okS4 il (.with_ s e a) = okL4 il a := by rw [okS4]
theorem okS4_match (il : Bool) (s e : Nat) (cs : List Stmt) : okS4 il (.match_ s e cs) = okCases4 il cs := by rw [okS4]
theorem okS4_class (il : Bool) (s e : Nat) (a : List Stmt) : okS4 il (.class_ s e a) = okL4 false a := by rw [okS4]
theorem okS4_try (il : Bool) (s e : Nat) (a hs c d : List Stmt) :
    okS4 il (.try_ s e a hs c d) = (okL4 il a && okHs4 il hs && okL4 il c && (d.isEmpty || okL4 il d)) := by rw [okS4]
theorem okS4_handler (il : Bool) (s e : Nat) (a : List Stmt) : okS4 il (.handler s e a) = false := by rw [okS4]
theorem okS4_case (il : Bool) (s e : Nat) (a : List Stmt) : okS4 il (.case_ s e a) = false := by rw [okS4]
theorem okCases4_nil (il : Bool) : okCases4 il [] = true := by rw [okCases4]
theorem okCases4_case (il : Bool) (s e : Nat) (a cs : List Stmt) :
    okCases4 il (.case_ s e a :: cs) = (okL4 il a && okCases4 il cs) := by rw [okCases4]
theorem okCases4_cons {il : Bool} {x : Stmt} {cs : List Stmt} (h : okCases4 il (x :: cs) = true) :
    ∃ s e a, x = .case_ s e a ∧ okL4 il a = true ∧ okCases4 il cs = true := by
  cases x
  case case_ s e a =>
    rw [okCases4_case, Bool.and_eq_true] at h
    exact ⟨s, e, a, rfl, h.1, h.2⟩
  all_goals (rw [okCases4] at h <;> first | cases h | (intro _ _ _ h; cases h))
theorem okHs4_nil (il : Bool) : okHs4 il [] = true := by rw [okHs4]
theorem okHs4_handler (il : Bool) (s e : Nat) (a hs : List Stmt) :
    okHs4 il (.handler s e a :: hs) = (okL4 il a && okHs4 il hs) := by rw [okHs4]
theorem okHs4_cons {il : Bool} {x : Stmt} {hs : List Stmt} (h : okHs4 il (x :: hs) = true) :
    ∃ s e a, x = .handler s e a ∧ okL4 il a = true ∧ okHs4 il hs = true := by
  cases x
  case handler s e a =>
    rw [okHs4_handler, Bool.and_eq_true] at h
    exact ⟨s, e, a, rfl, h.1, h.2⟩
  all_goals (rw [okHs4] at h <;> first | cases h | (intro _ _ _ h; cases h))

/-- `okL4` is the fragment of the stage-S4 development -/
theorem okL4_le_S4 : ∀ N, (∀ x : Stmt, x.size ≤ N → ∀ il f, okS4 il x = true → S4.okS3 il f x = true) ∧
    (∀ ss, sizeL ss ≤ N → ∀ il f, okL4 il ss = true → S4.okL3 il f ss = true) ∧
    (∀ cs, sizeL cs ≤ N → ∀ il f, okCases4 il cs = true → S4.okCases3 il f cs = true) ∧
    (∀ hs, sizeL hs ≤ N → ∀ il f, okHs4 il hs = true → S4.okHs3 il f hs = true) := by
  intro N
  induction N with
  | zero =>
    refine ⟨fun x hx => by have := Stmt.size_pos x; omega, fun ss hs il f _ => ?_, fun cs hs il f _ => ?_, fun cs hs il f _ => ?_⟩
    · rcases ss with _ | ⟨x, xs⟩
      · exact S4.okL3_nil ..
      · simp only [sizeL] at hs; omega
    · rcases cs with _ | ⟨x, xs⟩
      · exact S4.okCases3_nil ..
      · simp only [sizeL] at hs; omega
    · rcases cs with _ | ⟨x, xs⟩
      · exact S4.okHs3_nil ..
      · simp only [sizeL] at hs; omega
  | succ N ih =>
    obtain ⟨ihS, ihL, ihC, ihH⟩ := ih
    have hC : ∀ cs, sizeL cs ≤ N + 1 → ∀ il f, okCases4 il cs = true → S4.okCases3 il f cs = true := by
      intro cs hs il f hok
      rcases cs with _ | ⟨x, xs⟩
      · exact S4.okCases3_nil ..
      · obtain ⟨s, e, a, rfl, h1, h2⟩ := okCases4_cons hok
        simp only [sizeL, Stmt.size] at hs
        rw [S4.okCases3_case, ihL a (by omega) il f h1, ihC xs (by omega) il f h2]; rfl
    have hH : ∀ cs, sizeL cs ≤ N + 1 → ∀ il f, okHs4 il cs = true → S4.okHs3 il f cs = true := by
      intro cs hs il f hok
      rcases cs with _ | ⟨x, xs⟩
      · exact S4.okHs3_nil ..
      · obtain ⟨s, e, a, rfl, h1, h2⟩ := okHs4_cons hok
        simp only [sizeL, Stmt.size] at hs
        rw [S4.okHs3_handler, ihL a (by omega) il f h1, ihH xs (by omega) il f h2]; rfl
    refine ⟨fun x hx il f hok => ?_, fun ss hs il f hok => ?_, hC, hH⟩
    · cases x with
      | simple s e c h => rw [S4.okS3]
      | def_ s e b => rw [S4.okS3]
      | ret s e c h => rw [S4.okS3]
      | raise s e => rw [S4.okS3]
      | brk s e => rw [okS4_brk] at hok; rw [S4.okS3_brk]; exact hok
      | cont s e => rw [okS4_cont] at hok; rw [S4.okS3_cont]; exact hok
      | ite s e a b =>
        simp only [Stmt.size] at hx
        rw [okS4_ite, Bool.and_eq_true] at hok
        rw [S4.okS3_ite, ihL a (by omega) il f hok.1, ihL b (by omega) il f hok.2]; rfl
      | elifc s e a b =>
        simp only [Stmt.size] at hx
        rw [okS4_elifc, Bool.and_eq_true] at hok
        rw [S4.okS3_elifc, ihL a (by omega) il f hok.1, ihL b (by omega) il f hok.2]; rfl
      | elsec s e a =>
        simp only [Stmt.size] at hx
        rw [okS4_elsec] at hok
        rw [S4.okS3_elsec]; exact ihL a (by omega) il f hok
      | loop s e a b =>
        simp only [Stmt.size] at hx
        rw [okS4_loop, Bool.and_eq_true] at hok
        rw [S4.okS3_loop, ihL a (by omega) true f hok.1, ihL b (by omega) il f hok.2]; rfl
      | try_ s e a b c d =>
        simp only [Stmt.size] at hx
        rw [okS4_try] at hok
        simp only [Bool.and_eq_true, Bool.or_eq_true] at hok
        obtain ⟨⟨⟨h1, h2⟩, h3⟩, h4⟩ := hok
        rw [S4.okS3_try, ihL a (by omega) il f h1, ihH b (by omega) il f h2, ihL c (by omega) il f h3]
        rcases h4 with h4 | h4
        · rw [h4]; rfl
        · rw [ihL d (by omega) il true h4]; simp
      | handler s e a => rw [okS4_handler] at hok; cases hok
      | with_ s e a =>
        simp only [Stmt.size] at hx
        rw [okS4_with] at hok
        rw [S4.okS3_with]; exact ihL a (by omega) il f hok
      | match_ s e cs =>
        simp only [Stmt.size] at hx
        rw [okS4_match] at hok
        rw [S4.okS3_match]; exact ihC cs (by omega) il f hok
      | case_ s e a => rw [okS4_case] at hok; cases hok
      | class_ s e a =>
        simp only [Stmt.size] at hx
        rw [okS4_class] at hok
        rw [S4.okS3_class]; exact ihL a (by omega) false f hok
    · rcases ss with _ | ⟨x, xs⟩
      · exact S4.okL3_nil ..
      · simp only [sizeL] at hs
        rw [okL4_cons, Bool.and_eq_true] at hok
        rw [S4.okL3_cons, ihS x (by omega) il f hok.1, ihL xs (by omega) il f hok.2]; rfl

theorem okL3_le_okL4 : ∀ N, (∀ x : Stmt, x.size ≤ N → ∀ il f, okS3 il f x = true → okS4 il x = true) ∧
    (∀ ss, sizeL ss ≤ N → ∀ il f, okL3 il f ss = true → okL4 il ss = true) ∧
    (∀ cs, sizeL cs ≤ N → ∀ il f, okCases3 il f cs = true → okCases4 il cs = true) ∧
    (∀ hs, sizeL hs ≤ N → ∀ il f, okHs3 il f hs = true → okHs4 il hs = true) := by
  intro N
  induction N with
  | zero =>
    refine ⟨fun x hx => by have := Stmt.size_pos x; omega, fun ss hs il f _ => ?_, fun cs hs il f _ => ?_, fun cs hs il f _ => ?_⟩
    · rcases ss with _ | ⟨x, xs⟩
      · exact okL4_nil ..
      · simp only [sizeL] at hs; omega
    · rcases cs with _ | ⟨x, xs⟩
      · exact okCases4_nil ..
      · simp only [sizeL] at hs; omega
    · rcases cs with _ | ⟨x, xs⟩
      · exact okHs4_nil ..
      · simp only [sizeL] at hs; omega
  | succ N ih =>
    obtain ⟨ihS, ihL, ihC, ihH⟩ := ih
    have hC : ∀ cs, sizeL cs ≤ N + 1 → ∀ il f, okCases3 il f cs = true → okCases4 il cs = true := by
      intro cs hs il f hok
      rcases cs with _ | ⟨x, xs⟩
      · exact okCases4_nil ..
      · obtain ⟨s, e, a, rfl, h1, h2⟩ := okCases3_cons hok
        simp only [sizeL, Stmt.size] at hs
        rw [okCases4_case, ihL a (by omega) il f h1, ihC xs (by omega) il f h2]; rfl
    have hH : ∀ cs, sizeL cs ≤ N + 1 → ∀ il f, okHs3 il f cs = true → okHs4 il cs = true := by
      intro cs hs il f hok
      rcases cs with _ | ⟨x, xs⟩
      · exact okHs4_nil ..
      · obtain ⟨s, e, a, rfl, h1, h2⟩ := okHs3_cons hok
        simp only [sizeL, Stmt.size] at hs
        rw [okHs4_handler, ihL a (by omega) il f h1, ihH xs (by omega) il f h2]; rfl
    refine ⟨fun x hx il f hok => ?_, fun ss hs il f hok => ?_, hC, hH⟩
    · cases x with
      | simple s e c h => rw [okS4]
      | def_ s e b => rw [okS4]
      | ret s e c h => rw [okS4]
      | raise s e => rw [okS4]
      | brk s e => rw [okS3_brk] at hok; rw [okS4_brk]; exact hok
      | cont s e => rw [okS3_cont] at hok; rw [okS4_cont]; exact hok
      | ite s e a b =>
        simp only [Stmt.size] at hx
        rw [okS3_ite, Bool.and_eq_true] at hok
        rw [okS4_ite, ihL a (by omega) il f hok.1, ihL b (by omega) il f hok.2]; rfl
      | elifc s e a b =>
        simp only [Stmt.size] at hx
        rw [okS3_elifc, Bool.and_eq_true] at hok
        rw [okS4_elifc, ihL a (by omega) il f hok.1, ihL b (by omega) il f hok.2]; rfl
      | elsec s e a =>
        simp only [Stmt.size] at hx
        rw [okS3_elsec] at hok
        rw [okS4_elsec]; exact ihL a (by omega) il f hok
      | loop s e a b =>
        simp only [Stmt.size] at hx
        rw [okS3_loop, Bool.and_eq_true] at hok
        rw [okS4_loop, ihL a (by omega) true f hok.1, ihL b (by omega) il f hok.2]; rfl
      | try_ s e a b c d =>
        simp only [Stmt.size] at hx
        rw [okS3_try] at hok
        simp only [Bool.and_eq_true, Bool.or_eq_true] at hok
        obtain ⟨⟨⟨h1, h2⟩, h3⟩, h4⟩ := hok
        rw [okS4_try, ihL a (by omega) il f h1, ihH b (by omega) il f h2, ihL c (by omega) il f h3]
        rcases h4 with h4 | h4
        · rw [h4]; rfl
        · rw [ihL d (by omega) il true h4.2]; simp
      | handler s e a => rw [okS3_handler] at hok; cases hok
      | with_ s e a =>
        simp only [Stmt.size] at hx
        rw [okS3_with] at hok
        rw [okS4_with]; exact ihL a (by omega) il f hok
      | match_ s e cs =>
        simp only [Stmt.size] at hx
        rw [okS3_match] at hok
        rw [okS4_match]; exact ihC cs (by omega) il f hok
      | case_ s e a => rw [okS3_case] at hok; cases hok
      | class_ s e a =>
        simp only [Stmt.size] at hx
        rw [okS3_class] at hok
        rw [okS4_class]; exact ihL a (by omega) false f hok
    · rcases ss with _ | ⟨x, xs⟩
      · exact okL4_nil ..
      · simp only [sizeL] at hs
        rw [okL3_cons, Bool.and_eq_true] at hok
        rw [okL4_cons, ihS x (by omega) il f hok.1, ihL xs (by omega) il f hok.2]; rfl

theorem S4_of_okL4 (ss : List Stmt) (il f : Bool) (h : okL4 il ss = true) : S4.okL3 il f ss = true :=
  (okL4_le_S4 (sizeL ss)).2.1 ss (Nat.le_refl _) il f h

/-- the new fragment contains the old one -/
theorem okL4_of_okL3 (ss : List Stmt) (il f : Bool) (h : okL3 il f ss = true) : okL4 il ss = true :=
  (okL3_le_okL4 (sizeL ss)).2.1 ss (Nat.le_refl _) il f h

/-- **Soundness of the mirror for one definition, `try … finally` anywhere** (stage S4). -/
theorem build_sound4 (k : Kind) (s e : Nat) (body : List Stmt) (hok : okL4 false body = true) :
    ∀ l ∈ (sxL body).lines, ∃ r ∈ (build k s e body).stmts, r.s = l ∧ r.blk ∈ reachable (build k s e body) :=
  S4.build_sound3 k s e body (S4_of_okL4 body false false hok)

theorem mirror_sound4 (k : Kind) (s e : Nat) (body : List Stmt) (hok : okL4 false body = true) {o : Out} {tr : List Nat}
    (ex : Exec body o tr) :
    ∀ l ∈ tr, l ∈ (sxL body).skipped ∨ ∃ r ∈ (build k s e body).stmts, r.s = l ∧ r.blk ∈ reachable (build k s e body) :=
  S4.mirror_sound3 k s e body (S4_of_okL4 body false false hok) ex

theorem live_le_sx4 (ss : List Stmt) (il : Bool) (hok : okL4 il ss = true) :
    (∀ l ∈ (live ss).lines, l ∈ (sxL ss).lines ∨ l ∈ (sxL ss).skipped) :=
  (S4.live_le_sx3 ss il false (S4_of_okL4 ss il false hok)).1

end PV.CFGSound

#print axioms PV.CFGSound.build_sound4
#print axioms PV.CFGSound.mirror_sound4
#print axioms PV.CFGSound.okL4_of_okL3
