import PV.Proofs.CFGRangesC02ElifInd
import PV.Proofs.CFGRangesC02ElifSorted
import PV.Proofs.CFGRangesC02ElifDead
/-!
Range-level COMPLETENESS of the dead-code detector of the CFG mirror (property C02, reported RANGES) WITHOUT the exemption for the
heads of `elif` clauses.

* `build_nw`: the builder invariant for a whole definition — if the only statement that starts at line `t ≠ 0` is an `if`
  statement `t … q` (`UT t q (tlL body)`), every record of the final record list that starts at `t` ends at `q` and is the NEWEST
  record of its block (`CFGRangesC02ElifInd`, no fragment condition);
* `build_if_test_newest`: the same for a well-formed definition (`WFDef`: one statement per line, so `UT` holds for every `if`
  statement of the body);
* `elif_head_in_dead_if`: the static facts — a structurally dead `elif` head `l` lies inside the span `s₀ … e₀` of an `if` statement
  of the body whose own start line `s₀` is structurally dead and is not an `elif` head (`CFGRangesC02ElifDead`, `…Sorted`);
* `mirror_ranges_complete_all`: every structurally dead line lies inside a reported range.  For an `elif` head `l`: `build_complete`
  gives a record `r` with `r.s = s₀` in an unreachable block; by `build_if_test_newest` `r.e = e₀` and `r` is the newest record of
  its block; `ranges_cover_span` covers `s₀ … e₀ ∋ l`.
-/
namespace PV.CFGSound
open PV.CFG PV.SD

/-- **builder invariant for a whole definition**: the records that start at the line of an `if` statement (`UT`: no other statement
starts there) carry its span and are the newest records of their blocks -/
theorem build_nw (k : Kind) (s e : Nat) (body : List Stmt) (t q : Nat) (ht : t ≠ 0) (hu : UT t q (tlL body)) (hk : k = .cls → s ≠ t) :
    NW t q (build k s e body).stmts := by
  rw [build_eq, finishB_stmts]
  refine (procList_jp t q body (preB k s e) ht (preB_inv k s e).wf hu ?_).nw
  cases k
  · exact ⟨trivial, fun _ h => by cases h⟩
  · exact ⟨⟨trivial, fun hh => absurd hh (hk rfl), fun _ h => by cases h⟩, NoT.cons (fun _ h => by cases h) (fun hh => absurd hh (hk rfl))⟩
  · exact ⟨trivial, fun _ h => by cases h⟩

/-- the tagged lines of the body of a well-formed definition: one statement per line, all after the header line of a class -/
theorem wfdef_tl {k : Kind} {s e : Nat} {body : List Stmt} (hwf : WFDef k s e body) :
    (∀ x ∈ tlL body, ∀ y ∈ tlL body, x.1 = y.1 → x = y) ∧ (∀ x ∈ tlL body, 1 ≤ x.1 ∧ x.1 ≤ x.2.1) ∧ (k = .cls → ∀ x ∈ tlL body, s < x.1) := by
  refine ⟨tl_unique body 1 hwf.wfl, fun x hx => ?_, ?_⟩
  · have := tl_bounds body 1 hwf.wfl x hx
    exact ⟨this.1, this.2.1⟩
  · intro hk x hx
    subst hk
    have := tl_bounds body (s + 1) hwf.2.2 x hx
    omega

/-- **the test record of an `if` statement is the newest record of its block** (well-formed definition): every record of the final
record list that starts at the line `s₀` of an `if` statement `s₀ … e₀` of the body ends at `e₀`, and no NEWER record (`a`) is in its
block -/
theorem build_if_test_newest (k : Kind) (s e : Nat) (body : List Stmt) (hwf : WFDef k s e body) {s₀ e₀ : Nat}
    (hif : (s₀, e₀, 0) ∈ tlL body) {a c : List SRec} {r : SRec} (hL : (build k s e body).stmts = a ++ r :: c) (hr : r.s = s₀) :
    r.e = e₀ ∧ NoRec a r.blk := by
  obtain ⟨hun, hpos, hcls⟩ := wfdef_tl hwf
  have hu : UT s₀ e₀ (tlL body) := fun x hx hxs => hun x hx _ hif hxs
  have h1 := (hpos _ hif).1
  exact (build_nw k s e body s₀ e₀ (by simp only at h1; omega) hu
    (fun hk hh => by have := hcls hk _ hif; simp only at this; omega)).split hL hr

/-- **static part**: a structurally dead `elif` head lies inside the span of an `if` statement of the body whose start line is
structurally dead and is not the head of an `elif` clause -/
theorem elif_head_in_dead_if (body : List Stmt) (p : Nat) (hw : wfL p body = true) (hno : noSEL body = true) (l : Nat)
    (hl : l ∈ structDead body) (hel : l ∈ elifL body) :
    ∃ s₀ e₀, (s₀, e₀, 0) ∈ tlL body ∧ s₀ ∈ structDead body ∧ s₀ ∉ elifL body ∧ s₀ ≤ l ∧ l ≤ e₀ := by
  obtain ⟨el, hel2⟩ := elifL_tl body l hel
  have hne : ∀ e' tag, (l, e', tag) ∈ tlL body → tag = 2 := by
    intro e' tag hm
    have := tl_unique body p hw _ hm _ hel2 rfl
    simp only [Prod.mk.injEq] at this
    exact this.2.2
  obtain ⟨s0, e0, hm0, hd0, h1, h2⟩ := structDead_elif_if body p hw hno l hl hne
  refine ⟨s0, e0, hm0, hd0, ?_, h1, h2⟩
  intro hh
  obtain ⟨e', hm'⟩ := elifL_tl body s0 hh
  have := tl_unique body p hw _ hm0 _ hm' rfl
  simp only [Prod.mk.injEq] at this
  omega

/-- **C02 for the reported ranges, without exemption**: every structurally dead line lies inside a reported range -/
theorem mirror_ranges_complete_all (k : Kind) (s e : Nat) (body : List Stmt) (hok : okLC false body = true) (hno : noSEL body = true)
    (hwf : WFDef k s e body) :
    ∀ l ∈ structDead body, ∃ f ∈ findings (build k s e body), f.s ≤ l ∧ l ≤ f.e := by
  intro l hl
  rcases mirror_ranges_complete k s e body hok hno hwf l hl with hel | h
  · obtain ⟨s0, e0, hm0, hd0, hs0, h1, h2⟩ := elif_head_in_dead_if body 1 hwf.wfl hno l hl hel
    rcases build_complete k s e body hok s0 hd0 with hh | ⟨r, hr, hrs, hrb⟩
    · exact absurd hh hs0
    · obtain ⟨a, c, hL⟩ := List.append_of_mem hr
      obtain ⟨hre, hnr⟩ := build_if_test_newest k s e body hwf hm0 hL hrs
      exact ranges_cover_span k s e body hok hno hwf hL hnr hrb l (by omega) (by omega)
  · exact h

end PV.CFGSound

#print axioms PV.CFGSound.build_nw
#print axioms PV.CFGSound.build_if_test_newest
#print axioms PV.CFGSound.elif_head_in_dead_if
#print axioms PV.CFGSound.mirror_ranges_complete_all
