import PV.Proofs.CFGComplexityDefs
/-!
Property C03 for the CFG mirror — the leaves: simple statements (with an optional comprehension), nested `def`,
`return`, `break`, `continue`, `raise`.
-/
namespace PV.CFGSound
open PV.CFG PV.Dec

section leaf
variable {E : List Edge}

/-! ### comprehension -/
theorem compClauses_nil : compClauses [] = 0 := rfl
theorem compClauses_false (rest : List Bool) : compClauses (false :: rest) = compClauses rest + 1 := by
  simp [compClauses]; omega
theorem compClauses_true (rest : List Bool) : compClauses (true :: rest) = compClauses rest + 2 := by
  simp [compClauses]; omega

/-- one clause without a filter -/
def goN (st : St) (s e cp : Nat) : St :=
  ((bump (((bump (((bump st).edge cp st.next .normal).add st.next s e .other)).edge st.next (st.next + 1) .condT).add
    (st.next + 1) s e .other)).edge (st.next + 1) (st.next + 2) .normal).edge (st.next + 2) st.next .loop

/-- one clause with a filter -/
def goF (st : St) (s e cp : Nat) : St :=
  ((bump ((((bump ((bump (((bump st).edge cp st.next .normal).add st.next s e .other)).edge st.next (st.next + 1) .condT)).edge
    (st.next + 1) (st.next + 2) .normal).add (st.next + 2) s e .other))).edge (st.next + 2) (st.next + 3) .condT |>.edge (st.next + 2) st.next .condF
      |>.add (st.next + 3) s e .other).edge (st.next + 3) st.next .loop

theorem go_cons' (s e : Nat) (b : Bool) (rest : List Bool) (st : St) (cp : Nat) :
    procComp.go s e (b :: rest) st cp = procComp.go s e rest (if b then goF st s e cp else goN st s e cp) st.next := by
  rw [go_cons]; cases b <;> rfl

theorem goN_edges (st : St) (s e cp : Nat) : (goN st s e cp).edges =
    (st.next + 2, st.next, .loop) :: (st.next + 1, st.next + 2, .normal) :: (st.next, st.next + 1, .condT) :: (cp, st.next, .normal) :: st.edges := rfl
theorem goN_next (st : St) (s e cp : Nat) : (goN st s e cp).next = st.next + 3 := rfl
theorem goF_edges (st : St) (s e cp : Nat) : (goF st s e cp).edges =
    (st.next + 3, st.next, .loop) :: (st.next + 2, st.next, .condF) :: (st.next + 2, st.next + 3, .condT) :: (st.next + 1, st.next + 2, .normal) ::
      (st.next, st.next + 1, .condT) :: (cp, st.next, .normal) :: st.edges := rfl
theorem goF_next (st : St) (s e cp : Nat) : (goF st s e cp).next = st.next + 4 := rfl

theorem go_sub (s e : Nat) : ∀ (cs : List Bool) (st : St) (cp : Nat), ∀ x ∈ st.edges, x ∈ (procComp.go s e cs st cp).1.edges
  | [], st, cp, x, h => by rw [go_nil]; exact h
  | b :: rest, st, cp, x, h => by
    rw [go_cons']
    apply go_sub s e rest
    cases b
    · simp only [Bool.false_eq_true, ↓reduceIte, goN_edges]; simp [h]
    · simp only [↓reduceIte, goF_edges]; simp [h]

theorem goN_cnt {st : St} {s e cp : Nat} (hsrc : ∀ x ∈ st.edges, x.1 < st.next) (hcp : cp < st.next) (hr : R E cp)
    (hmem : ∀ x ∈ (goN st s e cp).edges, x ∈ E) :
    cnt (rE E) (goN st s e cp).edges = cnt (rE E) st.edges + 1 ∧ R E st.next := by
  have r1 : R E st.next := R.step hr (hmem (cp, st.next, .normal) (by rw [goN_edges]; simp))
  refine ⟨?_, r1⟩
  rw [goN_edges, cnt_cons_plain (by rfl) (by intro h; cases h), cnt_cons_plain (by rfl) (by intro h; cases h),
    cnt_cons_cond_new (rE_true.mpr r1) (by rfl) ?_, cnt_cons_plain (by rfl) (by intro h; cases h)]
  intro x hx
  rcases List.mem_cons.mp hx with rfl | hx
  · simp only; omega
  · have := hsrc x hx; omega

theorem goF_cnt {st : St} {s e cp : Nat} (hsrc : ∀ x ∈ st.edges, x.1 < st.next) (hcp : cp < st.next) (hr : R E cp)
    (hmem : ∀ x ∈ (goF st s e cp).edges, x ∈ E) :
    cnt (rE E) (goF st s e cp).edges = cnt (rE E) st.edges + 2 ∧ R E st.next := by
  have r1 : R E st.next := R.step hr (hmem (cp, st.next, .normal) (by rw [goF_edges]; simp))
  have r2 : R E (st.next + 1) := R.step r1 (hmem (st.next, st.next + 1, .condT) (by rw [goF_edges]; simp))
  have r3 : R E (st.next + 2) := R.step r2 (hmem (st.next + 1, st.next + 2, .normal) (by rw [goF_edges]; simp))
  refine ⟨?_, r1⟩
  rw [goF_edges, cnt_cons_plain (by rfl) (by intro h; cases h),
    cnt_cons_cond_old (b' := st.next + 3) (t' := .condT) (by rfl) (List.mem_cons_self ..) (by rfl),
    cnt_cons_cond_new (rE_true.mpr r3) (by rfl) ?_, cnt_cons_plain (by rfl) (by intro h; cases h),
    cnt_cons_cond_new (rE_true.mpr r1) (by rfl) ?_, cnt_cons_plain (by rfl) (by intro h; cases h)]
  · intro x hx
    rcases List.mem_cons.mp hx with rfl | hx
    · simp only; omega
    · have := hsrc x hx; omega
  · intro x hx
    rcases List.mem_cons.mp hx with rfl | hx
    · simp only; omega
    rcases List.mem_cons.mp hx with rfl | hx
    · simp only; omega
    rcases List.mem_cons.mp hx with rfl | hx
    · simp only; omega
    · have := hsrc x hx; omega

theorem go_cnt (s e n0 : Nat) : ∀ (cs : List Bool) (st : St) (cp : Nat),
    (∀ x ∈ st.edges, x.1 < st.next) → cp < st.next → n0 ≤ st.next →
    (∀ x ∈ (procComp.go s e cs st cp).1.edges, x ∈ E) → R E cp →
    cnt (rE E) (procComp.go s e cs st cp).1.edges = cnt (rE E) st.edges + compClauses cs ∧
    R E (procComp.go s e cs st cp).2 ∧
    ((procComp.go s e cs st cp).2 = cp ∨ (st.next ≤ (procComp.go s e cs st cp).2 ∧
      ∃ b, ((procComp.go s e cs st cp).2, b, ETy.condT) ∈ (procComp.go s e cs st cp).1.edges)) ∧
    LTI E (fun t => n0 ≤ t) st (procComp.go s e cs st cp).1 ∧
    (∀ x, x < st.next → x ≠ cp → Untouched st x → Untouched (procComp.go s e cs st cp).1 x)
  | [], st, cp, _, _, _, _, hr => by
    rw [go_nil]
    exact ⟨rfl, hr, .inl rfl, LTI.refl _ _ _, fun _ _ _ h => h⟩
  | b :: rest, st, cp, hsrc, hcp, hn0, hmem, hr => by
    rw [go_cons'] at hmem ⊢
    cases b
    · simp only [Bool.false_eq_true, ↓reduceIte] at hmem ⊢
      have hsub := go_sub s e rest (goN st s e cp) st.next
      obtain ⟨c1, r1⟩ := goN_cnt (s := s) (e := e) hsrc hcp hr (fun x hx => hmem x (hsub x hx))
      have hsrc' : ∀ x ∈ (goN st s e cp).edges, x.1 < (goN st s e cp).next := by
        intro x hx
        rw [goN_edges] at hx
        rw [goN_next]
        simp only [List.mem_cons] at hx
        rcases hx with rfl | rfl | rfl | rfl | hx
        · simp only; omega
        · simp only; omega
        · simp only; omega
        · simp only; omega
        · have := hsrc x hx; omega
      obtain ⟨ic, ir, id, il, iu⟩ := go_cnt s e n0 rest (goN st s e cp) st.next hsrc' (by rw [goN_next]; omega)
        (by rw [goN_next]; omega) hmem r1
      refine ⟨by rw [ic, c1, compClauses_false]; omega, ir, .inr ?_, ?_, ?_⟩
      · rcases id with id | ⟨id1, b, id2⟩
        · rw [id]
          exact ⟨Nat.le_refl _, st.next + 1, hsub _ (by rw [goN_edges]; simp)⟩
        · rw [goN_next] at id1
          exact ⟨by omega, b, id2⟩
      · refine LTI.trans ⟨[(st.next + 2, st.next, .loop), (st.next + 1, st.next + 2, .normal), (st.next, st.next + 1, .condT),
          (cp, st.next, .normal)], rfl, ?_⟩ il
        intro x hx _
        simp only [List.mem_cons, List.not_mem_nil, or_false] at hx
        rcases hx with rfl | rfl | rfl | rfl <;> simp only <;> omega
      · intro x hx hxc hu
        refine iu x (by rw [goN_next]; omega) (by omega) ?_
        unfold goN
        untt [hu]
    · simp only [↓reduceIte] at hmem ⊢
      have hsub := go_sub s e rest (goF st s e cp) st.next
      obtain ⟨c1, r1⟩ := goF_cnt (s := s) (e := e) hsrc hcp hr (fun x hx => hmem x (hsub x hx))
      have hsrc' : ∀ x ∈ (goF st s e cp).edges, x.1 < (goF st s e cp).next := by
        intro x hx
        rw [goF_edges] at hx
        rw [goF_next]
        simp only [List.mem_cons] at hx
        rcases hx with rfl | rfl | rfl | rfl | rfl | rfl | hx
        · simp only; omega
        · simp only; omega
        · simp only; omega
        · simp only; omega
        · simp only; omega
        · simp only; omega
        · have := hsrc x hx; omega
      obtain ⟨ic, ir, id, il, iu⟩ := go_cnt s e n0 rest (goF st s e cp) st.next hsrc' (by rw [goF_next]; omega)
        (by rw [goF_next]; omega) hmem r1
      refine ⟨by rw [ic, c1, compClauses_true]; omega, ir, .inr ?_, ?_, ?_⟩
      · rcases id with id | ⟨id1, b, id2⟩
        · rw [id]
          exact ⟨Nat.le_refl _, st.next + 1, hsub _ (by rw [goF_edges]; simp)⟩
        · rw [goF_next] at id1
          exact ⟨by omega, b, id2⟩
      · refine LTI.trans ⟨[(st.next + 3, st.next, .loop), (st.next + 2, st.next, .condF), (st.next + 2, st.next + 3, .condT),
          (st.next + 1, st.next + 2, .normal), (st.next, st.next + 1, .condT), (cp, st.next, .normal)], rfl, ?_⟩ il
        intro x hx _
        simp only [List.mem_cons, List.not_mem_nil, or_false] at hx
        rcases hx with rfl | rfl | rfl | rfl | rfl | rfl <;> simp only <;> omega
      · intro x hx hxc hu
        refine iu x (by rw [goF_next]; omega) (by omega) ?_
        unfold goF
        untt [hu]

/-- the comprehension: `compClauses comp` live decisions; the block current afterwards is reachable and calm; all new
edges go to new blocks (only the fact that the edges of the final state are in `E` is needed) -/
theorem comp_cnt' (st : St) (s e : Nat) (comp : List Bool) (w : WF st) (hmem : ∀ x ∈ (procComp st s e comp).edges, x ∈ E)
    (he : EntryC E st) :
    cnt (rE E) (procComp st s e comp).edges = cnt (rE E) st.edges + compClauses comp ∧ EntryC E (procComp st s e comp) ∧
    LTI E (fun t => st.next ≤ t) st (procComp st s e comp) := by
  rw [procComp_eq] at hmem ⊢
  simp only at hmem ⊢
  have hcur := w.cur
  have hm1 : ∀ x ∈ (procComp.go s e comp (bump (((bump st).edge st.cur st.next .normal).add st.next s e .other)) st.next).1.edges, x ∈ E := by
    intro x hx
    split at hmem <;> exact hmem x (List.mem_cons_of_mem _ hx)
  have hsub := go_sub s e comp (bump (((bump st).edge st.cur st.next .normal).add st.next s e .other)) st.next
  have r1 : R E st.next := R.step he.reach (hm1 (st.cur, st.next, .normal) (hsub _ (by simp)))
  have hsrc : ∀ x ∈ (bump (((bump st).edge st.cur st.next .normal).add st.next s e .other)).edges,
      x.1 < (bump (((bump st).edge st.cur st.next .normal).add st.next s e .other)).next := by
    intro x hx
    simp only [bump_edges, add_edges, edge_edges, List.mem_cons] at hx
    simp only [bump_next, add_next, edge_next]
    rcases hx with rfl | hx
    · simp only; omega
    · have := (w.edges x hx).1; omega
  have hu : Untouched (bump (((bump st).edge st.cur st.next .normal).add st.next s e .other)) (st.next + 1) := by
    untt [w.untouched (m := st.next + 1) (by omega)]
  obtain ⟨ic, ir, id, il, iu⟩ := go_cnt s e st.next comp _ st.next hsrc (by ob) (by ob) hm1 r1
  have iu := iu (st.next + 1) (by ob) (by omega) hu
  have hc0 : cnt (rE E) (bump (((bump st).edge st.cur st.next .normal).add st.next s e .other)).edges = cnt (rE E) st.edges :=
    cnt_cons_plain (by rfl) (by intro h; cases h)
  have l0 : LTI E (fun t => st.next ≤ t) st (bump (((bump st).edge st.cur st.next .normal).add st.next s e .other)) :=
    ((LTI.refl E _ st).edge (a := st.cur) (b := st.next) (t := .normal) (fun _ => Nat.le_refl _)).of_edges_eq rfl
  simp only [bump_next, add_next, edge_next] at id
  generalize procComp.go s e comp (bump (((bump st).edge st.cur st.next .normal).add st.next s e .other)) st.next = r at *
  split
  · next hne =>
    have hne : r.2 ≠ st.next := by simpa using hne
    rcases id with id | ⟨id1, b, id2⟩
    · exact absurd id hne
    refine ⟨?_, ⟨?_, ?_⟩, ?_⟩
    · simp only [setCur_edges, edge_edges]
      rw [cnt_cons_cond_old (by rfl) id2 (by rfl), ic, hc0]
    · exact R.step ir (hmem (r.2, st.next + 1, .condF) (by rw [if_pos (by simpa using hne)]; simp))
    · exact Untouched.calm (by untt [iu])
    · exact ((l0.trans il).edge (fun _ => by omega)).of_edges_eq rfl
  · next hne =>
    have heq : r.2 = st.next := by simpa using hne
    rw [heq] at ir
    refine ⟨?_, ⟨?_, ?_⟩, ?_⟩
    · simp only [setCur_edges, edge_edges]
      rw [cnt_cons_plain (by rfl) (by intro h; cases h), ic, hc0]
    · exact R.step ir (hmem (st.next, st.next + 1, .normal) (by rw [if_neg hne]; simp))
    · exact Untouched.calm (by untt [iu])
    · exact ((l0.trans il).edge (fun _ => by omega)).of_edges_eq rfl

theorem comp_cnt (st : St) (s e : Nat) (comp : List Bool) (w : WF st)
    (hf : Fut E st.next (procComp st s e comp).next (procComp st s e comp)) (he : EntryC E st) :
    cnt (rE E) (procComp st s e comp).edges = cnt (rE E) st.edges + compClauses comp ∧ EntryC E (procComp st s e comp) ∧
    LTI E (fun t => st.next ≤ t) st (procComp st s e comp) :=
  comp_cnt' st s e comp w (fun _ hx => hf.mem hx) he

/-! ### statements that fall through -/
theorem simple_cnt (s e : Nat) (c : List Bool) (h : Bool) : QCS E (.simple s e c h) := by
  intro nh il st w hc hok hf he
  rw [procStmt_simple] at hf ⊢
  rw [sxS_simple, ldS_simple]
  cases h
  · simp only [Bool.false_eq_true, ↓reduceIte] at hf ⊢
    exact ⟨rfl, fun _ => ⟨he.reach, he.calm.add_other⟩, (fun h => by simp at h), (fun h => by simp at h), LTI.refl _ _ _⟩
  · simp only [↓reduceIte] at hf ⊢
    obtain ⟨h1, h2, h3⟩ := comp_cnt' st s e c w (fun _ hx => hf.mem hx) he
    exact ⟨h1, fun _ => ⟨h2.reach, h2.calm.add_other⟩, (fun h => by simp at h), (fun h => by simp at h),
      (h3.mono (fun t ht => .inl ht)).of_edges_eq rfl⟩

theorem def_cnt (s e : Nat) (b : List Stmt) : QCS E (.def_ s e b) := by
  intro nh il st w hc hok hf he
  rw [procStmt_def] at hf ⊢
  rw [sxS_def, ldS_def]
  exact ⟨rfl, fun _ => ⟨he.reach, he.calm.add_other⟩, (fun h => by simp at h), (fun h => by simp at h), LTI.refl _ _ _⟩

/-! ### terminators -/
theorem ret_cnt (s e : Nat) (c : List Bool) (h : Bool) : QCS E (.ret s e c h) := by
  intro nh il st w hc hok hf he
  rw [procStmt_ret, procRet_eq] at hf ⊢
  rw [sxS_ret, ldS_ret]
  have hst0 : Inv st.cur st.next st (if h then procComp st s e c else st) ∧ Same st (if h then procComp st s e c else st) ∧
      ((∀ x ∈ (if h then procComp st s e c else st).edges, x ∈ E) →
        cnt (rE E) (if h then procComp st s e c else st).edges = cnt (rE E) st.edges + (if h then compClauses c else 0) ∧
        LTI E (fun t => st.next ≤ t) st (if h then procComp st s e c else st)) := by
    cases h
    · exact ⟨Inv.refl w (.inl rfl), ⟨rfl, rfl⟩, fun _ => ⟨rfl, LTI.refl _ _ _⟩⟩
    · obtain ⟨i, sm⟩ := comp_frame (c := st.cur) (n := st.next) st s e c w (.inl rfl) (Nat.le_refl _)
      exact ⟨i, sm, fun hm => ⟨(comp_cnt' st s e c w hm he).1, (comp_cnt' st s e c w hm he).2.2⟩⟩
  generalize (if h then procComp st s e c else st) = st0 at hst0 hf ⊢
  generalize (if h then compClauses c else 0) = n at hst0 ⊢
  obtain ⟨i0, sm, hk⟩ := hst0
  have htf : targetFinallyRet (st0.add st0.cur s e .ret) = none := ((hc.same sm).of_eq rfl rfl).tfRet
  simp only at hf ⊢
  rw [htf] at hf ⊢
  simp only at hf ⊢
  have h2 := i0.wf.two
  have hcur := i0.wf.cur
  have hn := i0.next_le
  have i2 := (i0.add (b := st0.cur) (p := s) (q := e) (ty := .ret) i0.own i0.wf.cur).edge (a := st0.cur) (b := exitB) (t := .ret)
    i0.own (by ob) (by unfold exitB; ob)
  have hd : ¬ R E ((st0.add st0.cur s e .ret).edge st0.cur exitB .ret).next := fresh_dead i2.wf (by ob) hf
  obtain ⟨k1, k2⟩ := hk (fun x hx => hf.mem (List.mem_cons_of_mem _ hx))
  refine ⟨?_, (fun h => by simp at h), fun _ => hd, (fun h => by simp at h), ?_⟩
  · show cnt (rE E) ((st0.cur, exitB, .ret) :: st0.edges) = _
    rw [cnt_cons_plain (by rfl) (by intro h; cases h), k1]
  · exact ((k2.mono (fun t ht => .inl ht)).edge (a := st0.cur) (b := exitB) (t := .ret) (fun _ => .inr (.inl rfl))).of_edges_eq rfl

theorem brk_cnt (s e : Nat) : QCS E (.brk s e) := by
  intro nh il st w hc hok hf he
  rw [okCS_brk] at hok
  rw [procStmt_brk, procBrk_eq] at hf ⊢
  rw [sxS_brk, ldS_brk]
  obtain ⟨⟨h, x, d⟩, rest, hll⟩ := List.exists_cons_of_ne_nil (hc.loops hok)
  have hx := w.loops (h, x, d) (by rw [hll]; exact List.mem_cons_self ..)
  have htf : targetFinallyLoop (st.add st.cur s e .brk) d = none := (hc.of_eq (s' := st.add st.cur s e .brk) rfl rfl).tfLoop d
  simp only [add_loops] at hf ⊢
  rw [hll] at hf ⊢
  simp only at hf ⊢
  rw [htf] at hf ⊢
  simp only [add_cur] at hf ⊢
  have hcur := w.cur
  have i0 : Inv st.cur st.next st st := Inv.refl w (.inl rfl)
  have i2 := (i0.add (b := st.cur) (p := s) (q := e) (ty := .brk) (.inl rfl) w.cur).edge (a := st.cur) (b := x) (t := .brk)
    (.inl rfl) (by ob) (by ob)
  have hd : ¬ R E ((st.add st.cur s e .brk).edge st.cur x .brk).next := fresh_dead i2.wf (by ob) hf
  refine ⟨?_, (fun h => by simp at h), fun _ => hd, ?_, ?_⟩
  · show cnt (rE E) ((st.cur, x, .brk) :: st.edges) = _
    rw [cnt_cons_plain (by rfl) (by intro h; cases h)]; rfl
  · intro _ h' x' d' rest' hl'
    rw [hll] at hl'
    simp only [List.cons.injEq, Prod.mk.injEq] at hl'
    obtain ⟨⟨_, rfl, _⟩, _⟩ := hl'
    exact R.step he.reach (hf.mem (List.mem_cons_self ..))
  · exact ((LTI.refl E _ st).edge (a := st.cur) (b := x) (t := .brk)
      (fun _ => .inr (.inr (.inl ⟨h, x, d, rest, hll, .inr ⟨rfl, rfl⟩⟩)))).of_edges_eq rfl

theorem cont_cnt (s e : Nat) : QCS E (.cont s e) := by
  intro nh il st w hc hok hf he
  rw [okCS_cont] at hok
  rw [procStmt_cont, procCont_eq] at hf ⊢
  rw [sxS_cont, ldS_cont]
  obtain ⟨⟨h, x, d⟩, rest, hll⟩ := List.exists_cons_of_ne_nil (hc.loops hok)
  have hx := w.loops (h, x, d) (by rw [hll]; exact List.mem_cons_self ..)
  have htf : targetFinallyLoop (st.add st.cur s e .cont) d = none := (hc.of_eq (s' := st.add st.cur s e .cont) rfl rfl).tfLoop d
  simp only [add_loops] at hf ⊢
  rw [hll] at hf ⊢
  simp only at hf ⊢
  rw [htf] at hf ⊢
  simp only [add_cur] at hf ⊢
  have hcur := w.cur
  have i0 : Inv st.cur st.next st st := Inv.refl w (.inl rfl)
  have i2 := (i0.add (b := st.cur) (p := s) (q := e) (ty := .cont) (.inl rfl) w.cur).edge (a := st.cur) (b := h) (t := .cont)
    (.inl rfl) (by ob) (by ob)
  have hd : ¬ R E ((st.add st.cur s e .cont).edge st.cur h .cont).next := fresh_dead i2.wf (by ob) hf
  refine ⟨?_, (fun h => by simp at h), fun _ => hd, (fun h => by simp at h), ?_⟩
  · show cnt (rE E) ((st.cur, h, .cont) :: st.edges) = _
    rw [cnt_cons_plain (by rfl) (by intro h; cases h)]; rfl
  · exact ((LTI.refl E _ st).edge (a := st.cur) (b := h) (t := .cont)
      (fun _ => .inr (.inr (.inl ⟨h, x, d, rest, hll, .inl rfl⟩)))).of_edges_eq rfl

/-- no context is processing its `finally`: the fallback context of a `raise` is the innermost one -/
theorem CtxC.fallback {nh : Nat} {il : Bool} {s : St} (h : CtxC nh il s) : fallbackExc s = s.excs.head? := by
  unfold fallbackExc
  cases hx : s.excs with
  | nil => rfl
  | cons c rest =>
    have := (h.nofin c (by rw [hx]; exact List.mem_cons_self ..)).2
    simp [List.find?, this]

/-- the common end of every terminator: the new current block is fresh, hence unreachable -/
theorem term_post {st st2 : St} {ex : Ex} {n : Nat} (hn : ex.normal = false) (w2 : WF st2) (hle : st.next ≤ st2.next)
    (hf : Fut E st.next (st2.next + 1) (setCur (bumpU st2) st2.next))
    (hcnt : cnt (rE E) st2.edges = cnt (rE E) st.edges + n)
    (hbrk : ex.brk = true → ∀ h x d rest, st.loops = (h, x, d) :: rest → R E x)
    (htgt : LTI E (TgOK st.next st.loops st.excs ex.brk) st st2) :
    PostC E st (setCur (bumpU st2) st2.next) ex n :=
  ⟨hcnt, (fun h => by rw [hn] at h; cases h), fun _ => fresh_dead w2 hle hf, hbrk, htgt.of_edges_eq rfl⟩

theorem raise_cnt (s e : Nat) : QCS E (.raise s e) := by
  intro nh il st w hc hok hf he
  rw [procStmt_raise, procRaise_eq] at hf ⊢
  rw [sxS_raise, ldS_raise]
  have hc1 : CtxC nh il (st.add st.cur s e .raise) := hc.of_eq rfl rfl
  have htf := hc1.tf
  have hfb := hc1.fallback
  simp only at hf ⊢
  rw [htf] at hf ⊢
  simp only at hf ⊢
  rw [hfb] at hf ⊢
  simp only [add_excs, add_cur] at hf ⊢
  have hcur := w.cur
  have h2 := w.two
  have i0 : Inv st.cur st.next st st := Inv.refl w (.inl rfl)
  have i1 := i0.add (b := st.cur) (p := s) (q := e) (ty := .raise) (.inl rfl) w.cur
  have hrn := hc.rn
  have hcases : st.excs = [] ∨ ∃ c rest, st.excs = c :: rest := by
    cases hq : st.excs with
    | nil => exact .inl rfl
    | cons c rest => exact .inr ⟨c, rest, rfl⟩
  have hexit : nh = 1 →
      Fut E st.next (((st.add st.cur s e .raise).edge st.cur exitB .exc).next + 1)
        (setCur (bumpU ((st.add st.cur s e .raise).edge st.cur exitB .exc)) ((st.add st.cur s e .raise).edge st.cur exitB .exc).next) →
      PostC E st (setCur (bumpU ((st.add st.cur s e .raise).edge st.cur exitB .exc)) ((st.add st.cur s e .raise).edge st.cur exitB .exc).next)
        { raise := true } nh := by
    intro hnh hf
    have i2 := i1.edge (a := st.cur) (b := exitB) (t := .exc) (.inl rfl) (by ob) (by unfold exitB; ob)
    refine term_post rfl i2.wf (by ob) hf ?_ (fun h => by simp at h) ?_
    · show cnt (rE E) ((st.cur, exitB, .exc) :: st.edges) = _
      rw [cnt_cons_exc (rE_true.mpr he.reach), hnh]
    · exact ((LTI.refl E _ st).edge (a := st.cur) (b := exitB) (t := .exc) (fun _ => .inr (.inl rfl))).of_edges_eq rfl
  rcases hcases with hx | ⟨c, rest, hx⟩
  · rw [hx] at hf ⊢ hrn
    simp only [List.head?_nil] at hf ⊢
    exact hexit hrn.symm hf
  · rw [hx] at hf ⊢ hrn
    simp only [List.head?_cons] at hf ⊢
    unfold raiseN at hrn
    simp only at hrn
    by_cases hpos : c.handlers.length > 0
    · rw [if_pos hpos] at hf ⊢ hrn
      rw [foldl_cur_edges_eq] at hf ⊢
      simp only [add_cur] at hf ⊢
      have hmem : c ∈ st.excs := by rw [hx]; exact List.mem_cons_self ..
      obtain ⟨j, sm, hnx, hcu⟩ := foldl_edges_frame (c := st.cur) (n := st.next) st.cur .exc c.handlers _ i1 (.inl rfl) (by ob)
        (fun h hh => (i1.wf.excs c hmem).2 h hh)
      refine term_post rfl j.wf (by rw [hnx]; ob) hf ?_ (fun h => by simp at h) ?_
      · rw [cnt_foldl_exc st.cur (rE_true.mpr he.reach), ← hrn]; rfl
      · exact LTI.foldl st.cur .exc c.handlers _ ((LTI.refl E _ st).of_edges_eq rfl)
          (fun _ h hh => .inr (.inr (.inr ⟨c, rest, hx, hh⟩)))
    · rw [if_neg hpos] at hf ⊢ hrn
      exact hexit hrn.symm hf

end leaf
end PV.CFGSound
