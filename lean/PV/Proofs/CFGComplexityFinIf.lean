import PV.Proofs.CFGComplexityFinDefs
import PV.Proofs.CFGComplexityIf
/-!
Property C03 for the CFG mirror with non-empty `finally` clauses — `if` / `elif` / `else`:
`procIf` entered in a reachable calm block adds exactly `1 + ldLX fc thn + ldLX fc orelse` to the count.
(The copy of `CFGComplexityIf` for the generalised statements `QFL` / `PostF`.)
-/
namespace PV.CFGFin
open PV.CFG PV.CFGSound PV.Dec

/-! ### small helpers -/
private theorem eue_memF {s : St} {a b : Nat} {t : ETy} {e : Edge} (h : e ∈ s.edges) : e ∈ (s.edgeUnlessExit a b t).edges := by
  rcases edgeUnlessExit_cases s a b t with ⟨_, h2⟩ | ⟨_, h2⟩ <;> rw [h2]
  · exact h
  · exact List.mem_cons_of_mem _ h

private theorem _root_.PV.CFGSound.Calm.eue_selfF {s : St} {a b : Nat} {t : ETy} (h : Calm s a) : (a, b, t) ∈ (s.edgeUnlessExit a b t).edges := by
  rw [h.eue_eq]; exact List.mem_cons_self ..

private theorem _root_.PV.CFGSound.Calm.btF {s : St} {m : Nat} (h : Calm s m) : s.blockTerminates m = false := h.2

private theorem ldLX_singleF (fc : FC) (x : Stmt) : ldLX fc [x] = ldSX fc x := by
  rw [ldLX_cons, ldLX_nil]; split <;> rfl

private theorem brk_union_l {a b : Ex} (h : a.brk = true) : (a.union b).brk = true := by
  show (a.brk || b.brk) = true
  rw [h]; rfl
private theorem brk_union_r {a b : Ex} (h : b.brk = true) : (a.union b).brk = true := by
  show (a.brk || b.brk) = true
  rw [h]; exact Bool.or_true _

/-- what entering a sub-list through a new conditional edge `cond → st.next` achieves (`s3` = state after the sub-list, `k` = number of
blocks allocated before the sub-list is processed) -/
structure EnterCF (E : List Edge) (st s3 : St) (cond k : Nat) (t : ETy) (ex : Ex) (n : Nat) : Prop where
  cnt : cnt (rE E) s3.edges = cnt (rE E) ((cond, st.next, t) :: st.edges) + n
  normal : ex.normal = true → EntryC E s3
  dead : ex.normal = false → ¬ R E s3.cur
  jmp : Jmp E st.loops st.excs ex
  tgt : LTI E (fun x => x = st.next ∨ TgF (st.next + k) st.loops st.excs ex.brk x) st s3
  mem : (cond, st.next, t) ∈ s3.edges
  old : ∀ e ∈ st.edges, e ∈ s3.edges
  calm : ∀ m, m ≠ cond → m ≠ st.next → m < st.next + k → Calm st m → Calm s3 m
  own : s3.cur = st.next ∨ st.next + k ≤ s3.cur
  reach : R E st.next

section main
variable {E : List Edge} {N : Nat}

theorem enter_cntF (ih : ∀ ss, sizeL ss ≤ N → QFL E ss) (body : List Stmt) (hsz : sizeL body ≤ N) (fc : FC) (il : Bool) (st s1 : St)
    (cond k : Nat) (t : ETy) (w : WF st) (w1 : WF s1) (hn : s1.next = st.next + k) (hcur : s1.cur = st.next)
    (hl : s1.loops = st.loops) (hx : s1.excs = st.excs) (hedges : s1.edges = (cond, st.next, t) :: st.edges)
    (hcalm1 : ∀ m, m ≠ cond → Calm st m → Calm s1 m) (hcl : cond < st.next) (hr : R E cond) (hc : CtxF fc il st)
    (hok : okFL il body = true) (hf : Fut E (st.next + k) (procList s1 body).next (procList s1 body)) :
    EnterCF E st (procList s1 body) cond k t (sxL body).ex (ldLX fc body) := by
  obtain ⟨j, sm⟩ := procList_frame body s1 w1 st.next (st.next + k) (.inl hcur) (by omega)
  have hm1 : (cond, st.next, t) ∈ s1.edges := by rw [hedges]; exact List.mem_cons_self ..
  have hr1 : R E st.next := R.step hr (hf.mem (j.sub.1 _ hm1))
  have hc1 : Calm s1 s1.cur := by
    rw [hcur]; exact hcalm1 _ (by omega) (Untouched.calm (w.untouched (Nat.le_refl _)))
  have post := ih body hsz fc il s1 w1 (hc.of_eq hl hx) hok (by rw [hn]; exact hf) ⟨by rw [hcur]; exact hr1, hc1⟩
  refine ⟨by rw [post.cnt, hedges], post.normal, post.dead, post.jmp.cast hl.symm hx.symm, ?_, j.sub.1 _ hm1, ?_, ?_, ?_, hr1⟩
  · have h0 : LTI E (fun x => x = st.next ∨ TgF (st.next + k) st.loops st.excs (sxL body).ex.brk x) st s1 :=
      ⟨[(cond, st.next, t)], hedges, fun e he _ => by rw [List.mem_singleton.mp he]; exact .inl rfl⟩
    refine h0.trans (post.tgt.mono (fun x h => ?_))
    rw [hn, hl, hx] at h
    exact .inr h
  · intro e he
    exact j.sub.1 _ (by rw [hedges]; exact List.mem_cons_of_mem _ he)
  · intro m h1 h2 h3 hcm
    exact j.calm h2 h3 (hcalm1 m h1 hcm)
  · rcases j.own with h | h
    · exact .inl h
    · exact .inr h

theorem ifHead_cntF (ih : ∀ ss, sizeL ss ≤ N → QFL E ss) (thn : List Stmt) (hsz : sizeL thn ≤ N) (fc : FC) (il : Bool) (st : St) (s e : Nat)
    (w : WF st) (hc : CtxF fc il st) (hok : okFL il thn = true) (he : EntryC E st)
    (hf : Fut E (st.next + 2) (ifHead st s e thn).next (ifHead st s e thn)) :
    EnterCF E st (ifHead st s e thn) st.cur 2 .condT (sxL thn).ex (ldLX fc thn) := by
  unfold ifHead at hf ⊢
  have hcur := w.cur
  have hco : Own st.cur st.next st.cur := .inl rfl
  have i0 : Inv st.cur st.next st st := Inv.refl w hco
  have i1 := (((i0.add (b := st.cur) (p := s) (q := e) (ty := .other) hco w.cur).bump.bump).edge (a := st.cur) (b := st.next)
    (t := .condT) hco (by ob) (by ob)).setCur (x := st.next) (by ob) (by ob)
  refine enter_cntF ih thn hsz fc il st _ st.cur 2 .condT w i1.wf rfl rfl rfl rfl rfl ?_ hcur he.reach hc hok hf
  intro m hm h
  exact (h.add_ne (b := st.cur) (p := s) (q := e) (ty := .other) (Ne.symm hm)).edge (a := st.cur) (b := st.next) (t := .condT) (Ne.symm hm)

theorem elifHead_cntF (ih : ∀ ss, sizeL ss ≤ N → QFL E ss) (thn : List Stmt) (hsz : sizeL thn ≤ N) (fc : FC) (il : Bool) (st : St) (s e : Nat)
    (w : WF st) (hc : CtxF fc il st) (hok : okFL il thn = true) (he : EntryC E st)
    (hf : Fut E (st.next + 1) (elifHead st s e thn).next (elifHead st s e thn)) :
    EnterCF E st (elifHead st s e thn) st.cur 1 .condT (sxL thn).ex (ldLX fc thn) := by
  unfold elifHead at hf ⊢
  have hcur := w.cur
  have hco : Own st.cur st.next st.cur := .inl rfl
  have i0 : Inv st.cur st.next st st := Inv.refl w hco
  have i1 := (((i0.add (b := st.cur) (p := s) (q := e) (ty := .other) hco w.cur).bump).edge (a := st.cur) (b := st.next)
    (t := .condT) hco (by ob) (by ob)).setCur (x := st.next) (by ob) (by ob)
  refine enter_cntF ih thn hsz fc il st _ st.cur 1 .condT w i1.wf rfl rfl rfl rfl rfl ?_ hcur he.reach hc hok hf
  intro m hm h
  exact (h.add_ne (b := st.cur) (p := s) (q := e) (ty := .other) (Ne.symm hm)).edge (a := st.cur) (b := st.next) (t := .condT) (Ne.symm hm)

theorem elseTail_cntF (ih : ∀ ss, sizeL ss ≤ N → QFL E ss) (orelse : List Stmt) (hsz : sizeL orelse ≤ N) (fc : FC) (il : Bool) (s3 : St)
    (cond te : Nat) (w : WF s3) (hc : CtxF fc il s3) (hok : okFL il orelse = true) (hcl : cond < s3.next) (hr : R E cond)
    (hf : Fut E (s3.next + 1) (elseTail s3 cond te orelse).next (elseTail s3 cond te orelse)) :
    EnterCF E s3 (elseTail s3 cond te orelse) cond 1 .condF (sxL orelse).ex (ldLX fc orelse) := by
  unfold elseTail at hf ⊢
  refine enter_cntF ih orelse hsz fc il s3 _ cond 1 .condF w (branch_wf w hcl .condF) rfl rfl rfl rfl rfl ?_ hcl hr hc hok hf
  intro m hm h
  exact h.edge (s := bump s3) (a := cond) (b := s3.next) (t := .condF) (Ne.symm hm)

/-! ### joining into a merge block `m` -/

/-- what a construct that ends in the merge block `m` achieves (`nrm`: can fall through, `ex`: the jumps) -/
structure JoinCF (E : List Edge) (st s' : St) (m : Nat) (nrm : Bool) (ex : Ex) (n : Nat) : Prop where
  cnt : cnt (rE E) s'.edges = cnt (rE E) st.edges + n
  normal : nrm = true → s'.cur = m ∧ R E m
  cur : s'.cur = m ∨ ¬ R E s'.cur
  calm : Calm s' m
  jmp : Jmp E st.loops st.excs ex
  tgt : LTI E (fun t => (t ≠ m ∧ TgF st.next st.loops st.excs ex.brk t) ∨ (t = m ∧ nrm = true)) st s'

theorem JoinCF.congrF {st s' : St} {m : Nat} {nrm nrm' : Bool} {ex ex' : Ex} {n n' : Nat} (J : JoinCF E st s' m nrm ex n)
    (h1 : nrm = nrm') (h2 : ex.brk = ex'.brk) (hj : Jmp E st.loops st.excs ex') (h3 : n = n') : JoinCF E st s' m nrm' ex' n' := by
  subst h1; subst h3
  exact ⟨J.cnt, J.normal, J.cur, J.calm, hj, J.tgt.mono (fun t ht => by rw [← h2]; exact ht)⟩

/-- if the merge block belongs to the zone of the call, `JoinCF` gives `PostF` -/
theorem JoinCF.postF {st s' : St} {m : Nat} {ex : Ex} {n : Nat} (J : JoinCF E st s' m ex.normal ex n) (w : WF st)
    (hf : Fut E st.next s'.next s') (hm1 : st.next ≤ m) (hm2 : m < s'.next) : PostF E st s' ex n := by
  refine ⟨J.cnt, fun h => ?_, fun h => ?_, J.jmp, J.tgt.mono (fun t ht => ?_)⟩
  · obtain ⟨h1, h2⟩ := J.normal h
    exact ⟨by rw [h1]; exact h2, by rw [h1]; exact J.calm⟩
  · rcases J.cur with hc | hc
    · rw [hc]
      refine dead_of_LTI hf hm1 hm2 w hm1 (J.tgt.mono (fun t ht => ?_))
      rcases ht with ⟨h1, _⟩ | ⟨_, h2⟩
      · exact h1
      · rw [h] at h2; cases h2
    · exact hc
  · rcases ht with ⟨_, h⟩ | ⟨h, _⟩
    · exact h
    · exact .inl (by omega)

/-- the state before the last edge `a → m` is added (`na`: the block `a` is a live end, `nr`: `m` is reachable already) -/
structure StepCF (E : List Edge) (st s6 : St) (m a : Nat) (na nr : Bool) (ex : Ex) (n : Nat) : Prop where
  cnt : cnt (rE E) s6.edges = cnt (rE E) st.edges + n
  aN : na = true → R E a ∧ Calm s6 a
  aD : na = false → ¬ R E a
  rN : nr = true → R E m
  calm : Calm s6 m
  jmp : Jmp E st.loops st.excs ex
  tgt : LTI E (fun t => (t ≠ m ∧ TgF st.next st.loops st.excs ex.brk t) ∨ (t = m ∧ nr = true)) st s6

theorem StepCF.joinF {st s6 : St} {m a : Nat} {na nr : Bool} {ex : Ex} {n : Nat} (S : StepCF E st s6 m a na nr ex n) (ham : a ≠ m)
    (hsub : ∀ e ∈ (s6.edgeUnlessExit a m .normal).edges, e ∈ E) :
    JoinCF E st (setCur (s6.edgeUnlessExit a m .normal) m) m (na || nr) ex n := by
  refine ⟨?_, fun h => ⟨rfl, ?_⟩, .inl rfl, ?_, S.jmp, ?_⟩
  · show _root_.PV.CFGSound.cnt (rE E) (s6.edgeUnlessExit a m .normal).edges = _
    rw [cnt_eue_plain _ _ _ _ rfl (by intro h; cases h), S.cnt]
  · rcases Bool.or_eq_true_iff.mp h with h | h
    · exact R.step (S.aN h).1 (hsub _ (S.aN h).2.eue_selfF)
    · exact S.rN h
  · exact (S.calm.eue ham : Calm (s6.edgeUnlessExit a m .normal) m)
  · refine LTI.of_edges_eq (s := s6.edgeUnlessExit a m .normal) (LTI.eue (S.tgt.mono (fun t ht => ?_)) (fun hr => ?_)) rfl
    · rcases ht with h | ⟨h1, h2⟩
      · exact .inl h
      · exact .inr ⟨h1, by rw [h2]; simp⟩
    · cases hna : na
      · exact absurd hr (S.aD hna)
      · exact .inr ⟨rfl, rfl⟩

theorem StepCF.plainF {st s6 : St} {m a : Nat} {na nr : Bool} {ex : Ex} {n : Nat} (S : StepCF E st s6 m a na nr ex n)
    (hbt : s6.blockTerminates a = true) (hcur : s6.cur = m ∨ ¬ R E s6.cur) (hrec : nr = true → s6.cur = m) :
    JoinCF E st s6 m (na || nr) ex n := by
  have hna : na = false := by
    cases hna : na
    · rfl
    · have := (S.aN hna).2.btF; rw [this] at hbt; cases hbt
  subst hna
  exact ⟨S.cnt, fun h => ⟨hrec h, S.rN h⟩, hcur, S.calm, S.jmp, S.tgt⟩

/-- the facts about the `then` part shared by all shapes (`s3` = state after the `then` part, `k` = blocks allocated before it,
`m` = merge block) -/
structure HeadFF (E : List Edge) (st s3 : St) (k m lo : Nat) (exT : Ex) (nT : Nat) : Prop where
  w : WF st
  he : EntryC E st
  enter : Fut E (st.next + k) s3.next s3 → EnterCF E st s3 st.cur k .condT exT nT
  sm : Same st s3
  w3 : WF s3
  hnx : st.next + k ≤ s3.next
  ctx : CtxLt st lo
  h2 : 2 ≤ lo
  hlo : lo ≤ m
  m1 : m ≠ st.cur
  m2 : m ≠ st.next
  m3 : m < st.next + k
  cm : Calm st m
  cm3 : Calm s3 m

theorem EnterCF.tgtmF {st s3 : St} {cond k : Nat} {t : ETy} {ex : Ex} {n : Nat} (P : EnterCF E st s3 cond k t ex n) {m lo : Nat} {b : Bool}
    (hctx : CtxLt st lo) (h2 : 2 ≤ lo) (hlo : lo ≤ m) (m2 : m ≠ st.next) (m3 : m < st.next + k) (hb : ex.brk = true → b = true) :
    LTI E (fun x => x ≠ m ∧ TgF st.next st.loops st.excs b x) st s3 := by
  refine P.tgt.mono (fun x h => ?_)
  rcases h with h | h
  · exact ⟨by omega, .inl (by omega)⟩
  · exact ⟨h.ne_ctx hctx m3 hlo h2, h.mono (by omega) hb⟩

theorem HeadFF.cnt3F {st s3 : St} {k m lo : Nat} {exT : Ex} {nT : Nat} (H : HeadFF E st s3 k m lo exT nT)
    (P : EnterCF E st s3 st.cur k .condT exT nT) : cnt (rE E) s3.edges = cnt (rE E) st.edges + (1 + nT) := by
  rw [P.cnt, cnt_cons_cond_new (rE_true.mpr H.he.reach) rfl H.he.calm.1]; omega

theorem HeadFF.cur_neF {st s3 : St} {k m lo : Nat} {exT : Ex} {nT : Nat} (H : HeadFF E st s3 k m lo exT nT)
    (P : EnterCF E st s3 st.cur k .condT exT nT) : s3.cur ≠ st.cur ∧ s3.cur ≠ m := by
  have := H.w.cur
  have := H.m2
  have := H.m3
  rcases P.own with h | h <;> constructor <;> omega

/-- no `else`: `cond → m` is the second conditional edge of the test block -/
theorem nil_joinF {st s3 : St} {k m lo : Nat} {exT : Ex} {nT : Nat} (H : HeadFF E st s3 k m lo exT nT)
    (hf : Fut E (st.next + k) (setCur ((s3.edge st.cur m .condF).edgeUnlessExit s3.cur m .normal) m).next
      (setCur ((s3.edge st.cur m .condF).edgeUnlessExit s3.cur m .normal) m)) :
    JoinCF E st (setCur ((s3.edge st.cur m .condF).edgeUnlessExit s3.cur m .normal) m) m (exT.normal || true) exT (1 + nT) := by
  have f3 : Fut E (st.next + k) s3.next s3 :=
    ((hf.back_setCur.back_eue (.inl H.m3)).back_edge (.inl H.m3)).mono (Nat.le_refl _) (by simp)
  have P := H.enter f3
  obtain ⟨hc1, hc2⟩ := H.cur_neF P
  have S : StepCF E st (s3.edge st.cur m .condF) m s3.cur exT.normal true exT (1 + nT) := by
    refine ⟨?_, fun h => ⟨(P.normal h).reach, (P.normal h).calm.edge (Ne.symm hc1)⟩, P.dead, fun _ => ?_, ?_, P.jmp, ?_⟩
    · rw [edge_edges, cnt_cons_cond_old rfl P.mem rfl, H.cnt3F P]
    · exact R.step H.he.reach (hf.mem (eue_memF (List.mem_cons_self ..)))
    · exact (P.calm m H.m1 H.m2 H.m3 H.cm).edge (Ne.symm H.m1)
    · exact ((P.tgtmF H.ctx H.h2 H.hlo H.m2 H.m3 id).mono (fun t h => .inl h)).edge (fun _ => .inr ⟨rfl, rfl⟩)
  exact S.joinF hc2 (fun e h => hf.mem h)

/-! ### `then` and `else` both processed -/
/-- `a`, `b`: the blocks in which the two parts end; `na`, `nb`: they are live ends -/
structure TwoCF (E : List Edge) (st s5 : St) (m a b : Nat) (na nb : Bool) (ex : Ex) (n : Nat) : Prop where
  cnt : cnt (rE E) s5.edges = cnt (rE E) st.edges + n
  aN : na = true → R E a ∧ Calm s5 a
  aD : na = false → ¬ R E a
  bN : nb = true → R E b ∧ Calm s5 b
  bD : nb = false → ¬ R E b
  ab : a ≠ b
  am : a ≠ m
  bm : b ≠ m
  calm : Calm s5 m
  jmp : Jmp E st.loops st.excs ex
  tgt : LTI E (fun t => t ≠ m ∧ TgF st.next st.loops st.excs ex.brk t) st s5

theorem TwoCF.symmF {st s5 : St} {m a b : Nat} {na nb : Bool} {ex : Ex} {n : Nat} (T : TwoCF E st s5 m a b na nb ex n) :
    TwoCF E st s5 m b a nb na ex n :=
  ⟨T.cnt, T.bN, T.bD, T.aN, T.aD, Ne.symm T.ab, T.bm, T.am, T.calm, T.jmp, T.tgt⟩

theorem TwoCF.stepF {st s5 : St} {m a b : Nat} {na nb : Bool} {ex : Ex} {n : Nat} (T : TwoCF E st s5 m a b na nb ex n)
    (hsub : ∀ e ∈ (s5.edgeUnlessExit a m .normal).edges, e ∈ E) :
    StepCF E st (s5.edgeUnlessExit a m .normal) m b nb na ex n := by
  refine ⟨?_, fun h => ⟨(T.bN h).1, (T.bN h).2.eue T.ab⟩, T.bD, fun h => ?_, T.calm.eue T.am, T.jmp, ?_⟩
  · rw [cnt_eue_plain _ _ _ _ rfl (by intro h; cases h), T.cnt]
  · exact R.step (T.aN h).1 (hsub _ (T.aN h).2.eue_selfF)
  · refine LTI.eue (T.tgt.mono (fun t h => .inl h)) (fun hr => ?_)
    cases hna : na
    · exact absurd hr (T.aD hna)
    · exact .inr ⟨rfl, rfl⟩

/-- both parts end in a terminator: a fresh unreachable block becomes current -/
theorem TwoCF.termF {st s5 : St} {m a b : Nat} {na nb : Bool} {ex : Ex} {n : Nat} (T : TwoCF E st s5 m a b na nb ex n)
    (hbt : (s5.blockTerminates a && s5.blockTerminates b) = true) (w5 : WF s5) {lo : Nat} (hlo : lo ≤ s5.next)
    (hf : Fut E lo (s5.next + 1) (setCur (bumpU s5) s5.next)) :
    JoinCF E st (setCur (bumpU s5) s5.next) m (na || nb) ex n := by
  rw [Bool.and_eq_true] at hbt
  have hna : na = false := by
    cases hna : na
    · rfl
    · have := (T.aN hna).2.btF; rw [this] at hbt; cases hbt.1
  have hnb : nb = false := by
    cases hnb : nb
    · rfl
    · have := (T.bN hnb).2.btF; rw [this] at hbt; cases hbt.2
  subst hna; subst hnb
  exact ⟨T.cnt, (fun h => by cases h), .inr (fresh_dead w5 hlo hf), T.calm, T.jmp,
    (T.tgt.mono (fun t h => .inl h)).of_edges_eq rfl⟩

theorem else_twoF {st s3 s5 : St} {k m lo : Nat} {exT exE : Ex} {nT nE : Nat} (H : HeadFF E st s3 k m lo exT nT)
    (P3 : EnterCF E st s3 st.cur k .condT exT nT) (P5 : EnterCF E s3 s5 st.cur 1 .condF exE nE) :
    TwoCF E st s5 m s3.cur s5.cur exT.normal exE.normal (exT.union exE) (1 + nT + nE) := by
  obtain ⟨hc1, hc2⟩ := H.cur_neF P3
  have hk := H.w3.cur
  have hnx := H.hnx
  have hm3 := H.m3
  have ho5 := P5.own
  refine ⟨?_, fun h => ⟨(P3.normal h).reach, P5.calm _ hc1 (by omega) (by omega) (P3.normal h).calm⟩, P3.dead,
    fun h => ⟨(P5.normal h).reach, (P5.normal h).calm⟩, P5.dead, by omega, hc2, by omega,
    P5.calm m H.m1 (by omega) (by omega) (P3.calm m H.m1 H.m2 H.m3 H.cm),
    P3.jmp.union (P5.jmp.cast H.sm.loops.symm H.sm.excs.symm), ?_⟩
  · rw [P5.cnt, cnt_cons_cond_old rfl P3.mem rfl, H.cnt3F P3]; omega
  · refine (P3.tgtmF H.ctx H.h2 H.hlo H.m2 H.m3 brk_union_l).trans ?_
    refine (P5.tgtmF (b := (exT.union exE).brk) (H.ctx.same H.sm) H.h2 H.hlo (by omega) (by omega) brk_union_r).mono ?_
    intro x h
    obtain ⟨h1, h2⟩ := h
    rw [H.sm.loops, H.sm.excs] at h2
    exact ⟨h1, h2.mono (by omega) id⟩

/-- the general `else`: facts about the state after both parts -/
theorem else_twoF' (ih : ∀ ss, sizeL ss ≤ N → QFL E ss) (orelse : List Stmt) (hsz : sizeL orelse ≤ N) (fc : FC) (il : Bool)
    {st s3 : St} {k m lo : Nat} {exT : Ex} {nT : Nat} (H : HeadFF E st s3 k m lo exT nT) (hc : CtxF fc il st) (hok : okFL il orelse = true)
    (f5 : Fut E (st.next + k) (elseTail s3 st.cur s3.cur orelse).next (elseTail s3 st.cur s3.cur orelse)) :
    TwoCF E st (elseTail s3 st.cur s3.cur orelse) m s3.cur (elseTail s3 st.cur s3.cur orelse).cur exT.normal (sxL orelse).ex.normal
      (exT.union (sxL orelse).ex) (1 + nT + ldLX fc orelse) := by
  have hcur := H.w.cur
  have hnx := H.hnx
  have h2 := H.h2
  have hlo := H.hlo
  have hm3 := H.m3
  have hcl : st.cur < s3.next := by omega
  obtain ⟨k5, sm5, hn5⟩ := elseTail_frame' orelse s3 H.w3 st.cur s3.cur hcl
  have w4 := branch_wf H.w3 hcl .condF
  have hctx4 : CtxLt (setCur ((bump s3).edge st.cur s3.next .condF) s3.next) (st.next + k) :=
    ((H.w.ctxLt (m := st.next + k) (by omega)).same H.sm).of_eq rfl rfl
  have ht := elseTail_cntF ih orelse hsz fc il s3 st.cur s3.cur H.w3 (hc.same H.sm) hok hcl H.he.reach
  have back5 : Fut E (st.next + k) s3.next (elseTail s3 st.cur s3.cur orelse) → Fut E (st.next + k) s3.next s3 := fun f => by
    unfold elseTail at f
    exact ((f.back_list w4 hctx4 (by omega) (by obb)).back_setCur.back_edge (.inr (by obb))).back_bump
  exact else_twoF H (H.enter (back5 (f5.mono (Nat.le_refl _) (by omega)))) (ht (f5.mono (by omega) (Nat.le_refl _)))

/-! ### the `else` part is an `elif` chain (`s6` = state after the chain, which joins into `m`) -/
theorem rec_stepF {st s3 s6 : St} {k m lo : Nat} {exT : Ex} {nT : Nat} (H : HeadFF E st s3 k m lo exT nT) {nr : Bool} {exR : Ex} {nR : Nat}
    (j : Inv m s3.next (setCur ((bump s3).edge st.cur s3.next .condF) s3.next) s6)
    (htgt : TI (fun x => x < st.next + k ∨ s3.next ≤ x) (setCur ((bump s3).edge st.cur s3.next .condF) s3.next) s6)
    (hrec : Fut E (s3.next + 1) s6.next s6 → EntryC E (setCur ((bump s3).edge st.cur s3.next .condF) s3.next) →
      JoinCF E (setCur ((bump s3).edge st.cur s3.next .condF) s3.next) s6 m nr exR nR)
    (f6 : Fut E (st.next + k) s6.next s6) :
    StepCF E st s6 m s3.cur exT.normal nr (exT.union exR) (1 + nT + nR) ∧ (s6.cur = m ∨ ¬ R E s6.cur) ∧ (nr = true → s6.cur = m) ∧ s3.cur ≠ m := by
  have hcur := H.w.cur
  have hnx := H.hnx
  have hm3 := H.m3
  have hk := H.w3.cur
  have hjn : s3.next + 1 ≤ s6.next := j.next_le
  have f3 : Fut E (st.next + k) s3.next s3 :=
    (((f6.mono (Nat.le_refl _) (by omega : s3.next ≤ s6.next)).back_TI htgt).back_setCur.back_edge (.inr (by obb))).back_bump
  have P3 := H.enter f3
  obtain ⟨hc1, hc2⟩ := H.cur_neF P3
  have hm4 : (st.cur, s3.next, ETy.condF) ∈ (setCur ((bump s3).edge st.cur s3.next .condF) s3.next).edges := List.mem_cons_self ..
  have he4 : EntryC E (setCur ((bump s3).edge st.cur s3.next .condF) s3.next) :=
    ⟨R.step H.he.reach (f6.mem (j.sub.1 _ hm4)),
     ((Untouched.calm (H.w3.untouched (Nat.le_refl _)) : Calm s3 s3.next).edge (s := bump s3) (a := st.cur) (b := s3.next) (t := .condF) (by show st.cur ≠ s3.next; omega))⟩
  have J := hrec (f6.mono (by omega) (Nat.le_refl _)) he4
  refine ⟨⟨?_, fun h => ⟨(P3.normal h).reach, ?_⟩, P3.dead, fun h => (J.normal h).2, J.calm,
    P3.jmp.union (J.jmp.cast H.sm.loops.symm H.sm.excs.symm), ?_⟩, J.cur, fun h => (J.normal h).1, hc2⟩
  · have h4 : cnt (rE E) (setCur ((bump s3).edge st.cur s3.next .condF) s3.next).edges = cnt (rE E) s3.edges :=
      cnt_cons_cond_old rfl P3.mem rfl
    rw [J.cnt, h4, H.cnt3F P3]; omega
  · refine j.calm hc2 hk ?_
    exact ((P3.normal h).calm.edge (s := bump s3) (a := st.cur) (b := s3.next) (t := .condF) (Ne.symm hc1))
  · have t3 : LTI E (fun t => (t ≠ m ∧ TgF st.next st.loops st.excs (exT.union exR).brk t) ∨ (t = m ∧ nr = true)) st (bump s3) :=
      ((P3.tgtmF H.ctx H.h2 H.hlo H.m2 H.m3 brk_union_l).mono (fun t h => .inl h)).of_edges_eq rfl
    have t4 : LTI E (fun t => (t ≠ m ∧ TgF st.next st.loops st.excs (exT.union exR).brk t) ∨ (t = m ∧ nr = true)) st
        (setCur ((bump s3).edge st.cur s3.next .condF) s3.next) :=
      (t3.edge (a := st.cur) (b := s3.next) (t := .condF) (fun _ => .inl ⟨by omega, .inl (by omega)⟩)).of_edges_eq rfl
    refine t4.trans (J.tgt.mono (fun t ht => ?_))
    rcases ht with ⟨h1, h2⟩ | h
    · have h2' : TgF (s3.next + 1) s3.loops s3.excs exR.brk t := h2
      rw [H.sm.loops, H.sm.excs] at h2'
      exact .inl ⟨h1, h2'.mono (by omega) brk_union_r⟩
    · exact .inr h

/-! ### the `elif` chain `procIfElif` -/
theorem okFL_sgl_elifcF {il : Bool} {s e : Nat} {a b : List Stmt} (h : okFL il [.elifc s e a b] = true) :
    okFL il a = true ∧ okFL il b = true := by
  rw [okFL_cons, okFL_nil, Bool.and_true, okFS_elifc, Bool.and_eq_true] at h; exact h
theorem okFL_sgl_iteF {il : Bool} {s e : Nat} {a b : List Stmt} (h : okFL il [.ite s e a b] = true) :
    okFL il a = true ∧ okFL il b = true := by
  rw [okFL_cons, okFL_nil, Bool.and_true, okFS_ite, Bool.and_eq_true] at h; exact h

theorem elifHead_headFF (ih : ∀ ss, sizeL ss ≤ N → QFL E ss) (thn : List Stmt) (h1 : sizeL thn ≤ N) (fc : FC) (il : Bool) (st : St) (s e : Nat)
    (w : WF st) (hc : CtxF fc il st) (hok : okFL il thn = true) (he : EntryC E st) {fm lo : Nat} (hctx : CtxLt st lo) (h2 : 2 ≤ lo)
    (hlo : lo ≤ fm) (hfl : fm < st.next) (hfc : fm ≠ st.cur) (hcm : Calm st fm) :
    HeadFF E st (elifHead st s e thn) 1 fm lo (sxL thn).ex (ldLX fc thn) := by
  obtain ⟨k, sm, hnx⟩ := elifHead_frame' thn st s e w
  exact ⟨w, he, elifHead_cntF ih thn h1 fc il st s e w hc hok he, sm, k.wf, hnx, hctx, h2, hlo, hfc, by omega, by omega, hcm, k.calm hfc hfl hcm⟩

theorem ifHead_headFF (ih : ∀ ss, sizeL ss ≤ N → QFL E ss) (thn : List Stmt) (h1 : sizeL thn ≤ N) (fc : FC) (il : Bool) (st : St) (s e : Nat)
    (w : WF st) (hc : CtxF fc il st) (hok : okFL il thn = true) (he : EntryC E st) :
    HeadFF E st (ifHead st s e thn) 2 (st.next + 1) st.next (sxL thn).ex (ldLX fc thn) := by
  obtain ⟨k, sm, hnx⟩ := ifHead_frame' thn st s e w
  have hcur := w.cur
  refine ⟨w, he, ifHead_cntF ih thn h1 fc il st s e w hc hok he, sm, k.wf, hnx, w.ctxLt (Nat.le_refl _), w.two, by omega, by omega, by omega,
    by omega, Untouched.calm (w.untouched (by omega)), ?_⟩
  unfold ifHead
  have hco : Own st.cur 0 st.cur := .inl rfl
  have i1 := ((((Inv.refl w hco).add (b := st.cur) (p := s) (q := e) (ty := .other) hco w.cur).bump.bump).edge (a := st.cur) (b := st.next)
    (t := .condT) hco (by ob) (by ob)).setCur (x := st.next) (by ob) (by ob)
  obtain ⟨j, _⟩ := procList_frame thn _ i1.wf st.next (st.next + 2) (.inl rfl) (by obb)
  refine j.calm (by omega) (by omega) ?_
  have c0 : Calm st (st.next + 1) := Untouched.calm (w.untouched (by omega))
  exact (c0.add_ne (b := st.cur) (p := s) (q := e) (ty := .other) (by omega)).edge (a := st.cur) (b := st.next) (t := .condT) (by omega)

/-- the state from which an `elif` / `else` branch is processed -/
theorem HeadFF.facts4F {st s3 : St} {k m lo : Nat} {exT : Ex} {nT : Nat} (H : HeadFF E st s3 k m lo exT nT) {fc : FC} {il : Bool}
    (hc : CtxF fc il st) :
    WF (setCur ((bump s3).edge st.cur s3.next .condF) s3.next) ∧ CtxF fc il (setCur ((bump s3).edge st.cur s3.next .condF) s3.next) ∧
    CtxLt (setCur ((bump s3).edge st.cur s3.next .condF) s3.next) lo ∧
    CtxLt (setCur ((bump s3).edge st.cur s3.next .condF) s3.next) (st.next + k) ∧
    Calm (setCur ((bump s3).edge st.cur s3.next .condF) s3.next) m := by
  have hcur := H.w.cur
  have hnx := H.hnx
  have hm3 := H.m3
  refine ⟨branch_wf H.w3 (by omega) .condF, (hc.same H.sm).of_eq rfl rfl, (H.ctx.same H.sm).of_eq rfl rfl,
    ((H.w.ctxLt (m := st.next + k) (by omega)).same H.sm).of_eq rfl rfl, ?_⟩
  exact H.cm3.edge (s := bump s3) (a := st.cur) (b := s3.next) (t := .condF) (Ne.symm H.m1)

theorem elif_nil_cntF (ih : ∀ ss, sizeL ss ≤ N → QFL E ss) (thn : List Stmt) (h1 : sizeL thn ≤ N)
    (fc : FC) (il : Bool) (st : St) (s e fm lo : Nat) (w : WF st) (hc : CtxF fc il st) (hokt : okFL il thn = true)
    (hctx : CtxLt st lo) (h2lo : 2 ≤ lo) (hlo : lo ≤ fm) (hfl : fm < st.next) (hfc : fm ≠ st.cur) (hcm : Calm st fm)
    (hf : Fut E st.next (procIfElif st s e thn [] fm).next (procIfElif st s e thn [] fm)) (he : EntryC E st) :
    JoinCF E st (procIfElif st s e thn [] fm) fm ((sxL thn).ex.union (sxL []).ex).normal ((sxL thn).ex.union (sxL []).ex)
      (1 + ldLX fc thn + ldLX fc []) := by
  have H := elifHead_headFF ih thn h1 fc il st s e w hc hokt he hctx h2lo hlo hfl hfc hcm
  rw [procIfElif_nil] at hf ⊢
  simp only at hf ⊢
  unfold finishElif at hf ⊢
  rw [sxL_nil, ldLX_nil]
  have J0 := nil_joinF H (hf.mono (by omega) (Nat.le_refl _))
  exact J0.congrF rfl (Bool.or_false _).symm (J0.jmp.union (Jmp.empty rfl rfl rfl rfl)) rfl

theorem elif_cntF (ih : ∀ ss, sizeL ss ≤ N → QFL E ss) : ∀ (M : Nat) (thn orelse : List Stmt), sizeL thn + sizeL orelse ≤ M → sizeL thn ≤ N →
    sizeL orelse ≤ N →
    ∀ (fc : FC) (il : Bool) (st : St) (s e fm lo : Nat), WF st → CtxF fc il st → okFL il thn = true → okFL il orelse = true →
      CtxLt st lo → 2 ≤ lo → lo ≤ fm → fm < st.next → fm ≠ st.cur → Calm st fm →
      Fut E st.next (procIfElif st s e thn orelse fm).next (procIfElif st s e thn orelse fm) → EntryC E st →
      JoinCF E st (procIfElif st s e thn orelse fm) fm ((sxL thn).ex.union (sxL orelse).ex).normal ((sxL thn).ex.union (sxL orelse).ex)
        (1 + ldLX fc thn + ldLX fc orelse) := by
  intro M
  induction M with
  | zero =>
    intro thn orelse hM h1 _ fc il st s e fm lo w hc hokt _ hctx h2lo hlo hfl hfc hcm hf he
    have : orelse = [] := by
      rcases orelse with _ | ⟨o, os⟩
      · rfl
      · simp only [sizeL] at hM; omega
    subst this
    exact elif_nil_cntF ih thn h1 fc il st s e fm lo w hc hokt hctx h2lo hlo hfl hfc hcm hf he
  | succ M ihM =>
    intro thn orelse hM h1 h2 fc il st s e fm lo w hc hokt hoke hctx h2lo hlo hfl hfc hcm hf he
    have H := elifHead_headFF ih thn h1 fc il st s e w hc hokt he hctx h2lo hlo hfl hfc hcm
    obtain ⟨k, sm, hnx⟩ := elifHead_frame' thn st s e w
    have hcur := w.cur
    have hk := k.wf.cur
    have h2' := w.two
    obtain ⟨w4, hc4, hctx4, hctx4', hcm4⟩ := H.facts4F hc
    rcases orelse_cases orelse with rfl | ⟨s', e', a, b, rfl⟩ | ⟨s', e', a, b, rfl⟩ | ⟨o, os, rfl, hne1, hne2⟩
    · exact elif_nil_cntF ih thn h1 fc il st s e fm lo w hc hokt hctx h2lo hlo hfl hfc hcm hf he
    · rw [procIfElif_elif] at hf ⊢
      simp only at hf ⊢
      unfold finishElif at hf ⊢
      have hsz : sizeL a + sizeL b ≤ M ∧ sizeL a ≤ N ∧ sizeL b ≤ N := by simp only [sizeL, Stmt.size] at hM h2; omega
      have hokab := okFL_sgl_elifcF hoke
      obtain ⟨j, smj⟩ := procIfElif_frame a b _ 0 0 fm fm (elifHead st s e thn).next w4 (.inr (Nat.le_refl _)) (by obb) (.inl rfl) (by obb)
      have tgt := procIfElif_target a b _ 0 0 fm w4 (by obb) (fun x => x < st.next + 1 ∨ (elifHead st s e thn).next ≤ x)
        (TG.zone hctx4' (by omega) (by obb)) (.inl (by omega))
      have hrec := fun f he4 => ihM a b hsz.1 hsz.2.1 hsz.2.2 fc il _ 0 0 fm lo w4 hc4 hokab.1 hokab.2 hctx4 h2lo hlo (by obb) (by obb) hcm4 f he4
      rw [(sxL_single _).2.2, sxS_elifc, ldLX_singleF, ldSX_elifc]
      generalize elifHead st s e thn = s3 at *
      generalize procIfElif _ 0 0 a b fm = s6 at *
      have f6 : Fut E (st.next + 1) s6.next s6 := (hf.back_setCur.back_eue (.inl hfl)).mono (by omega) (by obb)
      obtain ⟨S, _, _, hne⟩ := rec_stepF H j tgt hrec f6
      exact S.joinF hne (fun e h => hf.mem h)
    · rw [procIfElif_ite] at hf ⊢
      simp only at hf ⊢
      unfold finishElif at hf ⊢
      have hsz : sizeL a + sizeL b ≤ M ∧ sizeL a ≤ N ∧ sizeL b ≤ N := by simp only [sizeL, Stmt.size] at hM h2; omega
      have hokab := okFL_sgl_iteF hoke
      obtain ⟨j, smj⟩ := procIfElif_frame a b _ s' e' fm fm (elifHead st s e thn).next w4 (.inr (Nat.le_refl _)) (by obb) (.inl rfl) (by obb)
      have tgt := procIfElif_target a b _ s' e' fm w4 (by obb) (fun x => x < st.next + 1 ∨ (elifHead st s e thn).next ≤ x)
        (TG.zone hctx4' (by omega) (by obb)) (.inl (by omega))
      have hrec := fun f he4 => ihM a b hsz.1 hsz.2.1 hsz.2.2 fc il _ s' e' fm lo w4 hc4 hokab.1 hokab.2 hctx4 h2lo hlo (by obb) (by obb) hcm4 f he4
      rw [(sxL_single _).2.2, sxS_ite, ldLX_singleF, ldSX_ite]
      generalize elifHead st s e thn = s3 at *
      generalize procIfElif _ s' e' a b fm = s6 at *
      have f6 : Fut E (st.next + 1) s6.next s6 := (hf.back_setCur.back_eue (.inl hfl)).mono (by omega) (by obb)
      obtain ⟨S, _, _, hne⟩ := rec_stepF H j tgt hrec f6
      exact S.joinF hne (fun e h => hf.mem h)
    · rw [procIfElif_else _ _ _ _ _ _ _ hne1 hne2] at hf ⊢
      simp only at hf ⊢
      unfold finishElif at hf ⊢
      obtain ⟨k5, sm5, hn5⟩ := elseTail_frame' (o :: os) _ k.wf st.cur (elifHead st s e thn).cur (by obb)
      have T := else_twoF' ih (o :: os) h2 fc il H hc hoke
      generalize elifHead st s e thn = s3 at *
      generalize elseTail s3 st.cur s3.cur (o :: os) = s5 at *
      cases hbt : (s5.blockTerminates s3.cur && s5.blockTerminates s5.cur)
      · rw [hbt] at hf
        simp only [Bool.false_eq_true, ↓reduceIte] at hf ⊢
        have f5 : Fut E (st.next + 1) s5.next s5 :=
          ((hf.back_setCur.back_eue (.inl hfl)).back_eue (.inl hfl)).mono (by omega) (by obb)
        have T5 := T f5
        exact (T5.symmF.stepF (fun e h => hf.mem (eue_memF h))).joinF T5.am (fun e h => hf.mem h)
      · rw [hbt] at hf
        simp only [↓reduceIte] at hf ⊢
        have f5 : Fut E (st.next + 1) s5.next s5 := (hf.mono (by omega) (by obb)).back_setCur.back_bumpU
        exact (T f5).termF hbt k5.wf (lo := st.next) (by obb) hf

/-! ### `procIf` -/
private theorem setCur_eueF (s : St) (c a b : Nat) (t : ETy) : (setCur s c).edgeUnlessExit a b t = setCur (s.edgeUnlessExit a b t) c := by
  unfold St.edgeUnlessExit
  show (if s.hasSucc a exitB = true then setCur s c else (setCur s c).edge a b t) = _
  split <;> rfl

private theorem setCur_setCurF (s : St) (a b : Nat) : setCur (setCur s a) b = setCur s b := rfl

/-- `if … elif …`: the `else` part is a chain that joins into the merge block of the `if` -/
theorem tail_joinF (ih : ∀ ss, sizeL ss ≤ N → QFL E ss) (thn a b : List Stmt) (h1 : sizeL thn ≤ N) (ha : sizeL a ≤ N) (hb : sizeL b ≤ N)
    (fc : FC) (il : Bool) (st : St) (s e s' e' : Nat) (w : WF st) (hc : CtxF fc il st) (hokt : okFL il thn = true)
    (hoka : okFL il a = true) (hokb : okFL il b = true) (he : EntryC E st)
    (hf : Fut E st.next (procIfElifTail (ifHead st s e thn) st.cur (ifHead st s e thn).cur (st.next + 1) s' e' a b).next
      (procIfElifTail (ifHead st s e thn) st.cur (ifHead st s e thn).cur (st.next + 1) s' e' a b)) :
    JoinCF E st (procIfElifTail (ifHead st s e thn) st.cur (ifHead st s e thn).cur (st.next + 1) s' e' a b) (st.next + 1)
      ((sxL thn).ex.normal || ((sxL a).ex.union (sxL b).ex).normal) ((sxL thn).ex.union ((sxL a).ex.union (sxL b).ex))
      (1 + ldLX fc thn + (1 + ldLX fc a + ldLX fc b)) := by
  have H := ifHead_headFF ih thn h1 fc il st s e w hc hokt he
  obtain ⟨k, sm, hnx⟩ := ifHead_frame' thn st s e w
  have hcur := w.cur
  have hk := k.wf.cur
  have h2' := w.two
  obtain ⟨w4, hc4, hctx4, hctx4', hcm4⟩ := H.facts4F hc
  rw [procIfElifTail_eq] at hf ⊢
  simp only at hf ⊢
  obtain ⟨j, smj⟩ := procIfElif_frame a b _ s' e' (st.next + 1) (st.next + 1) (ifHead st s e thn).next w4 (.inr (Nat.le_refl _)) (by obb)
    (.inl rfl) (by obb)
  have tgt := procIfElif_target a b _ s' e' (st.next + 1) w4 (by obb) (fun x => x < st.next + 2 ∨ (ifHead st s e thn).next ≤ x)
    (TG.zone hctx4' (by omega) (by obb)) (.inl (by omega))
  have hrec := fun f he4 => elif_cntF ih _ a b (Nat.le_refl _) ha hb fc il _ s' e' (st.next + 1) st.next w4 hc4 hoka hokb hctx4 h2' (by omega)
    (by obb) (by obb) hcm4 f he4
  have hjn := j.next_le
  generalize ifHead st s e thn = s3 at *
  generalize procIfElif _ s' e' a b (st.next + 1) = s6 at *
  have hml : st.next + 1 < st.next + 2 := by omega
  cases hu : s6.unreach.contains s6.cur
  · rw [hu] at hf
    simp only [Bool.false_eq_true, ↓reduceIte] at hf ⊢
    have f6 : Fut E (st.next + 2) s6.next s6 :=
      ((hf.mono (lo' := st.next + 2) (by omega) (Nat.le_refl _)).back_setCur.back_eue (.inl hml)).mono (Nat.le_refl _) (by obb)
    obtain ⟨S, _, _, hne⟩ := rec_stepF H j tgt hrec f6
    exact S.joinF hne (fun e h => hf.mem h)
  · rw [hu] at hf
    simp only [↓reduceIte] at hf ⊢
    cases hbt : s6.blockTerminates s3.cur
    · rw [hbt] at hf
      simp only [Bool.false_eq_true, ↓reduceIte] at hf ⊢
      rw [setCur_eueF, setCur_setCurF] at hf ⊢
      have f6 : Fut E (st.next + 2) s6.next s6 :=
        ((hf.mono (lo' := st.next + 2) (by omega) (Nat.le_refl _)).back_setCur.back_eue (.inl hml)).mono (Nat.le_refl _) (by obb)
      obtain ⟨S, _, _, hne⟩ := rec_stepF H j tgt hrec f6
      exact S.joinF hne (fun e h => hf.mem h)
    · rw [hbt] at hf
      simp only [↓reduceIte] at hf ⊢
      have f6 : Fut E (st.next + 2) s6.next s6 := hf.mono (by omega) (Nat.le_refl _)
      obtain ⟨S, hcur6, hrc, _⟩ := rec_stepF H j tgt hrec f6
      exact S.plainF hbt hcur6 hrc

theorem procIf_cntF (ih : ∀ ss, sizeL ss ≤ N → QFL E ss) (thn orelse : List Stmt) (h1 : sizeL thn ≤ N) (h2 : sizeL orelse ≤ N) :
    ∀ (fc : FC) (il : Bool) (st : St) (s e : Nat), WF st → CtxF fc il st → okFL il thn = true → okFL il orelse = true →
      Fut E st.next (procIf st s e thn orelse).next (procIf st s e thn orelse) → EntryC E st →
      PostF E st (procIf st s e thn orelse) ((sxL thn).ex.union (sxL orelse).ex) (1 + ldLX fc thn + ldLX fc orelse) := by
  intro fc il st s e w hc hokt hoke hf he
  have H := ifHead_headFF ih thn h1 fc il st s e w hc hokt he
  obtain ⟨k, sm, hnx⟩ := ifHead_frame' thn st s e w
  have hcur := w.cur
  have hk := k.wf.cur
  have h2' := w.two
  rcases orelse_cases orelse with rfl | ⟨s', e', a, b, rfl⟩ | ⟨s', e', a, b, rfl⟩ | ⟨o, os, rfl, hne1, hne2⟩
  · rw [procIf_nil] at hf ⊢
    simp only at hf ⊢
    rw [sxL_nil, ldLX_nil]
    have J0 := nil_joinF H (hf.mono (by omega) (Nat.le_refl _))
    have J := J0.congrF (nrm' := ((sxL thn).ex.union { normal := true }).normal)
      (ex' := (sxL thn).ex.union { normal := true }) (n' := 1 + ldLX fc thn + 0) rfl (Bool.or_false _).symm
      (J0.jmp.union (Jmp.empty rfl rfl rfl rfl)) rfl
    exact J.postF w hf (by omega) (by obb)
  · have hsz : sizeL a ≤ N ∧ sizeL b ≤ N := by simp only [sizeL, Stmt.size] at h2; omega
    have hokab := okFL_sgl_elifcF hoke
    rw [procIf_elif] at hf ⊢
    rw [(sxL_single _).2.2, sxS_elifc, ldLX_singleF, ldSX_elifc]
    have J := tail_joinF ih thn a b h1 hsz.1 hsz.2 fc il st s e 0 0 w hc hokt hokab.1 hokab.2 he hf
    obtain ⟨jt, _⟩ := elifTail_frame' a b _ k.wf st.cur (ifHead st s e thn).cur (st.next + 1) 0 0 (by obb) hk (by obb)
    have hjn := jt.next_le
    exact JoinCF.postF (ex := (sxL thn).ex.union ((sxL a).ex.union (sxL b).ex)) J w hf (by omega) (by omega)
  · have hsz : sizeL a ≤ N ∧ sizeL b ≤ N := by simp only [sizeL, Stmt.size] at h2; omega
    have hokab := okFL_sgl_iteF hoke
    rw [procIf_ite] at hf ⊢
    rw [(sxL_single _).2.2, sxS_ite, ldLX_singleF, ldSX_ite]
    have J := tail_joinF ih thn a b h1 hsz.1 hsz.2 fc il st s e s' e' w hc hokt hokab.1 hokab.2 he hf
    obtain ⟨jt, _⟩ := elifTail_frame' a b _ k.wf st.cur (ifHead st s e thn).cur (st.next + 1) s' e' (by obb) hk (by obb)
    have hjn := jt.next_le
    exact JoinCF.postF (ex := (sxL thn).ex.union ((sxL a).ex.union (sxL b).ex)) J w hf (by omega) (by omega)
  · rw [procIf_else _ _ _ _ _ _ hne1 hne2] at hf ⊢
    simp only [edgeUnlessExit_cur] at hf ⊢
    obtain ⟨k5, sm5, hn5⟩ := elseTail_frame' (o :: os) _ k.wf st.cur (ifHead st s e thn).cur (by obb)
    have T := else_twoF' ih (o :: os) h2 fc il H hc hoke
    generalize ifHead st s e thn = s3 at *
    generalize elseTail s3 st.cur s3.cur (o :: os) = s5 at *
    have hml : st.next + 1 < st.next + 2 := by omega
    cases hbt : (s5.blockTerminates s3.cur && s5.blockTerminates s5.cur)
    · rw [hbt] at hf
      simp only [Bool.false_eq_true, ↓reduceIte] at hf ⊢
      have f5 : Fut E (st.next + 2) s5.next s5 :=
        (((hf.mono (lo' := st.next + 2) (by omega) (Nat.le_refl _)).back_setCur.back_eue (.inl hml)).back_eue (.inl hml)).mono
          (Nat.le_refl _) (by obb)
      have T5 := T f5
      have J := (T5.stepF (fun e h => hf.mem (eue_memF h))).joinF T5.bm (fun e h => hf.mem h)
      exact JoinCF.postF (ex := (sxL thn).ex.union (sxL (o :: os)).ex) (J.congrF (Bool.or_comm _ _) rfl J.jmp rfl) w hf (by omega) (by obb)
    · rw [hbt] at hf
      simp only [↓reduceIte] at hf ⊢
      have f5 : Fut E (st.next + 2) s5.next s5 := (hf.mono (by omega) (by obb)).back_setCur.back_bumpU
      have J := (T f5).termF hbt k5.wf (lo := st.next) (by obb) hf
      exact JoinCF.postF (ex := (sxL thn).ex.union (sxL (o :: os)).ex) J w hf (by omega) (by obb)

end main
end PV.CFGFin
#print axioms PV.CFGFin.procIf_cntF
