import PV.Proofs.CFGSound4Eval
/-! randomised evaluation, nesting depth up to 4, biased towards `try … finally` inside `finally` bodies -/
namespace PV.CFGSound.Eval4
open PV.CFG PV.Py PV.CFGSound

def nxt (g : Nat) : Nat := (g * 6364136223846793005 + 1442695040888963407) % 18446744073709551616
def pick (g n : Nat) : Nat := (g / 4294967296) % n

mutual
  partial def genS (d : Nat) (il : Bool) (g : Nat) : Stmt × Nat :=
    let g := nxt g
    let k := pick g (if d = 0 then 6 else 14)
    match k with
    | 0 | 1 => (.simple 0 0 [] false, g)
    | 2 => (.ret 0 0 [] false, g)
    | 3 => (.raise 0 0, g)
    | 4 => (if il then .brk 0 0 else .simple 0 0 [] false, g)
    | 5 => (if il then .cont 0 0 else .raise 0 0, g)
    | 6 => let (a, g) := genL (d - 1) il g; let g := nxt g
           if pick g 2 = 0 then (.ite 0 0 a [], g) else let (b, g) := genL (d - 1) il g; (.ite 0 0 a [.elsec 0 0 b], g)
    | 7 => let (a, g) := genL (d - 1) true g; let g := nxt g
           if pick g 3 = 0 then let (b, g) := genL (d - 1) il g; (.loop 0 0 a [.elsec 0 0 b], g) else (.loop 0 0 a [], g)
    | _ =>
      let (a, g) := genL (d - 1) il g
      let g := nxt g
      let nh := pick g 3
      let (h1, g) := genL (d - 1) il g
      let (h2, g) := genL (d - 1) il g
      let hs : List Stmt := if nh = 0 then [] else if nh = 1 then [.handler 0 0 h1] else [.handler 0 0 h1, .handler 0 0 h2]
      let g := nxt g
      let (c, g) := if pick g 3 = 0 ∧ nh ≠ 0 then genL (d - 1) il g else ([], g)
      let g := nxt g
      let (f, g) := if pick g 5 = 0 ∧ nh ≠ 0 then ([], g) else genL (d - 1) il g
      (.try_ 0 0 a hs c f, g)
  partial def genL (d : Nat) (il : Bool) (g : Nat) : List Stmt × Nat :=
    let (x, g) := genS d il g
    let g := nxt g
    match pick g 4 with
    | 0 | 1 => ([x], g)
    | 2 => let (y, g) := genS d il g; ([x, y], g)
    | _ => let (y, g) := genS (d - 1) il g; let (z, g) := genS d il g; ([x, y, z], g)
end

-- depth of `try … finally` nesting through `finally` bodies
mutual
  partial def finDepthS : Stmt → Nat
    | .ite _ _ a b | .loop _ _ a b => max (finDepthL a) (finDepthL b)
    | .elsec _ _ a | .handler _ _ a => finDepthL a
    | .try_ _ _ a hs c d => max (max (finDepthL a) (finDepthL hs)) (max (finDepthL c) (if d.isEmpty then 0 else 1 + finDepthL d))
    | _ => 0
  partial def finDepthL : List Stmt → Nat
    | [] => 0
    | x :: xs => max (finDepthS x) (finDepthL xs)
end

structure Tally where
  tested : Nat := 0
  deep2 : Nat := 0      -- finally-in-finally
  deep3 : Nat := 0
  fails : List (List Stmt) := []
  deriving Repr

def runRandom (n d seed : Nat) : Tally :=
  (List.range n).foldl (fun (acc : Tally × Nat) _ =>
    let (b, g) := genL d false acc.2
    let b := ren b
    let t := acc.1
    if okL4 false b then
      let fd := finDepthL b
      let t := { t with tested := t.tested + 1, deep2 := t.deep2 + (if fd ≥ 2 then 1 else 0), deep3 := t.deep3 + (if fd ≥ 3 then 1 else 0) }
      if (bad b).isEmpty then (t, g) else ({ t with fails := if t.fails.length < 5 then b :: t.fails else t.fails }, g)
    else (t, g)) (({} : Tally), seed) |>.1

#eval runRandom 150000 3 12345
#eval runRandom 60000 4 777
