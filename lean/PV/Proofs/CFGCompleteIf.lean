import PV.Proofs.CFGCompleteM
import PV.Properties.C02
/-!
Completeness of the CFG mirror for structurally dead code — the induction over the program, part 2:
`if` / `elif` / `else`.
-/
namespace PV.CFGSound
open PV.CFG PV.SD

/-- `omega`, if necessary after normalising the `next` / `cur` fields of the primitive updates -/
macro "obb" : tactic => `(tactic| first | omega | ob)

section fwd
variable {E : List Edge} {s : St} {m : Nat} (a b c k p q : Nat) (t : ETy) (ty : Ty)
theorem DI.setCur (h : DI E s m) : DI E (setCur s c) m := h
theorem DI.bump (h : DI E s m) : DI E (bump s) m := h
theorem DI.bumpU (h : DI E s m) : DI E (bumpU s) m := h
theorem DI.add (h : DI E s m) : DI E (s.add b p q ty) m := h
end fwd

theorem procList_single_elsec (st : St) (s e : Nat) (b : List Stmt) : procList st [.elsec s e b] = procList st b := by
  rw [procList_cons, procStmt_elsec, procList_nil]

theorem structDead_single_elifc (s e : Nat) (a b : List Stmt) : structDead [.elifc s e a b] = structDead a ++ structDead b := by
  rw [structDead_eq', subDead_cons, subDead_nil, inStmt_elifc, deadInBlock_cons]
  simp [stops, isTerm, deadInBlock]

theorem structDead_single_ite (s e : Nat) (a b : List Stmt) : structDead [.ite s e a b] = structDead a ++ structDead b := by
  rw [structDead_eq', subDead_cons, subDead_nil, inStmt_ite, deadInBlock_cons]
  split <;> simp [linesOfL_nil, deadInBlock]

theorem elifL_single_elifc (s e : Nat) (a b : List Stmt) : elifL [.elifc s e a b] = s :: elifL a ++ elifL b := by
  rw [elifL_cons, elifL_nil, elifS_elifc, List.append_nil]
theorem elifL_single_ite (s e : Nat) (a b : List Stmt) : elifL [.ite s e a b] = elifL a ++ elifL b := by
  rw [elifL_cons, elifL_nil, elifS_ite, List.append_nil]

theorem elseEnds_cases {l : List Stmt} (h : elseEnds l = true) :
    (∃ s e a b, l = [.elifc s e a b] ∧ endsTerm a = true ∧ elseEnds b = true) ∨ (∃ s e body, l = [.elsec s e body] ∧ endsTerm body = true) := by
  rcases l with _ | ⟨x, _ | ⟨y, ys⟩⟩
  · rw [elseEnds] at h <;> simp_all
  · cases x
    case elifc s e a b =>
      rw [PV.C02.elseEnds_elif, Bool.and_eq_true] at h
      exact .inl ⟨s, e, a, b, rfl, h.1, h.2⟩
    case elsec s e body =>
      rw [PV.C02.elseEnds_else] at h
      exact .inr ⟨s, e, body, rfl, h⟩
    all_goals (rw [elseEnds] at h <;> simp_all)
  · rw [PV.C02.elseEnds_two] at h; cases h

theorem procIfElif_frame (thn orelse : List Stmt) (st : St) (s e fm c n : Nat) (w : WF st) (hc : Own c n st.cur) (hn : n ≤ st.next)
    (hfo : Own c n fm) (hfl : fm < st.next) :
    Inv c n st (procIfElif st s e thn orelse fm) ∧ Same st (procIfElif st s e thn orelse fm) :=
  elif_frame (frame_all (sizeL thn + sizeL orelse)).2 _ thn orelse (Nat.le_refl _) (Nat.le_add_right _ _) (Nat.le_add_left _ _)
    st s e fm w hc hn hfo hfl

theorem ifHead_frame' (thn : List Stmt) (st : St) (s e : Nat) (w : WF st) :
    Inv st.cur st.next st (ifHead st s e thn) ∧ Same st (ifHead st s e thn) ∧ st.next + 2 ≤ (ifHead st s e thn).next :=
  ifHead_frame (frame_all (sizeL thn)).2 thn (Nat.le_refl _) st s e w (.inl rfl) (Nat.le_refl _)

theorem elifHead_frame' (thn : List Stmt) (st : St) (s e : Nat) (w : WF st) :
    Inv st.cur st.next st (elifHead st s e thn) ∧ Same st (elifHead st s e thn) ∧ st.next + 1 ≤ (elifHead st s e thn).next :=
  elifHead_frame (frame_all (sizeL thn)).2 thn (Nat.le_refl _) st s e w (.inl rfl) (Nat.le_refl _)

theorem elseTail_frame' (orelse : List Stmt) (s3 : St) (w3 : WF s3) (cond te : Nat) (hcl : cond < s3.next) :
    Inv s3.cur 0 s3 (elseTail s3 cond te orelse) ∧ Same s3 (elseTail s3 cond te orelse) ∧ s3.next + 1 ≤ (elseTail s3 cond te orelse).next :=
  elseTail_frame (frame_all (sizeL orelse)).2 orelse (Nat.le_refl _) (Inv.refl w3 (.inl rfl)) (Nat.zero_le _) cond te (.inr (Nat.zero_le _)) hcl

/-- the state from which an `else` / `elif` branch is processed -/
theorem branch_wf {s3 : St} (w3 : WF s3) {cond : Nat} (hcl : cond < s3.next) (t : ETy) :
    WF (setCur ((bump s3).edge cond s3.next t) s3.next) := by
  have hcur := w3.cur
  exact (((Inv.refl w3 (.inl rfl) : Inv s3.cur 0 s3 s3).bump.edge (a := cond) (b := s3.next) (t := t) (.inr (Nat.zero_le _)) (by ob) (by ob)).setCur
    (x := s3.next) (.inr (Nat.zero_le _)) (by ob)).wf

section main
variable {E : List Edge} {S : List SRec} {N : Nat}

/-! ### the `then` branch -/
theorem ifHead_complete (ih : ∀ ss, sizeL ss ≤ N → CQL E S ss) (thn : List Stmt) (hsz : sizeL thn ≤ N) (il : Bool) (st : St) (s e : Nat)
    (w : WF st) (hl : LoopOK il st) (hok : okLC il thn = true)
    (hf : Fut E (st.next + 2) (ifHead st s e thn).next (ifHead st s e thn)) (hS : StS S (ifHead st s e thn)) :
    (∀ l ∈ structDead thn, l ∈ elifL thn ∨ DeadRec E S l) ∧ (stopsL thn = true → ¬ R E (ifHead st s e thn).cur) := by
  unfold ifHead at hf hS ⊢
  have hcur := w.cur
  have hc : Own st.cur st.next st.cur := .inl rfl
  have i0 : Inv st.cur st.next st st := Inv.refl w hc
  have i1 := (((i0.add (b := st.cur) (p := s) (q := e) (ty := .other) hc w.cur).bump.bump).edge (a := st.cur) (b := st.next)
    (t := .condT) hc (by ob) (by ob)).setCur (x := st.next) (by ob) (by ob)
  have h := ih thn hsz il _ i1.wf (hl.of_eq rfl) hok (hf.mono (by ob) (Nat.le_refl _)) hS
  exact ⟨h.1, fun hs => h.2 (.inr hs)⟩

theorem elifHead_complete (ih : ∀ ss, sizeL ss ≤ N → CQL E S ss) (thn : List Stmt) (hsz : sizeL thn ≤ N) (il : Bool) (st : St) (s e : Nat)
    (w : WF st) (hl : LoopOK il st) (hok : okLC il thn = true)
    (hf : Fut E (st.next + 1) (elifHead st s e thn).next (elifHead st s e thn)) (hS : StS S (elifHead st s e thn)) :
    (∀ l ∈ structDead thn, l ∈ elifL thn ∨ DeadRec E S l) ∧ (stopsL thn = true → ¬ R E (elifHead st s e thn).cur) := by
  unfold elifHead at hf hS ⊢
  have hcur := w.cur
  have hc : Own st.cur st.next st.cur := .inl rfl
  have i0 : Inv st.cur st.next st st := Inv.refl w hc
  have i1 := (((i0.add (b := st.cur) (p := s) (q := e) (ty := .other) hc w.cur).bump).edge (a := st.cur) (b := st.next)
    (t := .condT) hc (by ob) (by ob)).setCur (x := st.next) (by ob) (by ob)
  have h := ih thn hsz il _ i1.wf (hl.of_eq rfl) hok (hf.mono (by ob) (Nat.le_refl _)) hS
  exact ⟨h.1, fun hs => h.2 (.inr hs)⟩

/-- the `then` branch adds no edge into a block that exists already and is not named by the context stacks -/
theorem ifHead_DI (thn : List Stmt) (st : St) (s e : Nat) (w : WF st) {m lo : Nat} (hctx : CtxLt st lo) (h2 : 2 ≤ lo) (hm : lo ≤ m)
    (hne : m ≠ st.next) (hlt : m < st.next + 2) (hd : DI E st m) : DI E (ifHead st s e thn) m := by
  unfold ifHead
  have hcur := w.cur
  have hc : Own st.cur st.next st.cur := .inl rfl
  have i0 : Inv st.cur st.next st st := Inv.refl w hc
  have i1 := (((i0.add (b := st.cur) (p := s) (q := e) (ty := .other) hc w.cur).bump.bump).edge (a := st.cur) (b := st.next)
    (t := .condT) hc (by ob) (by ob)).setCur (x := st.next) (by ob) (by ob)
  have d1 : DI E ((bump (bump (st.add st.cur s e .other))).edge st.cur st.next .condT) m := DI.edge_ne hd (Ne.symm hne)
  exact DI.list (lo := lo) d1 i1.wf (hctx.of_eq rfl rfl) h2 hm (by ob)

theorem elifHead_DI (thn : List Stmt) (st : St) (s e : Nat) (w : WF st) {m lo : Nat} (hctx : CtxLt st lo) (h2 : 2 ≤ lo) (hm : lo ≤ m)
    (hlt : m < st.next) (hd : DI E st m) : DI E (elifHead st s e thn) m := by
  unfold elifHead
  have hcur := w.cur
  have hc : Own st.cur st.next st.cur := .inl rfl
  have i0 : Inv st.cur st.next st st := Inv.refl w hc
  have i1 := (((i0.add (b := st.cur) (p := s) (q := e) (ty := .other) hc w.cur).bump).edge (a := st.cur) (b := st.next)
    (t := .condT) hc (by ob) (by ob)).setCur (x := st.next) (by ob) (by ob)
  have d1 : DI E ((bump (st.add st.cur s e .other)).edge st.cur st.next .condT) m := DI.edge_ne hd (by omega)
  exact DI.list (lo := lo) d1 i1.wf (hctx.of_eq rfl rfl) h2 hm (by ob)

/-! ### a final `else` all of whose ends are terminators -/
theorem else_ends (ih : ∀ ss, sizeL ss ≤ N → CQL E S ss) (body : List Stmt) (hsz : sizeL body ≤ N) (il : Bool) (s' e' : Nat)
    {s3 : St} (w3 : WF s3) (hl : LoopOK il s3) (hok : okLC il body = true)
    (het : endsTerm body = true) (cond te : Nat) (hcl : cond < s3.next)
    (hf : Fut E s3.next (elseTail s3 cond te [.elsec s' e' body]).next (elseTail s3 cond te [.elsec s' e' body]))
    (hS : StS S (elseTail s3 cond te [.elsec s' e' body])) :
    ¬ R E (elseTail s3 cond te [.elsec s' e' body]).cur := by
  unfold elseTail at hf hS ⊢
  rw [procList_single_elsec] at hf hS ⊢
  exact (ih body hsz il _ (branch_wf w3 hcl .condF) (hl.of_eq rfl) hok (hf.mono (by ob) (Nat.le_refl _)) hS).2 (.inr (endsTerm_stopsL het))

theorem okLC_sgl_elifc {il : Bool} {s e : Nat} {a b : List Stmt} (h : okLC il [.elifc s e a b] = true) :
    okLC il a = true ∧ okLC il b = true := by
  rw [okLC_cons, okLC_nil, Bool.and_true, okSC_elifc, Bool.and_eq_true] at h; exact h
theorem okLC_sgl_ite {il : Bool} {s e : Nat} {a b : List Stmt} (h : okLC il [.ite s e a b] = true) :
    okLC il a = true ∧ okLC il b = true := by
  rw [okLC_cons, okLC_nil, Bool.and_true, okSC_ite, Bool.and_eq_true] at h; exact h
theorem okLC_sgl_elsec {il : Bool} {s e : Nat} {a : List Stmt} (h : okLC il [.elsec s e a] = true) : okLC il a = true := by
  rw [okLC_cons, okLC_nil, Bool.and_true, okSC_elsec] at h; exact h

/-! ### the `elif` chain, all of whose branches end in a terminator: every edge into the final merge block starts in an
unreachable block, and the block that is current afterwards is the merge block or an unreachable fresh block -/
theorem elifC (ih : ∀ ss, sizeL ss ≤ N → CQL E S ss) : ∀ (M : Nat) (thn orelse : List Stmt), sizeL thn + sizeL orelse ≤ M → sizeL thn ≤ N →
    sizeL orelse ≤ N →
    ∀ (il : Bool) (st : St) (s e fm lo : Nat), WF st → LoopOK il st → okLC il thn = true → okLC il orelse = true →
      endsTerm thn = true → elseEnds orelse = true → CtxLt st lo → 2 ≤ lo → lo ≤ fm → fm < st.next →
      Fut E st.next (procIfElif st s e thn orelse fm).next (procIfElif st s e thn orelse fm) → StS S (procIfElif st s e thn orelse fm) →
      DI E st fm →
      DI E (procIfElif st s e thn orelse fm) fm ∧
        ((procIfElif st s e thn orelse fm).cur = fm ∨ ¬ R E (procIfElif st s e thn orelse fm).cur) := by
  intro M
  induction M with
  | zero =>
    intro thn orelse hM _ _ il st s e fm lo _ _ _ _ _ hee
    rcases elseEnds_cases hee with ⟨s', e', a, b, rfl, _, _⟩ | ⟨s', e', body, rfl, _⟩ <;> (simp only [sizeL, Stmt.size] at hM; omega)
  | succ M ihM =>
    intro thn orelse hM h1 h2 il st s e fm lo w hl hokt hoke het hee hctx h2lo hlo hfl hf hS hd
    obtain ⟨k, sm, hnx⟩ := elifHead_frame' thn st s e w
    have hcur := w.cur
    have hk := k.wf.cur
    have hd3 := elifHead_DI (E := E) thn st s e w hctx h2lo hlo hfl hd
    have hh := elifHead_complete ih thn h1 il st s e w hl hokt
    have w4 := branch_wf k.wf (cond := st.cur) (by obb) .condF
    have hctx4 : CtxLt (setCur ((bump (elifHead st s e thn)).edge st.cur (elifHead st s e thn).next .condF) (elifHead st s e thn).next) lo :=
      (hctx.same sm).of_eq rfl rfl
    have hl4 : LoopOK il (setCur ((bump (elifHead st s e thn)).edge st.cur (elifHead st s e thn).next .condF) (elifHead st s e thn).next) :=
      (hl.same sm).of_eq rfl
    have hd4 : DI E (setCur ((bump (elifHead st s e thn)).edge st.cur (elifHead st s e thn).next .condF) (elifHead st s e thn).next) fm :=
      DI.edge_ne hd3 (by omega)
    rcases elseEnds_cases hee with ⟨s', e', a, b, rfl, hea, heb⟩ | ⟨s', e', body, rfl, heb⟩
    · rw [procIfElif_elif] at hf hS ⊢
      simp only at hf hS ⊢
      unfold finishElif at hf hS ⊢
      have hsz : sizeL a + sizeL b ≤ M ∧ sizeL a ≤ N ∧ sizeL b ≤ N := by simp only [sizeL, Stmt.size] at hM h2; omega
      have hokab := okLC_sgl_elifc hoke
      obtain ⟨j, smj⟩ := procIfElif_frame a b _ 0 0 fm (elifHead st s e thn).next 0 w4 (.inl rfl) (Nat.zero_le _) (.inr (Nat.zero_le _)) (by ob)
      have hjn := j.next_le
      have ihr := ihM a b hsz.1 hsz.2.1 hsz.2.2 il _ 0 0 fm lo w4 hl4 hokab.1 hokab.2 hea heb hctx4 h2lo hlo (by ob)
      have tgt := procIfElif_target a b _ 0 0 fm w4 (by ob) (fun x => x < st.next + 1 ∨ (elifHead st s e thn).next ≤ x)
        (TG.zone (hctx4.mono (by omega)) (by omega) (by ob)) (.inl (by omega))
      generalize elifHead st s e thn = s3 at *
      generalize procIfElif _ 0 0 a b fm = s5 at *
      have f5 := hf.back_setCur.back_eue (.inl (by omega))
      have hS5 := hS.back_setCur.back_eue
      have f3 := ((f5.mono (lo' := st.next + 1) (hi' := s3.next) (by omega) (by ob)).back_TI tgt).back_setCur.back_edge (.inr (by ob)) |>.back_bump
      have h3 : ¬ R E s3.cur := (hh f3 (hS5.of_inv j).back_setCur.back_edge.back_bump).2 (endsTerm_stopsL het)
      obtain ⟨d5, _⟩ := ihr (f5.mono (by ob) (by ob)) hS5 hd4
      exact ⟨(d5.eue_dead h3).setCur fm, .inl rfl⟩
    · rw [procIfElif_else _ _ _ _ _ _ _ (by intro _ _ _ _ h; cases h) (by intro _ _ _ _ h; cases h)] at hf hS ⊢
      simp only at hf hS ⊢
      unfold finishElif at hf hS ⊢
      have hszb : sizeL body ≤ N := by simp only [sizeL, Stmt.size] at h2; omega
      have hokb := okLC_sgl_elsec hoke
      obtain ⟨k5, sm5, hn5⟩ := elseTail_frame' [.elsec s' e' body] _ k.wf st.cur (elifHead st s e thn).cur (by obb)
      have hee5 := else_ends ih body hszb il s' e' k.wf (hl.same sm) hokb heb st.cur (elifHead st s e thn).cur (by obb)
      have dd : DI E (elseTail (elifHead st s e thn) st.cur (elifHead st s e thn).cur [.elsec s' e' body]) fm := by
        unfold elseTail; exact DI.list (lo := lo) hd4 w4 hctx4 h2lo hlo (by ob)
      have back5 : Fut E (st.next + 1) (elifHead st s e thn).next (elseTail (elifHead st s e thn) st.cur (elifHead st s e thn).cur [.elsec s' e' body]) →
          Fut E (st.next + 1) (elifHead st s e thn).next (elifHead st s e thn) := fun f => by
        unfold elseTail at f
        exact ((f.back_list w4 (hctx4.mono (by omega)) (by omega) (by obb)).back_setCur.back_edge (.inr (by obb))).back_bump
      have hS3 : StS S (elseTail (elifHead st s e thn) st.cur (elifHead st s e thn).cur [.elsec s' e' body]) → StS S (elifHead st s e thn) :=
        fun h => h.of_inv k5
      generalize elifHead st s e thn = s3 at *
      generalize elseTail s3 st.cur s3.cur [.elsec s' e' body] = s5 at *
      cases hbt : (s5.blockTerminates s3.cur && s5.blockTerminates s5.cur)
      · rw [hbt] at hf hS
        simp only [Bool.false_eq_true, ↓reduceIte] at hf hS ⊢
        have f5 := (hf.back_setCur.back_eue (.inl (by omega))).back_eue (.inl (by omega))
        have hS5 := hS.back_setCur.back_eue.back_eue
        have h5 : ¬ R E s5.cur := hee5 (f5.mono (by ob) (by ob)) hS5
        have h3 : ¬ R E s3.cur := (hh (back5 (f5.mono (by omega) (by ob))) (hS3 hS5)).2 (endsTerm_stopsL het)
        exact ⟨((dd.eue_dead h5).eue_dead h3).setCur fm, .inl rfl⟩
      · rw [hbt] at hf hS
        simp only [↓reduceIte] at hf hS ⊢
        exact ⟨(dd.bumpU).setCur _, .inr (fresh_dead k5.wf (lo := st.next) (by ob) hf)⟩

/-! ### the `elif` chain: structurally dead lines inside the branches -/
theorem mem_app_l {l : Nat} {A B : List Nat} {P : Prop} (h : l ∈ A ∨ P) : l ∈ A ++ B ∨ P := h.imp_left (fun h => List.mem_append.mpr (.inl h))
theorem mem_app_r {l : Nat} {A B : List Nat} {P : Prop} (h : l ∈ B ∨ P) : l ∈ A ++ B ∨ P := h.imp_left (fun h => List.mem_append.mpr (.inr h))

theorem elifA (ih : ∀ ss, sizeL ss ≤ N → CQL E S ss) : ∀ (M : Nat) (thn orelse : List Stmt), sizeL thn + sizeL orelse ≤ M → sizeL thn ≤ N →
    sizeL orelse ≤ N →
    ∀ (il : Bool) (st : St) (s e fm : Nat), WF st → LoopOK il st → okLC il thn = true → okLC il orelse = true → fm < st.next →
      Fut E st.next (procIfElif st s e thn orelse fm).next (procIfElif st s e thn orelse fm) → StS S (procIfElif st s e thn orelse fm) →
      ∀ l ∈ structDead thn ++ structDead orelse, l ∈ elifL thn ++ elifL orelse ∨ DeadRec E S l := by
  intro M
  induction M with
  | zero =>
    intro thn orelse hM h1 _ il st s e fm w hl hokt _ hfl hf hS
    have : orelse = [] := by
      rcases orelse with _ | ⟨o, os⟩
      · rfl
      · simp only [sizeL] at hM; omega
    subst this
    obtain ⟨k, sm, hnx⟩ := elifHead_frame' thn st s e w
    have hh := elifHead_complete ih thn h1 il st s e w hl hokt
    rw [procIfElif_nil] at hf hS
    simp only at hf hS
    unfold finishElif at hf hS
    generalize elifHead st s e thn = s3 at *
    have f3 := (hf.back_setCur.back_eue (.inl (by omega))).back_edge (.inl (by omega))
    intro l hl'
    rw [structDead_nil, List.append_nil] at hl'
    rw [elifL_nil, List.append_nil]
    exact (hh (f3.mono (by omega) (by ob)) hS.back_setCur.back_eue.back_edge).1 l hl'
  | succ M ihM =>
    intro thn orelse hM h1 h2 il st s e fm w hl hokt hoke hfl hf hS
    obtain ⟨k, sm, hnx⟩ := elifHead_frame' thn st s e w
    have hcur := w.cur
    have hk := k.wf.cur
    have hh := elifHead_complete ih thn h1 il st s e w hl hokt
    have w4 := branch_wf k.wf (cond := st.cur) (by obb) .condF
    have hctx4 : CtxLt (setCur ((bump (elifHead st s e thn)).edge st.cur (elifHead st s e thn).next .condF) (elifHead st s e thn).next) (st.next + 1) :=
      ((w.ctxLt (m := st.next + 1) (by omega)).same sm).of_eq rfl rfl
    have hl4 : LoopOK il (setCur ((bump (elifHead st s e thn)).edge st.cur (elifHead st s e thn).next .condF) (elifHead st s e thn).next) :=
      (hl.same sm).of_eq rfl
    have h2' := w.two
    rcases orelse_cases orelse with rfl | ⟨s', e', a, b, rfl⟩ | ⟨s', e', a, b, rfl⟩ | ⟨o, os, rfl, hne1, hne2⟩
    · rw [procIfElif_nil] at hf hS
      simp only at hf hS
      unfold finishElif at hf hS
      generalize elifHead st s e thn = s3 at *
      have f3 := (hf.back_setCur.back_eue (.inl (by omega))).back_edge (.inl (by omega))
      intro l hl'
      rw [structDead_nil, List.append_nil] at hl'
      rw [elifL_nil, List.append_nil]
      exact (hh (f3.mono (by omega) (by ob)) hS.back_setCur.back_eue.back_edge).1 l hl'
    · rw [procIfElif_elif] at hf hS
      simp only at hf hS
      unfold finishElif at hf hS
      have hsz : sizeL a + sizeL b ≤ M ∧ sizeL a ≤ N ∧ sizeL b ≤ N := by simp only [sizeL, Stmt.size] at hM h2; omega
      have hokab := okLC_sgl_elifc hoke
      obtain ⟨j, smj⟩ := procIfElif_frame a b _ 0 0 fm (elifHead st s e thn).next 0 w4 (.inl rfl) (Nat.zero_le _) (.inr (Nat.zero_le _)) (by obb)
      have hjn := j.next_le
      have ihr := ihM a b hsz.1 hsz.2.1 hsz.2.2 il _ 0 0 fm w4 hl4 hokab.1 hokab.2 (by obb)
      have tgt := procIfElif_target a b _ 0 0 fm w4 (by obb) (fun x => x < st.next + 1 ∨ (elifHead st s e thn).next ≤ x)
        (TG.zone hctx4 (by omega) (by obb)) (.inl (by omega))
      generalize elifHead st s e thn = s3 at *
      generalize procIfElif _ 0 0 a b fm = s5 at *
      have f5 := hf.back_setCur.back_eue (.inl (by omega))
      have hS5 := hS.back_setCur.back_eue
      have f3 := ((f5.mono (lo' := st.next + 1) (hi' := s3.next) (by omega) (by obb)).back_TI tgt).back_setCur.back_edge (.inr (by obb)) |>.back_bump
      have ht := (hh f3 (hS5.of_inv j).back_setCur.back_edge.back_bump).1
      have hr := ihr (f5.mono (by obb) (by obb)) hS5
      intro l hl'
      rw [structDead_single_elifc] at hl'
      rw [elifL_single_elifc]
      rcases List.mem_append.mp hl' with hl' | hl'
      · exact mem_app_l (ht l hl')
      · exact mem_app_r ((hr l hl').imp_left (fun h => List.mem_cons_of_mem _ h))
    · rw [procIfElif_ite] at hf hS
      simp only at hf hS
      unfold finishElif at hf hS
      have hsz : sizeL a + sizeL b ≤ M ∧ sizeL a ≤ N ∧ sizeL b ≤ N := by simp only [sizeL, Stmt.size] at hM h2; omega
      have hokab := okLC_sgl_ite hoke
      obtain ⟨j, smj⟩ := procIfElif_frame a b _ s' e' fm (elifHead st s e thn).next 0 w4 (.inl rfl) (Nat.zero_le _) (.inr (Nat.zero_le _)) (by obb)
      have hjn := j.next_le
      have ihr := ihM a b hsz.1 hsz.2.1 hsz.2.2 il _ s' e' fm w4 hl4 hokab.1 hokab.2 (by obb)
      have tgt := procIfElif_target a b _ s' e' fm w4 (by obb) (fun x => x < st.next + 1 ∨ (elifHead st s e thn).next ≤ x)
        (TG.zone hctx4 (by omega) (by obb)) (.inl (by omega))
      generalize elifHead st s e thn = s3 at *
      generalize procIfElif _ s' e' a b fm = s5 at *
      have f5 := hf.back_setCur.back_eue (.inl (by omega))
      have hS5 := hS.back_setCur.back_eue
      have f3 := ((f5.mono (lo' := st.next + 1) (hi' := s3.next) (by omega) (by obb)).back_TI tgt).back_setCur.back_edge (.inr (by obb)) |>.back_bump
      have ht := (hh f3 (hS5.of_inv j).back_setCur.back_edge.back_bump).1
      have hr := ihr (f5.mono (by obb) (by obb)) hS5
      intro l hl'
      rw [structDead_single_ite] at hl'
      rw [elifL_single_ite]
      rcases List.mem_append.mp hl' with hl' | hl'
      · exact mem_app_l (ht l hl')
      · exact mem_app_r (hr l hl')
    · rw [procIfElif_else _ _ _ _ _ _ _ hne1 hne2] at hf hS
      simp only at hf hS
      unfold finishElif at hf hS
      obtain ⟨k5, sm5, hn5⟩ := elseTail_frame' (o :: os) _ k.wf st.cur (elifHead st s e thn).cur (by obb)
      have hoe : Fut E ((elifHead st s e thn).next + 1) (elseTail (elifHead st s e thn) st.cur (elifHead st s e thn).cur (o :: os)).next
            (elseTail (elifHead st s e thn) st.cur (elifHead st s e thn).cur (o :: os)) →
          StS S (elseTail (elifHead st s e thn) st.cur (elifHead st s e thn).cur (o :: os)) →
          ∀ l ∈ structDead (o :: os), l ∈ elifL (o :: os) ∨ DeadRec E S l := by
        unfold elseTail
        intro f hS'
        exact (ih (o :: os) h2 il _ w4 hl4 hoke (f.mono (by obb) (Nat.le_refl _)) hS').1
      have back5 : Fut E (st.next + 1) (elifHead st s e thn).next (elseTail (elifHead st s e thn) st.cur (elifHead st s e thn).cur (o :: os)) →
          Fut E (st.next + 1) (elifHead st s e thn).next (elifHead st s e thn) := fun f => by
        unfold elseTail at f
        exact ((f.back_list w4 hctx4 (by omega) (by obb)).back_setCur.back_edge (.inr (by obb))).back_bump
      have hS3 : StS S (elseTail (elifHead st s e thn) st.cur (elifHead st s e thn).cur (o :: os)) → StS S (elifHead st s e thn) :=
        fun h => h.of_inv k5
      generalize elifHead st s e thn = s3 at *
      generalize elseTail s3 st.cur s3.cur (o :: os) = s5 at *
      have key : Fut E st.next s5.next s5 → StS S s5 →
          ∀ l ∈ structDead thn ++ structDead (o :: os), l ∈ elifL thn ++ elifL (o :: os) ∨ DeadRec E S l := by
        intro f5 hS5 l hl'
        rcases List.mem_append.mp hl' with hl' | hl'
        · exact mem_app_l ((hh (back5 (f5.mono (by omega) (by obb))) (hS3 hS5)).1 l hl')
        · exact mem_app_r (hoe (f5.mono (by obb) (Nat.le_refl _)) hS5 l hl')
      cases hbt : (s5.blockTerminates s3.cur && s5.blockTerminates s5.cur)
      · rw [hbt] at hf hS
        simp only [Bool.false_eq_true, ↓reduceIte] at hf hS
        exact key (((hf.back_setCur.back_eue (.inl (by omega))).back_eue (.inl (by omega))).mono (Nat.le_refl _) (by obb))
          hS.back_setCur.back_eue.back_eue
      · rw [hbt] at hf hS
        simp only [↓reduceIte] at hf hS
        exact key ((hf.mono (hi' := s5.next) (Nat.le_refl _) (by obb)).back_setCur.back_bumpU) hS.back_setCur.back_bumpU

/-! ### the `elif` tail of `procIf` -/
theorem elifTail_frame' (a b : List Stmt) (s3 : St) (w3 : WF s3) (cond te merge s' e' : Nat) (hcl : cond < s3.next) (htl : te < s3.next)
    (hml : merge < s3.next) :
    Inv s3.cur 0 s3 (procIfElifTail s3 cond te merge s' e' a b) ∧ Same s3 (procIfElifTail s3 cond te merge s' e' a b) :=
  elifTail_frame (frame_all (sizeL a + sizeL b)).2 a b (Nat.le_add_right _ _) (Nat.le_add_left _ _) (Inv.refl w3 (.inl rfl)) (Nat.zero_le _)
    cond te merge s' e' (.inr (Nat.zero_le _)) hcl (.inr (Nat.zero_le _)) htl (.inr (Nat.zero_le _)) hml

theorem elifTail_complete (ih : ∀ ss, sizeL ss ≤ N → CQL E S ss) (a b : List Stmt) (ha : sizeL a ≤ N) (hb : sizeL b ≤ N) (il : Bool) (s3 : St)
    (cond te merge s' e' lo0 : Nat) (w3 : WF s3) (hl : LoopOK il s3) (hoka : okLC il a = true) (hokb : okLC il b = true)
    (hcl : cond < s3.next) (_htl : te < s3.next) (hml : merge < s3.next) (hctx : CtxLt s3 lo0) (h2 : 2 ≤ lo0) (hlo : lo0 ≤ merge)
    (hf : Fut E lo0 (procIfElifTail s3 cond te merge s' e' a b).next (procIfElifTail s3 cond te merge s' e' a b))
    (hS : StS S (procIfElifTail s3 cond te merge s' e' a b)) :
    (∀ l ∈ structDead a ++ structDead b, l ∈ elifL a ++ elifL b ∨ DeadRec E S l) ∧
    (endsTerm a = true → elseEnds b = true → ¬ R E te → DI E s3 merge → ¬ R E (procIfElifTail s3 cond te merge s' e' a b).cur) := by
  rw [procIfElifTail_eq] at hf hS ⊢
  simp only at hf hS ⊢
  have w4 := branch_wf w3 hcl .condF
  have hl4 : LoopOK il (setCur ((bump s3).edge cond s3.next .condF) s3.next) := hl.of_eq rfl
  have hctx4 : CtxLt (setCur ((bump s3).edge cond s3.next .condF) s3.next) lo0 := hctx.of_eq rfl rfl
  obtain ⟨j, smj⟩ := procIfElif_frame a b _ s' e' merge s3.next 0 w4 (.inl rfl) (Nat.zero_le _) (.inr (Nat.zero_le _)) (by obb)
  have hjn := j.next_le
  have hA := elifA ih _ a b (Nat.le_refl _) ha hb il _ s' e' merge w4 hl4 hoka hokb (by obb)
  have hC := fun hea heb => elifC ih _ a b (Nat.le_refl _) ha hb il _ s' e' merge lo0 w4 hl4 hoka hokb hea heb hctx4 h2 hlo (by obb)
  have hm0 : merge ≠ 0 := by omega
  generalize procIfElif _ s' e' a b merge = s5 at *
  have hd4 : DI E s3 merge → DI E (setCur ((bump s3).edge cond s3.next .condF) s3.next) merge := fun hd => DI.edge_ne hd (by omega)
  cases hu : s5.unreach.contains s5.cur
  · rw [hu] at hf hS
    simp only [Bool.false_eq_true, ↓reduceIte] at hf hS ⊢
    have f5 := (hf.mono (lo' := s3.next) (by omega) (Nat.le_refl _)).back_setCur.back_eue (.inl hml)
    have hS5 := hS.back_setCur.back_eue
    refine ⟨hA (f5.mono (by obb) (by obb)) hS5, fun hea heb hte hd => ?_⟩
    obtain ⟨d5, _⟩ := hC hea heb (f5.mono (by obb) (by obb)) hS5 (hd4 hd)
    exact dead_of_DI hf.back_setCur hlo (by obb) (d5.eue_dead hte) hm0
  · rw [hu] at hf hS
    simp only [↓reduceIte] at hf hS ⊢
    cases hbt : s5.blockTerminates te
    · rw [hbt] at hf hS
      simp only [Bool.false_eq_true, ↓reduceIte] at hf hS ⊢
      have f5 := ((hf.mono (lo' := s3.next) (by omega) (Nat.le_refl _)).back_setCur.back_eue (.inl hml)).back_setCur
      have hS5 := hS.back_setCur.back_eue.back_setCur
      refine ⟨hA (f5.mono (by obb) (by obb)) hS5, fun hea heb hte hd => ?_⟩
      obtain ⟨d5, _⟩ := hC hea heb (f5.mono (by obb) (by obb)) hS5 (hd4 hd)
      exact dead_of_DI hf.back_setCur hlo (by obb) ((d5.setCur merge).eue_dead hte) hm0
    · rw [hbt] at hf hS
      simp only [↓reduceIte] at hf hS ⊢
      refine ⟨hA (hf.mono (by obb) (Nat.le_refl _)) hS, fun hea heb hte hd => ?_⟩
      obtain ⟨d5, hc5⟩ := hC hea heb (hf.mono (by obb) (Nat.le_refl _)) hS (hd4 hd)
      rcases hc5 with h | h
      · rw [h]; exact dead_of_DI hf hlo (by obb) d5 hm0
      · exact h

/-! ### `if` -/
theorem if_core (ih : ∀ ss, sizeL ss ≤ N → CQL E S ss) (thn orelse : List Stmt) (h1 : sizeL thn ≤ N) (h2 : sizeL orelse ≤ N) (il : Bool) (st : St)
    (s e : Nat) (w : WF st) (hl : LoopOK il st) (hokt : okLC il thn = true) (hoke : okLC il orelse = true)
    (hf : Fut E st.next (procIf st s e thn orelse).next (procIf st s e thn orelse)) (hS : StS S (procIf st s e thn orelse)) :
    (∀ l ∈ structDead thn ++ structDead orelse, l ∈ elifL thn ++ elifL orelse ∨ DeadRec E S l) ∧
    (endsTerm thn = true → elseEnds orelse = true → ¬ R E (procIf st s e thn orelse).cur) := by
  obtain ⟨k, sm, hnx⟩ := ifHead_frame' thn st s e w
  have hcur := w.cur
  have hk := k.wf.cur
  have h2' := w.two
  have hh := ifHead_complete ih thn h1 il st s e w hl hokt
  have hd3 : DI E (ifHead st s e thn) (st.next + 1) :=
    ifHead_DI thn st s e w (w.ctxLt (Nat.le_refl _)) h2' (by omega) (by omega) (by omega) (DI.of_wf w (by omega))
  have hctx3 : CtxLt (ifHead st s e thn) st.next := (w.ctxLt (Nat.le_refl _)).same sm
  have hl3 : LoopOK il (ifHead st s e thn) := hl.same sm
  rcases orelse_cases orelse with rfl | ⟨s', e', a, b, rfl⟩ | ⟨s', e', a, b, rfl⟩ | ⟨o, os, rfl, hne1, hne2⟩
  · rw [procIf_nil] at hf hS ⊢
    simp only at hf hS ⊢
    generalize ifHead st s e thn = s3 at *
    have f3 := ((hf.mono (lo' := st.next + 2) (by omega) (Nat.le_refl _)).back_setCur.back_eue (.inl (by omega))).back_edge (.inl (by omega))
    refine ⟨?_, fun _ hee => ?_⟩
    · intro l hl'
      rw [structDead_nil, List.append_nil] at hl'
      rw [elifL_nil, List.append_nil]
      exact (hh (f3.mono (Nat.le_refl _) (by obb)) hS.back_setCur.back_eue.back_edge).1 l hl'
    · rcases elseEnds_cases hee with ⟨_, _, _, _, h, _⟩ | ⟨_, _, _, h, _⟩ <;> cases h
  · rw [procIf_elif] at hf hS ⊢
    have hsz : sizeL a ≤ N ∧ sizeL b ≤ N := by simp only [sizeL, Stmt.size] at h2; omega
    have hokab := okLC_sgl_elifc hoke
    have ht := elifTail_complete ih a b hsz.1 hsz.2 il _ st.cur (ifHead st s e thn).cur (st.next + 1) 0 0 st.next k.wf hl3 hokab.1 hokab.2
      (by obb) hk (by obb) hctx3 h2' (by omega)
    have tgt := procIfElifTail_target a b _ st.cur (ifHead st s e thn).cur (st.next + 1) 0 0 k.wf (by obb) hk (by obb)
      (fun x => x < st.next + 2 ∨ (ifHead st s e thn).next ≤ x) (TG.zone (hctx3.mono (by omega)) (by omega) (Nat.le_refl _)) (.inl (by omega))
    obtain ⟨j, smj⟩ := elifTail_frame' a b _ k.wf st.cur (ifHead st s e thn).cur (st.next + 1) 0 0 (by obb) hk (by obb)
    have hjn := j.next_le
    generalize ifHead st s e thn = s3 at *
    generalize procIfElifTail s3 st.cur s3.cur (st.next + 1) 0 0 a b = r at *
    have f3 := (hf.mono (lo' := st.next + 2) (hi' := s3.next) (by omega) hjn).back_TI tgt
    have hh' := hh f3 (hS.of_inv j)
    have ht' := ht hf hS
    refine ⟨?_, fun het hee => ?_⟩
    · intro l hl'
      rw [structDead_single_elifc] at hl'
      rw [elifL_single_elifc]
      rcases List.mem_append.mp hl' with hl' | hl'
      · exact mem_app_l (hh'.1 l hl')
      · exact mem_app_r ((ht'.1 l hl').imp_left (fun h => List.mem_cons_of_mem _ h))
    · rw [PV.C02.elseEnds_elif, Bool.and_eq_true] at hee
      exact ht'.2 hee.1 hee.2 (hh'.2 (endsTerm_stopsL het)) hd3
  · rw [procIf_ite] at hf hS ⊢
    have hsz : sizeL a ≤ N ∧ sizeL b ≤ N := by simp only [sizeL, Stmt.size] at h2; omega
    have hokab := okLC_sgl_ite hoke
    have ht := elifTail_complete ih a b hsz.1 hsz.2 il _ st.cur (ifHead st s e thn).cur (st.next + 1) s' e' st.next k.wf hl3 hokab.1 hokab.2
      (by obb) hk (by obb) hctx3 h2' (by omega)
    have tgt := procIfElifTail_target a b _ st.cur (ifHead st s e thn).cur (st.next + 1) s' e' k.wf (by obb) hk (by obb)
      (fun x => x < st.next + 2 ∨ (ifHead st s e thn).next ≤ x) (TG.zone (hctx3.mono (by omega)) (by omega) (Nat.le_refl _)) (.inl (by omega))
    obtain ⟨j, smj⟩ := elifTail_frame' a b _ k.wf st.cur (ifHead st s e thn).cur (st.next + 1) s' e' (by obb) hk (by obb)
    have hjn := j.next_le
    generalize ifHead st s e thn = s3 at *
    generalize procIfElifTail s3 st.cur s3.cur (st.next + 1) s' e' a b = r at *
    have f3 := (hf.mono (lo' := st.next + 2) (hi' := s3.next) (by omega) hjn).back_TI tgt
    have hh' := hh f3 (hS.of_inv j)
    have ht' := ht hf hS
    refine ⟨?_, fun _ hee => ?_⟩
    · intro l hl'
      rw [structDead_single_ite] at hl'
      rw [elifL_single_ite]
      rcases List.mem_append.mp hl' with hl' | hl'
      · exact mem_app_l (hh'.1 l hl')
      · exact mem_app_r (ht'.1 l hl')
    · rcases elseEnds_cases hee with ⟨_, _, _, _, h, _⟩ | ⟨_, _, _, h, _⟩ <;> cases h
  · rw [procIf_else _ _ _ _ _ _ hne1 hne2] at hf hS ⊢
    simp only at hf hS ⊢
    have w4 := branch_wf k.wf (cond := st.cur) (by obb) .condF
    have hctx4 : CtxLt (setCur ((bump (ifHead st s e thn)).edge st.cur (ifHead st s e thn).next .condF) (ifHead st s e thn).next) st.next :=
      hctx3.of_eq rfl rfl
    have hl4 : LoopOK il (setCur ((bump (ifHead st s e thn)).edge st.cur (ifHead st s e thn).next .condF) (ifHead st s e thn).next) :=
      hl3.of_eq rfl
    obtain ⟨k5, sm5, hn5⟩ := elseTail_frame' (o :: os) _ k.wf st.cur (ifHead st s e thn).cur (by obb)
    have hoe : Fut E ((ifHead st s e thn).next + 1) (elseTail (ifHead st s e thn) st.cur (ifHead st s e thn).cur (o :: os)).next
          (elseTail (ifHead st s e thn) st.cur (ifHead st s e thn).cur (o :: os)) →
        StS S (elseTail (ifHead st s e thn) st.cur (ifHead st s e thn).cur (o :: os)) →
        ∀ l ∈ structDead (o :: os), l ∈ elifL (o :: os) ∨ DeadRec E S l := by
      unfold elseTail
      intro f hS'
      exact (ih (o :: os) h2 il _ w4 hl4 hoke (f.mono (by obb) (Nat.le_refl _)) hS').1
    have back5 : Fut E (st.next + 2) (ifHead st s e thn).next (elseTail (ifHead st s e thn) st.cur (ifHead st s e thn).cur (o :: os)) →
        Fut E (st.next + 2) (ifHead st s e thn).next (ifHead st s e thn) := fun f => by
      unfold elseTail at f
      exact ((f.back_list w4 (hctx4.mono (by omega)) (by omega) (by obb)).back_setCur.back_edge (.inr (by obb))).back_bump
    have hS3 : StS S (elseTail (ifHead st s e thn) st.cur (ifHead st s e thn).cur (o :: os)) → StS S (ifHead st s e thn) :=
      fun h => h.of_inv k5
    have hee5 : elseEnds (o :: os) = true →
        Fut E (ifHead st s e thn).next (elseTail (ifHead st s e thn) st.cur (ifHead st s e thn).cur (o :: os)).next
          (elseTail (ifHead st s e thn) st.cur (ifHead st s e thn).cur (o :: os)) →
        StS S (elseTail (ifHead st s e thn) st.cur (ifHead st s e thn).cur (o :: os)) →
        ¬ R E (elseTail (ifHead st s e thn) st.cur (ifHead st s e thn).cur (o :: os)).cur := by
      intro hee
      rcases elseEnds_cases hee with ⟨_, _, _, _, h, _⟩ | ⟨s', e', body, h, heb⟩
      · exact absurd h (hne1 _ _ _ _)
      · cases h
        have hszb : sizeL body ≤ N := by simp only [sizeL, Stmt.size] at h2; omega
        exact else_ends ih body hszb il s' e' k.wf hl3 (okLC_sgl_elsec hoke) heb st.cur (ifHead st s e thn).cur (by obb)
    have dd : DI E (elseTail (ifHead st s e thn) st.cur (ifHead st s e thn).cur (o :: os)) (st.next + 1) := by
      unfold elseTail
      exact DI.list (lo := st.next) (DI.edge_ne hd3 (by omega) : DI E ((bump (ifHead st s e thn)).edge st.cur (ifHead st s e thn).next .condF) (st.next + 1))
        w4 hctx4 h2' (by omega) (by obb)
    generalize ifHead st s e thn = s3 at *
    generalize elseTail s3 st.cur s3.cur (o :: os) = s5 at *
    have key : Fut E (st.next + 2) s5.next s5 → StS S s5 →
        (∀ l ∈ structDead thn ++ structDead (o :: os), l ∈ elifL thn ++ elifL (o :: os) ∨ DeadRec E S l) ∧
        (endsTerm thn = true → elseEnds (o :: os) = true → ¬ R E s3.cur ∧ ¬ R E s5.cur) := by
      intro f5 hS5
      have hh' := hh (back5 (f5.mono (Nat.le_refl _) (by obb))) (hS3 hS5)
      refine ⟨?_, fun het hee => ⟨hh'.2 (endsTerm_stopsL het), hee5 hee (f5.mono (by obb) (Nat.le_refl _)) hS5⟩⟩
      intro l hl'
      rcases List.mem_append.mp hl' with hl' | hl'
      · exact mem_app_l (hh'.1 l hl')
      · exact mem_app_r (hoe (f5.mono (by obb) (Nat.le_refl _)) hS5 l hl')
    cases hbt : (s5.blockTerminates s3.cur && s5.blockTerminates s5.cur)
    · rw [hbt] at hf hS
      simp only [Bool.false_eq_true, ↓reduceIte] at hf hS ⊢
      have f5 := ((hf.mono (lo' := st.next + 2) (by omega) (Nat.le_refl _)).back_setCur.back_eue (.inl (by omega))).back_eue (.inl (by omega))
      obtain ⟨hA, hC⟩ := key (f5.mono (Nat.le_refl _) (by obb)) hS.back_setCur.back_eue.back_eue
      refine ⟨hA, fun het hee => ?_⟩
      obtain ⟨h3, h5⟩ := hC het hee
      show ¬ R E (st.next + 1)
      exact dead_of_DI hf.back_setCur (by omega : st.next ≤ st.next + 1) (by obb)
        ((dd.eue_dead h3).eue_dead (by rw [edgeUnlessExit_cur]; exact h5)) (by omega)
    · rw [hbt] at hf hS
      simp only [↓reduceIte] at hf hS ⊢
      obtain ⟨hA, _⟩ := key ((hf.mono (lo' := st.next + 2) (hi' := s5.next) (by omega) (by obb)).back_setCur.back_bumpU) hS.back_setCur.back_bumpU
      exact ⟨hA, fun _ _ => fresh_dead k5.wf (lo := st.next) (by obb) hf⟩

theorem if_complete (ih : ∀ ss, sizeL ss ≤ N → CQL E S ss) (thn orelse : List Stmt) (h1 : sizeL thn ≤ N) (h2 : sizeL orelse ≤ N) (s e : Nat) :
    CQS E S (.ite s e thn orelse) := by
  intro il st w hl hok hf hS
  rw [okSC_ite, Bool.and_eq_true] at hok
  rw [procStmt_ite] at hf hS ⊢
  rw [inStmt_ite, elifS_ite]
  have h := if_core ih thn orelse h1 h2 il st s e w hl hok.1 hok.2 hf hS
  refine ⟨h.1, fun hs => ?_⟩
  have hs' : (endsTerm thn && elseEnds orelse) = true := hs
  rw [Bool.and_eq_true] at hs'
  exact h.2 hs'.1 hs'.2

theorem elifc_complete (ih : ∀ ss, sizeL ss ≤ N → CQL E S ss) (a b : List Stmt) (h1 : sizeL a ≤ N) (h2 : sizeL b ≤ N) (s e : Nat) :
    CQS E S (.elifc s e a b) := by
  intro il st w hl hok hf hS
  rw [okSC_elifc, Bool.and_eq_true] at hok
  rw [procStmt_elifc] at hf hS ⊢
  rw [inStmt_elifc, elifS_elifc]
  have h := if_core ih a b h1 h2 il st 0 0 w hl hok.1 hok.2 hf hS
  exact ⟨fun l hl' => (h.1 l hl').imp_left (fun h => List.mem_cons_of_mem _ h), no_stop rfl⟩

theorem elsec_complete (ih : ∀ ss, sizeL ss ≤ N → CQL E S ss) (body : List Stmt) (hsz : sizeL body ≤ N) (s e : Nat) :
    CQS E S (.elsec s e body) := by
  intro il st w hl hok hf hS
  rw [okSC_elsec] at hok
  rw [procStmt_elsec] at hf hS
  rw [inStmt_elsec, elifS_elsec]
  exact ⟨(ih body hsz il st w hl hok hf hS).1, no_stop rfl⟩

end main
end PV.CFGSound
