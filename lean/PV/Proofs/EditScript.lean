import PV.Model.EditScript
import PV.Proofs.ZSTed
import PV.Properties.C07
/-!
# `ted` is the minimum total cost of an edit script (Tai 1979; Zhang & Shasha 1989, Lemmas 2–3)

* `script_achieves`      — for EVERY cost model there is a script `F ⟶ G` of cost exactly `tedN c F G`
                           (the choices of the recursion are realised by operations);
* `ted_triangle`         — under `Metric c` the recursion satisfies the triangle inequality;
* `step_ted_le`          — one operation of cost `k` changes the forest by distance `≤ k`
                           (needs only `ren a a = 0`);
* `script_optimal`       — under `Metric c` no script is cheaper than `tedN c F G`;
* `ted_is_min_script`, `dist_is_min_script`, `zsDist_is_min_script`;
* `nonmetric_*`          — each hypothesis of `Metric` is needed: whenever one of the inequalities fails
                           there is a script strictly cheaper than `ted`.
-/
set_option linter.unusedSimpArgs false
namespace PV.EditScript
open PV.TED PV.ZSProof PV.C07

variable {c : Cost}

/-! ## scripts: composition and congruence -/

theorem _root_.PV.TED.Script.single {F G : List Tree} {k : Nat} (h : Step c F G k) : Script c F G k := by
  have := Script.cons h (Script.nil G)
  simpa using this

theorem _root_.PV.TED.Script.trans {F G H : List Tree} {k m : Nat} (h₁ : Script c F G k) (h₂ : Script c G H m) :
    Script c F H (k + m) := by
  induction h₁ with
  | nil F => simpa using h₂
  | cons s _ ih => rw [Nat.add_assoc]; exact Script.cons s (ih h₂)

theorem _root_.PV.TED.Script.snoc {F G H : List Tree} {k m : Nat} (h : Script c F G k) (s : Step c G H m) :
    Script c F H (k + m) := h.trans (Script.single s)

/-- a script on a run of siblings is a script on the whole sibling list -/
theorem _root_.PV.TED.Script.ctx (L R : List Tree) {F G : List Tree} {k : Nat} (h : Script c F G k) :
    Script c (L ++ F ++ R) (L ++ G ++ R) k := by
  induction h with
  | nil F => exact Script.nil _
  | cons s _ ih => exact Script.cons (Step.ctx L R s) ih

/-- a script on the child forest of a node is a script on the node -/
theorem _root_.PV.TED.Script.down (a : Nat) {F G : List Tree} {k : Nat} (h : Script c F G k) :
    Script c [.node a F] [.node a G] k := by
  induction h with
  | nil F => exact Script.nil _
  | cons s _ ih => exact Script.cons (Step.down a s) ih

theorem _root_.PV.TED.Script.cast {F G : List Tree} {k k' : Nat} (h : Script c F G k) (e : k = k') : Script c F G k' :=
  e ▸ h

/-! ## achievability -/

/-- in `ted`'s convention (top-level forests reversed): the value of the recursion is the cost of a
script between the un-reversed forests — for every cost model -/
theorem script_achieves_rev (c : Cost) (F' G' : List Tree) :
    Script c F'.reverse G'.reverse (ted c F' G') := by
  fun_induction ted c F' G' with
  | case1 => exact Script.nil _
  | case2 a as F ih =>
    simp only [List.unattach_reverse, List.unattach_attach] at ih
    have s : Step c (F.reverse ++ [.node a as] ++ []) (F.reverse ++ as ++ []) (c.del a) :=
      Step.ctx _ _ (Step.del a as)
    have := Script.cons s (by simpa using ih)
    simpa [Nat.add_comm] using this
  | case3 b bs G ih =>
    simp only [List.unattach_reverse, List.unattach_attach] at ih
    have s : Step c (G.reverse ++ bs ++ []) (G.reverse ++ [.node b bs] ++ []) (c.ins b) :=
      Step.ctx _ _ (Step.ins b bs)
    have := Script.snoc (H := G.reverse ++ [.node b bs] ++ []) (by simpa using ih) s
    simpa using this
  | case4 a as F b bs G ih1 ih2 ih3 ih4 =>
    simp only [List.unattach_reverse, List.unattach_attach] at ih1 ih2 ih3 ih4
    -- delete the right-most root
    have hd : Script c (Tree.node a as :: F).reverse (Tree.node b bs :: G).reverse
        (ted c (as.reverse ++ F) (.node b bs :: G) + c.del a) := by
      have s : Step c (F.reverse ++ [.node a as] ++ []) (F.reverse ++ as ++ []) (c.del a) :=
        Step.ctx _ _ (Step.del a as)
      have := Script.cons s (by simpa using ih1)
      simpa [Nat.add_comm] using this
    -- insert the right-most root
    have hi : Script c (Tree.node a as :: F).reverse (Tree.node b bs :: G).reverse
        (ted c (.node a as :: F) (bs.reverse ++ G) + c.ins b) := by
      have s : Step c (G.reverse ++ bs ++ []) (G.reverse ++ [.node b bs] ++ []) (c.ins b) :=
        Step.ctx _ _ (Step.ins b bs)
      have := Script.snoc (H := G.reverse ++ [.node b bs] ++ []) (by simpa using ih2) s
      simpa using this
    -- match the two right-most roots
    have hmt : Script c (Tree.node a as :: F).reverse (Tree.node b bs :: G).reverse
        (ted c as.reverse bs.reverse + ted c F G + c.ren a b) := by
      have s1 : Step c (F.reverse ++ [.node a as] ++ []) (F.reverse ++ [.node b as] ++ []) (c.ren a b) :=
        Step.ctx _ _ (Step.ren a b as)
      have s2 : Script c (F.reverse ++ [.node b as] ++ []) (F.reverse ++ [.node b bs] ++ [])
          (ted c as.reverse bs.reverse) :=
        Script.ctx _ _ (Script.down b (by simpa using ih3))
      have s3 : Script c ([] ++ F.reverse ++ [.node b bs]) ([] ++ G.reverse ++ [.node b bs]) (ted c F G) :=
        Script.ctx _ _ ih4
      have := (Script.cons s1 (s2.trans (by simpa using s3)))
      have := this.cast (k' := ted c as.reverse bs.reverse + ted c F G + c.ren a b) (by omega)
      simpa using this
    rcases Nat.le_total (ted c (as.reverse ++ F) (.node b bs :: G) + c.del a)
        (min (ted c (.node a as :: F) (bs.reverse ++ G) + c.ins b)
          (ted c as.reverse bs.reverse + ted c F G + c.ren a b)) with h | h
    · rw [Nat.min_eq_left h]; exact hd
    · rw [Nat.min_eq_right h]
      rcases Nat.le_total (ted c (.node a as :: F) (bs.reverse ++ G) + c.ins b)
          (ted c as.reverse bs.reverse + ted c F G + c.ren a b) with h' | h'
      · rw [Nat.min_eq_left h']; exact hi
      · rw [Nat.min_eq_right h']; exact hmt

/-- **achievability**: for every cost model and all forests (normal order) there is a script of cost
exactly `tedN c F G = ted c F.reverse G.reverse` -/
theorem script_achieves (c : Cost) (F G : List Tree) : Script c F G (tedN c F G) := by
  have := script_achieves_rev c F.reverse G.reverse
  simpa [tedN] using this

/-! ## the recursion satisfies the triangle inequality -/

theorem ted_app (c : Cost) (F₁ G₁ F G : List Tree) :
    ted c (F₁ ++ F) (G₁ ++ G) ≤ ted c F₁ G₁ + ted c F G :=
  ted_append_le c F G _ F₁ G₁ (Nat.le_refl _)

theorem ted_self (c : Cost) (h : ∀ a, c.ren a a = 0) (F : List Tree) : ted c F F = 0 :=
  C07_self c h _ F (Nat.le_refl _)

theorem ted_match_le (c : Cost) (a as F b bs G) :
    ted c (.node a as :: F) (.node b bs :: G) ≤ ted c as.reverse bs.reverse + ted c F G + c.ren a b := by
  rw [ted_cons_cons]; omega

/-- which branch of the recursion attains the value -/
theorem ted_cases (c : Cost) (F G : List Tree) :
    (F = [] ∧ G = []) ∨
    (∃ a as F₀, F = .node a as :: F₀ ∧ ted c F G = ted c (as.reverse ++ F₀) G + c.del a) ∨
    (∃ b bs G₀, G = .node b bs :: G₀ ∧ ted c F G = ted c F (bs.reverse ++ G₀) + c.ins b) ∨
    (∃ a as F₀ b bs G₀, F = .node a as :: F₀ ∧ G = .node b bs :: G₀ ∧
      ted c F G = ted c as.reverse bs.reverse + ted c F₀ G₀ + c.ren a b) := by
  match F, G with
  | [], [] => exact .inl ⟨rfl, rfl⟩
  | .node a as :: F₀, [] => exact .inr (.inl ⟨a, as, F₀, rfl, ted_cons_nil ..⟩)
  | [], .node b bs :: G₀ => exact .inr (.inr (.inl ⟨b, bs, G₀, rfl, ted_nil_cons ..⟩))
  | .node a as :: F₀, .node b bs :: G₀ =>
    rcases Nat.le_total (ted c (as.reverse ++ F₀) (.node b bs :: G₀) + c.del a)
        (min (ted c (.node a as :: F₀) (bs.reverse ++ G₀) + c.ins b)
          (ted c as.reverse bs.reverse + ted c F₀ G₀ + c.ren a b)) with h | h
    · exact .inr (.inl ⟨a, as, F₀, rfl, by rw [ted_cons_cons, Nat.min_eq_left h]⟩)
    · rcases Nat.le_total (ted c (.node a as :: F₀) (bs.reverse ++ G₀) + c.ins b)
          (ted c as.reverse bs.reverse + ted c F₀ G₀ + c.ren a b) with h' | h'
      · exact .inr (.inr (.inl ⟨b, bs, G₀, rfl, by
          rw [ted_cons_cons, Nat.min_eq_right h, Nat.min_eq_left h']⟩))
      · exact .inr (.inr (.inr ⟨a, as, F₀, b, bs, G₀, rfl, rfl, by
          rw [ted_cons_cons, Nat.min_eq_right h, Nat.min_eq_right h']⟩))

theorem ted_triangle_aux (c : Cost) (hm : Metric c) :
    ∀ (n : Nat) (F G H : List Tree), sizeL F + sizeL G + sizeL H < n →
      ted c F H ≤ ted c F G + ted c G H := by
  intro n
  induction n with
  | zero => intro F G H h; omega
  | succ n ih =>
    intro F G H hn
    rcases ted_cases c F G with ⟨hF, hG⟩ | ⟨v, as, F₀, hF, e₁⟩ | h₁
    · subst hF hG; simp [ted_nil_nil]
    · -- the first script deletes the right-most root of F
      subst hF
      have h1 := ted_del_le c v as F₀ H
      have h2 := ih (as.reverse ++ F₀) G H (by
        simp only [sizeL, Tree.size, sizeL_append, sizeL_reverse] at *; omega)
      omega
    · rcases ted_cases c G H with ⟨hG, hH⟩ | h₂
      · subst hG hH; simp [ted_nil_nil]
      · rcases h₂ with h₂ | ⟨x, cs, H₀, hH, e₂⟩ | h₂
        · -- the second script deletes the right-most root of G
          obtain ⟨w, bs, G₀, hG, e₂⟩ := h₂
          subst hG
          rcases h₁ with ⟨w', bs', G₀', hG', e₁⟩ | ⟨v, as, F₀, w', bs', G₀', hF, hG', e₁⟩
          · -- insert then delete
            injection hG' with hh ht; injection hh with hw hbs
            subst hw hbs ht
            have h := ih F (bs.reverse ++ G₀) H (by
              simp only [sizeL, Tree.size, sizeL_append, sizeL_reverse] at *; omega)
            omega
          · -- match then delete
            injection hG' with hh ht; injection hh with hw hbs
            subst hw hbs ht hF
            have h1 := ted_del_le c v as F₀ H
            have h2 := ih (as.reverse ++ F₀) (bs.reverse ++ G₀) H (by
              simp only [sizeL, Tree.size, sizeL_append, sizeL_reverse] at *; omega)
            have h3 := ted_app c as.reverse bs.reverse F₀ G₀
            have h4 := hm.del_tri v w
            omega
        · -- the second script inserts the right-most root of H
          subst hH
          have h1 := ted_ins_le c x cs F H₀
          have h2 := ih F G (cs.reverse ++ H₀) (by
            simp only [sizeL, Tree.size, sizeL_append, sizeL_reverse] at *; omega)
          omega
        · -- the second script matches the right-most roots of G and H
          obtain ⟨w, bs, G₀, x, cs, H₀, hG, hH, e₂⟩ := h₂
          subst hG hH
          rcases h₁ with ⟨w', bs', G₀', hG', e₁⟩ | ⟨v, as, F₀, w', bs', G₀', hF, hG', e₁⟩
          · -- insert then match
            injection hG' with hh ht; injection hh with hw hbs
            subst hw hbs ht
            have h1 := ted_ins_le c x cs F H₀
            have h2 := ih F (bs.reverse ++ G₀) (cs.reverse ++ H₀) (by
              simp only [sizeL, Tree.size, sizeL_append, sizeL_reverse] at *; omega)
            have h3 := ted_app c bs.reverse cs.reverse G₀ H₀
            have h4 := hm.ins_tri w x
            omega
          · -- match then match
            injection hG' with hh ht; injection hh with hw hbs
            subst hw hbs ht hF
            have h1 := ted_match_le c v as F₀ x cs H₀
            have h2 := ih as.reverse bs.reverse cs.reverse (by
              simp only [sizeL, Tree.size, sizeL_append, sizeL_reverse] at *; omega)
            have h3 := ih F₀ G₀ H₀ (by
              simp only [sizeL, Tree.size, sizeL_append, sizeL_reverse] at *; omega)
            have h4 := hm.ren_tri v w x
            omega

/-- **triangle inequality** of the forest-distance recursion under a metric cost model -/
theorem ted_triangle (c : Cost) (hm : Metric c) (F G H : List Tree) :
    ted c F H ≤ ted c F G + ted c G H :=
  ted_triangle_aux c hm _ F G H (Nat.lt_succ_self _)

/-! ## one operation -/

/-- a single operation of cost `k` moves the forest by distance at most `k` (only `ren a a = 0` is
needed: the untouched surroundings are matched with themselves) -/
theorem step_ted_le (c : Cost) (h0 : ∀ a, c.ren a a = 0) {F G : List Tree} {k : Nat}
    (s : Step c F G k) : tedN c F G ≤ k := by
  induction s with
  | ren a b cs =>
    have h := ted_match_le c a cs [] b cs []
    simp only [tedN, List.reverse_cons, List.reverse_nil, List.nil_append]
    rw [ted_self c h0, ted_nil_nil] at h
    omega
  | del a cs =>
    have h := ted_del_le c a cs [] cs.reverse
    simp only [tedN, List.reverse_cons, List.reverse_nil, List.nil_append]
    rw [List.append_nil, ted_self c h0] at h
    omega
  | ins b cs =>
    have h := ted_ins_le c b cs cs.reverse []
    simp only [tedN, List.reverse_cons, List.reverse_nil, List.nil_append]
    rw [List.append_nil, ted_self c h0] at h
    omega
  | @ctx L R F G k s ih =>
    have h1 := ted_app c R.reverse R.reverse (F.reverse ++ L.reverse) (G.reverse ++ L.reverse)
    have h2 := ted_app c F.reverse G.reverse L.reverse L.reverse
    rw [ted_self c h0] at h1 h2
    simp only [tedN, List.reverse_append, List.append_assoc] at ih ⊢
    omega
  | @down a F G k s ih =>
    have h := ted_match_le c a F [] a G []
    simp only [tedN, List.reverse_cons, List.reverse_nil, List.nil_append] at ih ⊢
    rw [ted_nil_nil, h0] at h
    omega

/-! ## optimality -/

/-- **optimality**: under a metric cost model no script is cheaper than the recursion's value -/
theorem script_optimal (c : Cost) (hm : Metric c) {F G : List Tree} {k : Nat}
    (s : Script c F G k) : tedN c F G ≤ k := by
  induction s with
  | nil F => simp [tedN, ted_self c hm.ren_self]
  | @cons F G H k m st _ ih =>
    have h1 := step_ted_le c hm.ren_self st
    have h2 := ted_triangle c hm F.reverse G.reverse H.reverse
    simp only [tedN] at *
    omega

/-- **`ted` is the minimum total cost of an edit script** (forests in normal order; `ted` takes its
top-level forests reversed) -/
theorem ted_is_min_script (c : Cost) (hm : Metric c) (F G : List Tree) :
    (∃ k, Script c F G k ∧ k = ted c F.reverse G.reverse) ∧
    (∀ k, Script c F G k → ted c F.reverse G.reverse ≤ k) :=
  ⟨⟨_, script_achieves c F G, rfl⟩, fun _ s => script_optimal c hm s⟩

/-- tree version -/
theorem dist_is_min_script (c : Cost) (hm : Metric c) (t₁ t₂ : Tree) :
    (∃ k, Script c [t₁] [t₂] k ∧ k = dist c t₁ t₂) ∧
    (∀ k, Script c [t₁] [t₂] k → dist c t₁ t₂ ≤ k) :=
  ted_is_min_script c hm [t₁] [t₂]

/-! ## sanity of the definitions -/

/-- an operation changes the number of nodes by exactly 0 (relabel), -1 (delete) or +1 (insert) -/
theorem step_size {F G : List Tree} {k : Nat} (s : Step c F G k) :
    sizeL G = sizeL F ∨ sizeL G + 1 = sizeL F ∨ sizeL G = sizeL F + 1 := by
  induction s with
  | ren a b cs => left; simp [sizeL, Tree.size]
  | del a cs => right; left; simp [sizeL, Tree.size]; omega
  | ins b cs => right; right; simp [sizeL, Tree.size]; omega
  | ctx L R s ih => simp only [sizeL_append]; omega
  | down a s ih => simp only [sizeL, Tree.size]; omega

/-- deleting an inner node splices its children into its parent's child list at its position -/
example : Step c [.node 0 [.node 1 [], .node 2 [.node 3 [], .node 4 []], .node 5 []]]
    [.node 0 [.node 1 [], .node 3 [], .node 4 [], .node 5 []]] (c.del 2) :=
  Step.down 0 (Step.ctx [.node 1 []] [.node 5 []] (Step.del 2 _))
/-- inserting an inner node that adopts a consecutive run of children -/
example : Step c [.node 0 [.node 1 [], .node 3 [], .node 4 [], .node 5 []]]
    [.node 0 [.node 1 [], .node 2 [.node 3 [], .node 4 []], .node 5 []]] (c.ins 2) :=
  Step.down 0 (Step.ctx [.node 1 []] [.node 5 []] (Step.ins 2 [.node 3 [], .node 4 []]))
/-- inserting a leaf (adopts the empty run) two levels down -/
example : Step c [.node 0 [.node 1 []]] [.node 0 [.node 1 [.node 7 []]]] (c.ins 7) :=
  Step.down 0 (Step.down 1 (Step.ins 7 []))
/-- deleting a root of the top-level forest splices its children into the forest -/
example : Step c [.node 9 [], .node 0 [.node 1 [], .node 2 []]] [.node 9 [], .node 1 [], .node 2 []] (c.del 0) :=
  Step.ctx [.node 9 []] [] (Step.del 0 _)

/-! ## the `Metric` hypothesis cannot be dropped -/

theorem ted_leaf_nil (c : Cost) (a : Nat) : ted c [.node a []] [] = c.del a := by
  simp [ted_cons_nil, ted_nil_nil]
theorem ted_nil_leaf (c : Cost) (b : Nat) : ted c [] [.node b []] = c.ins b := by
  simp [ted_nil_cons, ted_nil_nil]
theorem ted_leaf_leaf (c : Cost) (a b : Nat) :
    ted c [.node a []] [.node b []] = min (c.ins b + c.del a) (min (c.del a + c.ins b) (c.ren a b)) := by
  simp [ted_cons_cons, ted_cons_nil, ted_nil_cons, ted_nil_nil]

/-- if relabel-then-delete beats delete for some labels, a two-operation script beats `ted` -/
theorem nonmetric_del (c : Cost) (a b : Nat) (h : c.ren a b + c.del b < c.del a) :
    ∃ k, Script c [.node a []] [] k ∧ k < tedN c [.node a []] [] := by
  refine ⟨c.ren a b + (c.del b + 0), Script.cons (Step.ren a b []) (Script.cons (Step.del b []) (Script.nil _)), ?_⟩
  simp only [tedN, List.reverse_cons, List.reverse_nil, List.nil_append, ted_leaf_nil]
  omega

/-- if insert-then-relabel beats insert for some labels, a two-operation script beats `ted` -/
theorem nonmetric_ins (c : Cost) (a b : Nat) (h : c.ins a + c.ren a b < c.ins b) :
    ∃ k, Script c [] [.node b []] k ∧ k < tedN c [] [.node b []] := by
  refine ⟨c.ins a + (c.ren a b + 0), Script.cons (Step.ins a []) (Script.cons (Step.ren a b []) (Script.nil _)), ?_⟩
  simp only [tedN, List.reverse_cons, List.reverse_nil, List.nil_append, ted_nil_leaf]
  omega

/-- if relabelling through an intermediate label beats the direct relabelling (and delete+insert), a
two-operation script beats `ted` -/
theorem nonmetric_ren (c : Cost) (a b d : Nat) (h : c.ren a b + c.ren b d < c.ren a d)
    (h' : c.ren a b + c.ren b d < c.del a + c.ins d) :
    ∃ k, Script c [.node a []] [.node d []] k ∧ k < tedN c [.node a []] [.node d []] := by
  refine ⟨c.ren a b + (c.ren b d + 0), Script.cons (Step.ren a b []) (Script.cons (Step.ren b d []) (Script.nil _)), ?_⟩
  simp only [tedN, List.reverse_cons, List.reverse_nil, List.nil_append, ted_leaf_leaf]
  omega

/-- if relabelling a node to itself is not free (and deleting + inserting it is not free either) the
EMPTY script beats `ted` -/
theorem nonmetric_ren_self (c : Cost) (a : Nat) (h : c.ren a a ≠ 0) (h' : c.del a + c.ins a ≠ 0) :
    ∃ k, Script c [.node a []] [.node a []] k ∧ k < tedN c [.node a []] [.node a []] := by
  refine ⟨0, Script.nil _, ?_⟩
  simp only [tedN, List.reverse_cons, List.reverse_nil, List.nil_append, ted_leaf_leaf]
  omega

/-- a concrete non-metric cost model: deleting label 0 costs 10, everything else costs 1 (identity
relabelling free).  `del 0 = 10 > ren 0 1 + del 1 = 2`. -/
def badCost : Cost := ⟨fun a => if a = 0 then 10 else 1, fun _ => 1, fun a b => if a = b then 0 else 1⟩

/-- relabel-then-delete (cost 2) is strictly cheaper than `ted` (= 10): without `Metric`, `ted` is NOT
the minimum script cost -/
theorem nonmetric_counterexample :
    Script badCost [.node 0 []] [] 2 ∧ dist badCost (.node 0 []) (.node 0 []) = 0 ∧
    ted badCost [.node 0 []] [] = 10 ∧ ¬ (∀ k, Script badCost [.node 0 []] [] k → ted badCost [.node 0 []] [] ≤ k) := by
  have s : Script badCost [.node 0 []] [] 2 :=
    Script.cons (Step.ren 0 1 []) (Script.cons (Step.del 1 []) (Script.nil _))
  have e : ted badCost [.node 0 []] [] = 10 := by rw [ted_leaf_nil]; rfl
  refine ⟨s, ?_, e, fun h => ?_⟩
  · simp [dist, ted_leaf_leaf, badCost]
  · have := h 2 s
    omega

/-- a cost model shaped like pyscn's shipped `PythonCostModel` (apted_cost.go:113-192, defaults), in
units of 1/1000: label 0 = a structural node (insert/delete multiplier 1.5), label 1 = a boilerplate
node (multiplier 0.1), every other label = default (1.0); relabelling costs at most the base rename
cost 1.0 (0 for equal labels).  Symmetric, `ren a a = 0`, yet NOT a metric:
`del 0 = 1500 > ren 0 1 + del 1 = 1100`. -/
def pyLikeCost : Cost :=
  ⟨fun a => if a = 0 then 1500 else if a = 1 then 100 else 1000,
   fun a => if a = 0 then 1500 else if a = 1 then 100 else 1000,
   fun a b => if a = b then 0 else 1000⟩

theorem pyLikeCost_not_metric : ¬ Metric pyLikeCost := fun hm => by
  have := hm.del_tri 0 1
  simp [pyLikeCost] at this

/-- tree-level counter-example for the pyscn-shaped cost model: removing a structural leaf below a root.
The recursion (hence Zhang–Shasha) reports 1500; relabelling the leaf to a boilerplate label and
deleting that costs 1100. -/
theorem pyLike_counterexample :
    dist pyLikeCost (.node 2 [.node 0 []]) (.node 2 []) = 1500 ∧
    Script pyLikeCost [.node 2 [.node 0 []]] [.node 2 []] 1100 := by
  refine ⟨by decide +kernel, ?_⟩
  exact Script.cons (Step.down 2 (Step.ren 0 1 [])) (Script.cons (Step.down 2 (Step.del 1 [])) (Script.nil _))

end PV.EditScript
