import PV.Model.Arith
import Mathlib.Data.Rat.Floor
import Mathlib.Algebra.Order.Floor.Ring
import Mathlib.Algebra.Order.Field.Basic
import Mathlib.Tactic.Linarith
import Mathlib.Tactic.Positivity
import Mathlib.Tactic.FieldSimp
/-!
Consistency of the assumption `MonoArith`: the rationals, with exact arithmetic, satisfy every law.
(So the theorems proved "for every carrier satisfying the IEEE-754 order laws" are not vacuous; that Go's
`float64` satisfies them on the finite values that occur remains the assumption of DESIGN.md §6.4.)
`log10`/`log2` are interpreted as the constant 0 here: the laws only ask them to be non-negative from 1 on.
-/
namespace PV

noncomputable instance ratArith : Arith ℚ where
  lit n d := (n : ℚ) / (d : ℚ)
  ofInt n := (n : ℚ)
  add := (· + ·)
  sub := (· - ·)
  mul := (· * ·)
  div := (· / ·)
  neg := (- ·)
  le := (· ≤ ·)
  lt := (· < ·)
  decLe a b := inferInstance
  decLt a b := inferInstance
  round a := (⌊a + 1 / 2⌋ : ℤ)
  ceil a := (⌈a⌉ : ℤ)
  floor a := (⌊a⌋ : ℤ)
  trunc a := if 0 ≤ a then ⌊a⌋ else ⌈a⌉
  log10 _ := 0
  log2 _ := 0
  fmin := min
  fmax := max
  abs := abs

theorem lit_zero : (Arith.lit 0 1 : ℚ) = 0 := by simp [Arith.lit]
theorem lit_one : (Arith.lit 1 1 : ℚ) = 1 := by simp [Arith.lit]

noncomputable instance ratMonoArith : MonoArith ℚ where
  le_refl a := le_refl a
  le_trans a b c := le_trans
  le_total a b := le_total a b
  le_antisymm a b := le_antisymm
  lt_iff_not_le a b := lt_iff_not_ge
  lit_mono n d n' d' hd hd' h := by
    show (n : ℚ) / d ≤ (n' : ℚ) / d'
    have h1 : (0 : ℚ) < d := by exact_mod_cast hd
    have h2 : (0 : ℚ) < d' := by exact_mod_cast hd'
    rw [div_le_div_iff₀ h1 h2]
    exact_mod_cast h
  lit_pos n d hd h := by
    show (Arith.lit 0 1 : ℚ) < (n : ℚ) / d
    rw [lit_zero]
    have h1 : (0 : ℚ) < d := by exact_mod_cast hd
    apply div_pos _ h1
    have : (0 : ℤ) < n := by
      by_contra hn
      have hn' : n ≤ 0 := not_lt.mp hn
      have : n * 2 ^ 100 ≤ 0 := mul_nonpos_of_nonpos_of_nonneg hn' (by positivity)
      have hd' : (0 : ℤ) < d := by exact_mod_cast hd
      omega
    exact_mod_cast this
  ofInt_lit n := by show (n : ℚ) = (n : ℚ) / ((1 : ℕ) : ℚ); simp
  add_mono_l a b c h := by have h' : a ≤ b := h; show a + c ≤ b + c; linarith
  add_mono_r a b c h := by have h' : a ≤ b := h; show c + a ≤ c + b; linarith
  sub_mono_l a b c h := by have h' : a ≤ b := h; show a - c ≤ b - c; linarith
  sub_mono_r a b c h := by have h' : a ≤ b := h; show c - b ≤ c - a; linarith
  mul_mono_l a b c hc h := by
    show a * c ≤ b * c
    rw [show (Arith.lit 0 1 : ℚ) = 0 from lit_zero] at hc
    exact mul_le_mul_of_nonneg_right h hc
  mul_mono_r a b c hc h := by
    show c * a ≤ c * b
    rw [show (Arith.lit 0 1 : ℚ) = 0 from lit_zero] at hc
    exact mul_le_mul_of_nonneg_left h hc
  div_mono_l a b c hc h := by
    show a / c ≤ b / c
    have hc' : (0 : ℚ) < c := by rw [← lit_zero]; exact hc
    exact div_le_div_of_nonneg_right h (le_of_lt hc')
  div_self c hc := by
    show c / c = Arith.lit 1 1
    have hc' : (0 : ℚ) < c := by rw [← lit_zero]; exact hc
    rw [lit_one]; exact div_self (ne_of_gt hc')
  mul_one_lit a := by show a * Arith.lit 1 1 = a; rw [lit_one]; ring
  one_mul_lit a := by show Arith.lit 1 1 * a = a; rw [lit_one]; ring
  sub_zero_lit a := by show a - Arith.lit 0 1 = a; rw [lit_zero]; ring
  mul_nonneg a b ha hb := by
    show Arith.lit 0 1 ≤ a * b
    rw [lit_zero] at *; exact mul_nonneg ha hb
  div_nonneg a b ha hb := by
    show Arith.lit 0 1 ≤ a / b
    have hb' : (Arith.lit 0 1 : ℚ) < b := hb
    rw [lit_zero] at *; exact div_nonneg ha (le_of_lt hb')
  add_nonneg a b ha hb := by
    show Arith.lit 0 1 ≤ a + b
    rw [lit_zero] at *; exact add_nonneg ha hb
  add_pos_l a b ha hb := by
    show Arith.lit 0 1 < a + b
    have ha' : (Arith.lit 0 1 : ℚ) < a := ha
    rw [lit_zero] at *; exact add_pos_of_pos_of_nonneg ha' hb
  sub_nonneg a b h := by
    show Arith.lit 0 1 ≤ a - b
    rw [lit_zero]; exact sub_nonneg.mpr h
  round_mono a b h := by
    show ((⌊a + 1 / 2⌋ : ℤ) : ℚ) ≤ ((⌊b + 1 / 2⌋ : ℤ) : ℚ)
    have h' : a ≤ b := h
    exact_mod_cast Int.floor_le_floor (by linarith)
  round_lit n _ := by
    show ((⌊(Arith.lit n 1 : ℚ) + 1 / 2⌋ : ℤ) : ℚ) = Arith.lit n 1
    have : (Arith.lit n 1 : ℚ) = n := by simp [Arith.lit]
    rw [this]
    have : ⌊(n : ℚ) + 1 / 2⌋ = n := by
      rw [Int.floor_eq_iff]; constructor <;> norm_num
    rw [this]
  trunc_mono a b h := by
    show (if 0 ≤ a then ⌊a⌋ else ⌈a⌉) ≤ (if 0 ≤ b then ⌊b⌋ else ⌈b⌉)
    by_cases ha : 0 ≤ a
    · have hb : 0 ≤ b := le_trans ha h
      simp only [ha, hb, if_true]; exact Int.floor_le_floor h
    · by_cases hb : 0 ≤ b
      · simp only [ha, hb, if_true, if_false]
        have h1 : ⌈a⌉ ≤ 0 := Int.ceil_le.mpr (by push_cast; linarith [not_le.mp ha])
        have h2 : 0 ≤ ⌊b⌋ := Int.floor_nonneg.mpr hb
        omega
      · simp only [ha, hb, if_false]; exact Int.ceil_le_ceil h
  trunc_lit n _ := by
    show (if 0 ≤ (Arith.lit n 1 : ℚ) then ⌊(Arith.lit n 1 : ℚ)⌋ else ⌈(Arith.lit n 1 : ℚ)⌉) = n
    have : (Arith.lit n 1 : ℚ) = n := by simp [Arith.lit]
    rw [this]; split <;> simp
  fmin_le_l a b := min_le_left a b
  fmin_le_r a b := min_le_right a b
  le_fmin a b c h1 h2 := le_min h1 h2
  le_fmax_l a b := le_max_left a b
  le_fmax_r a b := le_max_right a b
  fmax_le a b c h1 h2 := max_le h1 h2
  log10_nonneg a _ := by show Arith.lit 0 1 ≤ (0 : ℚ); rw [lit_zero]
  log2_nonneg a _ := by show Arith.lit 0 1 ≤ (0 : ℚ); rw [lit_zero]

/-- the assumption is satisfiable -/
theorem MonoArith_consistent : Nonempty (MonoArith ℚ) := ⟨ratMonoArith⟩

end PV
