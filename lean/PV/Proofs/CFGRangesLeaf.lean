import PV.Proofs.CFGRangesDefs
/-!
Range-level soundness — leaf statements: simple statements and nested `def`s (one record in the current block), the
terminators `return` / `break` / `continue` / `raise` (one record, then a fresh current block), and the comprehension
blocks of a simple statement / `return` (several records of ONE line in fresh blocks that are reachable together).
-/
namespace PV.CFGSound
open PV.CFG

section leaf
variable {E : List Edge}

/-! ### records of one line -/
/-- a batch of records of the line `s` (span `s..e`), all in blocks reachable iff the anchor is -/
theorem rpost_batch {L : List SRec} {a c' p s e : Nat} (hsi : SI E L a p) (hp : p ≤ s) (hse : s ≤ e) (ns : List SRec)
    (hns : ∀ r ∈ ns, r.s = s ∧ r.e = e ∧ (R E r.blk ↔ R E a)) (hgc : GC (ns ++ L) c') : RPost E L (ns ++ L) c' p (e + 1) := by
  refine ⟨⟨ns, rfl, ?_⟩, (hsi.batch (e := e) hp ns hns).pw, hgc⟩
  intro r hr
  obtain ⟨h1, h2, _⟩ := hns r hr
  exact .inr ⟨by omega, by omega, by omega⟩

/-- one record in the current block -/
theorem rpost_one {L : List SRec} {c c' p s e : Nat} {ty : Ty} (hsi : SI E L c p) (hp : p ≤ s) (hse : s ≤ e)
    (hgc : GC ({ blk := c, s := s, e := e, ty := ty } :: L) c') :
    RPost E L ({ blk := c, s := s, e := e, ty := ty } :: L) c' p (e + 1) :=
  rpost_batch hsi hp hse [{ blk := c, s := s, e := e, ty := ty }]
    (fun r hr => by rw [List.mem_singleton.mp hr]; exact ⟨rfl, rfl, Iff.rfl⟩) hgc

/-! ### simple statement without comprehension, nested def -/
theorem def_rq (s e : Nat) (b : List Stmt) : RQS E (.def_ s e b) := by
  intro il st p w hok hf hwf hp hsi hgc
  rw [wfS_def] at hwf
  simp only [decide_eq_true_eq] at hwf
  simp only [Stmt.span] at hp ⊢
  rw [procStmt_def]
  have hpos := hsi.pos
  exact rpost_one hsi hp hwf (hgc.add_cur (by omega))

theorem handler_rq (s e : Nat) (b : List Stmt) : RQS E (.handler s e b) := by
  intro il st p w hok hf hwf hp hsi hgc
  rw [okSC_handler] at hok; cases hok

theorem case_rq (s e : Nat) (b : List Stmt) : RQS E (.case_ s e b) := by
  intro il st p w hok hf hwf hp hsi hgc
  rw [okSC_case] at hok; cases hok

/-! ### terminators: shapes of the resulting states -/
theorem foldl_cur_edge_next (t : ETy) : ∀ (hs : List Nat) (s : St),
    (hs.foldl (fun st h => st.edge st.cur h t) s).next = s.next
  | [], _ => rfl
  | h :: hs, s => by
    simp only [List.foldl_cons]
    rw [foldl_cur_edge_next t hs]; rfl

theorem brk_facts (st : St) (s e : Nat) :
    (procBrk st s e).stmts = { blk := st.cur, s := s, e := e, ty := .brk } :: st.stmts ∧
      ((procBrk st s e).cur = st.cur ∨ (procBrk st s e).cur = st.next) := by
  rw [procBrk_eq]
  simp only
  split
  · exact ⟨rfl, .inl rfl⟩
  · split <;> exact ⟨rfl, .inr rfl⟩

theorem cont_facts (st : St) (s e : Nat) :
    (procCont st s e).stmts = { blk := st.cur, s := s, e := e, ty := .cont } :: st.stmts ∧
      ((procCont st s e).cur = st.cur ∨ (procCont st s e).cur = st.next) := by
  rw [procCont_eq]
  simp only
  split
  · exact ⟨rfl, .inl rfl⟩
  · split <;> exact ⟨rfl, .inr rfl⟩

theorem raise_facts (st : St) (s e : Nat) :
    (procRaise st s e).stmts = { blk := st.cur, s := s, e := e, ty := .raise } :: st.stmts ∧ (procRaise st s e).cur = st.next := by
  rw [procRaise_eq]
  simp only
  split
  · exact ⟨rfl, rfl⟩
  · split
    · split
      · simp only [setCur_stmts, bumpU_stmts, setCur_cur, foldl_cur_edge_stmts, foldl_cur_edge_next]
        exact ⟨rfl, rfl⟩
      · exact ⟨rfl, rfl⟩
    · exact ⟨rfl, rfl⟩

/-- the part of `procRet` after the comprehension -/
def retTail (st0 : St) (s e : Nat) : St :=
  let st1 := st0.add st0.cur s e .ret
  let st2 := match targetFinallyRet st1 with
    | some f => st1.edge st1.cur f .ret
    | none => st1.edge st1.cur exitB .ret
  setCur (bumpU st2) st2.next

theorem procRet_tail (st : St) (s e : Nat) (c : List Bool) (h : Bool) :
    procRet st s e c h = retTail (if h then procComp st s e c else st) s e := by
  rw [procRet_eq]; rfl

theorem retTail_facts (st0 : St) (s e : Nat) :
    (retTail st0 s e).stmts = { blk := st0.cur, s := s, e := e, ty := .ret } :: st0.stmts ∧ (retTail st0 s e).cur = st0.next ∧
      (retTail st0 s e).next = st0.next + 1 ∧ ∀ x ∈ st0.edges, x ∈ (retTail st0 s e).edges := by
  unfold retTail
  simp only
  split <;> exact ⟨rfl, rfl, rfl, fun x hx => List.mem_cons_of_mem _ hx⟩

/-- after a terminator: one record in the current block; the current block stays or becomes the fresh block `st.next` -/
theorem term_rq {st : St} {p s e : Nat} {ty : Ty} {c' : Nat} (w : WF st) (hp : p ≤ s) (hse : s ≤ e) (hsi : SI E st.stmts st.cur p)
    (hgc : GC st.stmts st.cur) (hc : c' = st.cur ∨ c' = st.next) :
    RPost E st.stmts ({ blk := st.cur, s := s, e := e, ty := ty } :: st.stmts) c' p (e + 1) := by
  have hpos := hsi.pos
  have hcur := w.cur
  refine rpost_one hsi hp hse ?_
  rcases hc with rfl | rfl
  · exact hgc.add_cur (by omega)
  · exact GC.fresh hgc.gz_add_cur (NoRec.cons (by omega) (NoRec.of_wf w (Nat.le_refl _)))

theorem brk_rq (s e : Nat) : RQS E (.brk s e) := by
  intro il st p w hok hf hwf hp hsi hgc
  rw [wfS_brk] at hwf
  simp only [decide_eq_true_eq] at hwf
  simp only [Stmt.span] at hp ⊢
  rw [procStmt_brk]
  obtain ⟨h1, h2⟩ := brk_facts st s e
  rw [h1]
  exact term_rq w hp hwf hsi hgc h2

theorem cont_rq (s e : Nat) : RQS E (.cont s e) := by
  intro il st p w hok hf hwf hp hsi hgc
  rw [wfS_cont] at hwf
  simp only [decide_eq_true_eq] at hwf
  simp only [Stmt.span] at hp ⊢
  rw [procStmt_cont]
  obtain ⟨h1, h2⟩ := cont_facts st s e
  rw [h1]
  exact term_rq w hp hwf hsi hgc h2

theorem raise_rq (s e : Nat) : RQS E (.raise s e) := by
  intro il st p w hok hf hwf hp hsi hgc
  rw [wfS_raise] at hwf
  simp only [decide_eq_true_eq] at hwf
  simp only [Stmt.span] at hp ⊢
  rw [procStmt_raise]
  obtain ⟨h1, h2⟩ := raise_facts st s e
  rw [h1]
  exact term_rq w hp hwf hsi hgc (.inr h2)

/-! ### comprehension -/
/-- what `procComp.go` (started in state `st`, result `r`) adds: records of the span `s..e` in fresh blocks, each reachable if `a` is -/
structure GoR (E : List Edge) (a s e : Nat) (st : St) (r : St × Nat) : Prop where
  ext : ∃ ns, r.1.stmts = ns ++ st.stmts ∧ ∀ x ∈ ns, x.s = s ∧ x.e = e ∧ (R E a → R E x.blk) ∧ st.next ≤ x.blk
  rc : R E a → R E r.2
  gz : GZ r.1.stmts
  bd : ∀ x ∈ r.1.stmts, x.blk < r.1.next
  nx : st.next ≤ r.1.next

theorem GoR.step {a s e : Nat} {st st' : St} {r : St × Nat} (h : GoR E a s e st' r) (ns0 : List SRec) (hs : st'.stmts = ns0 ++ st.stmts)
    (h0 : ∀ x ∈ ns0, x.s = s ∧ x.e = e ∧ (R E a → R E x.blk) ∧ st.next ≤ x.blk) (hn : st.next ≤ st'.next) : GoR E a s e st r := by
  obtain ⟨ns, h1, h2⟩ := h.ext
  refine ⟨⟨ns ++ ns0, by rw [h1, hs, List.append_assoc], ?_⟩, h.rc, h.gz, h.bd, Nat.le_trans hn h.nx⟩
  intro x hx
  rcases List.mem_append.mp hx with hx | hx
  · obtain ⟨q1, q2, q3, q4⟩ := h2 x hx
    exact ⟨q1, q2, q3, by omega⟩
  · exact h0 x hx

theorem go_rq {S : List SRec} (a s e : Nat) : ∀ (cs : List Bool) (st : St) (cp : Nat),
    Cov E S (procComp.go s e cs st cp).1 → (R E a → R E cp) → GZ st.stmts → (∀ x ∈ st.stmts, x.blk < st.next) →
    GoR E a s e st (procComp.go s e cs st cp)
  | [], st, cp, _, hr, hgz, hbd => by
    rw [go_nil]
    exact ⟨⟨[], rfl, by simp⟩, hr, hgz, hbd, Nat.le_refl _⟩
  | hasTest :: rest, st, cp, hcov, hr, hgz, hbd => by
    rw [go_cons] at hcov ⊢
    have h2 := go_cov s e rest _ _ hcov
    have nr : ∀ m, st.next ≤ m → NoRec st.stmts m := fun m hm x hx => by have := hbd x hx; omega
    cases hasTest
    · simp only [Bool.false_eq_true, ↓reduceIte] at h2 hcov ⊢
      have e1 := h2.1 (cp, st.next, .normal) (by simp)
      have e2 := h2.1 (st.next, st.next + 1, .condT) (by simp)
      have r1 : R E a → R E st.next := fun h => R.step (hr h) e1
      have r2 : R E a → R E (st.next + 1) := fun h => R.step (r1 h) e2
      refine (go_rq a s e rest _ st.next hcov r1 ?_ ?_).step
        [{ blk := st.next + 1, s := s, e := e, ty := .other }, { blk := st.next, s := s, e := e, ty := .other }] ?_ ?_ ?_
      · show GZ ({ blk := st.next + 1, s := s, e := e, ty := .other } :: { blk := st.next, s := s, e := e, ty := .other } :: st.stmts)
        exact (hgz.add_fresh (nr _ (Nat.le_refl _))).add_fresh (NoRec.cons (by omega) (nr _ (by omega)))
      · intro x hx
        simp only [edge_stmts, bump_stmts, add_stmts, List.mem_cons] at hx
        simp only [edge_next, bump_next, add_next]
        rcases hx with rfl | rfl | hx
        · simp only; omega
        · simp only; omega
        · have := hbd x hx; omega
      · rfl
      · intro x hx
        simp only [List.mem_cons, List.not_mem_nil, or_false] at hx
        rcases hx with rfl | rfl
        · exact ⟨rfl, rfl, r2, by simp only; omega⟩
        · exact ⟨rfl, rfl, r1, Nat.le_refl _⟩
      · simp only [edge_next, bump_next, add_next]; omega
    · simp only [↓reduceIte] at h2 hcov ⊢
      have e1 := h2.1 (cp, st.next, .normal) (by simp)
      have e2 := h2.1 (st.next, st.next + 1, .condT) (by simp)
      have e3 := h2.1 (st.next + 1, st.next + 2, .normal) (by simp)
      have e4 := h2.1 (st.next + 2, st.next + 3, .condT) (by simp)
      have r1 : R E a → R E st.next := fun h => R.step (hr h) e1
      have r3 : R E a → R E (st.next + 2) := fun h => R.step (R.step (r1 h) e2) e3
      have r4 : R E a → R E (st.next + 3) := fun h => R.step (r3 h) e4
      refine (go_rq a s e rest _ st.next hcov r1 ?_ ?_).step
        [{ blk := st.next + 3, s := s, e := e, ty := .other }, { blk := st.next + 2, s := s, e := e, ty := .other },
          { blk := st.next, s := s, e := e, ty := .other }] ?_ ?_ ?_
      · show GZ ({ blk := st.next + 3, s := s, e := e, ty := .other } :: { blk := st.next + 2, s := s, e := e, ty := .other } ::
          { blk := st.next, s := s, e := e, ty := .other } :: st.stmts)
        exact ((hgz.add_fresh (nr _ (Nat.le_refl _))).add_fresh (NoRec.cons (by omega) (nr _ (by omega)))).add_fresh
          (NoRec.cons (by omega) (NoRec.cons (by omega) (nr _ (by omega))))
      · intro x hx
        simp only [edge_stmts, bump_stmts, add_stmts, List.mem_cons] at hx
        simp only [edge_next, bump_next, add_next]
        rcases hx with rfl | rfl | rfl | hx
        · simp only; omega
        · simp only; omega
        · simp only; omega
        · have := hbd x hx; omega
      · rfl
      · intro x hx
        simp only [List.mem_cons, List.not_mem_nil, or_false] at hx
        rcases hx with rfl | rfl | rfl
        · exact ⟨rfl, rfl, r4, by simp only; omega⟩
        · exact ⟨rfl, rfl, r3, by simp only; omega⟩
        · exact ⟨rfl, rfl, r1, Nat.le_refl _⟩
      · simp only [edge_next, bump_next, add_next]; omega

theorem comp_facts (st : St) (s e : Nat) (c : List Bool) :
    let g := procComp.go s e c (bump (((bump st).edge st.cur st.next .normal).add st.next s e .other)) st.next
    (procComp st s e c).cur = st.next + 1 ∧ (procComp st s e c).next = g.1.next ∧ (procComp st s e c).stmts = g.1.stmts ∧
      (∀ x ∈ g.1.edges, x ∈ (procComp st s e c).edges) ∧
      ((g.2, st.next + 1, ETy.condF) ∈ (procComp st s e c).edges ∨
        (g.2 = st.next ∧ (st.next, st.next + 1, ETy.normal) ∈ (procComp st s e c).edges)) := by
  rw [procComp_eq]
  simp only
  split
  · exact ⟨rfl, rfl, rfl, fun x hx => List.mem_cons_of_mem _ hx, .inl (List.mem_cons_self ..)⟩
  · next h =>
    exact ⟨rfl, rfl, rfl, fun x hx => List.mem_cons_of_mem _ hx, .inr ⟨by simpa using h, List.mem_cons_self ..⟩⟩

/-- the comprehension blocks: records of the span `s..e` in fresh blocks, all reachable if the block current at the start is; the
exit block `st.next + 1` (current afterwards) has no record -/
theorem comp_rq (st : St) (s e : Nat) (c : List Bool) (w : WF st) (hE : ∀ x ∈ (procComp st s e c).edges, x ∈ E) (hgz : GZ st.stmts) :
    (procComp st s e c).cur = st.next + 1 ∧ st.next + 2 ≤ (procComp st s e c).next ∧ WF (procComp st s e c) ∧
    (R E st.cur → R E (st.next + 1)) ∧ GZ (procComp st s e c).stmts ∧
    ∃ ns, (procComp st s e c).stmts = ns ++ st.stmts ∧
      ∀ x ∈ ns, x.s = s ∧ x.e = e ∧ (R E st.cur → R E x.blk) ∧ st.next ≤ x.blk ∧ x.blk ≠ st.next + 1 ∧
        x.blk < (procComp st s e c).next := by
  have wf' := (comp_frame (c := st.cur) (n := st.next) st s e c w (Or.inl rfl) (Nat.le_refl _)).1.wf
  obtain ⟨f1, f2, f3, f4, f5⟩ := comp_facts st s e c
  have hcov : Cov E (procComp.go s e c (bump (((bump st).edge st.cur st.next .normal).add st.next s e .other)) st.next).1.stmts
      (procComp.go s e c (bump (((bump st).edge st.cur st.next .normal).add st.next s e .other)) st.next).1 :=
    ⟨fun x hx => hE x (f4 x hx), fun _ h => h⟩
  have h0 := go_cov s e c _ _ hcov
  have e0 := h0.1 (st.cur, st.next, .normal) (by simp)
  have r0 : R E st.cur → R E st.next := fun h => R.step h e0
  have g := go_rq st.cur s e c _ st.next hcov r0
    (show GZ ({ blk := st.next, s := s, e := e, ty := .other } :: st.stmts) from hgz.add_fresh (NoRec.of_wf w (Nat.le_refl _)))
    (by
      intro x hx
      simp only [edge_stmts, bump_stmts, add_stmts, List.mem_cons] at hx
      simp only [edge_next, bump_next, add_next]
      rcases hx with rfl | hx
      · simp only; omega
      · have := w.stmts x hx; omega)
  have hnx := g.nx
  simp only [edge_next, bump_next, add_next] at hnx
  refine ⟨f1, by omega, wf', ?_, by rw [f3]; exact g.gz, ?_⟩
  · intro h
    rcases f5 with h5 | ⟨h5, h6⟩
    · exact R.step (g.rc h) (hE _ h5)
    · exact R.step (r0 h) (hE _ h6)
  · obtain ⟨ns, h1, h2⟩ := g.ext
    refine ⟨ns ++ [{ blk := st.next, s := s, e := e, ty := .other }], by rw [f3, h1]; simp, ?_⟩
    intro x hx
    have hb := g.bd x (by
      rw [h1]
      rcases List.mem_append.mp hx with hx | hx
      · exact List.mem_append.mpr (.inl hx)
      · exact List.mem_append.mpr (.inr (by rw [List.mem_singleton.mp hx]; exact List.mem_cons_self ..)))
    rcases List.mem_append.mp hx with hx | hx
    · obtain ⟨q1, q2, q3, q4⟩ := h2 x hx
      simp only [edge_next, bump_next, add_next] at q4
      exact ⟨q1, q2, q3, by omega, by omega, by omega⟩
    · rw [List.mem_singleton.mp hx] at hb ⊢
      exact ⟨rfl, rfl, r0, Nat.le_refl _, by simp only; omega, by simp only at hb ⊢; omega⟩

/-- a comprehension followed by the statement's own record in the exit block; afterwards the current block is the exit block
or a fresh one -/
theorem comp_own_rq {st : St} {p s e : Nat} {ty : Ty} {c : List Bool} (w : WF st) (hp : p ≤ s) (hse : s ≤ e)
    (hsi : SI E st.stmts st.cur p) (hgc : GC st.stmts st.cur) (hE : ∀ x ∈ (procComp st s e c).edges, x ∈ E)
    (hz : ∀ b, st.next ≤ b → b < (procComp st s e c).next → R E b → R E st.cur)
    {c' : Nat} (hc : c' = (procComp st s e c).cur ∨ c' = (procComp st s e c).next) :
    RPost E st.stmts ({ blk := (procComp st s e c).cur, s := s, e := e, ty := ty } :: (procComp st s e c).stmts) c' p (e + 1) := by
  have hpos := hsi.pos
  obtain ⟨c1, c2, c3, c4, c5, ns, c6, c7⟩ := comp_rq st s e c w hE hgc.gz
  have hnr : NoRec (procComp st s e c).stmts (st.next + 1) := by
    intro x hx
    rw [c6] at hx
    rcases List.mem_append.mp hx with hx | hx
    · exact (c7 x hx).2.2.2.2.1
    · have := w.stmts x hx; omega
  have hgc' : GC ({ blk := (procComp st s e c).cur, s := s, e := e, ty := ty } :: (procComp st s e c).stmts) c' := by
    rw [c1] at hc ⊢
    rcases hc with rfl | rfl
    · exact GC.hdr c5 hnr (by omega)
    · exact GC.fresh (c5.add_fresh hnr) (NoRec.cons (by omega) (NoRec.of_wf c3 (Nat.le_refl _)))
  rw [c6] at hgc' ⊢
  rw [c1] at hgc' ⊢
  refine rpost_batch hsi hp hse ({ blk := st.next + 1, s := s, e := e, ty := ty } :: ns) ?_ hgc'
  intro x hx
  rcases List.mem_cons.mp hx with rfl | hx
  · exact ⟨rfl, rfl, hz (st.next + 1) (by omega) (by omega), c4⟩
  · obtain ⟨q1, q2, q3, q4, q5, q6⟩ := c7 x hx
    exact ⟨q1, q2, hz _ q4 q6, q3⟩

theorem simple_rq (s e : Nat) (c : List Bool) (h : Bool) : RQS E (.simple s e c h) := by
  intro il st p w hok hf hwf hp hsi hgc
  rw [wfS_simple] at hwf
  simp only [decide_eq_true_eq] at hwf
  simp only [Stmt.span] at hp ⊢
  have hpos := hsi.pos
  obtain ⟨iw, _⟩ := procStmt_frame (.simple s e c h) st w st.cur st.next (Or.inl rfl) (Nat.le_refl _)
  have hz := zoneR w iw hf
  rw [procStmt_simple] at hf hz ⊢
  cases h
  · simp only [Bool.false_eq_true, ↓reduceIte]
    exact rpost_one hsi hp hwf (hgc.add_cur (by omega))
  · simp only [↓reduceIte] at hf hz ⊢
    exact comp_own_rq w hp hwf hsi hgc (fun x hx => hf.mem hx) (fun b h1 h2 => hz b (.inr h1) h2) (.inl rfl)

theorem ret_rq (s e : Nat) (c : List Bool) (h : Bool) : RQS E (.ret s e c h) := by
  intro il st p w hok hf hwf hp hsi hgc
  rw [wfS_ret] at hwf
  simp only [decide_eq_true_eq] at hwf
  simp only [Stmt.span] at hp ⊢
  obtain ⟨iw, _⟩ := procStmt_frame (.ret s e c h) st w st.cur st.next (Or.inl rfl) (Nat.le_refl _)
  have hz := zoneR w iw hf
  rw [procStmt_ret, procRet_tail] at hf hz ⊢
  cases h
  · simp only [Bool.false_eq_true, ↓reduceIte]
    obtain ⟨h1, h2, _, _⟩ := retTail_facts st s e
    rw [h1]
    exact term_rq w hp hwf hsi hgc (.inr h2)
  · simp only [↓reduceIte] at hf hz ⊢
    obtain ⟨h1, h2, h3, h4⟩ := retTail_facts (procComp st s e c) s e
    rw [h3] at hz
    rw [h1]
    exact comp_own_rq w hp hwf hsi hgc (fun x hx => hf.mem (h4 x hx)) (fun b b1 b2 => hz b (.inr b1) (by omega)) (.inr h2)

end leaf
end PV.CFGSound

#print axioms PV.CFGSound.simple_rq
#print axioms PV.CFGSound.def_rq
#print axioms PV.CFGSound.ret_rq
#print axioms PV.CFGSound.brk_rq
#print axioms PV.CFGSound.cont_rq
#print axioms PV.CFGSound.raise_rq
#print axioms PV.CFGSound.handler_rq
#print axioms PV.CFGSound.case_rq
