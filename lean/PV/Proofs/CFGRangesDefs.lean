import PV.Proofs.CFGComplete
import PV.Proofs.CFGSound3
/-!
Range-level soundness of the dead-code detector of the CFG mirror (property C01, reported RANGES) — shared definitions.

* `wfL` / `wfS` / `posL`, `WFLoc`: well-formedness of the source spans (one statement per line, children inside the parent, in order);
* `Rel E newer older`: the facts about a pair of statement records in insertion order (start lines are monotone, a record
  nested in the span of an older one is reachable only if the older one is, two records of one line are reachable together);
* `SI E L a p`: the record list `L` (newest first) is pairwise `Rel`, everything stored so far starts before line `p`, and every
  record whose span is still open at `p` is in a block that is reachable whenever the anchor block `a` is;
* `GZ L` / `CurOK L c` (`GC`): the records of one block are consecutive in insertion order, and a record with end line 0 (the
  test of a converted `elif`) is the last one of its block;
* `RPost`, `RQL`, `RQS`: the statements proved by induction over the program.
-/
namespace PV.CFGSound
open PV.CFG

/-! ### well-formed source spans -/

/-- the line after the end of a statement list that starts at or after `p` -/
def posL (p : Nat) : List Stmt → Nat
  | [] => p
  | x :: xs => posL (x.span.2 + 1) xs

set_option linter.unusedSimpArgs false in
mutual
  /-- the statements of the list start at or after line `p`, one after the other -/
  def wfL (p : Nat) : List Stmt → Bool
    | [] => true
    | x :: xs => decide (p ≤ x.span.1) && wfS x && wfL (x.span.2 + 1) xs
  termination_by l => 2 * sizeL l
  decreasing_by
    all_goals (try simp_wf)
    all_goals (try simp only [Stmt.size, sizeL])
    all_goals omega
  /-- `s ≤ e`, and the parts of a compound statement lie after its start line, inside its span, in source order -/
  def wfS : Stmt → Bool
    | .simple s e _ _ | .ret s e _ _ | .brk s e | .cont s e | .raise s e | .def_ s e _ => decide (s ≤ e)
    | .ite s e a b | .elifc s e a b | .loop s e a b =>
      decide (s ≤ e) && wfL (s + 1) a && wfL (posL (s + 1) a) b && decide (posL (posL (s + 1) a) b ≤ e + 1)
    | .elsec s e a | .handler s e a | .with_ s e a | .match_ s e a | .case_ s e a | .class_ s e a =>
      decide (s ≤ e) && wfL (s + 1) a && decide (posL (s + 1) a ≤ e + 1)
    | .try_ s e a hs c d =>
      decide (s ≤ e) && wfL (s + 1) a && wfL (posL (s + 1) a) hs && wfL (posL (posL (s + 1) a) hs) c &&
        wfL (posL (posL (posL (s + 1) a) hs) c) d && decide (posL (posL (posL (posL (s + 1) a) hs) c) d ≤ e + 1)
  termination_by x => 2 * x.size + 1
  decreasing_by
    all_goals (try simp_wf)
    all_goals (try simp only [Stmt.size, sizeL])
    all_goals omega
end

/-- all start lines are ≥ 1, one statement per line, children inside the parent span, in source order -/
def WFLoc (body : List Stmt) : Prop := wfL 1 body = true

instance (body : List Stmt) : Decidable (WFLoc body) := by unfold WFLoc; infer_instance

theorem posL_nil (p : Nat) : posL p [] = p := rfl
theorem posL_cons (p : Nat) (x : Stmt) (xs : List Stmt) : posL p (x :: xs) = posL (x.span.2 + 1) xs := rfl

theorem wfL_nil (p : Nat) : wfL p [] = true := by rw [wfL]
theorem wfL_cons (p : Nat) (x : Stmt) (xs : List Stmt) :
    wfL p (x :: xs) = (decide (p ≤ x.span.1) && wfS x && wfL (x.span.2 + 1) xs) := by rw [wfL]
theorem wfS_simple (s e : Nat) (c : List Bool) (h : Bool) : wfS (.simple s e c h) = decide (s ≤ e) := by rw [wfS]
theorem wfS_ret (s e : Nat) (c : List Bool) (h : Bool) : wfS (.ret s e c h) = decide (s ≤ e) := by rw [wfS]
theorem wfS_brk (s e : Nat) : wfS (.brk s e) = decide (s ≤ e) := by rw [wfS]
theorem wfS_cont (s e : Nat) : wfS (.cont s e) = decide (s ≤ e) := by rw [wfS]
theorem wfS_raise (s e : Nat) : wfS (.raise s e) = decide (s ≤ e) := by rw [wfS]
theorem wfS_def (s e : Nat) (b : List Stmt) : wfS (.def_ s e b) = decide (s ≤ e) := by rw [wfS]
theorem wfS_ite (s e : Nat) (a b : List Stmt) : wfS (.ite s e a b) =
    (decide (s ≤ e) && wfL (s + 1) a && wfL (posL (s + 1) a) b && decide (posL (posL (s + 1) a) b ≤ e + 1)) := by rw [wfS]
theorem wfS_elifc (s e : Nat) (a b : List Stmt) : wfS (.elifc s e a b) =
    (decide (s ≤ e) && wfL (s + 1) a && wfL (posL (s + 1) a) b && decide (posL (posL (s + 1) a) b ≤ e + 1)) := by rw [wfS]
theorem wfS_loop (s e : Nat) (a b : List Stmt) : wfS (.loop s e a b) =
    (decide (s ≤ e) && wfL (s + 1) a && wfL (posL (s + 1) a) b && decide (posL (posL (s + 1) a) b ≤ e + 1)) := by rw [wfS]
theorem wfS_elsec (s e : Nat) (a : List Stmt) : wfS (.elsec s e a) = (decide (s ≤ e) && wfL (s + 1) a && decide (posL (s + 1) a ≤ e + 1)) := by rw [wfS]
theorem wfS_handler (s e : Nat) (a : List Stmt) : wfS (.handler s e a) = (decide (s ≤ e) && wfL (s + 1) a && decide (posL (s + 1) a ≤ e + 1)) := by rw [wfS]
theorem wfS_with (s e : Nat) (a : List Stmt) : wfS (.with_ s e a) = (decide (s ≤ e) && wfL (s + 1) a && decide (posL (s + 1) a ≤ e + 1)) := by rw [wfS]
theorem wfS_match (s e : Nat) (a : List Stmt) : wfS (.match_ s e a) = (decide (s ≤ e) && wfL (s + 1) a && decide (posL (s + 1) a ≤ e + 1)) := by rw [wfS]
theorem wfS_case (s e : Nat) (a : List Stmt) : wfS (.case_ s e a) = (decide (s ≤ e) && wfL (s + 1) a && decide (posL (s + 1) a ≤ e + 1)) := by rw [wfS]
theorem wfS_class (s e : Nat) (a : List Stmt) : wfS (.class_ s e a) = (decide (s ≤ e) && wfL (s + 1) a && decide (posL (s + 1) a ≤ e + 1)) := by rw [wfS]
theorem wfS_try (s e : Nat) (a hs c d : List Stmt) : wfS (.try_ s e a hs c d) =
    (decide (s ≤ e) && wfL (s + 1) a && wfL (posL (s + 1) a) hs && wfL (posL (posL (s + 1) a) hs) c &&
      wfL (posL (posL (posL (s + 1) a) hs) c) d && decide (posL (posL (posL (posL (s + 1) a) hs) c) d ≤ e + 1)) := by rw [wfS]

theorem wfS_le {x : Stmt} (h : wfS x = true) : x.span.1 ≤ x.span.2 := by
  cases x <;> rw [wfS] at h <;> simp only [Bool.and_eq_true, decide_eq_true_eq] at h <;> simp only [Stmt.span] <;> omega

theorem posL_ge : ∀ (ss : List Stmt) (p : Nat), wfL p ss = true → p ≤ posL p ss
  | [], _, _ => Nat.le_refl _
  | x :: xs, p, h => by
    rw [wfL_cons] at h
    simp only [Bool.and_eq_true, decide_eq_true_eq] at h
    have := posL_ge xs _ h.2
    have := wfS_le h.1.2
    rw [posL_cons]; omega

theorem wfL_mono : ∀ (ss : List Stmt) {p q : Nat}, q ≤ p → wfL p ss = true → wfL q ss = true
  | [], _, _, _, _ => wfL_nil _
  | x :: xs, p, q, hq, h => by
    rw [wfL_cons] at h ⊢
    simp only [Bool.and_eq_true, decide_eq_true_eq] at h ⊢
    exact ⟨⟨by omega, h.1.2⟩, h.2⟩

theorem posL_of_ne_nil : ∀ (ss : List Stmt) (p q : Nat), ss ≠ [] → posL p ss = posL q ss
  | [], _, _, h => absurd rfl h
  | _ :: _, _, _, _ => rfl

/-! ### pairs of records -/

/-- `newer` was stored after `older` -/
structure Rel (E : List Edge) (newer older : SRec) : Prop where
  /-- located records are stored in source order -/
  ord : 1 ≤ older.s → 1 ≤ newer.s → older.s ≤ newer.s
  /-- a record that starts inside the span of an older one is reachable only if the older one is -/
  nest : 1 ≤ newer.s → newer.s ≤ older.e → R E newer.blk → R E older.blk
  /-- the records of one line (a comprehension) are reachable together -/
  same : 1 ≤ older.s → older.s = newer.s → R E older.blk → R E newer.blk

/-- bounds of a record added while code inside lines `p … q-1` is processed (`0..0`: the test of a converted `elif`) -/
def Bd (p q : Nat) (r : SRec) : Prop := (r.s = 0 ∧ r.e = 0) ∨ (p ≤ r.s ∧ r.s ≤ r.e ∧ r.e < q)

theorem Bd.mono {p q p' q' : Nat} {r : SRec} (h : Bd p q r) (hp : p' ≤ p) (hq : q ≤ q') : Bd p' q' r := by
  rcases h with h | h
  · exact .inl h
  · exact .inr ⟨by omega, h.2.1, by omega⟩

/-- the invariant on the record list `L` (newest first) before code at lines `≥ p` is processed from a block dominated by `a` -/
structure SI (E : List Edge) (L : List SRec) (a p : Nat) : Prop where
  pos : 1 ≤ p
  pw : L.Pairwise (Rel E)
  lt : ∀ r ∈ L, r.s < p
  opn : ∀ r ∈ L, p ≤ r.e → R E a → R E r.blk

section si
variable {E : List Edge} {L : List SRec} {a a' p p' : Nat}

theorem SI.mono (h : SI E L a p) (hp : p ≤ p') : SI E L a p' :=
  ⟨Nat.le_trans h.pos hp, h.pw, fun r hr => Nat.lt_of_lt_of_le (h.lt r hr) hp, fun r hr he => h.opn r hr (Nat.le_trans hp he)⟩

theorem SI.anchor (h : SI E L a p) (ha : R E a' → R E a) : SI E L a' p :=
  ⟨h.pos, h.pw, h.lt, fun r hr he hr' => h.opn r hr he (ha hr')⟩

/-- the test of a converted `elif` (location 0..0) may be stored anywhere -/
theorem SI.zero (h : SI E L a p) (b : Nat) (ty : Ty) : SI E ({ blk := b, s := 0, e := 0, ty := ty } :: L) a p := by
  refine ⟨h.pos, List.pairwise_cons.mpr ⟨?_, h.pw⟩, ?_, ?_⟩
  · intro r _
    exact ⟨fun _ h1 => by simp at h1, fun h1 => by simp at h1, fun h1 h2 => by simp at h2; omega⟩
  · intro r hr
    rcases List.mem_cons.mp hr with rfl | hr
    · exact h.pos
    · exact h.lt r hr
  · intro r hr he
    rcases List.mem_cons.mp hr with rfl | hr
    · have := h.pos; simp at he; omega
    · exact h.opn r hr he

/-- records of ONE line `s` (one statement; several for a comprehension), all in blocks that are reachable iff the anchor is -/
theorem SI.batch (h : SI E L a p) {s e : Nat} (hs : p ≤ s) : ∀ (ns : List SRec),
    (∀ r ∈ ns, r.s = s ∧ r.e = e ∧ (R E r.blk ↔ R E a)) → SI E (ns ++ L) a (s + 1)
  | [], _ => h.mono (by omega)
  | n :: ns, hn => by
    have ih := SI.batch h hs ns (fun r hr => hn r (List.mem_cons_of_mem _ hr))
    obtain ⟨n1, n2, n3⟩ := hn n (List.mem_cons_self ..)
    have hp := h.pos
    refine ⟨by omega, ?_, ?_, ?_⟩
    · rw [List.cons_append]
      refine List.pairwise_cons.mpr ⟨?_, ih.pw⟩
      intro r hr
      rcases List.mem_append.mp hr with hr | hr
      · obtain ⟨r1, r2, r3⟩ := hn r (List.mem_cons_of_mem _ hr)
        exact ⟨fun _ _ => by omega, fun _ _ hh => r3.mpr (n3.mp hh), fun _ _ hh => n3.mpr (r3.mp hh)⟩
      · have hlt := h.lt r hr
        refine ⟨fun _ _ => by omega, fun _ hle hh => h.opn r hr (by omega) (n3.mp hh), fun _ heq _ => by omega⟩
    · intro r hr
      rw [List.cons_append] at hr
      rcases List.mem_cons.mp hr with rfl | hr
      · omega
      · exact ih.lt r hr
    · intro r hr he hra
      rw [List.cons_append] at hr
      rcases List.mem_cons.mp hr with rfl | hr
      · exact n3.mpr hra
      · exact ih.opn r hr he hra

/-- one located record in a block that is reachable iff the anchor is -/
theorem SI.cons (h : SI E L a p) {b s e : Nat} {ty : Ty} (hs : p ≤ s) (h1 : R E b → R E a) (h2 : R E a → R E b) :
    SI E ({ blk := b, s := s, e := e, ty := ty } :: L) a (s + 1) :=
  SI.batch (e := e) h hs [{ blk := b, s := s, e := e, ty := ty }] (fun r hr => by
    rw [List.mem_singleton.mp hr]; exact ⟨rfl, rfl, h1, h2⟩)

/-- after a framed sub-call whose records are bounded by `q` -/
theorem SI.after (h : SI E L a p) {L' : List SRec} {q : Nat} (hx : ∃ ns, L' = ns ++ L ∧ ∀ r ∈ ns, Bd p q r) (hpw : L'.Pairwise (Rel E))
    (hp : p ≤ p') (hq : q ≤ p') : SI E L' a p' := by
  obtain ⟨ns, rfl, hb⟩ := hx
  have hpos := h.pos
  refine ⟨by omega, hpw, ?_, ?_⟩
  · intro r hr
    rcases List.mem_append.mp hr with hr | hr
    · rcases hb r hr with hh | hh <;> omega
    · have := h.lt r hr; omega
  · intro r hr he
    rcases List.mem_append.mp hr with hr | hr
    · rcases hb r hr with hh | hh <;> omega
    · exact h.opn r hr (by omega)
end si

/-! ### the records of one block are consecutive -/
def NoRec (L : List SRec) (b : Nat) : Prop := ∀ r ∈ L, r.blk ≠ b
/-- the newest record is in block `b` and is not the test of a converted `elif` -/
def Top (L : List SRec) (b : Nat) : Prop := ∃ h t, L = h :: t ∧ h.blk = b ∧ h.e ≠ 0

/-- every record either opens a block without records or continues the block of the record stored just before it, which then
must have an end line `≠ 0` -/
def GZ : List SRec → Prop
  | [] => True
  | r :: L => GZ L ∧ (NoRec L r.blk ∨ Top L r.blk)

def CurOK (L : List SRec) (c : Nat) : Prop := NoRec L c ∨ Top L c

structure GC (L : List SRec) (c : Nat) : Prop where
  gz : GZ L
  cur : CurOK L c

section gc
variable {L : List SRec} {b c m s e : Nat} {ty : Ty}

theorem NoRec.cons (hb : b ≠ m) (h : NoRec L m) : NoRec ({ blk := b, s := s, e := e, ty := ty } :: L) m := by
  intro r hr
  rcases List.mem_cons.mp hr with rfl | hr
  · exact hb
  · exact h r hr

theorem NoRec.of_wf {st : St} (w : WF st) (h : st.next ≤ m) : NoRec st.stmts m :=
  fun r hr => by have := w.stmts r hr; omega

theorem NoRec.inv {n : Nat} {st st' : St} (i : Inv c n st st') (hm : m ≠ c) (hlt : m < n) (h : NoRec st.stmts m) : NoRec st'.stmts m := by
  obtain ⟨ns, hs, hns⟩ := i.stmts
  intro r hr
  rw [hs] at hr
  rcases List.mem_append.mp hr with hr | hr
  · rcases hns r hr with h1 | h1 <;> omega
  · exact h r hr

/-- a record for the current block (any location; afterwards the current block must change if `e = 0`) -/
theorem GC.gz_add_cur (h : GC L c) : GZ ({ blk := c, s := s, e := e, ty := ty } :: L) := ⟨h.gz, h.cur⟩

theorem GC.add_cur (h : GC L c) (he : e ≠ 0) : GC ({ blk := c, s := s, e := e, ty := ty } :: L) c :=
  ⟨h.gz_add_cur, .inr ⟨_, _, rfl, rfl, he⟩⟩

theorem GZ.add_fresh (h : GZ L) (hb : NoRec L b) : GZ ({ blk := b, s := s, e := e, ty := ty } :: L) := ⟨h, .inl hb⟩

/-- a header record in a fresh block that becomes the current block -/
theorem GC.hdr (h : GZ L) (hb : NoRec L b) (he : e ≠ 0) : GC ({ blk := b, s := s, e := e, ty := ty } :: L) b :=
  ⟨h.add_fresh hb, .inr ⟨_, _, rfl, rfl, he⟩⟩

/-- the current block is set to a block without records -/
theorem GC.fresh (h : GZ L) (hc : NoRec L c) : GC L c := ⟨h, .inl hc⟩
end gc

/-! ### the statements proved by induction -/

/-- what a framed call on code inside lines `p … q-1` establishes (`L`, `L'`: the record lists before / after, `c'`: the block that
is current afterwards) -/
structure RPost (E : List Edge) (L L' : List SRec) (c' p q : Nat) : Prop where
  ext : ∃ ns, L' = ns ++ L ∧ ∀ r ∈ ns, Bd p q r
  pw : L'.Pairwise (Rel E)
  gc : GC L' c'

theorem RPost.si {E : List Edge} {L L' : List SRec} {a c' p q p' : Nat} (h : RPost E L L' c' p q) (hs : SI E L a p) (hp : p ≤ p') (hq : q ≤ p') :
    SI E L' a p' := hs.after h.ext h.pw hp hq

theorem RPost.mono {E : List Edge} {L L' : List SRec} {c' p q p' q' : Nat} (h : RPost E L L' c' p q) (hp : p' ≤ p) (hq : q ≤ q') :
    RPost E L L' c' p' q' := by
  obtain ⟨ns, h1, h2⟩ := h.ext
  exact ⟨⟨ns, h1, fun r hr => (h2 r hr).mono hp hq⟩, h.pw, h.gc⟩

/-- sequential composition -/
theorem RPost.trans {E : List Edge} {L L' L'' : List SRec} {c' c'' p q : Nat} (h₁ : RPost E L L' c' p q) (h₂ : RPost E L' L'' c'' p q) :
    RPost E L L'' c'' p q := by
  obtain ⟨n1, e1, b1⟩ := h₁.ext
  obtain ⟨n2, e2, b2⟩ := h₂.ext
  refine ⟨⟨n2 ++ n1, by rw [e2, e1, List.append_assoc], ?_⟩, h₂.pw, h₂.gc⟩
  intro r hr
  rcases List.mem_append.mp hr with hr | hr
  · exact b2 r hr
  · exact b1 r hr

def RQL (E : List Edge) (ss : List Stmt) : Prop :=
  ∀ (il : Bool) (st : St) (p : Nat), WF st → okLC il ss = true → Fut E st.next (procList st ss).next (procList st ss) → wfL p ss = true →
    SI E st.stmts st.cur p → GC st.stmts st.cur →
    RPost E st.stmts (procList st ss).stmts (procList st ss).cur p (posL p ss)

def RQS (E : List Edge) (x : Stmt) : Prop :=
  ∀ (il : Bool) (st : St) (p : Nat), WF st → okSC il x = true → Fut E st.next (procStmt st x).next (procStmt st x) → wfS x = true → p ≤ x.span.1 →
    SI E st.stmts st.cur p → GC st.stmts st.cur →
    RPost E st.stmts (procStmt st x).stmts (procStmt st x).cur p (x.span.2 + 1)

/-- every block a framed call owns is reachable only if the block that was current at its start is -/
theorem zoneR {E : List Edge} {st s' : St} (w : WF st) (i : Inv st.cur st.next st s') (f : Fut E st.next s'.next s') :
    ∀ b, Own st.cur st.next b → b < s'.next → R E b → R E st.cur := by
  intro b hb hlt hr
  apply Classical.byContradiction
  intro hd
  exact zone_dead w i f hd b hb hlt hr

/-- an edge of a later state is an edge of the final graph -/
theorem Fut.step {E : List Edge} {lo hi : Nat} {s : St} (f : Fut E lo hi s) {a b : Nat} {t : ETy} (h : (a, b, t) ∈ s.edges) (hr : R E a) : R E b :=
  R.step hr (f.mem h)

end PV.CFGSound
