import PV.Proofs.CFGCompleteDefs
/-!
The TARGET frame of the CFG mirror: every edge added by a builder call has a target that is allocated
during the call, or EXIT, or a block named by the context stacks at the start of the call, or one of the
call's explicit block parameters (`TI G st (F st)` for every `G` with `TG G st`).
Sibling of `CFGFrameA` (which is about edge SOURCES); self-contained induction on statement size.
-/
namespace PV.CFGSound
open PV.CFG

set_option linter.unusedVariables false

/-! ### basics -/
theorem TI.refl (G : Nat → Prop) (s : St) : TI G s s := ⟨[], rfl, by simp⟩

theorem TI.trans {G : Nat → Prop} {a b c : St} (h₁ : TI G a b) (h₂ : TI G b c) : TI G a c := by
  obtain ⟨n1, e1, p1⟩ := h₁
  obtain ⟨n2, e2, p2⟩ := h₂
  refine ⟨n2 ++ n1, by rw [e2, e1, List.append_assoc], ?_⟩
  intro e h
  rcases List.mem_append.mp h with h | h
  · exact p2 e h
  · exact p1 e h

theorem TI.of_edges_eq {G : Nat → Prop} {s0 s s' : St} (h : TI G s0 s) (he : s'.edges = s.edges) : TI G s0 s' := by
  obtain ⟨ne, h1, h2⟩ := h
  exact ⟨ne, he.trans h1, h2⟩

theorem TI.edge {G : Nat → Prop} {s0 s : St} (h : TI G s0 s) {a b : Nat} {t : ETy} (hb : G b) : TI G s0 (s.edge a b t) := by
  obtain ⟨ne, h1, h2⟩ := h
  refine ⟨(a, b, t) :: ne, by simp [h1], ?_⟩
  intro e he
  rcases List.mem_cons.mp he with rfl | he
  · exact hb
  · exact h2 e he

theorem TI.edgeUnlessExit {G : Nat → Prop} {s0 s : St} (h : TI G s0 s) {a b : Nat} {t : ETy} (hb : G b) :
    TI G s0 (s.edgeUnlessExit a b t) := by
  rcases edgeUnlessExit_cases s a b t with ⟨_, h'⟩ | ⟨_, h'⟩ <;> rw [h']
  · exact h
  · exact h.edge hb

theorem TI.mono {G G' : Nat → Prop} {s0 s : St} (h : TI G s0 s) (hg : ∀ x, G x → G' x) : TI G' s0 s := by
  obtain ⟨ne, h1, h2⟩ := h
  exact ⟨ne, h1, fun e he => hg _ (h2 e he)⟩

/-- TG is inherited by a later state with the same context stacks -/
theorem TG.later {G : Nat → Prop} {s s' : St} (g : TG G s) (hn : s.next ≤ s'.next) (sm : Same s s') : TG G s' :=
  ⟨fun x hx => g.up x (Nat.le_trans hn hx), g.exit, by rw [sm.loops]; exact g.loops, by rw [sm.excs]; exact g.excs⟩

/-! ### the working invariant: `TI` + `next` grows + the context stacks are the given lists -/
structure TGc (G : Nat → Prop) (n : Nat) (L : List (Nat × Nat × Nat)) (X : List Exc) : Prop where
  up : ∀ x, n ≤ x → G x
  exit : G exitB
  loops : ∀ l ∈ L, G l.1 ∧ G l.2.1
  excs : ∀ c ∈ X, (∀ f, c.fin = some f → G f) ∧ ∀ h ∈ c.handlers, G h

theorem TG.toc {G : Nat → Prop} {st : St} (g : TG G st) : TGc G st.next st.loops st.excs := ⟨g.up, g.exit, g.loops, g.excs⟩

structure TS (G : Nat → Prop) (s0 : St) (L : List (Nat × Nat × Nat)) (X : List Exc) (s : St) : Prop where
  ti : TI G s0 s
  le : s0.next ≤ s.next
  loops : s.loops = L
  excs : s.excs = X

section rules
variable {G : Nat → Prop} {s0 s : St} {L L' : List (Nat × Nat × Nat)} {X X' : List Exc}

theorem TS.refl' (G : Nat → Prop) (s : St) : TS G s s.loops s.excs s := ⟨TI.refl G s, Nat.le_refl _, rfl, rfl⟩

theorem TS.rBump (t : TS G s0 L X s) : TS G s0 L X (PV.CFGSound.bump s) :=
  ⟨t.ti.of_edges_eq rfl, by have := t.le; simp only [bump_next]; omega, t.loops, t.excs⟩
theorem TS.rBumpU (t : TS G s0 L X s) : TS G s0 L X (PV.CFGSound.bumpU s) :=
  ⟨t.ti.of_edges_eq rfl, by have := t.le; simp only [bumpU_next]; omega, t.loops, t.excs⟩
theorem TS.rBumpN (t : TS G s0 L X s) {k : Nat} : TS G s0 L X (PV.CFGSound.bumpN s k) :=
  ⟨t.ti.of_edges_eq rfl, by have := t.le; simp only [bumpN_next]; omega, t.loops, t.excs⟩
theorem TS.rSetCur (t : TS G s0 L X s) {c : Nat} : TS G s0 L X (PV.CFGSound.setCur s c) :=
  ⟨t.ti.of_edges_eq rfl, t.le, t.loops, t.excs⟩
theorem TS.rAdd (t : TS G s0 L X s) {b p q : Nat} {ty : Ty} : TS G s0 L X (s.add b p q ty) :=
  ⟨t.ti.of_edges_eq rfl, t.le, t.loops, t.excs⟩
theorem TS.rEdge (t : TS G s0 L X s) {a b : Nat} {ty : ETy} (hb : G b) : TS G s0 L X (s.edge a b ty) :=
  ⟨t.ti.edge hb, t.le, t.loops, t.excs⟩
theorem TS.rEdgeUE (t : TS G s0 L X s) {a b : Nat} {ty : ETy} (hb : G b) : TS G s0 L X (s.edgeUnlessExit a b ty) :=
  ⟨t.ti.edgeUnlessExit hb, by rw [edgeUnlessExit_next]; exact t.le, by rw [edgeUnlessExit_loops]; exact t.loops,
    by rw [edgeUnlessExit_excs]; exact t.excs⟩
theorem TS.rSetLoops {l : List (Nat × Nat × Nat)} (hl : l = L) (t : TS G s0 L' X s) : TS G s0 L X (PV.CFGSound.setLoops s l) :=
  ⟨t.ti.of_edges_eq rfl, t.le, hl, t.excs⟩
theorem TS.rSetExcs {x : List Exc} (hx : x = X) (t : TS G s0 L X' s) : TS G s0 L X (PV.CFGSound.setExcs s x) :=
  ⟨t.ti.of_edges_eq rfl, t.le, t.loops, hx⟩

theorem TS.rFoldl (src : Nat) (ty : ETy) : ∀ (hs : List Nat) (s : St), TS G s0 L X s → (∀ h ∈ hs, G h) →
    TS G s0 L X (hs.foldl (fun st h => st.edge src h ty) s)
  | [], _, t, _ => t
  | h :: hs, s, t, hg => by
    simp only [List.foldl_cons]
    exact TS.rFoldl src ty hs _ (t.rEdge (hg h (List.mem_cons_self ..))) (fun x hx => hg x (List.mem_cons_of_mem _ hx))

theorem TS.nest {S S2 : St} (t : TS G s0 L X S) (h : TS G S S.loops S.excs S2) : TS G s0 L X S2 :=
  ⟨t.ti.trans h.ti, Nat.le_trans t.le h.le, h.loops.trans t.loops, h.excs.trans t.excs⟩

theorem TS.tg {S : St} (gc : TGc G s0.next L X) (t : TS G s0 L X S) : TG G S :=
  ⟨fun x hx => gc.up x (Nat.le_trans t.le hx), gc.exit, by rw [t.loops]; exact gc.loops, by rw [t.excs]; exact gc.excs⟩
end rules

/-- one backward step through a primitive state update -/
local macro "tstep1" : tactic => `(tactic| with_reducible (first
  | exact TS.refl' _ _
  | assumption
  | apply TS.rSetCur | apply TS.rBump | apply TS.rBumpU | apply TS.rBumpN | apply TS.rAdd
  | apply TS.rEdge | apply TS.rEdgeUE))
local macro "tsteps" : tactic => `(tactic| repeat' tstep1)
-- close a goal `G b`: hypothesis, EXIT, or a block `≥ s0.next` (uses `gc`, and `hle` through `omega`)
set_option hygiene false in
local macro "tgoal" : tactic => `(tactic| first | assumption | exact gc.exit | exact gc.up _ (by omega))

def TPS (x : Stmt) : Prop := ∀ st G, TG G st → TS G st st.loops st.excs (procStmt st x)
def TPL (ss : List Stmt) : Prop := ∀ st G, TG G st → TS G st st.loops st.excs (procList st ss)
def TPSN (N : Nat) : Prop := ∀ x : Stmt, x.size ≤ N → TPS x
def TPLN (N : Nat) : Prop := ∀ ss, sizeL ss ≤ N → TPL ss

section constructs
variable {G : Nat → Prop} {s0 S : St} {L : List (Nat × Nat × Nat)} {X : List Exc} {N : Nat}

theorem TS.list (ih : TPLN N) {body : List Stmt} (hsz : sizeL body ≤ N) (gc : TGc G s0.next L X) (t : TS G s0 L X S) :
    TS G s0 L X (procList S body) := t.nest (ih body hsz S G (t.tg gc))
theorem TS.stmt (ih : TPSN N) {x : Stmt} (hsz : x.size ≤ N) (gc : TGc G s0.next L X) (t : TS G s0 L X S) :
    TS G s0 L X (procStmt S x) := t.nest (ih x hsz S G (t.tg gc))

/-! ### comprehension -/
theorem go_T (s e : Nat) (up : ∀ x, s0.next ≤ x → G x) :
    ∀ (cs : List Bool) (S : St) (cp : Nat), TS G s0 L X S → TS G s0 L X (procComp.go s e cs S cp).1
  | [], S, cp, t => by rw [go_nil]; exact t
  | hasTest :: rest, S, cp, t => by
    rw [go_cons]
    simp only
    apply go_T s e up rest
    have hle := t.le
    cases hasTest
    · simp only [Bool.false_eq_true, ↓reduceIte]
      tsteps <;> exact up _ (by omega)
    · simp only [↓reduceIte]
      tsteps <;> exact up _ (by omega)

theorem comp_T (gc : TGc G s0.next L X) (t : TS G s0 L X S) (s e : Nat) (comp : List Bool) :
    TS G s0 L X (procComp S s e comp) := by
  rw [procComp_eq]
  simp only
  have hle := t.le
  apply TS.rSetCur
  split
  · refine TS.rEdge ?_ (gc.up _ (by omega))
    apply go_T s e gc.up
    tsteps; tgoal
  · refine TS.rEdge ?_ (gc.up _ (by omega))
    apply go_T s e gc.up
    tsteps; tgoal

/-! ### terminators -/
theorem ret_T (gc : TGc G s0.next L X) (t : TS G s0 L X S) (s e : Nat) (comp : List Bool) (hasComp : Bool) :
    TS G s0 L X (procRet S s e comp hasComp) := by
  rw [procRet_eq]
  have t0 : TS G s0 L X (if hasComp then procComp S s e comp else S) := by
    cases hasComp
    · exact t
    · exact comp_T gc t s e comp
  generalize (if hasComp then procComp S s e comp else S) = S0 at t0 ⊢
  simp only
  apply TS.rSetCur; apply TS.rBumpU
  split
  · next f hf =>
    obtain ⟨cx, hcx, hfin⟩ := tfRet_mem hf
    have hG : G f := (gc.excs cx (by rw [← t0.excs]; exact hcx)).1 f hfin
    tsteps
  · tsteps; tgoal

theorem brk_T (gc : TGc G s0.next L X) (t : TS G s0 L X S) (s e : Nat) : TS G s0 L X (procBrk S s e) := by
  rw [procBrk_eq]
  simp only
  split
  · tsteps
  · next h x d rest hl =>
    have hx := gc.loops (h, x, d) (by rw [← t.loops]; change (h, x, d) ∈ (S.add S.cur s e .brk).loops; rw [hl]; exact List.mem_cons_self ..)
    apply TS.rSetCur; apply TS.rBumpU
    split
    · next f hf =>
      obtain ⟨cx, hcx, hfin⟩ := tfLoop_mem hf
      have hG : G f := (gc.excs cx (by rw [← t.excs]; exact hcx)).1 f hfin
      tsteps
    · have hG := hx.2
      tsteps

theorem cont_T (gc : TGc G s0.next L X) (t : TS G s0 L X S) (s e : Nat) : TS G s0 L X (procCont S s e) := by
  rw [procCont_eq]
  simp only
  split
  · tsteps
  · next h x d rest hl =>
    have hx := gc.loops (h, x, d) (by rw [← t.loops]; change (h, x, d) ∈ (S.add S.cur s e .cont).loops; rw [hl]; exact List.mem_cons_self ..)
    apply TS.rSetCur; apply TS.rBumpU
    split
    · next f hf =>
      obtain ⟨cx, hcx, hfin⟩ := tfLoop_mem hf
      have hG : G f := (gc.excs cx (by rw [← t.excs]; exact hcx)).1 f hfin
      tsteps
    · have hG := hx.1
      tsteps

theorem raise_T (gc : TGc G s0.next L X) (t : TS G s0 L X S) (s e : Nat) : TS G s0 L X (procRaise S s e) := by
  rw [procRaise_eq]
  simp only
  apply TS.rSetCur; apply TS.rBumpU
  split
  · next f hf =>
    obtain ⟨cx, hcx, hfin⟩ := tf_mem hf
    have hG : G f := (gc.excs cx (by rw [← t.excs]; exact hcx)).1 f hfin
    tsteps
  · split
    · next cx hcx =>
      have hmem := fallback_mem hcx
      split
      · rw [foldl_cur_edges_eq]
        exact TS.rFoldl _ _ _ _ t.rAdd (gc.excs cx (by rw [← t.excs]; exact hmem)).2
      · tsteps; tgoal
    · tsteps; tgoal

/-! ### class, if / elif -/
theorem class_T (ih : TPLN N) (body : List Stmt) (hsz : sizeL body ≤ N) (gc : TGc G s0.next L X) (t : TS G s0 L X S) (s e : Nat) :
    TS G s0 L X (procClass S s e body) := by
  rw [procClass_eq]
  have hle := t.le
  refine TS.list ih hsz gc ?_
  tsteps; tgoal

theorem ifHead_T (ih : TPLN N) (thn : List Stmt) (hsz : sizeL thn ≤ N) (gc : TGc G s0.next L X) (t : TS G s0 L X S) (s e : Nat) :
    TS G s0 L X (ifHead S s e thn) ∧ S.next + 2 ≤ (ifHead S s e thn).next := by
  unfold ifHead
  have hle := t.le
  have h : TS G s0 L X (procList (setCur ((bump (bump (S.add S.cur s e .other))).edge S.cur S.next .condT) S.next) thn) := by
    refine TS.list ih hsz gc ?_
    tsteps; tgoal
  refine ⟨h, ?_⟩
  have h2 := (ih thn hsz (setCur ((bump (bump (S.add S.cur s e .other))).edge S.cur S.next .condT) S.next) G
    (TS.tg gc (by tsteps; tgoal))).le
  simp only [setCur_next, edge_next, bump_next, add_next] at h2
  exact h2

theorem elifHead_T (ih : TPLN N) (thn : List Stmt) (hsz : sizeL thn ≤ N) (gc : TGc G s0.next L X) (t : TS G s0 L X S) (s e : Nat) :
    TS G s0 L X (elifHead S s e thn) := by
  unfold elifHead
  have hle := t.le
  refine TS.list ih hsz gc ?_
  tsteps; tgoal

theorem elseTail_T (ih : TPLN N) (orelse : List Stmt) (hsz : sizeL orelse ≤ N) (gc : TGc G s0.next L X) (t : TS G s0 L X S)
    (cond te : Nat) : TS G s0 L X (elseTail S cond te orelse) := by
  unfold elseTail
  have hle := t.le
  refine TS.list ih hsz gc ?_
  tsteps; tgoal

theorem elif_T (ih : TPLN N) (gc : TGc G s0.next L X) : ∀ (M : Nat) (thn orelse : List Stmt), sizeL thn + sizeL orelse ≤ M →
    sizeL thn ≤ N → sizeL orelse ≤ N → ∀ (S : St) (s e fm : Nat), TS G s0 L X S → G fm →
      TS G s0 L X (procIfElif S s e thn orelse fm) := by
  intro M
  induction M with
  | zero =>
    intro thn orelse hM h1 h2 S s e fm t gfm
    have : orelse = [] := by
      rcases orelse with _ | ⟨o, os⟩
      · rfl
      · simp only [sizeL] at hM; omega
    subst this
    rw [procIfElif_nil]
    have t3 := elifHead_T ih thn h1 gc t s e
    simp only
    unfold finishElif
    tsteps
  | succ M ihM =>
    intro thn orelse hM h1 h2 S s e fm t gfm
    have t3 := elifHead_T ih thn h1 gc t s e
    have hle := t3.le
    rcases orelse_cases orelse with rfl | ⟨s', e', a, b, rfl⟩ | ⟨s', e', a, b, rfl⟩ | ⟨o, os, rfl, hne1, hne2⟩
    · rw [procIfElif_nil]
      simp only
      unfold finishElif
      tsteps
    · rw [procIfElif_elif]
      simp only
      have hsz : sizeL a + sizeL b ≤ M ∧ sizeL a ≤ N ∧ sizeL b ≤ N := by
        simp only [sizeL, Stmt.size] at hM h2; omega
      unfold finishElif
      apply TS.rSetCur
      refine TS.rEdgeUE ?_ gfm
      refine ihM a b hsz.1 hsz.2.1 hsz.2.2 _ 0 0 fm ?_ gfm
      tsteps; tgoal
    · rw [procIfElif_ite]
      simp only
      have hsz : sizeL a + sizeL b ≤ M ∧ sizeL a ≤ N ∧ sizeL b ≤ N := by
        simp only [sizeL, Stmt.size] at hM h2; omega
      unfold finishElif
      apply TS.rSetCur
      refine TS.rEdgeUE ?_ gfm
      refine ihM a b hsz.1 hsz.2.1 hsz.2.2 _ s' e' fm ?_ gfm
      tsteps; tgoal
    · rw [procIfElif_else _ _ _ _ _ _ _ hne1 hne2]
      simp only
      have t5 := elseTail_T ih (o :: os) h2 gc t3 S.cur (elifHead S s e thn).cur
      split
      · tsteps
      · unfold finishElif
        tsteps

theorem elifTail_T (ih : TPLN N) (thn' orelse' : List Stmt) (h1 : sizeL thn' ≤ N) (h2 : sizeL orelse' ≤ N)
    (gc : TGc G s0.next L X) (t : TS G s0 L X S) (cond te merge s' e' : Nat) (gm : G merge) :
    TS G s0 L X (procIfElifTail S cond te merge s' e' thn' orelse') := by
  rw [procIfElifTail_eq]
  have hle := t.le
  have t5 : TS G s0 L X (procIfElif (setCur ((bump S).edge cond S.next .condF) S.next) s' e' thn' orelse' merge) := by
    refine elif_T ih gc _ thn' orelse' (Nat.le_refl _) h1 h2 _ s' e' merge ?_ gm
    tsteps; tgoal
  simp only
  split
  · split
    · exact t5
    · tsteps
  · tsteps

theorem if_T (ih : TPLN N) (thn orelse : List Stmt) (h1 : sizeL thn ≤ N) (h2 : sizeL orelse ≤ N)
    (gc : TGc G s0.next L X) (t : TS G s0 L X S) (s e : Nat) : TS G s0 L X (procIf S s e thn orelse) := by
  obtain ⟨t3, hn3⟩ := ifHead_T ih thn h1 gc t s e
  have hle := t.le
  have gm : G (S.next + 1) := gc.up _ (by omega)
  rcases orelse_cases orelse with rfl | ⟨s', e', a, b, rfl⟩ | ⟨s', e', a, b, rfl⟩ | ⟨o, os, rfl, hne1, hne2⟩
  · rw [procIf_nil]
    simp only
    tsteps
  · rw [procIf_elif]
    have hsz : sizeL a ≤ N ∧ sizeL b ≤ N := by simp only [sizeL, Stmt.size] at h2; omega
    exact elifTail_T ih a b hsz.1 hsz.2 gc t3 _ _ _ 0 0 gm
  · rw [procIf_ite]
    have hsz : sizeL a ≤ N ∧ sizeL b ≤ N := by simp only [sizeL, Stmt.size] at h2; omega
    exact elifTail_T ih a b hsz.1 hsz.2 gc t3 _ _ _ s' e' gm
  · rw [procIf_else _ _ _ _ _ _ hne1 hne2]
    simp only
    have t5 := elseTail_T ih (o :: os) h2 gc t3 S.cur (ifHead S s e thn).cur
    split
    · tsteps
    · tsteps

/-! ### loops -/
theorem loop_T (ih : TPLN N) (body orelse : List Stmt) (h1 : sizeL body ≤ N) (h2 : sizeL orelse ≤ N)
    (gc : TGc G s0.next L X) (t : TS G s0 L X S) (s e : Nat) : TS G s0 L X (procLoop S s e body orelse) := by
  rw [procLoop_eq]
  have hle := t.le
  have gL : TGc G s0.next ((S.next, S.next + 2, S.excs.length) :: L) X := ⟨gc.up, gc.exit, by
    intro l hl
    rcases List.mem_cons.mp hl with rfl | hl
    · exact ⟨gc.up S.next (by omega), gc.up (S.next + 2) (by omega)⟩
    · exact gc.loops l hl, gc.excs⟩
  have hLeq : (S.next, S.next + 2, S.excs.length) :: S.loops = (S.next, S.next + 2, S.excs.length) :: L := by rw [t.loops]
  rcases orelse with _ | ⟨o, os⟩
  · simp only [List.isEmpty_nil, Bool.not_true, Bool.false_eq_true, ↓reduceIte]
    refine TS.rSetLoops t.loops (L' := L) ?_
    apply TS.rSetCur
    refine TS.rSetLoops t.loops (L' := (S.next, S.next + 2, S.excs.length) :: L) ?_
    refine TS.rEdgeUE ?_ (gc.up _ (by omega))
    refine TS.list ih h1 gL ?_
    apply TS.rSetCur
    refine TS.rEdge ?_ (gc.up _ (by omega))
    refine TS.rEdge ?_ (gc.up _ (by omega))
    refine TS.rSetLoops hLeq (L' := L) ?_
    tsteps; tgoal
  · simp only [List.isEmpty_cons, Bool.not_false, ↓reduceIte]
    refine TS.rSetLoops t.loops (L' := L) ?_
    apply TS.rSetCur
    refine TS.rEdgeUE ?_ (gc.up _ (by omega))
    refine TS.list ih h2 gc ?_
    apply TS.rSetCur
    refine TS.rSetLoops t.loops (L' := (S.next, S.next + 2, S.excs.length) :: L) ?_
    refine TS.rEdgeUE ?_ (gc.up _ (by omega))
    refine TS.list ih h1 gL ?_
    apply TS.rSetCur
    refine TS.rEdge ?_ (gc.up _ (by omega))
    refine TS.rEdge ?_ (gc.up _ (by omega))
    refine TS.rSetLoops hLeq (L' := L) ?_
    tsteps; tgoal

/-! ### with -/
theorem with_T (ih : TPLN N) (body : List Stmt) (h1 : sizeL body ≤ N) (gc : TGc G s0.next L X) (t : TS G s0 L X S) (s e : Nat) :
    TS G s0 L X (procWith S s e body) := by
  rw [procWith_eq]
  have hle := t.le
  simp only
  apply TS.rSetCur
  refine TS.rEdge ?_ (gc.up _ (by omega))
  refine TS.rEdge ?_ (gc.up _ (by omega))
  refine TS.rEdgeUE ?_ (gc.up _ (by omega))
  refine TS.list ih h1 gc ?_
  tsteps <;> tgoal

/-! ### match -/
theorem cases_T (ihS : TPSN N) (ihL : TPLN N) (gc : TGc G s0.next L X) : ∀ (cs : List Stmt) (S : St) (mb merge : Nat), sizeL cs ≤ N →
    TS G s0 L X S → G merge → TS G s0 L X (procCases S cs mb merge) := by
  intro cs
  induction cs with
  | nil =>
    intro S mb merge _ t _
    rw [procCases_nil]; exact t
  | cons x cs ihc =>
    intro S mb merge hsz t gm
    have hle := t.le
    have hszs : x.size ≤ N ∧ sizeL cs ≤ N := by simp only [sizeL] at hsz; omega
    rcases case_cases x with ⟨s, e, b, rfl⟩ | hne
    · rw [procCases_case]
      simp only
      have hb : sizeL b ≤ N := by have := hszs.1; simp only [Stmt.size] at this; omega
      refine ihc _ mb merge hszs.2 ?_ gm
      refine TS.rEdgeUE ?_ gm
      refine TS.list ihL hb gc ?_
      tsteps; tgoal
    · rw [procCases_other _ _ _ _ _ hne]
      simp only
      refine ihc _ mb merge hszs.2 ?_ gm
      refine TS.rEdgeUE ?_ gm
      refine TS.stmt ihS hszs.1 gc ?_
      tsteps; tgoal

theorem match_T (ihS : TPSN N) (ihL : TPLN N) (cases : List Stmt) (h1 : sizeL cases ≤ N) (gc : TGc G s0.next L X)
    (t : TS G s0 L X S) (s e : Nat) : TS G s0 L X (procMatch S s e cases) := by
  rw [procMatch_eq]
  have hle := t.le
  simp only
  apply TS.rSetCur
  split
  · refine TS.rEdge ?_ (gc.up _ (by omega))
    refine cases_T ihS ihL gc cases _ _ _ h1 ?_ (gc.up _ (by omega))
    tsteps; tgoal
  · tsteps <;> tgoal

/-! ### the propagation edges after a `finally` body -/
theorem TS.rConn (t : TS G s0 L X S) {fin b : Nat} {ty : ETy} (hb : G b) : TS G s0 L X (conn fin S b ty) := by
  unfold conn
  split
  · exact t
  · exact t.rEdge hb

theorem TS.rFoldlConn (fin : Nat) (ty : ETy) : ∀ (hs : List Nat) (S : St), TS G s0 L X S → (∀ h ∈ hs, G h) →
    TS G s0 L X (hs.foldl (fun st h => conn fin st h ty) S)
  | [], _, t, _ => t
  | h :: hs, S, t, hg => by
    simp only [List.foldl_cons]
    exact TS.rFoldlConn fin ty hs _ (t.rConn (hg h (List.mem_cons_self ..))) (fun x hx => hg x (List.mem_cons_of_mem _ hx))

theorem fp1_T (t : TS G s0 L X S) (fin : Nat) (no : Option Nat) (hno : ∀ o, no = some o → G o) (hex : G exitB) :
    TS G s0 L X (fp1 fin no S) := by
  unfold fp1
  split
  · exact t.rConn (hno _ rfl)
  · exact t.rConn hex

theorem fp2_T (t : TS G s0 L X S) (fin : Nat) (outer : List Exc) (hout : ∀ cx ∈ outer, ∀ f, cx.fin = some f → G f)
    (hl : ∀ l ∈ L, G l.1 ∧ G l.2.1) : TS G s0 L X (fp2 fin outer S) := by
  unfold fp2
  split
  · exact t
  · next hdr ex d rest hlo =>
    have hx := hl (hdr, ex, d) (by rw [← t.loops, hlo]; exact List.mem_cons_self ..)
    simp only at hx
    simp only
    cases hnl : (outer.take (S.excs.length - 1 - d)).findSome? (fun c => c.fin) with
    | none =>
      simp only
      exact (t.rConn hx.2).rConn hx.1
    | some o =>
      simp only
      obtain ⟨cx, hcx, hf⟩ := List.exists_of_findSome?_eq_some hnl
      have ho := hout cx (List.mem_of_mem_take hcx) o hf
      exact (t.rConn ho).rConn ho

theorem fp3_T (t : TS G s0 L X S) (fin : Nat) (outer : List Exc) (no : Option Nat) (hno : ∀ o, no = some o → G o)
    (hout : ∀ cx ∈ outer, ∀ h ∈ cx.handlers, G h) (hex : G exitB) : TS G s0 L X (fp3 fin outer no S) := by
  unfold fp3
  split
  · exact t.rConn (hno _ rfl)
  · split
    · next cx rest => exact TS.rFoldlConn fin .exc _ _ t (hout cx (List.mem_cons_self ..))
    · exact t.rConn hex

theorem fp_T (gc : TGc G s0.next L X) (t : TS G s0 L X S) (fin : Nat) : TS G s0 L X (finallyPropagation S fin) := by
  rw [finallyPropagation_eq]
  have hmem : ∀ cx ∈ S.excs.drop 1, cx ∈ X := fun cx hcx => by rw [← t.excs]; exact List.mem_of_mem_drop hcx
  have hno : ∀ o, (S.excs.drop 1).findSome? (fun c => c.fin) = some o → G o := by
    intro o ho
    obtain ⟨cx, hcx, hf⟩ := List.exists_of_findSome?_eq_some ho
    exact (gc.excs cx (hmem cx hcx)).1 o hf
  have a := fp1_T t fin _ hno gc.exit
  have b := fp2_T a fin (S.excs.drop 1) (fun cx hcx f hf => (gc.excs cx (hmem cx hcx)).1 f hf) gc.loops
  exact fp3_T b fin (S.excs.drop 1) _ hno (fun cx hcx h hh => (gc.excs cx (hmem cx hcx)).2 h hh) gc.exit

/-! ### try -/
theorem handlers_T (ihS : TPSN N) (ihL : TPLN N) (gc : TGc G s0.next L X) : ∀ (hs : List Stmt) (hbs : List Nat) (S : St) (after : Nat),
    sizeL hs ≤ N → TS G s0 L X S → G after → TS G s0 L X (procHandlers S hs hbs after) := by
  intro hs
  induction hs with
  | nil =>
    intro hbs S after _ t _
    rw [procHandlers_nil_l]; exact t
  | cons x hs ihh =>
    intro hbs S after hsz t ga
    rcases hbs with _ | ⟨hb, hbs⟩
    · rw [procHandlers_nil_r]; exact t
    have hszs : x.size ≤ N ∧ sizeL hs ≤ N := by simp only [sizeL] at hsz; omega
    rcases handler_cases x with ⟨s, e, b, rfl⟩ | hne
    · rw [procHandlers_handler]
      simp only
      have hb' : sizeL b ≤ N := by have := hszs.1; simp only [Stmt.size] at this; omega
      refine ihh hbs _ after hszs.2 ?_ ga
      refine TS.rEdgeUE ?_ ga
      refine TS.list ihL hb' gc ?_
      tsteps
    · rw [procHandlers_other _ _ _ _ _ _ hne]
      simp only
      refine ihh hbs _ after hszs.2 ?_ ga
      refine TS.rEdgeUE ?_ ga
      refine TS.stmt ihS hszs.1 gc ?_
      tsteps

theorem tryPre_T (gc : TGc G s0.next L X) (t : TS G s0 L X S) (hasFin hasElse : Bool) :
    TS G s0 L X (tryPre S hasFin hasElse).1 ∧ (hasFin = true → G (tryPre S hasFin hasElse).2.1) ∧
      (hasElse = true → G (tryPre S hasFin hasElse).2.2) := by
  have hle := t.le
  unfold tryPre
  cases hasFin <;> cases hasElse <;> simp only [Bool.false_eq_true, ↓reduceIte]
  all_goals
    refine ⟨by tsteps; tgoal, ?_, ?_⟩ <;> intro h <;>
      first | exact h.elim | (simp only [bump_next, edge_next]; exact gc.up _ (by omega))

theorem tryMid_T (ihS : TPSN N) (ihL : TPLN N) (body handlers : List Stmt) (hb : sizeL body ≤ N) (hh : sizeL handlers ≤ N)
    (gc : TGc G s0.next L X) {s3 : St} (t : TS G s0 L X s3) (tryB : Nat) (cfin : Option Nat) (hcf : ∀ f, cfin = some f → G f)
    (nat ah : Nat) (hnat : G nat) (hah : G ah) :
    TS G s0 L ({ fin := cfin, handlers := (List.range handlers.length).map (fun k => s3.next + k), processingFinally := false } :: X)
      (tryMid s3 tryB cfin X nat ah body handlers) := by
  unfold tryMid
  simp only
  have hle := t.le
  have hmem : ∀ h ∈ (List.range handlers.length).map (fun k => s3.next + k), G h := by
    intro h hh
    obtain ⟨k, hk, rfl⟩ := List.mem_map.mp hh
    exact gc.up _ (by omega)
  generalize (List.range handlers.length).map (fun k => s3.next + k) = hbs at hmem ⊢
  have gX : TGc G s0.next L ({ fin := cfin, handlers := hbs, processingFinally := false } :: X) := ⟨gc.up, gc.exit, gc.loops, by
    intro cx hcx
    rcases List.mem_cons.mp hcx with rfl | hcx
    · exact ⟨hcf, hmem⟩
    · exact gc.excs cx hcx⟩
  refine handlers_T ihS ihL gX handlers hbs _ ah hh ?_ hah
  refine TS.rFoldl _ _ _ _ ?_ hmem
  refine TS.rEdgeUE ?_ hnat
  refine TS.list ihL hb gX ?_
  apply TS.rSetCur
  refine TS.rSetExcs rfl (X' := X) ?_
  tsteps

theorem tryElse_T (ihL : TPLN N) (orelse : List Stmt) (ho : sizeL orelse ≤ N) (gc : TGc G s0.next L X) {s7 : St} (t : TS G s0 L X s7)
    (hasElse : Bool) (elseB ah : Nat) (hah : G ah) : TS G s0 L X (tryElse s7 hasElse elseB ah orelse) := by
  unfold tryElse
  cases hasElse
  · exact t
  · simp only [↓reduceIte]
    refine TS.rEdgeUE ?_ hah
    refine TS.list ihL ho gc ?_
    tsteps

theorem tryFin_T (ihL : TPLN N) (fin : List Stmt) (hf : sizeL fin ≤ N) {ctx : Exc} {X0 : List Exc}
    (gc : TGc G s0.next L (ctx :: X0)) {s8 : St} (t : TS G s0 L (ctx :: X0) s8) (hasFin : Bool) (finB exitBk : Nat) (hex : G exitBk) :
    TS G s0 L (ctx :: X0) (tryFin s8 hasFin finB exitBk ctx X0 fin) := by
  unfold tryFin
  cases hasFin
  · exact t
  · simp only [↓reduceIte]
    have gP : TGc G s0.next L ({ ctx with processingFinally := true } :: X0) := ⟨gc.up, gc.exit, gc.loops, by
      intro cx hcx
      rcases List.mem_cons.mp hcx with rfl | hcx
      · exact gc.excs ctx (List.mem_cons_self ..)
      · exact gc.excs cx (List.mem_cons_of_mem _ hcx)⟩
    refine fp_T gc ?_ finB
    refine TS.rEdgeUE ?_ hex
    refine TS.rSetExcs rfl (X' := { ctx with processingFinally := true } :: X0) ?_
    refine TS.list ihL hf gP ?_
    refine TS.rSetExcs rfl (X' := ctx :: X0) ?_
    tsteps

theorem try_T (ihS : TPSN N) (ihL : TPLN N) (body handlers orelse fin : List Stmt) (hb : sizeL body ≤ N) (hh : sizeL handlers ≤ N)
    (ho : sizeL orelse ≤ N) (hf : sizeL fin ≤ N) (gc : TGc G s0.next L X) (t : TS G s0 L X S) (s e : Nat) :
    TS G s0 L X (procTry S s e body handlers orelse fin) := by
  rw [procTry_eq']
  simp only
  rw [t.excs]
  generalize (!fin.isEmpty) = hasFin
  generalize (!orelse.isEmpty) = hasElse
  obtain ⟨t3, hF, hE⟩ := tryPre_T gc t hasFin hasElse
  generalize tryPre S hasFin hasElse = p at *
  obtain ⟨s3, finB, elseB⟩ := p
  simp only at *
  have hle := t.le
  have gex : G (S.next + 1) := gc.up _ (by omega)
  have hcf : ∀ f, (if hasFin = true then some finB else none) = some f → G f := by
    intro f hf
    cases hasFin
    · simp at hf
    · simp only [↓reduceIte, Option.some.injEq] at hf; subst hf; exact hF rfl
  have hah : G (if hasFin = true then finB else S.next + 1) := by
    cases hasFin
    · simp only [Bool.false_eq_true, ↓reduceIte]; exact gex
    · simp only [↓reduceIte]; exact hF rfl
  have hnat : G (if hasElse = true then elseB else if hasFin = true then finB else S.next + 1) := by
    cases hasElse
    · simp only [Bool.false_eq_true, ↓reduceIte]; exact hah
    · simp only [↓reduceIte]; exact hE rfl
  generalize (if hasFin = true then some finB else none) = cfin at *
  generalize (if hasElse = true then elseB else if hasFin = true then finB else S.next + 1) = nat at *
  generalize (if hasFin = true then finB else S.next + 1) = ah at *
  have t7 := tryMid_T ihS ihL body handlers hb hh gc t3 S.next cfin hcf nat ah hnat hah
  have hmem : ∀ h ∈ (List.range handlers.length).map (fun k => s3.next + k), G h := by
    intro h hh
    obtain ⟨k, hk, rfl⟩ := List.mem_map.mp hh
    exact gc.up _ (by have := t3.le; omega)
  have gX : TGc G s0.next L
      ({ fin := cfin, handlers := (List.range handlers.length).map (fun k => s3.next + k), processingFinally := false } :: X) :=
    ⟨gc.up, gc.exit, gc.loops, by
    intro cx hcx
    rcases List.mem_cons.mp hcx with rfl | hcx
    · exact ⟨hcf, hmem⟩
    · exact gc.excs cx hcx⟩
  have t8 := tryElse_T ihL orelse ho gX t7 hasElse elseB ah hah
  have t9 := tryFin_T ihL fin hf gX t8 hasFin finB (S.next + 1) gex
  exact TS.rSetExcs rfl t9.rSetCur

/-! ### the main induction -/
theorem TPLN_succ (ihS : TPSN N) (ihL : TPLN N) : TPLN (N + 1) := by
  intro ss hsz st G g
  rcases ss with _ | ⟨x, xs⟩
  · rw [procList_nil]; exact TS.refl' G st
  · have hszs : x.size ≤ N ∧ sizeL xs ≤ N := by simp only [sizeL] at hsz; omega
    rw [procList_cons]
    exact TS.list ihL hszs.2 g.toc (TS.stmt ihS hszs.1 g.toc (TS.refl' G st))

theorem TPSN_succ (ihS : TPSN N) (ihL : TPLN N) : TPSN (N + 1) := by
  intro x hsz st G g
  have gc := g.toc
  have t := TS.refl' G st
  cases x with
  | simple s e comp hasComp =>
    rw [procStmt_simple]
    cases hasComp
    · simp only [Bool.false_eq_true, ↓reduceIte]; exact t.rAdd
    · simp only [↓reduceIte]; exact (comp_T gc t s e comp).rAdd
  | ret s e comp hasComp => rw [procStmt_ret]; exact ret_T gc t s e comp hasComp
  | brk s e => rw [procStmt_brk]; exact brk_T gc t s e
  | cont s e => rw [procStmt_cont]; exact cont_T gc t s e
  | raise s e => rw [procStmt_raise]; exact raise_T gc t s e
  | ite s e a b =>
    rw [procStmt_ite]
    have : sizeL a ≤ N ∧ sizeL b ≤ N := by simp only [Stmt.size] at hsz; omega
    exact if_T ihL a b this.1 this.2 gc t s e
  | elifc s e a b =>
    rw [procStmt_elifc]
    have : sizeL a ≤ N ∧ sizeL b ≤ N := by simp only [Stmt.size] at hsz; omega
    exact if_T ihL a b this.1 this.2 gc t 0 0
  | elsec s e b =>
    rw [procStmt_elsec]
    have : sizeL b ≤ N := by simp only [Stmt.size] at hsz; omega
    exact ihL b this st G g
  | loop s e a b =>
    rw [procStmt_loop]
    have : sizeL a ≤ N ∧ sizeL b ≤ N := by simp only [Stmt.size] at hsz; omega
    exact loop_T ihL a b this.1 this.2 gc t s e
  | try_ s e a b c' d =>
    rw [procStmt_try]
    have : sizeL a ≤ N ∧ sizeL b ≤ N ∧ sizeL c' ≤ N ∧ sizeL d ≤ N := by simp only [Stmt.size] at hsz; omega
    exact try_T ihS ihL a b c' d this.1 this.2.1 this.2.2.1 this.2.2.2 gc t s e
  | handler s e b => rw [procStmt_handler]; exact t.rAdd
  | with_ s e b =>
    rw [procStmt_with]
    have : sizeL b ≤ N := by simp only [Stmt.size] at hsz; omega
    exact with_T ihL b this gc t s e
  | match_ s e b =>
    rw [procStmt_match]
    have : sizeL b ≤ N := by simp only [Stmt.size] at hsz; omega
    exact match_T ihS ihL b this gc t s e
  | case_ s e b => rw [procStmt_case]; exact t.rAdd
  | def_ s e b => rw [procStmt_def]; exact t.rAdd
  | class_ s e b =>
    rw [procStmt_class]
    have : sizeL b ≤ N := by simp only [Stmt.size] at hsz; omega
    exact class_T ihL b this gc t s e

end constructs

theorem target_all : ∀ N, TPSN N ∧ TPLN N := by
  intro N
  induction N with
  | zero =>
    constructor
    · intro x hsz; have := Stmt.size_pos x; omega
    · intro ss hsz st G g
      rcases ss with _ | ⟨x, xs⟩
      · rw [procList_nil]; exact TS.refl' G st
      · simp only [sizeL] at hsz; omega
  | succ N ih => exact ⟨TPSN_succ ih.1 ih.2, TPLN_succ ih.1 ih.2⟩

/-! ### the target frame theorems -/
theorem procList_target (ss : List Stmt) (st : St) (w : WF st) (G : Nat → Prop) (g : TG G st) : TI G st (procList st ss) :=
  ((target_all (sizeL ss)).2 ss (Nat.le_refl _) st G g).ti

theorem procStmt_target (x : Stmt) (st : St) (w : WF st) (G : Nat → Prop) (g : TG G st) : TI G st (procStmt st x) :=
  ((target_all x.size).1 x (Nat.le_refl _) st G g).ti

theorem procIfElif_target (thn orelse : List Stmt) (st : St) (s e fm : Nat) (w : WF st) (hfm : fm < st.next)
    (G : Nat → Prop) (g : TG G st) (gfm : G fm) : TI G st (procIfElif st s e thn orelse fm) :=
  (elif_T (target_all (sizeL thn + sizeL orelse)).2 g.toc _ thn orelse (Nat.le_refl _) (Nat.le_add_right _ _) (Nat.le_add_left _ _)
    st s e fm (TS.refl' G st) gfm).ti

theorem procIfElifTail_target (thn' orelse' : List Stmt) (st : St) (cond te merge s' e' : Nat) (w : WF st)
    (hc : cond < st.next) (ht : te < st.next) (hm : merge < st.next)
    (G : Nat → Prop) (g : TG G st) (gm : G merge) : TI G st (procIfElifTail st cond te merge s' e' thn' orelse') :=
  (elifTail_T (target_all (sizeL thn' + sizeL orelse')).2 thn' orelse' (Nat.le_add_right _ _) (Nat.le_add_left _ _) g.toc
    (TS.refl' G st) cond te merge s' e' gm).ti

theorem procCases_target (cs : List Stmt) (st : St) (mb merge : Nat) (w : WF st) (hmb : mb < st.next) (hm : merge < st.next)
    (G : Nat → Prop) (g : TG G st) (gm : G merge) : TI G st (procCases st cs mb merge) :=
  (cases_T (target_all (sizeL cs)).1 (target_all (sizeL cs)).2 g.toc cs st mb merge (Nat.le_refl _) (TS.refl' G st) gm).ti

theorem procHandlers_target (hs : List Stmt) (hbs : List Nat) (st : St) (after : Nat) (w : WF st)
    (hhb : ∀ hb ∈ hbs, hb < st.next) (ha : after < st.next)
    (G : Nat → Prop) (g : TG G st) (ga : G after) : TI G st (procHandlers st hs hbs after) :=
  (handlers_T (target_all (sizeL hs)).1 (target_all (sizeL hs)).2 g.toc hs hbs st after (Nat.le_refl _) (TS.refl' G st) ga).ti

theorem finallyPropagation_target (st : St) (fin : Nat) (G : Nat → Prop) (g : TG G st) : TI G st (finallyPropagation st fin) :=
  (fp_T g.toc (TS.refl' G st) fin).ti

end PV.CFGSound

#print axioms PV.CFGSound.procList_target
#print axioms PV.CFGSound.procStmt_target
#print axioms PV.CFGSound.procIfElif_target
#print axioms PV.CFGSound.procIfElifTail_target
#print axioms PV.CFGSound.procCases_target
#print axioms PV.CFGSound.procHandlers_target
#print axioms PV.CFGSound.finallyPropagation_target
