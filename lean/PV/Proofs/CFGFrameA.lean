import PV.Proofs.CFGEqns
/-!
Part A of the mirror's soundness proof: for EVERY statement (no shape hypothesis) every builder function
preserves well-formedness, only touches owned blocks (`Inv`) and restores the context stacks (`Same`).
-/
namespace PV.CFGSound
open PV.CFG

def PS (x : Stmt) : Prop :=
  ∀ st, WF st → ∀ c n, Own c n st.cur → n ≤ st.next → Inv c n st (procStmt st x) ∧ Same st (procStmt st x)
def PL (ss : List Stmt) : Prop :=
  ∀ st, WF st → ∀ c n, Own c n st.cur → n ≤ st.next → Inv c n st (procList st ss) ∧ Same st (procList st ss)
def PLN (N : Nat) : Prop := ∀ ss, sizeL ss ≤ N → PL ss
def PSN (N : Nat) : Prop := ∀ x : Stmt, x.size ≤ N → PS x

theorem orelse_cases (l : List Stmt) :
    l = [] ∨ (∃ s e a b, l = [.elifc s e a b]) ∨ (∃ s e a b, l = [.ite s e a b]) ∨
      (∃ o os, l = o :: os ∧ (∀ s e a b, o :: os ≠ [.elifc s e a b]) ∧ (∀ s e a b, o :: os ≠ [.ite s e a b])) := by
  rcases l with _ | ⟨o, os⟩
  · exact .inl rfl
  · rcases os with _ | ⟨o2, os2⟩
    · cases o
      case elifc s e a b => exact .inr (.inl ⟨s, e, a, b, rfl⟩)
      case ite s e a b => exact .inr (.inr (.inl ⟨s, e, a, b, rfl⟩))
      all_goals (refine .inr (.inr (.inr ⟨_, _, rfl, ?_, ?_⟩)) <;> (intro _ _ _ _ h; cases h))
    · refine .inr (.inr (.inr ⟨_, _, rfl, ?_, ?_⟩)) <;> (intro _ _ _ _ h; cases h)

/-! ### targets taken from the context stacks are in range -/
theorem tfRet_mem {st : St} {f : Nat} (h : targetFinallyRet st = some f) : ∃ c ∈ st.excs, c.fin = some f := by
  unfold targetFinallyRet at h
  obtain ⟨c, hc, hf⟩ := List.exists_of_findSome?_eq_some h
  refine ⟨c, hc, ?_⟩
  cases hcf : c.fin with
  | none => simp [hcf] at hf
  | some g => simp only [hcf] at hf; split at hf <;> simp_all
theorem tf_mem {st : St} {f : Nat} (h : targetFinally st = some f) : ∃ c ∈ st.excs, c.fin = some f := by
  unfold targetFinally at h
  obtain ⟨c, hc, hf⟩ := List.exists_of_findSome?_eq_some h
  refine ⟨c, hc, ?_⟩
  split at hf <;> simp_all
theorem tfLoop_mem {st : St} {d f : Nat} (h : targetFinallyLoop st d = some f) : ∃ c ∈ st.excs, c.fin = some f := by
  unfold targetFinallyLoop at h
  obtain ⟨c, hc, hf⟩ := List.exists_of_findSome?_eq_some h
  refine ⟨c, List.mem_of_mem_take hc, ?_⟩
  split at hf <;> simp_all
theorem fallback_mem {st : St} {c : Exc} (h : fallbackExc st = some c) : c ∈ st.excs := by
  unfold fallbackExc at h
  exact List.mem_of_find?_eq_some h

variable {c n : Nat}

/-- a run of edges from one source to a list of targets -/
theorem foldl_edges_frame {s0 : St} (src : Nat) (t : ETy) : ∀ (hs : List Nat) (s : St), Inv c n s0 s → Own c n src → src < s.next →
    (∀ h ∈ hs, h < s.next) →
    Inv c n s0 (hs.foldl (fun st h => st.edge src h t) s) ∧ Same s (hs.foldl (fun st h => st.edge src h t) s) ∧
      (hs.foldl (fun st h => st.edge src h t) s).next = s.next ∧ (hs.foldl (fun st h => st.edge src h t) s).cur = s.cur
  | [], s, i, _, _, _ => ⟨i, Same.refl _, rfl, rfl⟩
  | h :: hs, s, i, ho, hlt, hb => by
    simp only [List.foldl_cons]
    obtain ⟨j, sm, hn, hc⟩ := foldl_edges_frame src t hs (s.edge src h t) (i.edge ho hlt (hb h (List.mem_cons_self ..))) ho hlt
      (fun x hx => hb x (List.mem_cons_of_mem _ hx))
    exact ⟨j, ⟨sm.loops, sm.excs⟩, hn, hc⟩

/-- same with the source read from the (unchanging) current block, as in `procRaise` -/
theorem foldl_cur_edges_eq (t : ETy) : ∀ (hs : List Nat) (s : St),
    hs.foldl (fun st h => st.edge st.cur h t) s = hs.foldl (fun st h => st.edge s.cur h t) s
  | [], _ => rfl
  | h :: hs, s => by
    simp only [List.foldl_cons]
    rw [foldl_cur_edges_eq t hs (s.edge s.cur h t)]
    rfl

/-! ### comprehension -/
theorem go_frame (s e : Nat) : ∀ (cs : List Bool) (st : St) (cp : Nat), WF st → Own c n st.cur → n ≤ st.next → Own c n cp → cp < st.next →
    Inv c n st (procComp.go s e cs st cp).1 ∧ Same st (procComp.go s e cs st cp).1 ∧
      Own c n (procComp.go s e cs st cp).2 ∧ (procComp.go s e cs st cp).2 < (procComp.go s e cs st cp).1.next
  | [], st, cp, w, hc, _, hcp, hlt => by
    rw [go_nil]; exact ⟨Inv.refl w hc, Same.refl _, hcp, hlt⟩
  | hasTest :: rest, st, cp, w, hc, hn, hcp, hlt => by
    rw [go_cons]
    have hcur := w.cur
    have i0 : Inv c n st st := Inv.refl w hc
    have i1 := ((i0.bump.edge (a := cp) (b := st.next) (t := .normal) hcp (by ob) (by ob)).add (b := st.next) (p := s) (q := e)
      (ty := .other) (by ob) (by ob))
    have i2 := i1.bump.edge (a := st.next) (b := st.next + 1) (t := .condT) (by ob) (by ob) (by ob)
    cases hasTest
    · -- no filter
      have i3 := ((i2.add (b := st.next + 1) (p := s) (q := e) (ty := .other) (by ob) (by ob)).bump.edge
        (a := st.next + 1) (b := st.next + 2) (t := .normal) (by ob) (by ob) (by ob)).edge
        (a := st.next + 2) (b := st.next) (t := .loop) (by ob) (by ob) (by ob)
      obtain ⟨j, sm, ho, hl⟩ := go_frame s e rest _ st.next i3.wf i3.own (by ob) (by ob) (by ob)
      exact ⟨i3.trans j, ⟨sm.loops, sm.excs⟩, ho, hl⟩
    · have i3 := ((((i2.bump.edge (a := st.next + 1) (b := st.next + 2) (t := .normal) (by ob) (by ob) (by ob)).add
        (b := st.next + 2) (p := s) (q := e) (ty := .other) (by ob) (by ob)).bump.edge
        (a := st.next + 2) (b := st.next + 3) (t := .condT) (by ob) (by ob) (by ob)).edge
        (a := st.next + 2) (b := st.next) (t := .condF) (by ob) (by ob) (by ob)).add
        (b := st.next + 3) (p := s) (q := e) (ty := .other) (by ob) (by ob)
      have i4 := i3.edge (a := st.next + 3) (b := st.next) (t := .loop) (by ob) (by ob) (by ob)
      obtain ⟨j, sm, ho, hl⟩ := go_frame s e rest _ st.next i4.wf i4.own (by ob) (by ob) (by ob)
      exact ⟨i4.trans j, ⟨sm.loops, sm.excs⟩, ho, hl⟩

theorem comp_frame (st : St) (s e : Nat) (comp : List Bool) (w : WF st) (hc : Own c n st.cur) (hn : n ≤ st.next) :
    Inv c n st (procComp st s e comp) ∧ Same st (procComp st s e comp) := by
  rw [procComp_eq]
  have hcur := w.cur
  have i0 : Inv c n st st := Inv.refl w hc
  have i1 := ((i0.bump.edge (a := st.cur) (b := st.next) (t := .normal) hc (by ob) (by ob)).add (b := st.next) (p := s) (q := e)
    (ty := .other) (by ob) (by ob)).bump
  obtain ⟨j, sm, ho, hl⟩ := go_frame (c := c) (n := n) s e comp _ st.next i1.wf i1.own (by ob) (by ob) (by ob)
  have k := i1.trans j
  have hnl := j.next_le
  simp only
  split
  · exact ⟨(k.edge (t := .condF) ho hl (by ob)).setCur (by ob) (by ob), ⟨sm.loops, sm.excs⟩⟩
  · exact ⟨(k.edge (t := .normal) (by ob) (by ob) (by ob)).setCur (by ob) (by ob), ⟨sm.loops, sm.excs⟩⟩

/-! ### terminators -/
theorem ret_frame (st : St) (s e : Nat) (comp : List Bool) (hasComp : Bool) (w : WF st) (hc : Own c n st.cur) (hn : n ≤ st.next) :
    Inv c n st (procRet st s e comp hasComp) ∧ Same st (procRet st s e comp hasComp) := by
  rw [procRet_eq]
  have hst0 : Inv c n st (if hasComp then procComp st s e comp else st) ∧ Same st (if hasComp then procComp st s e comp else st) := by
    cases hasComp
    · exact ⟨Inv.refl w hc, ⟨rfl, rfl⟩⟩
    · exact comp_frame st s e comp w hc hn
  generalize (if hasComp then procComp st s e comp else st) = st0 at hst0
  obtain ⟨i0, sm⟩ := hst0
  have i1 := i0.add (b := st0.cur) (p := s) (q := e) (ty := .ret) i0.own i0.wf.cur
  have h2 := i0.wf.two
  have hcur := i0.wf.cur
  simp only
  split
  · next f hf =>
    obtain ⟨cx, hcx, hfin⟩ := tfRet_mem hf
    have := (i1.wf.excs cx hcx).1 f hfin
    exact ⟨((i1.edge (t := .ret) i0.own (by ob) (by ob)).bumpU).setCur (by have := i0.next_le; ob) (by ob), ⟨sm.loops, sm.excs⟩⟩
  · exact ⟨((i1.edge (b := exitB) (t := .ret) i0.own (by ob) (by unfold exitB; ob)).bumpU).setCur (by have := i0.next_le; ob) (by ob),
      ⟨sm.loops, sm.excs⟩⟩

theorem brk_frame (st : St) (s e : Nat) (w : WF st) (hc : Own c n st.cur) (hn : n ≤ st.next) :
    Inv c n st (procBrk st s e) ∧ Same st (procBrk st s e) := by
  rw [procBrk_eq]
  have i0 : Inv c n st st := Inv.refl w hc
  have i1 := i0.add (b := st.cur) (p := s) (q := e) (ty := .brk) hc w.cur
  have hcur := w.cur
  simp only
  split
  · exact ⟨i1, ⟨rfl, rfl⟩⟩
  · next h x d rest hl =>
    have hx := i1.wf.loops (h, x, d) (by rw [hl]; exact List.mem_cons_self ..)
    split
    · next f hf =>
      obtain ⟨cx, hcx, hfin⟩ := tfLoop_mem hf
      have := (i1.wf.excs cx hcx).1 f hfin
      exact ⟨((i1.edge (t := .brk) hc (by ob) (by ob)).bumpU).setCur (by ob) (by ob), ⟨rfl, rfl⟩⟩
    · exact ⟨((i1.edge (t := .brk) hc (by ob) (by ob)).bumpU).setCur (by ob) (by ob), ⟨rfl, rfl⟩⟩

theorem cont_frame (st : St) (s e : Nat) (w : WF st) (hc : Own c n st.cur) (hn : n ≤ st.next) :
    Inv c n st (procCont st s e) ∧ Same st (procCont st s e) := by
  rw [procCont_eq]
  have i0 : Inv c n st st := Inv.refl w hc
  have i1 := i0.add (b := st.cur) (p := s) (q := e) (ty := .cont) hc w.cur
  have hcur := w.cur
  simp only
  split
  · exact ⟨i1, ⟨rfl, rfl⟩⟩
  · next h x d rest hl =>
    have hx := i1.wf.loops (h, x, d) (by rw [hl]; exact List.mem_cons_self ..)
    split
    · next f hf =>
      obtain ⟨cx, hcx, hfin⟩ := tfLoop_mem hf
      have := (i1.wf.excs cx hcx).1 f hfin
      exact ⟨((i1.edge (t := .cont) hc (by ob) (by ob)).bumpU).setCur (by ob) (by ob), ⟨rfl, rfl⟩⟩
    · exact ⟨((i1.edge (t := .cont) hc (by ob) (by ob)).bumpU).setCur (by ob) (by ob), ⟨rfl, rfl⟩⟩

theorem raise_frame (st : St) (s e : Nat) (w : WF st) (hc : Own c n st.cur) (hn : n ≤ st.next) :
    Inv c n st (procRaise st s e) ∧ Same st (procRaise st s e) := by
  rw [procRaise_eq]
  have i0 : Inv c n st st := Inv.refl w hc
  have i1 := i0.add (b := st.cur) (p := s) (q := e) (ty := .raise) hc w.cur
  have hcur := w.cur
  have h2 := w.two
  simp only
  split
  · next f hf =>
    obtain ⟨cx, hcx, hfin⟩ := tf_mem hf
    have := (i1.wf.excs cx hcx).1 f hfin
    exact ⟨((i1.edge (t := .exc) hc (by ob) (by ob)).bumpU).setCur (by ob) (by ob), ⟨rfl, rfl⟩⟩
  · split
    · next cx hcx =>
      have hmem := fallback_mem hcx
      split
      · rw [foldl_cur_edges_eq]
        obtain ⟨j, sm, hnx, hcu⟩ := foldl_edges_frame (c := c) (n := n) (st.add st.cur s e .raise).cur .exc cx.handlers _ i1 hc (by ob)
          (fun h hh => (i1.wf.excs cx hmem).2 h hh)
        refine ⟨(j.bumpU).setCur (by rw [hnx]; ob) (by rw [bumpU_next]; omega), ⟨?_, ?_⟩⟩
        · exact sm.loops
        · exact sm.excs
      · exact ⟨((i1.edge (b := exitB) (t := .exc) hc (by ob) (by unfold exitB; ob)).bumpU).setCur (by ob) (by ob), ⟨rfl, rfl⟩⟩
    · exact ⟨((i1.edge (b := exitB) (t := .exc) hc (by ob) (by unfold exitB; ob)).bumpU).setCur (by ob) (by ob), ⟨rfl, rfl⟩⟩


/-! ### compound statements (given the induction hypotheses for smaller lists / statements) -/
section compound
variable {N : Nat}

theorem class_frame (ih : PLN N) (body : List Stmt) (hsz : sizeL body ≤ N) (st : St) (s e : Nat)
    (w : WF st) (hc : Own c n st.cur) (hn : n ≤ st.next) :
    Inv c n st (procClass st s e body) ∧ Same st (procClass st s e body) := by
  rw [procClass_eq]
  have hcur := w.cur
  have i0 : Inv c n st st := Inv.refl w hc
  have i1 := ((i0.bump.edge (a := st.cur) (b := st.next) (t := .normal) hc (by ob) (by ob)).setCur (x := st.next) (by ob) (by ob)).add
    (b := st.next) (p := s) (q := e) (ty := .other) (by ob) (by ob)
  obtain ⟨j, sm⟩ := ih body hsz _ i1.wf c n i1.own (by ob)
  exact ⟨i1.trans j, ⟨sm.loops, sm.excs⟩⟩

theorem ifHead_frame (ih : PLN N) (thn : List Stmt) (hsz : sizeL thn ≤ N) (st : St) (s e : Nat)
    (w : WF st) (hc : Own c n st.cur) (hn : n ≤ st.next) :
    Inv c n st (ifHead st s e thn) ∧ Same st (ifHead st s e thn) ∧ st.next + 2 ≤ (ifHead st s e thn).next := by
  unfold ifHead
  have hcur := w.cur
  have i0 : Inv c n st st := Inv.refl w hc
  have i1 := (((i0.add (b := st.cur) (p := s) (q := e) (ty := .other) hc w.cur).bump.bump).edge (a := st.cur) (b := st.next)
    (t := .condT) hc (by ob) (by ob)).setCur (x := st.next) (by ob) (by ob)
  obtain ⟨j, sm⟩ := ih thn hsz _ i1.wf c n i1.own (by ob)
  exact ⟨i1.trans j, ⟨sm.loops, sm.excs⟩, by have := j.next_le; ob⟩

theorem elifHead_frame (ih : PLN N) (thn : List Stmt) (hsz : sizeL thn ≤ N) (st : St) (s e : Nat)
    (w : WF st) (hc : Own c n st.cur) (hn : n ≤ st.next) :
    Inv c n st (elifHead st s e thn) ∧ Same st (elifHead st s e thn) ∧ st.next + 1 ≤ (elifHead st s e thn).next := by
  unfold elifHead
  have hcur := w.cur
  have i0 : Inv c n st st := Inv.refl w hc
  have i1 := (((i0.add (b := st.cur) (p := s) (q := e) (ty := .other) hc w.cur).bump).edge (a := st.cur) (b := st.next)
    (t := .condT) hc (by ob) (by ob)).setCur (x := st.next) (by ob) (by ob)
  obtain ⟨j, sm⟩ := ih thn hsz _ i1.wf c n i1.own (by ob)
  exact ⟨i1.trans j, ⟨sm.loops, sm.excs⟩, by have := j.next_le; ob⟩

theorem elseTail_frame (ih : PLN N) (orelse : List Stmt) (hsz : sizeL orelse ≤ N) {st s3 : St} (k : Inv c n st s3) (hn : n ≤ st.next)
    (cond te : Nat) (hco : Own c n cond) (hcl : cond < s3.next) :
    Inv c n st (elseTail s3 cond te orelse) ∧ Same s3 (elseTail s3 cond te orelse) ∧ s3.next + 1 ≤ (elseTail s3 cond te orelse).next := by
  unfold elseTail
  have hnl := k.next_le
  have i1 := (k.bump.edge (a := cond) (b := s3.next) (t := .condF) hco (by ob) (by ob)).setCur (x := s3.next) (by ob) (by ob)
  obtain ⟨j, sm⟩ := ih orelse hsz _ i1.wf c n i1.own (by ob)
  exact ⟨i1.trans j, ⟨sm.loops, sm.excs⟩, by have := j.next_le; ob⟩

theorem finishElif_frame {st s : St} (k : Inv c n st s) (te fm : Nat) (hte : Own c n te) (htl : te < s.next)
    (hfo : Own c n fm) (hfl : fm < s.next) : Inv c n st (finishElif s te fm) ∧ Same s (finishElif s te fm) := by
  unfold finishElif
  exact ⟨(k.edgeUnlessExit (t := .normal) hte htl hfl).setCur hfo (by ob), ⟨by simp, by simp⟩⟩

theorem elif_frame (ih : PLN N) : ∀ (M : Nat) (thn orelse : List Stmt), sizeL thn + sizeL orelse ≤ M → sizeL thn ≤ N → sizeL orelse ≤ N →
    ∀ (st : St) (s e fm : Nat), WF st → Own c n st.cur → n ≤ st.next → Own c n fm → fm < st.next →
      Inv c n st (procIfElif st s e thn orelse fm) ∧ Same st (procIfElif st s e thn orelse fm) := by
  intro M
  induction M with
  | zero =>
    intro thn orelse hM h1 h2 st s e fm w hc hn hfo hfl
    have : orelse = [] := by
      rcases orelse with _ | ⟨o, os⟩
      · rfl
      · simp only [sizeL] at hM; omega
    subst this
    rw [procIfElif_nil]
    obtain ⟨k, sm, hnx⟩ := elifHead_frame ih thn h1 st s e w hc hn
    have hcur := w.cur
    have hk := k.wf.cur
    simp only
    obtain ⟨j, sm2⟩ := finishElif_frame (k.edge (a := st.cur) (b := fm) (t := .condF) hc (by ob) (by ob)) (elifHead st s e thn).cur fm
      k.own (by ob) hfo (by ob)
    exact ⟨j, ⟨sm2.loops.trans sm.loops, sm2.excs.trans sm.excs⟩⟩
  | succ M ihM =>
    intro thn orelse hM h1 h2 st s e fm w hc hn hfo hfl
    obtain ⟨k, sm, hnx⟩ := elifHead_frame ih thn h1 st s e w hc hn
    have hcur := w.cur
    have hk := k.wf.cur
    rcases orelse_cases orelse with rfl | ⟨s', e', a, b, rfl⟩ | ⟨s', e', a, b, rfl⟩ | ⟨o, os, rfl, hne1, hne2⟩
    · rw [procIfElif_nil]
      simp only
      obtain ⟨j, sm2⟩ := finishElif_frame (k.edge (a := st.cur) (b := fm) (t := .condF) hc (by ob) (by ob)) (elifHead st s e thn).cur fm
        k.own (by ob) hfo (by ob)
      exact ⟨j, ⟨sm2.loops.trans sm.loops, sm2.excs.trans sm.excs⟩⟩
    · rw [procIfElif_elif]
      simp only
      have hsz : sizeL a + sizeL b ≤ M ∧ sizeL a ≤ N ∧ sizeL b ≤ N := by
        simp only [sizeL, Stmt.size] at hM h2; omega
      have i1 := (k.bump.edge (a := st.cur) (b := (elifHead st s e thn).next) (t := .condF) hc (by ob) (by ob)).setCur
        (x := (elifHead st s e thn).next) (by ob) (by ob)
      obtain ⟨j, smj⟩ := ihM a b hsz.1 hsz.2.1 hsz.2.2 _ 0 0 fm i1.wf i1.own (by ob) hfo (by ob)
      have kj := i1.trans j
      have hjn := j.next_le
      obtain ⟨j2, sm2⟩ := finishElif_frame kj (elifHead st s e thn).cur fm k.own (by ob) hfo (by ob)
      exact ⟨j2, ⟨sm2.loops.trans (smj.loops.trans sm.loops), sm2.excs.trans (smj.excs.trans sm.excs)⟩⟩
    · rw [procIfElif_ite]
      simp only
      have hsz : sizeL a + sizeL b ≤ M ∧ sizeL a ≤ N ∧ sizeL b ≤ N := by
        simp only [sizeL, Stmt.size] at hM h2; omega
      have i1 := (k.bump.edge (a := st.cur) (b := (elifHead st s e thn).next) (t := .condF) hc (by ob) (by ob)).setCur
        (x := (elifHead st s e thn).next) (by ob) (by ob)
      obtain ⟨j, smj⟩ := ihM a b hsz.1 hsz.2.1 hsz.2.2 _ s' e' fm i1.wf i1.own (by ob) hfo (by ob)
      have kj := i1.trans j
      have hjn := j.next_le
      obtain ⟨j2, sm2⟩ := finishElif_frame kj (elifHead st s e thn).cur fm k.own (by ob) hfo (by ob)
      exact ⟨j2, ⟨sm2.loops.trans (smj.loops.trans sm.loops), sm2.excs.trans (smj.excs.trans sm.excs)⟩⟩
    · rw [procIfElif_else _ _ _ _ _ _ _ hne1 hne2]
      simp only
      obtain ⟨k5, sm5, hn5⟩ := elseTail_frame ih (o :: os) h2 k hn st.cur (elifHead st s e thn).cur hc (by ob)
      have hk5 := k5.wf.cur
      split
      · exact ⟨k5.bumpU.setCur (by have := k5.next_le; ob) (by ob), ⟨sm5.loops.trans sm.loops, sm5.excs.trans sm.excs⟩⟩
      · obtain ⟨j2, sm2⟩ := finishElif_frame (k5.edgeUnlessExit (a := (elseTail (elifHead st s e thn) st.cur (elifHead st s e thn).cur (o :: os)).cur)
          (b := fm) (t := .normal) k5.own (by ob) (by ob)) (elifHead st s e thn).cur fm k.own (by ob) hfo (by ob)
        refine ⟨j2, ⟨?_, ?_⟩⟩
        · rw [sm2.loops, edgeUnlessExit_loops, sm5.loops, sm.loops]
        · rw [sm2.excs, edgeUnlessExit_excs, sm5.excs, sm.excs]

theorem elifTail_frame (ih : PLN N) (thn' orelse' : List Stmt) (h1 : sizeL thn' ≤ N) (h2 : sizeL orelse' ≤ N)
    {st0 st : St} (k : Inv c n st0 st) (hn : n ≤ st0.next) (cond te merge s' e' : Nat)
    (hco : Own c n cond) (hcl : cond < st.next) (hto : Own c n te) (htl : te < st.next) (hmo : Own c n merge) (hml : merge < st.next) :
    Inv c n st0 (procIfElifTail st cond te merge s' e' thn' orelse') ∧ Same st (procIfElifTail st cond te merge s' e' thn' orelse') := by
  rw [procIfElifTail_eq]
  have hnl := k.next_le
  have i1 := (k.bump.edge (a := cond) (b := st.next) (t := .condF) hco (by ob) (by ob)).setCur (x := st.next) (by ob) (by ob)
  obtain ⟨j, smj⟩ := elif_frame ih _ thn' orelse' (Nat.le_refl _) h1 h2 _ s' e' merge i1.wf i1.own (by ob) hmo (by ob)
  have kj := i1.trans j
  have hjn := j.next_le
  have hsm : Same st (procIfElif (setCur ((bump st).edge cond st.next .condF) st.next) s' e' thn' orelse' merge) := ⟨smj.loops, smj.excs⟩
  simp only
  split
  · split
    · exact ⟨kj, hsm⟩
    · refine ⟨((kj.setCur hmo (by ob)).edgeUnlessExit (t := .normal) hto (by ob) (by ob)).setCur hmo (by ob), ⟨?_, ?_⟩⟩
      · simp [hsm.loops]
      · simp [hsm.excs]
  · refine ⟨(kj.edgeUnlessExit (t := .normal) hto (by ob) (by ob)).setCur hmo (by ob), ⟨?_, ?_⟩⟩
    · simp [hsm.loops]
    · simp [hsm.excs]

theorem if_frame (ih : PLN N) (thn orelse : List Stmt) (h1 : sizeL thn ≤ N) (h2 : sizeL orelse ≤ N) (st : St) (s e : Nat)
    (w : WF st) (hc : Own c n st.cur) (hn : n ≤ st.next) :
    Inv c n st (procIf st s e thn orelse) ∧ Same st (procIf st s e thn orelse) := by
  obtain ⟨k, sm, hnx⟩ := ifHead_frame ih thn h1 st s e w hc hn
  have hcur := w.cur
  have hk := k.wf.cur
  rcases orelse_cases orelse with rfl | ⟨s', e', a, b, rfl⟩ | ⟨s', e', a, b, rfl⟩ | ⟨o, os, rfl, hne1, hne2⟩
  · rw [procIf_nil]
    simp only
    refine ⟨((k.edge (a := st.cur) (b := st.next + 1) (t := .condF) hc (by ob) (by ob)).edgeUnlessExit (t := .normal) k.own (by ob) (by ob)).setCur
      (by ob) (by ob), ⟨?_, ?_⟩⟩
    · simp [sm.loops]
    · simp [sm.excs]
  · rw [procIf_elif]
    have hsz : sizeL a ≤ N ∧ sizeL b ≤ N := by simp only [sizeL, Stmt.size] at h2; omega
    obtain ⟨j, smj⟩ := elifTail_frame ih a b hsz.1 hsz.2 k hn st.cur (ifHead st s e thn).cur (st.next + 1) 0 0 hc (by ob) k.own (by ob) (by ob) (by ob)
    exact ⟨j, ⟨smj.loops.trans sm.loops, smj.excs.trans sm.excs⟩⟩
  · rw [procIf_ite]
    have hsz : sizeL a ≤ N ∧ sizeL b ≤ N := by simp only [sizeL, Stmt.size] at h2; omega
    obtain ⟨j, smj⟩ := elifTail_frame ih a b hsz.1 hsz.2 k hn st.cur (ifHead st s e thn).cur (st.next + 1) s' e' hc (by ob) k.own (by ob) (by ob) (by ob)
    exact ⟨j, ⟨smj.loops.trans sm.loops, smj.excs.trans sm.excs⟩⟩
  · rw [procIf_else _ _ _ _ _ _ hne1 hne2]
    simp only
    obtain ⟨k5, sm5, hn5⟩ := elseTail_frame ih (o :: os) h2 k hn st.cur (ifHead st s e thn).cur hc (by ob)
    have hk5 := k5.wf.cur
    split
    · exact ⟨k5.bumpU.setCur (by have := k5.next_le; ob) (by ob), ⟨sm5.loops.trans sm.loops, sm5.excs.trans sm.excs⟩⟩
    · refine ⟨((k5.edgeUnlessExit (a := (ifHead st s e thn).cur) (b := st.next + 1) (t := .normal) k.own (by ob) (by ob)).edgeUnlessExit
        (a := ((elseTail (ifHead st s e thn) st.cur (ifHead st s e thn).cur (o :: os)).edgeUnlessExit (ifHead st s e thn).cur (st.next + 1) .normal).cur)
        (b := st.next + 1) (t := .normal) (by rw [edgeUnlessExit_cur]; exact k5.own) (by ob) (by ob)).setCur (by ob) (by ob), ⟨?_, ?_⟩⟩
      · simp [sm5.loops, sm.loops]
      · simp [sm5.excs, sm.excs]

end compound
end PV.CFGSound

namespace PV.CFGSound
open PV.CFG
section compound2
variable {c n N : Nat}

/-! ### loops -/
theorem loop_frame (ih : PLN N) (body orelse : List Stmt) (h1 : sizeL body ≤ N) (h2 : sizeL orelse ≤ N) (st : St) (s e : Nat)
    (w : WF st) (hc : Own c n st.cur) (hn : n ≤ st.next) :
    Inv c n st (procLoop st s e body orelse) ∧ Same st (procLoop st s e body orelse) := by
  rw [procLoop_eq]
  have hcur := w.cur
  have i0 : Inv c n st st := Inv.refl w hc
  have i1 := (((i0.bump.edge (a := st.cur) (b := st.next) (t := .normal) hc (by ob) (by ob)).add (b := st.next) (p := s) (q := e)
    (ty := .other) (by ob) (by ob)).bump).bump
  rcases orelse with _ | ⟨o, os⟩
  · simp only [List.isEmpty_nil, Bool.not_true, Bool.false_eq_true, ↓reduceIte]
    have i2 := (((i1.setLoops (l := (st.next, st.next + 2, st.excs.length) :: st.loops) (by
        intro x hx
        rcases List.mem_cons.mp hx with rfl | hx
        · constructor <;> ob
        · exact w.loops_le (by ob) x hx)).edge (a := st.next) (b := st.next + 1) (t := .condT) (by ob) (by ob) (by ob)).edge
        (a := st.next) (b := st.next + 2) (t := .condF) (by ob) (by ob) (by ob)).setCur (x := st.next + 1) (by ob) (by ob)
    obtain ⟨j, sm⟩ := ih body h1 _ i2.wf c n i2.own (by ob)
    have k := i2.trans j
    have hjn := j.next_le
    have hk := k.wf.cur
    refine ⟨(((k.edgeUnlessExit (b := st.next) (t := .loop) k.own hk (by ob)).setLoops (l := st.loops) (w.loops_le (by ob))).setCur
      (x := st.next + 2) (by ob) (by ob)).setLoops (l := st.loops) (w.loops_le (by ob)), ⟨?_, ?_⟩⟩
    · simp
    · simp [sm.excs]
  · simp only [List.isEmpty_cons, Bool.not_false, ↓reduceIte]
    have i2 := (((i1.bump.setLoops (l := (st.next, st.next + 2, st.excs.length) :: st.loops) (by
        intro x hx
        rcases List.mem_cons.mp hx with rfl | hx
        · constructor <;> ob
        · exact w.loops_le (by ob) x hx)).edge (a := st.next) (b := st.next + 1) (t := .condT) (by ob) (by ob) (by ob)).edge
        (a := st.next) (b := st.next + 3) (t := .condF) (by ob) (by ob) (by ob)).setCur (x := st.next + 1) (by ob) (by ob)
    obtain ⟨j, sm⟩ := ih body h1 _ i2.wf c n i2.own (by ob)
    have k := i2.trans j
    have hjn := j.next_le
    have hk := k.wf.cur
    have k2 := ((k.edgeUnlessExit (b := st.next) (t := .loop) k.own hk (by ob)).setLoops (l := st.loops) (w.loops_le (by ob))).setCur
      (x := st.next + 3) (by ob) (by ob)
    obtain ⟨j2, sm2⟩ := ih (o :: os) h2 _ k2.wf c n k2.own (by ob)
    have k3 := k2.trans j2
    have hjn2 := j2.next_le
    have hk3 := k3.wf.cur
    refine ⟨((k3.edgeUnlessExit (b := st.next + 2) (t := .normal) k3.own hk3 (by ob)).setCur
      (x := st.next + 2) (by ob) (by ob)).setLoops (l := st.loops) (w.loops_le (by ob)), ⟨?_, ?_⟩⟩
    · simp
    · simp [sm2.excs, sm.excs]

/-! ### with -/
theorem with_frame (ih : PLN N) (body : List Stmt) (h1 : sizeL body ≤ N) (st : St) (s e : Nat)
    (w : WF st) (hc : Own c n st.cur) (hn : n ≤ st.next) :
    Inv c n st (procWith st s e body) ∧ Same st (procWith st s e body) := by
  rw [procWith_eq]
  have hcur := w.cur
  have i0 : Inv c n st st := Inv.refl w hc
  have i1 := ((((((i0.bump.edge (a := st.cur) (b := st.next) (t := .normal) hc (by ob) (by ob)).add (b := st.next) (p := s) (q := e)
    (ty := .other) (by ob) (by ob)).bump).bump).bump).edge (a := st.next) (b := st.next + 1) (t := .normal) (by ob) (by ob) (by ob)).setCur
    (x := st.next + 1) (by ob) (by ob)
  obtain ⟨j, sm⟩ := ih body h1 _ i1.wf c n i1.own (by ob)
  have k := i1.trans j
  have hjn := j.next_le
  have hk := k.wf.cur
  simp only
  refine ⟨(((k.edgeUnlessExit (b := st.next + 2) (t := .normal) k.own hk (by ob)).edge (a := st.next) (b := st.next + 2) (t := .exc)
    (by ob) (by ob) (by ob)).edge (a := st.next + 2) (b := st.next + 3) (t := .normal) (by ob) (by ob) (by ob)).setCur
    (x := st.next + 3) (by ob) (by ob), ⟨?_, ?_⟩⟩
  · simp [sm.loops]
  · simp [sm.excs]

/-! ### match -/
theorem case_cases (x : Stmt) : (∃ s e b, x = .case_ s e b) ∨ (∀ s e b, x ≠ .case_ s e b) := by
  cases x
  case case_ s e b => exact .inl ⟨s, e, b, rfl⟩
  all_goals (right; intro _ _ _ h; cases h)

theorem handler_cases (x : Stmt) : (∃ s e b, x = .handler s e b) ∨ (∀ s e b, x ≠ .handler s e b) := by
  cases x
  case handler s e b => exact .inl ⟨s, e, b, rfl⟩
  all_goals (right; intro _ _ _ h; cases h)

theorem cases_frame (ihS : PSN N) (ihL : PLN N) : ∀ (cs : List Stmt) (st : St) (mb merge : Nat), sizeL cs ≤ N →
    WF st → Own c n st.cur → n ≤ st.next → Own c n mb → mb < st.next → merge < st.next →
    Inv c n st (procCases st cs mb merge) ∧ Same st (procCases st cs mb merge) := by
  intro cs
  induction cs with
  | nil =>
    intro st mb merge _ w hc _ _ _ _
    rw [procCases_nil]; exact ⟨Inv.refl w hc, Same.refl _⟩
  | cons x cs ihc =>
    intro st mb merge hsz w hc hn hmo hml hgl
    have hcur := w.cur
    have i0 : Inv c n st st := Inv.refl w hc
    have i1 := (i0.bump.edge (a := mb) (b := st.next) (t := .condT) hmo (by ob) (by ob)).setCur (x := st.next) (by ob) (by ob)
    have hszs : x.size ≤ N ∧ sizeL cs ≤ N := by simp only [sizeL] at hsz; omega
    rcases case_cases x with ⟨s, e, b, rfl⟩ | hne
    · rw [procCases_case]
      simp only
      have i2 := i1.add (b := st.next) (p := s) (q := e) (ty := .other) (by ob) (by ob)
      have hb : sizeL b ≤ N := by have := hszs.1; simp only [Stmt.size] at this; omega
      obtain ⟨j, sm⟩ := ihL b hb _ i2.wf c n i2.own (by ob)
      have k := i2.trans j
      have hjn := j.next_le
      have hk := k.wf.cur
      have k2 := k.edgeUnlessExit (b := merge) (t := .normal) k.own hk (by ob)
      obtain ⟨j3, sm3⟩ := ihc _ mb merge hszs.2 k2.wf k2.own (by ob) hmo (by ob) (by ob)
      refine ⟨k2.trans j3, ⟨?_, ?_⟩⟩
      · rw [sm3.loops]; simp [sm.loops]
      · rw [sm3.excs]; simp [sm.excs]
    · rw [procCases_other _ _ _ _ _ hne]
      simp only
      obtain ⟨j, sm⟩ := ihS x hszs.1 _ i1.wf c n i1.own (by ob)
      have k := i1.trans j
      have hjn := j.next_le
      have hk := k.wf.cur
      have k2 := k.edgeUnlessExit (b := merge) (t := .normal) k.own hk (by ob)
      obtain ⟨j3, sm3⟩ := ihc _ mb merge hszs.2 k2.wf k2.own (by ob) hmo (by ob) (by ob)
      refine ⟨k2.trans j3, ⟨?_, ?_⟩⟩
      · rw [sm3.loops]; simp [sm.loops]
      · rw [sm3.excs]; simp [sm.excs]

theorem match_frame (ihS : PSN N) (ihL : PLN N) (cases : List Stmt) (h1 : sizeL cases ≤ N) (st : St) (s e : Nat)
    (w : WF st) (hc : Own c n st.cur) (hn : n ≤ st.next) :
    Inv c n st (procMatch st s e cases) ∧ Same st (procMatch st s e cases) := by
  rw [procMatch_eq]
  have hcur := w.cur
  have i0 : Inv c n st st := Inv.refl w hc
  have i1 := ((i0.bump.edge (a := st.cur) (b := st.next) (t := .normal) hc (by ob) (by ob)).add (b := st.next) (p := s) (q := e)
    (ty := .other) (by ob) (by ob)).bump
  simp only
  split
  · obtain ⟨j, sm⟩ := cases_frame (c := c) (n := n) ihS ihL cases _ st.next (st.next + 1) h1 i1.wf i1.own (by ob) (by ob) (by ob) (by ob)
    have k := i1.trans j
    have hjn := j.next_le
    refine ⟨(k.edge (a := st.next) (b := st.next + 1) (t := .condF) (by ob) (by ob) (by ob)).setCur (x := st.next + 1) (by ob) (by ob), ⟨?_, ?_⟩⟩
    · simp [sm.loops]
    · simp [sm.excs]
  · refine ⟨(i1.edge (a := st.next) (b := st.next + 1) (t := .normal) (by ob) (by ob) (by ob)).setCur (x := st.next + 1) (by ob) (by ob), ⟨?_, ?_⟩⟩
    · simp
    · simp

/-! ### the propagation edges after a `finally` body -/
/-- `s'` is `s` plus owned edges: same context stacks, same `next`, same current block -/
structure Step (c n : Nat) (s0 s s' : St) : Prop where
  inv : Inv c n s0 s'
  loops : s'.loops = s.loops
  excs : s'.excs = s.excs
  next : s'.next = s.next
  cur : s'.cur = s.cur

theorem Step.rfl' {s0 s : St} (k : Inv c n s0 s) : Step c n s0 s s := ⟨k, rfl, rfl, rfl, rfl⟩
theorem Step.trans {s0 s s' s'' : St} (a : Step c n s0 s s') (b : Step c n s0 s' s'') : Step c n s0 s s'' :=
  ⟨b.inv, b.loops.trans a.loops, b.excs.trans a.excs, b.next.trans a.next, b.cur.trans a.cur⟩

def conn (fin : Nat) (st : St) (b : Nat) (t : ETy) : St := if st.hasSucc fin b then st else st.edge fin b t

theorem conn_step {s0 s : St} (k : Inv c n s0 s) {fin : Nat} (hfo : Own c n fin) (hfl : fin < s.next) {b : Nat} (t : ETy)
    (hb : b < s.next) : Step c n s0 s (conn fin s b t) := by
  unfold conn
  split
  · exact Step.rfl' k
  · exact ⟨k.edge hfo hfl hb, rfl, rfl, rfl, rfl⟩

theorem foldl_conn_step {s0 : St} {fin : Nat} (hfo : Own c n fin) (t : ETy) : ∀ (hs : List Nat) (s : St), Inv c n s0 s → fin < s.next →
    (∀ h ∈ hs, h < s.next) → Step c n s0 s (hs.foldl (fun st h => conn fin st h t) s)
  | [], _, k, _, _ => Step.rfl' k
  | h :: hs, s, k, hfl, hb => by
    simp only [List.foldl_cons]
    have a := conn_step k hfo hfl t (hb h (List.mem_cons_self ..))
    exact a.trans (foldl_conn_step hfo t hs _ a.inv (by rw [a.next]; exact hfl)
      (fun x hx => by rw [a.next]; exact hb x (List.mem_cons_of_mem _ hx)))

def fp1 (fin : Nat) (nextOuter : Option Nat) (st : St) : St :=
  match nextOuter with
  | some o => conn fin st o .ret
  | none => conn fin st exitB .ret

def fp2 (fin : Nat) (outer : List Exc) (st : St) : St :=
  match st.loops with
  | [] => st
  | (hdr, ex, d) :: _ =>
    let nextLoop : Option Nat := (outer.take (st.excs.length - 1 - d)).findSome? (fun c => c.fin)
    let st := match nextLoop with
      | some o => conn fin st o .brk
      | none => conn fin st ex .brk
    match nextLoop with
      | some o => conn fin st o .cont
      | none => conn fin st hdr .cont

def fp3 (fin : Nat) (outer : List Exc) (nextOuter : Option Nat) (st : St) : St :=
  match nextOuter with
  | some o => conn fin st o .exc
  | none =>
    match outer with
    | c :: _ => c.handlers.foldl (fun st h => conn fin st h .exc) st
    | [] => conn fin st exitB .exc

theorem finallyPropagation_eq (st : St) (fin : Nat) :
    finallyPropagation st fin =
      fp3 fin (st.excs.drop 1) ((st.excs.drop 1).findSome? (fun c => c.fin))
        (fp2 fin (st.excs.drop 1) (fp1 fin ((st.excs.drop 1).findSome? (fun c => c.fin)) st)) := rfl

theorem fp1_step {s0 s : St} (k : Inv c n s0 s) {fin : Nat} (hfo : Own c n fin) (hfl : fin < s.next) (no : Option Nat)
    (hno : ∀ o, no = some o → o < s.next) : Step c n s0 s (fp1 fin no s) := by
  unfold fp1
  split
  · exact conn_step k hfo hfl _ (hno _ rfl)
  · exact conn_step k hfo hfl _ (by have := k.wf.two; unfold exitB; omega)

theorem fp2_step {s0 s : St} (k : Inv c n s0 s) {fin : Nat} (hfo : Own c n fin) (hfl : fin < s.next) (outer : List Exc)
    (hout : ∀ cx ∈ outer, ∀ f, cx.fin = some f → f < s.next) : Step c n s0 s (fp2 fin outer s) := by
  unfold fp2
  split
  · exact Step.rfl' k
  · next hdr ex d rest hl =>
    have hx := k.wf.loops (hdr, ex, d) (by rw [hl]; exact List.mem_cons_self ..)
    simp only at hx
    simp only
    cases hnl : (outer.take (s.excs.length - 1 - d)).findSome? (fun c => c.fin) with
    | none =>
      simp only
      have a := conn_step k hfo hfl .brk hx.2
      exact a.trans (conn_step a.inv hfo (by rw [a.next]; exact hfl) .cont (by rw [a.next]; exact hx.1))
    | some o =>
      simp only
      obtain ⟨cx, hcx, hf⟩ := List.exists_of_findSome?_eq_some hnl
      have ho := hout cx (List.mem_of_mem_take hcx) o hf
      have a := conn_step k hfo hfl .brk ho
      exact a.trans (conn_step a.inv hfo (by rw [a.next]; exact hfl) .cont (by rw [a.next]; exact ho))

theorem fp3_step {s0 s : St} (k : Inv c n s0 s) {fin : Nat} (hfo : Own c n fin) (hfl : fin < s.next) (outer : List Exc) (no : Option Nat)
    (hno : ∀ o, no = some o → o < s.next) (hout : ∀ cx ∈ outer, ∀ h ∈ cx.handlers, h < s.next) :
    Step c n s0 s (fp3 fin outer no s) := by
  unfold fp3
  split
  · exact conn_step k hfo hfl _ (hno _ rfl)
  · split
    · next cx rest => exact foldl_conn_step hfo .exc _ _ k hfl (hout cx (List.mem_cons_self ..))
    · exact conn_step k hfo hfl _ (by have := k.wf.two; unfold exitB; omega)

theorem finallyPropagation_step {s0 s : St} (k : Inv c n s0 s) {fin : Nat} (hfo : Own c n fin) (hfl : fin < s.next) :
    Step c n s0 s (finallyPropagation s fin) := by
  rw [finallyPropagation_eq]
  have hno : ∀ o, (s.excs.drop 1).findSome? (fun c => c.fin) = some o → o < s.next := by
    intro o ho
    obtain ⟨cx, hcx, hf⟩ := List.exists_of_findSome?_eq_some ho
    exact (k.wf.excs cx (List.mem_of_mem_drop hcx)).1 o hf
  have a := fp1_step k hfo hfl _ hno
  have b := fp2_step a.inv hfo (by rw [a.next]; exact hfl) (s.excs.drop 1)
    (fun cx hcx f hf => by rw [a.next]; exact (k.wf.excs cx (List.mem_of_mem_drop hcx)).1 f hf)
  have ab := a.trans b
  have d := fp3_step ab.inv hfo (by rw [ab.next]; exact hfl) (s.excs.drop 1) _ (fun o ho => by rw [ab.next]; exact hno o ho)
    (fun cx hcx h hh => by rw [ab.next]; exact (k.wf.excs cx (List.mem_of_mem_drop hcx)).2 h hh)
  exact ab.trans d

theorem finallyPropagation_frame {s0 s : St} (k : Inv c n s0 s) {fin : Nat} (hfo : Own c n fin) (hfl : fin < s.next) :
    Inv c n s0 (finallyPropagation s fin) ∧ Same s (finallyPropagation s fin) ∧
      (finallyPropagation s fin).next = s.next ∧ (finallyPropagation s fin).cur = s.cur :=
  have a := finallyPropagation_step k hfo hfl
  ⟨a.inv, ⟨a.loops, a.excs⟩, a.next, a.cur⟩

/-! ### try -/
theorem handlers_frame (ihS : PSN N) (ihL : PLN N) : ∀ (hs : List Stmt) (hbs : List Nat) (st : St) (after : Nat), sizeL hs ≤ N →
    WF st → Own c n st.cur → n ≤ st.next → (∀ hb ∈ hbs, Own c n hb ∧ hb < st.next) → after < st.next →
    Inv c n st (procHandlers st hs hbs after) ∧ Same st (procHandlers st hs hbs after) := by
  intro hs
  induction hs with
  | nil =>
    intro hbs st after _ w hc _ _ _
    rw [procHandlers_nil_l]; exact ⟨Inv.refl w hc, Same.refl _⟩
  | cons x hs ihh =>
    intro hbs st after hsz w hc hn hhb hal
    rcases hbs with _ | ⟨hb, hbs⟩
    · rw [procHandlers_nil_r]; exact ⟨Inv.refl w hc, Same.refl _⟩
    have i0 : Inv c n st st := Inv.refl w hc
    obtain ⟨hbo, hbl⟩ := hhb hb (List.mem_cons_self ..)
    have i1 := i0.setCur (x := hb) hbo hbl
    have hszs : x.size ≤ N ∧ sizeL hs ≤ N := by simp only [sizeL] at hsz; omega
    rcases handler_cases x with ⟨s, e, b, rfl⟩ | hne
    · rw [procHandlers_handler]
      simp only
      have i2 := i1.add (b := hb) (p := s) (q := e) (ty := .other) hbo (by ob)
      have hb' : sizeL b ≤ N := by have := hszs.1; simp only [Stmt.size] at this; omega
      obtain ⟨j, sm⟩ := ihL b hb' _ i2.wf c n i2.own (by ob)
      have k := i2.trans j
      have hjn := j.next_le
      have hk := k.wf.cur
      have k2 := k.edgeUnlessExit (b := after) (t := .normal) k.own hk (by ob)
      obtain ⟨j3, sm3⟩ := ihh hbs _ after hszs.2 k2.wf k2.own (by ob)
        (fun y hy => by have := hhb y (List.mem_cons_of_mem _ hy); exact ⟨this.1, by ob⟩) (by ob)
      refine ⟨k2.trans j3, ⟨?_, ?_⟩⟩
      · rw [sm3.loops]; simp [sm.loops]
      · rw [sm3.excs]; simp [sm.excs]
    · rw [procHandlers_other _ _ _ _ _ _ hne]
      simp only
      obtain ⟨j, sm⟩ := ihS x hszs.1 _ i1.wf c n i1.own (by ob)
      have k := i1.trans j
      have hjn := j.next_le
      have hk := k.wf.cur
      have k2 := k.edgeUnlessExit (b := after) (t := .normal) k.own hk (by ob)
      obtain ⟨j3, sm3⟩ := ihh hbs _ after hszs.2 k2.wf k2.own (by ob)
        (fun y hy => by have := hhb y (List.mem_cons_of_mem _ hy); exact ⟨this.1, by ob⟩) (by ob)
      refine ⟨k2.trans j3, ⟨?_, ?_⟩⟩
      · rw [sm3.loops]; simp [sm.loops]
      · rw [sm3.excs]; simp [sm.excs]

/-- block allocation at the start of `procTry`: (state, finally block, else block) -/
def tryPre (st : St) (hasFin hasElse : Bool) : St × Nat × Nat :=
  let s1 := bump ((bump st).edge st.cur st.next .normal)
  let finB := if hasFin then s1.next else 0
  let s2 := if hasFin then bump s1 else s1
  let elseB := if hasElse then s2.next else 0
  let s3 := if hasElse then bump s2 else s2
  (s3, finB, elseB)

/-- try body, exception edges and handlers -/
def tryMid (s3 : St) (tryB : Nat) (cfin : Option Nat) (excs0 : List Exc) (nat ah : Nat) (body handlers : List Stmt) : St :=
  let hbs : List Nat := (List.range handlers.length).map (fun k => s3.next + k)
  let ctx : Exc := { fin := cfin, handlers := hbs, processingFinally := false }
  let s4 := setExcs (bumpN s3 handlers.length) (ctx :: excs0)
  let s5 := procList (setCur s4 tryB) body
  let s6 := hbs.foldl (fun st h => st.edge tryB h .exc) (s5.edgeUnlessExit s5.cur nat .normal)
  procHandlers s6 handlers hbs ah

def tryElse (s7 : St) (hasElse : Bool) (elseB ah : Nat) (orelse : List Stmt) : St :=
  if hasElse then
    let s := procList (setCur s7 elseB) orelse
    s.edgeUnlessExit s.cur ah .normal
  else s7

def tryFin (s8 : St) (hasFin : Bool) (finB exitBk : Nat) (ctx : Exc) (excs0 : List Exc) (fin : List Stmt) : St :=
  if hasFin then
    let s := procList (setExcs (setCur s8 finB) ({ ctx with processingFinally := true } :: excs0)) fin
    let s := setExcs s (ctx :: excs0)
    finallyPropagation (s.edgeUnlessExit s.cur exitBk .normal) finB
  else s8

theorem procTry_eq' (st : St) (s e : Nat) (body handlers orelse fin : List Stmt) :
    procTry st s e body handlers orelse fin =
      let hasFin := !fin.isEmpty
      let hasElse := !orelse.isEmpty
      let p := tryPre st hasFin hasElse
      let cfin : Option Nat := if hasFin then some p.2.1 else none
      let ctx : Exc := { fin := cfin, handlers := (List.range handlers.length).map (fun k => p.1.next + k), processingFinally := false }
      let nat := if hasElse then p.2.2 else if hasFin then p.2.1 else st.next + 1
      let ah := if hasFin then p.2.1 else st.next + 1
      let s7 := tryMid p.1 st.next cfin st.excs nat ah body handlers
      let s8 := tryElse s7 hasElse p.2.2 ah orelse
      let s9 := tryFin s8 hasFin p.2.1 (st.next + 1) ctx st.excs fin
      setExcs (setCur s9 (st.next + 1)) st.excs := by
  rw [procTry_eq]; rfl

theorem tryPre_frame (st : St) (w : WF st) (hc : Own c n st.cur) (hn : n ≤ st.next) (hasFin hasElse : Bool) :
    Inv c n st (tryPre st hasFin hasElse).1 ∧ Same st (tryPre st hasFin hasElse).1 ∧ st.next + 2 ≤ (tryPre st hasFin hasElse).1.next ∧
      (hasFin = true → n ≤ (tryPre st hasFin hasElse).2.1 ∧ (tryPre st hasFin hasElse).2.1 < (tryPre st hasFin hasElse).1.next) ∧
      (hasElse = true → n ≤ (tryPre st hasFin hasElse).2.2 ∧ (tryPre st hasFin hasElse).2.2 < (tryPre st hasFin hasElse).1.next) := by
  have hcur := w.cur
  have i0 : Inv c n st st := Inv.refl w hc
  have i1 := (i0.bump.edge (a := st.cur) (b := st.next) (t := .normal) hc (by ob) (by ob)).bump
  unfold tryPre
  cases hasFin <;> cases hasElse <;> simp only [Bool.false_eq_true, ↓reduceIte]
  all_goals
    refine ⟨by first | exact i1.bump.bump | exact i1.bump | exact i1, ⟨rfl, rfl⟩, by ob, ?_, ?_⟩ <;> intro h <;>
      first | exact h.elim | (constructor <;> ob)

theorem tryMid_frame (ihS : PSN N) (ihL : PLN N) (body handlers : List Stmt) (hb : sizeL body ≤ N) (hh : sizeL handlers ≤ N)
    {st s3 : St} (k : Inv c n st s3) (hn : n ≤ s3.next) (tryB : Nat) (hto : Own c n tryB) (htl : tryB < s3.next)
    (cfin : Option Nat) (hcf : ∀ f, cfin = some f → f < s3.next) (excs0 : List Exc)
    (hx : ∀ cx ∈ excs0, (∀ f, cx.fin = some f → f < s3.next) ∧ ∀ h ∈ cx.handlers, h < s3.next)
    (nat ah : Nat) (hnat : nat < s3.next) (hah : ah < s3.next) :
    Inv c n st (tryMid s3 tryB cfin excs0 nat ah body handlers) ∧
      (tryMid s3 tryB cfin excs0 nat ah body handlers).loops = s3.loops ∧
      (tryMid s3 tryB cfin excs0 nat ah body handlers).excs =
        { fin := cfin, handlers := (List.range handlers.length).map (fun k => s3.next + k), processingFinally := false } :: excs0 ∧
      s3.next + handlers.length ≤ (tryMid s3 tryB cfin excs0 nat ah body handlers).next := by
  unfold tryMid
  simp only
  have hmem : ∀ h ∈ (List.range handlers.length).map (fun k => s3.next + k), s3.next ≤ h ∧ h < s3.next + handlers.length := by
    intro h hh
    obtain ⟨k, hk, rfl⟩ := List.mem_map.mp hh
    have := List.mem_range.mp hk
    omega
  generalize (List.range handlers.length).map (fun k => s3.next + k) = hbs at hmem ⊢
  have i4 := ((k.bumpN handlers.length).setExcs (x := { fin := cfin, handlers := hbs, processingFinally := false } :: excs0) (by
    intro cx hcx
    rcases List.mem_cons.mp hcx with rfl | hcx
    · exact ⟨fun f hf => by have := hcf f hf; ob, fun h hh => by have := hmem h hh; ob⟩
    · exact ⟨fun f hf => by have := (hx cx hcx).1 f hf; ob, fun h hh => by have := (hx cx hcx).2 h hh; ob⟩)).setCur
      (x := tryB) hto (by ob)
  obtain ⟨j, sm⟩ := ihL body hb _ i4.wf c n i4.own (by ob)
  have k5 := i4.trans j
  have hjn := j.next_le
  have hk5 := k5.wf.cur
  have k5' := k5.edgeUnlessExit (b := nat) (t := .normal) k5.own hk5 (by ob)
  obtain ⟨k6, sm6, hn6, hc6⟩ := foldl_edges_frame (c := c) (n := n) tryB .exc hbs _ k5' hto (by ob)
    (fun h hh => by have := hmem h hh; ob)
  obtain ⟨j7, sm7⟩ := handlers_frame ihS ihL handlers hbs _ ah hh k6.wf k6.own (by rw [hn6]; ob)
    (fun h hh => by have := hmem h hh; rw [hn6]; exact ⟨by ob, by ob⟩) (by rw [hn6]; ob)
  refine ⟨k6.trans j7, ?_, ?_, ?_⟩
  · rw [sm7.loops, sm6.loops]; simp [sm.loops]
  · rw [sm7.excs, sm6.excs]; simp [sm.excs]
  · have := j7.next_le; rw [hn6] at this; ob

theorem tryElse_frame (ihL : PLN N) (orelse : List Stmt) (ho : sizeL orelse ≤ N) {st s7 : St} (k : Inv c n st s7) (hn : n ≤ s7.next)
    (hasElse : Bool) (elseB ah : Nat) (he : hasElse = true → n ≤ elseB ∧ elseB < s7.next) (hah : ah < s7.next) :
    Inv c n st (tryElse s7 hasElse elseB ah orelse) ∧ Same s7 (tryElse s7 hasElse elseB ah orelse) ∧
      s7.next ≤ (tryElse s7 hasElse elseB ah orelse).next := by
  unfold tryElse
  cases hasElse
  · exact ⟨k, Same.refl _, Nat.le_refl _⟩
  · simp only [↓reduceIte]
    obtain ⟨heo, hel⟩ := he rfl
    have i1 := k.setCur (x := elseB) (by ob) hel
    obtain ⟨j, sm⟩ := ihL orelse ho _ i1.wf c n i1.own (by ob)
    have k2 := i1.trans j
    have hjn := j.next_le
    have hk2 := k2.wf.cur
    refine ⟨k2.edgeUnlessExit (b := ah) (t := .normal) k2.own hk2 (by ob), ⟨?_, ?_⟩, by ob⟩
    · simp [sm.loops]
    · simp [sm.excs]

theorem tryFin_frame (ihL : PLN N) (fin : List Stmt) (hf : sizeL fin ≤ N) {st s8 : St} (k : Inv c n st s8) (hn : n ≤ s8.next)
    (hasFin : Bool) (finB exitBk : Nat) (ctx : Exc) (excs0 : List Exc) (hex : s8.excs = ctx :: excs0)
    (hfb : hasFin = true → n ≤ finB ∧ finB < s8.next) (hel : exitBk < s8.next) :
    Inv c n st (tryFin s8 hasFin finB exitBk ctx excs0 fin) ∧ Same s8 (tryFin s8 hasFin finB exitBk ctx excs0 fin) ∧
      s8.next ≤ (tryFin s8 hasFin finB exitBk ctx excs0 fin).next := by
  unfold tryFin
  cases hasFin
  · exact ⟨k, Same.refl _, Nat.le_refl _⟩
  · simp only [↓reduceIte]
    obtain ⟨hfo, hfl⟩ := hfb rfl
    have hb := k.wf.excs
    rw [hex] at hb
    have i1 := (k.setCur (x := finB) (by ob) hfl).setExcs (x := { ctx with processingFinally := true } :: excs0) (by
      intro cx hcx
      rcases List.mem_cons.mp hcx with rfl | hcx
      · exact hb ctx (List.mem_cons_self ..)
      · exact hb cx (List.mem_cons_of_mem _ hcx))
    obtain ⟨j, sm⟩ := ihL fin hf _ i1.wf c n i1.own (by ob)
    have k2 := i1.trans j
    have hjn := j.next_le
    have hk2 := k2.wf.cur
    have k3a := k2.setExcs (x := ctx :: excs0) (by
      intro cx hcx
      have := hb cx hcx
      exact ⟨fun f hf => by have := this.1 f hf; ob, fun h hh => by have := this.2 h hh; ob⟩)
    have k3 := k3a.edgeUnlessExit (b := exitBk) (t := .normal) k3a.own k3a.wf.cur (by ob)
    obtain ⟨k4, sm4, hn4, hc4⟩ := finallyPropagation_frame k3 (fin := finB) (by ob) (by ob)
    refine ⟨k4, ⟨?_, ?_⟩, by rw [hn4]; ob⟩
    · rw [sm4.loops]; simp [sm.loops]
    · rw [sm4.excs]; simp [hex]

theorem try_frame (ihS : PSN N) (ihL : PLN N) (body handlers orelse fin : List Stmt) (hb : sizeL body ≤ N) (hh : sizeL handlers ≤ N)
    (ho : sizeL orelse ≤ N) (hf : sizeL fin ≤ N) (st : St) (s e : Nat) (w : WF st) (hc : Own c n st.cur) (hn : n ≤ st.next) :
    Inv c n st (procTry st s e body handlers orelse fin) ∧ Same st (procTry st s e body handlers orelse fin) := by
  rw [procTry_eq']
  simp only
  generalize (!fin.isEmpty) = hasFin
  generalize (!orelse.isEmpty) = hasElse
  obtain ⟨k3, sm3, hn3, hF, hE⟩ := tryPre_frame (c := c) (n := n) st w hc hn hasFin hasElse
  generalize tryPre st hasFin hasElse = p at *
  obtain ⟨s3, finB, elseB⟩ := p
  simp only at *
  have hcf : ∀ f, (if hasFin = true then some finB else none) = some f → f < s3.next := by
    intro f hf
    cases hasFin
    · simp at hf
    · simp only [↓reduceIte, Option.some.injEq] at hf; subst hf; exact (hF rfl).2
  have hah : (if hasFin = true then finB else st.next + 1) < s3.next := by
    cases hasFin
    · simp only [Bool.false_eq_true, ↓reduceIte]; omega
    · simp only [↓reduceIte]; exact (hF rfl).2
  have hnat : (if hasElse = true then elseB else if hasFin = true then finB else st.next + 1) < s3.next := by
    cases hasElse
    · simp only [Bool.false_eq_true, ↓reduceIte]; exact hah
    · simp only [↓reduceIte]; exact (hE rfl).2
  generalize (if hasFin = true then some finB else none) = cfin at *
  generalize (if hasElse = true then elseB else if hasFin = true then finB else st.next + 1) = nat at *
  generalize (if hasFin = true then finB else st.next + 1) = ah at *
  have hcur := w.cur
  obtain ⟨k7, l7, x7, hn7⟩ := tryMid_frame ihS ihL body handlers hb hh k3 (by omega) st.next (by ob) (by omega) cfin hcf st.excs
    (w.excs_le (by omega)) nat ah hnat hah
  obtain ⟨k8, sm8, hn8⟩ := tryElse_frame ihL orelse ho k7 (by omega) hasElse elseB ah
    (fun h => by have := hE h; omega) (by omega)
  obtain ⟨k9, sm9, hn9⟩ := tryFin_frame ihL fin hf k8 (by omega) hasFin finB (st.next + 1)
    { fin := cfin, handlers := (List.range handlers.length).map (fun k => s3.next + k), processingFinally := false } st.excs
    (by rw [sm8.excs, x7]) (fun h => by have := hF h; omega) (by omega)
  refine ⟨(k9.setCur (x := st.next + 1) (by ob) (by ob)).setExcs (w.excs_le (by ob)), ⟨?_, ?_⟩⟩
  · simp [sm9.loops, sm8.loops, l7, sm3.loops]
  · simp

/-! ### the main induction -/
theorem Stmt.size_pos (x : Stmt) : 1 ≤ x.size := by
  cases x <;> simp only [Stmt.size] <;> omega

theorem add_cur_frame (st : St) (s e : Nat) (ty : Ty) (w : WF st) (hc : Own c n st.cur) :
    Inv c n st (st.add st.cur s e ty) ∧ Same st (st.add st.cur s e ty) :=
  ⟨(Inv.refl w hc).add hc w.cur, ⟨rfl, rfl⟩⟩

theorem PLN_succ (ihS : PSN N) (ihL : PLN N) : PLN (N + 1) := by
  intro ss hsz st w c n hc hn
  rcases ss with _ | ⟨x, xs⟩
  · rw [procList_nil]; exact ⟨Inv.refl w hc, Same.refl _⟩
  · have hszs : x.size ≤ N ∧ sizeL xs ≤ N := by simp only [sizeL] at hsz; omega
    rw [procList_cons]
    obtain ⟨j, sm⟩ := ihS x hszs.1 st w c n hc hn
    have hjn := j.next_le
    obtain ⟨j2, sm2⟩ := ihL xs hszs.2 _ j.wf c n j.own (by omega)
    exact ⟨j.trans j2, sm.trans sm2⟩

theorem PSN_succ (ihS : PSN N) (ihL : PLN N) : PSN (N + 1) := by
  intro x hsz st w c n hc hn
  cases x with
  | simple s e comp hasComp =>
    rw [procStmt_simple]
    cases hasComp
    · simp only [Bool.false_eq_true, ↓reduceIte]; exact add_cur_frame st s e .other w hc
    · simp only [↓reduceIte]
      obtain ⟨j, sm⟩ := comp_frame st s e comp w hc hn
      exact ⟨j.add j.own j.wf.cur, ⟨sm.loops, sm.excs⟩⟩
  | ret s e comp hasComp => rw [procStmt_ret]; exact ret_frame st s e comp hasComp w hc hn
  | brk s e => rw [procStmt_brk]; exact brk_frame st s e w hc hn
  | cont s e => rw [procStmt_cont]; exact cont_frame st s e w hc hn
  | raise s e => rw [procStmt_raise]; exact raise_frame st s e w hc hn
  | ite s e a b =>
    rw [procStmt_ite]
    have : sizeL a ≤ N ∧ sizeL b ≤ N := by simp only [Stmt.size] at hsz; omega
    exact if_frame ihL a b this.1 this.2 st s e w hc hn
  | elifc s e a b =>
    rw [procStmt_elifc]
    have : sizeL a ≤ N ∧ sizeL b ≤ N := by simp only [Stmt.size] at hsz; omega
    exact if_frame ihL a b this.1 this.2 st 0 0 w hc hn
  | elsec s e b =>
    rw [procStmt_elsec]
    have : sizeL b ≤ N := by simp only [Stmt.size] at hsz; omega
    exact ihL b this st w c n hc hn
  | loop s e a b =>
    rw [procStmt_loop]
    have : sizeL a ≤ N ∧ sizeL b ≤ N := by simp only [Stmt.size] at hsz; omega
    exact loop_frame ihL a b this.1 this.2 st s e w hc hn
  | try_ s e a b c' d =>
    rw [procStmt_try]
    have : sizeL a ≤ N ∧ sizeL b ≤ N ∧ sizeL c' ≤ N ∧ sizeL d ≤ N := by simp only [Stmt.size] at hsz; omega
    exact try_frame ihS ihL a b c' d this.1 this.2.1 this.2.2.1 this.2.2.2 st s e w hc hn
  | handler s e b => rw [procStmt_handler]; exact add_cur_frame st s e .other w hc
  | with_ s e b =>
    rw [procStmt_with]
    have : sizeL b ≤ N := by simp only [Stmt.size] at hsz; omega
    exact with_frame ihL b this st s e w hc hn
  | match_ s e b =>
    rw [procStmt_match]
    have : sizeL b ≤ N := by simp only [Stmt.size] at hsz; omega
    exact match_frame ihS ihL b this st s e w hc hn
  | case_ s e b => rw [procStmt_case]; exact add_cur_frame st s e .other w hc
  | def_ s e b => rw [procStmt_def]; exact add_cur_frame st s e .other w hc
  | class_ s e b =>
    rw [procStmt_class]
    have : sizeL b ≤ N := by simp only [Stmt.size] at hsz; omega
    exact class_frame ihL b this st s e w hc hn

end compound2

theorem frame_all : ∀ N, PSN N ∧ PLN N := by
  intro N
  induction N with
  | zero =>
    constructor
    · intro x hsz; have := Stmt.size_pos x; omega
    · intro ss hsz st w c n hc hn
      rcases ss with _ | ⟨x, xs⟩
      · rw [procList_nil]; exact ⟨Inv.refl w hc, Same.refl _⟩
      · simp only [sizeL] at hsz; omega
  | succ N ih => exact ⟨PSN_succ ih.1 ih.2, PLN_succ ih.1 ih.2⟩

theorem procList_frame (ss : List Stmt) (st : St) (w : WF st) (c n : Nat) (hc : Own c n st.cur) (hn : n ≤ st.next) :
    Inv c n st (procList st ss) ∧ Same st (procList st ss) :=
  (frame_all (sizeL ss)).2 ss (Nat.le_refl _) st w c n hc hn

theorem procStmt_frame (x : Stmt) (st : St) (w : WF st) (c n : Nat) (hc : Own c n st.cur) (hn : n ≤ st.next) :
    Inv c n st (procStmt st x) ∧ Same st (procStmt st x) :=
  (frame_all x.size).1 x (Nat.le_refl _) st w c n hc hn

end PV.CFGSound

#print axioms PV.CFGSound.frame_all
