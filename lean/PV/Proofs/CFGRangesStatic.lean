import PV.Proofs.CFGRangesKDefs
import PV.Proofs.CFGRangesTop
/-!
Range-level soundness for the heads of `elif` clauses — the purely static part (syntax trees only, no builder).

* `spans_bounds` / `spansS_bounds`: the located spans of a well-formed list / statement lie inside its lines;
* `firstLoc_spec`: the located statement a list begins with is a line of `sxL`, and no located span of the list starts before it;
* `elif_static`: every entered `elif` head `l` of a well-formed body that satisfies `okEL` is `ElifOK`: there is a live located
  line `l₁` after it such that no located statement starts at `l`, every located statement that starts before `l` and reaches `l`
  also covers `l₁`, and every located statement after `l` starts at or after `l₁`.

All inductions go through `stmt_rs_ind`, the recursor of the nested inductive `Stmt` with one motive for statements and one
for statement lists.
-/
namespace PV.CFGSound
open PV.CFG

/-- structural induction on statements and statement lists (the recursor of the nested inductive type) -/
theorem stmt_rs_ind {PS : Stmt → Prop} {PL : List Stmt → Prop}
    (simple : ∀ s e c h, PS (.simple s e c h)) (ret : ∀ s e c h, PS (.ret s e c h))
    (brk : ∀ s e, PS (.brk s e)) (cont : ∀ s e, PS (.cont s e)) (raise : ∀ s e, PS (.raise s e))
    (ite : ∀ s e a b, PL a → PL b → PS (.ite s e a b))
    (elifc : ∀ s e a b, PL a → PL b → PS (.elifc s e a b))
    (elsec : ∀ s e a, PL a → PS (.elsec s e a))
    (loop : ∀ s e a b, PL a → PL b → PS (.loop s e a b))
    (try_ : ∀ s e a hs c d, PL a → PL hs → PL c → PL d → PS (.try_ s e a hs c d))
    (handler : ∀ s e a, PL a → PS (.handler s e a))
    (with_ : ∀ s e a, PL a → PS (.with_ s e a))
    (match_ : ∀ s e a, PL a → PS (.match_ s e a))
    (case_ : ∀ s e a, PL a → PS (.case_ s e a))
    (def_ : ∀ s e a, PS (.def_ s e a))
    (class_ : ∀ s e a, PL a → PS (.class_ s e a))
    (nil : PL []) (cons : ∀ x xs, PS x → PL xs → PL (x :: xs)) : (∀ x, PS x) ∧ (∀ ss, PL ss) :=
  ⟨fun x => Stmt.rec (motive_1 := PS) (motive_2 := PL) simple ret brk cont raise ite elifc elsec loop try_ handler with_ match_ case_
      (fun s e a _ => def_ s e a) class_ nil cons x,
   fun ss => Stmt.rec_1 (motive_1 := PS) (motive_2 := PL) simple ret brk cont raise ite elifc elsec loop try_ handler with_ match_ case_
      (fun s e a _ => def_ s e a) class_ nil cons ss⟩

/-! ### bounds of the located spans -/

/-- all spans of `A` lie inside lines `p … q-1` -/
def SpB (p q : Nat) (A : List (Nat × Nat)) : Prop := ∀ sp ∈ A, p ≤ sp.1 ∧ sp.1 ≤ sp.2 ∧ sp.2 < q

section spb
variable {p q p' q' m s e : Nat} {A B : List (Nat × Nat)}

theorem SpB.nil : SpB p q [] := fun _ h => by cases h

theorem SpB.mono (h : SpB p q A) (hp : p' ≤ p) (hq : q ≤ q') : SpB p' q' A :=
  fun sp hs => by have := h sp hs; omega

theorem SpB.seq (h₁ : SpB p m A) (h₂ : SpB m q B) (h1 : p ≤ m) (h2 : m ≤ q) : SpB p q (A ++ B) := by
  intro sp hs
  rcases List.mem_append.mp hs with hs | hs
  · have := h₁ sp hs; omega
  · have := h₂ sp hs; omega

theorem SpB.hdr (h : SpB (s + 1) q A) (hse : s ≤ e) (hq : q ≤ e + 1) : SpB s (e + 1) ((s, e) :: A) := by
  intro sp hs
  rcases List.mem_cons.mp hs with rfl | hs
  · exact ⟨Nat.le_refl s, hse, Nat.lt_succ_self e⟩
  · have := h sp hs; omega
end spb

theorem spb_all :
    (∀ x : Stmt, wfS x = true → SpB x.span.1 (x.span.2 + 1) (spansS x)) ∧
    (∀ ss : List Stmt, ∀ p, wfL p ss = true → SpB p (posL p ss) (spansL ss)) := by
  refine stmt_rs_ind ?_ ?_ ?_ ?_ ?_ ?_ ?_ ?_ ?_ ?_ ?_ ?_ ?_ ?_ ?_ ?_ ?_ ?_
  · intro s e c h hw
    rw [wfS_simple, decide_eq_true_eq] at hw
    rw [spansS_simple]; exact SpB.hdr (q := e + 1) SpB.nil hw (Nat.le_refl _)
  · intro s e c h hw
    rw [wfS_ret, decide_eq_true_eq] at hw
    rw [spansS_ret]; exact SpB.hdr (q := e + 1) SpB.nil hw (Nat.le_refl _)
  · intro s e hw
    rw [wfS_brk, decide_eq_true_eq] at hw
    rw [spansS_brk]; exact SpB.hdr (q := e + 1) SpB.nil hw (Nat.le_refl _)
  · intro s e hw
    rw [wfS_cont, decide_eq_true_eq] at hw
    rw [spansS_cont]; exact SpB.hdr (q := e + 1) SpB.nil hw (Nat.le_refl _)
  · intro s e hw
    rw [wfS_raise, decide_eq_true_eq] at hw
    rw [spansS_raise]; exact SpB.hdr (q := e + 1) SpB.nil hw (Nat.le_refl _)
  · intro s e a b iha ihb hw
    rw [wfS_ite] at hw
    simp only [Bool.and_eq_true, decide_eq_true_eq] at hw
    obtain ⟨⟨⟨hse, wa⟩, wb⟩, hq⟩ := hw
    rw [spansS_ite]
    exact SpB.hdr ((iha _ wa).seq (ihb _ wb) (posL_ge a _ wa) (posL_ge b _ wb)) hse hq
  · intro s e a b iha ihb hw
    rw [wfS_elifc] at hw
    simp only [Bool.and_eq_true, decide_eq_true_eq] at hw
    obtain ⟨⟨⟨hse, wa⟩, wb⟩, hq⟩ := hw
    rw [spansS_elifc]
    exact ((iha _ wa).seq (ihb _ wb) (posL_ge a _ wa) (posL_ge b _ wb)).mono (Nat.le_succ s) hq
  · intro s e a iha hw
    rw [wfS_elsec] at hw
    simp only [Bool.and_eq_true, decide_eq_true_eq] at hw
    rw [spansS_elsec]
    exact (iha _ hw.1.2).mono (Nat.le_succ s) hw.2
  · intro s e a b iha ihb hw
    rw [wfS_loop] at hw
    simp only [Bool.and_eq_true, decide_eq_true_eq] at hw
    obtain ⟨⟨⟨hse, wa⟩, wb⟩, hq⟩ := hw
    rw [spansS_loop]
    exact SpB.hdr ((iha _ wa).seq (ihb _ wb) (posL_ge a _ wa) (posL_ge b _ wb)) hse hq
  · intro s e a hs c d iha ihh ihc ihd hw
    rw [wfS_try] at hw
    simp only [Bool.and_eq_true, decide_eq_true_eq] at hw
    obtain ⟨⟨⟨⟨⟨hse, wa⟩, wh⟩, wc⟩, wd⟩, hq⟩ := hw
    have g1 := posL_ge a _ wa
    have g2 := posL_ge hs _ wh
    have g3 := posL_ge c _ wc
    have g4 := posL_ge d _ wd
    rw [spansS_try]
    exact ((((iha _ wa).seq (ihh _ wh) g1 g2).seq (ihc _ wc) (by omega) g3).seq (ihd _ wd) (by omega) g4).mono (Nat.le_succ s) hq
  · intro s e a iha hw
    rw [wfS_handler] at hw
    simp only [Bool.and_eq_true, decide_eq_true_eq] at hw
    rw [spansS_handler]
    exact SpB.hdr (iha _ hw.1.2) hw.1.1 hw.2
  · intro s e a iha hw
    rw [wfS_with] at hw
    simp only [Bool.and_eq_true, decide_eq_true_eq] at hw
    rw [spansS_with]
    exact SpB.hdr (iha _ hw.1.2) hw.1.1 hw.2
  · intro s e a iha hw
    rw [wfS_match] at hw
    simp only [Bool.and_eq_true, decide_eq_true_eq] at hw
    rw [spansS_match]
    exact SpB.hdr (iha _ hw.1.2) hw.1.1 hw.2
  · intro s e a iha hw
    rw [wfS_case] at hw
    simp only [Bool.and_eq_true, decide_eq_true_eq] at hw
    rw [spansS_case]
    exact SpB.hdr (iha _ hw.1.2) hw.1.1 hw.2
  · intro s e a hw
    rw [wfS_def, decide_eq_true_eq] at hw
    rw [spansS_def]; exact SpB.hdr (q := e + 1) SpB.nil hw (Nat.le_refl _)
  · intro s e a iha hw
    rw [wfS_class] at hw
    simp only [Bool.and_eq_true, decide_eq_true_eq] at hw
    rw [spansS_class]
    exact SpB.hdr (iha _ hw.1.2) hw.1.1 hw.2
  · intro p _
    rw [spansL_nil]; exact SpB.nil
  · intro x xs hx hxs p hw
    rw [wfL_cons] at hw
    simp only [Bool.and_eq_true, decide_eq_true_eq] at hw
    obtain ⟨⟨hp, wx⟩, wxs⟩ := hw
    have hle := wfS_le wx
    rw [spansL_cons, posL_cons]
    exact ((hx wx).mono hp (Nat.le_refl _)).seq (hxs _ wxs) (by omega) (posL_ge xs _ wxs)

/-- all located spans of a well-formed statement lie inside its span -/
theorem spansS_bounds (x : Stmt) (hw : wfS x = true) :
    ∀ sp ∈ spansS x, x.span.1 ≤ sp.1 ∧ sp.1 ≤ sp.2 ∧ sp.2 ≤ x.span.2 := by
  intro sp hs
  have := spb_all.1 x hw sp hs
  omega

/-- all located spans of a well-formed list lie inside its lines -/
theorem spans_bounds (ss : List Stmt) (p : Nat) (hw : wfL p ss = true) :
    ∀ sp ∈ spansL ss, p ≤ sp.1 ∧ sp.1 ≤ sp.2 ∧ sp.2 < posL p ss :=
  spb_all.2 ss p hw

/-! ### the located statement a list begins with -/

theorem sxL_cons_lines (x : Stmt) (xs : List Stmt) : ∀ l ∈ (sxS x).lines, l ∈ (sxL (x :: xs)).lines := by
  intro l hl
  rw [sxL_cons]
  split
  · exact List.mem_append.mpr (.inl hl)
  · exact hl

/-- `f` is a line of the static summary inside the lines of the list, and no located span of the list starts before it -/
def FLoc (p : Nat) (ss : List Stmt) (f : Nat) : Prop :=
  f ∈ (sxL ss).lines ∧ p ≤ f ∧ f < posL p ss ∧ ∀ sp ∈ spansL ss, f ≤ sp.1

theorem floc_head (x : Stmt) (xs : List Stmt) (p : Nat) (hw : wfL p (x :: xs) = true) (hm : x.span.1 ∈ (sxS x).lines) :
    FLoc p (x :: xs) x.span.1 := by
  rw [wfL_cons] at hw
  simp only [Bool.and_eq_true, decide_eq_true_eq] at hw
  obtain ⟨⟨hp, wx⟩, wxs⟩ := hw
  have hle := wfS_le wx
  have hg := posL_ge xs _ wxs
  refine ⟨sxL_cons_lines x xs _ hm, hp, ?_, ?_⟩
  · rw [posL_cons]; omega
  · rw [spansL_cons]
    intro sp hs
    rcases List.mem_append.mp hs with hs | hs
    · exact (spansS_bounds x wx sp hs).1
    · have := (spans_bounds xs _ wxs sp hs).1; omega

theorem floc_all :
    (∀ x : Stmt, ∀ xs p f, wfL p (x :: xs) = true → firstLoc (x :: xs) = some f → FLoc p (x :: xs) f) ∧
    (∀ ss : List Stmt, ∀ p f, wfL p ss = true → firstLoc ss = some f → FLoc p ss f) := by
  refine stmt_rs_ind ?_ ?_ ?_ ?_ ?_ ?_ ?_ ?_ ?_ ?_ ?_ ?_ ?_ ?_ ?_ ?_ ?_ ?_
  · intro s e c h xs p f hw hf
    rw [firstLoc_other _ _ (by intros; simp) (by intros; simp) (by intros; simp)] at hf
    cases hf
    exact floc_head _ xs p hw (by rw [sxS_simple]; simp [Stmt.span])
  · intro s e c h xs p f hw hf
    rw [firstLoc_other _ _ (by intros; simp) (by intros; simp) (by intros; simp)] at hf
    cases hf
    exact floc_head _ xs p hw (by rw [sxS_ret]; simp [Stmt.span])
  · intro s e xs p f hw hf
    rw [firstLoc_other _ _ (by intros; simp) (by intros; simp) (by intros; simp)] at hf
    cases hf
    exact floc_head _ xs p hw (by rw [sxS_brk]; simp [Stmt.span])
  · intro s e xs p f hw hf
    rw [firstLoc_other _ _ (by intros; simp) (by intros; simp) (by intros; simp)] at hf
    cases hf
    exact floc_head _ xs p hw (by rw [sxS_cont]; simp [Stmt.span])
  · intro s e xs p f hw hf
    rw [firstLoc_other _ _ (by intros; simp) (by intros; simp) (by intros; simp)] at hf
    cases hf
    exact floc_head _ xs p hw (by rw [sxS_raise]; simp [Stmt.span])
  · intro s e a b _ _ xs p f hw hf
    rw [firstLoc_other _ _ (by intros; simp) (by intros; simp) (by intros; simp)] at hf
    cases hf
    exact floc_head _ xs p hw (by rw [sxS_ite]; simp [Stmt.span])
  · intro s e a b _ _ xs p f hw hf
    rw [firstLoc_elifc] at hf; cases hf
  · intro s e a _ xs p f hw hf
    rw [firstLoc_elsec] at hf; cases hf
  · intro s e a b _ _ xs p f hw hf
    rw [firstLoc_other _ _ (by intros; simp) (by intros; simp) (by intros; simp)] at hf
    cases hf
    exact floc_head _ xs p hw (by rw [sxS_loop]; simp [Stmt.span])
  · intro s e a hs c d iha _ _ _ xs p f hw hf
    rw [firstLoc_try] at hf
    rw [wfL_cons] at hw
    simp only [Bool.and_eq_true, decide_eq_true_eq] at hw
    obtain ⟨⟨hp, wx⟩, wxs⟩ := hw
    simp only [Stmt.span] at hp wxs
    rw [wfS_try] at wx
    simp only [Bool.and_eq_true, decide_eq_true_eq] at wx
    obtain ⟨⟨⟨⟨⟨hse, wa⟩, wh⟩, wc⟩, wd⟩, hq⟩ := wx
    have g1 := posL_ge a _ wa
    have g2 := posL_ge hs _ wh
    have g3 := posL_ge c _ wc
    have g4 := posL_ge d _ wd
    have g5 := posL_ge xs _ wxs
    obtain ⟨f1, f2, f3, f4⟩ := iha (s + 1) f wa hf
    refine ⟨sxL_cons_lines _ xs _ ?_, by omega, ?_, ?_⟩
    · rw [sxS_try]; simp only []
      split
      · simp only [List.mem_append]; exact .inl (.inl f1)
      · simp only [List.mem_append]; exact .inl (.inl (.inl f1))
    · rw [posL_cons]; simp only [Stmt.span]; omega
    · rw [spansL_cons, spansS_try]
      intro sp hsp
      simp only [List.mem_append] at hsp
      rcases hsp with (((h | h) | h) | h) | h
      · exact f4 sp h
      · have := (spans_bounds hs _ wh sp h).1; omega
      · have := (spans_bounds c _ wc sp h).1; omega
      · have := (spans_bounds d _ wd sp h).1; omega
      · have := (spans_bounds xs _ wxs sp h).1; omega
  · intro s e a _ xs p f hw hf
    rw [firstLoc_other _ _ (by intros; simp) (by intros; simp) (by intros; simp)] at hf
    cases hf
    exact floc_head _ xs p hw (by rw [sxS_handler]; simp [Stmt.span])
  · intro s e a _ xs p f hw hf
    rw [firstLoc_other _ _ (by intros; simp) (by intros; simp) (by intros; simp)] at hf
    cases hf
    exact floc_head _ xs p hw (by rw [sxS_with]; simp [Stmt.span])
  · intro s e a _ xs p f hw hf
    rw [firstLoc_other _ _ (by intros; simp) (by intros; simp) (by intros; simp)] at hf
    cases hf
    exact floc_head _ xs p hw (by rw [sxS_match]; simp [Stmt.span])
  · intro s e a _ xs p f hw hf
    rw [firstLoc_other _ _ (by intros; simp) (by intros; simp) (by intros; simp)] at hf
    cases hf
    exact floc_head _ xs p hw (by rw [sxS_case]; simp [Stmt.span])
  · intro s e a xs p f hw hf
    rw [firstLoc_other _ _ (by intros; simp) (by intros; simp) (by intros; simp)] at hf
    cases hf
    exact floc_head _ xs p hw (by rw [sxS_def]; simp [Stmt.span])
  · intro s e a _ xs p f hw hf
    rw [firstLoc_other _ _ (by intros; simp) (by intros; simp) (by intros; simp)] at hf
    cases hf
    exact floc_head _ xs p hw (by rw [sxS_class]; simp [Stmt.span])
  · intro p f _ hf
    rw [firstLoc_nil] at hf; cases hf
  · intro x xs hx _ p f hw hf
    exact hx xs p f hw hf

/-- the located statement a well-formed list begins with (looking through `try:`): its line is a line of the static summary,
it lies inside the lines of the list, and no located span of the list starts before it -/
theorem firstLoc_spec (ss : List Stmt) (p f : Nat) (hw : wfL p ss = true) (hf : firstLoc ss = some f) :
    f ∈ (sxL ss).lines ∧ p ≤ f ∧ f < posL p ss ∧ ∀ sp ∈ spansL ss, f ≤ sp.1 :=
  floc_all.2 ss p f hw hf

/-! ### the heads of `elif` clauses -/

/-- the three conditions of `ElifOK` for one span -/
def ECond (l l₁ : Nat) (sp : Nat × Nat) : Prop :=
  sp.1 ≠ l ∧ (sp.1 < l → l ≤ sp.2 → l₁ ≤ sp.2) ∧ (l < sp.1 → l₁ ≤ sp.1)

theorem ECond.of_lt {l l₁ : Nat} {sp : Nat × Nat} (h1 : sp.1 ≤ sp.2) (h2 : sp.2 < l) : ECond l l₁ sp :=
  ⟨by omega, fun _ _ => by omega, fun _ => by omega⟩
theorem ECond.of_ge {l l₁ : Nat} {sp : Nat × Nat} (h1 : l < l₁) (h2 : l₁ ≤ sp.1) : ECond l l₁ sp :=
  ⟨by omega, fun _ _ => by omega, fun _ => by omega⟩
theorem ECond.of_hdr {l l₁ : Nat} {sp : Nat × Nat} (h1 : sp.1 < l) (h2 : l₁ ≤ sp.2) : ECond l l₁ sp :=
  ⟨by omega, fun _ _ => by omega, fun _ => by omega⟩

/-- code inside lines `p … q-1` with located spans `A`, live lines `L` and entered `elif` heads `S`: the spans lie inside the
lines, and every `elif` head has a witness line inside the segment (so that the statement can be lifted through siblings and
enclosing statements) -/
structure ESeg (p q : Nat) (A : List (Nat × Nat)) (L S : List Nat) : Prop where
  le : p ≤ q
  bnd : SpB p q A
  ek : ∀ l ∈ S, p ≤ l ∧ ∃ l₁ ∈ L, l < l₁ ∧ l₁ < q ∧ ∀ sp ∈ A, ECond l l₁ sp

abbrev ESegX (p q : Nat) (A : List (Nat × Nat)) (r : SX) : Prop := ESeg p q A r.lines r.skipped

section eseg
variable {p q p' q' m s e : Nat} {A B : List (Nat × Nat)} {L L' L₁ L₂ S S' S₁ S₂ : List Nat}

theorem ESeg.nil : ESeg p p [] L [] := ⟨Nat.le_refl _, SpB.nil, fun _ h => by cases h⟩

theorem ESeg.mono (h : ESeg p q A L S) (hp : p' ≤ p) (hq : q ≤ q') : ESeg p' q' A L S := by
  refine ⟨by have := h.le; omega, h.bnd.mono hp hq, ?_⟩
  intro l hl
  obtain ⟨h1, l₁, hm, h2, h3, h4⟩ := h.ek l hl
  exact ⟨by omega, l₁, hm, h2, by omega, h4⟩

theorem ESeg.lines (h : ESeg p q A L S) (hl : ∀ l ∈ L, l ∈ L') : ESeg p q A L' S := by
  refine ⟨h.le, h.bnd, ?_⟩
  intro l hl'
  obtain ⟨h1, l₁, hm, h2, h3, h4⟩ := h.ek l hl'
  exact ⟨h1, l₁, hl l₁ hm, h2, h3, h4⟩

theorem ESeg.drop (h : ESeg p q A L S) : ESeg p q A L' [] := ⟨h.le, h.bnd, fun _ h => by cases h⟩

/-- sequential composition of two adjacent segments: the spans of the one are earlier / later siblings for the other -/
theorem ESeg.comp (h₁ : ESeg p m A L₁ S₁) (h₂ : ESeg m q B L₂ S₂) : ESeg p q (A ++ B) (L₁ ++ L₂) (S₁ ++ S₂) := by
  have hpm := h₁.le
  have hmq := h₂.le
  refine ⟨by omega, h₁.bnd.seq h₂.bnd hpm hmq, ?_⟩
  intro l hl
  rcases List.mem_append.mp hl with hl | hl
  · obtain ⟨h1, l₁, hm, h2, h3, h4⟩ := h₁.ek l hl
    refine ⟨h1, l₁, List.mem_append.mpr (.inl hm), h2, by omega, ?_⟩
    intro sp hs
    rcases List.mem_append.mp hs with hs | hs
    · exact h4 sp hs
    · have := h₂.bnd sp hs
      exact ECond.of_ge h2 (by omega)
  · obtain ⟨h1, l₁, hm, h2, h3, h4⟩ := h₂.ek l hl
    refine ⟨by omega, l₁, List.mem_append.mpr (.inr hm), h2, h3, ?_⟩
    intro sp hs
    rcases List.mem_append.mp hs with hs | hs
    · have := h₁.bnd sp hs
      exact ECond.of_lt (by omega) (by omega)
    · exact h4 sp hs

/-- the second segment is not entered -/
theorem ESeg.comp_drop (h₁ : ESeg p m A L S) (h₂ : ESeg m q B L' S') : ESeg p q (A ++ B) L S := by
  have h := h₁.comp (h₂.drop (L' := []))
  rw [List.append_nil, List.append_nil] at h
  exact h

/-- a located header line in front of a segment -/
theorem ESeg.hdr (h : ESeg (s + 1) q A L S) (hq : q ≤ e + 1) : ESeg s (e + 1) ((s, e) :: A) (s :: L) S := by
  have hle := h.le
  refine ⟨by omega, SpB.hdr h.bnd (by omega) hq, ?_⟩
  intro l hl
  obtain ⟨h1, l₁, hm, h2, h3, h4⟩ := h.ek l hl
  refine ⟨by omega, l₁, List.mem_cons_of_mem _ hm, h2, by omega, ?_⟩
  intro sp hs
  rcases List.mem_cons.mp hs with rfl | hs
  · exact ECond.of_hdr (show s < l by omega) (show l₁ ≤ e by omega)
  · exact h4 sp hs

theorem ESeg.leaf (h : s ≤ e) : ESeg s (e + 1) [(s, e)] [s] [] :=
  ESeg.hdr (q := e + 1) (ESeg.nil.mono (p := e + 1) (by omega) (Nat.le_refl _)) (Nat.le_refl _)
end eseg

theorem eseg_all :
    (∀ x : Stmt, wfS x = true → okES x = true → ESegX x.span.1 (x.span.2 + 1) (spansS x) (sxS x)) ∧
    (∀ ss : List Stmt, (∀ p, wfL p ss = true → okEL ss = true → ESegX p (posL p ss) (spansL ss) (sxL ss)) ∧
      (∀ p, wfL p ss = true → okEL ss = true → ESegX p (posL p ss) (spansL ss) (sxAlts ss))) := by
  refine stmt_rs_ind ?_ ?_ ?_ ?_ ?_ ?_ ?_ ?_ ?_ ?_ ?_ ?_ ?_ ?_ ?_ ?_ ?_ ?_
  · intro s e c h hw _
    rw [wfS_simple, decide_eq_true_eq] at hw
    rw [spansS_simple, sxS_simple]; exact ESeg.leaf hw
  · intro s e c h hw _
    rw [wfS_ret, decide_eq_true_eq] at hw
    rw [spansS_ret, sxS_ret]; exact ESeg.leaf hw
  · intro s e hw _
    rw [wfS_brk, decide_eq_true_eq] at hw
    rw [spansS_brk, sxS_brk]; exact ESeg.leaf hw
  · intro s e hw _
    rw [wfS_cont, decide_eq_true_eq] at hw
    rw [spansS_cont, sxS_cont]; exact ESeg.leaf hw
  · intro s e hw _
    rw [wfS_raise, decide_eq_true_eq] at hw
    rw [spansS_raise, sxS_raise]; exact ESeg.leaf hw
  · intro s e a b iha ihb hw hok
    rw [wfS_ite] at hw
    simp only [Bool.and_eq_true, decide_eq_true_eq] at hw
    obtain ⟨⟨⟨hse, wa⟩, wb⟩, hq⟩ := hw
    rw [okES_ite, Bool.and_eq_true] at hok
    rw [spansS_ite, sxS_ite]
    exact ((iha.1 _ wa hok.1).comp (ihb.1 _ wb hok.2)).hdr hq
  · intro s e a b iha ihb hw hok
    rw [wfS_elifc] at hw
    simp only [Bool.and_eq_true, decide_eq_true_eq] at hw
    obtain ⟨⟨⟨hse, wa⟩, wb⟩, hq⟩ := hw
    rw [okES_elifc] at hok
    simp only [Bool.and_eq_true] at hok
    obtain ⟨⟨hf, oa⟩, ob⟩ := hok
    obtain ⟨f, hf⟩ := Option.isSome_iff_exists.mp hf
    obtain ⟨f1, f2, f3, f4⟩ := firstLoc_spec a (s + 1) f wa hf
    have gb := posL_ge b _ wb
    have sab := ((iha.1 _ wa oa).comp (ihb.1 _ wb ob)).mono (Nat.le_succ s) hq
    rw [spansS_elifc, sxS_elifc]
    refine ⟨sab.le, sab.bnd, ?_⟩
    intro l hl
    have hl' : l = s ∨ l ∈ (sxL a).skipped ++ (sxL b).skipped := List.mem_cons.mp hl
    rcases hl' with hl' | hl'
    · subst hl'
      refine ⟨Nat.le_refl _, f, List.mem_append.mpr (.inl f1), by omega, by simp only [Stmt.span]; omega, ?_⟩
      intro sp hs
      rcases List.mem_append.mp hs with hs | hs
      · exact ECond.of_ge (show l < f by omega) (f4 sp hs)
      · have := (spans_bounds b _ wb sp hs).1
        exact ECond.of_ge (show l < f by omega) (by omega)
    · exact sab.ek l hl'
  · intro s e a iha hw hok
    rw [wfS_elsec] at hw
    simp only [Bool.and_eq_true, decide_eq_true_eq] at hw
    rw [okES_elsec] at hok
    rw [spansS_elsec, sxS_elsec]
    exact (iha.1 _ hw.1.2 hok).mono (Nat.le_succ s) hw.2
  · intro s e a b iha ihb hw hok
    rw [wfS_loop] at hw
    simp only [Bool.and_eq_true, decide_eq_true_eq] at hw
    obtain ⟨⟨⟨hse, wa⟩, wb⟩, hq⟩ := hw
    rw [okES_loop, Bool.and_eq_true] at hok
    rw [spansS_loop, sxS_loop]
    exact ((iha.1 _ wa hok.1).comp (ihb.1 _ wb hok.2)).hdr hq
  · intro s e a hs c d iha ihh ihc ihd hw hok
    rw [wfS_try] at hw
    simp only [Bool.and_eq_true, decide_eq_true_eq] at hw
    obtain ⟨⟨⟨⟨⟨hse, wa⟩, wh⟩, wc⟩, wd⟩, hq⟩ := hw
    rw [okES_try] at hok
    simp only [Bool.and_eq_true] at hok
    obtain ⟨⟨⟨oa, oh⟩, oc⟩, od⟩ := hok
    have sa := iha.1 _ wa oa
    have sh := ihh.2 _ wh oh
    have sc := ihc.1 _ wc oc
    have sd := ihd.1 _ wd od
    have sel : ESegX (posL (posL (s + 1) a) hs) (posL (posL (posL (s + 1) a) hs) c) (spansL c)
        (if (sxL a).ex.normal then sxL c else {}) := by
      split
      · exact sc
      · exact sc.drop
    rw [spansS_try, sxS_try]; simp only [Stmt.span]
    split
    · exact (((sa.comp sh).comp sel).comp_drop sd).mono (Nat.le_succ s) hq
    · exact (((sa.comp sh).comp sel).comp sd).mono (Nat.le_succ s) hq
  · intro s e a iha hw hok
    rw [wfS_handler] at hw
    simp only [Bool.and_eq_true, decide_eq_true_eq] at hw
    rw [okES_handler] at hok
    rw [spansS_handler, sxS_handler]
    exact (iha.1 _ hw.1.2 hok).hdr hw.2
  · intro s e a iha hw hok
    rw [wfS_with] at hw
    simp only [Bool.and_eq_true, decide_eq_true_eq] at hw
    rw [okES_with] at hok
    rw [spansS_with, sxS_with]
    exact (iha.1 _ hw.1.2 hok).hdr hw.2
  · intro s e a iha hw hok
    rw [wfS_match] at hw
    simp only [Bool.and_eq_true, decide_eq_true_eq] at hw
    rw [okES_match] at hok
    rw [spansS_match, sxS_match]
    exact (iha.2 _ hw.1.2 hok).hdr hw.2
  · intro s e a iha hw hok
    rw [wfS_case] at hw
    simp only [Bool.and_eq_true, decide_eq_true_eq] at hw
    rw [okES_case] at hok
    rw [spansS_case, sxS_case]
    exact (iha.1 _ hw.1.2 hok).hdr hw.2
  · intro s e a hw _
    rw [wfS_def, decide_eq_true_eq] at hw
    rw [spansS_def, sxS_def]; exact ESeg.leaf hw
  · intro s e a iha hw hok
    rw [wfS_class] at hw
    simp only [Bool.and_eq_true, decide_eq_true_eq] at hw
    rw [okES_class] at hok
    rw [spansS_class, sxS_class]
    exact (iha.1 _ hw.1.2 hok).hdr hw.2
  · refine ⟨?_, ?_⟩
    · intro p _ _
      rw [spansL_nil, sxL_nil]; exact ESeg.nil
    · intro p _ _
      rw [spansL_nil, sxAlts_nil]; exact ESeg.nil
  · intro x xs hx hxs
    refine ⟨?_, ?_⟩
    · intro p hw hok
      rw [wfL_cons] at hw
      simp only [Bool.and_eq_true, decide_eq_true_eq] at hw
      obtain ⟨⟨hp, wx⟩, wxs⟩ := hw
      rw [okEL_cons, Bool.and_eq_true] at hok
      have sx := (hx wx hok.1).mono hp (Nat.le_refl _)
      have sxs := hxs.1 _ wxs hok.2
      rw [spansL_cons, posL_cons, sxL_cons]
      split
      · exact sx.comp sxs
      · exact sx.comp_drop sxs
    · intro p hw hok
      rw [wfL_cons] at hw
      simp only [Bool.and_eq_true, decide_eq_true_eq] at hw
      obtain ⟨⟨hp, wx⟩, wxs⟩ := hw
      rw [okEL_cons, Bool.and_eq_true] at hok
      have sx := (hx wx hok.1).mono hp (Nat.le_refl _)
      have sxs := hxs.2 _ wxs hok.2
      rw [spansL_cons, posL_cons, sxAlts_cons]
      exact sx.comp sxs

/-- the strengthened statement for a well-formed list: every entered `elif` head lies inside the lines of the list and has a
witness line inside the lines of the list -/
theorem elif_static_strong (body : List Stmt) (p : Nat) (hw : wfL p body = true) (hok : okEL body = true) :
    ∀ l ∈ (sxL body).skipped, p ≤ l ∧ ∃ l₁ ∈ (sxL body).lines, l < l₁ ∧ l₁ < posL p body ∧
      ∀ sp ∈ spansL body, sp.1 ≠ l ∧ (sp.1 < l → l ≤ sp.2 → l₁ ≤ sp.2) ∧ (l < sp.1 → l₁ ≤ sp.1) :=
  ((eseg_all.2 body).1 p hw hok).ek

theorem elif_static (body : List Stmt) (p : Nat) (hw : wfL p body = true) (hok : okEL body = true) :
    ∀ l ∈ (sxL body).skipped, ElifOK (spansL body) (sxL body).lines l := by
  intro l hl
  obtain ⟨_, l₁, h1, h2, _, h4⟩ := elif_static_strong body p hw hok l hl
  exact ⟨l₁, h1, h2, h4⟩

end PV.CFGSound
