import PV.Model.TED
/-!
Lemmas about the specification `PV.TED.ted` used by the Zhang–Shasha correctness proof:
equation lemmas, sub-additivity under concatenation, and Zhang–Shasha's form of the match case.
-/
set_option linter.unusedSimpArgs false
namespace PV.ZSProof
open PV.TED

theorem ted_nil_nil (c : Cost) : ted c [] [] = 0 := by rw [ted]
theorem ted_cons_nil (c : Cost) (a as F) : ted c (.node a as :: F) [] = ted c (as.reverse ++ F) [] + c.del a := by rw [ted]
theorem ted_nil_cons (c : Cost) (b bs G) : ted c [] (.node b bs :: G) = ted c [] (bs.reverse ++ G) + c.ins b := by rw [ted]
theorem ted_cons_cons (c : Cost) (a as F b bs G) :
    ted c (.node a as :: F) (.node b bs :: G) =
      min (ted c (as.reverse ++ F) (.node b bs :: G) + c.del a)
     (min (ted c (.node a as :: F) (bs.reverse ++ G) + c.ins b)
          (ted c as.reverse bs.reverse + ted c F G + c.ren a b)) := by rw [ted]

theorem ted_del_le (c : Cost) (a as F G) : ted c (.node a as :: F) G ≤ ted c (as.reverse ++ F) G + c.del a := by
  match G with
  | [] => rw [ted_cons_nil]; exact Nat.le_refl _
  | .node b bs :: G => rw [ted_cons_cons]; exact Nat.min_le_left _ _
theorem ted_ins_le (c : Cost) (b bs F G) : ted c F (.node b bs :: G) ≤ ted c F (bs.reverse ++ G) + c.ins b := by
  match F with
  | [] => rw [ted_nil_cons]; exact Nat.le_refl _
  | .node a as :: F => rw [ted_cons_cons]; omega

/-- edit scripts of independent parts compose: the distance of concatenated forests is at most the
sum of the distances of the parts -/
theorem ted_append_le (c : Cost) (F G : List Tree) :
    ∀ n (F₁ G₁ : List Tree), sizeL F₁ + sizeL G₁ ≤ n → ted c (F₁ ++ F) (G₁ ++ G) ≤ ted c F₁ G₁ + ted c F G := by
  intro n
  induction n with
  | zero =>
    intro F₁ G₁ h
    match F₁, G₁ with
    | [], [] => simp [ted_nil_nil]
    | .node a as :: F₁, _ => simp [sizeL, Tree.size] at h
    | _, .node b bs :: G₁ => simp [sizeL, Tree.size] at h
  | succ n ih =>
    intro F₁ G₁ h
    match F₁, G₁ with
    | [], [] => simp [ted_nil_nil]
    | .node a as :: F₁, [] =>
      rw [ted_cons_nil]
      have h1 := ted_del_le c a as (F₁ ++ F) ([] ++ G)
      have h2 := ih (as.reverse ++ F₁) [] (by simp only [sizeL, Tree.size, sizeL_append, sizeL_reverse] at *; omega)
      simp only [List.append_assoc, List.cons_append] at *
      omega
    | [], .node b bs :: G₁ =>
      rw [ted_nil_cons]
      have h1 := ted_ins_le c b bs ([] ++ F) (G₁ ++ G)
      have h2 := ih [] (bs.reverse ++ G₁) (by simp only [sizeL, Tree.size, sizeL_append, sizeL_reverse] at *; omega)
      simp only [List.append_assoc, List.cons_append] at *
      omega
    | .node a as :: F₁, .node b bs :: G₁ =>
      rw [ted_cons_cons c a as F₁ b bs G₁]
      have h1 := ted_del_le c a as (F₁ ++ F) (.node b bs :: G₁ ++ G)
      have h2 := ih (as.reverse ++ F₁) (.node b bs :: G₁) (by simp only [sizeL, Tree.size, sizeL_append, sizeL_reverse] at *; omega)
      have h3 := ted_ins_le c b bs (.node a as :: F₁ ++ F) (G₁ ++ G)
      have h4 := ih (.node a as :: F₁) (bs.reverse ++ G₁) (by simp only [sizeL, Tree.size, sizeL_append, sizeL_reverse] at *; omega)
      have h5 := ih F₁ G₁ (by simp only [sizeL, Tree.size, sizeL_append, sizeL_reverse] at *; omega)
      have h6 : ted c (.node a as :: F₁ ++ F) (.node b bs :: G₁ ++ G) ≤
          ted c as.reverse bs.reverse + ted c (F₁ ++ F) (G₁ ++ G) + c.ren a b := by
        rw [List.cons_append, List.cons_append, ted_cons_cons]; omega
      simp only [List.append_assoc, List.cons_append] at *
      omega

/-- Zhang–Shasha's form of the match case: the two right-most trees are matched against each other as
whole trees -/
theorem ted_cons_cons_zs (c : Cost) (a as F b bs G) :
    ted c (.node a as :: F) (.node b bs :: G) =
      min (ted c (as.reverse ++ F) (.node b bs :: G) + c.del a)
     (min (ted c (.node a as :: F) (bs.reverse ++ G) + c.ins b)
          (ted c F G + ted c [.node a as] [.node b bs])) := by
  have h1 := ted_append_le c F G _ [.node a as] [.node b bs] (Nat.le_refl _)
  have h2 : ted c [.node a as] [.node b bs] ≤ ted c as.reverse bs.reverse + c.ren a b := by
    rw [ted_cons_cons]; simp [ted_nil_nil]; omega
  simp only [List.cons_append, List.nil_append] at h1
  rw [ted_cons_cons] at h1 ⊢
  omega
end PV.ZSProof
