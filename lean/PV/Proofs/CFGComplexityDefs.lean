import PV.Proofs.CFGComplete
import PV.Proofs.CFGSound3
import PV.Model.Decisions
/-!
Property C03 for the CFG mirror — shared definitions and the counting / liveness toolbox.

* `cnt r L`: the quantity `complexity` computes from an edge list `L` and a reachability test `r`
  (distinct `r`-sources of conditional edges + number of exception edges with an `r`-source);
* `ldL nh` / `ldS nh` / `ldAlts nh`: the STRUCTURAL live decision count (companion of `sxL`): a decision is counted
  exactly when `sxL` says that control can get there (`nh` = number of exception edges one `raise` creates in the
  current context: 1 outside any `try`, the number of handlers of the innermost `try` otherwise);
* `okCL` / `okCS` / `okCHs` / `okCCases`: the fragment (everything except a non-empty `finally`, `break`/`continue`
  outside a loop, stray `except` / `case` clauses);
* `LTI`: the LIVE target frame (new edges whose source is reachable in the final graph have targets satisfying `G`);
* `EntryC`, `PostC`, `QCL`, `QCS`: the statements proved by induction over the program.
-/
namespace PV.CFGSound
open PV.CFG PV.Dec

/-! ### the counted quantity -/

def isCond (t : ETy) : Bool := t == .condT || t == .condF

/-- sources of conditional edges that satisfy `r` (with repetitions) -/
def condSrc (r : Nat → Bool) (L : List Edge) : List Nat :=
  (L.filter (fun x => r x.1 && (x.2.2 == .condT || x.2.2 == .condF))).map (·.1)

def excCnt (r : Nat → Bool) (L : List Edge) : Nat := (L.filter (fun x => r x.1 && x.2.2 == .exc)).length

def cnt (r : Nat → Bool) (L : List Edge) : Nat := (condSrc r L).eraseDups.length + excCnt r L

theorem complexity_eq_cnt (st : St) : complexity st = cnt (fun b => (reachable st).contains b) st.edges + 1 := rfl

/-- reachability in `E` as a Boolean test (classical) -/
noncomputable def rE (E : List Edge) : Nat → Bool := fun b => @decide (R E b) (Classical.propDecidable _)

theorem rE_true {E : List Edge} {b : Nat} : rE E b = true ↔ R E b := by unfold rE; exact @decide_eq_true_iff _ (Classical.propDecidable _)
theorem rE_false {E : List Edge} {b : Nat} : rE E b = false ↔ ¬ R E b := by
  rw [← rE_true]; cases rE E b <;> simp

/-! #### `eraseDups` as a cardinality -/
theorem nodup_eraseDups (l : List Nat) : l.eraseDups.Nodup := nodup_eraseDups_aux _ _ (Nat.le_refl _)

theorem card_congr {l₁ l₂ : List Nat} (h : ∀ x, x ∈ l₁ ↔ x ∈ l₂) : l₁.eraseDups.length = l₂.eraseDups.length := by
  apply Nat.le_antisymm
  · exact List.Nodup.length_le_of_subset (nodup_eraseDups l₁)
      (fun x hx => List.mem_eraseDups.mpr ((h x).mp (List.mem_eraseDups.mp hx)))
  · exact List.Nodup.length_le_of_subset (nodup_eraseDups l₂)
      (fun x hx => List.mem_eraseDups.mpr ((h x).mpr (List.mem_eraseDups.mp hx)))

theorem card_cons_mem {a : Nat} {l : List Nat} (h : a ∈ l) : (a :: l).eraseDups.length = l.eraseDups.length :=
  card_congr (fun x => ⟨fun hx => by rcases List.mem_cons.mp hx with rfl | hx; exact h; exact hx, fun hx => List.mem_cons_of_mem _ hx⟩)

theorem card_cons_not_mem {a : Nat} {l : List Nat} (h : a ∉ l) : (a :: l).eraseDups.length = l.eraseDups.length + 1 := by
  rw [List.eraseDups_cons]
  have : l.filter (fun b => !b == a) = l := by
    rw [List.filter_eq_self]
    intro x hx
    have : x ≠ a := fun hxa => h (hxa ▸ hx)
    simp [this]
  rw [this]; rfl

/-! #### one edge at a time -/
section cnt
variable {r : Nat → Bool} {a b : Nat} {t : ETy} {L : List Edge}

theorem mem_condSrc {x : Nat} : x ∈ condSrc r L ↔ ∃ e ∈ L, e.1 = x ∧ r x = true ∧ isCond e.2.2 = true := by
  unfold condSrc isCond
  simp only [List.mem_map, List.mem_filter, Bool.and_eq_true]
  constructor
  · rintro ⟨e, ⟨he, h1, h2⟩, rfl⟩; exact ⟨e, he, rfl, h1, h2⟩
  · rintro ⟨e, he, rfl, h1, h2⟩; exact ⟨e, ⟨he, h1, h2⟩, rfl⟩

/-- an edge that is neither conditional nor an exception edge does not count -/
theorem cnt_cons_plain (h1 : isCond t = false) (h2 : t ≠ .exc) : cnt r ((a, b, t) :: L) = cnt r L := by
  unfold cnt condSrc excCnt isCond at *
  have e1 : (t == ETy.condT || t == ETy.condF) = false := h1
  have e2 : (t == ETy.exc) = false := by simpa using h2
  simp [e1, e2]

/-- an edge from a block that does not satisfy `r` does not count -/
theorem cnt_cons_dead (h : r a = false) : cnt r ((a, b, t) :: L) = cnt r L := by
  unfold cnt condSrc excCnt
  simp [h]

theorem cnt_cons_exc (h : r a = true) : cnt r ((a, b, .exc) :: L) = cnt r L + 1 := by
  unfold cnt condSrc excCnt
  simp [h]
  omega

/-- the first conditional edge of a reachable block -/
theorem cnt_cons_cond_new (h : r a = true) (hc : isCond t = true) (hn : ∀ e ∈ L, e.1 ≠ a) : cnt r ((a, b, t) :: L) = cnt r L + 1 := by
  have hx : t ≠ .exc := by intro h; subst h; simp [isCond] at hc
  have e2 : (t == ETy.exc) = false := by simpa using hx
  have e1 : (t == ETy.condT || t == ETy.condF) = true := hc
  have hnm : a ∉ condSrc r L := by
    intro hm
    obtain ⟨e, he, h1, _⟩ := mem_condSrc.mp hm
    exact hn e he h1
  have hs : condSrc r ((a, b, t) :: L) = a :: condSrc r L := by
    unfold condSrc; simp [h, e1]
  have hx' : excCnt r ((a, b, t) :: L) = excCnt r L := by
    unfold excCnt; simp [e2]
  unfold cnt
  rw [hs, hx', card_cons_not_mem hnm]; omega

/-- a further conditional edge of a block that has one already -/
theorem cnt_cons_cond_old (hc : isCond t = true) {b' : Nat} {t' : ETy} (ho : (a, b', t') ∈ L) (hc' : isCond t' = true) :
    cnt r ((a, b, t) :: L) = cnt r L := by
  cases hr : r a with
  | false => exact cnt_cons_dead hr
  | true =>
    have hx : t ≠ .exc := by intro h; subst h; simp [isCond] at hc
    have e2 : (t == ETy.exc) = false := by simpa using hx
    have e1 : (t == ETy.condT || t == ETy.condF) = true := hc
    have hm : a ∈ condSrc r L := mem_condSrc.mpr ⟨_, ho, rfl, hr, hc'⟩
    have hs : condSrc r ((a, b, t) :: L) = a :: condSrc r L := by
      unfold condSrc; simp [hr, e1]
    have hx' : excCnt r ((a, b, t) :: L) = excCnt r L := by
      unfold excCnt; simp [e2]
    unfold cnt
    rw [hs, hx', card_cons_mem hm]

/-- edges from blocks that do not satisfy `r` do not count -/
theorem cnt_append_dead : ∀ (ne : List Edge), (∀ e ∈ ne, r e.1 = false) → cnt r (ne ++ L) = cnt r L
  | [], _ => rfl
  | (a, b, t) :: ne, h => by
    rw [List.cons_append, cnt_cons_dead (h _ (List.mem_cons_self ..))]
    exact cnt_append_dead ne (fun e he => h e (List.mem_cons_of_mem _ he))

theorem cnt_congr {r r' : Nat → Bool} (h : ∀ x, r x = r' x) (L : List Edge) : cnt r L = cnt r' L := by
  have : r = r' := funext h
  rw [this]
end cnt

/-! #### the primitive updates -/
section cntSt
variable {r : Nat → Bool} (s : St) (a b : Nat) (t : ETy)

theorem cnt_edge_plain (h1 : isCond t = false) (h2 : t ≠ .exc) : cnt r (s.edge a b t).edges = cnt r s.edges := cnt_cons_plain h1 h2
theorem cnt_edge_dead (h : r a = false) : cnt r (s.edge a b t).edges = cnt r s.edges := cnt_cons_dead h
theorem cnt_eue_plain (h1 : isCond t = false) (h2 : t ≠ .exc) : cnt r (s.edgeUnlessExit a b t).edges = cnt r s.edges := by
  rcases edgeUnlessExit_cases s a b t with ⟨_, h⟩ | ⟨_, h⟩ <;> rw [h]
  exact cnt_cons_plain h1 h2

/-- the exception edges `src → h` (`h ∈ hs`) of a reachable block -/
theorem cnt_foldl_exc (src : Nat) (h : r src = true) : ∀ (hs : List Nat) (s : St),
    cnt r (hs.foldl (fun st h => st.edge src h .exc) s).edges = cnt r s.edges + hs.length
  | [], _ => rfl
  | x :: hs, s => by
    simp only [List.foldl_cons, List.length_cons]
    rw [cnt_foldl_exc src h hs, edge_edges, cnt_cons_exc h]; omega
end cntSt

/-! ### the structural live decision count -/
set_option linter.unusedSimpArgs false in
mutual
  /-- live decisions of a statement list: the statements after one that cannot fall through are not counted -/
  def ldL (nh : Nat) : List Stmt → Nat
    | [] => 0
    | x :: xs => ldS nh x + (if (sxS x).ex.normal then ldL nh xs else 0)
  termination_by l => 2 * sizeL l
  decreasing_by
    all_goals (try simp_wf)
    all_goals (try simp only [Stmt.size, sizeL])
    all_goals omega
  /-- live decisions of one statement that is entered -/
  def ldS (nh : Nat) : Stmt → Nat
    | .simple _ _ comp hasComp | .ret _ _ comp hasComp => if hasComp then compClauses comp else 0
    | .brk .. | .cont .. | .def_ .. => 0
    | .raise .. => nh
    | .ite _ _ a b | .elifc _ _ a b | .loop _ _ a b => 1 + ldL nh a + ldL nh b
    | .elsec _ _ a | .class_ _ _ a | .case_ _ _ a => ldL nh a
    | .handler _ _ a => 1 + ldL nh a
    | .with_ _ _ a => 1 + ldL nh a
    | .match_ _ _ cs => (if cs.isEmpty then 0 else 1) + ldAlts nh cs
    | .try_ _ _ a hs c _ =>
      let nh' := if hs.length > 0 then hs.length else 1
      ldL nh' a + ldAlts nh' hs + (if (sxL a).ex.normal then ldL nh' c else 0)
  termination_by x => 2 * x.size + 1
  decreasing_by
    all_goals (try simp_wf)
    all_goals (try simp only [Stmt.size, sizeL])
    all_goals omega
  /-- alternatives (handlers of an entered `try`, cases of an entered `match`): each is entered -/
  def ldAlts (nh : Nat) : List Stmt → Nat
    | [] => 0
    | x :: xs => ldS nh x + ldAlts nh xs
  termination_by l => 2 * sizeL l
  decreasing_by
    all_goals (try simp_wf)
    all_goals (try simp only [Stmt.size, sizeL])
    all_goals omega
end

theorem ldL_nil (nh : Nat) : ldL nh [] = 0 := by rw [ldL]
theorem ldL_cons (nh : Nat) (x : Stmt) (xs : List Stmt) :
    ldL nh (x :: xs) = ldS nh x + (if (sxS x).ex.normal then ldL nh xs else 0) := by rw [ldL]
theorem ldAlts_nil (nh : Nat) : ldAlts nh [] = 0 := by rw [ldAlts]
theorem ldAlts_cons (nh : Nat) (x : Stmt) (xs : List Stmt) : ldAlts nh (x :: xs) = ldS nh x + ldAlts nh xs := by rw [ldAlts]
theorem ldS_simple (nh s e : Nat) (c : List Bool) (h : Bool) : ldS nh (.simple s e c h) = if h then compClauses c else 0 := by rw [ldS]
theorem ldS_ret (nh s e : Nat) (c : List Bool) (h : Bool) : ldS nh (.ret s e c h) = if h then compClauses c else 0 := by rw [ldS]
theorem ldS_brk (nh s e : Nat) : ldS nh (.brk s e) = 0 := by rw [ldS]
theorem ldS_cont (nh s e : Nat) : ldS nh (.cont s e) = 0 := by rw [ldS]
theorem ldS_def (nh s e : Nat) (b : List Stmt) : ldS nh (.def_ s e b) = 0 := by rw [ldS]
theorem ldS_raise (nh s e : Nat) : ldS nh (.raise s e) = nh := by rw [ldS]
theorem ldS_ite (nh s e : Nat) (a b : List Stmt) : ldS nh (.ite s e a b) = 1 + ldL nh a + ldL nh b := by rw [ldS]
theorem ldS_elifc (nh s e : Nat) (a b : List Stmt) : ldS nh (.elifc s e a b) = 1 + ldL nh a + ldL nh b := by rw [ldS]
theorem ldS_loop (nh s e : Nat) (a b : List Stmt) : ldS nh (.loop s e a b) = 1 + ldL nh a + ldL nh b := by rw [ldS]
theorem ldS_elsec (nh s e : Nat) (a : List Stmt) : ldS nh (.elsec s e a) = ldL nh a := by rw [ldS]
theorem ldS_class (nh s e : Nat) (a : List Stmt) : ldS nh (.class_ s e a) = ldL nh a := by rw [ldS]
theorem ldS_case (nh s e : Nat) (a : List Stmt) : ldS nh (.case_ s e a) = ldL nh a := by rw [ldS]
theorem ldS_handler (nh s e : Nat) (a : List Stmt) : ldS nh (.handler s e a) = 1 + ldL nh a := by rw [ldS]
theorem ldS_with (nh s e : Nat) (a : List Stmt) : ldS nh (.with_ s e a) = 1 + ldL nh a := by rw [ldS]
theorem ldS_match (nh s e : Nat) (cs : List Stmt) : ldS nh (.match_ s e cs) = (if cs.isEmpty then 0 else 1) + ldAlts nh cs := by rw [ldS]
theorem ldS_try (nh s e : Nat) (a hs c d : List Stmt) :
    ldS nh (.try_ s e a hs c d) =
      ldL (if hs.length > 0 then hs.length else 1) a + ldAlts (if hs.length > 0 then hs.length else 1) hs +
        (if (sxL a).ex.normal then ldL (if hs.length > 0 then hs.length else 1) c else 0) := by rw [ldS]

theorem ldL_single (nh : Nat) (x : Stmt) : ldL nh [x] = ldS nh x := by
  rw [ldL_cons, ldL_nil]; split <;> rfl

/-! ### the fragment -/
set_option linter.unusedSimpArgs false in
mutual
  def okCL (il : Bool) : List Stmt → Bool
    | [] => true
    | x :: xs => okCS il x && okCL il xs
  termination_by l => 2 * sizeL l
  decreasing_by
    all_goals (try simp_wf)
    all_goals (try simp only [Stmt.size, sizeL])
    all_goals omega
  def okCS (il : Bool) : Stmt → Bool
    | .simple .. | .def_ .. | .ret .. | .raise .. => true
    | .brk .. | .cont .. => il
    | .ite _ _ a b | .elifc _ _ a b => okCL il a && okCL il b
    | .elsec _ _ a => okCL il a
    | .loop _ _ a b => okCL true a && okCL il b
    | .with_ _ _ a => okCL il a
    | .match_ _ _ cs => okCCases il cs
    | .class_ _ _ a => okCL false a
    | .try_ _ _ a hs c d => okCL il a && okCHs il hs && okCL il c && d.isEmpty
    | .handler .. | .case_ .. => false
  termination_by x => 2 * x.size + 1
  decreasing_by
    all_goals (try simp_wf)
    all_goals (try simp only [Stmt.size, sizeL])
    all_goals omega
  def okCCases (il : Bool) : List Stmt → Bool
    | [] => true
    | .case_ _ _ a :: cs => okCL il a && okCCases il cs
    | _ :: _ => false
  termination_by l => 2 * sizeL l
  decreasing_by
    all_goals (try simp_wf)
    all_goals (try simp only [Stmt.size, sizeL])
    all_goals omega
  def okCHs (il : Bool) : List Stmt → Bool
    | [] => true
    | .handler _ _ a :: hs => okCL il a && okCHs il hs
    | _ :: _ => false
  termination_by l => 2 * sizeL l
  decreasing_by
    all_goals (try simp_wf)
    all_goals (try simp only [Stmt.size, sizeL])
    all_goals omega
end

theorem okCL_nil (il : Bool) : okCL il [] = true := by rw [okCL]
theorem okCL_cons (il : Bool) (x : Stmt) (xs : List Stmt) : okCL il (x :: xs) = (okCS il x && okCL il xs) := by rw [okCL]
theorem okCS_brk (il : Bool) (s e : Nat) : okCS il (.brk s e) = il := by rw [okCS]
theorem okCS_cont (il : Bool) (s e : Nat) : okCS il (.cont s e) = il := by rw [okCS]
theorem okCS_ite (il : Bool) (s e : Nat) (a b : List Stmt) : okCS il (.ite s e a b) = (okCL il a && okCL il b) := by rw [okCS]
theorem okCS_elifc (il : Bool) (s e : Nat) (a b : List Stmt) : okCS il (.elifc s e a b) = (okCL il a && okCL il b) := by rw [okCS]
theorem okCS_elsec (il : Bool) (s e : Nat) (a : List Stmt) : okCS il (.elsec s e a) = okCL il a := by rw [okCS]
theorem okCS_loop (il : Bool) (s e : Nat) (a b : List Stmt) : okCS il (.loop s e a b) = (okCL true a && okCL il b) := by rw [okCS]
theorem okCS_with (il : Bool) (s e : Nat) (a : List Stmt) : okCS il (.with_ s e a) = okCL il a := by rw [okCS]
theorem okCS_match (il : Bool) (s e : Nat) (cs : List Stmt) : okCS il (.match_ s e cs) = okCCases il cs := by rw [okCS]
theorem okCS_class (il : Bool) (s e : Nat) (a : List Stmt) : okCS il (.class_ s e a) = okCL false a := by rw [okCS]
theorem okCS_try (il : Bool) (s e : Nat) (a hs c d : List Stmt) :
    okCS il (.try_ s e a hs c d) = (okCL il a && okCHs il hs && okCL il c && d.isEmpty) := by rw [okCS]
theorem okCS_handler (il : Bool) (s e : Nat) (a : List Stmt) : okCS il (.handler s e a) = false := by rw [okCS]
theorem okCS_case (il : Bool) (s e : Nat) (a : List Stmt) : okCS il (.case_ s e a) = false := by rw [okCS]

theorem okCCases_nil (il : Bool) : okCCases il [] = true := by rw [okCCases]
theorem okCCases_case (il : Bool) (s e : Nat) (a cs : List Stmt) :
    okCCases il (.case_ s e a :: cs) = (okCL il a && okCCases il cs) := by rw [okCCases]
theorem okCCases_cons {il : Bool} {x : Stmt} {cs : List Stmt} (h : okCCases il (x :: cs) = true) :
    ∃ s e a, x = .case_ s e a ∧ okCL il a = true ∧ okCCases il cs = true := by
  cases x
  case case_ s e a =>
    rw [okCCases_case, Bool.and_eq_true] at h
    exact ⟨s, e, a, rfl, h.1, h.2⟩
  all_goals (rw [okCCases] at h <;> first | cases h | (intro _ _ _ h; cases h))

theorem okCHs_nil (il : Bool) : okCHs il [] = true := by rw [okCHs]
theorem okCHs_handler (il : Bool) (s e : Nat) (a hs : List Stmt) :
    okCHs il (.handler s e a :: hs) = (okCL il a && okCHs il hs) := by rw [okCHs]
theorem okCHs_cons {il : Bool} {x : Stmt} {hs : List Stmt} (h : okCHs il (x :: hs) = true) :
    ∃ s e a, x = .handler s e a ∧ okCL il a = true ∧ okCHs il hs = true := by
  cases x
  case handler s e a =>
    rw [okCHs_handler, Bool.and_eq_true] at h
    exact ⟨s, e, a, rfl, h.1, h.2⟩
  all_goals (rw [okCHs] at h <;> first | cases h | (intro _ _ _ h; cases h))

/-! ### calm blocks: no out-edge yet, last statement is not a terminator -/
def Calm (s : St) (m : Nat) : Prop := (∀ e ∈ s.edges, e.1 ≠ m) ∧ s.blockTerminates m = false

theorem Calm.nt {s : St} {m : Nat} (h : Calm s m) : NT s m := by
  refine ⟨?_, h.2⟩
  unfold St.hasSucc
  rw [List.any_eq_false]
  intro e he
  have := h.1 e he
  simp [this]

theorem Untouched.calm {s : St} {m : Nat} (h : Untouched s m) : Calm s m := ⟨h.1, h.nt.2⟩

theorem Calm.congr {s s' : St} {m : Nat} (he : s'.edges = s.edges) (hs : s'.stmts = s.stmts) (h : Calm s m) : Calm s' m := by
  unfold Calm St.blockTerminates St.lastTy at *
  rw [he, hs]; exact h

section calm
variable {s : St} {m a b p q : Nat} {t : ETy} {ty : Ty}
theorem Calm.edge (ha : a ≠ m) (h : Calm s m) : Calm (s.edge a b t) m := by
  refine ⟨?_, h.2⟩
  intro e he
  rcases List.mem_cons.mp he with rfl | he
  · exact ha
  · exact h.1 e he
theorem Calm.eue (ha : a ≠ m) (h : Calm s m) : Calm (s.edgeUnlessExit a b t) m := by
  rcases edgeUnlessExit_cases s a b t with ⟨_, h2⟩ | ⟨_, h2⟩ <;> rw [h2]
  · exact h
  · exact h.edge ha
theorem Calm.add_ne (hb : b ≠ m) (h : Calm s m) : Calm (s.add b p q ty) m := ⟨h.1, (h.nt.add_ne hb).2⟩
theorem Calm.add_other (h : Calm s m) : Calm (s.add m p q .other) m := ⟨h.1, (h.nt.add_other).2⟩
end calm

/-- a framed call does not disturb blocks it does not own -/
theorem Inv.calm {c n : Nat} {s s' : St} (i : Inv c n s s') {m : Nat} (hm : m ≠ c) (hlt : m < n) (h : Calm s m) : Calm s' m := by
  refine ⟨?_, (i.nt hm hlt h.nt).2⟩
  obtain ⟨ne, he, hne⟩ := i.edges
  intro e hmem
  rw [he] at hmem
  rcases List.mem_append.mp hmem with h1 | h1
  · rcases hne e h1 with h2 | h2 <;> omega
  · exact h.1 e h1

/-- an edge from a calm block to a block other than EXIT is really added by `edgeUnlessExit` -/
theorem Calm.eue_eq {s : St} {a b : Nat} {t : ETy} (h : Calm s a) : s.edgeUnlessExit a b t = s.edge a b t := by
  rcases edgeUnlessExit_cases s a b t with ⟨h1, _⟩ | ⟨_, h2⟩
  · rw [h.nt.1] at h1; cases h1
  · exact h2

/-! ### the live target frame -/
/-- `s` extends `s0` by edges; those whose SOURCE is reachable in `E` have a TARGET satisfying `G` -/
def LTI (E : List Edge) (G : Nat → Prop) (s0 s : St) : Prop := ∃ ne, s.edges = ne ++ s0.edges ∧ ∀ e ∈ ne, R E e.1 → G e.2.1

section lti
variable {E : List Edge} {G G' : Nat → Prop} {s0 s s' : St}

theorem LTI.refl (E : List Edge) (G : Nat → Prop) (s : St) : LTI E G s s := ⟨[], rfl, by simp⟩

theorem LTI.trans (h₁ : LTI E G s0 s) (h₂ : LTI E G s s') : LTI E G s0 s' := by
  obtain ⟨n1, e1, p1⟩ := h₁
  obtain ⟨n2, e2, p2⟩ := h₂
  refine ⟨n2 ++ n1, by rw [e2, e1, List.append_assoc], ?_⟩
  intro e h
  rcases List.mem_append.mp h with h | h
  · exact p2 e h
  · exact p1 e h

theorem LTI.mono (h : LTI E G s0 s) (hg : ∀ x, G x → G' x) : LTI E G' s0 s := by
  obtain ⟨ne, h1, h2⟩ := h
  exact ⟨ne, h1, fun e he hr => hg _ (h2 e he hr)⟩

theorem LTI.of_edges_eq (h : LTI E G s0 s) (he : s'.edges = s.edges) : LTI E G s0 s' := by
  obtain ⟨ne, h1, h2⟩ := h
  exact ⟨ne, he.trans h1, h2⟩

theorem LTI.edge (h : LTI E G s0 s) {a b : Nat} {t : ETy} (hb : R E a → G b) : LTI E G s0 (s.edge a b t) := by
  obtain ⟨ne, h1, h2⟩ := h
  refine ⟨(a, b, t) :: ne, by simp [h1], ?_⟩
  intro e he
  rcases List.mem_cons.mp he with rfl | he
  · exact hb
  · exact h2 e he

theorem LTI.eue (h : LTI E G s0 s) {a b : Nat} {t : ETy} (hb : R E a → G b) : LTI E G s0 (s.edgeUnlessExit a b t) := by
  rcases edgeUnlessExit_cases s a b t with ⟨_, h'⟩ | ⟨_, h'⟩ <;> rw [h']
  · exact h
  · exact h.edge hb

theorem LTI.foldl (src : Nat) (t : ETy) : ∀ (hs : List Nat) (s : St), LTI E G s0 s → (R E src → ∀ h ∈ hs, G h) →
    LTI E G s0 (hs.foldl (fun st h => st.edge src h t) s)
  | [], _, h, _ => h
  | x :: hs, s, h, hg => by
    simp only [List.foldl_cons]
    exact LTI.foldl src t hs _ (h.edge (fun hr => hg hr x (List.mem_cons_self ..))) (fun hr y hy => hg hr y (List.mem_cons_of_mem _ hy))

/-- a framed call from an unreachable block adds only edges with unreachable sources -/
theorem LTI.of_dead {st : St} (w : WF st) (i : Inv st.cur st.next st s') (f : Fut E st.next s'.next s') (hd : ¬ R E st.cur)
    (G : Nat → Prop) : LTI E G st s' := by
  obtain ⟨ne, he, hne⟩ := i.edges
  refine ⟨ne, he, ?_⟩
  intro e hmem hr
  have hlt : e.1 < s'.next := (i.wf.edges e (by rw [he]; exact List.mem_append.mpr (.inl hmem))).1
  exact absurd hr (zone_dead w i f hd _ (hne e hmem) hlt)

/-- a block of the zone that no live edge targets is unreachable -/
theorem dead_of_LTI {lo hi : Nat} (f : Fut E lo hi s) {m : Nat} (h1 : lo ≤ m) (h2 : m < hi) (w0 : WF s0) (hm : s0.next ≤ m)
    (h : LTI E (fun x => x ≠ m) s0 s) : ¬ R E m := by
  intro r
  obtain ⟨later, he, hn⟩ := f
  obtain ⟨ne, hne, hg⟩ := h
  cases r with
  | entry => have := w0.two; omega
  | @step a _ t ra hmem =>
    rw [he, hne] at hmem
    rcases List.mem_append.mp hmem with h | h
    · have := hn _ h; simp only at this; omega
    · rcases List.mem_append.mp h with h | h
      · exact hg _ h ra rfl
      · have := (w0.edges _ h).2; simp only at this; omega
end lti

/-! ### the context: the innermost loop exists where `break` / `continue` are allowed; no pending `finally`;
`nh` exception edges per `raise` -/
def raiseN (X : List Exc) : Nat :=
  match X with
  | [] => 1
  | c :: _ => if c.handlers.length > 0 then c.handlers.length else 1

structure CtxC (nh : Nat) (il : Bool) (st : St) : Prop where
  loops : il = true → st.loops ≠ []
  nofin : ∀ c ∈ st.excs, c.fin = none ∧ c.processingFinally = false
  rn : raiseN st.excs = nh

theorem CtxC.of_eq {nh : Nat} {il : Bool} {s s' : St} (h : CtxC nh il s) (hl : s'.loops = s.loops) (hx : s'.excs = s.excs) : CtxC nh il s' := by
  refine ⟨?_, ?_, ?_⟩
  · rw [hl]; exact h.loops
  · rw [hx]; exact h.nofin
  · rw [hx]; exact h.rn

theorem CtxC.same {nh : Nat} {il : Bool} {s s' : St} (h : CtxC nh il s) (sm : Same s s') : CtxC nh il s' := h.of_eq sm.loops sm.excs

theorem CtxC.noLoop {nh : Nat} {il : Bool} {s : St} (h : CtxC nh il s) : CtxC nh false s := ⟨(fun h' => by cases h'), h.nofin, h.rn⟩

theorem CtxC.tfRet {nh : Nat} {il : Bool} {s : St} (h : CtxC nh il s) : targetFinallyRet s = none := by
  unfold targetFinallyRet
  rw [List.findSome?_eq_none_iff]
  intro c hc
  rw [(h.nofin c hc).1]

theorem CtxC.tfLoop {nh : Nat} {il : Bool} {s : St} (h : CtxC nh il s) (d : Nat) : targetFinallyLoop s d = none := by
  unfold targetFinallyLoop
  rw [List.findSome?_eq_none_iff]
  intro c hc
  have hc' : c ∈ s.excs := List.mem_of_mem_take hc
  rw [(h.nofin c hc').1]; simp

theorem CtxC.tf {nh : Nat} {il : Bool} {s : St} (h : CtxC nh il s) : targetFinally s = none := by
  unfold targetFinally
  rw [List.findSome?_eq_none_iff]
  intro c hc
  rw [(h.nofin c hc).1]; simp

/-- targets that a live new edge of a call started in `(n, L, X)` may have: a block allocated by the call, EXIT, the header of the
innermost loop, its exit block (only if the code can `break`), a handler block of the innermost `try` -/
def TgOK (n : Nat) (L : List (Nat × Nat × Nat)) (X : List Exc) (brk : Bool) (t : Nat) : Prop :=
  n ≤ t ∨ t = exitB ∨ (∃ h x d rest, L = (h, x, d) :: rest ∧ (t = h ∨ (t = x ∧ brk = true))) ∨
    (∃ c rest, X = c :: rest ∧ t ∈ c.handlers)

theorem TgOK.mono {n n' : Nat} {L : List (Nat × Nat × Nat)} {X : List Exc} {b b' : Bool} {t : Nat} (h : TgOK n' L X b' t) (hn : n ≤ n')
    (hb : b' = true → b = true) : TgOK n L X b t := by
  rcases h with h | h | ⟨hd, x, d, rest, hl, h⟩ | h
  · exact .inl (by omega)
  · exact .inr (.inl h)
  · refine .inr (.inr (.inl ⟨hd, x, d, rest, hl, ?_⟩))
    rcases h with h | ⟨h1, h2⟩
    · exact .inl h
    · exact .inr ⟨h1, hb h2⟩
  · exact .inr (.inr (.inr h))

/-- change of context: the context blocks of the inner call are acceptable targets of the outer call -/
theorem TgOK.weaken {n n' : Nat} {L L' : List (Nat × Nat × Nat)} {X X' : List Exc} {b b' : Bool} {t : Nat} (h : TgOK n' L' X' b' t)
    (hn : n ≤ n')
    (hL : ∀ hd x d rest, L' = (hd, x, d) :: rest → (t = hd ∨ (t = x ∧ b' = true)) → TgOK n L X b t)
    (hX : ∀ c rest, X' = c :: rest → t ∈ c.handlers → TgOK n L X b t) : TgOK n L X b t := by
  rcases h with h | h | ⟨hd, x, d, rest, hl, h⟩ | ⟨c, rest, hx, h⟩
  · exact .inl (by omega)
  · exact .inr (.inl h)
  · exact hL hd x d rest hl h
  · exact hX c rest hx h

/-- a live target is not `m` if `m` existed before the call, is not EXIT and is not an admissible context block -/
theorem TgOK.ne {n : Nat} {L : List (Nat × Nat × Nat)} {X : List Exc} {b : Bool} {t m : Nat} (h : TgOK n L X b t) (hm : m < n)
    (h1 : m ≠ exitB) (hL : ∀ hd x d rest, L = (hd, x, d) :: rest → hd ≠ m ∧ (b = true → x ≠ m))
    (hX : ∀ c rest, X = c :: rest → m ∉ c.handlers) : t ≠ m := by
  intro htm
  subst htm
  rcases h with h | h | ⟨hd, x, d, rest, hl, h⟩ | ⟨c, rest, hx, h⟩
  · omega
  · exact h1 h
  · rcases h with h | ⟨h, hb⟩
    · exact (hL hd x d rest hl).1 h.symm
    · exact (hL hd x d rest hl).2 hb h.symm
  · exact hX c rest hx h

/-- … in particular if all context blocks are below `lo ≤ m` -/
theorem TgOK.ne_ctx {s : St} {lo n : Nat} {b : Bool} {t m : Nat} (hc : CtxLt s lo) (h : TgOK n s.loops s.excs b t) (hm : m < n)
    (hlo : lo ≤ m) (h2 : 2 ≤ lo) : t ≠ m := by
  refine h.ne hm (by unfold exitB; omega) ?_ ?_
  · intro hd x d rest hl
    have := hc.1 (hd, x, d) (by rw [hl]; exact List.mem_cons_self ..)
    simp only at this
    exact ⟨by omega, fun _ => by omega⟩
  · intro c rest hx hmem
    have := (hc.2 c (by rw [hx]; exact List.mem_cons_self ..)).2 m hmem
    omega

/-! ### the statements -/
/-- the current block is reachable in the final graph and calm -/
structure EntryC (E : List Edge) (st : St) : Prop where
  reach : R E st.cur
  calm : Calm st st.cur

structure PostC (E : List Edge) (st st' : St) (ex : Ex) (n : Nat) : Prop where
  /-- the count grows by exactly the live decisions -/
  cnt : cnt (rE E) st'.edges = cnt (rE E) st.edges + n
  /-- if the code can fall through, the block that is current afterwards is reachable and calm -/
  normal : ex.normal = true → EntryC E st'
  /-- otherwise it is unreachable -/
  dead : ex.normal = false → ¬ R E st'.cur
  /-- a structural `break` reaches the exit block of the innermost loop -/
  brk : ex.brk = true → ∀ h x d rest, st.loops = (h, x, d) :: rest → R E x
  /-- live new edges only go to new blocks, EXIT, the innermost loop, the innermost handlers -/
  tgt : LTI E (TgOK st.next st.loops st.excs ex.brk) st st'

def QCL (E : List Edge) (ss : List Stmt) : Prop :=
  ∀ (nh : Nat) (il : Bool) (st : St), WF st → CtxC nh il st → okCL il ss = true →
    Fut E st.next (procList st ss).next (procList st ss) → EntryC E st →
    PostC E st (procList st ss) (sxL ss).ex (ldL nh ss)

def QCS (E : List Edge) (x : Stmt) : Prop :=
  ∀ (nh : Nat) (il : Bool) (st : St), WF st → CtxC nh il st → okCS il x = true →
    Fut E st.next (procStmt st x).next (procStmt st x) → EntryC E st →
    PostC E st (procStmt st x) (sxS x).ex (ldS nh x)

/-- what a framed call started in an UNREACHABLE block contributes: nothing -/
theorem dead_run {E : List Edge} {st s' : St} (w : WF st) (i : Inv st.cur st.next st s') (f : Fut E st.next s'.next s')
    (hd : ¬ R E st.cur) (G : Nat → Prop) :
    cnt (rE E) s'.edges = cnt (rE E) st.edges ∧ ¬ R E s'.cur ∧ LTI E G st s' := by
  refine ⟨?_, dead_cur w i f hd, LTI.of_dead w i f hd G⟩
  obtain ⟨ne, he, hne⟩ := i.edges
  rw [he]
  apply cnt_append_dead
  intro e hmem
  have hlt : e.1 < s'.next := (i.wf.edges e (by rw [he]; exact List.mem_append.mpr (.inl hmem))).1
  exact rE_false.mpr (zone_dead w i f hd _ (hne e hmem) hlt)

theorem Fut.sub {E : List Edge} {lo hi : Nat} {s : St} (f : Fut E lo hi s) : ∀ e ∈ s.edges, e ∈ E := fun _ h => f.mem h

end PV.CFGSound
