import PV.Model.UFArray
import PV.Proofs.UFCorrect
/-!
The array implementation `PV.UF.Arr` computes the same states (through `AState.abs`), the same roots
and the same components as the function model `PV.UF`, for all inputs.
-/
namespace PV.UF.Arr

theorem getD_set (a : Array Nat) (d : Nat → Nat) (x v y : Nat) (hx : x < a.size) :
    (a.setIfInBounds x v).getD y (d y) = if y = x then v else a.getD y (d y) := by
  simp only [Array.getD_eq_getD_getElem?, Array.getElem?_setIfInBounds]
  by_cases h : y = x
  · subst h; simp [hx]
  · have : ¬ x = y := fun e => h e.symm
    simp [h, this]

theorem lt_size_of_nonroot (a : Array Nat) (x : Nat) (h : a.getD x x ≠ x) : x < a.size := by
  by_cases hx : x < a.size
  · exact hx
  · simp [Array.getD_eq_getD_getElem?, Array.getElem?_eq_none (Nat.le_of_not_lt hx)] at h

theorem abs_init (n : Nat) : (init n).abs = PV.UF.init := by
  simp only [AState.abs, init, PV.UF.init, State.mk.injEq]
  constructor
  · funext x
    simp only [Array.getD_eq_getD_getElem?, Array.getElem?_range]
    split <;> simp
  · funext x
    simp only [Array.getD_eq_getD_getElem?, Array.getElem?_replicate]
    split <;> simp

theorem abs_set_parent (p r : Array Nat) (x v : Nat) (hx : x < p.size) :
    (AState.mk (p.setIfInBounds x v) r).abs =
      ⟨upd (AState.mk p r).abs.parent x v, (AState.mk p r).abs.rank⟩ := by
  simp only [AState.abs, State.mk.injEq, and_true]
  funext y
  exact getD_set p (fun y => y) x v y hx

theorem abs_set_rank (p r : Array Nat) (x v : Nat) (hx : x < r.size) :
    (AState.mk p (r.setIfInBounds x v)).abs =
      ⟨(AState.mk p r).abs.parent, upd (AState.mk p r).abs.rank x v⟩ := by
  simp only [AState.abs, State.mk.injEq, true_and]
  funext y
  exact getD_set r (fun _ => 0) x v y hx

/-- `Arr.find` simulates `find` (unconditionally) and keeps the array sizes -/
theorem find_sim (fuel : Nat) : ∀ (a : AState) (x : Nat),
    (find fuel a x).2 = (PV.UF.find fuel a.abs x).2 ∧
    (find fuel a x).1.abs = (PV.UF.find fuel a.abs x).1 ∧
    (find fuel a x).1.parent.size = a.parent.size ∧ (find fuel a x).1.rank.size = a.rank.size := by
  induction fuel with
  | zero => intro a x; exact ⟨rfl, rfl, rfl, rfl⟩
  | succ f ih =>
    intro a x
    by_cases hx : a.parent.getD x x = x
    · have hx' : a.abs.parent x = x := hx
      simp [find, PV.UF.find, hx, hx']
    · have hx' : ¬ a.abs.parent x = x := hx
      obtain ⟨e1, e2, e3, e4⟩ := ih a (a.parent.getD x x)
      have hlt : x < (find f a (a.parent.getD x x)).1.parent.size := by
        rw [e3]; exact lt_size_of_nonroot _ _ hx
      simp only [find, PV.UF.find, hx, hx', if_false]
      refine ⟨e1, ?_, ?_, e4⟩
      · rw [abs_set_parent _ _ _ _ hlt, e1]
        show State.mk (upd (find f a (a.parent.getD x x)).1.abs.parent x _)
          (find f a (a.parent.getD x x)).1.abs.rank = _
        rw [e2]; rfl
      · rw [Array.size_setIfInBounds, e3]

/-- `Arr.union` simulates `union` on states satisfying the invariant -/
theorem union_sim {n : Nat} {a : AState} (hp : a.parent.size = n) (hr : a.rank.size = n)
    (h : Inv n a.abs) {x y : Nat} (hx : x < n) (hy : y < n) :
    (union n a x y).abs = PV.UF.union n a.abs x y ∧
    (union n a x y).parent.size = n ∧ (union n a x y).rank.size = n := by
  obtain ⟨a1, a2, a3, a4⟩ := find_sim n a x
  obtain ⟨b1, b2, b3, b4⟩ := find_sim n (find n a x).1 y
  rw [a2] at b1 b2
  -- the roots are in range
  obtain ⟨r1, i1, _, _⟩ := find_inv h x
  obtain ⟨r2, i2, _, _⟩ := find_inv i1 y
  have hra : (find n a x).2 < n := a1 ▸ h.root_lt r1 hx
  have hrb : (find n (find n a x).1 y).2 < n := b1 ▸ i1.root_lt r2 hy
  have hps : (find n (find n a x).1 y).1.parent.size = n := by rw [b3, a3, hp]
  have hrs : (find n (find n a x).1 y).1.rank.size = n := by rw [b4, a4, hr]
  have hrk : ∀ z, (find n (find n a x).1 y).1.rank.getD z 0 =
      (PV.UF.find n (PV.UF.find n a.abs x).1 y).1.rank z := by
    intro z; rw [← b2]; rfl
  unfold union PV.UF.union
  simp only [hrk, ← a1, ← b1]
  split
  · exact ⟨b2, hps, hrs⟩
  · split
    · refine ⟨?_, by simpa using hps, hrs⟩
      rw [abs_set_parent _ _ _ _ (by rw [hps]; exact hra), ← b2]
    · split
      · refine ⟨?_, by simpa using hps, hrs⟩
        rw [abs_set_parent _ _ _ _ (by rw [hps]; exact hrb), ← b2]
      · refine ⟨?_, by simpa using hps, by simpa using hrs⟩
        rw [abs_set_parent _ _ _ _ (by rw [hps]; exact hrb),
          abs_set_rank _ _ _ _ (by rw [hrs]; exact hra), ← b2]

theorem foldl_sim {n : Nat} : ∀ (es : List (Nat × Nat)) (a : AState), a.parent.size = n →
    a.rank.size = n → Inv n a.abs →
    (es.foldl (step n) a).abs = es.foldl (PV.UF.step n) a.abs
  | [], _, _, _, _ => rfl
  | e :: es, a, hp, hr, h => by
    simp only [List.foldl_cons]
    by_cases hc : e.1 < n ∧ e.2 < n
    · obtain ⟨u1, u2, u3⟩ := union_sim hp hr h hc.1 hc.2
      have hs : step n a e = union n a e.1 e.2 := by simp [step, hc]
      have hs' : PV.UF.step n a.abs e = PV.UF.union n a.abs e.1 e.2 := by simp [PV.UF.step, hc]
      rw [hs, hs', ← u1]
      exact foldl_sim es _ u2 u3 (u1 ▸ union_inv h hc.1 hc.2)
    · have hs : step n a e = a := by simp [step, hc]
      have hs' : PV.UF.step n a.abs e = a.abs := by simp [PV.UF.step, hc]
      rw [hs, hs']
      exact foldl_sim es a hp hr h

theorem run_sim (n : Nat) (edges : List (Nat × Nat)) : (run n edges).abs = PV.UF.run n edges := by
  have h0 : Inv n (init n).abs := abs_init n ▸ inv_init n
  have := foldl_sim edges (init n) (by simp [init]) (by simp [init]) h0
  rw [abs_init] at this
  exact this

theorem labelPass_sim (n : Nat) : ∀ (vs : List Nat) (a : AState),
    labelPass n a vs = PV.UF.labelPass n a.abs vs
  | [], _ => rfl
  | v :: vs, a => by
    obtain ⟨e1, e2, _, _⟩ := find_sim n a v
    simp only [labelPass, PV.UF.labelPass]
    rw [labelPass_sim n vs, e1, e2]

/-- the array implementation computes exactly the components of the function model -/
theorem components_eq (n : Nat) (edges : List (Nat × Nat)) :
    components n edges = PV.UF.components n edges := by
  rw [components, PV.UF.components, labelPass_sim, run_sim]

/-- … hence the connected components -/
theorem same_class_iff_conn (n : Nat) (edges : List (Nat × Nat)) {u v : Nat} (hu : u < n)
    (hv : v < n) : (∃ c ∈ components n edges, u ∈ c ∧ v ∈ c) ↔ Conn n edges u v := by
  rw [components_eq]; exact PV.UF.same_class_iff_conn n edges hu hv

theorem components_perm (n : Nat) (edges : List (Nat × Nat)) :
    (components n edges).flatten.Perm (List.range n) := by
  rw [components_eq]; exact PV.UF.components_perm n edges

example : components 5 [(0, 1), (3, 4), (1, 2)] = [[0, 1, 2], [3, 4]] := by
  rw [components_eq]; decide

#print axioms components_eq
#print axioms same_class_iff_conn

end PV.UF.Arr
