import PV.Proofs.CFGFrame
/-!
Unfolding equations of the CFG mirror's builder functions, written with the named state updates of
`CFGFrame` (`bump`, `setCur`, …).  Each is proved by unfolding the well-founded definition once and `rfl`,
so these are *the model's own equations*, not a second definition.
-/
namespace PV.CFGSound
open PV.CFG

theorem procList_nil (st : St) : procList st [] = st := by rw [procList]
theorem procList_cons (st : St) (x : Stmt) (xs : List Stmt) : procList st (x :: xs) = procList (procStmt st x) xs := by
  rw [procList]

/-! comprehension -/
theorem go_nil (s e : Nat) (st : St) (cp : Nat) : procComp.go s e [] st cp = (st, cp) := by rw [procComp.go]
theorem go_cons (s e : Nat) (hasTest : Bool) (rest : List Bool) (st : St) (cp : Nat) :
    procComp.go s e (hasTest :: rest) st cp =
      let hdr := st.next
      let s1 := ((bump st).edge cp hdr .normal).add hdr s e .other
      let body := st.next + 1
      let s2 := (bump s1).edge hdr body .condT
      let s3 :=
        if hasTest then
          let flt := st.next + 2
          let app := st.next + 3
          ((bump ((((bump s2).edge body flt .normal).add flt s e .other))).edge flt app .condT |>.edge flt hdr .condF
            |>.add app s e .other).edge app hdr .loop
        else
          let app := st.next + 2
          ((bump (s2.add body s e .other)).edge body app .normal).edge app hdr .loop
      procComp.go s e rest s3 hdr := by
  rw [procComp.go]; cases hasTest <;> rfl

theorem procComp_eq (st : St) (s e : Nat) (comp : List Bool) :
    procComp st s e comp =
      let initB := st.next
      let exitBk := st.next + 1
      let s1 := bump (((bump st).edge st.cur initB .normal).add initB s e .other)
      let r := procComp.go s e comp s1 initB
      setCur (if r.2 != initB then r.1.edge r.2 exitBk .condF else r.1.edge initB exitBk .normal) exitBk := by
  unfold procComp; rfl

/-! terminators -/
theorem procRet_eq (st : St) (s e : Nat) (comp : List Bool) (hasComp : Bool) :
    procRet st s e comp hasComp =
      let st0 := if hasComp then procComp st s e comp else st
      let st1 := st0.add st0.cur s e .ret
      let st2 := match targetFinallyRet st1 with
        | some f => st1.edge st1.cur f .ret
        | none => st1.edge st1.cur exitB .ret
      setCur (bumpU st2) st2.next := by
  unfold procRet; rfl

theorem procBrk_eq (st : St) (s e : Nat) :
    procBrk st s e =
      let st1 := st.add st.cur s e .brk
      match st1.loops with
      | [] => st1
      | (_, ex, d) :: _ =>
        let st2 := match targetFinallyLoop st1 d with
          | some f => st1.edge st1.cur f .brk
          | none => st1.edge st1.cur ex .brk
        setCur (bumpU st2) st2.next := by
  unfold procBrk; rfl

theorem procCont_eq (st : St) (s e : Nat) :
    procCont st s e =
      let st1 := st.add st.cur s e .cont
      match st1.loops with
      | [] => st1
      | (hdr, _, d) :: _ =>
        let st2 := match targetFinallyLoop st1 d with
          | some f => st1.edge st1.cur f .cont
          | none => st1.edge st1.cur hdr .cont
        setCur (bumpU st2) st2.next := by
  unfold procCont; rfl

theorem procRaise_eq (st : St) (s e : Nat) :
    procRaise st s e =
      let st1 := st.add st.cur s e .raise
      let st2 := match targetFinally st1 with
        | some f => st1.edge st1.cur f .exc
        | none =>
          match fallbackExc st1 with
          | some c => if c.handlers.length > 0 then c.handlers.foldl (fun st h => st.edge st.cur h .exc) st1 else st1.edge st1.cur exitB .exc
          | none => st1.edge st1.cur exitB .exc
      setCur (bumpU st2) st2.next := by
  unfold procRaise; rfl

/-! statements -/
theorem procStmt_simple (st : St) (s e : Nat) (c : List Bool) (h : Bool) :
    procStmt st (.simple s e c h) =
      (if h then (procComp st s e c).add (procComp st s e c).cur s e .other else st.add st.cur s e .other) := by
  rw [procStmt]
theorem procStmt_ret (st : St) (s e : Nat) (c : List Bool) (h : Bool) : procStmt st (.ret s e c h) = procRet st s e c h := by
  rw [procStmt]
theorem procStmt_brk (st : St) (s e : Nat) : procStmt st (.brk s e) = procBrk st s e := by rw [procStmt]
theorem procStmt_cont (st : St) (s e : Nat) : procStmt st (.cont s e) = procCont st s e := by rw [procStmt]
theorem procStmt_raise (st : St) (s e : Nat) : procStmt st (.raise s e) = procRaise st s e := by rw [procStmt]
theorem procStmt_def (st : St) (s e : Nat) (b : List Stmt) : procStmt st (.def_ s e b) = st.add st.cur s e .other := by rw [procStmt]
theorem procStmt_class (st : St) (s e : Nat) (b : List Stmt) : procStmt st (.class_ s e b) = procClass st s e b := by rw [procStmt]
theorem procStmt_ite (st : St) (s e : Nat) (a b : List Stmt) : procStmt st (.ite s e a b) = procIf st s e a b := by rw [procStmt]
theorem procStmt_elifc (st : St) (s e : Nat) (a b : List Stmt) : procStmt st (.elifc s e a b) = procIf st 0 0 a b := by rw [procStmt]
theorem procStmt_elsec (st : St) (s e : Nat) (b : List Stmt) : procStmt st (.elsec s e b) = procList st b := by rw [procStmt]
theorem procStmt_loop (st : St) (s e : Nat) (a b : List Stmt) : procStmt st (.loop s e a b) = procLoop st s e a b := by rw [procStmt]
theorem procStmt_try (st : St) (s e : Nat) (a b c d : List Stmt) : procStmt st (.try_ s e a b c d) = procTry st s e a b c d := by rw [procStmt]
theorem procStmt_handler (st : St) (s e : Nat) (b : List Stmt) : procStmt st (.handler s e b) = st.add st.cur s e .other := by rw [procStmt]
theorem procStmt_with (st : St) (s e : Nat) (b : List Stmt) : procStmt st (.with_ s e b) = procWith st s e b := by rw [procStmt]
theorem procStmt_match (st : St) (s e : Nat) (b : List Stmt) : procStmt st (.match_ s e b) = procMatch st s e b := by rw [procStmt]
theorem procStmt_case (st : St) (s e : Nat) (b : List Stmt) : procStmt st (.case_ s e b) = st.add st.cur s e .other := by rw [procStmt]

theorem procElse_eq (st : St) (l : List Stmt) : procElse st l = procList st l := by
  induction l generalizing st with
  | nil => rw [procElse, procList_nil]
  | cons x xs ih =>
    rw [procList_cons]
    cases x
    case elsec => rw [procElse, ih, procStmt_elsec]
    all_goals (rw [procElse, ih]; intro _ _ _ h; cases h)

theorem procClass_eq (st : St) (s e : Nat) (body : List Stmt) :
    procClass st s e body =
      procList ((setCur ((bump st).edge st.cur st.next .normal) st.next).add st.next s e .other) body := by
  rw [procClass]; rfl

/-- the part of `procIf` before the branch on `orelse` -/
def ifHead (st : St) (s e : Nat) (thn : List Stmt) : St :=
  procList (setCur ((bump (bump (st.add st.cur s e .other))).edge st.cur st.next .condT) st.next) thn

theorem procIf_nil (st : St) (s e : Nat) (thn : List Stmt) :
    procIf st s e thn [] =
      let s3 := ifHead st s e thn
      setCur ((s3.edge st.cur (st.next + 1) .condF).edgeUnlessExit s3.cur (st.next + 1) .normal) (st.next + 1) := by
  rw [procIf]; rfl

theorem procIf_elif (st : St) (s e : Nat) (thn : List Stmt) (s' e' : Nat) (thn' orelse' : List Stmt) :
    procIf st s e thn [.elifc s' e' thn' orelse'] =
      procIfElifTail (ifHead st s e thn) st.cur (ifHead st s e thn).cur (st.next + 1) 0 0 thn' orelse' := by
  rw [procIf]; rfl

theorem procIf_ite (st : St) (s e : Nat) (thn : List Stmt) (s' e' : Nat) (thn' orelse' : List Stmt) :
    procIf st s e thn [.ite s' e' thn' orelse'] =
      procIfElifTail (ifHead st s e thn) st.cur (ifHead st s e thn).cur (st.next + 1) s' e' thn' orelse' := by
  rw [procIf]; rfl

/-- the general `else` continuation shared by `procIf` and `procIfElif` -/
def elseTail (s3 : St) (cond _thenEnd : Nat) (orelse : List Stmt) : St :=
  procList (setCur ((bump s3).edge cond s3.next .condF) s3.next) orelse

theorem procIf_else (st : St) (s e : Nat) (thn : List Stmt) (o : Stmt) (os : List Stmt)
    (h1 : ∀ s' e' a b, o :: os ≠ [.elifc s' e' a b]) (h2 : ∀ s' e' a b, o :: os ≠ [.ite s' e' a b]) :
    procIf st s e thn (o :: os) =
      let s3 := ifHead st s e thn
      let s5 := elseTail s3 st.cur s3.cur (o :: os)
      if s5.blockTerminates s3.cur && s5.blockTerminates s5.cur then setCur (bumpU s5) s5.next
      else setCur ((s5.edgeUnlessExit s3.cur (st.next + 1) .normal).edgeUnlessExit
        (s5.edgeUnlessExit s3.cur (st.next + 1) .normal).cur (st.next + 1) .normal) (st.next + 1) := by
  rw [procIf]
  cases o <;> cases os <;>
    first
    | exact absurd rfl (h1 _ _ _ _)
    | exact absurd rfl (h2 _ _ _ _)
    | (simp only [procElse_eq]; rfl)

theorem procIfElifTail_eq (st : St) (cond thenEnd merge s' e' : Nat) (thn' orelse' : List Stmt) :
    procIfElifTail st cond thenEnd merge s' e' thn' orelse' =
      let s5 := procIfElif (setCur ((bump st).edge cond st.next .condF) st.next) s' e' thn' orelse' merge
      if s5.unreach.contains s5.cur then
        if s5.blockTerminates thenEnd then s5
        else setCur ((setCur s5 merge).edgeUnlessExit thenEnd merge .normal) merge
      else setCur (s5.edgeUnlessExit thenEnd merge .normal) merge := by
  rw [procIfElifTail]; rfl

/-- the part of `procIfElif` before the branch on `orelse` -/
def elifHead (st : St) (s e : Nat) (thn : List Stmt) : St :=
  procList (setCur ((bump (st.add st.cur s e .other)).edge st.cur st.next .condT) st.next) thn

def finishElif (s : St) (thenEnd finalMerge : Nat) : St := setCur (s.edgeUnlessExit thenEnd finalMerge .normal) finalMerge

theorem procIfElif_nil (st : St) (s e : Nat) (thn : List Stmt) (fm : Nat) :
    procIfElif st s e thn [] fm =
      let s3 := elifHead st s e thn
      finishElif (s3.edge st.cur fm .condF) s3.cur fm := by
  rw [procIfElif]; rfl

theorem procIfElif_elif (st : St) (s e : Nat) (thn : List Stmt) (fm s' e' : Nat) (thn' orelse' : List Stmt) :
    procIfElif st s e thn [.elifc s' e' thn' orelse'] fm =
      let s3 := elifHead st s e thn
      finishElif (procIfElif (setCur ((bump s3).edge st.cur s3.next .condF) s3.next) 0 0 thn' orelse' fm) s3.cur fm := by
  rw [procIfElif]; rfl

theorem procIfElif_ite (st : St) (s e : Nat) (thn : List Stmt) (fm s' e' : Nat) (thn' orelse' : List Stmt) :
    procIfElif st s e thn [.ite s' e' thn' orelse'] fm =
      let s3 := elifHead st s e thn
      finishElif (procIfElif (setCur ((bump s3).edge st.cur s3.next .condF) s3.next) s' e' thn' orelse' fm) s3.cur fm := by
  rw [procIfElif]; rfl

theorem procIfElif_else (st : St) (s e : Nat) (thn : List Stmt) (fm : Nat) (o : Stmt) (os : List Stmt)
    (h1 : ∀ s' e' a b, o :: os ≠ [.elifc s' e' a b]) (h2 : ∀ s' e' a b, o :: os ≠ [.ite s' e' a b]) :
    procIfElif st s e thn (o :: os) fm =
      let s3 := elifHead st s e thn
      let s5 := elseTail s3 st.cur s3.cur (o :: os)
      if s5.blockTerminates s3.cur && s5.blockTerminates s5.cur then setCur (bumpU s5) s5.next
      else finishElif (s5.edgeUnlessExit s5.cur fm .normal) s3.cur fm := by
  rw [procIfElif]
  cases o <;> cases os <;>
    first
    | exact absurd rfl (h1 _ _ _ _)
    | exact absurd rfl (h2 _ _ _ _)
    | (simp only [procElse_eq]; rfl)

/-! loops -/
theorem procLoop_eq (st : St) (s e : Nat) (body orelse : List Stmt) :
    procLoop st s e body orelse =
      let hdr := st.next
      let bodyB := st.next + 1
      let exitBk := st.next + 2
      let hasElse := !orelse.isEmpty
      let elseB := if hasElse then st.next + 3 else 0
      let s1 := bump (bump (((bump st).edge st.cur hdr .normal).add hdr s e .other))
      let s2 := if hasElse then bump s1 else s1
      let s3 := (setLoops s2 ((hdr, exitBk, st.excs.length) :: st.loops)).edge hdr bodyB .condT
      let s4 := if hasElse then s3.edge hdr elseB .condF else s3.edge hdr exitBk .condF
      let s5 := procList (setCur s4 bodyB) body
      let s6 := setLoops (s5.edgeUnlessExit s5.cur hdr .loop) st.loops
      let s7 :=
        if hasElse then
          let s8 := procList (setCur s6 elseB) orelse
          s8.edgeUnlessExit s8.cur exitBk .normal
        else s6
      setLoops (setCur s7 exitBk) st.loops := by
  rw [procLoop]; cases orelse <;> rfl

/-! with -/
theorem procWith_eq (st : St) (s e : Nat) (body : List Stmt) :
    procWith st s e body =
      let setup := st.next
      let bodyB := st.next + 1
      let tear := st.next + 2
      let exitBk := st.next + 3
      let s1 := (bump (bump (bump (((bump st).edge st.cur setup .normal).add setup s e .other)))).edge setup bodyB .normal
      let s2 := procList (setCur s1 bodyB) body
      setCur (((s2.edgeUnlessExit s2.cur tear .normal).edge setup tear .exc).edge tear exitBk .normal) exitBk := by
  rw [procWith]; rfl

/-! match -/
theorem procMatch_eq (st : St) (s e : Nat) (cases : List Stmt) :
    procMatch st s e cases =
      let mb := st.next
      let merge := st.next + 1
      let s1 := bump (((bump st).edge st.cur mb .normal).add mb s e .other)
      let s2 := if !cases.isEmpty then (procCases s1 cases mb merge).edge mb merge .condF else s1.edge mb merge .normal
      setCur s2 merge := by
  rw [procMatch]; rfl

theorem procCases_nil (st : St) (mb merge : Nat) : procCases st [] mb merge = st := by rw [procCases]
theorem procCases_case (st : St) (s e : Nat) (body cs : List Stmt) (mb merge : Nat) :
    procCases st (.case_ s e body :: cs) mb merge =
      let cb := st.next
      let s1 := procList ((setCur ((bump st).edge mb cb .condT) cb).add cb s e .other) body
      procCases (s1.edgeUnlessExit s1.cur merge .normal) cs mb merge := by
  rw [procCases]; rfl
theorem procCases_other (st : St) (x : Stmt) (cs : List Stmt) (mb merge : Nat) (h : ∀ s e b, x ≠ .case_ s e b) :
    procCases st (x :: cs) mb merge =
      let cb := st.next
      let s1 := procStmt (setCur ((bump st).edge mb cb .condT) cb) x
      procCases (s1.edgeUnlessExit s1.cur merge .normal) cs mb merge := by
  cases x <;> first | exact absurd rfl (h _ _ _) | (rw [procCases] <;> first | rfl | (intro _ _ _ h; cases h))

/-! try -/
theorem procHandlers_handler (st : St) (s e : Nat) (body hs : List Stmt) (hb : Nat) (hbs : List Nat) (after : Nat) :
    procHandlers st (.handler s e body :: hs) (hb :: hbs) after =
      let s1 := procList ((setCur st hb).add hb s e .other) body
      procHandlers (s1.edgeUnlessExit s1.cur after .normal) hs hbs after := by
  rw [procHandlers]; rfl
theorem procHandlers_other (st : St) (x : Stmt) (hs : List Stmt) (hb : Nat) (hbs : List Nat) (after : Nat)
    (h : ∀ s e b, x ≠ .handler s e b) :
    procHandlers st (x :: hs) (hb :: hbs) after =
      let s1 := procStmt (setCur st hb) x
      procHandlers (s1.edgeUnlessExit s1.cur after .normal) hs hbs after := by
  cases x <;> first | exact absurd rfl (h _ _ _) | (rw [procHandlers] <;> first | rfl | (intro _ _ _ h; cases h))
theorem procHandlers_nil_l (st : St) (hbs : List Nat) (after : Nat) : procHandlers st [] hbs after = st := by
  rw [procHandlers] <;> (intros; simp_all)
theorem procHandlers_nil_r (st : St) (hs : List Stmt) (after : Nat) : procHandlers st hs [] after = st := by
  cases hs with
  | nil => rw [procHandlers] <;> (intros; simp_all)
  | cons x xs => cases x <;> rw [procHandlers] <;> (intros; simp_all)

set_option maxHeartbeats 4000000 in
theorem procTry_eq (st : St) (s e : Nat) (body handlers orelse fin : List Stmt) :
    procTry st s e body handlers orelse fin =
      let tryB := st.next
      let exitBk := st.next + 1
      let hasFin := !fin.isEmpty
      let hasElse := !orelse.isEmpty
      let s1 := bump ((bump st).edge st.cur tryB .normal)
      let finB := if hasFin then s1.next else 0
      let s2 := if hasFin then bump s1 else s1
      let elseB := if hasElse then s2.next else 0
      let s3 := if hasElse then bump s2 else s2
      let hbs : List Nat := (List.range handlers.length).map (fun k => s3.next + k)
      let ctx : Exc := { fin := if hasFin then some finB else none, handlers := hbs, processingFinally := false }
      let s4 := setExcs (bumpN s3 handlers.length) (ctx :: st.excs)
      let s5 := procList (setCur s4 tryB) body
      let nextAfterTry := if hasElse then elseB else if hasFin then finB else exitBk
      let s6 := hbs.foldl (fun st h => st.edge tryB h .exc) (s5.edgeUnlessExit s5.cur nextAfterTry .normal)
      let afterHandler := if hasFin then finB else exitBk
      let s7 := procHandlers s6 handlers hbs afterHandler
      let s8 :=
        if hasElse then
          let s := procList (setCur s7 elseB) orelse
          s.edgeUnlessExit s.cur afterHandler .normal
        else s7
      let s9 :=
        if hasFin then
          let s := procList (setExcs (setCur s8 finB) ({ ctx with processingFinally := true } :: st.excs)) fin
          let s := setExcs s (ctx :: st.excs)
          finallyPropagation (s.edgeUnlessExit s.cur exitBk .normal) finB
        else s8
      setExcs (setCur s9 exitBk) st.excs := by
  rw [procTry]
  cases fin <;> cases orelse <;> rfl

end PV.CFGSound
