import PV.Proofs.CFGReach
/-!
The executable breadth-first search `PV.CFG.reachable` computes exactly the blocks related by the
inductive reachability relation `R`: soundness (every listed block is `R`-reachable) and, for a state
whose edges stay inside `0 … next-1`, completeness (every `R`-reachable block is listed; the fuel
`next + 1` cannot run out before the frontier becomes empty).
-/
namespace PV.CFGSound
open PV.CFG

/-- the list of newly discovered blocks of one round of `reachFrom` -/
def nextOf (E : List Edge) (frontier seen : List Nat) : List Nat :=
  (E.filterMap (fun x => if frontier.contains x.1 && !seen.contains x.2.1 then some x.2.1 else none)).eraseDups

theorem reachFrom_succ (E : List Edge) (fuel : Nat) (frontier seen : List Nat) :
    reachFrom E (fuel + 1) frontier seen =
      if (nextOf E frontier seen).isEmpty then seen
      else reachFrom E fuel (nextOf E frontier seen) (seen ++ nextOf E frontier seen) := rfl

theorem mem_nextOf {E : List Edge} {frontier seen : List Nat} {x : Nat} :
    x ∈ nextOf E frontier seen ↔ ∃ e ∈ E, e.1 ∈ frontier ∧ e.2.1 ∉ seen ∧ e.2.1 = x := by
  unfold nextOf
  rw [List.mem_eraseDups, List.mem_filterMap]
  constructor
  · rintro ⟨e, he, h⟩
    by_cases hc : (frontier.contains e.1 && !seen.contains e.2.1) = true
    · rw [if_pos hc] at h
      simp only [Bool.and_eq_true, Bool.not_eq_true', List.contains_iff_mem] at hc
      have hs : e.2.1 ∉ seen := by
        intro hm
        have := List.contains_iff_mem.mpr hm
        rw [hc.2] at this
        exact Bool.noConfusion this
      exact ⟨e, he, hc.1, hs, Option.some.inj h⟩
    · rw [if_neg hc] at h
      cases h
  · rintro ⟨e, he, hf, hs, hx⟩
    refine ⟨e, he, ?_⟩
    have hc : (frontier.contains e.1 && !seen.contains e.2.1) = true := by
      have h1 : frontier.contains e.1 = true := List.contains_iff_mem.mpr hf
      have h2 : seen.contains e.2.1 = false := by
        cases hcs : seen.contains e.2.1 with
        | false => rfl
        | true => exact absurd (List.contains_iff_mem.mp hcs) hs
      rw [h1, h2]; rfl
    rw [if_pos hc, hx]

theorem nodup_eraseDups_aux (n : Nat) : ∀ l : List Nat, l.length ≤ n → l.eraseDups.Nodup := by
  induction n with
  | zero =>
    intro l hl
    have : l = [] := List.length_eq_zero_iff.mp (Nat.le_zero.mp hl)
    subst this
    simp
  | succ n ih =>
    intro l hl
    cases l with
    | nil => simp
    | cons a as =>
      rw [List.eraseDups_cons, List.nodup_cons]
      constructor
      · intro hm
        rw [List.mem_eraseDups, List.mem_filter] at hm
        simp at hm
      · apply ih
        have h1 : (as.filter fun b => !b == a).length ≤ as.length := List.length_filter_le _ _
        simp only [List.length_cons] at hl
        omega

theorem nodup_nextOf (E : List Edge) (frontier seen : List Nat) : (nextOf E frontier seen).Nodup :=
  nodup_eraseDups_aux _ _ (Nat.le_refl _)

/-! ### soundness -/

theorem reachFrom_sound (E : List Edge) : ∀ (fuel : Nat) (frontier seen : List Nat),
    (∀ x ∈ frontier, R E x) → (∀ x ∈ seen, R E x) → ∀ b ∈ reachFrom E fuel frontier seen, R E b := by
  intro fuel
  induction fuel with
  | zero => intro frontier seen _ hs b hb; exact hs b hb
  | succ fuel ih =>
    intro frontier seen hf hs b hb
    rw [reachFrom_succ] at hb
    by_cases hc : (nextOf E frontier seen).isEmpty = true
    · rw [if_pos hc] at hb; exact hs b hb
    · rw [if_neg hc] at hb
      have hn : ∀ x ∈ nextOf E frontier seen, R E x := by
        intro x hx
        obtain ⟨e, he, hef, _, hex⟩ := mem_nextOf.mp hx
        obtain ⟨a, c, t⟩ := e
        simp only at hef hex
        subst hex
        exact R.step (hf a hef) he
      refine ih _ _ hn ?_ b hb
      intro x hx
      rcases List.mem_append.mp hx with h | h
      · exact hs x h
      · exact hn x h

theorem reachable_sound (st : St) {b : Nat} (h : b ∈ reachable st) : R st.edges b := by
  have h0 : ∀ x ∈ [0], R st.edges x := by
    intro x hx
    rw [List.mem_singleton.mp hx]
    exact R.entry
  exact reachFrom_sound st.edges (st.next + 1) [0] [0] h0 h0 b h

/-! ### completeness -/

theorem length_le_of_nodup_lt {l : List Nat} {N : Nat} (hd : l.Nodup) (hb : ∀ x ∈ l, x < N) :
    l.length ≤ N := by
  have h := List.Nodup.length_le_of_subset (l₂ := List.range N) hd
    (fun x hx => List.mem_range.mpr (hb x hx))
  rwa [List.length_range] at h

theorem closed_complete {E : List Edge} {S : List Nat} (h0 : 0 ∈ S)
    (hc : ∀ e ∈ E, e.1 ∈ S → e.2.1 ∈ S) {b : Nat} (r : R E b) : b ∈ S := by
  induction r with
  | entry => exact h0
  | step _ he ih => exact hc _ he ih

theorem reachFrom_complete (E : List Edge) (N : Nat)
    (hE : ∀ e ∈ E, e.1 < N ∧ e.2.1 < N) : ∀ (fuel : Nat) (frontier seen : List Nat),
    seen.Nodup → (∀ x ∈ seen, x < N) → (∀ x ∈ frontier, x ∈ seen) →
    (∀ e ∈ E, e.1 ∈ seen → e.1 ∉ frontier → e.2.1 ∈ seen) → 0 ∈ seen →
    N < seen.length + fuel →
    ∀ b, R E b → b ∈ reachFrom E fuel frontier seen := by
  intro fuel
  induction fuel with
  | zero =>
    intro frontier seen hd hb _ _ _ hfuel
    have := length_le_of_nodup_lt hd hb
    omega
  | succ fuel ih =>
    intro frontier seen hd hb hfs hcl h0 hfuel b r
    rw [reachFrom_succ]
    -- every edge leaving `seen` lands in `seen` or in the next frontier
    have hstep : ∀ e ∈ E, e.1 ∈ seen → e.2.1 ∈ seen ∨ e.2.1 ∈ nextOf E frontier seen := by
      intro e he hes
      by_cases hef : e.1 ∈ frontier
      · by_cases hts : e.2.1 ∈ seen
        · exact Or.inl hts
        · exact Or.inr (mem_nextOf.mpr ⟨e, he, hef, hts, rfl⟩)
      · exact Or.inl (hcl e he hes hef)
    by_cases hc : (nextOf E frontier seen).isEmpty = true
    · rw [if_pos hc]
      have hnil : nextOf E frontier seen = [] := List.isEmpty_iff.mp hc
      refine closed_complete h0 ?_ r
      intro e he hes
      rcases hstep e he hes with h | h
      · exact h
      · rw [hnil] at h; exact absurd h List.not_mem_nil
    · rw [if_neg hc]
      have hne : nextOf E frontier seen ≠ [] := fun h => hc (List.isEmpty_iff.mpr h)
      have hlen : 0 < (nextOf E frontier seen).length := List.length_pos_iff.mpr hne
      have hdisj : ∀ x ∈ nextOf E frontier seen, x ∉ seen := by
        intro x hx
        obtain ⟨e, _, _, hes, hex⟩ := mem_nextOf.mp hx
        rw [← hex]; exact hes
      have hnb : ∀ x ∈ nextOf E frontier seen, x < N := by
        intro x hx
        obtain ⟨e, he, _, _, hex⟩ := mem_nextOf.mp hx
        rw [← hex]; exact (hE e he).2
      refine ih _ _ ?_ ?_ ?_ ?_ ?_ ?_ b r
      · rw [List.nodup_append]
        refine ⟨hd, nodup_nextOf E frontier seen, ?_⟩
        intro a ha c hcn hac
        subst hac
        exact hdisj a hcn ha
      · intro x hx
        rcases List.mem_append.mp hx with h | h
        · exact hb x h
        · exact hnb x h
      · intro x hx
        exact List.mem_append.mpr (Or.inr hx)
      · intro e he hes hen
        have hes' : e.1 ∈ seen := by
          rcases List.mem_append.mp hes with h | h
          · exact h
          · exact absurd h hen
        exact List.mem_append.mpr (hstep e he hes')
      · exact List.mem_append.mpr (Or.inl h0)
      · rw [List.length_append]
        omega

theorem reachable_complete (st : St) (hn : 0 < st.next)
    (hb : ∀ e ∈ st.edges, e.1 < st.next ∧ e.2.1 < st.next) {b : Nat} (r : R st.edges b) :
    b ∈ reachable st := by
  unfold reachable
  refine reachFrom_complete st.edges st.next hb (st.next + 1) [0] [0] ?_ ?_ ?_ ?_ ?_ ?_ b r
  · simp
  · intro x hx
    rw [List.mem_singleton.mp hx]; exact hn
  · intro x hx; exact hx
  · intro e _ hes hen; exact absurd hes hen
  · simp
  · simp only [List.length_singleton]
    omega

end PV.CFGSound

#print axioms PV.CFGSound.reachable_complete
#print axioms PV.CFGSound.reachable_sound
